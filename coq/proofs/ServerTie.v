(* The control skeletons and facts regenerated from rpyc/utils/server.py, rpyc/core/service.py and rpyc/core/protocol.py
   by tools/pygen/server.py are the ones coq/model/Server.v is written against. *)
From V Require Import lib.Base model.Server gen.Gen_server.

Definition gen_facts : facts :=
  {| Server.pool_close_drops := Gen_server.pool_close_drops; Server.pool_fail_discards := Gen_server.pool_fail_discards;
     Server.fork_parent_keeps := Gen_server.fork_parent_keeps; Server.pool_catches_base := Gen_server.pool_catches_base;
     Server.worker_tracks_served := Gen_server.worker_tracks_served; Server.accept_survives_oserror := Gen_server.accept_survives_oserror;
     Server.accept_rechecks_closed := Gen_server.accept_rechecks_closed;
     Server.accept_survives_spawn_failure := Gen_server.accept_survives_spawn_failure |}.

Lemma tie_base_progs :
  Gen_server.close_prog = Server.close_prog
  /\ Gen_server.accept_prog = Server.accept_prog_of Gen_server.accept_survives_oserror Gen_server.accept_rechecks_closed Gen_server.accept_survives_spawn_failure
  /\ Gen_server.worker_prog = Server.worker_prog_of Gen_server.worker_tracks_served /\ Gen_server.serve_client_prog = Server.serve_client_prog
  /\ Gen_server.handle_prog = Server.handle_prog /\ Gen_server.start_prog = Server.start_prog.
Proof. repeat split; reflexivity. Qed.
Lemma tie_accept_methods :
  Gen_server.oneshot_prog = Server.oneshot_prog /\ Gen_server.threaded_prog = Server.threaded_prog
  /\ Gen_server.forking_prog = Server.forking_prog /\ Gen_server.forking_close_prog = Server.forking_close_prog.
Proof. repeat split; reflexivity. Qed.
(* the thread pool: close and _accept_method have the shape that goes with the generated facts *)
Lemma tie_pool_close : exists before, Gen_server.pool_close_prog = Server.pool_close_prog_of before Gen_server.pool_close_drops.
Proof. first [exists false; reflexivity | exists true; reflexivity]. Qed.
Lemma tie_pool_accept : Gen_server.pool_accept_prog = Server.pool_accept_prog_of Gen_server.pool_fail_discards.
Proof. reflexivity. Qed.
Lemma tie_pool_progs :
  Gen_server.pool_build_prog = Server.pool_build_prog /\ Gen_server.drop_prog = Server.drop_prog
  /\ Gen_server.poll_result_prog = Server.poll_result_prog /\ Gen_server.poller_prog = Server.poller_prog
  /\ Gen_server.serve_requests_prog = Server.serve_requests_prog_of Gen_server.pool_catches_base
  /\ Gen_server.pool_worker_prog = Server.pool_worker_prog
  /\ Gen_server.add_inactive_prog = Server.add_inactive_prog /\ Gen_server.remove_inactive_prog = Server.remove_inactive_prog.
Proof. repeat split; reflexivity. Qed.
(* fresh per-server tables, one service instance and one set of tables per connection, guarded close, one hook call *)
Lemma tie_endpoint_facts :
  Gen_server.clients_is_fresh_set = true /\ Gen_server.pool_tables_fresh = true
  /\ Gen_server.pool_spawns_nbthreads_workers_and_one_poller = true /\ Gen_server.connect_instantiates_class = true
  /\ Gen_server.conn_tables_fresh = true /\ Gen_server.conn_close_guarded = true /\ Gen_server.cleanup_runs_hook = true
  /\ Gen_server.serve_all_closes_in_finally = true /\ Gen_server.serve_ignores_empty_payload = true.
Proof. repeat split; reflexivity. Qed.
