(* Writer side under ANY transport behaviour (partial sends, failures at any point): what reaches the wire is a prefix of the frame,
   the whole frame exactly when the send reports success. Together with recv_all_prefix (reader of any prefix of a frame stream gets
   whole leading packets only) this is the writer half of "never a shortened, padded or merged packet". *)
From Coq Require Import List NArith Lia.
From V Require Import lib.Base model.Channel proofs.ChannelP.
Import ListNotations.
Open Scope N_scope.

Definition is_prefix (w f : list byte) : Prop := exists rest, f = w ++ rest.

Lemma stream_write_prefix chunk : forall evs data wire ok w evs',
  stream_write chunk evs data wire = (ok, w, evs') ->
  exists sent, w = wire ++ sent /\ is_prefix sent data /\ (ok = true -> sent = data).
Proof.
  induction evs as [|e evs IH]; intros data wire ok w evs' H.
  - destruct data as [|d0 data]; cbn in H; injection H as <- <- <-.
    + exists []. rewrite app_nil_r. repeat split; auto. now exists [].
    + exists (d0 :: data). repeat split; auto. exists []. now rewrite app_nil_r.
  - destruct data as [|d0 data].
    { cbn in H. injection H as <- <- <-. exists []. rewrite app_nil_r. repeat split; auto. now exists []. }
    destruct e as [k|]; cbn [stream_write] in H.
    + set (n := N.max 1 (N.min k (N.min chunk (nlen (d0 :: data))))) in *.
      destruct (IH _ _ _ _ _ H) as (sent & -> & (rest & Hr) & Hok).
      exists (nfirst n (d0 :: data) ++ sent). split; [now rewrite app_assoc|]. split.
      * exists rest. rewrite <- app_assoc, <- Hr. symmetry. apply nfirst_nskip.
      * intros E. rewrite (Hok E). apply nfirst_nskip.
    + injection H as <- <- <-. exists []. rewrite app_nil_r. repeat split; [|discriminate]. now exists (d0 :: data).
Qed.

Section W.
Variable compress : list byte -> list byte.
Variable P : cparams.

Lemma do_writes_prefix : forall ws evs wire ok w evs',
  do_writes P evs ws wire = (ok, w, evs') ->
  exists sent, w = wire ++ sent /\ is_prefix sent (concat ws) /\ (ok = true -> sent = concat ws).
Proof.
  induction ws as [|x ws IH]; intros evs wire ok w evs' H; cbn [do_writes concat] in *.
  - injection H as <- <- <-. exists []. rewrite app_nil_r. repeat split; auto. now exists [].
  - destruct (stream_write (chunk P) evs x wire) as [[ok1 w1] evs1] eqn:E1.
    destruct (stream_write_prefix _ _ _ _ _ _ _ E1) as (s1 & -> & (r1 & Hr1) & Hok1).
    destruct ok1.
    + destruct (IH _ _ _ _ _ H) as (s2 & -> & (r2 & Hr2) & Hok2). rewrite (Hok1 eq_refl).
      exists (x ++ s2). split; [now rewrite app_assoc|]. split.
      * exists r2. now rewrite Hr2, app_assoc.
      * intros E. now rewrite (Hok2 E).
    + injection H as <- <- <-. exists s1. split; [reflexivity|]. split; [|discriminate].
      exists (r1 ++ concat ws). now rewrite Hr1, app_assoc.
Qed.

(* whatever the transport does while Channel.send writes a packet: the bytes that reached the wire are a prefix of that packet's
   frame; all of it exactly when send returns normally (otherwise the stream was closed and EOFError raised) *)
Theorem send_any_transport cmp data evs f ok w evs' :
  frame compress P cmp data = Ok f -> channel_send compress P cmp evs data = Ok (ok, w, evs') ->
  is_prefix w f /\ (ok = true -> w = f).
Proof.
  intros Hf Hs. unfold channel_send in Hs.
  destruct (send_writes compress P cmp data) as [ws| | |] eqn:Ew; cbn [bind] in Hs; try discriminate.
  pose proof (send_writes_concat compress P cmp data ws Ew) as Hc. rewrite Hf in Hc. injection Hc as ->.
  injection Hs as Hs. destruct (do_writes_prefix _ _ _ _ _ _ Hs) as (sent & -> & Hp & Hok). cbn [app]. auto.
Qed.
End W.

(* ---- the conversation up to a writer fault, as the reader sees it ---- *)
Section WR.
Variable compress : list byte -> list byte.
Variable decompress : list byte -> result (list byte).
Hypothesis zlib_roundtrip : forall x, decompress (compress x) = Ok x.
Variable P : cparams.
Hypothesis Hhdr : hdr_size P = 5.
Hypothesis Hchunk : hdr_size P + nlen (flusher P) <= chunk P.

Lemma frames_snoc cmp : forall pkts fs d f, frames compress P cmp pkts = Ok fs -> frame compress P cmp d = Ok f ->
  frames compress P cmp (pkts ++ [d]) = Ok (fs ++ [f]).
Proof.
  induction pkts as [|x pkts IH]; intros fs d f Hfs Hf.
  - cbn in Hfs. injection Hfs as <-. cbn. rewrite Hf. reflexivity.
  - cbn [frames fold_right app] in *. destruct (frame compress P cmp x) as [fx| | |]; cbn [bind] in *; try discriminate.
    fold (frames compress P cmp pkts) in Hfs. fold (frames compress P cmp (pkts ++ [d])).
    destruct (frames compress P cmp pkts) as [r| | |] eqn:Er; cbn [bind] in Hfs; try discriminate. injection Hfs as <-.
    rewrite (IH r d f eq_refl Hf). reflexivity.
Qed.

Lemma prefix_as_nfirst (a w f : list byte) : is_prefix w f -> a ++ w = nfirst (nlen (a ++ w)) (a ++ f).
Proof.
  intros [rest ->]. unfold nfirst, nlen. rewrite Nat2N.id, app_assoc, firstn_app, Nat.sub_diag, firstn_all. cbn. now rewrite app_nil_r.
Qed.

(* packets [pkts] were sent completely, then the send of [d] went through any transport behaviour at all (possibly failing after
   some bytes): whoever reads what is on the wire - through any read behaviour - gets a prefix of pkts ++ [d] made of whole packets;
   with a benign reader exactly pkts, plus d iff the send completed... (the exact count is c05_cut_exact's) *)
Theorem writer_fault_seen_by_reader tol cmp pkts fs d f wevs ok w wevs' revs fuel :
  frames compress P cmp pkts = Ok fs -> frame compress P cmp d = Ok f ->
  channel_send compress P cmp wevs d = Ok (ok, w, wevs') ->
  exists n, recv_all decompress P fuel tol revs (concat fs ++ w) [] = (firstn n (pkts ++ [d]), false).
Proof.
  intros Hfs Hf Hs. destruct (send_any_transport compress P cmp d wevs f ok w wevs' Hf Hs) as [Hp _].
  pose proof (frames_snoc cmp pkts fs d f Hfs Hf) as Hfs'.
  rewrite (prefix_as_nfirst (concat fs) w f Hp).
  replace (concat fs ++ f) with (concat (fs ++ [f])) by (rewrite concat_app; cbn; now rewrite app_nil_r).
  exact (recv_all_prefix compress decompress zlib_roundtrip P Hhdr Hchunk tol cmp (pkts ++ [d]) (fs ++ [f]) _ revs [] fuel Hfs').
Qed.
End WR.
