(* Tie between the generated facts of rpyc/core/brine.py (gen/Gen_brine.v, regenerated on every run)
   and the constants the model and its proofs use.  Every lemma is by computation. *)
From V Require Import lib.Base model.Ladder model.Brine gen.Gen_brine gen.Gen_consts.
From Coq Require Import String.
Open Scope N_scope.

Lemma tie_tags : Gen_brine.all_tags =
  [("TAG_NONE", to_N Brine.TAG_NONE); ("TAG_EMPTY_STR", to_N Brine.TAG_EMPTY_STR); ("TAG_EMPTY_TUPLE", to_N Brine.TAG_EMPTY_TUPLE);
   ("TAG_TRUE", to_N Brine.TAG_TRUE); ("TAG_FALSE", to_N Brine.TAG_FALSE); ("TAG_NOT_IMPLEMENTED", to_N Brine.TAG_NOT_IMPLEMENTED);
   ("TAG_ELLIPSIS", to_N Brine.TAG_ELLIPSIS); ("TAG_UNICODE", to_N Brine.TAG_UNICODE);
   ("TAG_STR1", to_N Brine.TAG_STR1); ("TAG_STR2", to_N Brine.TAG_STR2); ("TAG_STR3", to_N Brine.TAG_STR3); ("TAG_STR4", to_N Brine.TAG_STR4);
   ("TAG_STR_L1", to_N Brine.TAG_STR_L1); ("TAG_STR_L4", to_N Brine.TAG_STR_L4);
   ("TAG_TUP1", to_N Brine.TAG_TUP1); ("TAG_TUP2", to_N Brine.TAG_TUP2); ("TAG_TUP3", to_N Brine.TAG_TUP3); ("TAG_TUP4", to_N Brine.TAG_TUP4);
   ("TAG_TUP_L1", to_N Brine.TAG_TUP_L1); ("TAG_TUP_L4", to_N Brine.TAG_TUP_L4);
   ("TAG_INT_L1", to_N Brine.TAG_INT_L1); ("TAG_INT_L4", to_N Brine.TAG_INT_L4);
   ("TAG_FLOAT", to_N Brine.TAG_FLOAT); ("TAG_SLICE", to_N Brine.TAG_SLICE); ("TAG_FSET", to_N Brine.TAG_FSET);
   ("TAG_COMPLEX", to_N Brine.TAG_COMPLEX)]%string.
Proof. reflexivity. Qed.

Lemma tie_imm : Gen_brine.imm_lo = Brine.IMM_LO /\ Gen_brine.imm_hi = Brine.IMM_HI /\ Gen_brine.imm_off = Brine.IMM_OFF.
Proof. repeat split. Qed.

Lemma tie_ladders : Gen_brine.bytes_ladder = Brine.str_ladder /\ Gen_brine.tuple_ladder = Brine.tup_ladder
  /\ Gen_brine.int_ladder = Brine.int_ladder.
Proof. repeat split. Qed.

(* the ladders' tag numbers are the model's tag bytes *)
Lemma tie_ladder_tags :
  map (fun e => b_of (snd (fst e))) Brine.str_ladder =
    [Brine.TAG_EMPTY_STR; Brine.TAG_STR1; Brine.TAG_STR2; Brine.TAG_STR3; Brine.TAG_STR4; Brine.TAG_STR_L1; Brine.TAG_STR_L4] /\
  map (fun e => b_of (snd (fst e))) Brine.tup_ladder =
    [Brine.TAG_EMPTY_TUPLE; Brine.TAG_TUP1; Brine.TAG_TUP2; Brine.TAG_TUP3; Brine.TAG_TUP4; Brine.TAG_TUP_L1; Brine.TAG_TUP_L4] /\
  map (fun e => b_of (snd (fst e))) Brine.int_ladder = [Brine.TAG_INT_L1; Brine.TAG_INT_L4].
Proof. repeat split. Qed.

Lemma tie_structs : Gen_brine.struct_formats = [("I1", "!B"); ("I4", "!L"); ("F8", "!d"); ("C16", "!dd")]%string.
Proof. reflexivity. Qed.

(* exact-type registry: the thirteen value kinds of [pyval] other than POther, no more *)
Lemma tie_dump_types : Gen_brine.dump_types =
  ["NoneType"; "NotImplementedType"; "ellipsis"; "bool"; "slice"; "frozenset"; "int"; "float"; "complex"; "bytes"; "str"; "tuple"]%string.
Proof. reflexivity. Qed.
Lemma tie_simple_types : Gen_brine.simple_types =
  ["NoneType"; "int"; "bool"; "float"; "bytes"; "str"; "complex"; "NotImplementedType"; "ellipsis"]%string.
Proof. reflexivity. Qed.
Lemma tie_load_tags : Gen_brine.load_tags =
  ["TAG_NONE"; "TAG_NOT_IMPLEMENTED"; "TAG_ELLIPSIS"; "TAG_TRUE"; "TAG_FALSE"; "TAG_EMPTY_TUPLE"; "TAG_EMPTY_STR"; "TAG_FLOAT"; "TAG_COMPLEX";
   "TAG_STR1"; "TAG_STR2"; "TAG_STR3"; "TAG_STR4"; "TAG_STR_L1"; "TAG_STR_L4"; "TAG_UNICODE";
   "TAG_TUP1"; "TAG_TUP2"; "TAG_TUP3"; "TAG_TUP4"; "TAG_TUP_L1"; "TAG_TUP_L4"; "TAG_SLICE"; "TAG_FSET"; "TAG_INT_L1"; "TAG_INT_L4"]%string.
Proof. reflexivity. Qed.

(* encoder and decoder use the same utf-8 error mode *)
Lemma tie_utf8_mode : Gen_brine.str_encode_surrogatepass = Gen_brine.str_decode_surrogatepass.
Proof. reflexivity. Qed.

(* the model parameters of the current tree *)
Definition Pgen (maxdigits : N) : bparams :=
  {| sp := Gen_brine.str_encode_surrogatepass; maxdigits := maxdigits |}.
