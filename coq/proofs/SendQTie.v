From V Require Import lib.Base model.SendQ gen.Gen_sendq.
(* the instruction program the invariants were proved for is the one the source contains now *)
Lemma tie_prog : Gen_sendq.send_prog = SendQ.prog.
Proof. reflexivity. Qed.
Lemma tie_lock : Gen_sendq.sendlock_is_plain_lock = true /\ Gen_sendq.send_queue_is_fresh_list = true
  /\ Gen_sendq.send_state_private_to_send = true /\ Gen_sendq.send_state_untouched_elsewhere = true
  /\ Gen_sendq.channel_written_only_by_send = true.
Proof. repeat split. Qed.
