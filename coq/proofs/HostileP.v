(* C07 proofs: whatever messages a peer sends, whatever the service's objects do, whatever the handler table (in the
   handler language) is, the event trace of the connection is well-formed against a ghost replay. *)
From V Require Import lib.Base lib.Sx model.Brine model.Attr model.Hostile proofs.AttrP.
From V Require model.Vinegar proofs.VinegarP.
From Coq Require Import String.
Open Scope bool_scope.

Section Inv.
Context {W : Type}.
Variable S : sem W.
Variable C : config.
Variable HT : list (string * hdef).
Variable DT : list (Z * string).
Variable ML : list (Z * dact).
Variable UL : list (Z * uact).
Variable BL : list (string * Z).

(* ------------------------------------------------------------------ ghost replay of a trace (newest first) *)
Record ghost := { g_tbl : table; g_auth : list oid }.
Definition g0 : ghost := {| g_tbl := []; g_auth := [] |}.
Definition g_hold (g : ghost) (ys : list oid) : ghost := {| g_tbl := g_tbl g; g_auth := ys ++ g_auth g |}.
Definition g_set (g : ghost) (t : table) : ghost := {| g_tbl := t; g_auth := g_auth g |}.
Definition gstep (g : ghost) (e : event) : ghost :=
  match e with
  | EMsg => {| g_tbl := g_tbl g; g_auth := [] |}
  | ERoot o | EResolve _ o => g_hold g [o]
  | EType _ ty => g_hold g [ty]
  | EAttr _ _ _ ys | EHook _ _ _ ys | ETouch _ _ ys | EForeign ys => g_hold g ys
  | EBox k o => g_set g (tbl_add k o (g_tbl g))
  | EDecref k n => g_set g (tbl_decref k n (g_tbl g))
  | EClear => g_set g []
  | _ => g
  end.
Fixpoint ghost_of (t : list event) : ghost :=
  match t with [] => g0 | e :: t' => gstep (ghost_of t') e end.

(* what makes one event legitimate given everything that happened before *)
Definition ev_ok (g : ghost) (e : event) : Prop :=
  match e with
  | ERoot o => o = s_root S
  | EResolve k o => exists c, tbl_find k (g_tbl g) = Some (o, c)
  | EMiss k => tbl_find k (g_tbl g) = None
  | EType o ty => In o (g_auth g) /\ ty = s_type S o
  | EProbe o n => In o (g_auth g) /\ exists p pn vw, In (EGet n) (probes_of (c_attr C) p pn vw)
  | EAttr o p final _ => In o (g_auth g) /\ exists pn vw, decide (c_guard C) (c_attr C) p pn vw = Ok (ViaDefault final)
  | EHook o p n _ => In o (g_auth g) /\ exists pn vw, decide (c_guard C) (c_attr C) p pn vw = Ok (ViaHook n)
  | ETouch o op _ => In o (g_auth g) /\ (op = OpPickle -> c_pickle C = true)
  | EBox k o => In o (g_auth g) /\ k = s_key S o
  | EDecref k _ => tbl_find k (g_tbl g) <> None
  | EVin v => exists payload, In v (fst (Vinegar.vload (c_rflags C) (s_env S) payload))
  | _ => True
  end.
Fixpoint wf (t : list event) : Prop :=
  match t with [] => True | e :: t' => wf t' /\ ev_ok (ghost_of t') e end.

Notation state := (hst W).
Definition auth (s : state) : list oid := g_auth (ghost_of (tr s)).
Definition Inv (s : state) : Prop := wf (tr s) /\ g_tbl (ghost_of (tr s)) = tbl s.
Definition ext (s s' : state) : Prop := incl (auth s) (auth s').
Definition holds (s : state) (v : lval) : Prop := incl (objs_of v) (auth s).
Definition holds_all (s : state) (l : list lval) : Prop := Forall (holds s) l.

Lemma ext_refl s : ext s s. Proof. apply incl_refl. Qed.
Lemma ext_trans a b c : ext a b -> ext b c -> ext a c. Proof. apply incl_tran. Qed.
Lemma holds_ext s s' v : ext s s' -> holds s v -> holds s' v.
Proof. intros E H. eapply incl_tran; eauto. Qed.
Lemma holds_all_ext s s' l : ext s s' -> holds_all s l -> holds_all s' l.
Proof. intros E H. eapply Forall_impl; [|exact H]. intros v. now apply holds_ext. Qed.
Lemma holds_LT s l : holds s (LT l) <-> holds_all s l.
Proof.
  unfold holds, holds_all. cbn [objs_of]. rewrite Forall_forall. split.
  - intros H v Hv o Ho. apply H. apply in_flat_map. eauto.
  - intros H o Ho. apply in_flat_map in Ho as (v & Hv & Ho). exact (H v Hv o Ho).
Qed.
Lemma holds_noobj s v : objs_of v = [] -> holds s v.
Proof. unfold holds. intros ->. apply incl_nil_l. Qed.
Lemma holds_LO s o : holds s (LO o) <-> In o (auth s).
Proof. unfold holds. cbn. split; [intros H; apply H; now left | intros H x [<-|[]]; exact H]. Qed.

(* ------------------------------------------------------------------ specifications of monadic computations *)
Definition M := @Hostile.M W.
Definition stable (P : state -> Prop) : Prop := forall s s', ext s s' -> P s -> P s'.
Definition spec {A} (pre : state -> Prop) (m : M A) (post : state -> A -> Prop) : Prop :=
  forall s s' r, Inv s -> pre s -> m s = (s', r) -> Inv s' /\ ext s s' /\ (forall a, r = ROk a -> post s' a).

Lemma spec_weaken {A} (pre pre' : state -> Prop) (m : M A) (post post' : state -> A -> Prop) :
  spec pre m post -> (forall s, pre' s -> pre s) -> (forall s a, post s a -> post' s a) -> spec pre' m post'.
Proof. intros H Hp Hq s s' r I P E. destruct (H s s' r I (Hp _ P) E) as (I' & X & Q). split; [exact I'|split; [exact X|]]. intros a Ha. apply Hq. now apply Q. Qed.
Lemma spec_pre {A} (pre pre' : state -> Prop) (m : M A) (post : state -> A -> Prop) :
  spec pre m post -> (forall s, pre' s -> pre s) -> spec pre' m post.
Proof. intros H Hp. eapply spec_weaken; [exact H|exact Hp|auto]. Qed.
Ltac same I := split; [exact I|split; [apply ext_refl|intros ? ?; try discriminate]].
Lemma spec_ret {A} (pre : state -> Prop) (a : A) (post : state -> A -> Prop) : (forall s, pre s -> post s a) -> spec pre (ret a) post.
Proof. intros H s s' r I P E. injection E as <- <-. same I. match goal with X : ROk _ = ROk _ |- _ => injection X as <- end. now apply H. Qed.
Lemma spec_raise {A} (pre : state -> Prop) x (post : state -> A -> Prop) : spec pre (raise x) post.
Proof. intros s s' r I P E. injection E as <- <-. same I. Qed.
Lemma spec_unm {A} (pre : state -> Prop) (post : state -> A -> Prop) : spec pre unm post.
Proof. intros s s' r I P E. injection E as <- <-. same I. Qed.
Lemma spec_lift {A} (pre : state -> Prop) (r : result A) (post : state -> A -> Prop) : (forall s a, pre s -> r = Ok a -> post s a) -> spec pre (lift r) post.
Proof. intros H. destruct r; cbn [lift]; [apply spec_ret; eauto | apply spec_raise | apply spec_unm | apply spec_unm]. Qed.
Lemma spec_bind {A B} (pre : state -> Prop) (m : M A) (k : A -> M B) (mid : state -> A -> Prop) (post : state -> B -> Prop) :
  stable pre -> spec pre m mid -> (forall a, spec (fun s => pre s /\ mid s a) (k a) post) -> spec pre (mbind m k) post.
Proof.
  intros St Hm Hk s s' r I P E. unfold mbind in E. destruct (m s) as [s1 [a|x|]] eqn:Em.
  - destruct (Hm _ _ _ I P Em) as (I1 & X1 & Q1).
    destruct (Hk a _ _ _ I1 (conj (St _ _ X1 P) (Q1 a eq_refl)) E) as (I2 & X2 & Q2).
    split; [exact I2|split; [eapply ext_trans; eauto|exact Q2]].
  - injection E as <- <-. destruct (Hm _ _ _ I P Em) as (I1 & X1 & _). split; [exact I1|split; [exact X1|intros ? ?; discriminate]].
  - injection E as <- <-. destruct (Hm _ _ _ I P Em) as (I1 & X1 & _). split; [exact I1|split; [exact X1|intros ? ?; discriminate]].
Qed.

Lemma stable_and P Q : stable P -> stable Q -> stable (fun s => P s /\ Q s).
Proof. intros HP HQ s s' E [p q]. split; eauto. Qed.
Lemma stable_const (P : Prop) : stable (fun _ => P). Proof. intros s s' _ p; exact p. Qed.
Lemma stable_holds v : stable (fun s => holds s v). Proof. intros s s' E. now apply holds_ext. Qed.
Lemma stable_holds_all l : stable (fun s => holds_all s l). Proof. intros s s' E. now apply holds_all_ext. Qed.
Lemma stable_auth o : stable (fun s => In o (auth s)). Proof. intros s s' E H. now apply E. Qed.
Lemma stable_true : stable (fun _ => True). Proof. intros s s' _ _. exact I. Qed.
Hint Resolve stable_and stable_const stable_holds stable_holds_all stable_auth stable_true : stab.

(* ------------------------------------------------------------------ state updates that do not concern the invariant *)
Lemma inv_add s e : Inv s -> ev_ok (ghost_of (tr s)) e ->
  g_tbl (gstep (ghost_of (tr s)) e) = tbl s -> Inv (add_ev s e).
Proof. intros [Hw Ht] Ho Hg. split; cbn; auto. Qed.
Lemma auth_add s e : e <> EMsg -> incl (auth s) (auth (add_ev s e)).
Proof.
  intros Hne. unfold auth. cbn. destruct e; cbn; try (now elim Hne); auto using incl_refl, incl_tl, incl_appr.
Qed.

(* emit an event whose legitimacy follows from the precondition and that does not change the ghost table *)
Definition tbl_neutral (e : event) : Prop :=
  match e with EBox _ _ | EDecref _ _ | EClear | EMsg => False | _ => True end.
Lemma gstep_neutral g e : tbl_neutral e -> g_tbl (gstep g e) = g_tbl g.
Proof. destruct e; cbn; tauto. Qed.
Lemma spec_emit (pre : state -> Prop) e : tbl_neutral e -> (forall s, Inv s -> pre s -> ev_ok (ghost_of (tr s)) e) ->
  spec pre (emit e) (fun _ _ => True).
Proof.
  intros Hn Hok s s' r I P [= <- <-]. split; [|split; [|auto]].
  - apply inv_add; auto. rewrite gstep_neutral by exact Hn. apply I.
  - apply auth_add. intros ->. exact Hn.
Qed.
Lemma spec_mark (pre : state -> Prop) : spec pre mark_approx (fun _ _ => True).
Proof. intros s s' r I P E. injection E as <- <-. split; [exact I|split; [exact (ext_refl s)|auto]]. Qed.
Lemma spec_pop (pre : state -> Prop) : spec pre pop_answer (fun _ _ => True).
Proof.
  intros s s' r I P E. unfold pop_answer in E. destruct (script s); injection E as <- <-; (split; [exact I|split; [exact (ext_refl s)|auto]]).
Qed.

(* ------------------------------------------------------------------ primitives *)
Lemma yields_auth s e (r : res lval) ys : ys = yields r -> e <> EMsg ->
  g_auth (gstep (ghost_of (tr s)) e) = ys ++ auth s -> forall a, r = ROk a -> incl (objs_of a) (g_auth (gstep (ghost_of (tr s)) e)).
Proof. intros -> _ E a ->. rewrite E. cbn. apply incl_appl, incl_refl. Qed.

Lemma spec_touch (pre : state -> Prop) op o args : (forall s, pre s -> In o (auth s)) -> (op = OpPickle -> c_pickle C = true) ->
  spec pre (touch S op o args) holds.
Proof.
  intros Hin Hp s s' r I P E. unfold touch in E. destruct (s_op S (wst s) op o args) as [w r0] eqn:Es. injection E as <- <-.
  split; [|split].
  - split; cbn; [split; [apply I|split; [apply Hin, P|exact Hp]]|apply I].
  - unfold ext, auth. cbn. apply incl_appr, incl_refl.
  - intros a ->. unfold holds, auth. cbn. apply incl_appl, incl_refl.
Qed.
Lemma spec_val_op (pre : state -> Prop) op v args : spec pre (val_op S op v args) holds.
Proof.
  intros s s' r I P E. unfold val_op in E. injection E as <- <-. split; [|split].
  - split; cbn; [split; [apply I|exact Logic.I]|apply I].
  - unfold ext, auth. cbn. apply incl_appr, incl_refl.
  - intros a Ha. unfold holds, auth. cbn. rewrite Ha. cbn. apply incl_appl, incl_refl.
Qed.
Lemma spec_resolve (pre : state -> Prop) k : spec pre (resolve k) holds.
Proof.
  intros s s' r I P E. unfold resolve in E. destruct I as [Hw Ht].
  destruct (tbl_find k (tbl s)) as [[o c]|] eqn:F; injection E as <- <-; (split; [|split]).
  - split; cbn; [split; [exact Hw|exists c; now rewrite Ht]|exact Ht].
  - unfold ext, auth. cbn. apply incl_tl, incl_refl.
  - intros a [= <-]. apply holds_LO. unfold auth. cbn. now left.
  - split; cbn; [split; [exact Hw|now rewrite Ht]|exact Ht].
  - exact (ext_refl s).
  - discriminate.
Qed.
Lemma spec_lend (pre : state -> Prop) o : (forall s, pre s -> In o (auth s)) -> spec pre (lend S o) (fun _ _ => True).
Proof.
  intros Hin s s' r I P E. unfold lend in E. injection E as <- <-. destruct I as [Hw Ht]. split; [|split; [|auto]].
  - split; cbn; [split; [exact Hw|split; [apply Hin, P|reflexivity]]|now rewrite Ht].
  - exact (ext_refl s).
Qed.

Lemma as_value_noobj : forall v p, as_value v = Some p -> True.
Proof. auto. Qed.

Lemma spec_box f : forall v, spec (fun s => holds s v) (box S BL f v) (fun _ _ => True).
Proof.
  induction f as [|f IH]; intros v; cbn [box]; [apply spec_unm|].
  destruct (as_value v); [apply spec_ret; auto|].
  destruct v; try apply spec_unm.
  - (* LO *) eapply spec_bind; [auto with stab| apply spec_lend; intros s H; now apply holds_LO | intros k; apply spec_ret; auto].
  - (* LT *)
    eapply spec_bind with (mid := fun _ _ => True); [auto with stab| |intros ps; apply spec_ret; auto].
    eapply spec_weaken with (pre := fun s => holds_all s l) (post := fun _ _ => True); [|intros s H; now apply holds_LT|auto].
    induction l as [|x l IHl]; [apply spec_ret; auto|].
    eapply spec_bind with (mid := fun _ _ => True); [auto with stab| |].
    + eapply spec_weaken; [apply IH| |auto]. intros s H. now inversion H.
    + intros p. eapply spec_bind with (mid := fun _ _ => True); [auto with stab| |intros ps; apply spec_ret; auto].
      eapply spec_weaken; [apply IHl| |auto]. intros s [H _]. now inversion H.
  - (* LP *) apply spec_ret; auto.
Qed.

Lemma spec_load_exc (pre : state -> Prop) payload : spec pre (load_exc S C payload) (fun _ _ => True).
Proof.
  intros s s' r I P E. unfold load_exc in E.
  destruct (Vinegar.vload (c_rflags C) (s_env S) payload) as [eff rr] eqn:V.
  assert (K : forall l s0, Inv s0 -> (forall v, In v l -> In v eff) ->
              Inv (fold_left (fun s e => add_ev s (EVin e)) l s0) /\ ext s0 (fold_left (fun s e => add_ev s (EVin e)) l s0)).
  { induction l as [|v l IHl]; intros s0 I0 Hl; cbn; [split; auto using ext_refl|].
    assert (I1 : Inv (add_ev s0 (EVin v))).
    { apply inv_add; [exact I0| |cbn; apply I0]. cbn. exists payload. rewrite V. cbn. apply Hl. now left. }
    destruct (IHl _ I1 (fun v' H => Hl v' (or_intror H))) as [I2 X2]. split; [exact I2|].
    eapply ext_trans; [|exact X2]. apply auth_add. discriminate. }
  destruct (K eff s I (fun _ H => H)) as [I' X'].
  set (s1 := fold_left (fun s e => add_ev s (EVin e)) eff s) in *.
  assert (R : s' = s1) by (destruct rr as [[| |c a sets st]| | |]; try (destruct (negb (iterable a) || existsb set_fails sets)); try destruct st; now injection E).
  subst s'. split; [exact I'|split; [exact X'|auto]].
Qed.

Definition holds_opt (s : state) (v : lval) := holds s v.

Lemma spec_unbox f : forall pkg, spec (fun _ => True) (unbox S C UL f pkg) holds.
Proof.
  induction f as [|f IH]; intros pkg; cbn [unbox]; [apply spec_unm|].
  eapply spec_bind with (mid := fun _ _ => True); [auto with stab|apply spec_lift; auto|]. intros lv.
  destruct lv as [|label [|value [|? ?]]]; try apply spec_raise.
  destruct (match num_of label with Some z => assoc_z z UL | None => None end) as [[| | |]|]; [| | | |apply spec_raise].
  - apply spec_ret. intros; now apply holds_noobj.
  - eapply spec_bind with (mid := fun _ _ => True); [auto with stab|apply spec_lift; auto|]. intros items.
    assert (G : spec (fun _ => True)
                  (mbind ((fix go (l : list pyval) : M (list lval) :=
                             match l with
                             | [] => ret []
                             | x :: r => mbind (in_genexpr (unbox S C UL f x)) (fun v => mbind (go r) (fun vs => ret (v :: vs)))
                             end) items) (fun l => ret (LT l))) holds).
    { eapply spec_bind with (mid := fun s l => holds_all s l); [auto with stab| |intros l; apply spec_ret; intros s [_ H]; now apply holds_LT].
      induction items as [|x items IHi]; [apply spec_ret; constructor|].
      eapply spec_bind with (mid := fun s v => holds s v); [auto with stab| |].
      - intros s s' r I P E. unfold in_genexpr in E. destruct (unbox S C UL f x s) as [s1 r1] eqn:U.
        destruct (IH x _ _ _ I Logic.I U) as (I1 & X1 & Q1).
        destruct r1 as [a|[[]| | | |]|]; injection E as <- <-; (split; [exact I1|split; [exact X1|]]); intros a0 Ha; try discriminate; now apply Q1.
      - intros v. eapply spec_bind with (mid := fun s l => holds_all s l); [auto with stab| |].
        + eapply spec_pre; [apply IHi|intros; exact Logic.I].
        + intros vs. apply spec_ret. intros s [[_ Hv] Hvs]. constructor; auto. }
    eapply spec_weaken with (pre := fun _ => True) (post := holds); [|auto|auto].
    destruct value; try exact G. destruct items as [|? [|? ?]]; try exact G. apply spec_unm.
  - apply spec_resolve.
  - destruct (index3 value) as [[[a b] c]|x|]; [|apply spec_raise|apply spec_unm].
    destruct (py_str a) as [name|]; [|apply spec_unm].
    destruct (is_builtin_name S name); [apply spec_ret; intros; now apply holds_noobj|].
    destruct (negb (sane_name name)); [apply spec_unm|].
    eapply spec_bind with (mid := fun _ _ => True); [auto with stab|apply spec_emit; cbn; auto|]. intros _.
    eapply spec_bind with (mid := fun _ _ => True); [auto with stab|apply spec_pop|]. intros ans.
    destruct ans as [p|payload|].
    + eapply spec_bind with (mid := holds); [auto with stab| |].
      * eapply spec_pre; [apply IH|intros; exact Logic.I].
      * intros m. destruct (methods_ok m); [apply spec_ret; intros; now apply holds_noobj|apply spec_raise|apply spec_unm].
    + eapply spec_bind with (mid := fun _ _ => True); [auto with stab|apply spec_load_exc|]. intros x. apply spec_raise.
    + apply spec_raise.
Qed.

Lemma spec_ask h args : spec (fun s => holds_all s args) (ask S C UL BL h args) holds.
Proof.
  unfold ask.
  eapply spec_bind with (mid := fun _ _ => True); [auto with stab| |].
  { eapply spec_pre; [apply spec_box|intros s H; now apply holds_LT]. }
  intros _. eapply spec_bind with (mid := fun _ _ => True); [auto with stab|apply spec_emit; cbn; auto|]. intros _.
  eapply spec_bind with (mid := fun _ _ => True); [auto with stab|apply spec_pop|]. intros ans.
  destruct ans as [p|payload|].
  - eapply spec_pre; [apply spec_unbox|intros; exact Logic.I].
  - eapply spec_bind with (mid := fun _ _ => True); [auto with stab|apply spec_load_exc|]. intros x. apply spec_raise.
  - apply spec_raise.
Qed.
Lemma spec_converse h args : spec (fun s => holds_all s args) (converse S C UL BL h args) holds.
Proof.
  unfold converse. eapply spec_bind with (mid := fun _ _ => True); [auto with stab|apply spec_mark|].
  intros _. eapply spec_pre; [apply spec_ask|tauto].
Qed.
Lemma spec_converse_any {A} h args (k : lval -> M A) post :
  (forall v, spec (fun s => holds_all s args /\ holds s v) (k v) post) ->
  spec (fun s => holds_all s args) (mbind (converse S C UL BL h args) k) post.
Proof. intros H. eapply spec_bind; [auto with stab|apply spec_converse|exact H]. Qed.

Lemma holds_LP s idp : holds s (LP idp). Proof. now apply holds_noobj. Qed.
Lemma holds_all_one s v : holds s v -> holds_all s [v]. Proof. intros H. constructor; [exact H|constructor]. Qed.
Hint Resolve holds_LP holds_all_one : stab.

Lemma spec_iter v : spec (fun s => holds s v) (iter_lval S C UL BL v) holds_all.
Proof.
  destruct v; cbn [iter_lval].
  - (* LV *)
    assert (G : spec (fun s => holds s (LV v)) (mbind (lift (iter_elems false v)) (fun l => ret (map LV l))) holds_all).
    { eapply spec_bind with (mid := fun _ _ => True); [auto with stab|apply spec_lift; auto|].
      intros l. apply spec_ret. intros s _. apply Forall_forall. intros x Hx. apply in_map_iff in Hx as (p & <- & _). now apply holds_noobj. }
    destruct v; try exact G. destruct l as [|? [|? ?]]; try exact G. apply spec_unm.
  - apply spec_unm.
  - (* LO *)
    eapply spec_bind; [auto with stab|apply spec_touch; [intros s H; now apply holds_LO|discriminate]|].
    intros r. destruct r; try apply spec_unm. apply spec_ret. intros s [_ H]. now apply holds_LT.
  - apply spec_ret. intros s H. now apply holds_LT.
  - eapply spec_pre with (pre := fun s => holds_all s [LP idp]); [|auto with stab].
    apply spec_converse_any. intros r. destruct r; try apply spec_unm.
    + destruct v; try apply spec_unm. apply spec_ret. intros s _. apply Forall_forall. intros x Hx.
      apply in_map_iff in Hx as (p & <- & _). now apply holds_noobj.
    + apply spec_ret. intros s [_ H]. now apply holds_LT.
  - apply spec_raise.
  - apply spec_unm.
Qed.

Lemma spec_kw v : spec (fun s => holds s v) (kw_lval S C UL BL v) (fun _ _ => True).
Proof.
  destruct v; cbn [kw_lval]; try apply spec_unm.
  - destruct v; try apply spec_raise; try apply spec_unm; try (destruct b; try apply spec_raise; apply spec_ret; auto);
      try (destruct cps; try apply spec_raise; apply spec_ret; auto); try (destruct l; try apply spec_unm; apply spec_ret; auto).
  - eapply spec_bind; [auto with stab|apply spec_touch; [intros s H; now apply holds_LO|discriminate]|].
    intros r. destruct r; try apply spec_unm. destruct l; try apply spec_unm. apply spec_ret; auto.
  - destruct l; [apply spec_ret; auto|apply spec_unm].
  - eapply spec_pre with (pre := fun s => holds_all s [LP idp]); [|auto with stab].
    apply spec_converse_any. intros r. apply spec_unm.
  - apply spec_raise.
Qed.

Lemma spec_truthy v : spec (fun s => holds s v) (truthy S C UL BL v) (fun _ _ => True).
Proof.
  destruct v; cbn [truthy]; try apply spec_unm; try (apply spec_ret; auto).
  - eapply spec_bind; [auto with stab|apply spec_touch; [intros s H; now apply holds_LO|discriminate]|].
    intros r. destruct r; try apply spec_unm. destruct v; try apply spec_unm. apply spec_ret; auto.
  - eapply spec_pre with (pre := fun s => holds_all s [LP idp]); [|auto with stab].
    apply spec_converse_any. intros r. apply spec_unm.
Qed.

(* Connection._access_attr *)
Lemma spec_access p tgt nm extra : spec (fun s => holds s tgt /\ holds s nm) (access S C UL BL p tgt nm extra) holds.
Proof.
  destruct tgt; cbn [access];
    try (destruct (decide (c_guard C) (c_attr C) p (pyname_of nm) no_obj) as [[?|?]|e| |]; try apply spec_unm; apply spec_raise).
  - (* LO *)
    intros s s' r I [P _] E. apply holds_LO in P.
    set (vw := s_view S (wst s) o) in *. set (pn := pyname_of nm) in *.
    assert (K : forall l s0, Inv s0 -> In o (auth s0) -> (forall e, In e l -> In e (probes_of (c_attr C) p pn vw)) ->
              let s1 := fold_left (fun s e => add_ev s (EProbe o (ev_name e))) l s0 in Inv s1 /\ ext s0 s1 /\ wst s1 = wst s0).
    { induction l as [|e l IHl]; intros s0 I0 A0 Hl; cbn; [split; [exact I0|split; [apply ext_refl|reflexivity]]|].
      assert (Pe : In e (probes_of (c_attr C) p pn vw)) by (apply Hl; now left).
      assert (Eg : e = EGet (ev_name e)).
      { unfold probes_of in Pe. destruct (nkind_of pn); try contradiction; (destruct (hook_for vw p); [contradiction|]);
          apply in_map_iff in Pe as (q & <- & _); destruct q; reflexivity. }
      assert (I1 : Inv (add_ev s0 (EProbe o (ev_name e)))).
      { apply inv_add; [exact I0| |cbn; apply I0]. cbn. split; [exact A0|]. exists p, pn, vw. now rewrite <- Eg. }
      assert (X1 : ext s0 (add_ev s0 (EProbe o (ev_name e)))) by (apply auth_add; discriminate).
      destruct (IHl _ I1 (X1 _ A0) (fun e' H => Hl e' (or_intror H))) as (I2 & X2 & W2).
      split; [exact I2|split; [exact (ext_trans _ _ _ X1 X2)|exact W2]]. }
    destruct (K _ s I P (fun _ H => H)) as (I1 & X1 & W1). cbn zeta in I1, X1, W1.
    set (s1 := fold_left (fun s e => add_ev s (EProbe o (ev_name e))) (probes_of (c_attr C) p pn vw) s) in *.
    destruct (decide (c_guard C) (c_attr C) p pn vw) as [[n|final]|e| |] eqn:D.
    + destruct (s_hook S (wst s1) o p n extra) as [w r0] eqn:Es. injection E as <- <-. split; [|split].
      * split; cbn; [split; [apply I1|split; [apply X1, P|eauto]]|apply I1].
      * eapply ext_trans; [exact X1|]. unfold ext, auth. cbn. apply incl_appr, incl_refl.
      * intros a ->. unfold holds, auth. cbn. apply incl_appl, incl_refl.
    + destruct (s_attr S (wst s1) o p final extra) as [w r0] eqn:Es. injection E as <- <-. split; [|split].
      * split; cbn; [split; [apply I1|split; [apply X1, P|eauto]]|apply I1].
      * eapply ext_trans; [exact X1|]. unfold ext, auth. cbn. apply incl_appr, incl_refl.
      * intros a ->. unfold holds, auth. cbn. apply incl_appl, incl_refl.
    + injection E as <- <-. split; [exact I1|split; [exact X1|intros ? ?; discriminate]].
    + injection E as <- <-. split; [exact I1|split; [exact X1|intros ? ?; discriminate]].
    + injection E as <- <-. split; [exact I1|split; [exact X1|intros ? ?; discriminate]].
  - (* LP *)
    eapply spec_pre with (pre := fun s => holds_all s [LP idp; nm]).
    + apply spec_converse_any. intros r. apply spec_unm.
    + intros s [_ H]. constructor; [apply holds_LP|constructor; [exact H|constructor]].
Qed.

Lemma spec_islice b : spec (fun s => holds s b) (islice_count S C UL BL b) (fun _ _ => True).
Proof.
  destruct b; cbn [islice_count]; try apply spec_raise; try apply spec_unm.
  - destruct v; try apply spec_raise; try (apply spec_ret; auto).
    destruct ((0 <=? z)%Z && (z <=? MAXINT)%Z); [apply spec_ret; auto|apply spec_raise].
  - eapply spec_bind; [auto with stab|apply spec_touch; [intros s H; now apply holds_LO|discriminate]|]. intros r. apply spec_unm.
  - eapply spec_pre with (pre := fun s => holds_all s [LP idp]); [|auto with stab].
    apply spec_converse_any. intros r. apply spec_unm.
Qed.

Lemma take_z_incl {A} (l : list A) : forall z, incl (take_z z l) l.
Proof.
  induction l as [|x l IH]; intros z; cbn; [apply incl_refl|].
  destruct (0 <? z)%Z; [|apply incl_nil_l]. intros y [<-|H]; [now left|right; now apply (IH (z - 1)%Z)].
Qed.
Lemma holds_all_incl s l l' : incl l' l -> holds_all s l -> holds_all s l'.
Proof. unfold holds_all. rewrite !Forall_forall. intros H K x Hx. apply K, H, Hx. Qed.

Lemma spec_do_op op a b : (op = OpPickle -> c_pickle C = true) ->
  spec (fun s => holds s a /\ holds s b) (do_op S C UL BL op a b) holds.
Proof.
  intros Hp.
  assert (Dflt : forall op', (op' = OpPickle -> c_pickle C = true) ->
            spec (fun s => holds s a /\ holds s b)
              match a with
              | LO o => touch S op' o []
              | LV v => val_op S op' v []
              | LP idp => converse S C UL BL (match op' with OpRepr => 9 | OpStr => 10 | OpHash => 12 | OpDir => 13 | _ => 16 end)%Z [LP idp]
              | LT _ | LSlice _ _ | LOpq | LAny => unm
              end holds).
  { intros op' Hp'. destruct a; try apply spec_unm.
    - apply spec_val_op.
    - apply spec_touch; [intros s [H _]; now apply holds_LO|exact Hp'].
    - eapply spec_pre; [apply spec_converse|intros s [H _]; apply holds_all_one; exact H]. }
  destruct op; cbn [do_op]; try (apply Dflt; exact Hp).
  - (* OpIslice *)
    eapply spec_bind with (mid := fun _ _ => True); [auto with stab|eapply spec_pre; [apply spec_islice|tauto]|]. intros n.
    eapply spec_bind with (mid := holds_all); [auto with stab|eapply spec_pre; [apply spec_iter|tauto]|]. intros l.
    apply spec_ret. intros s [_ H]. apply holds_LT. destruct n; [|exact H]. eapply holds_all_incl; [apply take_z_incl|exact H].
  - (* OpIsinstance *)
    destruct b; try apply spec_unm; try apply spec_raise.
    destruct (index2 v) as [[x y]|x|]; try apply spec_raise; try apply spec_unm.
    destruct x; try apply spec_unm.
    destruct (is_builtin_name S cps); [|apply spec_ret; intros; now apply holds_noobj].
    destruct a; try apply spec_unm.
    + apply spec_val_op.
    + apply spec_touch; [intros s [H _]; now apply holds_LO|discriminate].
  - (* OpIdPack *)
    destruct a; try (apply spec_ret; intros; now apply holds_noobj).
    eapply spec_bind with (mid := fun _ _ => True); [auto with stab| |intros _; apply spec_ret; intros; now apply holds_noobj].
    apply spec_emit; [exact Logic.I|]. intros s _ [H _]. cbn. split; [now apply holds_LO|discriminate].
  - (* OpPickle *)
    destruct a; try apply spec_unm. apply spec_touch; [intros s [H _]; now apply holds_LO|exact Hp].
Qed.

Lemma tbl_find_some_neq k t o c : tbl_find k t = Some (o, c) -> tbl_find k t <> None.
Proof. intros ->. discriminate. Qed.

Lemma spec_decref k c : spec (fun s => holds s k /\ holds s c) (decref S k c) holds.
Proof.
  destruct k; cbn [decref]; try apply spec_unm; try apply spec_raise.
  intros s s' r I [_ Hc] E. destruct I as [Hw Ht].
  destruct (tbl_find v (tbl s)) as [[o cnt]|] eqn:F.
  - destruct c.
    + assert (G : forall n, (with_tbl (add_ev s (EDecref v n)) (tbl_decref v n (tbl s)), ROk (LV PNone)) = (s', r) ->
                  Inv s' /\ ext s s' /\ (forall a, r = ROk a -> holds s' a)).
      { intros n [= <- <-]. split; [|split].
        - split; cbn; [split; [exact Hw|rewrite Ht, F; discriminate]|now rewrite Ht].
        - exact (ext_refl s).
        - intros a [= <-]. now apply holds_noobj. }
      destruct v0; try (injection E as <- <-; split; [now split|split; [apply ext_refl|intros ? ?; discriminate]]); try (apply (G _ E)).
    + injection E as <- <-. split; [now split|split; [apply ext_refl|intros ? ?; discriminate]].
    + revert E. generalize (conj Hw Ht : Inv s).
      change ((fun m => forall I : Inv s, m s = (s', r) -> Inv s' /\ ext s s' /\ (forall a, r = ROk a -> holds s' a))
                (mbind (touch S OpCmp o0 []) (fun _ => unm))).
      intros I E. eapply (spec_bind (fun s => holds s (LO o0))); [auto with stab| | |exact I|exact Hc|exact E].
      * apply spec_touch; [intros s0 H; now apply holds_LO|discriminate].
      * intros ?. apply spec_unm.
    + injection E as <- <-. split; [now split|split; [apply ext_refl|intros ? ?; discriminate]].
    + injection E as <- <-. split; [now split|split; [apply ext_refl|intros ? ?; discriminate]].
    + injection E as <- <-. split; [now split|split; [apply ext_refl|intros ? ?; discriminate]].
    + injection E as <- <-. split; [now split|split; [apply ext_refl|intros ? ?; discriminate]].
  - injection E as <- <-. split; [|split; [exact (ext_refl s)|intros ? ?; discriminate]].
    split; cbn; [split; [exact Hw|now rewrite Ht]|exact Ht].
Qed.

Lemma spec_cleanup (pre : state -> Prop) : spec pre cleanup (fun _ _ => True).
Proof.
  intros s s' r I P E. injection E as <- <-. destruct I as [Hw Ht]. split; [|split; [exact (ext_refl s)|auto]].
  split; cbn; [repeat split; auto|reflexivity].
Qed.

(* ------------------------------------------------------------------ the handler language *)
(* no pickling outside the allow_pickle guard; g = "we are under the guard" *)
Fixpoint pk (g : bool) (e : hexp) : bool :=
  match e with
  | XOp op a b => (match op with OpPickle => g | _ => true end) && pk g a && pk g b
  | XGuardCfg key _ body => if String.eqb key "allow_pickle" then pk true body else true
  | XTupCons a b | XLet a b | XSlice a b | XDecref a b | XTryExc a b => pk g a && pk g b
  | XAccess _ o n x => pk g o && pk g n && pk g x
  | XType a | XLookup a | XCtxArgs a => pk g a
  | XCall f p st k => pk g f && pk g p && pk g st && pk g k
  | XIfNone c t e | XIfHasConn c t e => pk g c && pk g t && pk g e
  | XForward c _ a => pk g c && pk g a
  | _ => true
  end.

Lemma spec_emit_hold (pre : state -> Prop) e ys : tbl_neutral e -> (forall g, g_auth (gstep g e) = ys ++ g_auth g) ->
  (forall s, Inv s -> pre s -> ev_ok (ghost_of (tr s)) e) -> spec pre (emit e) (fun s _ => incl ys (auth s)).
Proof.
  intros Hn Hg Hok s s' r I P E. injection E as <- <-. split; [|split].
  - apply inv_add; auto. rewrite gstep_neutral by exact Hn. apply I.
  - unfold ext, auth. cbn. rewrite Hg. apply incl_appr, incl_refl.
  - intros _ _. unfold auth. cbn. rewrite Hg. apply incl_appl, incl_refl.
Qed.
Lemma holds_tuple_items s b : holds s b -> holds_all s (tuple_items b).
Proof.
  destruct b; cbn [tuple_items]; try (intros; constructor).
  - destruct v; try (intros; constructor). intros _. apply Forall_forall. intros x Hx. apply in_map_iff in Hx as (p & <- & _). now apply holds_noobj.
  - intros H. now apply holds_LT.
Qed.
Lemma holds_all_app s a b : holds_all s a -> holds_all s b -> holds_all s (a ++ b).
Proof. intros. now apply Forall_app. Qed.
Lemma holds_nth s l i v : holds_all s l -> nth_error l i = Some v -> holds s v.
Proof. intros H E. apply nth_error_In in E. unfold holds_all in H. rewrite Forall_forall in H. now apply H. Qed.

Ltac sp_bind M := eapply spec_bind with (mid := M); [auto 10 with stab| |].
Ltac sp_pre L := eapply spec_pre; [apply L|].
Definition PRE (env loc : list lval) : state -> Prop := fun s => holds_all s env /\ holds_all s loc.
Lemma stable_PRE env loc : stable (PRE env loc). Proof. unfold PRE. auto with stab. Qed.
Hint Resolve stable_PRE : stab.

Lemma spec_eval e : pk (c_pickle C) e = true -> forall env loc, spec (PRE env loc) (eval S C UL BL env loc e) holds.
Proof.
  induction e; intros Hpk env loc; cbn [eval]; cbn [pk] in Hpk;
    repeat match goal with H : _ && _ = true |- _ => apply andb_prop in H; let a := fresh "K" in let b := fresh "K" in destruct H as [a b] end.
  - (* XParam *) destruct (nth_error env i) eqn:E; [|apply spec_unm]. apply spec_ret. intros s [H _]. eapply holds_nth; eauto.
  - (* XLocal *) destruct (nth_error loc i) eqn:E; [|apply spec_unm]. apply spec_ret. intros s [_ H]. eapply holds_nth; eauto.
  - apply spec_ret; intros; now apply holds_noobj.
  - apply spec_ret; intros; now apply holds_noobj.
  - apply spec_ret; intros; now apply holds_noobj.
  - apply spec_ret; intros; now apply holds_noobj.
  - apply spec_ret; intros; now apply holds_noobj.
  - (* XRoot *)
    sp_bind (fun s (_ : unit) => incl [s_root S] (auth s)).
    + apply spec_emit_hold; [exact Logic.I|reflexivity|]. intros; reflexivity.
    + intros _. apply spec_ret. intros s [_ H]. exact H.
  - (* XCleanup *)
    sp_bind (fun (_ : state) (_ : unit) => True); [apply spec_cleanup|]. intros _. apply spec_ret; intros; now apply holds_noobj.
  - apply spec_ret; intros; now apply holds_noobj.
  - (* XTupCons *)
    sp_bind holds; [apply IHe1; assumption|]. intros a.
    sp_bind holds; [sp_pre IHe2; [assumption|tauto]|]. intros b.
    apply spec_ret. intros s [[_ Ha] Hb]. apply holds_LT. constructor; [exact Ha|now apply holds_tuple_items].
  - (* XLet *)
    sp_bind holds; [apply IHe1; assumption|]. intros v.
    eapply spec_pre; [apply (IHe2 ltac:(assumption) env (v :: loc))|]. intros s [[He Hl] Hv]. split; [exact He|constructor; assumption].
  - (* XAccess *)
    sp_bind holds; [apply IHe1; assumption|]. intros ov.
    sp_bind holds; [sp_pre IHe2; [assumption|tauto]|]. intros nv.
    sp_bind holds; [sp_pre IHe3; [assumption|tauto]|]. intros xv.
    sp_pre spec_access. tauto.
  - (* XType *)
    sp_bind holds; [apply IHe; assumption|]. intros v. destruct v; try (apply spec_ret; intros; now apply holds_noobj).
    + sp_bind (fun s (_ : unit) => incl [s_type S o] (auth s)).
      * apply spec_emit_hold; [exact Logic.I|reflexivity|]. intros s _ [_ H]. cbn. split; [now apply holds_LO|reflexivity].
      * intros _. apply spec_ret. intros s [_ H]. exact H.
    + sp_bind (fun (_ : state) (_ : unit) => True); [apply spec_mark|]. intros _. apply spec_ret; intros; now apply holds_noobj.
  - (* XCall *)
    sp_bind holds; [apply IHe1; assumption|]. intros fv.
    sp_bind holds; [sp_pre IHe2; [assumption|tauto]|]. intros pv.
    sp_bind holds; [sp_pre IHe3; [assumption|tauto]|]. intros sv.
    sp_bind holds; [sp_pre IHe4; [assumption|tauto]|]. intros kv.
    sp_bind (fun s (sk : list lval * list (lval * lval)) => holds_all s (fst sk)).
    + destruct (tuple_items pv).
      * sp_bind (fun (_ : state) (_ : list (lval * lval)) => True); [sp_pre spec_kw; tauto|]. intros k.
        sp_bind (fun (_ : state) (_ : unit) => True).
        { destruct fv; try (apply spec_ret; auto); destruct sv; try (apply spec_ret; auto);
            destruct (iter_elems false v) eqn:Ei; try (apply spec_ret; auto).
          - sp_bind holds; [|intros; apply spec_ret; auto]. apply spec_touch; [|discriminate].
            intros s H. apply holds_LO. tauto.
          - eapply spec_pre with (pre := fun s => holds_all s [LP idp]); [|auto with stab]. apply spec_converse_any. intros; apply spec_unm. }
        intros _. sp_bind holds_all; [sp_pre spec_iter; tauto|]. intros l0. apply spec_ret. intros s H. cbn. tauto.
      * sp_bind holds_all; [sp_pre spec_iter; tauto|]. intros l1.
        sp_bind (fun (_ : state) (_ : list (lval * lval)) => True); [sp_pre spec_kw; tauto|]. intros k. apply spec_ret. intros s H. cbn. tauto.
    + intros sk. destruct fv; try apply spec_unm; try apply spec_raise.
      * apply spec_val_op.
      * apply spec_touch; [|discriminate]. intros s H. apply holds_LO. tauto.
      * sp_pre spec_converse. intros s H. constructor; [apply holds_LP|]. apply holds_all_app; [apply holds_tuple_items|]; tauto.
  - (* XOp *)
    sp_bind holds; [apply IHe1; assumption|]. intros av.
    sp_bind holds; [sp_pre IHe2; [assumption|tauto]|]. intros bv.
    sp_pre spec_do_op; [|tauto]. intros ->. destruct (c_pickle C); [reflexivity|discriminate].
  - (* XSlice *)
    sp_bind holds; [apply IHe1; assumption|]. intros av.
    sp_bind holds; [sp_pre IHe2; [assumption|tauto]|]. intros bv.
    apply spec_ret. intros s [[_ Ha] Hb]. unfold holds. cbn. apply incl_app; assumption.
  - (* XLookup *)
    sp_bind holds; [apply IHe; assumption|]. intros kv. destruct (as_value kv); [apply spec_resolve|apply spec_unm].
  - (* XDecref *)
    sp_bind holds; [apply IHe1; assumption|]. intros kv.
    sp_bind holds; [sp_pre IHe2; [assumption|tauto]|]. intros cv.
    sp_pre spec_decref. tauto.
  - (* XGuardCfg *)
    destruct (String.eqb key "allow_pickle"); [|apply spec_unm].
    destruct (c_pickle C) eqn:Ec; [apply IHe; exact Hpk|apply spec_raise].
  - (* XTryExc *)
    intros s s' r I P E. destruct (eval S C UL BL env loc e1 s) as [s1 r1] eqn:E1.
    destruct (IHe1 ltac:(assumption) env loc _ _ _ I P E1) as (I1 & X1 & Q1).
    destruct r1 as [a|x|].
    + injection E as <- <-. split; [exact I1|split; [exact X1|exact Q1]].
    + destruct (is_exception x).
      * destruct (IHe2 ltac:(assumption) env loc _ _ _ I1 (stable_PRE _ _ _ _ X1 P) E) as (I2 & X2 & Q2).
        split; [exact I2|split; [exact (ext_trans _ _ _ X1 X2)|exact Q2]].
      * injection E as <- <-. split; [exact I1|split; [exact X1|exact Q1]].
    + injection E as <- <-. split; [exact I1|split; [exact X1|exact Q1]].
  - (* XIfNone *)
    sp_bind holds; [apply IHe1; assumption|]. intros cv.
    destruct cv; try (sp_pre IHe3; [assumption|tauto]). destruct v; try (sp_pre IHe3; [assumption|tauto]). sp_pre IHe2; [assumption|tauto].
  - (* XIfHasConn *)
    sp_bind holds; [apply IHe1; assumption|]. intros cv.
    destruct cv; try (sp_pre IHe3; [assumption|tauto]); [|sp_pre IHe2; [assumption|tauto]].
    sp_bind (fun (_ : state) (_ : unit) => True).
    + apply spec_emit; [exact Logic.I|]. intros s _ [_ H]. cbn. split; [now apply holds_LO|discriminate].
    + intros _. sp_pre IHe3; [assumption|tauto].
  - (* XForward *)
    sp_bind holds; [apply IHe1; assumption|]. intros cv.
    sp_bind holds; [sp_pre IHe2; [assumption|tauto]|]. intros av.
    sp_pre spec_converse. intros s [_ H]. now apply holds_all_one.
  - (* XCtxArgs *)
    sp_bind holds; [apply IHe; assumption|]. intros v.
    sp_bind (fun (_ : state) (_ : bool) => True); [sp_pre spec_truthy; tauto|]. intros b.
    destruct b.
    + intros s s' r I [[_ Hv] _] E.
      assert (G : forall (s1 : state) (r1 : res lval), Inv s1 -> ext s s1 ->
                match r1 with
                | RRaise x => if is_exception x then (s1, ROk (LT [LOpq; LOpq; LOpq])) else (s1, @RRaise lval x)
                | ROk _ => (s1, @RUnm lval)
                | RUnm => (s1, @RUnm lval)
                end = (s', r) -> Inv s' /\ ext s s' /\ (forall a, r = ROk a -> holds s' a)).
      { intros s1 r1 I1 X1 E1. destruct r1 as [a|x|]; [| destruct (is_exception x)|]; injection E1 as <- <-;
          (split; [exact I1|split; [exact X1|intros a0 Ha; try discriminate]]). injection Ha as <-. now apply holds_noobj. }
      destruct v as [?| |o|?|?|? ?|]; try (apply (G s _ I (ext_refl s) E)).
      destruct (touch S OpRaise o [] s) as [s1 r1] eqn:Et.
      destruct (spec_touch (fun s => holds s (LO o)) OpRaise o [] (fun s H => proj1 (holds_LO s o) H) ltac:(discriminate) _ _ _ I Hv Et) as (I1 & X1 & _).
      exact (G s1 r1 I1 X1 E).
    + apply spec_ret. intros s [[_ Hv] _]. apply holds_LT. constructor; [exact Hv|]. constructor; [now apply holds_noobj|]. constructor; [now apply holds_noobj|constructor].
Qed.
End Inv.
