(* C07 proofs: whatever messages a peer sends, whatever the service's objects do, whatever the handler table (in the
   handler language) is, the event trace of the connection is well-formed against a ghost replay. *)
From V Require Import lib.Base lib.Sx model.Brine model.Attr model.Hostile proofs.AttrP.
From V Require model.Vinegar proofs.VinegarP.
From Coq Require Import String.
Open Scope bool_scope.

Section Inv.
Context {W : Type}.
Variable S : sem W.
Variable C : config.
Variable HT : list (string * hdef).
Variable DT : list (Z * string).
Variable ML : list (Z * dact).
Variable UL : list (Z * uact).
Variable BL : list (string * Z).
(* Python's own operations on plain values cannot conjure service objects: whatever they hand out came in with the arguments *)
Definition val_closed : Prop := forall op v args, incl (yields (s_val S op v args)) (flat_map objs_of args).
Hypothesis Sval : val_closed.

(* ------------------------------------------------------------------ ghost replay of a trace (newest first) *)
Record ghost := { g_tbl : table; g_auth : list oid }.
Definition g0 : ghost := {| g_tbl := []; g_auth := [] |}.
Definition g_hold (g : ghost) (ys : list oid) : ghost := {| g_tbl := g_tbl g; g_auth := ys ++ g_auth g |}.
Definition g_set (g : ghost) (t : table) : ghost := {| g_tbl := t; g_auth := g_auth g |}.
Definition gstep (g : ghost) (e : event) : ghost :=
  match e with
  | EMsg => {| g_tbl := g_tbl g; g_auth := [] |}
  | ERoot o | EResolve _ o => g_hold g [o]
  | EType _ ty => g_hold g [ty]
  | EAttr _ _ _ ys | EHook _ _ _ ys | ETouch _ _ ys | EForeign ys => g_hold g ys
  | EBox k o => g_set g (tbl_add k o (g_tbl g))
  | EDecref k n => g_set g (tbl_decref k n (g_tbl g))
  | EClear => g_set g []
  | _ => g
  end.
Fixpoint ghost_of (t : list event) : ghost :=
  match t with [] => g0 | e :: t' => gstep (ghost_of t') e end.

(* what makes one event legitimate given everything that happened before *)
Definition ev_ok (g : ghost) (e : event) : Prop :=
  match e with
  | ERoot o => o = s_root S
  | EResolve k o => exists c, tbl_find k (g_tbl g) = Some (o, c)
  | EMiss k => tbl_find k (g_tbl g) = None
  | EType o ty => In o (g_auth g) /\ ty = s_type S o
  | EProbe o n => In o (g_auth g) /\ exists p pn vw, In (EGet n) (probes_of (c_attr C) p pn vw)
  | EAttr o p final _ => In o (g_auth g) /\ exists pn vw, decide (c_guard C) (c_attr C) p pn vw = Ok (ViaDefault final)
  | EHook o p n _ => In o (g_auth g) /\ exists pn vw, decide (c_guard C) (c_attr C) p pn vw = Ok (ViaHook n)
  | ETouch o op _ => In o (g_auth g) /\ (op = OpPickle -> c_pickle C = true)
  | EBox k o => In o (g_auth g) /\ k = s_key S o
  | EDecref k _ => tbl_find k (g_tbl g) <> None
  | EVin v => exists payload, In v (fst (Vinegar.vload Vinegar.LkGetattr (c_rflags C) (s_env S) payload))
  | EPayload o _ => In o (g_auth g)
  | EForeign ys => incl ys (g_auth g)
  | ECls _ => Vinegar.hooks_run (c_cls_mode C) (c_rflags C) = true
  | EGlobalRead _ => c_cls_reads C = true
  | _ => True
  end.
Fixpoint wf (t : list event) : Prop :=
  match t with [] => True | e :: t' => wf t' /\ ev_ok (ghost_of t') e end.

Notation state := (hst W).
Definition auth (s : state) : list oid := g_auth (ghost_of (tr s)).
Definition Inv (s : state) : Prop := wf (tr s) /\ g_tbl (ghost_of (tr s)) = tbl s.
Definition ext (s s' : state) : Prop := incl (auth s) (auth s').
Definition holds (s : state) (v : lval) : Prop := incl (objs_of v) (auth s).
Definition holds_all (s : state) (l : list lval) : Prop := Forall (holds s) l.

Lemma ext_refl s : ext s s. Proof. apply incl_refl. Qed.
Lemma ext_trans a b c : ext a b -> ext b c -> ext a c. Proof. apply incl_tran. Qed.
Lemma holds_ext s s' v : ext s s' -> holds s v -> holds s' v.
Proof. intros E H. eapply incl_tran; eauto. Qed.
Lemma holds_all_ext s s' l : ext s s' -> holds_all s l -> holds_all s' l.
Proof. intros E H. eapply Forall_impl; [|exact H]. intros v. now apply holds_ext. Qed.
Lemma holds_LT s l : holds s (LT l) <-> holds_all s l.
Proof.
  unfold holds, holds_all. cbn [objs_of]. rewrite Forall_forall. split.
  - intros H v Hv o Ho. apply H. apply in_flat_map. eauto.
  - intros H o Ho. apply in_flat_map in Ho as (v & Hv & Ho). exact (H v Hv o Ho).
Qed.
Lemma holds_noobj s v : objs_of v = [] -> holds s v.
Proof. unfold holds. intros ->. apply incl_nil_l. Qed.
Lemma holds_LO s o : holds s (LO o) <-> In o (auth s).
Proof. unfold holds. cbn. split; [intros H; apply H; now left | intros H x [<-|[]]; exact H]. Qed.

(* ------------------------------------------------------------------ specifications of monadic computations *)
Definition M := @Hostile.M W.
Definition stable (P : state -> Prop) : Prop := forall s s', ext s s' -> P s -> P s'.
Definition spec {A} (pre : state -> Prop) (m : M A) (post : state -> A -> Prop) : Prop :=
  forall s s' r, Inv s -> pre s -> m s = (s', r) -> Inv s' /\ ext s s' /\ (forall a, r = ROk a -> post s' a).

Lemma spec_weaken {A} (pre pre' : state -> Prop) (m : M A) (post post' : state -> A -> Prop) :
  spec pre m post -> (forall s, pre' s -> pre s) -> (forall s a, post s a -> post' s a) -> spec pre' m post'.
Proof. intros H Hp Hq s s' r I P E. destruct (H s s' r I (Hp _ P) E) as (I' & X & Q). split; [exact I'|split; [exact X|]]. intros a Ha. apply Hq. now apply Q. Qed.
Lemma spec_pre {A} (pre pre' : state -> Prop) (m : M A) (post : state -> A -> Prop) :
  spec pre m post -> (forall s, pre' s -> pre s) -> spec pre' m post.
Proof. intros H Hp. eapply spec_weaken; [exact H|exact Hp|auto]. Qed.
Ltac same I := split; [exact I|split; [apply ext_refl|intros ? ?; try discriminate]].
Lemma spec_ret {A} (pre : state -> Prop) (a : A) (post : state -> A -> Prop) : (forall s, pre s -> post s a) -> spec pre (ret a) post.
Proof. intros H s s' r I P E. injection E as <- <-. same I. match goal with X : ROk _ = ROk _ |- _ => injection X as <- end. now apply H. Qed.
Lemma spec_raise {A} (pre : state -> Prop) x (post : state -> A -> Prop) : spec pre (raise x) post.
Proof. intros s s' r I P E. injection E as <- <-. same I. Qed.
Lemma spec_unm {A} (pre : state -> Prop) (post : state -> A -> Prop) : spec pre unm post.
Proof. intros s s' r I P E. injection E as <- <-. same I. Qed.
Lemma spec_lift {A} (pre : state -> Prop) (r : result A) (post : state -> A -> Prop) : (forall s a, pre s -> r = Ok a -> post s a) -> spec pre (lift r) post.
Proof. intros H. destruct r; cbn [lift]; [apply spec_ret; eauto | apply spec_raise | apply spec_unm | apply spec_unm]. Qed.
Lemma spec_bind {A B} (pre : state -> Prop) (m : M A) (k : A -> M B) (mid : state -> A -> Prop) (post : state -> B -> Prop) :
  stable pre -> spec pre m mid -> (forall a, spec (fun s => pre s /\ mid s a) (k a) post) -> spec pre (mbind m k) post.
Proof.
  intros St Hm Hk s s' r I P E. unfold mbind in E. destruct (m s) as [s1 [a|x|]] eqn:Em.
  - destruct (Hm _ _ _ I P Em) as (I1 & X1 & Q1).
    destruct (Hk a _ _ _ I1 (conj (St _ _ X1 P) (Q1 a eq_refl)) E) as (I2 & X2 & Q2).
    split; [exact I2|split; [eapply ext_trans; eauto|exact Q2]].
  - injection E as <- <-. destruct (Hm _ _ _ I P Em) as (I1 & X1 & _). split; [exact I1|split; [exact X1|intros ? ?; discriminate]].
  - injection E as <- <-. destruct (Hm _ _ _ I P Em) as (I1 & X1 & _). split; [exact I1|split; [exact X1|intros ? ?; discriminate]].
Qed.

Lemma stable_and P Q : stable P -> stable Q -> stable (fun s => P s /\ Q s).
Proof. intros HP HQ s s' E [p q]. split; eauto. Qed.
Lemma stable_const (P : Prop) : stable (fun _ => P). Proof. intros s s' _ p; exact p. Qed.
Lemma stable_holds v : stable (fun s => holds s v). Proof. intros s s' E. now apply holds_ext. Qed.
Lemma stable_holds_all l : stable (fun s => holds_all s l). Proof. intros s s' E. now apply holds_all_ext. Qed.
Lemma stable_auth o : stable (fun s => In o (auth s)). Proof. intros s s' E H. now apply E. Qed.
Lemma stable_true : stable (fun _ => True). Proof. intros s s' _ _. exact I. Qed.
Hint Resolve stable_and stable_const stable_holds stable_holds_all stable_auth stable_true : stab.

(* ------------------------------------------------------------------ state updates that do not concern the invariant *)
Lemma inv_add s e : Inv s -> ev_ok (ghost_of (tr s)) e ->
  g_tbl (gstep (ghost_of (tr s)) e) = tbl s -> Inv (add_ev s e).
Proof. intros [Hw Ht] Ho Hg. split; cbn; auto. Qed.
Lemma auth_add s e : e <> EMsg -> incl (auth s) (auth (add_ev s e)).
Proof.
  intros Hne. unfold auth. cbn. destruct e; cbn; try (now elim Hne); auto using incl_refl, incl_tl, incl_appr.
Qed.

(* emit an event whose legitimacy follows from the precondition and that does not change the ghost table *)
Definition tbl_neutral (e : event) : Prop :=
  match e with EBox _ _ | EDecref _ _ | EClear | EMsg => False | _ => True end.
Lemma gstep_neutral g e : tbl_neutral e -> g_tbl (gstep g e) = g_tbl g.
Proof. destruct e; cbn; tauto. Qed.
Lemma spec_emit (pre : state -> Prop) e : tbl_neutral e -> (forall s, Inv s -> pre s -> ev_ok (ghost_of (tr s)) e) ->
  spec pre (emit e) (fun _ _ => True).
Proof.
  intros Hn Hok s s' r I P [= <- <-]. split; [|split; [|auto]].
  - apply inv_add; auto. rewrite gstep_neutral by exact Hn. apply I.
  - apply auth_add. intros ->. exact Hn.
Qed.
Lemma spec_mark (pre : state -> Prop) : spec pre mark_approx (fun _ _ => True).
Proof. intros s s' r I P E. injection E as <- <-. split; [exact I|split; [exact (ext_refl s)|auto]]. Qed.
Lemma spec_pop (pre : state -> Prop) : spec pre pop_answer (fun _ _ => True).
Proof.
  intros s s' r I P E. unfold pop_answer in E. destruct (script s); injection E as <- <-; (split; [exact I|split; [exact (ext_refl s)|auto]]).
Qed.

(* ------------------------------------------------------------------ primitives *)
Lemma yields_auth s e (r : res lval) ys : ys = yields r -> e <> EMsg ->
  g_auth (gstep (ghost_of (tr s)) e) = ys ++ auth s -> forall a, r = ROk a -> incl (objs_of a) (g_auth (gstep (ghost_of (tr s)) e)).
Proof. intros -> _ E a ->. rewrite E. cbn. apply incl_appl, incl_refl. Qed.

Lemma spec_touch (pre : state -> Prop) op o args : (forall s, pre s -> In o (auth s)) -> (op = OpPickle -> c_pickle C = true) ->
  spec pre (touch S op o args) holds.
Proof.
  intros Hin Hp s s' r I P E. unfold touch in E. destruct (s_op S (wst s) op o args) as [w r0] eqn:Es. injection E as <- <-.
  split; [|split].
  - split; cbn; [split; [apply I|split; [apply Hin, P|exact Hp]]|apply I].
  - unfold ext, auth. cbn. apply incl_appr, incl_refl.
  - intros a ->. unfold holds, auth. cbn. apply incl_appl, incl_refl.
Qed.
Lemma spec_val_op (pre : state -> Prop) op v args : (forall s, pre s -> holds_all s args) -> spec pre (val_op S op v args) holds.
Proof.
  intros Ha s s' r I P E. unfold val_op in E. injection E as <- <-. split; [|split].
  - split; cbn; [split; [apply I|]|apply I]. eapply incl_tran; [apply Sval|].
    specialize (Ha _ P). intros o Ho. apply in_flat_map in Ho as (x & Hx & Ho). unfold holds_all in Ha. rewrite Forall_forall in Ha. exact (Ha x Hx o Ho).
  - unfold ext, auth. cbn. apply incl_appr, incl_refl.
  - intros a Hr. unfold holds, auth. cbn. rewrite Hr. cbn. apply incl_appl, incl_refl.
Qed.
Lemma spec_resolve (pre : state -> Prop) k : spec pre (resolve k) holds.
Proof.
  intros s s' r I P E. unfold resolve in E. destruct I as [Hw Ht].
  destruct (tbl_find k (tbl s)) as [[o c]|] eqn:F; injection E as <- <-; (split; [|split]).
  - split; cbn; [split; [exact Hw|exists c; now rewrite Ht]|exact Ht].
  - unfold ext, auth. cbn. apply incl_tl, incl_refl.
  - intros a [= <-]. apply holds_LO. unfold auth. cbn. now left.
  - split; cbn; [split; [exact Hw|now rewrite Ht]|exact Ht].
  - exact (ext_refl s).
  - discriminate.
Qed.
Lemma spec_lend (pre : state -> Prop) o : (forall s, pre s -> In o (auth s)) -> spec pre (lend S o) (fun _ _ => True).
Proof.
  intros Hin s s' r I P E. unfold lend in E. injection E as <- <-. destruct I as [Hw Ht]. split; [|split; [|auto]].
  - split; cbn; [split; [exact Hw|split; [apply Hin, P|reflexivity]]|now rewrite Ht].
  - exact (ext_refl s).
Qed.

Lemma as_value_noobj : forall v p, as_value v = Some p -> True.
Proof. auto. Qed.

Lemma spec_box f : forall v, spec (fun s => holds s v) (box S BL f v) (fun _ _ => True).
Proof.
  induction f as [|f IH]; intros v; cbn [box]; [apply spec_unm|].
  destruct (as_value v); [apply spec_ret; auto|].
  destruct v; try apply spec_unm.
  - (* LO *) eapply spec_bind; [auto with stab| apply spec_lend; intros s H; now apply holds_LO | intros k; apply spec_ret; auto].
  - (* LT *)
    eapply spec_bind with (mid := fun _ _ => True); [auto with stab| |intros ps; apply spec_ret; auto].
    eapply spec_weaken with (pre := fun s => holds_all s l) (post := fun _ _ => True); [|intros s H; now apply holds_LT|auto].
    induction l as [|x l IHl]; [apply spec_ret; auto|].
    eapply spec_bind with (mid := fun _ _ => True); [auto with stab| |].
    + eapply spec_weaken; [apply IH| |auto]. intros s H. now inversion H.
    + intros p. eapply spec_bind with (mid := fun _ _ => True); [auto with stab| |intros ps; apply spec_ret; auto].
      eapply spec_weaken; [apply IHl| |auto]. intros s [H _]. now inversion H.
  - (* LP *) apply spec_ret; auto.
Qed.

Lemma spec_load_exc (pre : state -> Prop) payload : spec pre (load_exc S C payload) (fun _ _ => True).
Proof.
  intros s s' r I P E. unfold load_exc in E.
  destruct (Vinegar.vload Vinegar.LkGetattr (c_rflags C) (s_env S) payload) as [eff rr] eqn:V.
  assert (K : forall l s0, Inv s0 -> (forall v, In v l -> In v eff) ->
              Inv (fold_left (fun s e => add_ev s (EVin e)) l s0) /\ ext s0 (fold_left (fun s e => add_ev s (EVin e)) l s0)).
  { induction l as [|v l IHl]; intros s0 I0 Hl; cbn; [split; auto using ext_refl|].
    assert (I1 : Inv (add_ev s0 (EVin v))).
    { apply inv_add; [exact I0| |cbn; apply I0]. cbn. exists payload. rewrite V. cbn. apply Hl. now left. }
    destruct (IHl _ I1 (fun v' H => Hl v' (or_intror H))) as [I2 X2]. split; [exact I2|].
    eapply ext_trans; [|exact X2]. apply auth_add. discriminate. }
  destruct (K eff s I (fun _ H => H)) as [I' X'].
  set (s1 := fold_left (fun s e => add_ev s (EVin e)) eff s) in *.
  assert (R : s' = s1) by (destruct rr as [[| |c a sets st]| | |]; try (destruct (negb (iterable a) || existsb set_fails sets)); try destruct st; now injection E).
  subst s'. split; [exact I'|split; [exact X'|auto]].
Qed.

Lemma spec_in_ccache (pre : state -> Prop) k : spec pre (in_ccache k) (fun _ _ => True).
Proof. intros s s' r I P E. injection E as <- <-. split; [exact I|split; [apply ext_refl|auto]]. Qed.
Lemma spec_was_seen (pre : state -> Prop) k : spec pre (was_seen k) (fun _ _ => True).
Proof. intros s s' r I P E. injection E as <- <-. split; [exact I|split; [apply ext_refl|auto]]. Qed.
Lemma spec_note_seen (pre : state -> Prop) k : spec pre (note_seen k) (fun _ _ => True).
Proof. intros s s' r I P E. injection E as <- <-. split; [exact I|split; [exact (ext_refl s)|auto]]. Qed.
Lemma spec_note_class (pre : state -> Prop) k : spec pre (note_class k) (fun _ _ => True).
Proof. intros s s' r I P E. injection E as <- <-. split; [exact I|split; [exact (ext_refl s)|auto]]. Qed.
Lemma class_imports_hooks name : class_imports S C name <> [] -> Vinegar.hooks_run (c_cls_mode C) (c_rflags C) = true.
Proof.
  unfold class_imports. destruct (find _ _) as [[m cls]|]; [|congruence].
  destruct (Vinegar.find_module _ _ m); [|congruence]. destruct (Vinegar.assoc cls n) as [[| |imps fnd]|]; try congruence.
  destruct (Vinegar.hooks_run _ _); congruence.
Qed.
Lemma spec_class_walk (pre : state -> Prop) name : spec pre (class_walk S C name) (fun _ _ => True).
Proof.
  intros s s' r I P E. unfold class_walk, emit_all in E. injection E as <- <-.
  assert (K : forall l s0, Inv s0 -> (forall e, In e l -> e <> EMsg /\ tbl_neutral e /\ forall g, ev_ok g e) ->
              Inv (fold_left add_ev l s0) /\ ext s0 (fold_left add_ev l s0)).
  { induction l as [|e l IHl]; intros s0 I0 Hl; cbn; [split; [exact I0|apply ext_refl]|].
    destruct (Hl e (or_introl eq_refl)) as (Hne & Hn & Hok).
    assert (I1 : Inv (add_ev s0 e)) by (apply inv_add; [exact I0|apply Hok|rewrite gstep_neutral by exact Hn; apply I0]).
    destruct (IHl _ I1 (fun e' H => Hl e' (or_intror H))) as [I2 X2]. split; [exact I2|]. eapply ext_trans; [|exact X2]. now apply auth_add. }
  destruct (K (map ECls (class_imports S C name) ++ class_global S C name) s I) as [I' X']; [|split; [exact I'|split; [exact X'|auto]]].
  intros e He. apply in_app_or in He as [He|He].
  - apply in_map_iff in He as (m & <- & Hm). split; [discriminate|split; [exact Logic.I|]]. intros g. cbn.
    apply (class_imports_hooks name). intros X. rewrite X in Hm. contradiction.
  - unfold class_global in He. destruct (c_cls_reads C) eqn:Hr; [|contradiction]. destruct (assoc_txt name (s_globals S)); [|contradiction].
    destruct He as [<-|[]]. split; [discriminate|split; [exact Logic.I|]]. intros g. exact Hr.
Qed.
Lemma spec_raise_loaded {A} (pre : state -> Prop) payload (post : state -> A -> Prop) : spec pre (raise_loaded S C payload) post.
Proof.
  intros s s' r I P E. unfold raise_loaded in E. destruct (load_exc S C payload s) as [s1 r1] eqn:El.
  destruct (spec_load_exc pre payload _ _ _ I P El) as (I1 & X1 & _).
  destruct r1; injection E as <- <-; (split; [exact I1|split; [exact X1|intros ? ?; discriminate]]).
Qed.

Lemma spec_unbox f : forall pkg, spec (fun _ => True) (unbox S C UL f pkg) holds.
Proof.
  induction f as [|f IH]; intros pkg; cbn [unbox]; [apply spec_unm|].
  eapply spec_bind with (mid := fun _ _ => True); [auto with stab|apply spec_lift; auto|]. intros lv.
  destruct lv as [|label [|value [|? ?]]]; try apply spec_raise.
  destruct (match num_of label with Some z => assoc_z z UL | None => None end) as [[| | |]|]; [| | | |apply spec_raise].
  - apply spec_ret. intros; now apply holds_noobj.
  - eapply spec_bind with (mid := fun _ _ => True); [auto with stab|apply spec_lift; auto|]. intros items.
    assert (G : spec (fun _ => True)
                  (mbind ((fix go (l : list pyval) : M (list lval) :=
                             match l with
                             | [] => ret []
                             | x :: r => mbind (in_genexpr (unbox S C UL f x)) (fun v => mbind (go r) (fun vs => ret (v :: vs)))
                             end) items) (fun l => ret (LT l))) holds).
    { eapply spec_bind with (mid := fun s l => holds_all s l); [auto with stab| |intros l; apply spec_ret; intros s [_ H]; now apply holds_LT].
      induction items as [|x items IHi]; [apply spec_ret; constructor|].
      eapply spec_bind with (mid := fun s v => holds s v); [auto with stab| |].
      - intros s s' r I P E. unfold in_genexpr in E. destruct (unbox S C UL f x s) as [s1 r1] eqn:U.
        destruct (IH x _ _ _ I Logic.I U) as (I1 & X1 & Q1).
        destruct r1 as [a|[[]| | | | | |]|]; injection E as <- <-; (split; [exact I1|split; [exact X1|]]); intros a0 Ha; try discriminate; now apply Q1.
      - intros v. eapply spec_bind with (mid := fun s l => holds_all s l); [auto with stab| |].
        + eapply spec_pre; [apply IHi|intros; exact Logic.I].
        + intros vs. apply spec_ret. intros s [[_ Hv] Hvs]. constructor; auto. }
    eapply spec_weaken with (pre := fun _ => True) (post := holds); [|auto|auto].
    destruct value; try exact G. destruct items as [|? [|? ?]]; try exact G. apply spec_unm.
  - apply spec_resolve.
  - destruct (index3 value) as [[[a b] c]|x|]; [|apply spec_raise|apply spec_unm].
    destruct (py_str a) as [name|]; [|apply spec_unm].
    eapply spec_bind with (mid := fun _ _ => True); [auto with stab|apply spec_in_ccache|]. intros cached.
    destruct (is_zero c && cached); [apply spec_ret; intros; now apply holds_noobj|].
    destruct (is_builtin_name S name); [apply spec_ret; intros; now apply holds_noobj|].
    destruct (negb (sane_name name)); [apply spec_unm|].
    eapply spec_bind with (mid := fun _ _ => True); [auto with stab|apply spec_was_seen|]. intros seen.
    eapply spec_bind with (mid := fun _ _ => True); [auto with stab|destruct seen; [apply spec_mark|apply spec_ret; auto]|]. intros ?.
    eapply spec_bind with (mid := fun _ _ => True); [auto with stab|apply spec_note_seen|]. intros ?.
    eapply spec_bind with (mid := fun _ _ => True); [auto with stab|apply spec_emit; cbn; auto|]. intros ?.
    eapply spec_bind with (mid := fun _ _ => True); [auto 10 with stab|apply spec_pop|]. intros ans.
    destruct ans as [p|payload|].
    + eapply spec_bind with (mid := holds); [auto 10 with stab| |].
      * eapply spec_pre; [apply IH|intros; exact Logic.I].
      * intros m. destruct (methods_ok m); [|apply spec_raise|apply spec_unm].
        eapply spec_bind with (mid := fun _ _ => True); [auto 10 with stab|apply spec_class_walk|]. intros ?.
        eapply spec_bind with (mid := fun _ _ => True); [auto 10 with stab|destruct (is_zero c); [apply spec_note_class|apply spec_ret; auto]|]. intros ?.
        apply spec_ret; intros; now apply holds_noobj.
    + apply spec_raise_loaded.
    + apply spec_raise.
Qed.

Lemma spec_ask h args : spec (fun s => holds_all s args) (ask S C UL BL h args) holds.
Proof.
  unfold ask.
  eapply spec_bind with (mid := fun _ _ => True); [auto with stab| |].
  { eapply spec_pre; [apply spec_box|intros s H; now apply holds_LT]. }
  intros _. eapply spec_bind with (mid := fun _ _ => True); [auto with stab|apply spec_emit; cbn; auto|]. intros _.
  eapply spec_bind with (mid := fun _ _ => True); [auto with stab|apply spec_pop|]. intros ans.
  destruct ans as [p|payload|].
  - eapply spec_pre; [apply spec_unbox|intros; exact Logic.I].
  - apply spec_raise_loaded.
  - apply spec_raise.
Qed.
Lemma spec_converse h args : spec (fun s => holds_all s args) (converse S C UL BL h args) holds.
Proof.
  unfold converse. eapply spec_bind with (mid := fun _ _ => True); [auto with stab|apply spec_mark|].
  intros _. eapply spec_pre; [apply spec_ask|tauto].
Qed.
Lemma spec_converse_any {A} h args (k : lval -> M A) post :
  (forall v, spec (fun s => holds_all s args /\ holds s v) (k v) post) ->
  spec (fun s => holds_all s args) (mbind (converse S C UL BL h args) k) post.
Proof. intros H. eapply spec_bind; [auto with stab|apply spec_converse|exact H]. Qed.

Lemma holds_LP s idp : holds s (LP idp). Proof. now apply holds_noobj. Qed.
Lemma holds_all_one s v : holds s v -> holds_all s [v]. Proof. intros H. constructor; [exact H|constructor]. Qed.
Hint Resolve holds_LP holds_all_one : stab.

Lemma spec_iter v : spec (fun s => holds s v) (iter_lval S C UL BL v) holds_all.
Proof.
  destruct v; cbn [iter_lval].
  - (* LV *)
    assert (G : spec (fun s => holds s (LV v)) (mbind (lift (iter_elems false v)) (fun l => ret (map LV l))) holds_all).
    { eapply spec_bind with (mid := fun _ _ => True); [auto with stab|apply spec_lift; auto|].
      intros l. apply spec_ret. intros s _. apply Forall_forall. intros x Hx. apply in_map_iff in Hx as (p & <- & _). now apply holds_noobj. }
    destruct v; try exact G. destruct l as [|? [|? ?]]; try exact G. apply spec_unm.
  - apply spec_unm.
  - (* LO *)
    eapply spec_bind; [auto with stab|apply spec_touch; [intros s H; now apply holds_LO|discriminate]|].
    intros r. destruct r; try apply spec_unm. apply spec_ret. intros s [_ H]. now apply holds_LT.
  - apply spec_ret. intros s H. now apply holds_LT.
  - eapply spec_pre with (pre := fun s => holds_all s [LP idp]); [|auto with stab].
    apply spec_converse_any. intros r. destruct r; try apply spec_unm.
    + destruct v; try apply spec_unm. apply spec_ret. intros s _. apply Forall_forall. intros x Hx.
      apply in_map_iff in Hx as (p & <- & _). now apply holds_noobj.
    + apply spec_ret. intros s [_ H]. now apply holds_LT.
  - apply spec_raise.
  - apply spec_unm.
Qed.

Lemma spec_kw v : spec (fun s => holds s v) (kw_lval S C UL BL v) (fun _ _ => True).
Proof.
  destruct v; cbn [kw_lval]; try apply spec_unm.
  - destruct v; try apply spec_raise; try apply spec_unm; try (destruct b; try apply spec_raise; apply spec_ret; auto);
      try (destruct cps; try apply spec_raise; apply spec_ret; auto); try (destruct l; try apply spec_unm; apply spec_ret; auto).
  - eapply spec_bind; [auto with stab|apply spec_touch; [intros s H; now apply holds_LO|discriminate]|].
    intros r. destruct r; try apply spec_unm. destruct l; try apply spec_unm. apply spec_ret; auto.
  - destruct l; [apply spec_ret; auto|apply spec_unm].
  - eapply spec_pre with (pre := fun s => holds_all s [LP idp]); [|auto with stab].
    apply spec_converse_any. intros r. apply spec_unm.
  - apply spec_raise.
Qed.

Lemma spec_truthy v : spec (fun s => holds s v) (truthy S C UL BL v) (fun _ _ => True).
Proof.
  destruct v; cbn [truthy]; try apply spec_unm; try (apply spec_ret; auto).
  - eapply spec_bind; [auto with stab|apply spec_touch; [intros s H; now apply holds_LO|discriminate]|].
    intros r. destruct r; try apply spec_unm. destruct v; try apply spec_unm. apply spec_ret; auto.
  - eapply spec_pre with (pre := fun s => holds_all s [LP idp]); [|auto with stab].
    apply spec_converse_any. intros r. apply spec_unm.
Qed.

(* Connection._access_attr *)
Lemma spec_access p g tgt nm extra : spec (fun s => holds s tgt /\ holds s nm) (access S C UL BL p g tgt nm extra) holds.
Proof.
  destruct tgt; cbn [access];
    try (destruct (decide (c_guard C) (c_attr C) p (pyname_of nm) no_obj) as [[?|final]|e| |]; try destruct (guard_ok g final); try apply spec_unm; apply spec_raise).
  - (* LO *)
    intros s s' r I [P _] E. apply holds_LO in P.
    set (vw := s_view S (wst s) o) in *. set (pn := pyname_of nm) in *.
    assert (K : forall l s0, Inv s0 -> In o (auth s0) -> (forall e, In e l -> In e (probes_of (c_attr C) p pn vw)) ->
              let s1 := fold_left (fun s e => add_ev s (EProbe o (ev_name e))) l s0 in Inv s1 /\ ext s0 s1 /\ wst s1 = wst s0).
    { induction l as [|e l IHl]; intros s0 I0 A0 Hl; cbn; [split; [exact I0|split; [apply ext_refl|reflexivity]]|].
      assert (Pe : In e (probes_of (c_attr C) p pn vw)) by (apply Hl; now left).
      assert (Eg : e = EGet (ev_name e)).
      { unfold probes_of in Pe. destruct (nkind_of pn); try contradiction; (destruct (hook_for vw p); [contradiction|]);
          apply in_map_iff in Pe as (q & <- & _); destruct q; reflexivity. }
      assert (I1 : Inv (add_ev s0 (EProbe o (ev_name e)))).
      { apply inv_add; [exact I0| |cbn; apply I0]. cbn. split; [exact A0|]. exists p, pn, vw. now rewrite <- Eg. }
      assert (X1 : ext s0 (add_ev s0 (EProbe o (ev_name e)))) by (apply auth_add; discriminate).
      destruct (IHl _ I1 (X1 _ A0) (fun e' H => Hl e' (or_intror H))) as (I2 & X2 & W2).
      split; [exact I2|split; [exact (ext_trans _ _ _ X1 X2)|exact W2]]. }
    destruct (K _ s I P (fun _ H => H)) as (I1 & X1 & W1). cbn zeta in I1, X1, W1.
    set (s1 := fold_left (fun s e => add_ev s (EProbe o (ev_name e))) (probes_of (c_attr C) p pn vw) s) in *.
    destruct (decide (c_guard C) (c_attr C) p pn vw) as [[n|final]|e| |] eqn:D.
    + destruct (s_hook S (wst s1) o p n extra) as [w r0] eqn:Es. injection E as <- <-. split; [|split].
      * split; cbn; [split; [apply I1|split; [apply X1, P|eauto]]|apply I1].
      * eapply ext_trans; [exact X1|]. unfold ext, auth. cbn. apply incl_appr, incl_refl.
      * intros a ->. unfold holds, auth. cbn. apply incl_appl, incl_refl.
    + destruct (guard_ok g final); [|injection E as <- <-; split; [exact I1|split; [exact X1|intros ? ?; discriminate]]].
      destruct (s_attr S (wst s1) o p final extra) as [w r0] eqn:Es. injection E as <- <-. split; [|split].
      * split; cbn; [split; [apply I1|split; [apply X1, P|eauto]]|apply I1].
      * eapply ext_trans; [exact X1|]. unfold ext, auth. cbn. apply incl_appr, incl_refl.
      * intros a ->. unfold holds, auth. cbn. apply incl_appl, incl_refl.
    + injection E as <- <-. split; [exact I1|split; [exact X1|intros ? ?; discriminate]].
    + injection E as <- <-. split; [exact I1|split; [exact X1|intros ? ?; discriminate]].
    + injection E as <- <-. split; [exact I1|split; [exact X1|intros ? ?; discriminate]].
  - (* LP *)
    eapply spec_pre with (pre := fun s => holds_all s [LP idp; nm]).
    + apply spec_converse_any. intros r. apply spec_unm.
    + intros s [_ H]. constructor; [apply holds_LP|constructor; [exact H|constructor]].
Qed.

Lemma spec_islice b : spec (fun s => holds s b) (islice_count S C UL BL b) (fun _ _ => True).
Proof.
  destruct b; cbn [islice_count]; try apply spec_raise; try apply spec_unm.
  - destruct v; try apply spec_raise; try (apply spec_ret; auto).
    destruct ((0 <=? z)%Z && (z <=? MAXINT)%Z); [apply spec_ret; auto|apply spec_raise].
  - eapply spec_bind; [auto with stab|apply spec_touch; [intros s H; now apply holds_LO|discriminate]|]. intros r. apply spec_unm.
  - eapply spec_pre with (pre := fun s => holds_all s [LP idp]); [|auto with stab].
    apply spec_converse_any. intros r. apply spec_unm.
Qed.

Lemma take_z_incl {A} (l : list A) : forall z, incl (take_z z l) l.
Proof.
  induction l as [|x l IH]; intros z; cbn; [apply incl_refl|].
  destruct (0 <? z)%Z; [|apply incl_nil_l]. intros y [<-|H]; [now left|right; now apply (IH (z - 1)%Z)].
Qed.
Lemma holds_all_incl s l l' : incl l' l -> holds_all s l -> holds_all s l'.
Proof. unfold holds_all. rewrite !Forall_forall. intros H K x Hx. apply K, H, Hx. Qed.

Lemma spec_do_op op a b : (op = OpPickle -> c_pickle C = true) ->
  spec (fun s => holds s a /\ holds s b) (do_op S C UL BL op a b) holds.
Proof.
  intros Hp.
  assert (Dflt : forall op', (op' = OpPickle -> c_pickle C = true) ->
            spec (fun s => holds s a /\ holds s b)
              match a with
              | LO o => touch S op' o []
              | LV v => val_op S op' v []
              | LP idp => converse S C UL BL (match op' with OpRepr => 9 | OpStr => 10 | OpHash => 12 | OpDir => 13 | _ => 16 end)%Z [LP idp]
              | LT _ | LSlice _ _ | LOpq | LAny => unm
              end holds).
  { intros op' Hp'. destruct a; try apply spec_unm.
    - apply spec_val_op. intros; constructor.
    - apply spec_touch; [intros s [H _]; now apply holds_LO|exact Hp'].
    - eapply spec_pre; [apply spec_converse|intros s [H _]; apply holds_all_one; exact H]. }
  destruct op; cbn [do_op]; try (apply Dflt; exact Hp).
  - (* OpIslice *)
    eapply spec_bind with (mid := fun _ _ => True); [auto with stab|eapply spec_pre; [apply spec_islice|tauto]|]. intros n.
    eapply spec_bind with (mid := holds_all); [auto with stab|eapply spec_pre; [apply spec_iter|tauto]|]. intros l.
    apply spec_ret. intros s [_ H]. apply holds_LT. destruct n; [|exact H]. eapply holds_all_incl; [apply take_z_incl|exact H].
  - (* OpIsinstance *)
    destruct b; try apply spec_unm; try apply spec_raise.
    destruct (index2 v) as [[x y]|x|]; try apply spec_raise; try apply spec_unm.
    destruct x as [| | | | | | | |name| | | |]; try (apply spec_ret; intros; now apply holds_noobj).
    eapply spec_bind with (mid := fun _ _ => True); [auto with stab|apply spec_in_ccache|]. intros cached.
    destruct (is_builtin_name S name || cached); [|apply spec_ret; intros; now apply holds_noobj].
    destruct a; try apply spec_unm.
    + apply spec_val_op. intros; constructor.
    + apply spec_touch; [intros s [[H _] _]; now apply holds_LO|discriminate].
  - (* OpIdPack *)
    destruct a; try (apply spec_ret; intros; now apply holds_noobj).
    eapply spec_bind with (mid := fun _ _ => True); [auto with stab| |intros _; apply spec_ret; intros; now apply holds_noobj].
    apply spec_emit; [exact Logic.I|]. intros s _ [H _]. cbn. split; [now apply holds_LO|discriminate].
  - (* OpPickle *)
    destruct a; try apply spec_unm. apply spec_touch; [intros s [H _]; now apply holds_LO|exact Hp].
Qed.

Lemma tbl_find_some_neq k t o c : tbl_find k t = Some (o, c) -> tbl_find k t <> None.
Proof. intros ->. discriminate. Qed.

Lemma spec_decref k c : spec (fun s => holds s k /\ holds s c) (decref S k c) holds.
Proof.
  destruct k; cbn [decref]; try apply spec_unm; try apply spec_raise.
  intros s s' r I [_ Hc] E. destruct I as [Hw Ht].
  destruct (tbl_find v (tbl s)) as [[o cnt]|] eqn:F.
  - destruct c.
    + assert (G : forall n, (with_tbl (add_ev s (EDecref v n)) (tbl_decref v n (tbl s)), ROk (LV PNone)) = (s', r) ->
                  Inv s' /\ ext s s' /\ (forall a, r = ROk a -> holds s' a)).
      { intros n [= <- <-]. split; [|split].
        - split; cbn; [split; [exact Hw|rewrite Ht, F; discriminate]|now rewrite Ht].
        - exact (ext_refl s).
        - intros a [= <-]. now apply holds_noobj. }
      destruct v0; try (injection E as <- <-; split; [now split|split; [apply ext_refl|intros ? ?; discriminate]]); try (apply (G _ E)).
    + injection E as <- <-. split; [now split|split; [apply ext_refl|intros ? ?; discriminate]].
    + revert E. generalize (conj Hw Ht : Inv s).
      change ((fun m => forall I : Inv s, m s = (s', r) -> Inv s' /\ ext s s' /\ (forall a, r = ROk a -> holds s' a))
                (mbind (touch S OpCmp o0 []) (fun _ => unm))).
      intros I E. eapply (spec_bind (fun s => holds s (LO o0))); [auto with stab| | |exact I|exact Hc|exact E].
      * apply spec_touch; [intros s0 H; now apply holds_LO|discriminate].
      * intros ?. apply spec_unm.
    + injection E as <- <-. split; [now split|split; [apply ext_refl|intros ? ?; discriminate]].
    + injection E as <- <-. split; [now split|split; [apply ext_refl|intros ? ?; discriminate]].
    + injection E as <- <-. split; [now split|split; [apply ext_refl|intros ? ?; discriminate]].
    + injection E as <- <-. split; [now split|split; [apply ext_refl|intros ? ?; discriminate]].
  - injection E as <- <-. split; [|split; [exact (ext_refl s)|intros ? ?; discriminate]].
    split; cbn; [split; [exact Hw|now rewrite Ht]|exact Ht].
Qed.

Lemma spec_cleanup (pre : state -> Prop) : spec pre cleanup (fun _ _ => True).
Proof.
  intros s s' r I P E. injection E as <- <-. destruct I as [Hw Ht]. split; [|split; [exact (ext_refl s)|auto]].
  split; cbn; [repeat split; auto|reflexivity].
Qed.

(* ------------------------------------------------------------------ the handler language *)
(* no pickling outside the allow_pickle guard; g = "we are under the guard" *)
Fixpoint pk (g : bool) (e : hexp) : bool :=
  match e with
  | XOp op a b => (match op with OpPickle => g | _ => true end) && pk g a && pk g b
  | XGuardCfg key _ body => if String.eqb key "allow_pickle" then pk true body else true
  | XTupCons a b | XLet a b | XSlice a b | XDecref a b | XTryExc a b => pk g a && pk g b
  | XAccess _ _ o n x => pk g o && pk g n && pk g x
  | XType a | XLookup a | XCtxArgs _ _ a => pk g a
  | XCall f p st k => pk g f && pk g p && pk g st && pk g k
  | XIfNone c t e | XIfHasConn _ c t e => pk g c && pk g t && pk g e
  | XForward c _ a => pk g c && pk g a
  | _ => true
  end.

Lemma spec_emit_hold (pre : state -> Prop) e ys : tbl_neutral e -> (forall g, g_auth (gstep g e) = ys ++ g_auth g) ->
  (forall s, Inv s -> pre s -> ev_ok (ghost_of (tr s)) e) -> spec pre (emit e) (fun s _ => incl ys (auth s)).
Proof.
  intros Hn Hg Hok s s' r I P E. injection E as <- <-. split; [|split].
  - apply inv_add; auto. rewrite gstep_neutral by exact Hn. apply I.
  - unfold ext, auth. cbn. rewrite Hg. apply incl_appr, incl_refl.
  - intros _ _. unfold auth. cbn. rewrite Hg. apply incl_appl, incl_refl.
Qed.
Lemma holds_tuple_items s b : holds s b -> holds_all s (tuple_items b).
Proof.
  destruct b; cbn [tuple_items]; try (intros; constructor).
  - destruct v; try (intros; constructor). intros _. apply Forall_forall. intros x Hx. apply in_map_iff in Hx as (p & <- & _). now apply holds_noobj.
  - intros H. now apply holds_LT.
Qed.
Lemma holds_all_app s a b : holds_all s a -> holds_all s b -> holds_all s (a ++ b).
Proof. intros. now apply Forall_app. Qed.
Lemma holds_nth s l i v : holds_all s l -> nth_error l i = Some v -> holds s v.
Proof. intros H E. apply nth_error_In in E. unfold holds_all in H. rewrite Forall_forall in H. now apply H. Qed.

Ltac sp_bind M := eapply spec_bind with (mid := M); [auto 10 with stab| |].
Ltac sp_pre L := eapply spec_pre; [apply L|].
Definition PRE (env loc : list lval) : state -> Prop := fun s => holds_all s env /\ holds_all s loc.
Lemma stable_PRE env loc : stable (PRE env loc). Proof. unfold PRE. auto with stab. Qed.
Hint Resolve stable_PRE : stab.

Lemma spec_try_exc {A} (pre : state -> Prop) all (m h : M A) (post : state -> A -> Prop) :
  stable pre -> spec pre m post -> spec pre h post -> spec pre (try_exc all m h) post.
Proof.
  intros St Hm Hh s s' r I P E. unfold try_exc in E. destruct (m s) as [s1 r1] eqn:E1.
  destruct (Hm _ _ _ I P E1) as (I1 & X1 & Q1).
  destruct r1 as [a|x|].
  - injection E as <- <-. split; [exact I1|split; [exact X1|exact Q1]].
  - destruct (all || is_exception x).
    + set (s1' := with_ctxs s1 (ctx_of x ++ ctxs s1)) in E.
      assert (I1' : Inv s1') by exact I1.
      assert (X1' : ext s s1') by exact X1.
      destruct (Hh _ _ _ I1' (St _ _ X1' P) E) as (I2 & X2 & Q2). split; [exact I2|split; [exact (ext_trans _ _ _ X1' X2)|exact Q2]].
    + injection E as <- <-. split; [exact I1|split; [exact X1|exact Q1]].
  - injection E as <- <-. split; [exact I1|split; [exact X1|exact Q1]].
Qed.
Lemma spec_eval e : pk (c_pickle C) e = true -> forall env loc, spec (PRE env loc) (eval S C UL BL env loc e) holds.
Proof.
  induction e; intros Hpk env loc; cbn [eval]; cbn [pk] in Hpk;
    repeat match goal with H : _ && _ = true |- _ => apply andb_prop in H; let a := fresh "K" in let b := fresh "K" in destruct H as [a b] end.
  - (* XParam *) destruct (nth_error env i) eqn:E; [|apply spec_unm]. apply spec_ret. intros s [H _]. eapply holds_nth; eauto.
  - (* XLocal *) destruct (nth_error loc i) eqn:E; [|apply spec_unm]. apply spec_ret. intros s [_ H]. eapply holds_nth; eauto.
  - apply spec_ret; intros; now apply holds_noobj.
  - apply spec_ret; intros; now apply holds_noobj.
  - apply spec_ret; intros; now apply holds_noobj.
  - apply spec_ret; intros; now apply holds_noobj.
  - apply spec_ret; intros; now apply holds_noobj.
  - (* XRoot *)
    sp_bind (fun s (_ : unit) => incl [s_root S] (auth s)).
    + apply spec_emit_hold; [exact Logic.I|reflexivity|]. intros; reflexivity.
    + intros _. apply spec_ret. intros s [_ H]. exact H.
  - (* XCleanup *)
    sp_bind (fun (_ : state) (_ : unit) => True); [apply spec_cleanup|]. intros _. apply spec_ret; intros; now apply holds_noobj.
  - apply spec_ret; intros; now apply holds_noobj.
  - (* XTupCons *)
    sp_bind holds; [apply IHe1; assumption|]. intros a.
    sp_bind holds; [sp_pre IHe2; [assumption|tauto]|]. intros b.
    apply spec_ret. intros s [[_ Ha] Hb]. apply holds_LT. constructor; [exact Ha|now apply holds_tuple_items].
  - (* XLet *)
    sp_bind holds; [apply IHe1; assumption|]. intros v.
    eapply spec_pre; [apply (IHe2 ltac:(assumption) env (v :: loc))|]. intros s [[He Hl] Hv]. split; [exact He|constructor; assumption].
  - (* XAccess *)
    sp_bind holds; [apply IHe1; assumption|]. intros ov.
    sp_bind holds; [sp_pre IHe2; [assumption|tauto]|]. intros nv.
    sp_bind holds; [sp_pre IHe3; [assumption|tauto]|]. intros xv.
    sp_pre spec_access. tauto.
  - (* XType *)
    sp_bind holds; [apply IHe; assumption|]. intros v. destruct v; try (apply spec_ret; intros; now apply holds_noobj).
    + sp_bind (fun s (_ : unit) => incl [s_type S o] (auth s)).
      * apply spec_emit_hold; [exact Logic.I|reflexivity|]. intros s _ [_ H]. cbn. split; [now apply holds_LO|reflexivity].
      * intros _. apply spec_ret. intros s [_ H]. exact H.
    + sp_bind (fun (_ : state) (_ : unit) => True); [apply spec_mark|]. intros _. apply spec_ret; intros; now apply holds_noobj.
  - (* XCall *)
    sp_bind holds; [apply IHe1; assumption|]. intros fv.
    sp_bind holds; [sp_pre IHe2; [assumption|tauto]|]. intros pv.
    sp_bind holds; [sp_pre IHe3; [assumption|tauto]|]. intros sv.
    sp_bind holds; [sp_pre IHe4; [assumption|tauto]|]. intros kv.
    sp_bind (fun s (sk : list lval * list (lval * lval)) => holds_all s (fst sk)).
    + destruct (tuple_items pv).
      * sp_bind (fun (_ : state) (_ : list (lval * lval)) => True); [sp_pre spec_kw; tauto|]. intros k.
        sp_bind (fun (_ : state) (_ : unit) => True).
        { destruct fv as [?| |o|l|idp|? ?|]; try (apply spec_ret; auto).
          - destruct sv as [v| | | | | |]; try (apply spec_ret; auto). destruct (iter_elems false v) eqn:Ei; try (apply spec_ret; auto).
            sp_bind holds; [|intros; apply spec_ret; auto]. apply spec_touch; [|discriminate].
            intros s H. apply holds_LO. tauto.
          - destruct l; [apply spec_ret; auto|]. destruct sv as [v| | | | | |]; try (apply spec_ret; auto).
            destruct (iter_elems false v) eqn:Ei; try (apply spec_ret; auto). apply spec_unm.
          - destruct sv as [v| | | | | |]; try (apply spec_ret; auto). destruct (iter_elems false v) eqn:Ei; try (apply spec_ret; auto).
            eapply spec_pre with (pre := fun s => holds_all s [LP idp]); [|auto with stab]. apply spec_converse_any. intros; apply spec_unm. }
        intros _. sp_bind holds_all; [sp_pre spec_iter; tauto|]. intros l0. apply spec_ret. intros s H. cbn. tauto.
      * sp_bind holds_all; [sp_pre spec_iter; tauto|]. intros l1.
        sp_bind (fun (_ : state) (_ : list (lval * lval)) => True); [sp_pre spec_kw; tauto|]. intros k. apply spec_ret. intros s H. cbn. tauto.
    + intros sk. destruct fv; try apply spec_unm; try apply spec_raise.
      * apply spec_val_op. intros s H. apply holds_all_app; [apply holds_tuple_items|]; tauto.
      * apply spec_touch; [|discriminate]. intros s H. apply holds_LO. tauto.
      * sp_pre spec_converse. intros s H. constructor; [apply holds_LP|]. apply holds_all_app; [apply holds_tuple_items|]; tauto.
  - (* XOp *)
    sp_bind holds; [apply IHe1; assumption|]. intros av.
    sp_bind holds; [sp_pre IHe2; [assumption|tauto]|]. intros bv.
    sp_pre spec_do_op; [|tauto]. intros ->. destruct (c_pickle C); [reflexivity|discriminate].
  - (* XSlice *)
    sp_bind holds; [apply IHe1; assumption|]. intros av.
    sp_bind holds; [sp_pre IHe2; [assumption|tauto]|]. intros bv.
    apply spec_ret. intros s [[_ Ha] Hb]. unfold holds. cbn. apply incl_app; assumption.
  - (* XLookup *)
    sp_bind holds; [apply IHe; assumption|]. intros kv. destruct (as_value kv); [apply spec_resolve|apply spec_unm].
  - (* XDecref *)
    sp_bind holds; [apply IHe1; assumption|]. intros kv.
    sp_bind holds; [sp_pre IHe2; [assumption|tauto]|]. intros cv.
    sp_pre spec_decref. tauto.
  - (* XGuardCfg *)
    destruct (String.eqb key "allow_pickle"); [|apply spec_unm].
    destruct (c_pickle C) eqn:Ec; [apply IHe; exact Hpk|apply spec_raise].
  - (* XTryExc *)
    apply spec_try_exc; [auto with stab|apply IHe1; assumption|apply IHe2; assumption].
  - (* XIfNone *)
    sp_bind holds; [apply IHe1; assumption|]. intros cv.
    destruct cv; try (sp_pre IHe3; [assumption|tauto]). destruct v; try (sp_pre IHe3; [assumption|tauto]). sp_pre IHe2; [assumption|tauto].
  - (* XIfHasConn *)
    sp_bind holds; [apply IHe1; assumption|]. intros cv.
    destruct cv; try (sp_pre IHe3; [assumption|tauto]); [|sp_pre IHe2; [assumption|tauto]].
    sp_bind (fun (_ : state) (_ : unit) => True).
    + destruct ty.
      * sp_bind (fun s (_ : unit) => incl [s_type S o] (auth s)).
        -- apply spec_emit_hold; [exact Logic.I|reflexivity|]. intros s _ [_ H]. cbn. split; [now apply holds_LO|reflexivity].
        -- intros _. apply spec_emit; [exact Logic.I|]. intros s _ [_ H]. cbn. split; [apply H; now left|discriminate].
      * apply spec_emit; [exact Logic.I|]. intros s _ [_ H]. cbn. split; [now apply holds_LO|discriminate].
    + intros _. sp_pre IHe3; [assumption|tauto].
  - (* XForward *)
    sp_bind holds; [apply IHe1; assumption|]. intros cv.
    sp_bind holds; [sp_pre IHe2; [assumption|tauto]|]. intros av.
    sp_pre spec_converse. intros s [_ H]. now apply holds_all_one.
  - (* XCtxArgs *)
    sp_bind holds; [apply IHe; assumption|]. intros v.
    sp_bind (fun (_ : state) (_ : bool) => True); [sp_pre spec_truthy; tauto|]. intros b.
    destruct b.
    + apply spec_try_exc; [auto 10 with stab| |apply spec_ret; intros; now apply holds_noobj].
      sp_bind (fun (_ : state) (_ : lval) => True); [|intros; apply spec_unm].
      eapply spec_pre with (pre := fun s => holds s v); [|tauto]. unfold ctx_raise. destruct load.
      * destruct v as [p| |o|l|idp|? ?|]; try apply spec_unm.
        -- sp_bind (fun (_ : state) (_ : xid) => True); [apply spec_load_exc|intros; apply spec_raise].
        -- sp_bind holds; [apply spec_touch; [intros s H; now apply holds_LO|discriminate]|]. intros r0.
           sp_bind holds; [apply spec_touch; [intros s [H _]; now apply holds_LO|discriminate]|]. intros r.
           destruct r as [?| |?|l|?|? ?|]; try apply spec_unm. destruct l as [|? [|? [|? [|? [|? ?]]]]]; try apply spec_raise; apply spec_unm.
        -- destruct l as [|? [|? [|? [|? [|? ?]]]]]; try apply spec_raise; apply spec_unm.
        -- eapply spec_pre with (pre := fun s => holds_all s [LP idp]); [|auto with stab]. apply spec_converse_any. intros; apply spec_unm.
      * destruct v; try apply spec_raise. eapply spec_weaken; [apply spec_touch; [intros s H; apply holds_LO; exact H|discriminate]|auto|auto].
    + apply spec_ret. intros s [[_ Hv] _]. apply holds_LT. constructor; [exact Hv|]. constructor; [now apply holds_noobj|]. constructor; [now apply holds_noobj|constructor].
Qed.

(* ------------------------------------------------------------------ what a raised exception carries is held *)
(* whenever a computation ends in an exception, the objects that exception carries were handed out by an operation of this
   request (they are in [auth]): only service code attaches objects to exceptions *)
Definition rspec {A} (m : M A) : Prop := forall s s' x, m s = (s', RRaise x) -> incl (carried x) (auth s').
Lemma r_ret {A} (a : A) : rspec (ret a). Proof. intros s s' x E. discriminate. Qed.
Lemma r_unm {A} : rspec (@unm W A). Proof. intros s s' x E. discriminate. Qed.
Lemma r_raise {A} x : carried x = [] -> rspec (@raise W A x).
Proof. intros H s s' y [= <- <-]. rewrite H. apply incl_nil_l. Qed.
Lemma r_raise_std {A} e : rspec (@raise_std W A e). Proof. now apply r_raise. Qed.
Lemma r_lift {A} (r : result A) : rspec (lift r).
Proof. destruct r; cbn [lift]; [apply r_ret|apply r_raise_std|apply r_unm|apply r_unm]. Qed.
Lemma r_bind {A B} (m : M A) (k : A -> M B) : rspec m -> (forall a, rspec (k a)) -> rspec (mbind m k).
Proof.
  intros Hm Hk s s' x E. unfold mbind in E. destruct (m s) as [s1 [a|y|]] eqn:Em.
  - exact (Hk a _ _ _ E).
  - injection E as <- <-. exact (Hm _ _ _ Em).
  - discriminate.
Qed.
Lemma r_noraise {A} (m : M A) : (forall s s' x, m s <> (s', RRaise x)) -> rspec m.
Proof. intros H s s' x E. now elim (H s s' x). Qed.
Lemma r_emit e : rspec (emit e). Proof. apply r_noraise. intros s s' x E. discriminate. Qed.
Lemma r_mark : rspec (@mark_approx W). Proof. apply r_noraise. intros s s' x E. discriminate. Qed.
Lemma r_pop : rspec (@pop_answer W).
Proof. apply r_noraise. intros s s' x E. unfold pop_answer in E. destruct (script s); discriminate. Qed.
Lemma r_in_ccache k : rspec (@in_ccache W k). Proof. apply r_noraise. intros s s' x E. discriminate. Qed.
Lemma r_was_seen k : rspec (@was_seen W k). Proof. apply r_noraise. intros s s' x E. discriminate. Qed.
Lemma r_note_seen k : rspec (@note_seen W k). Proof. apply r_noraise. intros s s' x E. discriminate. Qed.
Lemma r_note_class k : rspec (@note_class W k). Proof. apply r_noraise. intros s s' x E. discriminate. Qed.
Lemma r_class_walk n : rspec (class_walk S C n). Proof. apply r_noraise. intros s s' x E. discriminate. Qed.
Lemma r_cleanup : rspec (@cleanup W). Proof. apply r_noraise. intros s s' x E. discriminate. Qed.
Lemma r_lend o : rspec (lend S o). Proof. apply r_noraise. intros s s' x E. discriminate. Qed.
Lemma r_touch op o args : rspec (touch S op o args).
Proof.
  intros s s' x E. unfold touch in E. destruct (s_op S (wst s) op o args) as [w r]. injection E as <- ->.
  unfold auth. cbn. apply incl_appl, incl_refl.
Qed.
Lemma r_val_op op v args : rspec (val_op S op v args).
Proof. intros s s' x E. unfold val_op in E. injection E as <- E. unfold auth. cbn. rewrite E. cbn. apply incl_appl, incl_refl. Qed.
Lemma r_resolve k : rspec (@resolve W k).
Proof. intros s s' x E. unfold resolve in E. destruct (tbl_find k (tbl s)) as [[o c]|]; [discriminate|]. injection E as <- <-. apply incl_nil_l. Qed.
Lemma xid_of_rcls_carried c : carried (xid_of_rcls c) = [].
Proof. destruct c as [[n|m n]|m n]; try reflexivity. unfold xid_of_rcls. destruct (existsb (text_eqb n) base_only_names); [reflexivity|]. destruct (std_of_name n); reflexivity. Qed.
Lemma load_exc_carried payload s s' (r : res xid) : load_exc S C payload s = (s', r) ->
  match r with ROk x | RRaise x => carried x = [] | RUnm => True end.
Proof.
  unfold load_exc. destruct (Vinegar.vload _ _ _ payload) as [eff rr].
  destruct rr as [[| |c a sets st]| | |]; try (intros [= <- <-]; exact Logic.I || reflexivity).
  destruct (negb (iterable a) || existsb set_fails sets); [intros [= <- <-]; reflexivity|].
  destruct st; intros [= <- <-]; [apply xid_of_rcls_carried|reflexivity].
Qed.
Lemma r_load_exc payload : rspec (load_exc S C payload).
Proof. intros s s' x E. rewrite (load_exc_carried _ _ _ _ E). apply incl_nil_l. Qed.
Lemma r_raise_loaded {A} payload : rspec (@raise_loaded W S C A payload).
Proof.
  intros s s' x E. unfold raise_loaded in E. destruct (load_exc S C payload s) as [s1 r1] eqn:El.
  pose proof (load_exc_carried _ _ _ _ El) as H. destruct r1; try discriminate; injection E as <- <-; rewrite H; apply incl_nil_l.
Qed.
Lemma r_genexpr {A} (m : M A) : rspec m -> rspec (in_genexpr m).
Proof.
  intros H s s' x E. unfold in_genexpr in E. destruct (m s) as [s1 r1] eqn:Em.
  destruct r1 as [?|[[]| | | | | |]|]; try discriminate; injection E as <- <-; try (exact (H _ _ _ Em)); apply incl_nil_l.
Qed.
Lemma r_try_exc {A} all (m h : M A) : rspec m -> rspec h -> rspec (try_exc all m h).
Proof.
  intros Hm Hh s s' x E. unfold try_exc in E. destruct (m s) as [s1 r1] eqn:Em.
  destruct r1 as [a|y|]; try discriminate. destruct (all || is_exception y); [exact (Hh _ _ _ E)|]. injection E as <- <-. exact (Hm _ _ _ Em).
Qed.

Ltac rr1 :=
  lazymatch goal with
  | |- rspec (ret _) => apply r_ret
  | |- rspec (raise_std _) => apply r_raise_std
  | |- rspec (raise _) => apply r_raise; reflexivity
  | |- rspec unm => apply r_unm
  | |- rspec (lift _) => apply r_lift
  | |- rspec (emit _) => apply r_emit
  | |- rspec mark_approx => apply r_mark
  | |- rspec pop_answer => apply r_pop
  | |- rspec (in_ccache _) => apply r_in_ccache
  | |- rspec (was_seen _) => apply r_was_seen
  | |- rspec (note_seen _) => apply r_note_seen
  | |- rspec (note_class _) => apply r_note_class
  | |- rspec (class_walk _ _ _) => apply r_class_walk
  | |- rspec (touch _ _ _ _) => apply r_touch
  | |- rspec (val_op _ _ _ _) => apply r_val_op
  | |- rspec (resolve _) => apply r_resolve
  | |- rspec (lend _ _) => apply r_lend
  | |- rspec cleanup => apply r_cleanup
  | |- rspec (load_exc _ _ _) => apply r_load_exc
  | |- rspec (raise_loaded _ _ _) => apply r_raise_loaded
  | |- rspec (mbind _ _) => apply r_bind; [|intros ?]
  | |- rspec (try_exc _ _ _) => apply r_try_exc
  | |- rspec (match ?x with _ => _ end) => destruct x
  | |- rspec (if ?x then _ else _) => destruct x
  end.
Lemma r_box f : forall v, rspec (box S BL f v).
Proof.
  induction f as [|f IH]; intros v; cbn [box]; [apply r_unm|].
  destruct (as_value v); [apply r_ret|]. destruct v; try apply r_unm; try (repeat rr1; fail).
  apply r_bind; [|intros; apply r_ret]. induction l as [|x l IHl]; [apply r_ret|]. apply r_bind; [apply IH|intros]. apply r_bind; [exact IHl|intros; apply r_ret].
Qed.
Lemma r_unbox f : forall pkg, rspec (unbox S C UL f pkg).
Proof.
  induction f as [|f IH]; intros pkg; cbn [unbox]; [apply r_unm|].
  apply r_bind; [apply r_lift|intros lv]. destruct lv as [|label [|value [|? ?]]]; try apply r_raise_std.
  destruct (match num_of label with Some z => assoc_z z UL | None => None end) as [[| | |]|]; [apply r_ret| |apply r_resolve| |apply r_raise_std].
  - apply r_bind; [apply r_lift|intros items].
    assert (G : rspec (mbind ((fix go (l : list pyval) : M (list lval) :=
                             match l with
                             | [] => ret []
                             | x :: r => mbind (in_genexpr (unbox S C UL f x)) (fun v => mbind (go r) (fun vs => ret (v :: vs)))
                             end) items) (fun l => ret (LT l)))).
    { apply r_bind; [|intros; apply r_ret]. induction items as [|x items IHi]; [apply r_ret|].
      apply r_bind; [apply r_genexpr, IH|intros]. apply r_bind; [exact IHi|intros; apply r_ret]. }
    destruct value; try exact G. destruct items as [|? [|? ?]]; try exact G. apply r_unm.
  - destruct (index3 value) as [[[a b] c]|x|] eqn:Ei; [| |apply r_unm].
    + destruct (py_str a); [|apply r_unm]. apply r_bind; [apply r_in_ccache|intros cached].
      destruct (is_zero c && cached); [apply r_ret|]. destruct (is_builtin_name S t); [apply r_ret|]. destruct (negb (sane_name t)); [apply r_unm|].
      apply r_bind; [apply r_was_seen|intros seen]. apply r_bind; [destruct seen; [apply r_mark|apply r_ret]|intros].
      apply r_bind; [apply r_note_seen|intros]. apply r_bind; [apply r_emit|intros]. apply r_bind; [apply r_pop|intros ans]. destruct ans.
      * apply r_bind; [apply IH|intros m]. destruct (methods_ok m) as [|y|] eqn:Em; [repeat rr1| |apply r_unm].
        apply r_raise. unfold methods_ok in Em. destruct m; try discriminate. destruct (iter_elems false v) as [l| | |]; try discriminate; [destruct (forallb _ l); discriminate|now injection Em as <-].
      * apply r_raise_loaded.
      * apply r_raise_std.
    + apply r_raise. unfold index3 in Ei. destruct value; try (now injection Ei as <-); try discriminate;
        repeat match goal with H : match ?l with _ => _ end = _ |- _ => destruct l; try (now injection H as <-); try discriminate end.
Qed.
Lemma r_ask h args : rspec (ask S C UL BL h args).
Proof. unfold ask. apply r_bind; [apply r_box|intros]. apply r_bind; [apply r_emit|intros]. apply r_bind; [apply r_pop|intros ans]. destruct ans; [apply r_unbox|apply r_raise_loaded|apply r_raise_std]. Qed.
Lemma r_converse h args : rspec (converse S C UL BL h args).
Proof. unfold converse. apply r_bind; [apply r_mark|intros; apply r_ask]. Qed.
Ltac rr2 := first [ lazymatch goal with
  | |- rspec (converse _ _ _ _ _ _) => apply r_converse
  | |- rspec (ask _ _ _ _ _ _) => apply r_ask
  | |- rspec (unbox _ _ _ _ _) => apply r_unbox
  | |- rspec (box _ _ _ _) => apply r_box end | rr1].
Lemma r_iter v : rspec (iter_lval S C UL BL v). Proof. destruct v; cbn [iter_lval]; repeat rr2. Qed.
Lemma r_kw v : rspec (kw_lval S C UL BL v). Proof. destruct v; cbn [kw_lval]; repeat rr2. Qed.
Lemma r_truthy v : rspec (truthy S C UL BL v). Proof. destruct v; cbn [truthy]; repeat rr2. Qed.
Lemma r_islice b : rspec (islice_count S C UL BL b). Proof. destruct b; cbn [islice_count]; repeat rr2. Qed.
Lemma r_access p g tgt nm extra : rspec (access S C UL BL p g tgt nm extra).
Proof.
  destruct tgt; cbn [access]; try (repeat rr2; fail).
  intros s s' x E.
  set (s1 := fold_left _ _ s) in E.
  destruct (decide (c_guard C) (c_attr C) p (pyname_of nm) (s_view S (wst s) o)) as [[n|final]|e| |]; try discriminate.
  - destruct (s_hook S (wst s1) o p n extra) as [w r]. injection E as <- ->. unfold auth. cbn. apply incl_appl, incl_refl.
  - destruct (guard_ok g final); [|injection E as <- <-; apply incl_nil_l].
    destruct (s_attr S (wst s1) o p final extra) as [w r]. injection E as <- ->. unfold auth. cbn. apply incl_appl, incl_refl.
  - injection E as <- <-. apply incl_nil_l.
Qed.
Ltac rr3 := first [ lazymatch goal with
  | |- rspec (iter_lval _ _ _ _ _) => apply r_iter
  | |- rspec (kw_lval _ _ _ _ _) => apply r_kw
  | |- rspec (truthy _ _ _ _ _) => apply r_truthy
  | |- rspec (access _ _ _ _ _ _ _ _ _) => apply r_access
  | |- rspec (islice_count _ _ _ _ _) => apply r_islice end | rr2].
Lemma index2_carried v x : index2 v = RRaise x -> carried x = [].
Proof.
  unfold index2. destruct v; try (now intros [= <-]); try discriminate;
    repeat match goal with |- match ?l with _ => _ end = _ -> _ => destruct l; try (now intros [= <-]); try discriminate end.
Qed.
Lemma r_do_op op a b : rspec (do_op S C UL BL op a b).
Proof.
  destruct op; cbn [do_op]; try (repeat rr3; fail).
  destruct b; try (repeat rr3; fail). destruct (index2 v) as [[x y]|x|] eqn:Ei; [|apply r_raise; now apply (index2_carried v)|apply r_unm].
  repeat rr3.
Qed.
Lemma r_decref k c : rspec (decref S k c).
Proof.
  destruct k; cbn [decref]; try (repeat rr3; fail).
  intros s s' x E. destruct (tbl_find v (tbl s)) as [[o cnt]|].
  - destruct c; try discriminate; try (injection E as <- <-; apply incl_nil_l).
    + destruct v0; try discriminate; injection E as <- <-; apply incl_nil_l.
    + revert E. apply (r_bind (touch S OpCmp o0 []) (fun _ => unm)); [apply r_touch|intros; apply r_unm].
  - injection E as <- <-. apply incl_nil_l.
Qed.
Ltac rr4 := first [ lazymatch goal with
  | |- rspec (do_op _ _ _ _ _ _ _) => apply r_do_op
  | |- rspec (decref _ _ _) => apply r_decref end | rr3].
Lemma r_eval e : forall env loc, rspec (eval S C UL BL env loc e).
Proof.
  induction e; intros env loc; cbn [eval]; unfold ctx_raise;
    repeat first [ lazymatch goal with |- rspec (eval _ _ _ _ _ _ ?x) => first [apply IHe | apply IHe1 | apply IHe2 | apply IHe3 | apply IHe4] end | rr4 ].
Qed.
Lemma r_eval_list l : rspec (eval_list S C UL BL l).
Proof. induction l; cbn [eval_list]; [apply r_ret|]. apply r_bind; [apply r_eval|intros]. apply r_bind; [exact IHl|intros; apply r_ret]. Qed.
Lemma r_call_handler hv args : rspec (call_handler S C HT DT UL BL hv args).
Proof.
  unfold call_handler.
  assert (G : rspec match find_handler HT DT hv with
                | None => raise_std KeyError
                | Some d =>
                    mbind (iter_lval S C UL BL args) (fun l =>
                      let n := List.length l in
                      if (n <? h_min d)%nat || (h_min d + List.length (h_defaults d) <? n)%nat then raise_std TypeError
                      else mbind (eval_list S C UL BL (skipn (n - h_min d) (h_defaults d))) (fun ds => eval S C UL BL (l ++ ds) [] (h_body d)))
                end).
  { destruct (find_handler HT DT hv); [|apply r_raise_std]. apply r_bind; [apply r_iter|intros l]. cbn zeta.
    destruct (_ || _); [apply r_raise_std|]. apply r_bind; [apply r_eval_list|intros; apply r_eval]. }
  destruct hv; try exact G; apply r_unm.
Qed.

(* ------------------------------------------------------------------ requests and messages *)
Definition table_pk : Prop :=
  forall n d, In (n, d) HT -> pk (c_pickle C) (h_body d) = true /\ Forall (fun e => pk (c_pickle C) e = true) (h_defaults d).
Hypothesis HTpk : table_pk.

Lemma assoc_s_In {A} k (l : list (string * A)) v : assoc_s k l = Some v -> In (k, v) l.
Proof.
  induction l as [|[k' v'] l IH]; cbn; [discriminate|]. destruct (String.eqb_spec k k') as [->|N].
  - intros [= ->]. now left.
  - intros H. right. now apply IH.
Qed.
Lemma find_handler_In hv d : find_handler HT DT hv = Some d -> exists n, In (n, d) HT.
Proof.
  unfold find_handler. destruct (num_of hv); [|discriminate]. destruct (assoc_z z DT) as [nm|]; [|discriminate].
  intros H. exists nm. now apply assoc_s_In.
Qed.
Lemma spec_eval_list l : Forall (fun e => pk (c_pickle C) e = true) l ->
  spec (fun _ => True) (eval_list S C UL BL l) holds_all.
Proof.
  induction l as [|e l IH]; intros H; cbn [eval_list]; [apply spec_ret; constructor|].
  inversion H as [|? ? He Hl]; subst.
  sp_bind holds.
  - eapply spec_pre; [apply (spec_eval e He [] [])|]. intros; split; constructor.
  - intros v. sp_bind holds_all; [eapply spec_pre; [apply IH; exact Hl|intros; exact Logic.I]|].
    intros vs. apply spec_ret. intros s [[_ Hv] Hvs]. constructor; assumption.
Qed.
Lemma Forall_skipn {A} (P : A -> Prop) n (l : list A) : Forall P l -> Forall P (skipn n l).
Proof. revert l. induction n; intros l H; cbn; [exact H|]. destruct l; [constructor|]. inversion H; auto. Qed.

Lemma spec_call_handler hv args : spec (fun s => holds s args) (call_handler S C HT DT UL BL hv args) holds.
Proof.
  unfold call_handler.
  assert (G : spec (fun s => holds s args)
                match find_handler HT DT hv with
                | None => raise_std KeyError
                | Some d =>
                    mbind (iter_lval S C UL BL args) (fun l =>
                      let n := List.length l in
                      if (n <? h_min d)%nat || (h_min d + List.length (h_defaults d) <? n)%nat then raise_std TypeError
                      else mbind (eval_list S C UL BL (skipn (n - h_min d) (h_defaults d))) (fun ds => eval S C UL BL (l ++ ds) [] (h_body d)))
                end holds).
  { destruct (find_handler HT DT hv) as [d|] eqn:F; [|apply spec_raise].
    destruct (find_handler_In _ _ F) as (n & Hn). destruct (HTpk _ _ Hn) as [Hb Hd].
    sp_bind holds_all; [apply spec_iter|]. intros l. cbn zeta.
    destruct ((List.length l <? h_min d)%nat || (h_min d + List.length (h_defaults d) <? List.length l)%nat); [apply spec_raise|].
    sp_bind holds_all; [eapply spec_pre; [apply spec_eval_list; now apply Forall_skipn|intros; exact Logic.I]|].
    intros ds. eapply spec_pre; [apply (spec_eval _ Hb)|]. intros s [[_ Hl] Hds]. split; [now apply holds_all_app|constructor]. }
  destruct hv; try exact G; apply spec_unm.
Qed.

Lemma inv_end_conn s : Inv s -> Inv (end_conn s).
Proof.
  intros I. unfold end_conn. destruct (closed s); [exact I|].
  destruct (cleanup s) as [s1 r1] eqn:E. cbn. exact (proj1 (spec_cleanup (fun _ => True) _ _ _ I Logic.I E)).
Qed.

Lemma payload_event_shape x e : In e (tb_events x ++ dump_events S x) -> exists o op, e = EPayload o op /\ In o (carried x).
Proof.
  intros He. apply in_app_or in He as [He|He]; destruct x; cbn in He; try contradiction.
  - apply in_map_iff in He as (o & <- & Ho). eauto.
  - destruct He as [<-|[]]. eexists _, _. split; [reflexivity|now left].
  - apply in_map_iff in He as (o & <- & Ho). eauto.
  - destruct (s_callable S o); [contradiction|]. destruct He as [<-|[]]. eexists _, _. split; [reflexivity|now left].
Qed.
Lemma inv_payload x (cs : list (oid * nop)) : forall s, Inv s -> incl (carried x) (auth s) ->
  Inv (fold_left add_ev (tb_events x ++ map (fun c => ECtx (fst c) (snd c)) cs ++ dump_events S x) s).
Proof.
  assert (K : forall l s, Inv s -> (forall e, In e l -> (exists o op, e = ECtx o op) \/ exists o op, e = EPayload o op /\ In o (auth s)) -> Inv (fold_left add_ev l s)).
  { induction l as [|e l IHl]; intros s I H; cbn; [exact I|].
    assert (I1 : Inv (add_ev s e)).
    { destruct (H e (or_introl eq_refl)) as [(o & op & ->)|(o & op & -> & Ho)]; (apply inv_add; [exact I| |cbn; apply I]); [exact Logic.I|exact Ho]. }
    apply IHl; [exact I1|]. intros e' He'. destruct (H e' (or_intror He')) as [Hc|(o' & op' & -> & Ho')]; [now left|right].
    exists o', op'. split; [reflexivity|]. apply (auth_add s e); [|exact Ho'].
    destruct (H e (or_introl eq_refl)) as [(o & op & ->)|(o & op & -> & _)]; discriminate. }
  intros s I H. apply K; [exact I|]. intros e He.
  apply in_app_or in He as [He|He]; [|apply in_app_or in He as [He|He]].
  - right. destruct (payload_event_shape x e (in_or_app _ _ _ (or_introl He))) as (o & op & -> & Ho). eauto.
  - left. apply in_map_iff in He as (c & <- & _). eauto.
  - right. destruct (payload_event_shape x e (in_or_app _ _ _ (or_intror He))) as (o & op & -> & Ho). eauto.
Qed.
Lemma inv_dispatch_request seq raw s s' o : Inv s -> dispatch_request S C HT DT UL BL seq raw s = (s', o) -> Inv s'.
Proof.
  intros I E. unfold dispatch_request in E.
  match type of E with context [?m s] => match m with mbind _ _ => set (mm := m) in * end end.
  assert (Hm : spec (fun _ => True) mm holds).
  { subst mm. sp_bind (fun (_ : state) (_ : list pyval) => True); [apply spec_lift; auto|]. intros ha.
    destruct ha as [|h [|pkg [|? ?]]]; try apply spec_raise.
    sp_bind holds; [eapply spec_pre; [apply spec_unbox|intros; exact Logic.I]|]. intros args.
    eapply spec_pre; [apply spec_call_handler|tauto]. }
  assert (Hr : rspec mm).
  { subst mm. apply r_bind; [apply r_lift|intros ha]. destruct ha as [|h [|pkg [|? ?]]]; try apply r_raise_std.
    apply r_bind; [apply r_unbox|intros; apply r_call_handler]. }
  destruct (mm s) as [s1 r1] eqn:Em. destruct (Hm _ _ _ I Logic.I Em) as (I1 & X1 & Q1).
  destruct r1 as [v|x|].
  - destruct (closed s1); [now injection E as <- <-|].
    destruct (box S BL FUEL v s1) as [s2 r2] eqn:Eb.
    destruct (spec_box FUEL v _ _ _ I1 (Q1 v eq_refl) Eb) as (I2 & _ & _).
    destruct r2; now injection E as <- <-.
  - destruct (closed s1); [now injection E as <- <-|].
    destruct (propagates C x); injection E as <- <-; [now apply inv_end_conn|].
    apply inv_payload; [exact I1|exact (Hr _ _ _ Em)].
  - now injection E as <- <-.
Qed.

Lemma inv_handle_msg_core msg answers s s' o : Inv s -> handle_msg_core S C HT DT ML UL BL msg answers s = (s', o) -> Inv s'.
Proof.
  intros I E. unfold handle_msg_core in E. destruct (closed s); [now injection E as <- <-|].
  set (s0 := with_ctxs (with_script (add_ev s EMsg) answers) []) in *.
  assert (I0 : Inv s0). { destruct I as [Hw Ht]. split; cbn; [split; [exact Hw|exact Logic.I]|exact Ht]. }
  destruct (Vinegar.unpack 3 msg) as [l| | |].
  - destruct l as [|kind [|seq [|args [|? ?]]]]; try (injection E as <- <-; now apply inv_end_conn).
    destruct (match num_of kind with Some z => assoc_z z ML | None => None end) as [[| | | |]|].
    + eapply inv_dispatch_request; eauto.
    + destruct (unbox S C UL FUEL args s0) as [s1 r1] eqn:Eu.
      destruct (spec_unbox FUEL args _ _ _ I0 Logic.I Eu) as (I1 & _ & _).
      destruct r1; injection E as <- <-; auto using inv_end_conn.
    + destruct (load_exc S C args s0) as [s1 r1] eqn:Eu.
      destruct (spec_load_exc (fun _ => True) args _ _ _ I0 Logic.I Eu) as (I1 & _ & _).
      destruct r1; injection E as <- <-; auto using inv_end_conn.
    + destruct (unbox S C UL FUEL args s0) as [s1 r1] eqn:Eu. unfold response_out in E.
      destruct (spec_unbox FUEL args _ _ _ I0 Logic.I Eu) as (I1 & _ & _).
      destruct r1 as [?|x|]; try destruct (escapes_response x); injection E as <- <-; auto using inv_end_conn.
    + destruct (load_exc S C args s0) as [s1 r1] eqn:Eu. unfold response_out in E.
      destruct (spec_load_exc (fun _ => True) args _ _ _ I0 Logic.I Eu) as (I1 & _ & _).
      destruct r1 as [?|x|]; try destruct (escapes_response x); injection E as <- <-; auto using inv_end_conn.
    + injection E as <- <-. now apply inv_end_conn.
  - injection E as <- <-. now apply inv_end_conn.
  - now injection E as <- <-.
  - now injection E as <- <-.
Qed.

Theorem inv_handle_msg msg answers s s' o : Inv s -> handle_msg S C HT DT ML UL BL msg answers s = (s', o) -> Inv s'.
Proof.
  intros I E. unfold handle_msg in E. destruct (lost s); [now injection E as <- <-|].
  destruct (handle_msg_core S C HT DT ML UL BL msg answers s) as [s1 o1] eqn:Ec.
  pose proof (inv_handle_msg_core _ _ _ _ _ I Ec) as I1. destruct o1; injection E as <- <-; exact I1.
Qed.
Lemma inv_step s i : Inv s -> Inv (fst (step S C HT DT ML UL BL s i)).
Proof.
  intros I. destruct i as [m a|f]; cbn [step].
  - destruct (handle_msg S C HT DT ML UL BL m a s) as [s' o] eqn:E. cbn. eapply inv_handle_msg; eauto.
  - cbn. destruct I as [Hw Ht]. split; cbn; [split; [exact Hw|exact Logic.I]|exact Ht].
Qed.
Theorem inv_run l : forall s, Inv s -> Inv (run S C HT DT ML UL BL s l).
Proof. induction l as [|i l IH]; intros s I; cbn; [exact I|]. apply IH. now apply inv_step. Qed.
Lemma inv_init w : Inv (init w).
Proof. split; cbn; [exact Logic.I|reflexivity]. Qed.
Theorem wf_run w l : wf (tr (run S C HT DT ML UL BL (init w) l)).
Proof. exact (proj1 (inv_run l _ (inv_init w))). Qed.
End Inv.

(* ================================================================== what the invariant says, event by event *)
Section Corollaries.
Context {W : Type}.
Variable S : sem W.
Variable C : config.

Lemma wf_app t1 : forall t2, wf S C (t1 ++ t2) -> wf S C t2.
Proof. induction t1 as [|e t1 IH]; intros t2 H; [exact H|]. apply IH. exact (proj1 H). Qed.
(* every event of a well-formed trace was legitimate when it happened (t2 = everything before it) *)
Lemma wf_event t1 e t2 : wf S C (t1 ++ e :: t2) -> ev_ok S C (ghost_of t2) e.
Proof. intros H. apply wf_app in H. exact (proj2 H). Qed.

(* the ghost table holds only objects that were lent (EBox) earlier in the trace *)
Definition tbl_objs (t : table) : list oid := map (fun e => snd (fst e)) t.
Lemma tbl_find_objs k t o c : tbl_find k t = Some (o, c) -> In o (tbl_objs t).
Proof.
  induction t as [|[[k' o'] c'] t IH]; cbn; [discriminate|]. destruct (pv_eqb k k').
  - intros [= <- <-]. now left.
  - intros H. right. now apply IH.
Qed.
Lemma tbl_add_objs k o t : incl (tbl_objs (tbl_add k o t)) (o :: tbl_objs t).
Proof.
  induction t as [|[[k' o'] c'] t IH]; cbn; [apply incl_refl|]. destruct (pv_eqb k k'); cbn.
  - apply incl_tl, incl_refl.
  - intros x [<-|H]; [right; now left|]. destruct (IH x H) as [<-|H']; [now left|right; now right].
Qed.
Lemma tbl_decref_objs k n t : incl (tbl_objs (tbl_decref k n t)) (tbl_objs t).
Proof.
  induction t as [|[[k' o'] c'] t IH]; cbn; [apply incl_refl|]. destruct (pv_eqb k k'); cbn.
  - destruct (c' <? n)%Z; cbn; [apply incl_tl, incl_refl|apply incl_refl].
  - intros x [<-|H]; [now left|right; now apply IH].
Qed.
Lemma ghost_tbl_lent t : forall o, In o (tbl_objs (g_tbl (ghost_of t))) -> exists k, In (EBox k o) t.
Proof.
  induction t as [|e t IH]; intros o H; [contradiction|].
  assert (K : In o (tbl_objs (g_tbl (ghost_of t))) -> exists k, In (EBox k o) (e :: t)).
  { intros H'. destruct (IH o H') as (k & Hk). exists k. now right. }
  destruct e; cbn in H; auto.
  - apply tbl_add_objs in H as [<-|H]; [exists k; now left|auto].
  - apply tbl_decref_objs in H. auto.
  - contradiction.
Qed.
(* what the current request holds came from the root, the table, type() or the result of an operation, after the last EMsg *)
Definition gives (e : event) (o : oid) : Prop :=
  match e with
  | ERoot o' | EResolve _ o' | EType _ o' => o = o'
  | EAttr _ _ _ ys | EHook _ _ _ ys | ETouch _ _ ys | EForeign ys => In o ys
  | _ => False
  end.
Lemma auth_origin t : forall o, In o (g_auth (ghost_of t)) -> exists e, In e t /\ gives e o.
Proof.
  induction t as [|e t IH]; intros o H; [contradiction|].
  assert (K : In o (g_auth (ghost_of t)) -> exists e', In e' (e :: t) /\ gives e' o).
  { intros H'. destruct (IH o H') as (e' & He & Hg). exists e'. split; [now right|exact Hg]. }
  destruct e; cbn in H; auto; try contradiction;
    try (destruct H as [<-|H]; [eexists; split; [now left|reflexivity]|auto]);
    try (apply in_app_or in H as [H|H]; [eexists; split; [now left|exact H]|auto]).
Qed.

(* under the default attribute policy a decision "use the builtin on <final>" means: a read, of an exposed_ or safe name *)
Lemma decide_default_hook g c p pn vw final : decide g c p pn vw = Ok (ViaDefault final) -> hook_for vw p = false.
Proof.
  unfold decide, access_attr. destruct (nkind_of pn); try discriminate; destruct (hook_for vw p); try reflexivity; cbn; discriminate.
Qed.
Lemma starts_with_app p n : starts_with p (p ++ n) = true.
Proof. induction p as [|x p IH]; cbn; [reflexivity|]. now rewrite N.eqb_refl, IH. Qed.
Lemma default_decision p pn vw final :
  decide true (c_attr default_config) p pn vw = Ok (ViaDefault final) ->
  p = PGet /\ (starts_with (txt "exposed_") final = true \/ In final (map txt default_safe)).
Proof.
  intros D. pose proof (decide_default_hook _ _ _ _ _ _ D) as Hh.
  rewrite decide_is_spec in D by (now left). apply (spec_sound _ _ _ _ _ Hh) in D as (_ & Hp & Hn). split.
  - destruct p; [reflexivity|discriminate Hp|discriminate Hp].
  - destruct Hn as [[-> Ha]|[-> _]].
    + destruct Ha as [Ha|[[_ Ha]|[[_ Ha]|[Ha _]]]]; [discriminate Ha|now left|now right|discriminate Ha].
    + left. apply starts_with_app.
Qed.
End Corollaries.

(* ================================================================== the service state changes only with a touching event *)
Section Quiet.
Context {W : Type}.
Variable S : sem W.
Variable C : config.
Variable HT : list (string * hdef).
Variable DT : list (Z * string).
Variable ML : list (Z * dact).
Variable UL : list (Z * uact).
Variable BL : list (string * Z).
Notation state := (hst W).
Notation M := (@Hostile.M W).

Definition touching (e : event) : bool :=
  match e with
  | ETouch _ _ _ | EAttr _ _ _ _ | EHook _ _ _ _ | EEnv => true
  | EProbe _ _ | EDisconnect | EPayload _ _ | ECtx _ _ | EGlobalRead _ => true       (* hasattr probes, on_disconnect, repr()/dir() of exception payloads run service code too *)
  | _ => false
  end.
Definition nt (t : list event) : nat := List.length (filter touching t).
Definition qrel (s s' : state) : Prop := (nt (tr s) <= nt (tr s'))%nat /\ (nt (tr s') = nt (tr s) -> wst s' = wst s).
Definition qspec {A} (m : M A) : Prop := forall s s' r, m s = (s', r) -> qrel s s'.

Lemma qrel_refl s : qrel s s. Proof. split; auto. Qed.
Lemma qrel_trans a b c : qrel a b -> qrel b c -> qrel a c.
Proof. intros [L1 E1] [L2 E2]. split; [lia|]. intros H. rewrite E2 by lia. apply E1. lia. Qed.
Lemma qrel_same (s s' : state) : tr s' = tr s -> wst s' = wst s -> qrel s s'.
Proof. intros Ht Hw. unfold qrel. rewrite Ht. auto. Qed.
Lemma qrel_add s e : qrel s (add_ev s e).
Proof. unfold qrel, nt. cbn. destruct (touching e); cbn; split; auto; lia. Qed.
Lemma qrel_touch s e w : touching e = true -> qrel s (with_w (add_ev s e) w).
Proof. intros H. unfold qrel, nt. cbn. rewrite H. cbn. split; lia. Qed.

Lemma q_ret {A} (a : A) : qspec (ret a). Proof. intros s s' r [= <- <-]. apply qrel_refl. Qed.
Lemma q_raise {A} x : qspec (@raise W A x). Proof. intros s s' r [= <- <-]. apply qrel_refl. Qed.
Lemma q_unm {A} : qspec (@unm W A). Proof. intros s s' r [= <- <-]. apply qrel_refl. Qed.
Lemma q_lift {A} (r : result A) : qspec (lift r).
Proof. destruct r; cbn [lift]; [apply q_ret|apply q_raise|apply q_unm|apply q_unm]. Qed.
Lemma q_bind {A B} (m : M A) (k : A -> M B) : qspec m -> (forall a, qspec (k a)) -> qspec (mbind m k).
Proof.
  intros Hm Hk s s' r E. unfold mbind in E. destruct (m s) as [s1 [a|x|]] eqn:Em.
  - eapply qrel_trans; [exact (Hm _ _ _ Em)|exact (Hk a _ _ _ E)].
  - injection E as <- <-. exact (Hm _ _ _ Em).
  - injection E as <- <-. exact (Hm _ _ _ Em).
Qed.
Lemma q_emit e : qspec (emit e). Proof. intros s s' r [= <- <-]. apply qrel_add. Qed.
Lemma q_mark : qspec (@mark_approx W). Proof. intros s s' r [= <- <-]. now apply qrel_same. Qed.
Lemma q_pop : qspec (@pop_answer W).
Proof. intros s s' r E. unfold pop_answer in E. destruct (script s); injection E as <- <-; now apply qrel_same. Qed.
Lemma q_touch op o args : qspec (touch S op o args).
Proof. intros s s' r E. unfold touch in E. destruct (s_op S (wst s) op o args). injection E as <- <-. now apply qrel_touch. Qed.
Lemma q_val_op op v args : qspec (val_op S op v args).
Proof. intros s s' r E. unfold val_op in E. injection E as <- <-. apply qrel_add. Qed.
Lemma q_resolve k : qspec (@resolve W k).
Proof. intros s s' r E. unfold resolve in E. destruct (tbl_find k (tbl s)) as [[o c]|]; injection E as <- <-; apply qrel_add. Qed.
Lemma q_lend o : qspec (lend S o).
Proof. intros s s' r E. unfold lend in E. injection E as <- <-. apply (qrel_add s (EBox (s_key S o) o)). Qed.
Lemma q_cleanup : qspec (@cleanup W).
Proof. intros s s' r [= <- <-]. eapply qrel_trans; [apply (qrel_add s EDisconnect)|apply (qrel_add (add_ev s EDisconnect) EClear)]. Qed.
Lemma q_fold {X} (f : X -> event) (Hf : forall x, touching (f x) = false) l : forall s : state,
  let s1 := fold_left (fun s e => add_ev s (f e)) l s in nt (tr s1) = nt (tr s) /\ wst s1 = wst s.
Proof.
  induction l as [|x l IH]; intros s; cbn; [auto|]. destruct (IH (add_ev s (f x))) as [A B]. cbn zeta in A, B.
  rewrite A, B. unfold nt. cbn. now rewrite Hf.
Qed.
Lemma q_fold_any {X} (f : X -> event) l : forall s : state, qrel s (fold_left (fun s e => add_ev s (f e)) l s).
Proof.
  induction l as [|x l IH]; intros s; cbn; [apply qrel_refl|]. eapply qrel_trans; [apply (qrel_add s (f x))|apply IH].
Qed.
Lemma q_load_exc payload : qspec (load_exc S C payload).
Proof.
  intros s s' r E. unfold load_exc in E. destruct (Vinegar.vload Vinegar.LkGetattr (c_rflags C) (s_env S) payload) as [eff rr].
  destruct (q_fold EVin (fun _ => eq_refl) eff s) as [A B]. cbn zeta in A, B.
  assert (R : s' = fold_left (fun s e => add_ev s (EVin e)) eff s)
    by (destruct rr as [[| |c a sets st]| | |]; try (destruct (negb (iterable a) || existsb set_fails sets)); try destruct st; now injection E).
  subst s'. split; [lia|auto].
Qed.

Lemma q_in_ccache k : qspec (@in_ccache W k). Proof. intros s s' r [= <- <-]. apply qrel_refl. Qed.
Lemma q_was_seen k : qspec (@was_seen W k). Proof. intros s s' r [= <- <-]. apply qrel_refl. Qed.
Lemma q_note_seen k : qspec (@note_seen W k). Proof. intros s s' r [= <- <-]. now apply qrel_same. Qed.
Lemma q_note_class k : qspec (@note_class W k). Proof. intros s s' r [= <- <-]. now apply qrel_same. Qed.
Lemma q_class_walk n : qspec (class_walk S C n).
Proof.
  intros s s' r E. unfold class_walk, emit_all in E. injection E as <- <-.
  exact (q_fold_any (fun e => e) (map ECls (class_imports S C n) ++ class_global S C n) s).
Qed.
Lemma q_raise_loaded {A} payload : qspec (@raise_loaded W S C A payload).
Proof.
  intros s s' r E. unfold raise_loaded in E. destruct (load_exc S C payload s) as [s1 r1] eqn:El.
  pose proof (q_load_exc _ _ _ _ El) as Q. destruct r1; now injection E as <- <-.
Qed.
Ltac q1 :=
  lazymatch goal with
  | |- qspec (in_ccache _) => apply q_in_ccache
  | |- qspec (was_seen _) => apply q_was_seen
  | |- qspec (note_seen _) => apply q_note_seen
  | |- qspec (note_class _) => apply q_note_class
  | |- qspec (class_walk _ _ _) => apply q_class_walk
  | |- qspec (raise_loaded _ _ _) => apply q_raise_loaded
  | |- qspec (ret _) => apply q_ret
  | |- qspec (raise _) => apply q_raise
  | |- qspec (raise_std _) => apply q_raise
  | |- qspec unm => apply q_unm
  | |- qspec (lift _) => apply q_lift
  | |- qspec (emit _) => apply q_emit
  | |- qspec mark_approx => apply q_mark
  | |- qspec pop_answer => apply q_pop
  | |- qspec (touch _ _ _ _) => apply q_touch
  | |- qspec (val_op _ _ _ _) => apply q_val_op
  | |- qspec (resolve _) => apply q_resolve
  | |- qspec (lend _ _) => apply q_lend
  | |- qspec cleanup => apply q_cleanup
  | |- qspec (load_exc _ _ _) => apply q_load_exc
  | |- qspec (mbind _ _) => apply q_bind; [|intros ?]
  end.
Ltac qd :=
  lazymatch goal with
  | |- qspec (match ?x with _ => _ end) => destruct x
  | |- qspec (if ?x then _ else _) => destruct x
  end.
Ltac qauto := repeat first [q1 | qd].

Lemma q_box f : forall v, qspec (box S BL f v).
Proof.
  induction f as [|f IH]; intros v; cbn [box]; [apply q_unm|].
  destruct (as_value v); [apply q_ret|]. destruct v; try apply q_unm; try (qauto; fail).
  apply q_bind; [|intros; apply q_ret]. induction l as [|x l IHl]; [apply q_ret|]. apply q_bind; [apply IH|intros]. apply q_bind; [exact IHl|intros; apply q_ret].
Qed.
Lemma q_genexpr {A} (m : M A) : qspec m -> qspec (in_genexpr m).
Proof. intros H s s' r E. unfold in_genexpr in E. destruct (m s) as [s1 r1] eqn:Em. specialize (H _ _ _ Em). destruct r1 as [?|[[]| | | | | |]|]; now injection E as <- <-. Qed.
Lemma q_unbox f : forall pkg, qspec (unbox S C UL f pkg).
Proof.
  induction f as [|f IH]; intros pkg; cbn [unbox]; [apply q_unm|].
  apply q_bind; [apply q_lift|intros lv]. destruct lv as [|label [|value [|? ?]]]; try apply q_raise.
  destruct (match num_of label with Some z => assoc_z z UL | None => None end) as [[| | |]|]; [apply q_ret| |apply q_resolve| |apply q_raise].
  - apply q_bind; [apply q_lift|intros items].
    assert (G : qspec (mbind ((fix go (l : list pyval) : M (list lval) :=
                             match l with
                             | [] => ret []
                             | x :: r => mbind (in_genexpr (unbox S C UL f x)) (fun v => mbind (go r) (fun vs => ret (v :: vs)))
                             end) items) (fun l => ret (LT l)))).
    { apply q_bind; [|intros; apply q_ret]. induction items as [|x items IHi]; [apply q_ret|].
      apply q_bind; [apply q_genexpr, IH|intros]. apply q_bind; [exact IHi|intros; apply q_ret]. }
    destruct value; try exact G. destruct items as [|? [|? ?]]; try exact G. apply q_unm.
  - destruct (index3 value) as [[[a b] c]|x|]; [|apply q_raise|apply q_unm].
    destruct (py_str a); [|apply q_unm].
    repeat first [q1 | qd | lazymatch goal with |- qspec (unbox _ _ _ f _) => apply IH end].
Qed.
Lemma q_ask h args : qspec (ask S C UL BL h args).
Proof. unfold ask. apply q_bind; [apply q_box|intros]. apply q_bind; [apply q_emit|intros]. apply q_bind; [apply q_pop|intros ans]. destruct ans; [apply q_unbox|apply q_raise_loaded|qauto]. Qed.
Lemma q_converse h args : qspec (converse S C UL BL h args).
Proof. unfold converse. apply q_bind; [apply q_mark|intros; apply q_ask]. Qed.
Hint Resolve q_converse q_ask q_unbox q_box : qs.
Ltac q2 := first [q1 | lazymatch goal with
  | |- qspec (converse _ _ _ _ _ _) => apply q_converse
  | |- qspec (ask _ _ _ _ _ _) => apply q_ask
  | |- qspec (unbox _ _ _ _ _) => apply q_unbox
  | |- qspec (box _ _ _ _) => apply q_box end | qd].
Lemma q_iter v : qspec (iter_lval S C UL BL v).
Proof. destruct v; cbn [iter_lval]; repeat q2. Qed.
Lemma q_kw v : qspec (kw_lval S C UL BL v).
Proof. destruct v; cbn [kw_lval]; repeat q2. Qed.
Lemma q_truthy v : qspec (truthy S C UL BL v).
Proof. destruct v; cbn [truthy]; repeat q2. Qed.
Lemma q_access p g tgt nm extra : qspec (access S C UL BL p g tgt nm extra).
Proof.
  destruct tgt; cbn [access]; try (repeat q2; fail).
  intros s s' r E.
  pose proof (q_fold_any (fun e => EProbe o (ev_name e)) (probes_of (c_attr C) p (pyname_of nm) (s_view S (wst s) o)) s) as Q1.
  set (s1 := fold_left _ _ s) in *.
  destruct (decide (c_guard C) (c_attr C) p (pyname_of nm) (s_view S (wst s) o)) as [[n|final]|e| |].
  - destruct (s_hook S (wst s1) o p n extra). injection E as <- <-. eapply qrel_trans; [exact Q1|now apply qrel_touch].
  - destruct (guard_ok g final); [|now injection E as <- <-].
    destruct (s_attr S (wst s1) o p final extra). injection E as <- <-. eapply qrel_trans; [exact Q1|now apply qrel_touch].
  - now injection E as <- <-.
  - now injection E as <- <-.
  - now injection E as <- <-.
Qed.
Lemma q_islice b : qspec (islice_count S C UL BL b).
Proof. destruct b; cbn [islice_count]; repeat q2. Qed.
Ltac q3 := first [q2 | lazymatch goal with
  | |- qspec (iter_lval _ _ _ _ _) => apply q_iter
  | |- qspec (kw_lval _ _ _ _ _) => apply q_kw
  | |- qspec (truthy _ _ _ _ _) => apply q_truthy
  | |- qspec (access _ _ _ _ _ _ _ _ _) => apply q_access
  | |- qspec (islice_count _ _ _ _ _) => apply q_islice end].
Lemma q_do_op op a b : qspec (do_op S C UL BL op a b).
Proof. destruct op; cbn [do_op]; repeat q3. Qed.
Lemma q_decref k c : qspec (decref S k c).
Proof.
  destruct k; cbn [decref]; try (repeat q3; fail).
  intros s s' r E. destruct (tbl_find v (tbl s)) as [[o cnt]|].
  - destruct c; try (injection E as <- <-; apply qrel_refl).
    + destruct v0; try (injection E as <- <-; first [apply qrel_refl | exact (qrel_add s (EDecref v _))]).
    + revert E. apply (q_bind (touch S OpCmp o0 []) (fun _ => unm)); [apply q_touch|intros; apply q_unm].
  - injection E as <- <-. apply qrel_add.
Qed.
Ltac q4 := first [q3 | lazymatch goal with
  | |- qspec (do_op _ _ _ _ _ _ _) => apply q_do_op
  | |- qspec (decref _ _ _) => apply q_decref end].
Lemma q_try_exc {A} all (m h : M A) : qspec m -> qspec h -> qspec (try_exc all m h).
Proof.
  intros Hm Hh s s' r E. unfold try_exc in E. destruct (m s) as [s1 r1] eqn:E1. pose proof (Hm _ _ _ E1) as Q1.
  destruct r1 as [a|x|]; [now injection E as <- <-| |now injection E as <- <-].
  destruct (all || is_exception x); [|now injection E as <- <-]. eapply qrel_trans; [exact Q1|].
  eapply qrel_trans; [|exact (Hh _ _ _ E)]. now apply qrel_same.
Qed.
Lemma q_eval e : forall env loc, qspec (eval S C UL BL env loc e).
Proof.
  induction e; intros env loc; cbn [eval];
    try (repeat first [q4 | lazymatch goal with |- qspec (eval _ _ _ _ _ _ ?x) =>
                              first [apply IHe | apply IHe1 | apply IHe2 | apply IHe3 | apply IHe4] end]; fail).
  - (* XTryExc *) apply q_try_exc; [apply IHe1|apply IHe2].
  - (* XCtxArgs *)
    apply q_bind; [apply IHe|intros v]. apply q_bind; [apply q_truthy|intros b]. destruct b; [|apply q_ret].
    apply q_try_exc; [|apply q_ret]. apply q_bind; [|intros; apply q_unm]. unfold ctx_raise. repeat q3.
Qed.
Lemma q_eval_list l : qspec (eval_list S C UL BL l).
Proof. induction l; cbn [eval_list]; [apply q_ret|]. apply q_bind; [apply q_eval|intros]. apply q_bind; [exact IHl|intros; apply q_ret]. Qed.
Lemma q_call_handler hv args : qspec (call_handler S C HT DT UL BL hv args).
Proof.
  unfold call_handler.
  assert (G : qspec match find_handler HT DT hv with
                | None => raise_std KeyError
                | Some d =>
                    mbind (iter_lval S C UL BL args) (fun l =>
                      let n := List.length l in
                      if (n <? h_min d)%nat || (h_min d + List.length (h_defaults d) <? n)%nat then raise_std TypeError
                      else mbind (eval_list S C UL BL (skipn (n - h_min d) (h_defaults d))) (fun ds => eval S C UL BL (l ++ ds) [] (h_body d)))
                end).
  { destruct (find_handler HT DT hv); [|apply q_raise]. apply q_bind; [apply q_iter|intros l]. cbn zeta.
    destruct (_ || _); [apply q_raise|]. apply q_bind; [apply q_eval_list|intros; apply q_eval]. }
  destruct hv; try exact G; apply q_unm.
Qed.
Lemma qrel_end_conn s : qrel s (end_conn s).
Proof. unfold end_conn. destruct (closed s); [apply qrel_refl|]. destruct (cleanup s) as [s1 r1] eqn:E. exact (q_cleanup _ _ _ E). Qed.

Lemma q_dispatch_request seq raw s s' o : dispatch_request S C HT DT UL BL seq raw s = (s', o) -> qrel s s'.
Proof.
  intros E. unfold dispatch_request in E.
  match type of E with context [?m s] => match m with mbind _ _ => set (mm := m) in * end end.
  assert (Hm : qspec mm).
  { subst mm. apply q_bind; [apply q_lift|intros ha]. destruct ha as [|h [|pkg [|? ?]]]; try apply q_raise.
    apply q_bind; [apply q_unbox|intros; apply q_call_handler]. }
  destruct (mm s) as [s1 r1] eqn:Em. pose proof (Hm _ _ _ Em) as Q1.
  destruct r1 as [v|x|].
  - destruct (closed s1); [now injection E as <- <-|].
    destruct (box S BL FUEL v s1) as [s2 r2] eqn:Eb. pose proof (q_box _ _ _ _ _ Eb) as Q2.
    destruct r2; injection E as <- <-; eapply qrel_trans; eauto.
  - destruct (closed s1); [now injection E as <- <-|].
    destruct (propagates C x); injection E as <- <-; [eapply qrel_trans; [exact Q1|apply qrel_end_conn]|].
    eapply qrel_trans; [exact Q1|]. exact (q_fold_any (fun e => e) (tb_events x ++ map (fun c => ECtx (fst c) (snd c)) (ctxs s1) ++ dump_events S x) s1).
  - now injection E as <- <-.
Qed.

Lemma q_handle_msg_core msg answers s s' o : handle_msg_core S C HT DT ML UL BL msg answers s = (s', o) -> qrel s s'.
Proof.
  intros E. unfold handle_msg_core in E. destruct (closed s); [injection E as <- <-; apply qrel_refl|].
  set (s0 := with_ctxs (with_script (add_ev s EMsg) answers) []) in *.
  assert (Q0 : qrel s s0) by (apply (qrel_add s EMsg)).
  assert (QE : forall s1, qrel s0 s1 -> qrel s (end_conn s1)).
  { intros s1 Q. eapply qrel_trans; [exact Q0|]. eapply qrel_trans; [exact Q|apply qrel_end_conn]. }
  destruct (Vinegar.unpack 3 msg) as [l| | |]; try (injection E as <- <-; first [exact Q0 | apply QE, qrel_refl]).
  destruct l as [|kind [|seq [|args [|? ?]]]]; try (injection E as <- <-; apply QE, qrel_refl).
  destruct (match num_of kind with Some z => assoc_z z ML | None => None end) as [[| | | |]|].
  - eapply qrel_trans; [exact Q0|eapply q_dispatch_request; eauto].
  - destruct (unbox S C UL FUEL args s0) as [s1 r1] eqn:Eu. pose proof (q_unbox _ _ _ _ _ Eu) as Q1.
    destruct r1; injection E as <- <-; first [exact (QE _ Q1) | exact (qrel_trans _ _ _ Q0 Q1)].
  - destruct (load_exc S C args s0) as [s1 r1] eqn:Eu. pose proof (q_load_exc _ _ _ _ Eu) as Q1.
    destruct r1; injection E as <- <-; first [exact (QE _ Q1) | exact (qrel_trans _ _ _ Q0 Q1)].
  - destruct (unbox S C UL FUEL args s0) as [s1 r1] eqn:Eu. unfold response_out in E. pose proof (q_unbox _ _ _ _ _ Eu) as Q1.
    destruct r1 as [?|x|]; try destruct (escapes_response x); injection E as <- <-; first [exact (QE _ Q1) | exact (qrel_trans _ _ _ Q0 Q1)].
  - destruct (load_exc S C args s0) as [s1 r1] eqn:Eu. unfold response_out in E. pose proof (q_load_exc _ _ _ _ Eu) as Q1.
    destruct r1 as [?|x|]; try destruct (escapes_response x); injection E as <- <-; first [exact (QE _ Q1) | exact (qrel_trans _ _ _ Q0 Q1)].
  - injection E as <- <-. apply QE, qrel_refl.
Qed.
(* a message whose handling adds no touching event leaves the service state as it was *)
Theorem q_handle_msg msg answers s s' o : handle_msg S C HT DT ML UL BL msg answers s = (s', o) -> qrel s s'.
Proof.
  intros E. unfold handle_msg in E. destruct (lost s); [injection E as <- <-; apply qrel_refl|].
  destruct (handle_msg_core S C HT DT ML UL BL msg answers s) as [s1 o1] eqn:Ec.
  pose proof (q_handle_msg_core _ _ _ _ _ Ec) as Q. destruct o1; injection E as <- <-; exact Q.
Qed.
End Quiet.

(* ================================================================== one outcome per message *)
Section Outcome.
Context {W : Type}.
Variable S : sem W.
Variable C : config.
Variable HT : list (string * hdef).
Variable DT : list (Z * string).
Variable ML : list (Z * dact).
Variable UL : list (Z * uact).
Variable BL : list (string * Z).

Definition kind_of (msg : pyval) : option (dact * pyval * pyval) :=
  match Vinegar.unpack 3 msg with
  | Ok [kind; seq; args] =>
      match match num_of kind with Some z => assoc_z z ML | None => None end with
      | Some d => Some (d, seq, args)
      | None => None
      end
  | _ => None
  end.

(* a request is answered with its own sequence number (value or exception), or the connection ends (a local
   KeyboardInterrupt/SystemExit that the configuration propagates, or the peer's own close request) *)
Lemma request_outcome_core msg answers (s s' : hst W) o seq args :
  closed s = false -> kind_of msg = Some (DRequest, seq, args) ->
  handle_msg_core S C HT DT ML UL BL msg answers s = (s', o) ->
  (exists p, o = OReply seq p) \/ (exists x, o = OExc seq x /\ propagates C x = false) \/
  (exists x, o = OEnd x /\ propagates C x = true /\ closed s' = true) \/ (o = OClosed /\ closed s' = true) \/ o = OUnm.
Proof.
  intros Hc Hk E. unfold handle_msg_core in E. rewrite Hc in E. unfold kind_of in Hk.
  destruct (Vinegar.unpack 3 msg) as [l| | |]; try discriminate.
  destruct l as [|kind [|seq' [|args' [|? ?]]]]; try discriminate.
  destruct (match num_of kind with Some z => assoc_z z ML | None => None end) as [d|]; [|discriminate].
  injection Hk as -> <- <-. unfold dispatch_request in E.
  match type of E with context [?m ?s0] => match m with mbind _ _ => destruct (m s0) as [s1 r1] end end.
  destruct r1 as [v|x|].
  - destruct (closed s1) eqn:Ec; [injection E as <- <-; right; right; right; left; auto|].
    destruct (box S BL FUEL v s1) as [s2 [p| |]]; injection E as <- <-; eauto 6.
  - destruct (closed s1) eqn:Ec; [injection E as <- <-; right; right; right; left; auto|].
    destruct (propagates C x) eqn:Ep; injection E as <- <-.
    + right; right; left. exists x. repeat split; auto. unfold end_conn. now rewrite Ec.
    + right; left. eauto.
  - injection E as <- <-. auto 6.
Qed.
(* anything else is never answered: it is dropped or this connection ends *)
Lemma other_outcome_core msg answers (s s' : hst W) o :
  closed s = false -> (forall seq args, kind_of msg <> Some (DRequest, seq, args)) ->
  handle_msg_core S C HT DT ML UL BL msg answers s = (s', o) ->
  o = OIgnored \/ (exists x, o = OEnd x /\ closed s' = true) \/ o = OUnm.
Proof.
  intros Hc Hk E. unfold handle_msg_core in E. rewrite Hc in E. unfold kind_of in Hk.
  assert (EC : forall s1 : hst W, closed (end_conn s1) = true).
  { intros s1. unfold end_conn. destruct (closed s1) eqn:X; [exact X|reflexivity]. }
  destruct (Vinegar.unpack 3 msg) as [l| | |]; try (injection E as <- <-; eauto).
  destruct l as [|kind [|seq [|args [|? ?]]]]; try (injection E as <- <-; eauto).
  destruct (match num_of kind with Some z => assoc_z z ML | None => None end) as [[| | | |]|].
  - now elim (Hk seq args).
  - destruct (unbox S C UL FUEL args _) as [s1 [?|?|]]; injection E as <- <-; eauto.
  - destruct (load_exc S C args _) as [s1 [?|?|]]; injection E as <- <-; eauto.
  - destruct (unbox S C UL FUEL args _) as [s1 [?|x|]]; unfold response_out in E; try destruct (escapes_response x); injection E as <- <-; eauto.
  - destruct (load_exc S C args _) as [s1 [?|x|]]; unfold response_out in E; try destruct (escapes_response x); injection E as <- <-; eauto.
  - injection E as <- <-; eauto.
Qed.
(* through _dispatch_response a response that cannot be rebuilt is delivered to the request it answers (dropped when none waits);
   only EOFError or something that is not an Exception still leaves serve() *)
Lemma guarded_response_outcome_core msg answers (s s' : hst W) o d seq args :
  closed s = false -> kind_of msg = Some (d, seq, args) -> d = DReplyG \/ d = DExceptionG ->
  handle_msg_core S C HT DT ML UL BL msg answers s = (s', o) ->
  o = OIgnored \/ (exists x, o = OEnd x /\ escapes_response x = true /\ closed s' = true) \/ o = OUnm.
Proof.
  intros Hc Hk Hd E. unfold handle_msg_core in E. rewrite Hc in E. unfold kind_of in Hk.
  assert (EC : forall s1 : hst W, closed (end_conn s1) = true).
  { intros s1. unfold end_conn. destruct (closed s1) eqn:X; [exact X|reflexivity]. }
  destruct (Vinegar.unpack 3 msg) as [l| | |]; try discriminate.
  destruct l as [|kind [|seq' [|args' [|? ?]]]]; try discriminate.
  destruct (match num_of kind with Some z => assoc_z z ML | None => None end) as [d'|]; [|discriminate].
  injection Hk as -> <- <-.
  destruct Hd as [-> | ->].
  - destruct (unbox S C UL FUEL args' _) as [s1 [?|x|]]; unfold response_out in E; try destruct (escapes_response x) eqn:Ex; injection E as <- <-; eauto 6.
  - destruct (load_exc S C args' _) as [s1 [?|x|]]; unfold response_out in E; try destruct (escapes_response x) eqn:Ex; injection E as <- <-; eauto 6.
Qed.
Lemma dead_outcome_core msg answers (s s' : hst W) o :
  closed s = true -> handle_msg_core S C HT DT ML UL BL msg answers s = (s', o) -> o = ODead /\ s' = s.
Proof. intros Hc E. unfold handle_msg_core in E. rewrite Hc in E. now injection E as <- <-. Qed.

(* handle_msg = handle_msg_core, except that an unmodelled outcome is remembered *)
Lemma handle_msg_core_eq msg answers (s s' : hst W) o : lost s = false ->
  handle_msg S C HT DT ML UL BL msg answers s = (s', o) ->
  exists s1, handle_msg_core S C HT DT ML UL BL msg answers s = (s1, o) /\ closed s' = closed s1 /\ (o <> OUnm -> s' = s1).
Proof.
  intros Hl E. unfold handle_msg in E. rewrite Hl in E.
  destruct (handle_msg_core S C HT DT ML UL BL msg answers s) as [s1 o1]. exists s1.
  destruct o1; injection E as <- <-; (split; [reflexivity|split; [reflexivity|]]); try reflexivity; intros H; now elim H.
Qed.
Theorem request_outcome msg answers (s s' : hst W) o seq args :
  lost s = false -> closed s = false -> kind_of msg = Some (DRequest, seq, args) ->
  handle_msg S C HT DT ML UL BL msg answers s = (s', o) ->
  (exists p, o = OReply seq p) \/ (exists x, o = OExc seq x /\ propagates C x = false) \/
  (exists x, o = OEnd x /\ propagates C x = true /\ closed s' = true) \/ (o = OClosed /\ closed s' = true) \/ o = OUnm.
Proof.
  intros Hl Hc Hk E. destruct (handle_msg_core_eq _ _ _ _ _ Hl E) as (s1 & E1 & Ec & _). rewrite Ec.
  exact (request_outcome_core _ _ _ _ _ _ _ Hc Hk E1).
Qed.
Theorem other_outcome msg answers (s s' : hst W) o :
  lost s = false -> closed s = false -> (forall seq args, kind_of msg <> Some (DRequest, seq, args)) ->
  handle_msg S C HT DT ML UL BL msg answers s = (s', o) ->
  o = OIgnored \/ (exists x, o = OEnd x /\ closed s' = true) \/ o = OUnm.
Proof.
  intros Hl Hc Hk E. destruct (handle_msg_core_eq _ _ _ _ _ Hl E) as (s1 & E1 & Ec & _). rewrite Ec.
  exact (other_outcome_core _ _ _ _ _ Hc Hk E1).
Qed.
Theorem guarded_response_outcome msg answers (s s' : hst W) o d seq args :
  lost s = false -> closed s = false -> kind_of msg = Some (d, seq, args) -> d = DReplyG \/ d = DExceptionG ->
  handle_msg S C HT DT ML UL BL msg answers s = (s', o) ->
  o = OIgnored \/ (exists x, o = OEnd x /\ escapes_response x = true /\ closed s' = true) \/ o = OUnm.
Proof.
  intros Hl Hc Hk Hd E. destruct (handle_msg_core_eq _ _ _ _ _ Hl E) as (s1 & E1 & Ec & _). rewrite Ec.
  exact (guarded_response_outcome_core _ _ _ _ _ _ _ _ Hc Hk Hd E1).
Qed.
Theorem dead_outcome msg answers (s s' : hst W) o :
  lost s = false -> closed s = true -> handle_msg S C HT DT ML UL BL msg answers s = (s', o) -> o = ODead /\ s' = s.
Proof.
  intros Hl Hc E. destruct (handle_msg_core_eq _ _ _ _ _ Hl E) as (s1 & E1 & _ & Hs).
  destruct (dead_outcome_core _ _ _ _ _ Hc E1) as [-> ->]. split; [reflexivity|]. apply Hs. discriminate.
Qed.
(* once the model met something it does not describe it says nothing any more: every later outcome is OUnm, nothing changes *)
Theorem lost_is_absorbing msg answers (s : hst W) : lost s = true -> handle_msg S C HT DT ML UL BL msg answers s = (s, OUnm).
Proof. intros H. unfold handle_msg. now rewrite H. Qed.
Theorem unmodelled_sets_lost msg answers (s s' : hst W) : handle_msg S C HT DT ML UL BL msg answers s = (s', OUnm) -> lost s' = true.
Proof.
  unfold handle_msg. destruct (lost s) eqn:Hl; [now intros [= <-]|].
  destruct (handle_msg_core S C HT DT ML UL BL msg answers s) as [s1 o1]. destruct o1; intros [= <-]; reflexivity.
Qed.
(* a reference that is not in this connection's table is refused: KeyError, nothing touched, nothing changed *)
Lemma unbox_forged f key (s : hst W) : tbl_find key (tbl s) = None -> assoc_z 3 UL = Some ULocal ->
  unbox S C UL (Datatypes.S f) (PTuple [PInt 3; key]) s = (add_ev s (EMiss key), RRaise (XStd KeyError)).
Proof.
  intros F U. cbn [unbox]. unfold mbind, lift. cbn. rewrite U. unfold resolve. now rewrite F.
Qed.
End Outcome.

(* a checkable form of "no pickling outside the guard" *)
Definition table_pkb (c : bool) (ht : list (string * hdef)) : bool :=
  forallb (fun nd => pk c (h_body (snd nd)) && forallb (pk c) (h_defaults (snd nd))) ht.
Lemma table_pkb_sound C HT : table_pkb (c_pickle C) HT = true -> table_pk C HT.
Proof.
  unfold table_pkb, table_pk. rewrite forallb_forall. intros H n d Hin. specialize (H _ Hin). cbn in H.
  apply andb_prop in H as [Hb Hd]. split; [exact Hb|]. rewrite forallb_forall in Hd. now apply Forall_forall.
Qed.

(* ================================================================== statements used by props/C07.v *)
Section Final.
Context {W : Type}.
Variable S : sem W.
Variable C : config.
Variable HT : list (string * hdef).
Variable DT : list (Z * string).
Variable ML : list (Z * dact).
Variable UL : list (Z * uact).
Variable BL : list (string * Z).
Hypothesis Sval : val_closed S.
Hypothesis HTpk : table_pk C HT.
Notation RUN w l := (run S C HT DT ML UL BL (init w) l).

Theorem trace_event_ok w l t1 e t2 : tr (RUN w l) = t1 ++ e :: t2 -> ev_ok S C (ghost_of t2) e.
Proof. intros E. apply (wf_event S C t1). rewrite <- E. now apply wf_run. Qed.

(* 1. references are resolved through this connection's table only, and the table holds only what was lent on it *)
Theorem resolve_only_lent w l t1 k o t2 : tr (RUN w l) = t1 ++ EResolve k o :: t2 ->
  (exists c, tbl_find k (g_tbl (ghost_of t2)) = Some (o, c)) /\ exists k', In (EBox k' o) t2.
Proof.
  intros E. pose proof (trace_event_ok _ _ _ _ _ E) as [c Hc]. split; [eauto|].
  apply ghost_tbl_lent. eapply tbl_find_objs; eauto.
Qed.
Theorem miss_not_lent w l t1 k t2 : tr (RUN w l) = t1 ++ EMiss k :: t2 -> tbl_find k (g_tbl (ghost_of t2)) = None.
Proof. intros E. exact (trace_event_ok _ _ _ _ _ E). Qed.
(* the table changes by lend / release / clear events only: at any moment it is the replay of those events *)
Theorem table_is_replay w l : tbl (RUN w l) = g_tbl (ghost_of (tr (RUN w l))).
Proof. symmetry. exact (proj2 (inv_run S C HT DT ML UL BL Sval HTpk l _ (inv_init S C w))). Qed.

(* 2. whatever is touched, probed, accessed by name, lent or pickled is held by the request: it came from the root, from the
      table, from type() of such an object, or out of a permitted operation earlier in the same request *)
Definition target (e : event) : option oid :=
  match e with
  | EProbe o _ | EAttr o _ _ _ | EHook o _ _ _ | ETouch o _ _ | EBox _ o | EType o _ | EPayload o _ => Some o
  | _ => None
  end.
Theorem touched_only_held w l t1 e t2 o : tr (RUN w l) = t1 ++ e :: t2 -> target e = Some o ->
  In o (g_auth (ghost_of t2)) /\ exists e', In e' t2 /\ gives e' o.
Proof.
  intros E T. pose proof (trace_event_ok _ _ _ _ _ E) as H.
  assert (A : In o (g_auth (ghost_of t2))) by (destruct e; cbn in T; try discriminate; injection T as <-; cbn in H; tauto).
  split; [exact A|now apply auth_origin].
Qed.
(* 3. pickling needs allow_pickle *)
Theorem pickle_needs_switch w l t1 o ys t2 : tr (RUN w l) = t1 ++ ETouch o OpPickle ys :: t2 -> c_pickle C = true.
Proof. intros E. pose proof (trace_event_ok _ _ _ _ _ E) as [_ H]. now apply H. Qed.
(* 3'. netref.class_factory runs a module-level __getattr__ hook for a peer-declared name only if it reads the class with getattr
       (generated fact c_cls_mode): with the module's own __dict__ (LkDict) no module is ever imported that way *)
Theorem class_hook_needs_getattr w l t1 m t2 : tr (RUN w l) = t1 ++ ECls m :: t2 ->
  Vinegar.hooks_run (c_cls_mode C) (c_rflags C) = true.
Proof. intros E. exact (trace_event_ok _ _ _ _ _ E). Qed.
(* 3''. class_factory reads attributes of a module global a peer names (an object that was never lent) only in the form that tests the
        object itself (generated fact c_cls_reads); a test on type(found) alone reads nothing of it *)
Theorem class_global_read_needs_form w l t1 o t2 : tr (RUN w l) = t1 ++ EGlobalRead o :: t2 -> c_cls_reads C = true.
Proof. intros E. exact (trace_event_ok _ _ _ _ _ E). Qed.
(* 4. what an exception record can make vinegar.load do (an import needs import_custom, or -- through a module-level
      __getattr__ consulted by the class lookup, see props/C09.v 3a/3b -- instantiate_custom) *)
Theorem vinegar_effects w l t1 v t2 : tr (RUN w l) = t1 ++ EVin v :: t2 ->
  (forall m, v = Vinegar.EImport m -> Vinegar.import_custom (c_rflags C) = true \/ Vinegar.inst_custom (c_rflags C) = true) /\
  (forall c, v <> Vinegar.EInit c) /\
  (forall c, v = Vinegar.ENew (Vinegar.Real c) -> Vinegar.inst_custom (c_rflags C) = false ->
             exists n ok, Vinegar.assoc n (Vinegar.builtins_ns (s_env S)) = Some (Vinegar.AExc c ok)).
Proof.
  intros E. pose proof (trace_event_ok _ _ _ _ _ E) as [payload H]. repeat split.
  - intros m ->. destruct (VinegarP.import_only_two_ways _ _ _ _ _ H) as [[A _]|[_ A]]; [now left|now right].
  - intros c ->. exact (VinegarP.never_init _ _ _ _ _ H).
  - intros c -> Hi. exact (VinegarP.new_only_builtin _ _ _ _ _ Hi H).
Qed.
End Final.

(* under the default configuration: by-name accesses are reads of exposed_/safe names (or the object's own hook decides) *)
Definition allowed_default (n : text) : Prop := starts_with (txt "exposed_") n = true \/ In n (map txt default_safe).
Lemma probe_names_default p pn vw n : In (EGet n) (probes_of (c_attr default_config) p pn vw) -> allowed_default n.
Proof.
  unfold probes_of. destruct (nkind_of pn); try contradiction; (destruct (hook_for vw p); [contradiction|]);
    intros H; apply in_map_iff in H as (q & Hq & Hin);
    unfold check_probes in Hin; cbn [c_attr default_config sw default_switches lookup_perm allow_safe allow_exposed allow_public allow_all] in Hin;
    (destruct p; cbn [allow_getattr allow_setattr allow_delattr negb] in Hin; try contradiction);
    cbn [exposed_prefix nonempty txt andb orb] in Hin;
    (apply in_app_or in Hin as [Hin|Hin];
     [ destruct Hin as [<-|[]]; cbn in Hq; injection Hq as <-; left; first [apply starts_with_app | reflexivity]
     | match type of Hin with In _ (if ?b then _ else _) => destruct b eqn:B end; [|contradiction];
       destruct Hin as [<-|[]]; cbn in Hq; injection Hq as <-;
       apply andb_prop in B as [B _]; cbn in B; apply orb_prop in B as [B|B];
       [ apply orb_prop in B as [B|B]; [left; exact B|right; now apply mem_In] | discriminate B] ]).
Qed.

(* a request whose first argument is a reference this connection's table does not have (forged, released, or harvested on
   another connection): refused with KeyError under the request's own sequence number; nothing is touched, nothing changes *)
Lemma unbox_first_miss {W} (S : sem W) C f key rest (s : hst W) : tbl_find key (tbl s) = None ->
  unbox S C unbox_ladder (Datatypes.S (Datatypes.S f)) (PTuple [PInt 2; PTuple (PTuple [PInt 3; key] :: rest)]) s
  = (add_ev s (EMiss key), RRaise (XStd KeyError)).
Proof.
  intros F. cbn [unbox]. unfold mbind, lift, in_genexpr, resolve. cbn. now rewrite F.
Qed.
Theorem forged_reference_refused {W} (S : sem W) C HT DT (s : hst W) seq h key rest answers :
  lost s = false -> closed s = false -> tbl_find key (tbl s) = None ->
  let msg := PTuple [PInt 1; seq; PTuple [h; PTuple [PInt 2; PTuple (PTuple [PInt 3; key] :: rest)]]] in
  exists s', handle_msg S C HT DT msg_ladder unbox_ladder box_ladder msg answers s = (s', OExc seq (XStd KeyError))
    /\ wst s' = wst s /\ tbl s' = tbl s /\ tr s' = EMiss key :: EMsg :: tr s /\ closed s' = false.
Proof.
  intros Hl Hc F msg. subst msg. unfold handle_msg. rewrite Hl. unfold handle_msg_core. rewrite Hc.
  cbn [Vinegar.unpack iter_elems bind List.length Nat.eqb num_of assoc_z msg_ladder Z.eqb].
  unfold dispatch_request. unfold mbind at 1. cbn [Vinegar.unpack iter_elems bind List.length Nat.eqb lift ret].
  unfold mbind at 1. change FUEL with (Datatypes.S (Datatypes.S 62)).
  rewrite (unbox_first_miss S C 62 key rest (with_ctxs (with_script (add_ev s EMsg) answers) [])) by exact F.
  cbn [closed with_script add_ev with_tr with_ctxs]. rewrite Hc. cbn [propagates].
  eexists. split; [reflexivity|]. cbn. auto.
Qed.

(* the finite canary world of the harness meets the hypothesis on plain-value operations *)
Lemma world_sem_val_closed w excs mods globs : val_closed (world_sem w excs mods globs).
Proof.
  intros op v args. cbn [s_val world_sem]. destruct op; cbn; try apply incl_nil_l.
  destruct v; cbn; try apply incl_nil_l. destruct l; cbn; apply incl_nil_l.
Qed.

(* ================================================================== a name guard on an access bounds the names that reach the object *)
Section Guard.
Context {W : Type}.
Variable S : sem W.
Variable C : config.
Variable UL : list (Z * uact).
Variable BL : list (string * Z).
Variable names : list string.
Notation state := (hst W).
Notation M := (@Hostile.M W).

(* every by-name access in e goes through an accessor guarded by a sub-list of [names] *)
Fixpoint guarded (e : hexp) : bool :=
  match e with
  | XAccess _ g o n x =>
      match g with Some l => forallb (fun a => existsb (String.eqb a) names) l | None => false end && guarded o && guarded n && guarded x
  | XOp _ a b | XTupCons a b | XLet a b | XSlice a b | XDecref a b | XTryExc a b => guarded a && guarded b
  | XGuardCfg _ _ a | XType a | XLookup a | XCtxArgs _ _ a => guarded a
  | XCall f p st k => guarded f && guarded p && guarded st && guarded k
  | XIfNone c t e | XIfHasConn _ c t e => guarded c && guarded t && guarded e
  | XForward c _ a => guarded c && guarded a
  | _ => true
  end.
Definition listed (e : event) : Prop :=
  match e with EAttr _ _ final _ => exists n, In n names /\ final = txt n | _ => True end.
(* the events added between two states are all [listed] *)
Definition arel (s s' : state) : Prop := exists t, tr s' = t ++ tr s /\ Forall listed t.
Definition aspec {A} (m : M A) : Prop := forall s s' r, m s = (s', r) -> arel s s'.

Lemma arel_refl s : arel s s. Proof. exists []. split; [reflexivity|constructor]. Qed.
Lemma arel_trans a b c : arel a b -> arel b c -> arel a c.
Proof. intros (t1 & E1 & F1) (t2 & E2 & F2). exists (t2 ++ t1). split; [now rewrite E2, E1, app_assoc|now apply Forall_app]. Qed.
Lemma arel_same (s s' : state) : tr s' = tr s -> arel s s'.
Proof. intros H. exists []. split; [exact H|constructor]. Qed.
Lemma arel_add (s : state) e : listed e -> arel s (add_ev s e).
Proof. intros H. exists [e]. split; [reflexivity|constructor; [exact H|constructor]]. Qed.
Lemma arel_fold {X} (f : X -> event) (Hf : forall x, listed (f x)) l : forall s : state, arel s (fold_left (fun s e => add_ev s (f e)) l s).
Proof. induction l as [|x l IH]; intros s; cbn; [apply arel_refl|]. eapply arel_trans; [apply (arel_add s (f x)), Hf|apply IH]. Qed.

Lemma a_ret {A} (a : A) : aspec (ret a). Proof. intros s s' r [= <- <-]. apply arel_refl. Qed.
Lemma a_raise {A} x : aspec (@raise W A x). Proof. intros s s' r [= <- <-]. apply arel_refl. Qed.
Lemma a_unm {A} : aspec (@unm W A). Proof. intros s s' r [= <- <-]. apply arel_refl. Qed.
Lemma a_lift {A} (r : result A) : aspec (lift r).
Proof. destruct r; cbn [lift]; [apply a_ret|apply a_raise|apply a_unm|apply a_unm]. Qed.
Lemma a_bind {A B} (m : M A) (k : A -> M B) : aspec m -> (forall a, aspec (k a)) -> aspec (mbind m k).
Proof.
  intros Hm Hk s s' r E. unfold mbind in E. destruct (m s) as [s1 [a|x|]] eqn:Em.
  - eapply arel_trans; [exact (Hm _ _ _ Em)|exact (Hk a _ _ _ E)].
  - injection E as <- <-. exact (Hm _ _ _ Em).
  - injection E as <- <-. exact (Hm _ _ _ Em).
Qed.
Lemma a_emit e : listed e -> aspec (emit e). Proof. intros H s s' r [= <- <-]. now apply arel_add. Qed.
Lemma a_state {A} (m : M A) : (forall s s' r, m s = (s', r) -> tr s' = tr s) -> aspec m.
Proof. intros H s s' r E. apply arel_same. exact (H _ _ _ E). Qed.
Lemma a_mark : aspec (@mark_approx W). Proof. apply a_state. now intros s s' r [= <- <-]. Qed.
Lemma a_pop : aspec (@pop_answer W). Proof. apply a_state. intros s s' r E. unfold pop_answer in E. destruct (script s); now injection E as <- <-. Qed.
Lemma a_in_ccache k : aspec (@in_ccache W k). Proof. apply a_state. now intros s s' r [= <- <-]. Qed.
Lemma a_was_seen k : aspec (@was_seen W k). Proof. apply a_state. now intros s s' r [= <- <-]. Qed.
Lemma a_note_seen k : aspec (@note_seen W k). Proof. apply a_state. now intros s s' r [= <- <-]. Qed.
Lemma a_note_class k : aspec (@note_class W k). Proof. apply a_state. now intros s s' r [= <- <-]. Qed.
Lemma a_class_walk n : aspec (class_walk S C n).
Proof.
  intros s s' r E. unfold class_walk, emit_all in E. injection E as <- <-.
  assert (K : forall (l : list event) (s0 : state), (forall e, In e l -> listed e) -> arel s0 (fold_left add_ev l s0)).
  { induction l as [|e l IH]; intros s0 H; cbn; [apply arel_refl|]. eapply arel_trans; [apply (arel_add s0 e), H; now left|apply IH]. intros e' He'. apply H. now right. }
  apply K. intros e He. apply in_app_or in He as [He|He].
  - apply in_map_iff in He as (m & <- & _). exact Logic.I.
  - unfold class_global in He. destruct (c_cls_reads C); [|contradiction]. destruct (assoc_txt n (s_globals S)); [|contradiction]. destruct He as [<-|[]]. exact Logic.I.
Qed.
Lemma a_touch op o args : aspec (touch S op o args).
Proof. intros s s' r E. unfold touch in E. destruct (s_op S (wst s) op o args). injection E as <- <-. apply (arel_add s (ETouch o op _)). exact Logic.I. Qed.
Lemma a_val_op op v args : aspec (val_op S op v args).
Proof. intros s s' r E. unfold val_op in E. injection E as <- <-. apply (arel_add s (EForeign _)). exact Logic.I. Qed.
Lemma a_resolve k : aspec (@resolve W k).
Proof. intros s s' r E. unfold resolve in E. destruct (tbl_find k (tbl s)) as [[o c]|]; injection E as <- <-; [apply (arel_add s (EResolve k o))|apply (arel_add s (EMiss k))]; exact Logic.I. Qed.
Lemma a_lend o : aspec (lend S o).
Proof. intros s s' r E. unfold lend in E. injection E as <- <-. apply (arel_add s (EBox (s_key S o) o)). exact Logic.I. Qed.
Lemma a_cleanup : aspec (@cleanup W).
Proof. intros s s' r [= <- <-]. eapply arel_trans; [apply (arel_add s EDisconnect)|apply (arel_add (add_ev s EDisconnect) EClear)]; exact Logic.I. Qed.
Lemma a_load_exc payload : aspec (load_exc S C payload).
Proof.
  intros s s' r E. unfold load_exc in E. destruct (Vinegar.vload Vinegar.LkGetattr (c_rflags C) (s_env S) payload) as [eff rr].
  pose proof (arel_fold EVin (fun _ => Logic.I) eff s) as Q.
  assert (R : s' = fold_left (fun s e => add_ev s (EVin e)) eff s)
    by (destruct rr as [[| |c a sets st]| | |]; try (destruct (negb (iterable a) || existsb set_fails sets)); try destruct st; now injection E).
  now subst s'.
Qed.
Lemma a_raise_loaded {A} payload : aspec (@raise_loaded W S C A payload).
Proof.
  intros s s' r E. unfold raise_loaded in E. destruct (load_exc S C payload s) as [s1 r1] eqn:El.
  pose proof (a_load_exc _ _ _ _ El) as Q. destruct r1; now injection E as <- <-.
Qed.
Lemma a_genexpr {A} (m : M A) : aspec m -> aspec (in_genexpr m).
Proof. intros H s s' r E. unfold in_genexpr in E. destruct (m s) as [s1 r1] eqn:Em. specialize (H _ _ _ Em). destruct r1 as [?|[[]| | | | | |]|]; now injection E as <- <-. Qed.
Lemma a_try_exc {A} all (m h : M A) : aspec m -> aspec h -> aspec (try_exc all m h).
Proof.
  intros Hm Hh s s' r E. unfold try_exc in E. destruct (m s) as [s1 r1] eqn:E1. pose proof (Hm _ _ _ E1) as Q1.
  destruct r1 as [a|x|]; [now injection E as <- <-| |now injection E as <- <-].
  destruct (all || is_exception x); [|now injection E as <- <-]. eapply arel_trans; [exact Q1|].
  eapply arel_trans; [|exact (Hh _ _ _ E)]. now apply arel_same.
Qed.

Ltac a1 :=
  lazymatch goal with
  | |- aspec (ret _) => apply a_ret
  | |- aspec (raise _) => apply a_raise
  | |- aspec (raise_std _) => apply a_raise
  | |- aspec unm => apply a_unm
  | |- aspec (lift _) => apply a_lift
  | |- aspec (emit _) => apply a_emit; exact Logic.I
  | |- aspec mark_approx => apply a_mark
  | |- aspec pop_answer => apply a_pop
  | |- aspec (in_ccache _) => apply a_in_ccache
  | |- aspec (was_seen _) => apply a_was_seen
  | |- aspec (note_seen _) => apply a_note_seen
  | |- aspec (note_class _) => apply a_note_class
  | |- aspec (class_walk _ _ _) => apply a_class_walk
  | |- aspec (touch _ _ _ _) => apply a_touch
  | |- aspec (val_op _ _ _ _) => apply a_val_op
  | |- aspec (resolve _) => apply a_resolve
  | |- aspec (lend _ _) => apply a_lend
  | |- aspec cleanup => apply a_cleanup
  | |- aspec (load_exc _ _ _) => apply a_load_exc
  | |- aspec (raise_loaded _ _ _) => apply a_raise_loaded
  | |- aspec (mbind _ _) => apply a_bind; [|intros ?]
  | |- aspec (match ?x with _ => _ end) => destruct x
  | |- aspec (if ?x then _ else _) => destruct x
  end.
Lemma a_box f : forall v, aspec (box S BL f v).
Proof.
  induction f as [|f IH]; intros v; cbn [box]; [apply a_unm|].
  destruct (as_value v); [apply a_ret|]. destruct v; try apply a_unm; try (repeat a1; fail).
  apply a_bind; [|intros; apply a_ret]. induction l as [|x l IHl]; [apply a_ret|]. apply a_bind; [apply IH|intros]. apply a_bind; [exact IHl|intros; apply a_ret].
Qed.
Lemma a_unbox f : forall pkg, aspec (unbox S C UL f pkg).
Proof.
  induction f as [|f IH]; intros pkg; cbn [unbox]; [apply a_unm|].
  apply a_bind; [apply a_lift|intros lv]. destruct lv as [|label [|value [|? ?]]]; try apply a_raise.
  destruct (match num_of label with Some z => assoc_z z UL | None => None end) as [[| | |]|]; [apply a_ret| |apply a_resolve| |apply a_raise].
  - apply a_bind; [apply a_lift|intros items].
    assert (G : aspec (mbind ((fix go (l : list pyval) : M (list lval) :=
                             match l with
                             | [] => ret []
                             | x :: r => mbind (in_genexpr (unbox S C UL f x)) (fun v => mbind (go r) (fun vs => ret (v :: vs)))
                             end) items) (fun l => ret (LT l)))).
    { apply a_bind; [|intros; apply a_ret]. induction items as [|x items IHi]; [apply a_ret|].
      apply a_bind; [apply a_genexpr, IH|intros]. apply a_bind; [exact IHi|intros; apply a_ret]. }
    destruct value; try exact G. destruct items as [|? [|? ?]]; try exact G. apply a_unm.
  - destruct (index3 value) as [[[a b] c]|x|]; [|apply a_raise|apply a_unm].
    destruct (py_str a); [|apply a_unm].
    repeat first [a1 | lazymatch goal with |- aspec (unbox _ _ _ f _) => apply IH end].
Qed.
Lemma a_ask h args : aspec (ask S C UL BL h args).
Proof. unfold ask. apply a_bind; [apply a_box|intros]. apply a_bind; [apply a_emit; exact Logic.I|intros]. apply a_bind; [apply a_pop|intros ans]. destruct ans; [apply a_unbox|apply a_raise_loaded|apply a_raise]. Qed.
Lemma a_converse h args : aspec (converse S C UL BL h args).
Proof. unfold converse. apply a_bind; [apply a_mark|intros; apply a_ask]. Qed.
Ltac a2 := first [ lazymatch goal with
  | |- aspec (converse _ _ _ _ _ _) => apply a_converse
  | |- aspec (ask _ _ _ _ _ _) => apply a_ask
  | |- aspec (unbox _ _ _ _ _) => apply a_unbox
  | |- aspec (box _ _ _ _) => apply a_box end | a1].
Lemma a_iter v : aspec (iter_lval S C UL BL v). Proof. destruct v; cbn [iter_lval]; repeat a2. Qed.
Lemma a_kw v : aspec (kw_lval S C UL BL v). Proof. destruct v; cbn [kw_lval]; repeat a2. Qed.
Lemma a_truthy v : aspec (truthy S C UL BL v). Proof. destruct v; cbn [truthy]; repeat a2. Qed.
Lemma a_islice b : aspec (islice_count S C UL BL b). Proof. destruct b; cbn [islice_count]; repeat a2. Qed.
(* the guarded accessor: only a listed name reaches the object *)
Lemma a_access p l tgt nm extra : forallb (fun a => existsb (String.eqb a) names) l = true ->
  aspec (access S C UL BL p (Some l) tgt nm extra).
Proof.
  intros Hl. destruct tgt; cbn [access]; try (repeat a2; fail).
  intros s s' r E.
  pose proof (arel_fold (fun e => EProbe o (ev_name e)) (fun _ => Logic.I) (probes_of (c_attr C) p (pyname_of nm) (s_view S (wst s) o)) s) as Q1.
  set (s1 := fold_left _ _ s) in *.
  destruct (decide (c_guard C) (c_attr C) p (pyname_of nm) (s_view S (wst s) o)) as [[n|final]|e| |]; try (now injection E as <- <-).
  - destruct (s_hook S (wst s1) o p n extra). injection E as <- <-. eapply arel_trans; [exact Q1|]. apply (arel_add s1 (EHook o p n _)). exact Logic.I.
  - destruct (guard_ok (Some l) final) eqn:G; [|now injection E as <- <-].
    destruct (s_attr S (wst s1) o p final extra). injection E as <- <-. eapply arel_trans; [exact Q1|]. apply (arel_add s1 (EAttr o p final _)).
    cbn in G. apply existsb_exists in G as (a & Ha & Et). apply text_eqb_eq in Et. rewrite forallb_forall in Hl.
    specialize (Hl a Ha). apply existsb_exists in Hl as (b & Hb & Eb). apply String.eqb_eq in Eb. subst b. exists a. split; [exact Hb|exact Et].
Qed.
Ltac a3 := first [ lazymatch goal with
  | |- aspec (iter_lval _ _ _ _ _) => apply a_iter
  | |- aspec (kw_lval _ _ _ _ _) => apply a_kw
  | |- aspec (truthy _ _ _ _ _) => apply a_truthy
  | |- aspec (islice_count _ _ _ _ _) => apply a_islice end | a2].
Lemma a_do_op op a b : aspec (do_op S C UL BL op a b).
Proof. destruct op; cbn [do_op]; repeat a3. Qed.
Lemma a_decref k c : aspec (decref S k c).
Proof.
  destruct k; cbn [decref]; try (repeat a3; fail).
  intros s s' r E. destruct (tbl_find v (tbl s)) as [[o cnt]|].
  - destruct c; try (injection E as <- <-; apply arel_refl).
    + destruct v0; try (injection E as <- <-; first [apply arel_refl | exact (arel_add s (EDecref v _) Logic.I)]).
    + revert E. apply (a_bind (touch S OpCmp o0 []) (fun _ => unm)); [apply a_touch|intros; apply a_unm].
  - injection E as <- <-. apply (arel_add s (EMiss v)). exact Logic.I.
Qed.
Ltac a4 := first [ lazymatch goal with
  | |- aspec (do_op _ _ _ _ _ _ _) => apply a_do_op
  | |- aspec (decref _ _ _) => apply a_decref end | a3].
Lemma a_eval e : guarded e = true -> forall env loc, aspec (eval S C UL BL env loc e).
Proof.
  induction e; intros Hg env loc; cbn [eval]; cbn [guarded] in Hg;
    repeat match goal with H : _ && _ = true |- _ => apply andb_prop in H; let a := fresh "K" in let b := fresh "K" in destruct H as [a b] end;
    try (unfold ctx_raise;
         repeat first [ lazymatch goal with
                        | |- aspec (eval _ _ _ _ _ _ ?x) => first [apply IHe | apply IHe1 | apply IHe2 | apply IHe3 | apply IHe4]; assumption
                        | |- aspec (try_exc _ _ _) => apply a_try_exc
                        end | a4 ]; fail).
  (* XAccess *)
  destruct g as [l|]; [|discriminate].
  apply a_bind; [apply IHe1; assumption|intros ov]. apply a_bind; [apply IHe2; assumption|intros nv]. apply a_bind; [apply IHe3; assumption|intros xv].
  now apply a_access.
Qed.
End Guard.

Section GuardMsg.
Context {W : Type}.
Variable S : sem W.
Variable C : config.
Variable HT : list (string * hdef).
Variable DT : list (Z * string).
Variable ML : list (Z * dact).
Variable UL : list (Z * uact).
Variable BL : list (string * Z).
Variable names : list string.
Definition hdef_guarded (d : hdef) : Prop := guarded names (h_body d) = true /\ Forall (fun e => guarded names e = true) (h_defaults d).

Lemma a_bind_ret {A B} (a : A) (k : A -> @Hostile.M W B) : aspec names (k a) -> aspec names (mbind (ret a) k).
Proof. intros H s s' r E. exact (H s s' r E). Qed.
Lemma a_eval_list l : Forall (fun e => guarded names e = true) l -> aspec names (eval_list S C UL BL l).
Proof.
  induction l as [|e l IH]; intros H; cbn [eval_list]; [apply a_ret|]. inversion H; subst.
  apply a_bind; [now apply a_eval|intros]. apply a_bind; [now apply IH|intros; apply a_ret].
Qed.
Lemma a_call_handler hv args : (forall d, find_handler HT DT hv = Some d -> hdef_guarded d) ->
  aspec names (call_handler S C HT DT UL BL hv args).
Proof.
  intros Hd. unfold call_handler.
  assert (G : aspec names match find_handler HT DT hv with
                | None => raise_std KeyError
                | Some d =>
                    mbind (iter_lval S C UL BL args) (fun l =>
                      let n := List.length l in
                      if (n <? h_min d)%nat || (h_min d + List.length (h_defaults d) <? n)%nat then raise_std TypeError
                      else mbind (eval_list S C UL BL (skipn (n - h_min d) (h_defaults d))) (fun ds => eval S C UL BL (l ++ ds) [] (h_body d)))
                end).
  { destruct (find_handler HT DT hv) as [d|]; [|apply a_raise]. destruct (Hd d eq_refl) as [Hb Hl].
    apply a_bind; [apply a_iter|intros l]. cbn zeta. destruct (_ || _); [apply a_raise|].
    apply a_bind; [apply a_eval_list; now apply Forall_skipn|intros; now apply a_eval]. }
  destruct hv; try exact G; apply a_unm.
Qed.
Lemma arel_end_conn (s : hst W) : arel names s (end_conn s).
Proof. unfold end_conn. destruct (closed s); [apply arel_refl|]. destruct (cleanup s) as [s1 r1] eqn:E. exact (a_cleanup names _ _ _ E). Qed.
Lemma payload_listed x (cs : list (oid * nop)) e : In e (tb_events x ++ map (fun c => ECtx (fst c) (snd c)) cs ++ dump_events S x) -> listed names e.
Proof.
  intros He. apply in_app_or in He as [He|He]; [|apply in_app_or in He as [He|He]].
  - destruct (payload_event_shape S x e (in_or_app _ _ _ (or_introl He))) as (o & op & -> & _). exact Logic.I.
  - apply in_map_iff in He as (c & <- & _). exact Logic.I.
  - destruct (payload_event_shape S x e (in_or_app _ _ _ (or_intror He))) as (o & op & -> & _). exact Logic.I.
Qed.
Lemma arel_fold_events l : (forall e, In e l -> listed names e) -> forall s : hst W, arel names s (fold_left add_ev l s).
Proof.
  induction l as [|e l IH]; intros H s; cbn; [apply arel_refl|].
  eapply arel_trans; [apply (arel_add names s e), H; now left|apply IH]. intros e' He'. apply H. now right.
Qed.
(* a request for a handler whose body is guarded adds by-name accesses of listed names only -- whatever the arguments are *)
Theorem guarded_request_listed seq raw (s s' : hst W) o :
  (forall h pkg d, Vinegar.unpack 2 raw = Ok [h; pkg] -> find_handler HT DT h = Some d -> hdef_guarded d) ->
  dispatch_request S C HT DT UL BL seq raw s = (s', o) -> arel names s s'.
Proof.
  intros Hd E. unfold dispatch_request in E.
  match type of E with context [?m s] => match m with mbind _ _ => set (mm := m) in * end end.
  assert (Hm : aspec names mm).
  { subst mm. destruct (Vinegar.unpack 2 raw) as [ha| | |] eqn:U; cbn [lift].
    - apply a_bind_ret. destruct ha as [|h [|pkg [|? ?]]]; try apply a_raise.
      apply a_bind; [apply a_unbox|intros]. apply a_call_handler. intros d Hf. exact (Hd h pkg d eq_refl Hf).
    - intros s0 s1 r1 E1. injection E1 as <- <-. apply arel_refl.
    - intros s0 s1 r1 E1. injection E1 as <- <-. apply arel_refl.
    - intros s0 s1 r1 E1. injection E1 as <- <-. apply arel_refl. }
  destruct (mm s) as [s1 r1] eqn:Em. pose proof (Hm _ _ _ Em) as Q1.
  destruct r1 as [v|x|].
  - destruct (closed s1); [now injection E as <- <-|].
    destruct (box S BL FUEL v s1) as [s2 r2] eqn:Eb. pose proof (a_box S BL names _ _ _ _ _ Eb) as Q2.
    destruct r2; injection E as <- <-; eapply arel_trans; eauto.
  - destruct (closed s1); [now injection E as <- <-|].
    destruct (propagates C x); injection E as <- <-; [eapply arel_trans; [exact Q1|apply arel_end_conn]|].
    eapply arel_trans; [exact Q1|]. apply arel_fold_events. intros e He.
    exact (payload_listed x (ctxs s1) e He).
  - now injection E as <- <-.
Qed.
End GuardMsg.
