(* Proofs about model/Vinegar.v: class/argument/attribute fidelity of built-in exceptions, the gating of
   custom classes, safety of the loader on arbitrary payloads, the StopIteration fast path, disclosure. *)
From V Require Import lib.Base lib.Sx model.Brine model.Vinegar proofs.BrineP.
From Coq Require Import String.
Open Scope N_scope.

(* ---- text ---- *)
Lemma text_eqb_refl a : text_eqb a a = true.
Proof. induction a as [|x a IH]; cbn; [reflexivity|]. now rewrite N.eqb_refl, IH. Qed.
Lemma text_eqb_eq a : forall b, text_eqb a b = true <-> a = b.
Proof.
  induction a as [|x a IH]; intros [|y b]; cbn; split; try easy.
  - intros H. apply andb_true_iff in H as [H1 H2]. apply N.eqb_eq in H1. apply IH in H2. congruence.
  - intros [= -> ->]. now rewrite N.eqb_refl, text_eqb_refl.
Qed.
Lemma text_eqb_neq a b : text_eqb a b = false <-> a <> b.
Proof.
  split.
  - intros H E. apply text_eqb_eq in E. congruence.
  - intros H. destruct (text_eqb a b) eqn:E; [|reflexivity]. apply text_eqb_eq in E. contradiction.
Qed.

(* ---- specification-level views of the sender loop ---- *)
Definition public_attrs (skipc : bool) (d : list (text * option obj)) : list (text * pyval) :=
  flat_map (fun nv => if text_eqb (fst nv) ARGS then [] else if skipped (fst nv) then []
                      else match snd nv with
                           | Some o => if skipc && o_callable o then [] else [(fst nv, norm o)]
                           | None => []
                           end) d.
Definition args_entries (d : list (text * option obj)) : nat :=
  List.length (filter (fun nv => text_eqb (fst nv) ARGS) d).

Lemma walk_dir_snd k args d : snd (walk_dir k args d) = public_attrs k d.
Proof.
  induction d as [|[n ov] d IH]; [reflexivity|]. cbn [walk_dir public_attrs flat_map fst snd].
  destruct (walk_dir k args d) as [a t]. cbn [snd] in IH. subst t.
  destruct (text_eqb n ARGS); [reflexivity|]. destruct (skipped n); [reflexivity|]. destruct ov as [o|]; [|reflexivity].
  destruct (k && o_callable o); reflexivity.
Qed.
Lemma walk_dir_fst k args d :
  fst (walk_dir k args d) = flat_map (fun _ => map norm args) (filter (fun nv => text_eqb (fst nv) ARGS) d).
Proof.
  induction d as [|[n ov] d IH]; [reflexivity|]. cbn [walk_dir filter fst].
  destruct (walk_dir k args d) as [a t]. cbn [fst] in IH. subst a.
  destruct (text_eqb n ARGS); [reflexivity|]. destruct (skipped n); [reflexivity|]. destruct ov as [o|]; [|reflexivity].
  destruct (k && o_callable o); reflexivity.
Qed.
Lemma walk_dir_once k args d : args_entries d = 1%nat -> walk_dir k args d = (map norm args, public_attrs k d).
Proof.
  intros H. rewrite (surjective_pairing (walk_dir k args d)), walk_dir_snd, walk_dir_fst. f_equal.
  unfold args_entries in H. destruct (filter _ d) as [|x [|y l]]; try discriminate. cbn. apply app_nil_r.
Qed.

(* the names that reach the wire never start with an underscore and are never "args"/ignored *)
Lemma public_attrs_names k d : Forall (fun na => skipped (fst na) = false /\ text_eqb (fst na) ARGS = false) (public_attrs k d).
Proof.
  induction d as [|[n ov] d IH]; [constructor|]. cbn [public_attrs flat_map fst snd].
  destruct (text_eqb n ARGS) eqn:EA; [exact IH|]. destruct (skipped n) eqn:ES; [exact IH|].
  destruct ov as [o|]; [|exact IH]. destruct (k && o_callable o); [exact IH|]. constructor; [now split|exact IH].
Qed.

(* on a tree whose dump leaves callables out, every pair that reaches the wire comes from a NON-callable attribute: no method of
   the rebuilt object is shadowed by a text; on a tree that sends them, a method's repr travels as a data attribute *)
Lemma public_attrs_not_callable d na : In na (public_attrs true d) ->
  exists o, In (fst na, Some o) d /\ o_callable o = false /\ snd na = norm o.
Proof.
  induction d as [|[n ov] d IH]; [contradiction|]. cbn [public_attrs flat_map fst snd].
  assert (K : In na (public_attrs true d) -> exists o, In (fst na, Some o) ((n, ov) :: d) /\ o_callable o = false /\ snd na = norm o).
  { intros H. destruct (IH H) as (o & A & B). exists o. split; [now right|exact B]. }
  destruct (text_eqb n ARGS); [exact K|]. destruct (skipped n); [exact K|]. destruct ov as [o|]; [|exact K].
  cbn [andb]. destruct (o_callable o) eqn:EC; [exact K|]. intros H. apply in_app_or in H as [[<-|[]]|H]; [|now apply K].
  exists o. cbn [fst snd]. split; [now left|now split].
Qed.

(* ---- loader pieces on genuine records ---- *)
Definition set_of (na : text * pyval) : pyval * pyval := (PStr (fst na), snd na).

Lemma do_sets_genuine l : do_sets (map attr_pair l) = (map set_of l, Ok tt).
Proof.
  induction l as [|[n v] l IH]; [reflexivity|]. cbn [map do_sets attr_pair fst snd].
  change (unpack 2 (PTuple [PStr n; v])) with (Ok [PStr n; v] : result (list pyval)).
  now rewrite IH.
Qed.

Lemma last_version_app l v :
  last_version (map set_of (l ++ [(REMOTE_VERSION, v)])) = Some v.
Proof.
  unfold last_version. rewrite map_app, fold_left_app. cbn [map fold_left set_of fst snd].
  now rewrite text_eqb_refl.
Qed.

Definition version_warn (fS : sflags) (E : env) (ver : text) : bool :=
  incl_ver fS && negb (text_eqb ver DENIED_VER) && negb (text_eqb (major_of ver) (local_major E)).

Lemma status_genuine fS E ver tb l :
  status_of E (map set_of (l ++ [version_attr fS ver])) (tb_field fS tb) = Done (tb_field fS tb) (version_warn fS E ver).
Proof.
  unfold status_of, version_attr. rewrite last_version_app. unfold version_warn, tb_field.
  destruct (incl_ver fS); cbn [andb negb].
  - destruct (text_eqb ver DENIED_VER); [reflexivity|]. cbn [negb andb]. destruct (text_eqb (major_of ver) (local_major E)); reflexivity.
  - now rewrite text_eqb_refl.
Qed.

Lemma builtins_in_modules E mods : in_modules E mods (PStr BUILTINS) = true.
Proof. reflexivity. Qed.

(* the ladder finds a class of the builtins module under every setting of the receiver switches *)
Lemma find_module_builtins E mods : find_module E mods BUILTINS = Some (builtins_ns E).
Proof. reflexivity. Qed.
Lemma resolve_builtin M fR E mods n c ok : assoc n (builtins_ns E) = Some (AExc c ok) ->
  run_prog M fR E mods (PStr BUILTINS) (PStr n) resolution_prog = Ok (Some (AExc c ok)).
Proof.
  intros H. unfold resolution_prog. cbn [run_prog eval_cond]. rewrite builtins_in_modules.
  destruct (inst_custom fR); cbn [run_prog eval_src getattr_ns]; rewrite ?find_module_builtins, H; reflexivity.
Qed.

Lemma import_guard_builtins fR E : eval_cond fR E (modules E) (PStr BUILTINS) import_guard = false.
Proof. unfold import_guard. cbn [eval_cond]. rewrite builtins_in_modules. apply andb_false_r. Qed.

(* shape of a genuine record *)
Definition record (m n : text) (args : list pyval) (attrs : list (text * pyval)) (tb : pyval) : pyval :=
  PTuple [PTuple [PStr m; PStr n]; PTuple args; PTuple (map attr_pair attrs); tb].

Lemma vdump_slow P fS ver tb e : fast_taken P e = false -> args_entries (e_dir e) = 1%nat ->
  vdump P fS ver tb e =
  record (fst (cls_key (e_cls e))) (snd (cls_key (e_cls e))) (map norm (e_args e))
         (public_attrs (skip_callables P) (e_dir e) ++ [version_attr fS ver]) (tb_field fS tb).
Proof.
  intros HF HA. unfold vdump. rewrite HF, (walk_dir_once _ _ _ HA). destruct (cls_key (e_cls e)); reflexivity.
Qed.

Lemma build_genuine E eff rc args l fS ver tb :
  build E eff rc true (PTuple args) (PTuple (map attr_pair (l ++ [version_attr fS ver]))) (tb_field fS tb) =
  (eff ++ [ENew rc], Ok (LExc rc (PTuple args) (map set_of (l ++ [version_attr fS ver]))
                               (Done (tb_field fS tb) (version_warn fS E ver)))).
Proof.
  unfold build. cbn [negb iter_elems]. rewrite do_sets_genuine. now rewrite status_genuine.
Qed.

(* 1. slow path: same built-in class, normalised args, public attributes + version, traceback field *)
Theorem builtin_fidelity_slow M P fS fR E ver tb e n :
  e_cls e = Builtin n -> args_entries (e_dir e) = 1%nat ->
  assoc n (builtins_ns E) = Some (AExc (Builtin n) true) ->
  fast_taken P e = false ->
  vload M fR E (vdump P fS ver tb e) =
    ([ENew (Real (Builtin n))],
     Ok (LExc (Real (Builtin n)) (PTuple (map norm (e_args e)))
              (map set_of (public_attrs (skip_callables P) (e_dir e) ++ [version_attr fS ver]))
              (Done (tb_field fS tb) (version_warn fS E ver)))).
Proof.
  intros HC HA HB HF. rewrite (vdump_slow _ _ _ _ _ HF HA), HC. cbn [cls_key fst snd]. unfold record, vload.
  cbn [py_eq_one]. change (unpack 4 (PTuple ?l)) with (Ok l : result (list pyval)) at 1. cbv beta iota.
  change (unpack 2 (PTuple [PStr BUILTINS; PStr n])) with (Ok [PStr BUILTINS; PStr n] : result (list pyval)). cbv beta iota.
  rewrite import_guard_builtins. cbv beta iota zeta. rewrite (resolve_builtin M fR E _ n _ _ HB).
  now rewrite build_genuine.
Qed.

(* what arrives, abstracted to (class, args) *)
Definition arrived (r : list effect * result lres) : option (clsid * pyval) :=
  match snd r with
  | Ok LStop => Some (Builtin STOP_ITERATION, PTuple [])
  | Ok (LExc (Real c) a _ (Done _ _)) => Some (c, a)
  | _ => None
  end.

Lemma fast_taken_inv P e : fast_taken P e = true ->
  e_cls e = Builtin STOP_ITERATION /\ (fast_noargs_only P = true -> e_args e = []).
Proof.
  unfold fast_taken, is_builtin_named, no_args. intros H. apply andb_true_iff in H as [H1 H2].
  destruct (e_cls e) as [n|m n]; [|discriminate]. apply text_eqb_eq in H1. subst n. split; [reflexivity|].
  intros HP. rewrite HP in H2. cbn in H2. now destruct (e_args e).
Qed.

Lemma vload_one M fR E : vload M fR E (PInt EXC_STOP) = ([], Ok LStop).
Proof. reflexivity. Qed.

(* 1'. on a tree whose fast path is guarded by "no args": class and args of every built-in arrive intact *)
Theorem builtin_class_args_preserved M P fS fR E ver tb e n :
  fast_noargs_only P = true ->
  e_cls e = Builtin n -> args_entries (e_dir e) = 1%nat ->
  assoc n (builtins_ns E) = Some (AExc (Builtin n) true) ->
  arrived (vload M fR E (vdump P fS ver tb e)) = Some (Builtin n, PTuple (map norm (e_args e))).
Proof.
  intros HP HC HA HB. destruct (fast_taken P e) eqn:HF.
  - destruct (fast_taken_inv _ _ HF) as [HS HN]. specialize (HN HP). unfold vdump. rewrite HF, vload_one.
    rewrite HC in HS. injection HS as ->. now rewrite HN.
  - now rewrite (builtin_fidelity_slow M P fS fR E ver tb e n HC HA HB HF).
Qed.

(* 1''. on a tree whose fast path is unconditional the arguments of StopIteration are lost (finding F9) *)
Definition stop_x : exc :=
  {| e_cls := Builtin STOP_ITERATION;
     e_args := [{| o_val := PStr (txt "x"); o_repr := txt "'x'"; o_callable := false |}];
     e_dir := [(ARGS, None); (txt "value", Some {| o_val := PStr (txt "x"); o_repr := txt "'x'"; o_callable := false |})] |}.
Theorem builtin_fidelity_refuted M P fS fR E ver tb : fast_noargs_only P = false ->
  args_entries (e_dir stop_x) = 1%nat /\ routed fS (e_cls stop_x) = false /\
  map norm (e_args stop_x) = [PStr (txt "x")] /\
  arrived (vload M fR E (vdump P fS ver tb stop_x)) = Some (Builtin STOP_ITERATION, PTuple []).
Proof.
  intros HP. repeat split.
  unfold vdump, fast_taken. rewrite HP. cbn [stop_x e_cls is_builtin_named]. rewrite text_eqb_refl. cbn [andb negb orb].
  now rewrite vload_one.
Qed.

(* ---- 2. custom classes ---- *)
Definition present (fR : rflags) (E : env) (m : text) : option ns :=
  match assoc m (modules E) with
  | Some x => Some x
  | None => if import_custom fR then assoc m (importable E) else None
  end.
(* what reading a module attribute yields: the imports a module-level __getattr__ hook performs (only when [hooks]: the
   lookup consults it) and the exception class found, if any *)
Definition settle (hooks : bool) (k : option attr_kind) : list text * option (clsid * bool) :=
  match k with
  | Some (AExc c ok) => ([], Some (c, ok))
  | Some (ALazy imps found) => if hooks then (imps, found) else ([], None)
  | _ => ([], None)
  end.
Definition lookup_custom (M : lookup_mode) (fR : rflags) (E : env) (m n : text) : list text * option (clsid * bool) :=
  if inst_custom fR then
    match present fR E m with
    | Some x => settle (hooks_run M fR) (assoc n x)
    | None => ([], None)
    end
  else ([], None).
Definition expected_class (M : lookup_mode) (fR : rflags) (E : env) (m n : text) : rcls * bool :=
  match snd (lookup_custom M fR E m n) with
  | Some (c, ok) => (Real c, ok)
  | None => (Generic (PStr m) (PStr n), true)
  end.
Definition guard_import (fR : rflags) (E : env) (m : text) : list effect :=
  if import_custom fR then match assoc m (modules E) with None => [EImport m] | Some _ => [] end else [].
Definition import_effects (M : lookup_mode) (fR : rflags) (E : env) (m n : text) : list effect :=
  guard_import fR E m ++ map EImport (fst (lookup_custom M fR E m n)).

Lemma find_module_custom E mods m : text_eqb m BUILTINS = false -> find_module E mods m = assoc m mods.
Proof. intros H. unfold find_module. now rewrite H. Qed.

Lemma settle_visible h k : settle true (visible h k) = settle h k.
Proof. destruct k as [[c ok| |imps f]|]; try reflexivity. cbn. destruct h; reflexivity. Qed.

Lemma custom_resolution M fR E m n : text_eqb m BUILTINS = false ->
  let imp := eval_cond fR E (modules E) (PStr m) import_guard in
  (if imp then [EImport m] else []) = guard_import fR E m /\
  match run_prog M fR E (if imp then after_import E (PStr m) else modules E) (PStr m) (PStr n) resolution_prog with
  | Ok k => lookup_custom M fR E m n = settle true k
  | _ => False
  end.
Proof.
  intros HM. cbv zeta. unfold import_guard, guard_import, lookup_custom, present, resolution_prog.
  cbn [eval_cond run_prog in_modules eval_src getattr_ns after_import]. rewrite !(find_module_custom _ _ _ HM), HM.
  destruct (import_custom fR) eqn:EIC, (inst_custom fR); cbn [andb negb].
  - destruct (assoc m (modules E)) as [x|] eqn:EM; cbn [negb].
    + split; [reflexivity|]. rewrite EM. now rewrite settle_visible.
    + split; [reflexivity|]. destruct (assoc m (importable E)) as [y|] eqn:EI.
      * cbn [assoc]. rewrite text_eqb_refl. now rewrite settle_visible.
      * rewrite EM. reflexivity.
  - destruct (assoc m (modules E)); cbn [negb]; split; reflexivity.
  - split; [reflexivity|].
    destruct (assoc m (modules E)) as [x|]; [|reflexivity]. now rewrite settle_visible.
  - split; reflexivity.
Qed.

Definition name_ok (m n : text) : Prop := generic_name_check (PStr m) (PStr n) = Ok tt.

(* a genuine record of a class outside builtins: real class exactly when the receiver's switches and its
   modules allow it, a generic stand-in named "m.n" otherwise; the effects are the guarded import, then whatever
   a module-level __getattr__ hook imports when the lookup consults it, then one __new__ *)
Theorem custom_gating M fR E m n args l fS ver tb :
  text_eqb m BUILTINS = false -> name_ok m n -> snd (expected_class M fR E m n) = true ->
  vload M fR E (record m n args (l ++ [version_attr fS ver]) (tb_field fS tb)) =
    (import_effects M fR E m n ++ [ENew (fst (expected_class M fR E m n))],
     Ok (LExc (fst (expected_class M fR E m n)) (PTuple args) (map set_of (l ++ [version_attr fS ver]))
              (Done (tb_field fS tb) (version_warn fS E ver)))).
Proof.
  intros HM HN HK. unfold record, vload. cbn [py_eq_one].
  change (unpack 4 (PTuple ?l)) with (Ok l : result (list pyval)) at 1. cbv beta iota.
  change (unpack 2 (PTuple [PStr m; PStr n])) with (Ok [PStr m; PStr n] : result (list pyval)). cbv beta iota.
  pose proof (custom_resolution M fR E m n HM) as HR. cbv zeta in HR. destruct HR as [HI HR]. cbv zeta. rewrite HI.
  unfold import_effects, expected_class in *. unfold generic_or_fail.
  destruct (run_prog _ _ _ _ _ _ _) as [[[c ok| |imps [[c ok]|]]|]| | |]; try contradiction; rewrite HR in *; cbn [settle fst snd map] in *;
    rewrite ?app_nil_r.
  - subst ok. apply build_genuine.
  - rewrite HN. apply build_genuine.
  - subst ok. apply build_genuine.
  - rewrite HN. apply build_genuine.
  - rewrite HN. apply build_genuine.
Qed.

Theorem custom_real_iff M fR E m n c : text_eqb m BUILTINS = false ->
  fst (expected_class M fR E m n) = Real c <->
  inst_custom fR = true /\
  exists x, (assoc m (modules E) = Some x \/ (assoc m (modules E) = None /\ import_custom fR = true /\ assoc m (importable E) = Some x))
            /\ exists ok, assoc n x = Some (AExc c ok) \/
                          (hooks_run M fR = true /\ exists imps, assoc n x = Some (ALazy imps (Some (c, ok)))).
Proof.
  intros HM. unfold expected_class, lookup_custom, present. split.
  - destruct (inst_custom fR); [|discriminate]. intros H. split; [reflexivity|].
    assert (HS : forall x, fst match snd (settle (hooks_run M fR) (assoc n x)) with
                               | Some (c0, ok) => (Real c0, ok) | None => (Generic (PStr m) (PStr n), true) end = Real c ->
                 exists ok, assoc n x = Some (AExc c ok) \/ (hooks_run M fR = true /\ exists imps, assoc n x = Some (ALazy imps (Some (c, ok))))).
    { intros x. destruct (assoc n x) as [[c' ok| |imps [[c' ok]|]]|]; cbn [settle snd fst]; try discriminate.
      - intros [= ->]. exists ok. now left.
      - destruct (hooks_run M fR); cbn [snd fst]; [|discriminate]. intros [= ->]. exists ok. right. split; [reflexivity|]. now exists imps.
      - destruct (hooks_run M fR); discriminate. }
    destruct (assoc m (modules E)) as [x|] eqn:EM.
    + exists x. split; [now left|]. now apply HS.
    + destruct (import_custom fR); [|discriminate]. destruct (assoc m (importable E)) as [y|] eqn:EI; [|discriminate].
      exists y. split; [right; auto|]. now apply HS.
  - intros (HI & x & HX & ok & HA). rewrite HI.
    assert (HP : match assoc m (modules E) with Some x0 => Some x0 | None => if import_custom fR then assoc m (importable E) else None end = Some x).
    { destruct HX as [HX|(HX & HC & HY)]; rewrite HX; [reflexivity|]. now rewrite HC. }
    rewrite HP. destruct HA as [HA|(HH & imps & HA)]; rewrite HA; cbn [settle]; [reflexivity|]. now rewrite HH.
Qed.

(* ---- 3. safety for every payload ---- *)
Lemma build_effects E eff rc ok a t b : exists r, build E eff rc ok a t b = (eff ++ [ENew rc], r).
Proof.
  unfold build. destruct (negb ok); [eexists; reflexivity|].
  destruct (iter_elems true t) as [items| | |]; try (eexists; reflexivity).
  destruct (do_sets items) as [s [u|x| |]]; eexists; reflexivity.
Qed.
Lemma generic_effects E eff m n a t b :
  fst (generic_or_fail E eff m n a t b) = eff \/ fst (generic_or_fail E eff m n a t b) = eff ++ [ENew (Generic m n)].
Proof.
  unfold generic_or_fail. destruct (generic_name_check m n); try (now left).
  right. destruct (build_effects E eff (Generic m n) true a t b) as [r ->]. reflexivity.
Qed.

Definition import_part (fR : rflags) (E : env) (modname : pyval) : list effect :=
  if eval_cond fR E (modules E) modname import_guard then match modname with PStr m => [EImport m] | _ => [] end else [].

(* where a class / a hook result of the ladder can come from *)
Lemma run_prog_lazy M fR E mods modname clsname imps f :
  run_prog M fR E mods modname clsname resolution_prog = Ok (Some (ALazy imps f)) ->
  hooks_run M fR = true /\ inst_custom fR = true.
Proof.
  unfold resolution_prog. cbn [run_prog eval_cond]. destruct (inst_custom fR).
  - destruct (in_modules E mods modname); [|discriminate]. cbn [run_prog eval_src getattr_ns].
    destruct (hooks_run M fR); [auto|]. destruct clsname; cbn [getattr_ns]; try discriminate.
    destruct (match modname with PStr m => find_module E mods m | _ => None end) as [x|]; [|discriminate].
    destruct (assoc cps x) as [[| |]|]; cbn [visible]; discriminate.
  - destruct (match modname with PStr m => text_eqb m BUILTINS | _ => false end); [|discriminate].
    cbn [run_prog eval_src getattr_ns]. destruct clsname; cbn [getattr_ns]; try discriminate.
    destruct (assoc cps (builtins_ns E)) as [[| |]|]; cbn [visible]; discriminate.
Qed.
Lemma run_prog_noinst M fR E mods modname clsname c ok : inst_custom fR = false ->
  run_prog M fR E mods modname clsname resolution_prog = Ok (Some (AExc c ok)) ->
  exists n, assoc n (builtins_ns E) = Some (AExc c ok).
Proof.
  intros HI. unfold resolution_prog. cbn [run_prog eval_cond]. rewrite HI.
  destruct (match modname with PStr m => text_eqb m BUILTINS | _ => false end); [|discriminate].
  cbn [run_prog eval_src getattr_ns]. destruct clsname; cbn [getattr_ns]; try discriminate.
  destruct (assoc cps (builtins_ns E)) as [[c' ok'| |]|] eqn:EA; cbn [visible]; try discriminate. intros [= -> ->]. now exists cps.
Qed.

(* every effect list of the loader: nothing, or the guarded import, then the imports of a consulted module hook, then at
   most one __new__ of either a class the ladder (or the hook) produced or a generic stand-in *)
Inductive tail_ok (M : lookup_mode) (fR : rflags) (E : env) (modname clsname : pyval) (hook : list text) : list effect -> Prop :=
| TNone : tail_ok M fR E modname clsname hook []
| TGeneric : tail_ok M fR E modname clsname hook [ENew (Generic modname clsname)]
| TReal c ok mods : hook = [] -> run_prog M fR E mods modname clsname resolution_prog = Ok (Some (AExc c ok)) ->
    tail_ok M fR E modname clsname hook [ENew (Real c)]
| THook c : hooks_run M fR = true -> inst_custom fR = true -> tail_ok M fR E modname clsname hook [ENew (Real c)].

Lemma vload_effects M fR E v :
  fst (vload M fR E v) = [] \/
  exists modname clsname hook tail,
    fst (vload M fR E v) = import_part fR E modname ++ map EImport hook ++ tail /\
    (hook = [] \/ (hooks_run M fR = true /\ inst_custom fR = true)) /\
    tail_ok M fR E modname clsname hook tail.
Proof.
  unfold vload. destruct (py_eq_one v); [now left|].
  destruct v; try (now left);
  (destruct (unpack 4 _) as [[|key [|args [|attrs [|tb [|? ?]]]]]| | |]; try (now left);
   destruct (unpack 2 key) as [[|modname [|clsname [|? ?]]]| | |]; try (now left);
   right; exists modname, clsname; cbv zeta; fold (import_part fR E modname);
   destruct (run_prog _ _ _ _ _ _ _) as [[[c ok| |imps [[c ok]|]]|]| | |] eqn:ER;
   [ exists [], [ENew (Real c)]; destruct (build_effects E (import_part fR E modname) (Real c) ok args attrs tb) as [r ->];
     split; [reflexivity|split; [now left|eapply TReal; [reflexivity|exact ER]]]
   | destruct (generic_effects E (import_part fR E modname) modname clsname args attrs tb) as [-> | ->];
     [exists [], []|exists [], [ENew (Generic modname clsname)]]; (split; [now rewrite ?app_nil_r|split; [now left|constructor]])
   | destruct (run_prog_lazy _ _ _ _ _ _ _ _ ER) as [HH HI];
     exists imps, [ENew (Real c)]; destruct (build_effects E (import_part fR E modname ++ map EImport imps) (Real c) ok args attrs tb) as [r ->];
     split; [cbn [fst]; now rewrite <- !app_assoc|split; [now right|now apply THook]]
   | destruct (run_prog_lazy _ _ _ _ _ _ _ _ ER) as [HH HI];
     destruct (generic_effects E (import_part fR E modname ++ map EImport imps) modname clsname args attrs tb) as [-> | ->];
     [exists imps, []|exists imps, [ENew (Generic modname clsname)]];
     (split; [now rewrite <- ?app_assoc, ?app_nil_r|split; [now right|constructor]])
   | destruct (generic_effects E (import_part fR E modname) modname clsname args attrs tb) as [-> | ->];
     [exists [], []|exists [], [ENew (Generic modname clsname)]]; (split; [now rewrite ?app_nil_r|split; [now left|constructor]])
   | exists [], []; split; [now rewrite app_nil_r|split; [now left|constructor]]
   | exists [], []; split; [now rewrite app_nil_r|split; [now left|constructor]]
   | exists [], []; split; [now rewrite app_nil_r|split; [now left|constructor]] ]).
Qed.

Lemma import_part_off fR E modname : import_custom fR = false -> import_part fR E modname = [].
Proof. intros H. unfold import_part, import_guard. cbn [eval_cond]. now rewrite H. Qed.

Lemma import_part_shape fR E modname x : In x (import_part fR E modname) ->
  exists m, x = EImport m /\ modname = PStr m /\ import_custom fR = true /\ in_modules E (modules E) modname = false.
Proof.
  unfold import_part, import_guard. cbn [eval_cond]. destruct (import_custom fR); [|contradiction]. cbn [andb].
  destruct (in_modules E (modules E) modname) eqn:EI; [contradiction|]. cbn [negb].
  destruct modname; try contradiction. intros [<-|[]]. eexists; repeat split.
Qed.

Lemma tail_no_import M fR E modname clsname hook tail x : tail_ok M fR E modname clsname hook tail -> In x tail ->
  exists rc, x = ENew rc.
Proof. intros H. destruct H; intros HI; try contradiction; destruct HI as [<-|[]]; eexists; reflexivity. Qed.

(* an import happens only through the guarded __import__ (import_custom on, module not loaded) or inside a module hook the
   sys.modules lookup consulted (which needs instantiate_custom) *)
Theorem import_only_two_ways M fR E v m : In (EImport m) (fst (vload M fR E v)) ->
  (import_custom fR = true /\ in_modules E (modules E) (PStr m) = false) \/ (hooks_run M fR = true /\ inst_custom fR = true).
Proof.
  destruct (vload_effects M fR E v) as [->|(modname & clsname & hook & tail & -> & HH & HT)]; [contradiction|].
  intros HI. apply in_app_or in HI as [HI|HI].
  - left. apply import_part_shape in HI as (m' & [= <-] & -> & A & B). now split.
  - apply in_app_or in HI as [HI|HI].
    + destruct HH as [->|HH]; [contradiction|now right].
    + destruct (tail_no_import _ _ _ _ _ _ _ _ HT HI) as [rc Hrc]. discriminate.
Qed.

(* the generated guard: the lookup consults module hooks only when importing is allowed *)
Definition mode_safe (M : lookup_mode) : bool := match M with LkGetattr => false | _ => true end.
Lemma mode_safe_hooks M fR : mode_safe M = true -> hooks_run M fR = true -> import_custom fR = true.
Proof. destruct M; cbn; try discriminate; auto. Qed.

Theorem no_import_unless_allowed M fR E v m : mode_safe M = true -> In (EImport m) (fst (vload M fR E v)) ->
  import_custom fR = true.
Proof.
  intros HM HI. apply import_only_two_ways in HI as [[H _]|[H _]]; [exact H|]. exact (mode_safe_hooks M fR HM H).
Qed.

(* on a tree that reads the class with getattr(module, name, None): a payload naming an attribute that a loaded module
   serves through __getattr__ makes the receiver import although import_custom is off *)
Definition hook_env : env :=
  {| builtins_ns := []; modules := [(txt "lazymod", [(txt "Thing", ALazy [txt "heavy.dependency"] None)])];
     importable := []; local_major := txt "5" |}.
Definition hook_payload : pyval :=
  PTuple [PTuple [PStr (txt "lazymod"); PStr (txt "Thing")]; PTuple []; PTuple []; PStr (txt "tb")].
Theorem no_import_refuted : exists fR E v m,
  import_custom fR = false /\ inst_custom fR = true /\ In (EImport m) (fst (vload LkGetattr fR E v)) /\
  ~ In (EImport m) (fst (vload LkDictUnlessImport fR E v)).
Proof.
  exists {| import_custom := false; inst_custom := true; inst_oldstyle := false |}, hook_env, hook_payload, (txt "heavy.dependency").
  split; [reflexivity|]. split; [reflexivity|]. split; vm_compute; [now left|]. intros [H|[]]. discriminate.
Qed.

Theorem never_init M fR E v c : ~ In (EInit c) (fst (vload M fR E v)).
Proof.
  destruct (vload_effects M fR E v) as [->|(modname & clsname & hook & tail & -> & HH & HT)]; [easy|].
  intros HI. apply in_app_or in HI as [HI|HI].
  - apply import_part_shape in HI as (m' & HI & _). discriminate.
  - apply in_app_or in HI as [HI|HI].
    + apply in_map_iff in HI as (? & ? & _). discriminate.
    + destruct (tail_no_import _ _ _ _ _ _ _ _ HT HI) as [rc Hrc]. discriminate.
Qed.

(* with instantiate_custom off the only real classes ever instantiated come from the builtins namespace *)
Theorem new_only_builtin M fR E v c : inst_custom fR = false -> In (ENew (Real c)) (fst (vload M fR E v)) ->
  exists n ok, assoc n (builtins_ns E) = Some (AExc c ok).
Proof.
  intros HI. destruct (vload_effects M fR E v) as [->|(modname & clsname & hook & tail & -> & HH & HT)]; [contradiction|].
  intros HN. apply in_app_or in HN as [HN|HN].
  { apply import_part_shape in HN as (m' & HN & _). discriminate. }
  apply in_app_or in HN as [HN|HN].
  { apply in_map_iff in HN as (? & ? & _). discriminate. }
  destruct HT as [| |c' ok mods Hh HR|c' Hhooks Hinst]; try contradiction.
  - destruct HN as [HN|[]]. discriminate.
  - destruct HN as [[= ->]|[]]. destruct (run_prog_noinst _ _ _ _ _ _ _ _ HI HR) as [n Hn]. now exists n, ok.
  - rewrite HI in Hinst. discriminate.
Qed.

(* at most one object is ever created *)
Theorem at_most_one_new M fR E v :
  (List.length (filter (fun x => match x with ENew _ => true | _ => false end) (fst (vload M fR E v))) <= 1)%nat.
Proof.
  assert (HP : forall modname, filter (fun x => match x with ENew _ => true | _ => false end) (import_part fR E modname) = []).
  { intros modname. unfold import_part. destruct (eval_cond _ _ _ _ _); [|reflexivity]. destruct modname; reflexivity. }
  assert (HQ : forall l, filter (fun x => match x with ENew _ => true | _ => false end) (map EImport l) = []).
  { induction l; [reflexivity|exact IHl]. }
  destruct (vload_effects M fR E v) as [->|(modname & clsname & hook & tail & -> & HH & HT)]; [cbn; lia|].
  rewrite !filter_app, HP, HQ. destruct HT; cbn; lia.
Qed.

(* ---- 4. the StopIteration fast path, both directions ---- *)
Theorem fastpath_dump P fS ver tb e : vdump P fS ver tb e = PInt EXC_STOP <-> fast_taken P e = true.
Proof.
  unfold vdump. destruct (fast_taken P e); [easy|]. split; [|discriminate].
  destruct (walk_dir _ _ _), (cls_key _). discriminate.
Qed.

Lemma build_not_stop E eff rc ok a t b : snd (build E eff rc ok a t b) <> Ok LStop.
Proof.
  unfold build. destruct (negb ok); [discriminate|].
  destruct (iter_elems true t) as [items| | |]; try discriminate.
  destruct (do_sets items) as [s [u|x| |]]; discriminate.
Qed.

Lemma generic_not_stop E eff m n a t b : snd (generic_or_fail E eff m n a t b) <> Ok LStop.
Proof. unfold generic_or_fail. destruct (generic_name_check m n); try discriminate. apply build_not_stop. Qed.

Theorem fastpath_load M fR E v : snd (vload M fR E v) = Ok LStop <-> py_eq_one v = true.
Proof.
  unfold vload. destruct (py_eq_one v); [easy|]. split; [|discriminate]. intros H. exfalso. revert H.
  destruct v; try discriminate;
  (destruct (unpack 4 _) as [[|key [|args [|attrs [|tb [|? ?]]]]]| | |]; try discriminate;
   destruct (unpack 2 key) as [[|modname [|clsname [|? ?]]]| | |]; try discriminate; cbv zeta;
   destruct (run_prog _ _ _ _ _ _ _) as [[[c ok| |imps [[c ok]|]]|]| | |]; try discriminate;
   first [apply build_not_stop|apply generic_not_stop]).
Qed.

Theorem fastpath_roundtrip M P fS fR E ver tb e : fast_taken P e = true ->
  vload M fR E (vdump P fS ver tb e) = ([], Ok LStop).
Proof. intros H. unfold vdump. now rewrite H. Qed.

(* ---- 4'. a failure of the loader is one of three kinds, never EOFError; so with the delivering dispatch every exception
   message reaches the request it answers ---- *)
Lemma iter_elems_raise b v e : iter_elems b v = Raise e -> e = TypeError.
Proof. destruct v; cbn; try discriminate; try (now intros [= <-]). destruct b; discriminate. Qed.
Lemma unpack_raise n v e : unpack n v = Raise e -> e = TypeError \/ e = ValueError.
Proof.
  unfold unpack. destruct (iter_elems true v) as [es| | |] eqn:EI; cbn [bind]; try discriminate.
  - destruct (Nat.eqb _ _); [discriminate|]. intros [= <-]. now right.
  - intros [= <-]. left. now apply iter_elems_raise in EI.
Qed.
Lemma build_raise E eff rc ok a t b e : snd (build E eff rc ok a t b) = Raise e -> e = TypeError.
Proof.
  unfold build. destruct (negb ok); [now intros [= <-]|].
  destruct (iter_elems true t) as [items| | |]; try discriminate.
  destruct (do_sets items) as [s [u|x| |]]; discriminate.
Qed.
Lemma generic_raise E eff m n a t b e : snd (generic_or_fail E eff m n a t b) = Raise e ->
  e = TypeError \/ e = ValueError \/ e = UnicodeError.
Proof.
  unfold generic_or_fail, generic_name_check.
  destruct (existsb is_surr _); [intros [= <-]; auto|]. destruct (existsb (N.eqb 0) _); [intros [= <-]; auto|].
  intros H. apply build_raise in H. auto.
Qed.
Lemma run_prog_raise M fR E mods modname clsname e :
  run_prog M fR E mods modname clsname resolution_prog = Raise e -> e = TypeError.
Proof.
  unfold resolution_prog. cbn [run_prog]. destruct (eval_cond _ _ _ _ _); destruct (eval_cond _ _ _ _ _); cbn [run_prog eval_src getattr_ns];
    try discriminate; destruct clsname; try discriminate; try (destruct (hooks_run M fR)); try discriminate; now intros [= <-].
Qed.
Theorem vload_raise_kinds M fR E v e : snd (vload M fR E v) = Raise e -> e = TypeError \/ e = ValueError \/ e = UnicodeError.
Proof.
  unfold vload. destruct (py_eq_one v); [discriminate|].
  assert (U : forall n x, unpack n x = Raise e -> e = TypeError \/ e = ValueError \/ e = UnicodeError).
  { intros n x H. apply unpack_raise in H as [->| ->]; auto. }
  destruct v; try discriminate;
  (destruct (unpack 4 _) as [[|key [|args [|attrs [|tb [|? ?]]]]]| | |] eqn:U4; try discriminate; try (intros [= <-]; auto; fail);
   try (intros [= <-]; exact (U _ _ U4));
   destruct (unpack 2 key) as [[|modname [|clsname [|? ?]]]| | |] eqn:U2; try discriminate; try (intros [= <-]; auto; fail);
   try (intros [= <-]; exact (U _ _ U2)); cbv zeta;
   destruct (run_prog _ _ _ _ _ _ _) as [[[c ok| |imps [[c ok]|]]|]| | |] eqn:ER; try discriminate;
   try (intros H; apply build_raise in H; auto; fail); try (apply generic_raise);
   intros [= <-]; left; exact (run_prog_raise _ _ _ _ _ _ _ ER)).
Qed.

(* failures while filling the object in: [Fail] *)
Lemma do_sets_raise items sets e : do_sets items = (sets, Raise e) -> e = TypeError \/ e = ValueError.
Proof.
  revert sets. induction items as [|it rest IH]; intros sets; [discriminate|]. cbn [do_sets].
  destruct (unpack 2 it) as [[|n [|v [|? ?]]]| | |] eqn:U; try discriminate; try (intros [= _ <-]; auto; fail).
  - destruct (do_sets rest) as [s0 r0]. intros [= _ ->]. now apply (IH s0).
  - intros [= _ <-]. now apply unpack_raise in U.
Qed.
Lemma status_fail E sets tb e : status_of E sets tb = Fail e -> e = TypeError \/ e = AttributeError.
Proof.
  unfold status_of. destruct (last_version sets) as [[]|]; try discriminate; try (intros [= <-]; auto; fail).
  destruct (text_eqb _ _); [discriminate|]. destruct (text_eqb _ _); [discriminate|]. destruct tb; try discriminate; intros [= <-]; auto.
Qed.
Lemma build_fail E eff rc ok a t b c x y e : snd (build E eff rc ok a t b) = Ok (LExc c x y (Fail e)) ->
  e = TypeError \/ e = ValueError \/ e = AttributeError.
Proof.
  unfold build. destruct (negb ok); [discriminate|].
  destruct (iter_elems true t) as [items|e0| |] eqn:EI; try discriminate.
  - destruct (do_sets items) as [s0 [u|x0| |]] eqn:ED; try discriminate.
    + intros [= _ _ _ H]. apply status_fail in H as [->| ->]; auto.
    + intros [= _ _ _ <-]. apply do_sets_raise in ED as [->| ->]; auto.
  - intros [= _ _ _ <-]. apply iter_elems_raise in EI as ->. auto.
Qed.
Lemma generic_fail E eff m n a t b c x y e : snd (generic_or_fail E eff m n a t b) = Ok (LExc c x y (Fail e)) ->
  e = TypeError \/ e = ValueError \/ e = AttributeError.
Proof. unfold generic_or_fail. destruct (generic_name_check m n); try discriminate. apply build_fail. Qed.

Theorem vload_failure_kinds M fR E v e : load_failure (snd (vload M fR E v)) = Some e ->
  e = TypeError \/ e = ValueError \/ e = UnicodeError \/ e = AttributeError.
Proof.
  unfold load_failure. destruct (snd (vload M fR E v)) as [[| |c x y [tb w|e0]]|e0| |] eqn:EV; try discriminate; intros [= <-].
  - assert (K : e0 = TypeError \/ e0 = ValueError \/ e0 = AttributeError); [|destruct K as [->|[->| ->]]; auto].
    revert EV. unfold vload. destruct (py_eq_one v); [discriminate|].
    destruct v; try discriminate;
    (destruct (unpack 4 _) as [[|key [|args [|attrs [|tb [|? ?]]]]]| | |]; try discriminate;
     destruct (unpack 2 key) as [[|modname [|clsname [|? ?]]]| | |]; try discriminate; cbv zeta;
     destruct (run_prog _ _ _ _ _ _ _) as [[[c0 ok| |imps [[c0 ok]|]]|]| | |]; try discriminate;
     first [apply build_fail|apply generic_fail]).
  - destruct (vload_raise_kinds _ _ _ _ _ EV) as [->|[->| ->]]; auto.
Qed.

Theorem exception_reaches_request M fR E v : forall e, dispatch_exception true (snd (vload M fR E v)) <> Escapes e.
Proof.
  intros e. unfold dispatch_exception. destruct (load_failure (snd (vload M fR E v))) as [x|] eqn:EL.
  - destruct (vload_failure_kinds _ _ _ _ _ EL) as [->|[->|[->| ->]]]; discriminate.
  - destruct (snd (vload M fR E v)); discriminate.
Qed.
Theorem exception_escapes_refuted M fR E : dispatch_exception false (snd (vload M fR E (PInt 2))) = Escapes TypeError.
Proof. reflexivity. Qed.
(* a failure that arises only after the object exists also escapes the inline dispatch *)
Theorem exception_escapes_refuted_fail M :
  dispatch_exception false (snd (vload M {| import_custom := false; inst_custom := false; inst_oldstyle := false |} hook_env
     (PTuple [PTuple [PStr (txt "nosuchmod"); PStr (txt "Bar")]; PTuple []; PTuple [PTuple [PStr REMOTE_VERSION; PInt 4]]; PStr (txt "tb")])))
  = Escapes AttributeError.
Proof. destruct M; reflexivity. Qed.

(* ---- 5. disclosure: what the sender's two switches deny never reaches the wire ---- *)
Theorem tb_not_disclosed P fS ver tb1 tb2 e : incl_tb fS = false -> vdump P fS ver tb1 e = vdump P fS ver tb2 e.
Proof. intros H. unfold vdump, tb_field. now rewrite H. Qed.
Theorem version_not_disclosed P fS ver1 ver2 tb e : incl_ver fS = false -> vdump P fS ver1 tb e = vdump P fS ver2 tb e.
Proof. intros H. unfold vdump, version_attr. now rewrite H. Qed.

(* ---- 6. the record survives the wire (brine) unchanged ---- *)
Lemma norm_dumpable o : dumpable (norm o) = true.
Proof. unfold norm. destruct (dumpable (o_val o)) eqn:E; [exact E|reflexivity]. Qed.

Lemma public_attrs_dumpable k d : forallb dumpable (map attr_pair (public_attrs k d)) = true.
Proof.
  induction d as [|[n ov] d IH]; [reflexivity|]. cbn [public_attrs flat_map fst snd].
  destruct (text_eqb n ARGS); [exact IH|]. destruct (skipped n); [exact IH|]. destruct ov as [o|]; [|exact IH].
  destruct (k && o_callable o); [exact IH|].
  cbn [app map forallb attr_pair fst snd dumpable]. fold (public_attrs k d). rewrite norm_dumpable. exact IH.
Qed.

Theorem vdump_dumpable P fS ver tb e : dumpable (vdump P fS ver tb e) = true.
Proof.
  unfold vdump. destruct (fast_taken P e); [reflexivity|].
  rewrite (surjective_pairing (walk_dir _ _ _)), walk_dir_snd, walk_dir_fst. destruct (cls_key _) as [m n].
  cbn [dumpable forallb]. rewrite map_app, forallb_app, public_attrs_dumpable. cbn [map forallb attr_pair fst snd version_attr dumpable andb].
  rewrite andb_true_r.
  assert (HA : forallb dumpable (map norm (e_args e)) = true).
  { induction (e_args e) as [|o os IHo]; [reflexivity|]. cbn [map forallb]. rewrite norm_dumpable. exact IHo. }
  assert (H : forallb dumpable (flat_map (fun _ : text * option obj => map norm (e_args e))
                                  (filter (fun nv => text_eqb (fst nv) ARGS) (e_dir e))) = true).
  { induction (filter _ (e_dir e)) as [|x l IH]; [reflexivity|]. cbn [flat_map]. now rewrite forallb_app, IH, HA. }
  rewrite H. unfold tb_field. reflexivity.
Qed.

Theorem wire_roundtrip B P fS ver tb e :
  wf B (vdump P fS ver tb e) = true -> text_ok B (vdump P fS ver tb e) = true ->
  exists bs, Brine.dump B (vdump P fS ver tb e) = Ok bs /\ Brine.load B bs = Ok (vdump P fS ver tb e).
Proof. intros HW HT. exact (load_dump B _ HW (vdump_dumpable P fS ver tb e) HT). Qed.

(* routing *)
Theorem serve_not_routed P fS ver tb e : routed fS (e_cls e) = false -> serve_exc P fS ver tb e = Sent (vdump P fS ver tb e).
Proof. intros H. unfold serve_exc. now rewrite H. Qed.
Theorem routed_only_two fS c : routed fS c = true ->
  (c = Builtin SYSTEM_EXIT /\ prop_sysexit fS = true) \/ (c = Builtin KEYBOARD_INTERRUPT /\ prop_kbdint fS = true).
Proof.
  unfold routed, is_builtin_named. destruct c as [n|m n]; [|discriminate]. intros H. apply orb_true_iff in H as [H|H];
  apply andb_true_iff in H as [H1 H2]; apply text_eqb_eq in H1; subst n; auto.
Qed.
