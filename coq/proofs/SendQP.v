(* Inductive invariants of model/SendQ.v for an unbounded number of threads and messages, any scheduler. *)
From V Require Import lib.Base model.SendQ.
From Coq Require Import Arith Setoid.

Lemma upd_same f i t : upd f i t i = t.
Proof. unfold upd. now rewrite Nat.eqb_refl. Qed.
Lemma upd_other f i j t : j <> i -> upd f i t j = f j.
Proof. unfold upd. intros H. apply Nat.eqb_neq in H. now rewrite H. Qed.

Definition proj (i : nat) (l : list msg) : list nat := map snd (filter (fun m => Nat.eqb (fst m) i) l).
Lemma proj_app i a b : proj i (a ++ b) = proj i a ++ proj i b.
Proof. unfold proj. now rewrite filter_app, map_app. Qed.
Lemma proj_one_same i k : proj i [(i, k)] = [k].
Proof. unfold proj. cbn. now rewrite Nat.eqb_refl. Qed.
Lemma proj_one_other i j k : j <> i -> proj i [(j, k)] = [].
Proof. unfold proj. cbn. intros H. apply Nat.eqb_neq in H. now rewrite H. Qed.

Definition held (s : st) : list msg :=
  match lock s with Some h => match cur (thrs s h) with Some m => [m] | None => [] end | None => [] end.

Record Inv (s : st) : Prop := {
  I_mutex : forall i, in_cs (tpc (thrs s i)) = true <-> lock s = Some i;
  I_cur   : forall i, cur (thrs s i) <> None <-> tpc (thrs s i) = P5;
  I_seq   : forall i, proj i (wire s ++ held s ++ queue s) = seq 0 (next (thrs s i));
  I_pop   : forall i, tpc (thrs s i) = P4 -> queue s <> [];
  I_cnt   : forall i, next (thrs s i) <= total (thrs s i)
                      /\ (tpc (thrs s i) = P0 -> next (thrs s i) < total (thrs s i))
                      /\ (tpc (thrs s i) = Done -> next (thrs s i) = total (thrs s i));
  I_retest : queue s <> [] ->
             exists i, let p := tpc (thrs s i) in p = P0 \/ p = P1 \/ in_cs p = true \/ (p = P2 /\ lock s = None)
}.

Lemma inv_init totals : Inv (init totals).
Proof.
  constructor; unfold init; cbn [thrs queue lock wire tpc next total cur].
  - intros i. destruct (0 <? totals i); cbn; split; intros; discriminate.
  - intros i. split; [congruence|]. destruct (0 <? totals i); intros; discriminate.
  - intros i. reflexivity.
  - intros i. destruct (0 <? totals i); intros; discriminate.
  - intros i. destruct (Nat.ltb_spec 0 (totals i)); repeat split; intros; try lia; try discriminate.
  - congruence.
Qed.

Lemma ret_pc_not_cs t : in_cs (ret_pc t) = false.
Proof. unfold ret_pc. destruct (_ <? _); reflexivity. Qed.

Ltac invstep H :=
  unfold step in H; cbv zeta in H;
  repeat match type of H with
         | context [match ?x with _ => _ end] => destruct x eqn:?; try discriminate
         end; inversion H; subst; clear H.

(* the thread that moves keeps/changes only its own record; used to reduce goals about thread j *)
Ltac thread j i :=
  destruct (Nat.eq_dec j i) as [->|?]; [rewrite ?upd_same|rewrite ?upd_other by assumption]; cbn [tpc next total cur].

Lemma held_other s i t q w : lock s <> Some i ->
  held {| thrs := upd (thrs s) i t; queue := q; lock := lock s; wire := w |} = held s.
Proof.
  unfold held. cbn. destruct (lock s) as [h|]; [|reflexivity]. intros H.
  rewrite upd_other by congruence. reflexivity.
Qed.

Lemma inv_step s i s' : Inv s -> step i s = Some s' -> Inv s'.
Proof.
  intros [Hm Hc Hs Hp Hn Hw] H.
  pose proof (Hm i) as Hmi. pose proof (Hc i) as Hci. pose proof (Hn i) as (Hn1 & Hn2 & Hn3).
  assert (Hnl : forall h, lock s = Some h -> h <> i -> True) by auto.
  unfold step in H. cbv zeta in H.
  destruct (tpc (thrs s i)) eqn:Epc; cbn [in_cs] in Hmi.
  - (* P0: append *)
    inversion H; subst; clear H. constructor; cbn [thrs queue lock wire].
    + intros j. thread j i; [cbn; tauto|apply Hm].
    + intros j. thread j i; [split; [congruence|discriminate]|apply Hc].
    + intros j. assert (Hh : held {| thrs := upd (thrs s) i {| tpc := P1; next := S (next (thrs s i)); total := total (thrs s i); cur := None |};
                                     queue := queue s ++ [(i, next (thrs s i))]; lock := lock s; wire := wire s |} = held s).
      { unfold held. cbn. destruct (lock s) as [h|] eqn:El; [|reflexivity].
        assert (h <> i) by (intros ->; destruct Hmi as [_ X]; first [specialize (X eq_refl)|specialize (X El)]; discriminate).
        now rewrite upd_other by assumption. }
      rewrite Hh. rewrite !app_assoc, proj_app, <- !app_assoc, Hs.
      thread j i.
      * rewrite proj_one_same. now rewrite seq_S.
      * rewrite proj_one_other by congruence. apply app_nil_r.
    + intros j. thread j i; [discriminate|]. intros Hj. destruct (queue s); discriminate.
    + intros j. thread j i; [repeat split; try lia; discriminate|apply Hn].
    + intros _. exists i. rewrite upd_same. cbn. tauto.
  - (* P1: loop test *)
    assert (Hq : queue s = [] \/ exists m q, queue s = m :: q) by (destruct (queue s); eauto).
    destruct Hq as [Eq|(m & q & Eq)]; rewrite Eq in H at 1; inversion H; subst; clear H; constructor; cbn [thrs queue lock wire].
    + intros j. thread j i; [rewrite ret_pc_not_cs; split; [discriminate|]; intros E; apply Hmi in E; discriminate|apply Hm].
    + intros j. thread j i; [split; [congruence|unfold ret_pc; destruct (_ <? _); discriminate]|apply Hc].
    + intros j. rewrite held_other by (intros E; apply Hmi in E; discriminate).
      thread j i; apply Hs.
    + intros j. thread j i; [unfold ret_pc; destruct (_ <? _); discriminate|]. apply Hp.
    + intros j. thread j i; [|apply Hn]. unfold ret_pc. destruct (Nat.ltb_spec (next (thrs s i)) (total (thrs s i))); repeat split; try lia; try discriminate.
    + congruence.
    + intros j. thread j i; [cbn; split; [discriminate|]; intros E; apply Hmi in E; discriminate|apply Hm].
    + intros j. thread j i; [split; [congruence|discriminate]|apply Hc].
    + intros j. rewrite held_other by (intros E; apply Hmi in E; discriminate).
      thread j i; apply Hs.
    + intros j. thread j i; [discriminate|]. apply Hp.
    + intros j. thread j i; [repeat split; try lia; discriminate|apply Hn].
    + intros _. destruct (lock s) as [h|] eqn:El.
      * assert (h <> i) by (intros ->; destruct Hmi as [_ X]; first [specialize (X eq_refl)|specialize (X El)]; discriminate).
        exists h. rewrite upd_other by assumption. right; right; left. apply (Hm h). first [exact El|reflexivity].
      * exists i. rewrite upd_same. cbn. tauto.
  - (* P2: try-acquire *)
    assert (Hl : (exists h, lock s = Some h) \/ lock s = None) by (destruct (lock s); eauto).
    destruct Hl as [(h & El)|El]; rewrite El in H at 1; inversion H; subst; clear H; constructor; cbn [thrs queue lock wire].
    + intros j. thread j i.
      * rewrite ret_pc_not_cs. split; [discriminate|]. intros E. apply Hmi in E. discriminate.
      * apply Hm.
    + intros j. thread j i; [split; [congruence|unfold ret_pc; destruct (_ <? _); discriminate]|apply Hc].
    + intros j. assert (h <> i) by (intros ->; destruct Hmi as [_ X]; first [specialize (X eq_refl)|specialize (X El)]; discriminate).
      assert (Hh : held {| thrs := upd (thrs s) i {| tpc := ret_pc (thrs s i); next := next (thrs s i); total := total (thrs s i); cur := None |};
                           queue := queue s; lock := lock s; wire := wire s |} = held s).
      { unfold held. cbn. rewrite El. now rewrite upd_other by assumption. }
      rewrite Hh. thread j i; apply Hs.
    + intros j. thread j i; [unfold ret_pc; destruct (_ <? _); discriminate|apply Hp].
    + intros j. thread j i; [|apply Hn]. unfold ret_pc. destruct (Nat.ltb_spec (next (thrs s i)) (total (thrs s i))); repeat split; try lia; try discriminate.
    + intros Hq. assert (h <> i) by (intros ->; destruct Hmi as [_ X]; first [specialize (X eq_refl)|specialize (X El)]; discriminate).
      exists h. rewrite upd_other by assumption. right; right; left. apply (Hm h). first [exact El|reflexivity].
    + intros j. thread j i; [cbn; tauto|]. specialize (Hm j). rewrite El in Hm. split; [intros E; apply Hm in E; discriminate|congruence].
    + intros j. thread j i; [split; [congruence|discriminate]|apply Hc].
    + intros j. assert (Hh : held {| thrs := upd (thrs s) i {| tpc := P3; next := next (thrs s i); total := total (thrs s i); cur := None |};
                                     queue := queue s; lock := Some i; wire := wire s |} = held s).
      { unfold held. cbn. rewrite El, upd_same. reflexivity. }
      rewrite Hh. thread j i; apply Hs.
    + intros j. thread j i; [discriminate|apply Hp].
    + intros j. thread j i; [repeat split; try lia; discriminate|apply Hn].
    + intros _. exists i. rewrite upd_same. cbn. tauto.
  - (* P3: re-test under the lock *)
    assert (El : lock s = Some i) by (apply Hmi; reflexivity).
    assert (Hcur : cur (thrs s i) = None).
    { destruct (cur (thrs s i)) eqn:E; [|reflexivity]. exfalso. assert (X : tpc (thrs s i) = P5) by (apply Hc; congruence). congruence. }
    assert (Hh : forall p, held {| thrs := upd (thrs s) i {| tpc := p; next := next (thrs s i); total := total (thrs s i); cur := None |};
                                 queue := queue s; lock := lock s; wire := wire s |} = held s).
    { intros p. unfold held. cbn. rewrite El, upd_same, Hcur. reflexivity. }
    assert (Hq : queue s = [] \/ exists m q, queue s = m :: q) by (destruct (queue s); eauto).
    destruct Hq as [Eq|(m & q & Eq)]; rewrite Eq in H at 1; inversion H; subst; clear H; constructor; cbn [thrs queue lock wire].
    + intros j. thread j i; [cbn; tauto|apply Hm].
    + intros j. thread j i; [split; [congruence|discriminate]|apply Hc].
    + intros j. rewrite Hh. thread j i; apply Hs.
    + intros j. thread j i; [discriminate|]. apply Hp.
    + intros j. thread j i; [repeat split; try lia; discriminate|apply Hn].
    + congruence.
    + intros j. thread j i; [cbn; tauto|apply Hm].
    + intros j. thread j i; [split; [congruence|discriminate]|apply Hc].
    + intros j. rewrite Hh. thread j i; apply Hs.
    + intros j. thread j i; [intros _; rewrite Eq; discriminate|apply Hp].
    + intros j. thread j i; [repeat split; try lia; discriminate|apply Hn].
    + intros _. exists i. rewrite upd_same. cbn. tauto.
  - (* P4: pop *)
    assert (El : lock s = Some i) by (apply Hmi; reflexivity).
    assert (Hcur : cur (thrs s i) = None).
    { destruct (cur (thrs s i)) eqn:E; [|reflexivity]. exfalso. assert (X : tpc (thrs s i) = P5) by (apply Hc; congruence). congruence. }
    assert (Hq : queue s = [] \/ exists m q, queue s = m :: q) by (destruct (queue s); eauto).
    destruct Hq as [Eq|(m & q & Eq)]; rewrite Eq in H at 1; [discriminate|]. inversion H; subst; clear H. constructor; cbn [thrs queue lock wire].
    + intros j. thread j i; [cbn; tauto|apply Hm].
    + intros j. thread j i; [split; [reflexivity|congruence]|apply Hc].
    + intros j. unfold held. cbn [lock thrs]. rewrite El, upd_same. cbn [cur].
      specialize (Hs j). unfold held in Hs. rewrite El, Hcur, Eq in Hs. cbn [app] in *. thread j i; exact Hs.
    + intros j. thread j i; [discriminate|]. intros Hj. exfalso. assert (X : in_cs (tpc (thrs s j)) = true) by (rewrite Hj; reflexivity).
      apply Hm in X. congruence.
    + intros j. thread j i; [repeat split; try lia; discriminate|apply Hn].
    + intros _. exists i. rewrite upd_same. cbn. tauto.
  - (* P5: write *)
    assert (El : lock s = Some i) by (apply Hmi; reflexivity).
    assert (Hcu : cur (thrs s i) = None \/ exists m, cur (thrs s i) = Some m) by (destruct (cur (thrs s i)); eauto).
    destruct Hcu as [Ecur|(m & Ecur)]; rewrite Ecur in H; [discriminate|]. inversion H; subst; clear H. constructor; cbn [thrs queue lock wire].
    + intros j. thread j i; [cbn; tauto|apply Hm].
    + intros j. thread j i; [split; [congruence|discriminate]|apply Hc].
    + intros j. unfold held. cbn [lock thrs]. rewrite El, upd_same. cbn [cur].
      specialize (Hs j). unfold held in Hs. rewrite El, Ecur in Hs. cbn [app] in *. rewrite <- app_assoc. cbn [app]. thread j i; exact Hs.
    + intros j. thread j i; [discriminate|apply Hp].
    + intros j. thread j i; [repeat split; try lia; discriminate|apply Hn].
    + intros _. exists i. rewrite upd_same. cbn. tauto.
  - (* P6: release *)
    assert (El : lock s = Some i) by (apply Hmi; reflexivity).
    assert (Hcur : cur (thrs s i) = None).
    { destruct (cur (thrs s i)) eqn:E; [|reflexivity]. exfalso. assert (X : tpc (thrs s i) = P5) by (apply Hc; congruence). congruence. }
    inversion H; subst; clear H. constructor; cbn [thrs queue lock wire].
    + intros j. thread j i; [cbn; split; discriminate|]. specialize (Hm j). rewrite El in Hm.
      split; [intros E; apply Hm in E; congruence|discriminate].
    + intros j. thread j i; [split; [congruence|discriminate]|apply Hc].
    + intros j. unfold held at 1. cbn [lock]. specialize (Hs j). unfold held in Hs. rewrite El, Hcur in Hs. cbn [app] in *. thread j i; exact Hs.
    + intros j. thread j i; [discriminate|]. intros Hj. exfalso. assert (X : in_cs (tpc (thrs s j)) = true) by (rewrite Hj; reflexivity).
      apply Hm in X. congruence.
    + intros j. thread j i; [repeat split; try lia; discriminate|apply Hn].
    + intros _. exists i. rewrite upd_same. cbn. tauto.
  - discriminate.
Qed.

Theorem inv_reach s0 s : Inv s0 -> reach s0 s -> Inv s.
Proof. intros H R. induction R; eauto using inv_step. Qed.

(* ---- corollaries ---- *)
Definition all_returned (s : st) := forall i, tpc (thrs s i) = Done.

Theorem quiescent_empty s : Inv s -> all_returned s -> queue s = [] /\ lock s = None.
Proof.
  intros I D. split.
  - destruct (queue s) eqn:E; [reflexivity|exfalso]. destruct (I_retest s I) as [i Hi]; [congruence|].
    cbv zeta in Hi. rewrite (D i) in Hi. cbn in Hi. intuition discriminate.
  - destruct (lock s) as [h|] eqn:E; [|reflexivity]. apply (I_mutex s I) in E. rewrite (D h) in E. discriminate.
Qed.

(* exactly once, in issue order: at quiescence thread i's messages on the wire are exactly 0,1,..,total-1 in that order *)
Theorem quiescent_wire s : Inv s -> all_returned s -> forall i, proj i (wire s) = seq 0 (total (thrs s i)).
Proof.
  intros I D i. destruct (quiescent_empty s I D) as [Q L]. pose proof (I_seq s I i) as H.
  unfold held in H. rewrite L, Q in H. cbn [app] in H. rewrite app_nil_r in H. rewrite H.
  destruct (I_cnt s I i) as (_ & _ & X). now rewrite (X (D i)).
Qed.

(* nothing is ever lost or duplicated on the way: at every moment, per thread, wire ++ (in flight) ++ queue = issued so far *)
Theorem always_exactly_once s : Inv s -> forall i, proj i (wire s ++ held s ++ queue s) = seq 0 (next (thrs s i)).
Proof. intros I. apply (I_seq s I). Qed.

(* no sender ever blocks or gets stuck: a thread that has not finished always has an enabled step *)
Theorem no_blocking s i : Inv s -> tpc (thrs s i) <> Done -> exists s', step i s = Some s'.
Proof.
  intros I H. unfold step. cbv zeta. destruct (tpc (thrs s i)) eqn:E; try congruence; eauto.
  - destruct (queue s); eauto.
  - destruct (lock s); eauto.
  - destruct (queue s); eauto.
  - pose proof (I_pop s I i E). destruct (queue s); [congruence|eauto].
  - assert (X : cur (thrs s i) <> None) by (apply (I_cur s I); exact E). destruct (cur (thrs s i)); [eauto|congruence].
Qed.

Lemma step_total i s s' : step i s = Some s' -> forall j, total (thrs s' j) = total (thrs s j).
Proof.
  intros H j. unfold step in H. cbv zeta in H.
  destruct (tpc (thrs s i)); try discriminate;
  repeat match type of H with context [match ?x with _ => _ end] => destruct x; try discriminate end;
  inversion H; subst; cbn [thrs]; (destruct (Nat.eq_dec j i) as [->|Hne]; [rewrite upd_same|rewrite upd_other by assumption]); reflexivity.
Qed.
Lemma total_const totals s : reach (init totals) s -> forall i, total (thrs s i) = totals i.
Proof.
  intros R. induction R as [|s1 k s2 R1 IH St]; intros i; [reflexivity|].
  rewrite (step_total _ _ _ St i). apply IH.
Qed.
