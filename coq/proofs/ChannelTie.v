(* Tie between generated facts of channel.py / stream.py and the parameters of model/Channel.v *)
From V Require Import lib.Base model.Channel gen.Gen_channel gen.Gen_stream gen.Gen_consts.
From Coq Require Import String.
Open Scope N_scope.

Definition Pgen_sock : cparams :=
  {| threshold := Gen_channel.COMPRESSION_THRESHOLD; chunk := Gen_stream.SocketStream_MAX_IO_CHUNK;
     hdr_size := Gen_channel.FRAME_HEADER_size; flusher := map b_of Gen_channel.FLUSHER |}.
Definition Pgen_pipe : cparams :=
  {| threshold := Gen_channel.COMPRESSION_THRESHOLD; chunk := Gen_stream.PipeStream_MAX_IO_CHUNK;
     hdr_size := Gen_channel.FRAME_HEADER_size; flusher := map b_of Gen_channel.FLUSHER |}.

(* comparison operators and header layout the model hard-wires *)
Definition ops_ok : Prop := Gen_channel.compress_when_len = "Gt"%string /\ Gen_channel.single_write_when_total = "LtE"%string
  /\ Gen_channel.FRAME_HEADER_format = "!LB"%string.
Lemma tie_ops : ops_ok.
Proof. repeat split. Qed.

(* side conditions of the theorems, checked on the generated values *)
Lemma side_sock : hdr_size Pgen_sock = 5 /\ hdr_size Pgen_sock + nlen (flusher Pgen_sock) <= chunk Pgen_sock.
Proof. split; [reflexivity|vm_compute; discriminate]. Qed.
Lemma side_pipe : hdr_size Pgen_pipe = 5 /\ hdr_size Pgen_pipe + nlen (flusher Pgen_pipe) <= chunk Pgen_pipe.
Proof. split; [reflexivity|vm_compute; discriminate]. Qed.
Lemma tie_chunk_is_const : Z.of_N Gen_stream.SocketStream_MAX_IO_CHUNK = Gen_consts.STREAM_CHUNK
  /\ Z.of_N Gen_stream.PipeStream_MAX_IO_CHUNK = Gen_consts.STREAM_CHUNK.
Proof. split; reflexivity. Qed.

(* reading tolerates transient would-block conditions on pipes as on sockets (the [tol = true] instances of the theorems apply to both) *)
Lemma tie_pipe_tolerant : Gen_stream.PipeStream_read_tolerates_wouldblock = true /\ Gen_stream.retry_errnos_are_again_wouldblock = true.
Proof. split; reflexivity. Qed.
