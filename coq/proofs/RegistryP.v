(* Proofs about model/Registry.v *)
From V Require Import lib.Base lib.Sx model.Brine model.Registry gen.Gen_registry.
From Coq Require Import String Sorting.Sorted Sorting.Permutation ZifyBool.
Open Scope Z_scope.

(* ---------- tie to the generated facts of rpyc/utils/registry.py ---------- *)
Lemma tie_commands : Gen_registry.commands = ["query"; "register"; "unregister"]%string.
Proof. reflexivity. Qed.
Lemma tie_work_skeleton : skel_known Gen_registry.work_skeleton = true
  /\ Gen_registry.cmd_lookup_guarded = skel_guarded Gen_registry.work_skeleton
  /\ Gen_registry.reply_dump_guarded = skel_reply_guarded Gen_registry.work_skeleton.
Proof. repeat split; reflexivity. Qed.
Lemma tie_register_skeleton : gskel_known Gen_registry.register_skeleton = true
  /\ Gen_registry.register_validates_reply = gskel_validates Gen_registry.register_skeleton
  /\ Gen_registry.register_requires_self_equal = gskel_self_equal Gen_registry.register_skeleton.
Proof. repeat split; reflexivity. Qed.
Lemma tie_remove_skeleton : rskel_known Gen_registry.remove_skeleton = true
  /\ Gen_registry.remove_notifies_only_present = rskel_only_present Gen_registry.remove_skeleton.
Proof. split; reflexivity. Qed.
Lemma tie_tcp_recv_skeleton : tskel_known Gen_registry.tcp_recv_skeleton = true
  /\ Gen_registry.tcp_accepted_timeout = tskel_timeout Gen_registry.tcp_recv_skeleton
  /\ Gen_registry.tcp_recv_closes_unanswered = tskel_sweeps Gen_registry.tcp_recv_skeleton.
Proof. repeat split; reflexivity. Qed.
Lemma tie_constants : Gen_registry.default_pruning = 240 /\ Gen_registry.max_dgram_size = 1500
  /\ 0 < Gen_registry.udp_timeout_ms /\ 0 < Gen_registry.tcp_timeout_ms /\ 0 < Gen_registry.tcp_client_timeout_ms.
Proof. repeat split. Qed.

(* the model parameters of the current tree *)
Definition Fgen : facts :=
  {| lookup_guarded := Gen_registry.cmd_lookup_guarded;
     notify_only_present := Gen_registry.remove_notifies_only_present;
     tcp_timeout := Gen_registry.tcp_accepted_timeout;
     reply_guarded := Gen_registry.reply_dump_guarded;
     register_validates := Gen_registry.register_validates_reply;
     tcp_closes_unanswered := Gen_registry.tcp_recv_closes_unanswered;
     register_self_equal := Gen_registry.register_requires_self_equal |}.

(* ---------- text ---------- *)
Lemma text_eqb_eq a b : text_eqb a b = true <-> a = b.
Proof.
  revert b. induction a as [|x a IH]; intros [|y b]; cbn; split; try discriminate; auto.
  - intros H. apply andb_prop in H as [H1 H2]. apply N.eqb_eq in H1. apply IH in H2. now subst.
  - intros [= -> ->]. rewrite N.eqb_refl. now apply IH.
Qed.
Lemma text_eqb_refl a : text_eqb a a = true.
Proof. now apply text_eqb_eq. Qed.
Lemma text_eqb_sym a b : text_eqb a b = text_eqb b a.
Proof.
  destruct (text_eqb a b) eqn:E.
  - apply text_eqb_eq in E. subst. now rewrite text_eqb_refl.
  - destruct (text_eqb b a) eqn:E2; auto. apply text_eqb_eq in E2. subst. now rewrite text_eqb_refl in E.
Qed.
Lemma text_eqb_trans a b c : text_eqb a b = true -> text_eqb b c = true -> text_eqb a c = true.
Proof. rewrite !text_eqb_eq. congruence. Qed.

(* ---------- insertion-ordered dictionaries ---------- *)
Section DictP.
Context {K V : Type}.
Variable eqb : K -> K -> bool.
Hypothesis eqb_refl : forall a, eqb a a = true.
Hypothesis eqb_sym : forall a b, eqb a b = eqb b a.
Hypothesis eqb_trans : forall a b c, eqb a b = true -> eqb b c = true -> eqb a c = true.

Lemma eqb_congr a b c : eqb a b = true -> eqb c a = eqb c b.
Proof.
  intros H. destruct (eqb c a) eqn:E1, (eqb c b) eqn:E2; auto.
  - rewrite (eqb_trans c a b) in E2; auto.
  - rewrite eqb_sym in H. rewrite (eqb_trans c b a) in E1; auto.
Qed.

Fixpoint d_nodup (d : list (K * V)) : Prop :=
  match d with [] => True | (k, _) :: r => d_find eqb k r = None /\ d_nodup r end.

Lemma find_congr k k' (d : list (K * V)) : eqb k k' = true -> d_find eqb k d = d_find eqb k' d.
Proof.
  intros H. induction d as [|[k0 v0] r IH]; cbn; auto.
  rewrite (eqb_congr k k' k0 H). now rewrite IH.
Qed.

Lemma find_set k v k' (d : list (K * V)) :
  d_find eqb k' (d_set eqb k v d) = if eqb k k' then Some v else d_find eqb k' d.
Proof.
  induction d as [|[k0 v0] r IH]; cbn; auto.
  destruct (eqb k0 k) eqn:E0; cbn.
  - destruct (eqb k k') eqn:E.
    + now rewrite (eqb_trans k0 k k').
    + destruct (eqb k0 k') eqn:E1; auto.
      rewrite eqb_sym in E0. now rewrite (eqb_trans k k0 k') in E.
  - rewrite IH. destruct (eqb k0 k') eqn:E1; auto.
    destruct (eqb k k') eqn:E; auto.
    rewrite (eqb_sym k k') in E. now rewrite (eqb_trans k0 k' k) in E0.
Qed.

Lemma find_pop_other k k' (d : list (K * V)) : eqb k k' = false ->
  d_find eqb k' (d_pop eqb k d) = d_find eqb k' d.
Proof.
  intros H. induction d as [|[k0 v0] r IH]; cbn; auto.
  destruct (eqb k0 k) eqn:E0; cbn.
  - destruct (eqb k0 k') eqn:E1; auto.
    rewrite eqb_sym in E0. now rewrite (eqb_trans k k0 k') in H.
  - now rewrite IH.
Qed.

Lemma find_pop k k' (d : list (K * V)) : d_nodup d ->
  d_find eqb k' (d_pop eqb k d) = if eqb k k' then None else d_find eqb k' d.
Proof.
  destruct (eqb k k') eqn:E; [|intros _; now apply find_pop_other].
  induction d as [|[k0 v0] r IH]; cbn; auto. intros [H1 H2].
  destruct (eqb k0 k) eqn:E0; cbn.
  - rewrite <- H1. apply find_congr. rewrite eqb_sym. now apply (eqb_trans k0 k k').
  - destruct (eqb k0 k') eqn:E1; auto.
    rewrite (eqb_sym k k') in E. now rewrite (eqb_trans k0 k' k) in E0.
Qed.

Lemma nodup_set k v (d : list (K * V)) : d_nodup d -> d_nodup (d_set eqb k v d).
Proof.
  induction d as [|[k0 v0] r IH]; cbn; auto. intros [H1 H2].
  destruct (eqb k0 k) eqn:E0; cbn; auto. split; auto.
  rewrite find_set. now rewrite eqb_sym, E0.
Qed.

Lemma nodup_pop k (d : list (K * V)) : d_nodup d -> d_nodup (d_pop eqb k d).
Proof.
  induction d as [|[k0 v0] r IH]; cbn; auto. intros [H1 H2].
  destruct (eqb k0 k) eqn:E0; cbn; auto. split; auto.
  rewrite find_pop by auto. now destruct (eqb k k0).
Qed.

Lemma find_in k v (d : list (K * V)) : d_nodup d -> In (k, v) d -> d_find eqb k d = Some v.
Proof.
  induction d as [|[k0 v0] r IH]; cbn; [tauto|]. intros [H1 H2] [[= -> ->]|H].
  - now rewrite eqb_refl.
  - destruct (eqb k0 k) eqn:E; auto.
    rewrite (find_congr k0 k r E), (IH H2 H) in H1. discriminate.
Qed.

Lemma find_some k v (d : list (K * V)) : d_find eqb k d = Some v -> exists k0, In (k0, v) d /\ eqb k0 k = true.
Proof.
  induction d as [|[k0 v0] r IH]; cbn; [discriminate|].
  destruct (eqb k0 k) eqn:E.
  - intros [= ->]. exists k0. auto.
  - intros H. destruct (IH H) as (k1 & A & B). exists k1. auto.
Qed.

Lemma find_none_filter k (d : list (K * V)) :
  d_find eqb k d = None -> filter (fun e => eqb (fst e) k) d = [].
Proof.
  induction d as [|[k0 v0] r IH]; cbn; auto.
  destruct (eqb k0 k); [discriminate|auto].
Qed.

Lemma nodup_count k (d : list (K * V)) : d_nodup d ->
  (List.length (filter (fun e => eqb (fst e) k) d) <= 1)%nat.
Proof.
  induction d as [|[k0 v0] r IH]; cbn; auto. intros [H1 H2].
  destruct (eqb k0 k) eqn:E; cbn; auto.
  rewrite find_none_filter; auto. rewrite <- H1. apply find_congr. now rewrite eqb_sym.
Qed.

Lemma in_set_val k v k0 v0 (d : list (K * V)) : In (k0, v0) (d_set eqb k v d) -> In (k0, v0) d \/ v0 = v.
Proof.
  induction d as [|[k1 v1] r IH]; cbn.
  - intros [[= <- <-]|[]]. now right.
  - destruct (eqb k1 k); cbn.
    + intros [[= <- <-]|H]; auto.
    + intros [H|H]; auto. destruct (IH H); auto.
Qed.
Lemma in_set_key k v k0 v0 (d : list (K * V)) : In (k0, v0) (d_set eqb k v d) -> (exists v1, In (k0, v1) d) \/ k0 = k.
Proof.
  induction d as [|[k1 v1] r IH]; cbn.
  - intros [[= <- <-]|[]]. now right.
  - destruct (eqb k1 k); cbn.
    + intros [[= <- <-]|H]; left; eauto.
    + intros [[= <- <-]|H]; [left; eauto|]. destruct (IH H) as [[v2 H2]|H2]; [left; eauto|now right].
Qed.
Lemma in_pop k x (d : list (K * V)) : In x (d_pop eqb k d) -> In x d.
Proof.
  induction d as [|[k1 v1] r IH]; cbn; auto.
  destruct (eqb k1 k); cbn; auto. intros [H|H]; auto.
Qed.
End DictP.

Section ModelP.
Variable upper lower : text -> text.
Variable fso : list pyval -> list pyval.
Variable keq : pyval -> pyval -> bool.
Variable enc : pyval -> bool.
Variable F : facts.
Variable pruning : Z.
Hypothesis keq_refl : forall a, keq a a = true.
Hypothesis keq_sym : forall a b, keq a b = keq b a.
Hypothesis keq_trans : forall a b c, keq a b = true -> keq b c = true -> keq a c = true.

Notation aeq := (Registry.aeq keq).
Notation lookup := (Registry.lookup keq).
Notation member := (Registry.member keq).
Notation state_after := (Registry.state_after keq F pruning).

Lemma aeq_refl a : aeq a a = true.
Proof. unfold Registry.aeq. now rewrite text_eqb_refl, keq_refl. Qed.
Lemma aeq_sym a b : aeq a b = aeq b a.
Proof. unfold Registry.aeq. now rewrite text_eqb_sym, keq_sym. Qed.
Lemma aeq_trans a b c : aeq a b = true -> aeq b c = true -> aeq a c = true.
Proof.
  unfold Registry.aeq. intros H1 H2. apply andb_prop in H1 as [A1 A2]. apply andb_prop in H2 as [B1 B2].
  now rewrite (text_eqb_trans _ _ _ A1 B1), (keq_trans _ _ _ A2 B2).
Qed.

Let T_find_set := @find_set text table text_eqb text_eqb_sym text_eqb_trans.
Let T_find_pop := @find_pop text table text_eqb text_eqb_sym text_eqb_trans.
Let T_nodup_set := @nodup_set text table text_eqb text_eqb_sym text_eqb_trans.
Let T_nodup_pop := @nodup_pop text table text_eqb text_eqb_sym text_eqb_trans.
Let A_find_congr := @find_congr addr Z aeq aeq_sym aeq_trans.
Let A_find_set := @find_set addr Z aeq aeq_sym aeq_trans.
Let A_find_pop := @find_pop addr Z aeq aeq_sym aeq_trans.
Let A_find_pop_other := @find_pop_other addr Z aeq aeq_sym aeq_trans.
Let A_nodup_set := @nodup_set addr Z aeq aeq_sym aeq_trans.
Let A_nodup_pop := @nodup_pop addr Z aeq aeq_sym aeq_trans.
Let A_find_in := @find_in addr Z aeq aeq_refl aeq_sym aeq_trans.
Let A_nodup_count := @nodup_count addr Z aeq aeq_sym aeq_trans.

(* reachable tables: names pairwise different, and in every table the keys pairwise different under == *)
Definition wf (s : services) : Prop :=
  d_nodup text_eqb s /\ forall n tb, d_find text_eqb n s = Some tb -> d_nodup aeq tb.

Lemma wf_nil : wf [].
Proof. split; cbn; [exact I|discriminate]. Qed.

Lemma lookup_congr n a b s : aeq a b = true -> lookup n a s = lookup n b s.
Proof. intros H. unfold Registry.lookup. destruct (d_find text_eqb n s); auto. Qed.

Lemma member_congr n a b s : aeq a b = true -> member n a s = member n b s.
Proof. intros H. unfold Registry.member. now rewrite (lookup_congr n a b s H). Qed.

(* ---- _add_service ---- *)
Lemma lookup_add now n a s N b :
  lookup N b (fst (add_service keq now n a s)) = if text_eqb n N && aeq a b then Some now else lookup N b s.
Proof.
  unfold add_service, Registry.lookup. cbn [fst]. rewrite T_find_set.
  destruct (text_eqb n N) eqn:E; cbn [andb]; auto.
  apply text_eqb_eq in E. subst N. rewrite A_find_set.
  destruct (aeq a b); auto. destruct (d_find text_eqb n s); auto.
Qed.

Lemma wf_add now n a s : wf s -> wf (fst (add_service keq now n a s)).
Proof.
  intros [H1 H2]. unfold add_service; cbn [fst]. split.
  - apply T_nodup_set; auto.
  - intros n' tb'. rewrite T_find_set. destruct (text_eqb n n') eqn:E.
    + intros [= <-]. apply A_nodup_set. destruct (d_find text_eqb n s) eqn:E2; [eapply H2; eauto | exact I].
    + apply H2.
Qed.

Lemma notes_add now n a s : snd (add_service keq now n a s) = if member n a s then [] else [Added n a].
Proof.
  unfold add_service, Registry.member, Registry.lookup, d_mem; cbn [snd].
  destruct (d_find text_eqb n s); cbn; auto.
Qed.

(* ---- _remove_service ---- *)
Lemma lookup_remove n a s N b : wf s ->
  lookup N b (fst (remove_service keq F n a s)) = if text_eqb n N && aeq a b then None else lookup N b s.
Proof.
  intros [H1 H2]. unfold remove_service, Registry.lookup.
  destruct (d_find text_eqb n s) as [tb|] eqn:E; cbn [fst].
  2:{ destruct (text_eqb n N) eqn:EN; cbn [andb]; auto. apply text_eqb_eq in EN; subst. rewrite E. now destruct (aeq a b). }
  destruct (d_pop aeq a tb) as [|x tb'] eqn:EP.
  - rewrite T_find_pop by auto. destruct (text_eqb n N) eqn:EN; cbn [andb]; auto.
    apply text_eqb_eq in EN; subst N. rewrite E. destruct (aeq a b) eqn:EA; auto.
    rewrite <- (A_find_pop_other a b tb EA). now rewrite EP.
  - rewrite T_find_set. destruct (text_eqb n N) eqn:EN; cbn [andb]; auto.
    apply text_eqb_eq in EN; subst N. rewrite E, <- EP. apply A_find_pop. eapply H2; eauto.
Qed.

Lemma wf_remove n a s : wf s -> wf (fst (remove_service keq F n a s)).
Proof.
  intros [H1 H2]. unfold remove_service.
  destruct (d_find text_eqb n s) as [tb|] eqn:E; cbn [fst]; [|split; auto].
  destruct (d_pop aeq a tb) as [|x tb'] eqn:EP; split.
  - now apply T_nodup_pop.
  - intros n' t'. rewrite T_find_pop by auto. destruct (text_eqb n n'); [discriminate|apply H2].
  - now apply T_nodup_set.
  - intros n' t'. rewrite T_find_set. destruct (text_eqb n n').
    + intros [= <-]. rewrite <- EP. apply A_nodup_pop. eapply H2; eauto.
    + apply H2.
Qed.

Lemma notes_remove n a s : notify_only_present F = true ->
  snd (remove_service keq F n a s) = if member n a s then [Removed n a] else [].
Proof.
  intros HF. unfold remove_service, Registry.member, Registry.lookup, d_mem.
  destruct (d_find text_eqb n s) as [tb|]; cbn [snd]; auto. rewrite HF. cbn.
  destruct (d_find aeq a tb); auto.
Qed.

Lemma member_lookup n a s : member n a s = match lookup n a s with Some _ => true | None => false end.
Proof. reflexivity. Qed.

(* ---- cmd_register ---- *)
Definition named (N : text) (ns : list text) : bool := existsb (fun n => text_eqb n N) ns.

Lemma lookup_register now a ns : forall s N b,
  lookup N b (fst (cmd_register keq now a ns s)) = if named N ns && aeq a b then Some now else lookup N b s.
Proof.
  induction ns as [|n r IH]; intros s N b; cbn [cmd_register named existsb]; auto.
  pose proof (lookup_add now n a s N b) as H1.
  destruct (add_service keq now n a s) as [s1 m1].
  pose proof (IH s1 N b) as H.
  destruct (cmd_register keq now a r s1) as [s2 m2]. cbn [fst] in *. rewrite H, H1.
  unfold named. destruct (text_eqb n N), (existsb _ r), (aeq a b); reflexivity.
Qed.

Lemma wf_register now a ns : forall s, wf s -> wf (fst (cmd_register keq now a ns s)).
Proof.
  induction ns as [|n r IH]; intros s H; cbn [cmd_register]; auto.
  pose proof (wf_add now n a s H) as H1.
  destruct (add_service keq now n a s) as [s1 m1].
  pose proof (IH s1 H1) as H2.
  now destruct (cmd_register keq now a r s1) as [s2 m2].
Qed.

(* ---- cmd_unregister ---- *)
Lemma lookup_remove_all a ns : forall s N b, wf s ->
  lookup N b (fst (remove_all keq F a ns s)) = if named N ns && aeq a b then None else lookup N b s.
Proof.
  induction ns as [|n r IH]; intros s N b W; cbn [remove_all named existsb]; auto.
  pose proof (lookup_remove n a s N b W) as H1. pose proof (wf_remove n a s W) as W1.
  destruct (remove_service keq F n a s) as [s1 m1]. cbn [fst] in *.
  pose proof (IH s1 N b W1) as H.
  destruct (remove_all keq F a r s1) as [s2 m2]. cbn [fst] in *. rewrite H, H1.
  unfold named. destruct (text_eqb n N), (existsb _ r), (aeq a b); reflexivity.
Qed.

Lemma wf_remove_all a ns : forall s, wf s -> wf (fst (remove_all keq F a ns s)).
Proof.
  induction ns as [|n r IH]; intros s H; cbn [remove_all]; auto.
  pose proof (wf_remove n a s H) as H1.
  destruct (remove_service keq F n a s) as [s1 m1].
  pose proof (IH s1 H1) as H2.
  now destruct (remove_all keq F a r s1) as [s2 m2].
Qed.

Lemma find_named N (s : services) tb : d_find text_eqb N s = Some tb -> named N (map fst s) = true.
Proof.
  induction s as [|[n t] r IH]; cbn; [discriminate|].
  destruct (text_eqb n N); cbn; auto.
Qed.

Lemma lookup_unregister a s N b : wf s ->
  lookup N b (fst (cmd_unregister keq F a s)) = if aeq a b then None else lookup N b s.
Proof.
  intros W. unfold cmd_unregister. rewrite lookup_remove_all by auto.
  destruct (aeq a b); [|now rewrite andb_false_r].
  destruct (named N (map fst s)) eqn:E; cbn [andb]; auto.
  unfold Registry.lookup. destruct (d_find text_eqb N s) eqn:E2; auto.
  now rewrite (find_named _ _ _ E2) in E.
Qed.

(* ---- sorted(items, key=time) ---- *)
Definition le_t (x y : addr * Z) : Prop := snd x <= snd y.

Lemma insert_perm x l : Permutation (insert_by_time x l) (x :: l).
Proof.
  induction l as [|y r IH]; cbn; auto. destruct (snd x <=? snd y); auto.
  eapply perm_trans; [apply perm_skip, IH|apply perm_swap].
Qed.
Lemma sort_perm l : Permutation (sort_by_time l) l.
Proof.
  induction l as [|x r IH]; cbn; auto.
  eapply perm_trans; [apply insert_perm|now apply perm_skip].
Qed.
Lemma insert_sorted x l : StronglySorted le_t l -> StronglySorted le_t (insert_by_time x l).
Proof.
  induction l as [|y r IH]; cbn; intros H.
  - constructor; constructor.
  - inversion H as [|? ? Hs Hf]; subst. destruct (Z.leb_spec (snd x) (snd y)) as [L|L].
    + constructor; auto. constructor; auto.
      eapply Forall_impl; [|exact Hf]. unfold le_t. intros; lia.
    + constructor; auto.
      eapply Permutation_Forall; [apply Permutation_sym, insert_perm|].
      constructor; auto. unfold le_t; lia.
Qed.
Lemma sort_sorted l : StronglySorted le_t (sort_by_time l).
Proof. induction l; cbn; [constructor|now apply insert_sorted]. Qed.

Lemma ss_filter {A} (R : A -> A -> Prop) f l : StronglySorted R l -> StronglySorted R (filter f l).
Proof.
  induction 1 as [|a l Hs IH Hf]; cbn; [constructor|]. destruct (f a); auto. constructor; auto.
  rewrite Forall_forall in *. intros y Hy. apply filter_In in Hy. apply Hf. tauto.
Qed.
Lemma ss_map_snd l : StronglySorted le_t l -> StronglySorted Z.le (map snd l).
Proof.
  induction 1 as [|a l Hs IH Hf]; cbn; constructor; auto.
  rewrite Forall_forall in *. intros y Hy. apply in_map_iff in Hy as (x & <- & Hx). now apply Hf.
Qed.
Lemma perm_filter {A} (f : A -> bool) l l' : Permutation l l' -> Permutation (filter f l) (filter f l').
Proof.
  induction 1; cbn; auto.
  - destruct (f x); auto.
  - destruct (f x), (f y); auto. apply perm_swap.
  - eapply perm_trans; eauto.
Qed.
Lemma filter_filter_le {A} (p q : A -> bool) l :
  (List.length (filter p (filter q l)) <= List.length (filter p l))%nat.
Proof.
  induction l as [|x r IH]; cbn; auto. destruct (q x), (p x) eqn:E; cbn; rewrite ?E; cbn; lia.
Qed.
Lemma filter_map_length {A B} (g : A -> B) (p : B -> bool) l :
  List.length (filter p (map g l)) = List.length (filter (fun x => p (g x)) l).
Proof. induction l as [|x r IH]; cbn; auto. destruct (p (g x)); cbn; auto. Qed.

(* ---- cmd_query ---- *)
Definition fresh (oldest : Z) (x : addr * Z) : bool := negb (snd x <? oldest).
Definition has_stale (oldest : Z) (b : addr) (l : list (addr * Z)) : bool :=
  existsb (fun x => (snd x <? oldest) && aeq (fst x) b) l.

Lemma prune_servers oldest n l : forall s,
  snd (prune keq F oldest n l s) = map fst (filter (fresh oldest) l).
Proof.
  induction l as [|[a t] r IH]; intros s; cbn [prune filter]; auto.
  unfold fresh at 1. cbn [snd]. destruct (t <? oldest); cbn [negb].
  - destruct (remove_service keq F n a s) as [s1 m1]. specialize (IH s1).
    destruct (prune keq F oldest n r s1) as [[s2 m2] srv]. exact IH.
  - specialize (IH s). destruct (prune keq F oldest n r s) as [[s2 m2] srv]. cbn in *. now rewrite IH.
Qed.

Lemma lookup_prune oldest n l : forall s N b, wf s ->
  lookup N b (fst (fst (prune keq F oldest n l s))) =
    if text_eqb n N && has_stale oldest b l then None else lookup N b s.
Proof.
  induction l as [|[a t] r IH]; intros s N b W; cbn [prune has_stale existsb].
  - now rewrite andb_false_r.
  - cbn [fst snd]. destruct (t <? oldest); cbn [andb orb].
    + pose proof (lookup_remove n a s N b W) as H1. pose proof (wf_remove n a s W) as W1.
      destruct (remove_service keq F n a s) as [s1 m1]. cbn [fst] in *.
      pose proof (IH s1 N b W1) as H.
      destruct (prune keq F oldest n r s1) as [[s2 m2] srv]. cbn [fst] in *. rewrite H, H1.
      unfold has_stale. destruct (text_eqb n N), (aeq a b), (existsb _ r); reflexivity.
    + pose proof (IH s N b W) as H.
      destruct (prune keq F oldest n r s) as [[s2 m2] srv]. cbn [fst] in *. exact H.
Qed.

Lemma wf_prune oldest n l : forall s, wf s -> wf (fst (fst (prune keq F oldest n l s))).
Proof.
  induction l as [|[a t] r IH]; intros s W; cbn [prune]; auto.
  destruct (t <? oldest).
  - pose proof (wf_remove n a s W) as W1.
    destruct (remove_service keq F n a s) as [s1 m1]. cbn [fst] in *.
    pose proof (IH s1 W1) as H. now destruct (prune keq F oldest n r s1) as [[s2 m2] srv].
  - pose proof (IH s W) as H. now destruct (prune keq F oldest n r s) as [[s2 m2] srv].
Qed.

Lemma wf_query now n s : wf s -> wf (fst (fst (cmd_query keq F pruning now n s))).
Proof. intros W. unfold cmd_query. destruct (d_find text_eqb n s); auto. now apply wf_prune. Qed.

(* a stale entry of the sorted table is the entry the lookup finds *)
Lemma has_stale_lookup oldest n b s tb : wf s -> d_find text_eqb n s = Some tb ->
  has_stale oldest b (sort_by_time tb) = true -> exists t, lookup n b s = Some t /\ t < oldest.
Proof.
  intros [W1 W2] E H. unfold has_stale in H. apply existsb_exists in H as ([a t] & Hin & H).
  cbn [fst snd] in H. apply andb_prop in H as [H1 H2].
  exists t. split; [|lia]. unfold Registry.lookup. rewrite E.
  rewrite <- (A_find_congr a b tb H2). apply A_find_in; [eapply W2; eauto|].
  eapply Permutation_in; [apply sort_perm|exact Hin].
Qed.
Lemma lookup_has_stale oldest n b s tb t : d_find text_eqb n s = Some tb ->
  lookup n b s = Some t -> t < oldest -> has_stale oldest b (sort_by_time tb) = true.
Proof.
  intros E H L. unfold Registry.lookup in H. rewrite E in H.
  apply find_some in H as (a0 & Hin & Ha). unfold has_stale. apply existsb_exists.
  exists (a0, t). split.
  - eapply Permutation_in; [apply Permutation_sym, sort_perm|exact Hin].
  - cbn [fst snd]. rewrite Ha. apply andb_true_intro. split; auto. lia.
Qed.

Lemma lookup_query now n s N b : wf s ->
  lookup N b (fst (fst (cmd_query keq F pruning now n s))) =
    match lookup N b s with
    | Some t => if text_eqb n N && (t <? now - pruning) then None else Some t
    | None => None
    end.
Proof.
  intros W. unfold cmd_query. destruct (d_find text_eqb n s) as [tb|] eqn:E; cbn [fst].
  - rewrite lookup_prune by auto.
    destruct (text_eqb n N) eqn:EN; cbn [andb]; [|now destruct (lookup N b s)].
    apply text_eqb_eq in EN. subst N.
    destruct (has_stale (now - pruning) b (sort_by_time tb)) eqn:HS.
    + destruct (has_stale_lookup _ _ _ _ _ W E HS) as (t & -> & L).
      destruct (Z.ltb_spec t (now - pruning)); auto; lia.
    + destruct (lookup n b s) as [t|] eqn:EL; auto.
      destruct (Z.ltb_spec t (now - pruning)); auto.
      now rewrite (lookup_has_stale _ _ _ _ _ _ E EL) in HS.
  - destruct (lookup N b s) as [t|] eqn:EL; auto.
    destruct (text_eqb n N) eqn:EN; cbn [andb]; auto. apply text_eqb_eq in EN. subst N.
    unfold Registry.lookup in EL. now rewrite E in EL.
Qed.

(* the answer of cmd_query in terms of the table before the call *)
Lemma query_servers now n s : wf s ->
  let srv := snd (cmd_query keq F pruning now n s) in
  (forall b, (exists a', In a' srv /\ aeq a' b = true) <-> exists t, lookup n b s = Some t /\ now - pruning <= t)
  /\ (forall b, (List.length (filter (fun a => aeq a b) srv) <= 1)%nat)
  /\ exists l, srv = map fst l /\ StronglySorted Z.le (map snd l)
               /\ Forall (fun x => lookup n (fst x) s = Some (snd x)) l.
Proof.
  intros [W1 W2]. unfold cmd_query, Registry.lookup.
  destruct (d_find text_eqb n s) as [tb|] eqn:E; cbn [snd].
  2:{ repeat split.
      - intros (a' & [] & _).
      - intros (t & [=] & _).
      - cbn; lia.
      - exists []. repeat split; constructor. }
  rewrite prune_servers. set (oldest := now - pruning).
  pose proof (W2 _ _ E) as ND.
  assert (IN : forall x, In x (filter (fresh oldest) (sort_by_time tb)) <-> In x tb /\ oldest <= snd x).
  { intros x. rewrite filter_In. unfold fresh. split; intros [A B]; split.
    - eapply Permutation_in; [apply sort_perm|exact A].
    - destruct (Z.ltb_spec (snd x) oldest); [discriminate|lia].
    - eapply Permutation_in; [apply Permutation_sym, sort_perm|exact A].
    - destruct (Z.ltb_spec (snd x) oldest); [lia|auto]. }
  repeat split.
  - intros (a' & Hin & Ha). apply in_map_iff in Hin as ([a t] & <- & Hx). apply IN in Hx as [Hx Ht].
    exists t. split; auto. rewrite <- (A_find_congr a b tb Ha). now apply A_find_in.
  - intros (t & Hf & Ht). apply find_some in Hf as (a0 & Hin & Ha). exists a0. split; auto.
    apply in_map_iff. exists (a0, t). split; auto. apply IN. auto.
  - intros b. rewrite filter_map_length.
    eapply Nat.le_trans; [apply filter_filter_le|].
    rewrite (Permutation_length (perm_filter _ _ _ (sort_perm tb))).
    apply (A_nodup_count b tb ND).
  - exists (filter (fresh oldest) (sort_by_time tb)). repeat split.
    + apply ss_map_snd, ss_filter, sort_sorted.
    + apply Forall_forall. intros [a t] Hx. apply IN in Hx as [Hx _]. cbn [fst snd]. now apply A_find_in.
Qed.

(* ---------- histories: the specification and the refinement invariant ---------- *)
(* [live rh N b]: the time of the last register request (newest first in [rh]) that names service N
   and an address == b, unless an unregister request for that address came after it.  Queries,
   malformed requests and pruning do not appear in it. *)
Fixpoint live (rh : list event) (N : text) (b : addr) : option Z :=
  match rh with
  | [] => None
  | (now, h, RRegister ns p) :: older => if named N ns && aeq (h, p) b then Some now else live older N b
  | (now, h, RUnregister p) :: older => if aeq (h, p) b then None else live older N b
  | _ :: older => live older N b
  end.
Definition clock_le (rh : list event) (now : Z) : Prop :=
  match rh with [] => True | (t, _, _) :: _ => t <= now end.
Fixpoint mono (rh : list event) : Prop :=
  match rh with [] => True | (now, _, _) :: older => clock_le older now /\ mono older end.
Definition stale_at (rh : list event) (t : Z) : Prop :=
  match rh with [] => False | (now, _, _) :: _ => t < now - pruning end.

Definition Inv (rh : list event) (s : services) : Prop :=
  wf s
  /\ (forall N b t, lookup N b s = Some t -> live rh N b = Some t)
  /\ (forall N b t, live rh N b = Some t -> lookup N b s = Some t \/ (lookup N b s = None /\ stale_at rh t)).

Lemma next_exec now h r s :
  next_state (exec keq F pruning now h r s) s =
    match r with
    | RQuery n => fst (fst (cmd_query keq F pruning now n s))
    | RRegister ns p => fst (cmd_register keq now (h, p) ns s)
    | RUnregister p => fst (cmd_unregister keq F (h, p) s)
    | _ => s
    end.
Proof.
  destruct r; cbn [exec next_state]; auto.
  - now destruct (cmd_query keq F pruning now name s) as [[s' m] srv].
  - now destruct (cmd_register keq now (h, port) names s) as [s' m].
  - now destruct (cmd_unregister keq F (h, port) s) as [s' m].
Qed.

Lemma stale_mono older ev t : clock_le older (fst (fst ev)) -> stale_at older t -> stale_at (ev :: older) t.
Proof using pruning.
  destruct ev as [[now h] r]. destruct older as [|[[t0 h0] r0] o]; cbn [clock_le stale_at fst].
  - intros _ [].
  - clear. intros H1 H2. lia.
Qed.

Lemma inv_step now h r older s : Inv older s -> clock_le older now ->
  Inv ((now, h, r) :: older) (next_state (exec keq F pruning now h r s) s).
Proof.
  intros (W & I2 & I3) C. rewrite next_exec.
  assert (SM : forall r' t, stale_at older t -> stale_at ((now, h, r') :: older) t)
    by (intros r' t; now apply stale_mono).
  assert (KEEP : Inv ((now, h, RNone) :: older) s).
  { split; [exact W|split]; [exact I2|].
    intros N b t H. cbn [live] in H.
    destruct (I3 _ _ _ H) as [A|[A B]]; [left; exact A|right; split; [exact A|apply SM; exact B]]. }
  destruct r; try exact KEEP.
  - (* query *) split; [|split].
    + now apply wf_query.
    + intros N b t. rewrite lookup_query by auto. cbn [live].
      destruct (lookup N b s) as [t0|] eqn:E; [|discriminate].
      destruct (text_eqb name N && (t0 <? now - pruning)); [discriminate|]. intros [= <-]. now apply I2.
    + intros N b t H. cbn [live] in H. rewrite lookup_query by auto.
      destruct (I3 _ _ _ H) as [A|[A B]]; rewrite A.
      * destruct (text_eqb name N && (t <? now - pruning)) eqn:E; [right|left; reflexivity].
        split; [reflexivity|]. apply andb_prop in E as [_ E]. cbn [stale_at]. apply Z.ltb_lt in E. exact E.
      * right. split; [reflexivity|apply SM; exact B].
  - (* register *) split; [|split].
    + now apply wf_register.
    + intros N b t. rewrite lookup_register. cbn [live].
      destruct (named N names && aeq (h, port) b); [intros E; exact E|apply I2].
    + intros N b t. rewrite lookup_register. cbn [live].
      destruct (named N names && aeq (h, port) b); [intros [= <-]; left; reflexivity|].
      intros H. destruct (I3 _ _ _ H) as [A|[A B]]; [left; exact A|right; split; [exact A|apply SM; exact B]].
  - (* unregister *) split; [|split].
    + now apply wf_remove_all.
    + intros N b t. rewrite lookup_unregister by auto. cbn [live].
      destruct (aeq (h, port) b); [discriminate|apply I2].
    + intros N b t. rewrite lookup_unregister by auto. cbn [live].
      destruct (aeq (h, port) b); [discriminate|].
      intros H. destruct (I3 _ _ _ H) as [A|[A B]]; [left; exact A|right; split; [exact A|apply SM; exact B]].
Qed.

Lemma inv_state_after rh : mono rh -> Inv rh (state_after rh).
Proof.
  induction rh as [|[[now h] r] older IH]; cbn [mono state_after].
  - intros _. split; [apply wf_nil|split]; intros N b t; cbn; discriminate.
  - intros [C M]. apply inv_step; auto.
Qed.

Lemma wf_state_after rh : wf (state_after rh).
Proof.
  induction rh as [|[[now h] r] older IH]; cbn [state_after]; [apply wf_nil|].
  rewrite next_exec. destruct r; auto.
  - now apply wf_query.
  - now apply wf_register.
  - now apply wf_remove_all.
Qed.

Lemma exec_query now h n s :
  exec keq F pruning now h (RQuery n) s =
    Next (fst (fst (cmd_query keq F pruning now n s))) (snd (fst (cmd_query keq F pruning now n s)))
         (Some (PTuple (map addr_val (snd (cmd_query keq F pruning now n s))))).
Proof. cbn [exec]. now destruct (cmd_query keq F pruning now n s) as [[s' m] srv]. Qed.

(* 1. the answer to a query after any history *)
Theorem query_exact rh now N : mono rh -> clock_le rh now ->
  let srv := snd (cmd_query keq F pruning now N (state_after rh)) in
  (forall b, (exists a', In a' srv /\ aeq a' b = true) <-> exists t, live rh N b = Some t /\ now - pruning <= t)
  /\ (forall b, (List.length (filter (fun a => aeq a b) srv) <= 1)%nat)
  /\ exists l, srv = map fst l /\ StronglySorted Z.le (map snd l)
               /\ Forall (fun x => live rh N (fst x) = Some (snd x)) l.
Proof.
  intros M C. destruct (inv_state_after rh M) as (W & I2 & I3).
  destruct (query_servers now N (state_after rh) W) as (Q1 & Q2 & l & Q3 & Q4 & Q5).
  cbn zeta. split; [|split; [exact Q2|]].
  - intros b. rewrite Q1. split; intros (t & A & B); exists t; split; auto.
    destruct (I3 _ _ _ A) as [A'|[A' S]]; auto.
    exfalso. clear - S C B. destruct rh as [|[[t0 h0] r0] o]; cbn in S, C; [auto|lia].
  - exists l. repeat split; auto. eapply Forall_impl; [|exact Q5]. intros x. apply I2.
Qed.

(* ---------- 2. notifications = membership changes ---------- *)
Definition note_is (add : bool) (N : text) (b : addr) (x : note) : bool :=
  match x with
  | Added n a => add && (text_eqb n N && aeq a b)
  | Removed n a => negb add && (text_eqb n N && aeq a b)
  end.
Definition count (add : bool) (N : text) (b : addr) (m : list note) : nat :=
  List.length (filter (note_is add N b) m).
Definition ind (c : bool) : nat := if c then 1%nat else 0%nat.

Lemma count_app add N b m1 m2 : count add N b (m1 ++ m2) = (count add N b m1 + count add N b m2)%nat.
Proof. unfold count. now rewrite filter_app, app_length. Qed.

Lemma member_same n N a b s : text_eqb n N = true -> aeq a b = true -> member n a s = member N b s.
Proof. intros H1 H2. apply text_eqb_eq in H1. subst. now apply member_congr. Qed.

Lemma member_add now n a s N b :
  member N b (fst (add_service keq now n a s)) = (text_eqb n N && aeq a b) || member N b s.
Proof. unfold Registry.member. rewrite lookup_add. now destruct (text_eqb n N && aeq a b). Qed.
Lemma member_remove n a s N b : wf s ->
  member N b (fst (remove_service keq F n a s)) = member N b s && negb (text_eqb n N && aeq a b).
Proof.
  intros W. unfold Registry.member. rewrite lookup_remove by auto.
  destruct (text_eqb n N && aeq a b); [now rewrite andb_false_r|now rewrite andb_true_r].
Qed.

Lemma count_add now n a s N b :
  count true N b (snd (add_service keq now n a s)) = ind (negb (member N b s) && (text_eqb n N && aeq a b))
  /\ count false N b (snd (add_service keq now n a s)) = 0%nat.
Proof.
  rewrite notes_add. destruct (text_eqb n N && aeq a b) eqn:E.
  - apply andb_prop in E as [E1 E2]. rewrite <- (member_same n N a b s E1 E2).
    destruct (member n a s); cbn; rewrite ?E1, ?E2; auto.
  - destruct (member n a s); cbn; rewrite ?E, ?andb_false_r; auto.
Qed.
Lemma count_remove n a s N b : notify_only_present F = true ->
  count false N b (snd (remove_service keq F n a s)) = ind (member N b s && (text_eqb n N && aeq a b))
  /\ count true N b (snd (remove_service keq F n a s)) = 0%nat.
Proof.
  intros HF. rewrite notes_remove by auto. destruct (text_eqb n N && aeq a b) eqn:E.
  - apply andb_prop in E as [E1 E2]. rewrite <- (member_same n N a b s E1 E2).
    destruct (member n a s); cbn; rewrite ?E1, ?E2; auto.
  - destruct (member n a s); cbn; rewrite ?E, ?andb_false_r; auto.
Qed.

Lemma member_register now a ns s N b :
  member N b (fst (cmd_register keq now a ns s)) = (named N ns && aeq a b) || member N b s.
Proof. unfold Registry.member. rewrite lookup_register. now destruct (named N ns && aeq a b). Qed.

Lemma count_register now a ns N b : forall s,
  count true N b (snd (cmd_register keq now a ns s)) = ind (negb (member N b s) && (named N ns && aeq a b))
  /\ count false N b (snd (cmd_register keq now a ns s)) = 0%nat.
Proof.
  induction ns as [|n r IH]; intros s; cbn [cmd_register named existsb].
  - cbn. now rewrite andb_false_r.
  - pose proof (count_add now n a s N b) as [C1 C1']. pose proof (member_add now n a s N b) as M1.
    destruct (add_service keq now n a s) as [s1 m1]. cbn [fst snd] in *.
    pose proof (IH s1) as [C2 C2'].
    destruct (cmd_register keq now a r s1) as [s2 m2]. cbn [fst snd] in *.
    rewrite !count_app, C1, C1', C2, C2', M1. split; auto.
    unfold named. destruct (member N b s), (text_eqb n N), (existsb _ r), (aeq a b); reflexivity.
Qed.

Lemma member_remove_all a ns s N b : wf s ->
  member N b (fst (remove_all keq F a ns s)) = member N b s && negb (named N ns && aeq a b).
Proof.
  intros W. unfold Registry.member. rewrite lookup_remove_all by auto.
  destruct (named N ns && aeq a b); [now rewrite andb_false_r|now rewrite andb_true_r].
Qed.

Lemma count_remove_all a ns N b : notify_only_present F = true -> forall s, wf s ->
  count false N b (snd (remove_all keq F a ns s)) = ind (member N b s && (named N ns && aeq a b))
  /\ count true N b (snd (remove_all keq F a ns s)) = 0%nat.
Proof.
  intros HF. induction ns as [|n r IH]; intros s W; cbn [remove_all named existsb].
  - cbn. now rewrite andb_false_r.
  - pose proof (count_remove n a s N b HF) as [C1 C1']. pose proof (member_remove n a s N b W) as M1.
    pose proof (wf_remove n a s W) as W1.
    destruct (remove_service keq F n a s) as [s1 m1]. cbn [fst snd] in *.
    pose proof (IH s1 W1) as [C2 C2'].
    destruct (remove_all keq F a r s1) as [s2 m2]. cbn [fst snd] in *.
    rewrite !count_app, C1, C1', C2, C2', M1. split; auto.
    unfold named. destruct (member N b s), (text_eqb n N), (existsb _ r), (aeq a b); reflexivity.
Qed.

Lemma member_prune oldest n l s N b : wf s ->
  member N b (fst (fst (prune keq F oldest n l s))) = member N b s && negb (text_eqb n N && has_stale oldest b l).
Proof.
  intros W. unfold Registry.member. rewrite lookup_prune by auto.
  destruct (text_eqb n N && has_stale oldest b l); [now rewrite andb_false_r|now rewrite andb_true_r].
Qed.

Lemma count_prune oldest n l N b : notify_only_present F = true -> forall s, wf s ->
  count false N b (snd (fst (prune keq F oldest n l s))) = ind (member N b s && (text_eqb n N && has_stale oldest b l))
  /\ count true N b (snd (fst (prune keq F oldest n l s))) = 0%nat.
Proof.
  intros HF. induction l as [|[a t] r IH]; intros s W; cbn [prune has_stale existsb].
  - cbn. now rewrite !andb_false_r.
  - cbn [fst snd]. destruct (t <? oldest); cbn [andb orb].
    + pose proof (count_remove n a s N b HF) as [C1 C1']. pose proof (member_remove n a s N b W) as M1.
      pose proof (wf_remove n a s W) as W1.
      destruct (remove_service keq F n a s) as [s1 m1]. cbn [fst snd] in *.
      pose proof (IH s1 W1) as [C2 C2'].
      destruct (prune keq F oldest n r s1) as [[s2 m2] srv]. cbn [fst snd] in *.
      rewrite !count_app, C1, C1', C2, C2', M1. split; auto.
      unfold has_stale. destruct (member N b s), (text_eqb n N), (existsb _ r), (aeq a b); reflexivity.
    + pose proof (IH s W) as [C2 C2'].
      destruct (prune keq F oldest n r s) as [[s2 m2] srv]. cbn [fst snd] in *. auto.
Qed.

Theorem notes_exact now h r s N b : notify_only_present F = true -> wf s ->
  match exec keq F pruning now h r s with
  | Next s' m _ =>
      count true N b m = ind (negb (member N b s) && member N b s')
      /\ count false N b m = ind (member N b s && negb (member N b s'))
  | Dead _ => True
  end.
Proof.
  intros HF W. destruct r; cbn [exec]; auto.
  - cbn. now destruct (member N b s).
  - (* query *) unfold cmd_query. destruct (d_find text_eqb name s) as [tb|].
    + pose proof (count_prune (now - pruning) name (sort_by_time tb) N b HF s W) as [C1 C2].
      pose proof (member_prune (now - pruning) name (sort_by_time tb) s N b W) as M.
      destruct (prune keq F (now - pruning) name (sort_by_time tb) s) as [[s' m] srv]. cbn [fst snd] in *.
      rewrite C1, C2, M. destruct (member N b s), (text_eqb name N && has_stale _ b _); auto.
    + cbn. now destruct (member N b s).
  - cbn. now destruct (member N b s).
  - (* register *)
    pose proof (count_register now (h, port) names N b s) as [C1 C2].
    pose proof (member_register now (h, port) names s N b) as M.
    destruct (cmd_register keq now (h, port) names s) as [s' m]. cbn [fst snd] in *.
    rewrite C1, C2, M. destruct (member N b s), (named N names && aeq (h, port) b); auto.
  - (* unregister *) unfold cmd_unregister.
    pose proof (count_remove_all (h, port) (map fst s) N b HF s W) as [C1 C2].
    pose proof (member_remove_all (h, port) (map fst s) s N b W) as M.
    destruct (remove_all keq F (h, port) (map fst s) s) as [s' m]. cbn [fst snd] in *.
    rewrite C1, C2, M. destruct (member N b s), (named N (map fst s) && aeq (h, port) b); auto.
Qed.

(* ---------- 3. a request changes only what it names ---------- *)
Definition names_it (h : text) (r : req) (N : text) (b : addr) : Prop :=
  match r with
  | RRegister ns p => named N ns = true /\ aeq (h, p) b = true
  | RUnregister p => aeq (h, p) b = true
  | _ => False
  end.

Theorem no_collateral now h r s N b : wf s ->
  lookup N b (next_state (exec keq F pruning now h r s) s) = lookup N b s
  \/ names_it h r N b
  \/ (exists t, r = RQuery N /\ lookup N b s = Some t /\ t < now - pruning).
Proof.
  intros W. rewrite next_exec. destruct r; auto.
  - rewrite lookup_query by auto. destruct (lookup N b s) as [t|] eqn:E; auto.
    destruct (text_eqb name N) eqn:EN; cbn [andb]; auto.
    destruct (Z.ltb_spec t (now - pruning)); auto.
    apply text_eqb_eq in EN. subst. right. right. exists t. auto.
  - rewrite lookup_register. destruct (named N names && aeq (h, port) b) eqn:E; [|left; reflexivity].
    apply andb_prop in E. right. left. exact E.
  - rewrite lookup_unregister by auto. destruct (aeq (h, port) b) eqn:E; [|left; reflexivity].
    right. left. exact E.
Qed.

(* ---------- 3'. nothing a client sends ends the loop ---------- *)
Notation classify := (Registry.classify upper lower fso keq enc F).
Notation work_val := (Registry.work_val upper lower fso keq enc F pruning).
Notation deliver := (Registry.deliver enc F).
Notation exec := (Registry.exec keq F pruning).

Lemma classify_args_alive h k al e : classify_args upper fso keq enc F h k al <> RDie e.
Proof.
  unfold classify_args.
  destruct k; destruct al as [|x [|y [|z al]]]; try discriminate; try (destruct x; discriminate).
  destruct (py_iter fso x); [|discriminate]. destruct (texts_of l); [|discriminate].
  destruct (accepted keq enc F h y); discriminate.
Qed.

Lemma classify_die h v e : classify h v = RDie e -> lookup_guarded F = false.
Proof.
  unfold Registry.classify.
  destruct (py_iter fso v) as [[|m [|c [|a [|x l]]]]|]; try discriminate.
  destruct (negb (is_text RPYC m)); [discriminate|].
  destruct c; try (destruct (lookup_guarded F); [discriminate|reflexivity]); try discriminate.
  destruct (find_cmd (lower cps)); [|discriminate].
  destruct (py_iter fso a); [|discriminate].
  intros H. now apply classify_args_alive in H.
Qed.

(* a register request that reaches the table was accepted *)
Lemma classify_register_accepted h v ns p : classify h v = RRegister ns p -> accepted keq enc F h p = true.
Proof.
  unfold Registry.classify.
  destruct (py_iter fso v) as [[|m [|c [|a [|x l]]]]|]; try discriminate.
  destruct (negb (is_text RPYC m)); [discriminate|].
  destruct c; try (destruct (lookup_guarded F); discriminate); try discriminate.
  destruct (find_cmd (lower cps)) as [k|]; [|discriminate].
  destruct (py_iter fso a) as [al|]; [|discriminate].
  unfold classify_args.
  destruct k; destruct al as [|x1 [|y [|z al]]]; try discriminate; try (destruct x1; discriminate).
  destruct (py_iter fso x1) as [l1|]; [|discriminate]. destruct (texts_of l1); [|discriminate].
  destruct (accepted keq enc F h y) eqn:A; [|discriminate]. now intros [= _ <-].
Qed.

Lemma exec_dead now h r s e : exec now h r s = Dead e -> r = RDie e.
Proof.
  destruct r; cbn [Registry.exec]; try discriminate.
  - now intros [= ->].
  - destruct (cmd_query keq F pruning now name s) as [[s' m] srv]. discriminate.
  - destruct (cmd_register keq now (h, port) names s) as [s' m]. discriminate.
  - destruct (cmd_unregister keq F (h, port) s) as [s' m]. discriminate.
Qed.

Lemma deliver_alive o : reply_guarded F = true -> (forall e, o <> Dead e) ->
  exists s' m rep, deliver o = Next s' m rep.
Proof.
  intros G H. destruct o as [s' m [v|]|e]; cbn [Registry.deliver]; eauto.
  - destruct (enc v); eauto. rewrite G. eauto.
  - now destruct (H e).
Qed.

Theorem loop_survives now h s v : lookup_guarded F = true -> reply_guarded F = true ->
  exists s' m rep, work_val now h s v = Next s' m rep.
Proof.
  intros G RG. unfold Registry.work_val. apply deliver_alive; auto.
  intros e H. apply exec_dead in H. apply classify_die in H. congruence.
Qed.

Theorem loop_survives_bytes P now h s dg : lookup_guarded F = true -> reply_guarded F = true ->
  forall e, work_step upper lower fso keq enc F pruning P now h s dg <> Some (Dead e).
Proof.
  intros G RG e. unfold work_step. destruct (decode P dg) as [v|]; [|discriminate].
  destruct (loop_survives now h s v G RG) as (s' & m & rep & ->). discriminate.
Qed.

Theorem loop_dies_unguarded now h s : lookup_guarded F = false ->
  work_val now h s (PTuple [PStr RPYC; PInt 5; PTuple []]) = Dead AttributeError.
Proof.
  intros G. unfold Registry.work_val, Registry.classify. cbn [py_iter].
  change (is_text RPYC (PStr RPYC)) with true. cbn [negb]. now rewrite G.
Qed.

(* the reply is encoded after the command ran: where that is not guarded, a reply that cannot be
   encoded ends the loop with the command's effects (pruning) already applied *)
Theorem reply_dies_unguarded now h s v s' m rep : reply_guarded F = false ->
  exec now h (classify h v) s = Next s' m (Some rep) -> enc rep = false ->
  work_val now h s v = Dead OtherError.
Proof. intros G E H. unfold Registry.work_val. rewrite E. cbn [Registry.deliver]. now rewrite H, G. Qed.

(* the shapes of malformed requests the property lists: each is dropped, table and log untouched *)
Lemma malformed_dropped now h s v : classify h v = RNone -> work_val now h s v = Next s [] None.
Proof. intros E. unfold Registry.work_val. now rewrite E. Qed.

Lemma classify_not_iterable h v : py_iter fso v = None -> classify h v = RNone.
Proof. intros E. unfold Registry.classify. now rewrite E. Qed.
Lemma classify_wrong_length h v l : py_iter fso v = Some l -> List.length l <> 3%nat -> classify h v = RNone.
Proof.
  intros E H. unfold Registry.classify. rewrite E.
  destruct l as [|m [|c [|a [|x l]]]]; auto. now cbn in H.
Qed.
Lemma magic_ok : is_text RPYC (PStr RPYC) = true.
Proof. reflexivity. Qed.
Ltac open_classify := unfold Registry.classify; cbn [py_iter]; rewrite ?magic_ok; cbn [negb].

Lemma classify_wrong_magic h m c a : is_text RPYC m = false -> classify h (PTuple [m; c; a]) = RNone.
Proof. intros E. open_classify. now rewrite E. Qed.
Lemma classify_unknown_command h c a : find_cmd (lower c) = None ->
  classify h (PTuple [PStr RPYC; PStr c; a]) = RNone.
Proof. intros E. open_classify. now rewrite E. Qed.
Lemma classify_nontext_command h c a : lookup_guarded F = true -> (forall t, c <> PStr t) ->
  classify h (PTuple [PStr RPYC; c; a]) = RNone.
Proof. intros G H. open_classify. destruct c; try reflexivity; try (now rewrite G). exfalso. eapply H. reflexivity. Qed.
Lemma classify_args_not_iterable h c a : py_iter fso a = None ->
  classify h (PTuple [PStr RPYC; PStr c; a]) = RNone.
Proof. intros E. open_classify. rewrite E. now destruct (find_cmd (lower c)). Qed.
Lemma classify_wrong_arg_count h c k a al : find_cmd (lower c) = Some k -> py_iter fso a = Some al ->
  List.length al <> (match k with CRegister => 2 | _ => 1 end)%nat ->
  classify h (PTuple [PStr RPYC; PStr c; a]) = RNone.
Proof.
  intros E1 E2 H. open_classify. rewrite E1, E2. unfold classify_args.
  destruct k; destruct al as [|x [|y [|z al]]]; auto; try (now cbn in H); now destruct x.
Qed.

(* case-insensitivity: names meet the table only through [upper] *)
Lemma classify_query_upper h c n : find_cmd (lower c) = Some CQuery ->
  classify h (PTuple [PStr RPYC; PStr c; PTuple [PStr n]]) = RQuery (upper n).
Proof. intros E. open_classify. now rewrite E. Qed.
Lemma texts_of_strs ns : texts_of (map PStr ns) = Some ns.
Proof. induction ns as [|x r IH]; cbn; [auto|now rewrite IH]. Qed.
Lemma classify_register_upper h c ns p : find_cmd (lower c) = Some CRegister -> accepted keq enc F h p = true ->
  classify h (PTuple [PStr RPYC; PStr c; PTuple [PTuple (map PStr ns); p]]) = RRegister (map upper ns) p.
Proof. intros E A. open_classify. rewrite E. cbn [classify_args py_iter]. now rewrite texts_of_strs, A. Qed.
Lemma classify_register_refused h c ns p : find_cmd (lower c) = Some CRegister -> accepted keq enc F h p = false ->
  classify h (PTuple [PStr RPYC; PStr c; PTuple [PTuple (map PStr ns); p]]) = RNone.
Proof. intros E A. open_classify. rewrite E. cbn [classify_args py_iter]. now rewrite texts_of_strs, A. Qed.
Lemma classify_unregister h c p : find_cmd (lower c) = Some CUnregister ->
  classify h (PTuple [PStr RPYC; PStr c; PTuple [p]]) = RUnregister p.
Proof. intros E. open_classify. now rewrite E. Qed.

(* ---------- 1''. every key of the table is the address of an accepted register request; on a tree that
   validates at registration every query answer can be encoded, i.e. is delivered ---------- *)
Definition keys_ok (P : addr -> Prop) (s : services) : Prop :=
  forall n tb a t, In (n, tb) s -> In (a, t) tb -> P a.
Definition regs_ok (P : addr -> Prop) (rh : list event) : Prop :=
  Forall (fun ev : event => match ev with (_, h, RRegister _ p) => P (h, p) | _ => True end) rh.

Lemma keys_ok_add (P : addr -> Prop) now n a s : P a -> keys_ok P s -> keys_ok P (fst (add_service keq now n a s)).
Proof.
  intros Pa K n' tb' a' t'. unfold add_service. cbn [fst]. intros H1 H2.
  apply in_set_val in H1 as [H1| ->]; [eapply K; eauto|].
  apply in_set_key in H2 as [[t1 H2]| ->]; auto.
  destruct (d_find text_eqb n s) as [tb|] eqn:E; [|destruct H2].
  apply find_some in E as (n0 & E & _). eapply K; eauto.
Qed.
Lemma keys_ok_remove (P : addr -> Prop) n a s : keys_ok P s -> keys_ok P (fst (remove_service keq F n a s)).
Proof.
  intros K. unfold remove_service. destruct (d_find text_eqb n s) as [tb|] eqn:E; cbn [fst]; auto.
  apply find_some in E as (n0 & E & _).
  intros n' tb' a' t' H1 H2. destruct (d_pop aeq a tb) as [|x tb1] eqn:EP.
  - apply in_pop in H1. eapply K; eauto.
  - apply in_set_val in H1 as [H1| ->]; [eapply K; eauto|].
    rewrite <- EP in H2. apply in_pop in H2. eapply K; eauto.
Qed.
Lemma keys_ok_register (P : addr -> Prop) now a ns : P a -> forall s, keys_ok P s -> keys_ok P (fst (cmd_register keq now a ns s)).
Proof.
  intros Pa. induction ns as [|n r IH]; intros s K; cbn [cmd_register]; auto.
  pose proof (keys_ok_add P now n a s Pa K) as K1.
  destruct (add_service keq now n a s) as [s1 m1]. cbn [fst] in *.
  specialize (IH s1 K1). now destruct (cmd_register keq now a r s1) as [s2 m2].
Qed.
Lemma keys_ok_remove_all (P : addr -> Prop) a ns : forall s, keys_ok P s -> keys_ok P (fst (remove_all keq F a ns s)).
Proof.
  induction ns as [|n r IH]; intros s K; cbn [remove_all]; auto.
  pose proof (keys_ok_remove P n a s K) as K1.
  destruct (remove_service keq F n a s) as [s1 m1]. cbn [fst] in *.
  specialize (IH s1 K1). now destruct (remove_all keq F a r s1) as [s2 m2].
Qed.
Lemma keys_ok_prune (P : addr -> Prop) oldest n l : forall s, keys_ok P s -> keys_ok P (fst (fst (prune keq F oldest n l s))).
Proof.
  induction l as [|[a t] r IH]; intros s K; cbn [prune]; auto.
  destruct (t <? oldest).
  - pose proof (keys_ok_remove P n a s K) as K1.
    destruct (remove_service keq F n a s) as [s1 m1]. cbn [fst] in *.
    specialize (IH s1 K1). now destruct (prune keq F oldest n r s1) as [[s2 m2] srv].
  - specialize (IH s K). now destruct (prune keq F oldest n r s) as [[s2 m2] srv].
Qed.
Lemma keys_ok_state_after (P : addr -> Prop) rh : regs_ok P rh -> keys_ok P (state_after rh).
Proof.
  induction 1 as [|[[now h] r] older Hev Hold IH]; cbn [Registry.state_after].
  - intros n tb a t [].
  - rewrite next_exec. destruct r; auto.
    + unfold cmd_query. destruct (d_find text_eqb name (state_after older)); auto. now apply keys_ok_prune.
    + now apply keys_ok_register.
    + now apply keys_ok_remove_all.
Qed.
Lemma query_servers_in_table now n s a : In a (snd (cmd_query keq F pruning now n s)) ->
  exists n0 tb t, In (n0, tb) s /\ In (a, t) tb.
Proof.
  unfold cmd_query. destruct (d_find text_eqb n s) as [tb|] eqn:E; cbn [snd]; [|intros []].
  rewrite prune_servers. intros H. apply in_map_iff in H as ([a' t] & <- & H).
  apply filter_In in H as [H _]. apply find_some in E as (n0 & E & _).
  exists n0, tb, t. split; auto. eapply Permutation_in; [apply sort_perm|exact H].
Qed.

Definition enc_tuple_ok : Prop := forall l, enc (PTuple l) = forallb (fun x => enc (PTuple [x])) l.
Definition answerable (a : addr) : Prop := enc (PTuple [addr_val a]) = true.

Theorem query_delivered rh now h N : enc_tuple_ok -> regs_ok answerable rh ->
  deliver (exec now h (RQuery N) (state_after rh)) = exec now h (RQuery N) (state_after rh).
Proof.
  intros ET RO. rewrite exec_query. cbn [Registry.deliver].
  assert (E : enc (PTuple (map addr_val (snd (cmd_query keq F pruning now N (state_after rh))))) = true).
  { rewrite ET. apply forallb_forall. intros x Hx. apply in_map_iff in Hx as (a & <- & Ha).
    apply query_servers_in_table in Ha as (n0 & tb & t & H1 & H2).
    exact (keys_ok_state_after answerable rh RO _ _ _ _ H1 H2). }
  now rewrite E.
Qed.

Lemma accepted_answerable h p : register_validates F = true -> accepted keq enc F h p = true -> answerable (h, p).
Proof. intros V H. unfold accepted in H. rewrite V in H. cbn [negb orb] in H. apply andb_prop in H as [H _]. exact H. Qed.
Lemma accepted_self_equal h p : register_self_equal F = true -> accepted keq enc F h p = true -> keq p p = true.
Proof. intros V H. unfold accepted in H. rewrite V in H. cbn [negb orb] in H. apply andb_prop in H as [_ H]. exact H. Qed.

(* ---------- 2''. the whole log: its balance is table membership, which lags behind the
   freshness-based membership of the property only by expiries not yet noticed ---------- *)
Definition notes_of (o : outcome) : list note := match o with Next _ m _ => m | Dead _ => [] end.
Fixpoint log_after (rh : list event) : list note :=
  match rh with
  | [] => []
  | (now, h, r) :: older => log_after older ++ notes_of (exec now h r (state_after older))
  end.

Theorem log_balance rh N b : notify_only_present F = true ->
  count true N b (log_after rh) = (count false N b (log_after rh) + ind (member N b (state_after rh)))%nat.
Proof.
  intros HF. induction rh as [|[[now h] r] older IH]; cbn [log_after Registry.state_after]; auto.
  rewrite !count_app, IH.
  pose proof (notes_exact now h r (state_after older) N b HF (wf_state_after older)) as H.
  destruct (exec now h r (state_after older)) as [s' m rep|e]; cbn [notes_of next_state].
  - destruct H as [-> ->]. destruct (member N b (state_after older)), (member N b s'); cbn; lia.
  - cbn. lia.
Qed.

Theorem member_vs_live rh N b : mono rh ->
  (forall t, live rh N b = Some t -> ~ stale_at rh t -> member N b (state_after rh) = true)
  /\ (live rh N b = None -> member N b (state_after rh) = false)
  /\ (member N b (state_after rh) = true -> exists t, live rh N b = Some t).
Proof.
  intros M. destruct (inv_state_after rh M) as (W & I2 & I3). unfold Registry.member. repeat split.
  - intros t L NS. destruct (I3 _ _ _ L) as [->|[_ S]]; [reflexivity|contradiction].
  - intros L. destruct (lookup N b (state_after rh)) as [t|] eqn:E; auto.
    apply I2 in E. congruence.
  - destruct (lookup N b (state_after rh)) as [t|] eqn:E; [|discriminate]. intros _. eauto.
Qed.

Theorem member_after_query rh now h N b : mono rh -> clock_le rh now ->
  member N b (state_after ((now, h, RQuery N) :: rh)) = true
  <-> exists t, live rh N b = Some t /\ now - pruning <= t.
Proof.
  intros M C. destruct (inv_state_after rh M) as (W & I2 & I3).
  cbn [Registry.state_after]. rewrite next_exec. unfold Registry.member. rewrite lookup_query by auto.
  rewrite text_eqb_refl. cbn [andb]. split.
  - destruct (lookup N b (state_after rh)) as [t|] eqn:E; [|discriminate].
    destruct (Z.ltb_spec t (now - pruning)); [discriminate|]. intros _. exists t. split; auto.
  - intros (t & L & Fr). destruct (I3 _ _ _ L) as [->|[_ S]].
    + destruct (Z.ltb_spec t (now - pruning)); [lia|reflexivity].
    + exfalso. clear - S C Fr. destruct rh as [|[[t0 h0] r0] o]; cbn in S, C; [auto|lia].
Qed.

(* ---------- 4. TCP ---------- *)
Notation tcp_run := (Registry.tcp_run upper lower fso keq enc F pruning).

Lemma results_of_starved cs :
  results_of_sends cs (map (fun _ => TStarved) cs) = map (fun _ => TStarved) (sends_of cs).
Proof.
  induction cs as [|[[now h] [|v]] r IH]; cbn; auto. now rewrite IH.
Qed.

Lemma tcp_run_sweep_idem fdmax p s cs :
  tcp_run fdmax (if tcp_closes_unanswered F then O else p) s cs = tcp_run fdmax p s cs.
Proof. destruct cs as [|[[now h] c] r]; cbn [Registry.tcp_run]; auto. now destruct (tcp_closes_unanswered F). Qed.

Lemma tcp_run_starved_head fdmax p s cs :
  Nat.leb fdmax (if tcp_closes_unanswered F then O else p) = true ->
  tcp_run fdmax p s cs = map (fun _ => TStarved) cs.
Proof. intros H. destruct cs as [|[[now h] c] r]; cbn [Registry.tcp_run]; auto. now rewrite H. Qed.

Theorem tcp_silent_invisible fdmax cs : tcp_timeout F = true -> forall p s,
  results_of_sends cs (tcp_run fdmax p s cs) = tcp_run fdmax p s (sends_of cs).
Proof.
  intros HT. induction cs as [|[[now h] c] r IH]; intros p s; [reflexivity|].
  destruct (Nat.leb fdmax (if tcp_closes_unanswered F then O else p)) eqn:L.
  - rewrite !tcp_run_starved_head by auto. apply results_of_starved.
  - destruct c as [|v]; cbn [Registry.tcp_run sends_of]; rewrite L.
    + rewrite HT. cbn [results_of_sends]. rewrite IH. apply tcp_run_sweep_idem.
    + destruct (Registry.work_val upper lower fso keq enc F pruning now h s v) as [s' m rep|e]; cbn [results_of_sends].
      * now rewrite IH.
      * now rewrite results_of_starved.
Qed.

Theorem tcp_nobody_starves fdmax cs : tcp_timeout F = true -> lookup_guarded F = true -> reply_guarded F = true ->
  tcp_closes_unanswered F = true -> (1 <= fdmax)%nat -> forall p s, ~ In TStarved (tcp_run fdmax p s cs).
Proof.
  intros HT G RG CL FD. induction cs as [|[[now h] c] r IH]; intros p s; cbn [Registry.tcp_run]; auto.
  rewrite CL. destruct (Nat.leb_spec fdmax 0); [lia|].
  destruct c as [|v].
  - rewrite HT. intros [H1|H1]; [discriminate|now apply IH in H1].
  - destruct (loop_survives now h s v G RG) as (s' & m & rep & ->).
    intros [H1|H1]; [discriminate|now apply IH in H1].
Qed.

Theorem tcp_silent_starves fdmax now h now' h' v s : tcp_timeout F = false ->
  tcp_run fdmax O s [(now, h, Silent); (now', h', Sends v)] = [TStarved; TStarved].
Proof.
  intros HT. cbn [Registry.tcp_run]. rewrite HT.
  destruct (tcp_closes_unanswered F); destruct (Nat.leb fdmax 0); reflexivity.
Qed.

(* requests that get no reply leave their socket open: after [fdmax] of them nobody is accepted *)
Theorem tcp_leak_starves fdmax now h bad c : tcp_closes_unanswered F = false ->
  (forall s, work_val now h s bad = Next s [] None) ->
  forall k p s, (p + k = fdmax)%nat ->
  tcp_run fdmax p s (repeat (now, h, Sends bad) k ++ [c]) = repeat (TReached None) k ++ [TStarved].
Proof.
  intros CL B. induction k as [|k IH]; intros p s E; cbn [repeat app].
  - destruct c as [[now' h'] c]. cbn [Registry.tcp_run]. rewrite CL.
    destruct (Nat.leb_spec fdmax p); [reflexivity|lia].
  - cbn [Registry.tcp_run]. rewrite CL. destruct (Nat.leb_spec fdmax p); [lia|].
    rewrite B. cbn [no_reply]. f_equal. apply IH. lia.
Qed.

(* every silent client ahead in the queue costs the server's timeout *)
Fixpoint silent_before (cs : list client) (i : nat) : nat :=
  match cs, i with
  | Silent :: r, S j => S (silent_before r j)
  | _ :: r, S j => silent_before r j
  | _, _ => O
  end.
Lemma reached_at_silent T cs : forall i, reached_at_ms T cs i = T * Z.of_nat (silent_before cs i).
Proof.
  induction cs as [|[|v] r IH]; intros [|j]; cbn [reached_at_ms silent_before]; rewrite ?IH; lia.
Qed.
End ModelP.

(* ---------- the extracted instance: structural equality is an equivalence ---------- *)
Lemma pyval_ind2 (Q : pyval -> Prop) :
  Q PNone -> Q PNotImpl -> Q PEllipsis -> (forall b, Q (PBool b)) -> (forall z, Q (PInt z)) ->
  (forall b, Q (PFloat b)) -> (forall b, Q (PComplex b)) -> (forall b, Q (PBytes b)) -> (forall c, Q (PStr c)) ->
  (forall l, Forall Q l -> Q (PTuple l)) -> (forall l, Forall Q l -> Q (PFset l)) ->
  (forall a b c, Q a -> Q b -> Q c -> Q (PSlice a b c)) -> (forall k, Q (POther k)) ->
  forall v, Q v.
Proof.
  intros H1 H2 H3 H4 H5 H6 H7 H8 H9 HT HF HS HO. fix IH 1.
  intros [| | |b|z|b|b|b|c|l|l|a b c|k];
    [exact H1|exact H2|exact H3|apply H4|apply H5|apply H6|apply H7|apply H8|apply H9| | |apply HS; apply IH|apply HO].
  - apply HT. induction l as [|y ys IHl]; constructor; [apply IH|exact IHl].
  - apply HF. induction l as [|y ys IHl]; constructor; [apply IH|exact IHl].
Qed.

Fixpoint list_eqb {A} (f : A -> A -> bool) (l m : list A) : bool :=
  match l, m with
  | [], [] => true
  | x :: l', y :: m' => f x y && list_eqb f l' m'
  | _, _ => false
  end.
Lemma eqb_tuple l m : pyval_eqb (PTuple l) (PTuple m) = list_eqb pyval_eqb l m.
Proof. revert m. induction l as [|x l IH]; intros [|y m]; cbn; auto. specialize (IH m). cbn in IH. now rewrite IH. Qed.
Lemma eqb_fset l m : pyval_eqb (PFset l) (PFset m) = list_eqb pyval_eqb l m.
Proof. revert m. induction l as [|x l IH]; intros [|y m]; cbn; auto. specialize (IH m). cbn in IH. now rewrite IH. Qed.

Lemma bytes_eqb_eq a b : bytes_eqb a b = true -> a = b.
Proof.
  revert b. induction a as [|x a IH]; intros [|y b]; cbn; try discriminate; auto.
  intros H. apply andb_prop in H as [H1 H2]. apply Byte.byte_dec_bl in H1. apply IH in H2. now subst.
Qed.
Lemma bytes_eqb_refl a : bytes_eqb a a = true.
Proof. induction a as [|x a IH]; cbn; auto. rewrite IH. now rewrite (Byte.byte_dec_lb eq_refl). Qed.

Lemma list_eqb_eq l : Forall (fun x => forall y, pyval_eqb x y = true -> x = y) l ->
  forall m, list_eqb pyval_eqb l m = true -> l = m.
Proof.
  induction 1 as [|x l Hx Hl IH]; intros [|y m]; cbn; try discriminate; auto.
  intros H. apply andb_prop in H as [H1 H2]. apply Hx in H1. apply IH in H2. now subst.
Qed.
Lemma list_eqb_refl l : Forall (fun x => pyval_eqb x x = true) l -> list_eqb pyval_eqb l l = true.
Proof. induction 1 as [|x l Hx Hl IH]; cbn; auto. now rewrite Hx, IH. Qed.

Lemma pyval_eqb_eq : forall a b, pyval_eqb a b = true -> a = b.
Proof.
  induction a using pyval_ind2; intros b0; destruct b0; try (cbn; discriminate); try reflexivity.
  - cbn. intros E. apply Bool.eqb_prop in E. now subst.
  - cbn. intros E. apply Z.eqb_eq in E. now subst.
  - cbn. intros E. apply bytes_eqb_eq in E. now subst.
  - cbn. intros E. apply bytes_eqb_eq in E. now subst.
  - cbn. intros E. apply bytes_eqb_eq in E. now subst.
  - cbn. intros E. apply text_eqb_eq in E. now subst.
  - rewrite eqb_tuple. intros E. apply list_eqb_eq in E; auto. now subst.
  - rewrite eqb_fset. intros E. apply list_eqb_eq in E; auto. now subst.
  - cbn. intros E. apply andb_prop in E as [E E3]. apply andb_prop in E as [E1 E2].
    apply IHa1 in E1. apply IHa2 in E2. apply IHa3 in E3. now subst.
  - cbn. intros E. apply N.eqb_eq in E. now subst.
Qed.
Lemma pyval_eqb_refl : forall a, pyval_eqb a a = true.
Proof.
  induction a using pyval_ind2; try reflexivity.
  - cbn. now destruct b.
  - cbn. apply Z.eqb_refl.
  - cbn. apply bytes_eqb_refl.
  - cbn. apply bytes_eqb_refl.
  - cbn. apply bytes_eqb_refl.
  - cbn. apply text_eqb_refl.
  - rewrite eqb_tuple. now apply list_eqb_refl.
  - rewrite eqb_fset. now apply list_eqb_refl.
  - cbn. now rewrite IHa1, IHa2, IHa3.
  - cbn. apply N.eqb_refl.
Qed.
Lemma pyval_eqb_sym a b : pyval_eqb a b = pyval_eqb b a.
Proof.
  destruct (pyval_eqb a b) eqn:E.
  - apply pyval_eqb_eq in E. subst. now rewrite pyval_eqb_refl.
  - destruct (pyval_eqb b a) eqn:E2; auto. apply pyval_eqb_eq in E2. subst. now rewrite pyval_eqb_refl in E.
Qed.
Lemma pyval_eqb_trans a b c : pyval_eqb a b = true -> pyval_eqb b c = true -> pyval_eqb a c = true.
Proof. intros H1 H2. apply pyval_eqb_eq in H1. now subst. Qed.

(* ---------- witnesses of the three defects, on the extracted instance ---------- *)
Definition witness_numeric_command : list byte := [x12; x08; x0d; x52; x50; x59; x43; x55; x02].  (* brine.dump(("RPYC", 5, ())) *)

Lemma loop_dies_bytes F pr P now h s : lookup_guarded F = false ->
  work_step ascii_upper ascii_lower fso_id pyval_eqb enc_all F pr P now h s witness_numeric_command = Some (Dead AttributeError).
Proof.
  intros G. unfold work_step.
  assert (E : decode P witness_numeric_command = Some (PTuple [PStr RPYC; PInt 5; PTuple []])).
  { destruct P as [[|] md]; vm_compute; reflexivity. }
  rewrite E. f_equal. now apply loop_dies_unguarded.
Qed.

(* register FOO :1234; register BAR :999; unregister :999  logs "removed FOO :999" *)
Definition h1 : text := T "10.0.0.1".
Definition witness_history : list event :=     (* newest first *)
  [(1001, h1, RRegister [T "BAR"] (PInt 999)); (1000, h1, RRegister [T "FOO"] (PInt 1234))].

Lemma spurious_removed F pr : notify_only_present F = false ->
  let s := state_after pyval_eqb F pr witness_history in
  exists s' m rep, exec pyval_eqb F pr 1002 h1 (RUnregister (PInt 999)) s = Next s' m rep
    /\ member pyval_eqb (T "FOO") (h1, PInt 999) s = false
    /\ member pyval_eqb (T "FOO") (h1, PInt 999) s' = false
    /\ count pyval_eqb false (T "FOO") (h1, PInt 999) m = 1%nat.
Proof.
  intros HF. destruct F as [g n t rg rv tc se]. cbn in HF. subst n.
  eexists _, _, _. split; [vm_compute; reflexivity|]. vm_compute. auto.
Qed.


Definition keq_equiv (keq : pyval -> pyval -> bool) : Prop :=
  (forall a, keq a a = true) /\ (forall a b, keq a b = keq b a)
  /\ (forall a b c, keq a b = true -> keq b c = true -> keq a c = true).
Lemma pyval_eqb_equiv : keq_equiv pyval_eqb.
Proof. split; [exact pyval_eqb_refl|split; [exact pyval_eqb_sym|exact pyval_eqb_trans]]. Qed.

Lemma undecodable_dropped upper lower fso keq enc F pr P now h s dg e : load P dg = Raise e ->
  work_step upper lower fso keq enc F pr P now h s dg = Some (Next s [] None).
Proof. intros E. unfold work_step, decode. now rewrite E. Qed.

(* ---------- witnesses on the extracted instance: reply encoding, lazy expiry ---------- *)
(* a concrete [enc]: nesting below a limit (the interpreter's recursion limit seen from _work) *)
Lemma shallow_tuple_ok L : enc_tuple_ok (shallow (S (S L))).
Proof.
  intros l. cbn [shallow]. induction l as [|x r IH]; cbn [forallb]; auto.
  rewrite IH. cbn [shallow forallb]. now rewrite andb_true_r.
Qed.

Definition deep3 : pyval := PTuple [PTuple [PTuple [PInt 0]]].
Definition register_deep : pyval :=
  PTuple [PStr RPYC; PStr (T "REGISTER"); PTuple [PTuple [PStr (T "deep")]; deep3]].
Definition query_deep : pyval := PTuple [PStr RPYC; PStr (T "QUERY"); PTuple [PStr (T "deep")]].

(* register is acknowledged; the next query for that name ends the loop (F: reply not guarded),
   or is never answered (reply guarded, no validation), or the register is refused (validation) *)
Lemma reply_dies_witness F : reply_guarded F = false -> register_validates F = false ->
  exists s1 m1, work_val ascii_upper ascii_lower fso_id pyval_eqb (shallow 5) F 240 1000 h1 [] register_deep = Next s1 m1 (Some OKv)
  /\ work_val ascii_upper ascii_lower fso_id pyval_eqb (shallow 5) F 240 1000 h1 s1 query_deep = Dead OtherError.
Proof.
  intros G V. destruct F as [g n t rg rv tc se]. cbn in G, V. subst rg rv.
  destruct se; eexists _, _; split; vm_compute; reflexivity.
Qed.
Lemma reply_lost_witness F : reply_guarded F = true -> register_validates F = false ->
  exists s1 m1, work_val ascii_upper ascii_lower fso_id pyval_eqb (shallow 5) F 240 1000 h1 [] register_deep = Next s1 m1 (Some OKv)
  /\ work_val ascii_upper ascii_lower fso_id pyval_eqb (shallow 5) F 240 1000 h1 s1 query_deep = Next s1 [] None.
Proof.
  intros G V. destruct F as [g n t rg rv tc se]. cbn in G, V. subst rg rv.
  destruct se; eexists _, _; split; vm_compute; reflexivity.
Qed.
Lemma register_refused_witness F : register_validates F = true ->
  work_val ascii_upper ascii_lower fso_id pyval_eqb (shallow 5) F 240 1000 h1 [] register_deep = Next [] [] None.
Proof. intros V. destruct F as [g n t rg rv tc se]. cbn in V. subst rv. destruct se; vm_compute; reflexivity. Qed.

(* expiry is noticed only by the next query for that name: at 1010 the registration of 1000 is no longer
   fresh (interval 5) but still counted present, and its re-registration at 1011 notifies nothing *)
Definition lazy_history : list event := [(1010, h1, RNone); (1000, h1, RRegister [T "FOO"] (PInt 1))].
Lemma lazy_expiry_witness F :
  mono lazy_history
  /\ live pyval_eqb lazy_history (T "FOO") (h1, PInt 1) = Some 1000 /\ stale_at 5 lazy_history 1000
  /\ member pyval_eqb (T "FOO") (h1, PInt 1) (state_after pyval_eqb F 5 lazy_history) = true
  /\ notes_of (exec pyval_eqb F 5 1011 h1 (RRegister [T "FOO"] (PInt 1)) (state_after pyval_eqb F 5 lazy_history)) = [].
Proof. repeat split; try (cbn; lia); try exact I; vm_compute; reflexivity. Qed.

(* ---------- reply size: a stock client reads MAX_DGRAM_SIZE bytes once ---------- *)
Definition client_read (bound : Z) (bs : list byte) : list byte := firstn (Z.to_nat bound) bs.
Lemma whole_reply_read bound bs : Z.of_nat (List.length bs) <= bound -> client_read bound bs = bs.
Proof. intros H. unfold client_read. apply firstn_all2. lia. Qed.
Lemma cut_reply_read bound bs : 0 <= bound < Z.of_nat (List.length bs) -> client_read bound bs <> bs.
Proof.
  intros H E. unfold client_read in E. apply (f_equal (@List.length byte)) in E.
  rewrite firstn_length_le in E by lia. lia.
Qed.

(* ninety genuine servers of one name, registered at the same instant *)
Definition many_history : list event :=
  map (fun k => (1000, T "10.0.0.1", RRegister [T "FOO"] (PInt (20000 + Z.of_nat k)))) (seq 0 90).
Lemma mono_const (f : nat -> req) h l : mono (map (fun k => (1000, h, f k)) l).
Proof.
  induction l as [|x r IH]; [exact I|]. cbn [map mono]. split; [|exact IH].
  destruct r; cbn; [exact I|lia].
Qed.
Lemma big_reply_witness F :
  mono many_history /\ clock_le many_history 1000
  /\ match exec pyval_eqb F 240 1000 h1 (RQuery (T "FOO")) (state_after pyval_eqb F 240 many_history) with
     | Next _ _ (Some rep) =>
         match dump {| sp := true; maxdigits := 4300 |} rep with
         | Ok bs => 1500 < Z.of_nat (List.length bs) /\ client_read 1500 bs <> bs
         | _ => False
         end
     | _ => False
     end.
Proof.
  split; [apply mono_const|]. split; [cbn; lia|].
  vm_compute. split; [reflexivity|discriminate].
Qed.

(* ---------- a port that is not == to itself (NaN): every theorem above assumes [keq] reflexive ---------- *)
Definition nanbits : list byte := [x7f; xf8; x00; x00; x00; x00; x00; x00].
Definition keq_never (a b : pyval) : bool := false.
Definition nan_history : list event :=
  [(1002, h1, RUnregister (PFloat nanbits)); (1001, h1, RRegister [T "FOO"] (PFloat nanbits));
   (1000, h1, RRegister [T "FOO"] (PFloat nanbits))].
Lemma self_unequal_witness F :
  snd (cmd_query keq_never F 240 1003 (T "FOO") (state_after keq_never F 240 nan_history))
  = [(h1, PFloat nanbits); (h1, PFloat nanbits)].
Proof. vm_compute. reflexivity. Qed.
