From V Require Import lib.Base lib.Utf8.
From Coq Require Import ZifyBool.
Open Scope N_scope.
Ltac Zify.zify_post_hook ::= Z.to_euclidean_division_equations.

Ltac kill_if :=
  repeat match goal with
  | |- context [if ?c then _ else _] =>
      let E := fresh "E" in destruct c eqn:E; try (exfalso; clear - E; unfold inr, cont, is_surrogate in *; lia);
      try lia
  end.

Lemma dec1_enc1 sp c bs rest : enc1 sp c = Some bs -> dec1 sp (bs ++ rest) = Some (c, rest).
Proof.
  unfold enc1.
  destruct (N.ltb_spec c 0x80) as [H1|H1].
  { intros [= <-]. cbn [app dec1]. rewrite to_b_of by lia.
    destruct (N.ltb_spec c 128); [reflexivity|exfalso; lia]. }
  destruct (N.ltb_spec c 0x800) as [H2|H2].
  { intros [= <-]. cbn [app dec1]. rewrite !to_b_of by lia.
    assert (A: (0xC0 + c / 64 <? 0x80) = false) by lia. rewrite A.
    assert (B: inr 0xC2 0xDF (0xC0 + c / 64) = true) by (unfold inr; lia). rewrite B.
    assert (C: cont (0x80 + c mod 64) = true) by (unfold cont; lia). rewrite C.
    f_equal. f_equal. lia. }
  destruct (N.ltb_spec c 0x10000) as [H3|H3].
  { destruct (is_surrogate c && negb sp) eqn:ES; [discriminate|]. intros [= <-].
    cbn [app dec1]. rewrite !to_b_of by lia.
    assert (A: (0xE0 + c / 4096 <? 0x80) = false) by lia. rewrite A.
    assert (B: inr 0xC2 0xDF (0xE0 + c / 4096) = false) by (unfold inr; lia). rewrite B.
    assert (C: inr 0xE0 0xEF (0xE0 + c / 4096) = true) by (unfold inr; lia). rewrite C.
    assert (D: cont (0x80 + c mod 64) = true) by (unfold cont; lia). rewrite D.
    assert (F: (if 0xE0 + c / 4096 =? 0xE0 then inr 0xA0 0xBF (0x80 + (c / 64) mod 64)
                else if 0xE0 + c / 4096 =? 0xED then (if sp then cont (0x80 + (c / 64) mod 64) else inr 0x80 0x9F (0x80 + (c / 64) mod 64))
                else cont (0x80 + (c / 64) mod 64)) = true).
    { destruct (N.eqb_spec (0xE0 + c / 4096) 0xE0) as [E0|E0]; [unfold inr; lia|].
      destruct (N.eqb_spec (0xE0 + c / 4096) 0xED) as [E1|E1]; [|unfold cont; lia].
      destruct sp; [unfold cont; lia|].
      unfold is_surrogate in ES. rewrite andb_true_r in ES. unfold inr. lia. }
    rewrite F. cbn [andb]. f_equal. f_equal. lia. }
  destruct (N.ltb_spec c 0x110000) as [H4|H4]; [|discriminate].
  intros [= <-]. cbn [app dec1]. rewrite !to_b_of by lia.
  assert (A: (0xF0 + c / 262144 <? 0x80) = false) by lia. rewrite A.
  assert (B: inr 0xC2 0xDF (0xF0 + c / 262144) = false) by (unfold inr; lia). rewrite B.
  assert (C: inr 0xE0 0xEF (0xF0 + c / 262144) = false) by (unfold inr; lia). rewrite C.
  assert (C': inr 0xF0 0xF4 (0xF0 + c / 262144) = true) by (unfold inr; lia). rewrite C'.
  assert (D: cont (0x80 + c mod 64) = true) by (unfold cont; lia). rewrite D.
  assert (D': cont (0x80 + (c / 64) mod 64) = true) by (unfold cont; lia). rewrite D'.
  assert (F: (if 0xF0 + c / 262144 =? 0xF0 then inr 0x90 0xBF (0x80 + (c / 4096) mod 64)
              else if 0xF0 + c / 262144 =? 0xF4 then inr 0x80 0x8F (0x80 + (c / 4096) mod 64)
              else cont (0x80 + (c / 4096) mod 64)) = true).
  { destruct (N.eqb_spec (0xF0 + c / 262144) 0xF0) as [E0|E0]; [unfold inr; lia|].
    destruct (N.eqb_spec (0xF0 + c / 262144) 0xF4) as [E1|E1]; [unfold inr; lia|unfold cont; lia]. }
  rewrite F. cbn [andb]. f_equal. f_equal. lia.
Qed.

Lemma enc1_nonempty sp c bs : enc1 sp c = Some bs -> bs <> [].
Proof.
  unfold enc1. repeat match goal with |- context [if ?c then _ else _] => destruct c end;
  intros [= <-] || discriminate; discriminate.
Qed.

Lemma decode_encode_f sp : forall cs bs f, utf8_encode sp cs = Ok bs -> (length bs <= f)%nat ->
  utf8_decode_f f sp bs = Ok cs.
Proof.
  induction cs as [|c t IH]; intros bs f.
  - intros [= <-] _. destruct f; reflexivity.
  - cbn [utf8_encode]. destruct (enc1 sp c) as [e|] eqn:E; [|discriminate].
    destruct (utf8_encode sp t) as [r| | |] eqn:ER; cbn [bind]; try discriminate.
    intros [= <-] Hf.
    pose proof (enc1_nonempty _ _ _ E) as NE.
    destruct e as [|e0 e']; [congruence|]. cbn [app].
    destruct f as [|f]; [cbn in Hf; lia|]. cbn [utf8_decode_f].
    change (e0 :: e' ++ r) with ((e0 :: e') ++ r). rewrite (dec1_enc1 _ _ _ _ E).
    rewrite (IH r f eq_refl); [reflexivity|]. cbn in Hf. rewrite app_length in Hf. lia.
Qed.

Theorem utf8_roundtrip sp cs bs : utf8_encode sp cs = Ok bs -> utf8_decode sp bs = Ok cs.
Proof. intros H. unfold utf8_decode. eapply decode_encode_f; eauto. Qed.

(* encoding succeeds exactly on well-formed code points without (unpassed) surrogates *)
Definition cp_ok (sp : bool) (c : N) : bool := (c <? 0x110000) && negb (is_surrogate c && negb sp).
Lemma enc1_ok sp c : cp_ok sp c = true -> exists bs, enc1 sp c = Some bs.
Proof.
  unfold cp_ok, enc1. intros H. apply andb_true_iff in H as [H1 H2].
  apply negb_true_iff in H2.
  destruct (c <? 0x80); [eauto|]. destruct (c <? 0x800); [eauto|].
  destruct (c <? 0x10000); [rewrite H2; eauto|]. rewrite H1. eauto.
Qed.
Lemma enc1_fail sp c : cp_ok sp c = false -> enc1 sp c = None.
Proof.
  unfold cp_ok, enc1, is_surrogate. intros H.
  destruct (N.ltb_spec c 0x80); [exfalso; lia|]. destruct (N.ltb_spec c 0x800); [exfalso; lia|].
  destruct (N.ltb_spec c 0x10000).
  { destruct ((0xD800 <=? c) && (c <=? 0xDFFF) && negb sp) eqn:E; [reflexivity|]. exfalso. destruct sp; cbn in *; lia. }
  destruct (N.ltb_spec c 0x110000); [|reflexivity]. exfalso.
  destruct sp; cbn in H; lia.
Qed.
Lemma encode_ok sp cs : forallb (cp_ok sp) cs = true -> exists bs, utf8_encode sp cs = Ok bs.
Proof.
  induction cs as [|c t IH]; cbn [forallb utf8_encode]; [eauto|].
  intros H. apply andb_true_iff in H as [Hc Ht]. destruct (enc1_ok _ _ Hc) as [e ->].
  destruct (IH Ht) as [r ->]. cbn. eauto.
Qed.
Lemma encode_fail sp cs : forallb (cp_ok sp) cs = false -> utf8_encode sp cs = Raise UnicodeError.
Proof.
  induction cs as [|c t IH]; cbn [forallb utf8_encode]; [discriminate|].
  destruct (cp_ok sp c) eqn:Hc; cbn [andb].
  - intros Ht. destruct (enc1_ok _ _ Hc) as [e ->]. rewrite (IH Ht). reflexivity.
  - intros _. now rewrite (enc1_fail _ _ Hc).
Qed.
