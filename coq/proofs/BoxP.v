(* Proofs about model/Box.v: what reaches the peer, by value or by reference, and identity. *)
From V Require Import lib.Base lib.Sx lib.Utf8 model.Ladder model.Brine proofs.BrineP model.Box.
From Coq Require Import ZifyBool.
Open Scope Z_scope.

(* ---- keys ---- *)
Lemma cps_eqb_eq a : forall b, cps_eqb a b = true <-> a = b.
Proof.
  induction a as [|x a IH]; intros [|y b]; simpl; split; try congruence; try discriminate.
  - intros H. apply andb_true_iff in H as [H1 H2]. apply N.eqb_eq in H1. apply IH in H2. congruence.
  - intros [= -> ->]. rewrite N.eqb_refl. simpl. now apply IH.
Qed.
Lemma idpack_eqb_eq a b : idpack_eqb a b = true <-> a = b.
Proof.
  destruct a as [[n1 c1] o1], b as [[n2 c2] o2]. unfold idpack_eqb. split.
  - intros H. apply andb_true_iff in H as [H H3]. apply andb_true_iff in H as [H1 H2].
    apply cps_eqb_eq in H1. apply Z.eqb_eq in H2. apply Z.eqb_eq in H3. congruence.
  - intros [= -> -> ->]. rewrite !Z.eqb_refl, andb_true_r, andb_true_r. now apply cps_eqb_eq.
Qed.
Lemma idpack_eqb_refl a : idpack_eqb a a = true.
Proof. now apply idpack_eqb_eq. Qed.
Lemma idpack_eqb_neq a b : idpack_eqb a b = false <-> a <> b.
Proof.
  split.
  - intros H E. subst. now rewrite idpack_eqb_refl in H.
  - intros H. destruct (idpack_eqb a b) eqn:E; [|reflexivity]. apply idpack_eqb_eq in E. contradiction.
Qed.
Lemma idpack_eq_dec (a b : idpack) : {a = b} + {a <> b}.
Proof.
  destruct (idpack_eqb a b) eqn:E; [left; now apply idpack_eqb_eq|right; now apply idpack_eqb_neq].
Qed.

(* ---- dictionaries ---- *)
Section Dict.
Context {A : Type}.
Implicit Types (t : list (idpack * A)) (k : idpack).

Lemma lookup_update_same k a t : lookup k (update k a t) = Some a.
Proof.
  induction t as [|[k' a'] t IH]; simpl.
  - now rewrite idpack_eqb_refl.
  - destruct (idpack_eqb k k') eqn:E; simpl; rewrite E; auto.
Qed.
Lemma lookup_update_other k k' a t : k' <> k -> lookup k' (update k a t) = lookup k' t.
Proof.
  intros H. induction t as [|[k2 a2] t IH]; simpl.
  - apply idpack_eqb_neq in H. now rewrite H.
  - destruct (idpack_eqb k k2) eqn:E; simpl.
    + apply idpack_eqb_eq in E. subst k2. apply idpack_eqb_neq in H. now rewrite H.
    + now rewrite IH.
Qed.
Lemma lookup_remove_same k t : lookup k (remove k t) = None.
Proof.
  induction t as [|[k2 a2] t IH]; simpl; auto.
  destruct (idpack_eqb k k2) eqn:E; simpl; auto. now rewrite E.
Qed.
Lemma lookup_remove_other k k' t : k' <> k -> lookup k' (remove k t) = lookup k' t.
Proof.
  intros H. induction t as [|[k2 a2] t IH]; simpl; auto.
  destruct (idpack_eqb k k2) eqn:E; simpl.
  - apply idpack_eqb_eq in E. subst k2. apply idpack_eqb_neq in H. now rewrite H.
  - now rewrite IH.
Qed.
End Dict.

(* RefCountingColl.add keeps what is there, and the object of a slot never changes *)
Lemma lookup_coll_add_same k obj t :
  lookup k (coll_add k obj t) = Some (match lookup k t with Some (o, c) => (o, c + 1) | None => (obj, 0) end).
Proof.
  unfold coll_add. destruct (lookup k t) as [[o c]|]; apply lookup_update_same.
Qed.
Lemma lookup_coll_add_other k k' obj t : k' <> k -> lookup k' (coll_add k obj t) = lookup k' t.
Proof.
  intros H. unfold coll_add. destruct (lookup k t) as [[o c]|]; now apply lookup_update_other.
Qed.
Lemma has_coll_add_mono k k' obj t : has k' t = true -> has k' (coll_add k obj t) = true.
Proof.
  unfold has. intros H. destruct (idpack_eq_dec k' k) as [->|N].
  - rewrite lookup_coll_add_same. destruct (lookup k t) as [[? ?]|]; auto.
  - now rewrite lookup_coll_add_other.
Qed.
Lemma has_coll_add_same k obj t : has k (coll_add k obj t) = true.
Proof. unfold has. rewrite lookup_coll_add_same. destruct (lookup k t) as [[? ?]|]; auto. Qed.

Section Reg.
Variable idp : pyval -> idpack.
Lemma has_register_mono regs : forall t k, has k t = true -> has k (register idp regs t) = true.
Proof.
  induction regs as [|u regs IH]; intros t k H; simpl; auto. apply IH. now apply has_coll_add_mono.
Qed.
Lemma has_register regs : forall t u, In u regs -> has (idp u) (register idp regs t) = true.
Proof.
  induction regs as [|x regs IH]; intros t u []; simpl.
  - subst. apply has_register_mono, has_coll_add_same.
  - now apply IH.
Qed.
Lemma register_app r1 r2 t : register idp (r1 ++ r2) t = register idp r2 (register idp r1 t).
Proof. unfold register. apply fold_left_app. Qed.
(* the slot of a key that is already in the table keeps its object *)
Lemma register_keeps_obj regs : forall t k o c, lookup k t = Some (o, c) ->
  exists c', lookup k (register idp regs t) = Some (o, c') /\ c <= c'.
Proof.
  induction regs as [|x regs IH]; intros t k o c H; simpl.
  - exists c. split; auto; lia.
  - destruct (idpack_eq_dec k (idp x)) as [->|N].
    + destruct (IH (coll_add (idp x) x t) (idp x) o (c + 1)) as (c' & E & L).
      { rewrite lookup_coll_add_same, H. reflexivity. }
      exists c'. split; auto; lia.
    + apply IH. now rewrite lookup_coll_add_other.
Qed.
(* keys in the table are the keys of the objects stored under them *)
Definition keyed (t : list (idpack * (pyval * Z))) : Prop :=
  forall k o c, lookup k t = Some (o, c) -> idp o = k.
Lemma keyed_coll_add u t : keyed t -> keyed (coll_add (idp u) u t).
Proof.
  intros K k o c H. destruct (idpack_eq_dec k (idp u)) as [->|N].
  - rewrite lookup_coll_add_same in H. destruct (lookup (idp u) t) as [[o' c']|] eqn:E.
    + injection H as <- _. exact (K _ _ _ E).
    + now injection H as <- _.
  - rewrite lookup_coll_add_other in H by exact N. exact (K _ _ _ H).
Qed.
Lemma keyed_register regs : forall t, keyed t -> keyed (register idp regs t).
Proof. induction regs as [|u regs IH]; intros t K; simpl; auto. apply IH. now apply keyed_coll_add. Qed.
End Reg.

(* ---- _box with the ladder of the source tree ---- *)
Definition is_tuple (v : pyval) : bool := match v with PTuple _ => true | _ => false end.

Section Std.
Variable idp : pyval -> idpack.
Variable mk : list idpack.
Notation boxs := (box std_bladder idp mk).
Notation box_itemss := (box_items std_bladder idp mk).

Lemma box_items_eq l :
  (fix go (l : list pyval) : result (list pyval * list pyval) :=
     match l with
     | [] => Ok ([], [])
     | y :: ys => do (p, r) <- boxs y; do (ps, rs) <- go ys; Ok (p :: ps, r ++ rs)
     end) l = box_itemss l.
Proof. induction l as [|y ys IH]; simpl; auto. Qed.

Lemma own_proxy_shape v k : own_proxy mk v = Some k -> dumpable v = false /\ is_tuple v = false.
Proof. unfold own_proxy, proxy_serial. destruct v; try discriminate. auto. Qed.

Lemma box_value v : dumpable v = true -> boxs v = Ok (pair 1 v, []).
Proof. intros H. destruct v; simpl in *; try rewrite H; try reflexivity; discriminate. Qed.
Lemma box_tuple l : dumpable (PTuple l) = false ->
  boxs (PTuple l) = do (ps, rs) <- box_itemss l; Ok (pair 2 (PTuple ps), rs).
Proof. intros H. simpl in *. rewrite H. rewrite box_items_eq. reflexivity. Qed.
Lemma box_own v k : own_proxy mk v = Some k -> boxs v = Ok (pair 3 (pv_of_idpack k), []).
Proof.
  intros H. pose proof (own_proxy_shape _ _ H) as [D T].
  destruct v; try discriminate. simpl. unfold cond_holds. rewrite H. reflexivity.
Qed.
Lemma box_reg v : dumpable v = false -> is_tuple v = false -> own_proxy mk v = None ->
  boxs v = Ok (pair 4 (pv_of_idpack (idp v)), [v]).
Proof.
  intros D T H. destruct v; try discriminate; simpl in *; try rewrite D; try reflexivity.
  unfold cond_holds. rewrite H. reflexivity.
Qed.

(* the four cases are exhaustive *)
Lemma box_cases v :
  (dumpable v = true) \/ (exists l, v = PTuple l /\ dumpable v = false) \/
  (exists k, own_proxy mk v = Some k) \/ (dumpable v = false /\ is_tuple v = false /\ own_proxy mk v = None).
Proof.
  destruct (dumpable v) eqn:D; [now left|right].
  destruct v; try (right; right; repeat split; reflexivity); try discriminate.
  - left. eauto.
  - right. destruct (own_proxy mk (POther k)) eqn:E; [left; eauto|right; auto].
Qed.

(* what the receiving party ends up with: a pure specification *)
Fixpoint recv (v : pyval) (r : side) : pyval * side :=
  if dumpable v then (v, r) else
  match v with
  | PTuple l =>
      let (vs, r') := (fix go (l : list pyval) (r : side) : list pyval * side :=
                         match l with
                         | [] => ([], r)
                         | y :: ys => let (y', r1) := recv y r in let (ys', r2) := go ys r1 in (y' :: ys', r2)
                         end) l r in
      (PTuple vs, r')
  | _ => match own_proxy mk v with
         | Some k => (match lookup k (ltab r) with Some (o, _) => o | None => PNone end, r)
         | None => accept (idp v) r
         end
  end.
Fixpoint recv_items (l : list pyval) (r : side) : list pyval * side :=
  match l with
  | [] => ([], r)
  | y :: ys => let (y', r1) := recv y r in let (ys', r2) := recv_items ys r1 in (y' :: ys', r2)
  end.
Lemma recv_items_eq l : forall r,
  (fix go (l : list pyval) (r : side) : list pyval * side :=
     match l with
     | [] => ([], r)
     | y :: ys => let (y', r1) := recv y r in let (ys', r2) := go ys r1 in (y' :: ys', r2)
     end) l r = recv_items l r.
Proof. induction l as [|y ys IH]; intros r; simpl; auto; try (destruct (recv y r); now rewrite IH). Qed.

Lemma recv_value v r : dumpable v = true -> recv v r = (v, r).
Proof. intros H. destruct v; simpl in *; try rewrite H; try reflexivity; discriminate. Qed.
Lemma recv_tuple l r : dumpable (PTuple l) = false ->
  recv (PTuple l) r = let (vs, r') := recv_items l r in (PTuple vs, r').
Proof. intros H. simpl in *. rewrite H, recv_items_eq. reflexivity. Qed.
Lemma recv_own v k r : own_proxy mk v = Some k ->
  recv v r = (match lookup k (ltab r) with Some (o, _) => o | None => PNone end, r).
Proof.
  intros H. pose proof (own_proxy_shape _ _ H) as [D T]. destruct v; try discriminate. simpl. now rewrite H.
Qed.
Lemma recv_reg v r : dumpable v = false -> is_tuple v = false -> own_proxy mk v = None -> recv v r = accept (idp v) r.
Proof.
  intros D T H. destruct v; try discriminate; simpl in *; try rewrite D; try reflexivity. now rewrite H.
Qed.

Lemma accept_ltab k r : ltab (snd (accept k r)) = ltab r.
Proof. unfold accept. destruct (lookup k (cache r)) as [[n rc]|]; reflexivity. Qed.
Lemma recv_ltab : forall v r, ltab (snd (recv v r)) = ltab r.
Proof.
  induction v using pyval_ind'; intros r; try reflexivity.
  - (* tuple *) destruct (dumpable (PTuple l)) eqn:D; [now rewrite recv_value|]. rewrite recv_tuple by exact D.
    destruct (recv_items l r) as [vs r'] eqn:E. simpl.
    clear D. revert r vs r' E. induction H as [|y ys Hy Hys IH]; intros r vs r' E; simpl in E.
    + now injection E as _ <-.
    + destruct (recv y r) as [y' r1] eqn:E1. destruct (recv_items ys r1) as [ys' r2] eqn:E2.
      injection E as _ <-. rewrite (IH _ _ _ E2). specialize (Hy r). now rewrite E1 in Hy.
  - (* fset *) destruct (dumpable (PFset l)) eqn:D; [now rewrite recv_value|].
    rewrite recv_reg; auto. apply accept_ltab.
  - (* slice *) destruct (dumpable (PSlice v1 v2 v3)) eqn:D; [now rewrite recv_value|].
    rewrite recv_reg; auto. apply accept_ltab.
  - (* other *) destruct (own_proxy mk (POther k)) eqn:E.
    + now rewrite (recv_own _ _ _ E).
    + rewrite recv_reg; auto. apply accept_ltab.
Qed.
Lemma recv_items_ltab l : forall r, ltab (snd (recv_items l r)) = ltab r.
Proof.
  induction l as [|y ys IH]; intros r; simpl; auto.
  destruct (recv y r) as [y' r1] eqn:E1. destruct (recv_items ys r1) as [ys' r2] eqn:E2. simpl.
  specialize (IH r1). rewrite E2 in IH. simpl in IH. rewrite IH.
  pose proof (recv_ltab y r) as H. now rewrite E1 in H.
Qed.

(* every proxy of the sender that occurs in v (outside frozensets and slices) is known to its owner *)
Fixpoint echo_ok (lt : list (idpack * (pyval * Z))) (v : pyval) : bool :=
  if dumpable v then true else
  match v with
  | PTuple l => forallb (echo_ok lt) l
  | _ => match own_proxy mk v with Some k => has k lt | None => true end
  end.
Lemma echo_ok_tuple lt l : dumpable (PTuple l) = false -> echo_ok lt (PTuple l) = forallb (echo_ok lt) l.
Proof. intros H. simpl in *. now rewrite H. Qed.

(* ---- _unbox undoes _box: the receiving party ends with [recv] ---- *)
Section UB.
Variable fok : idpack -> bool.
Notation unboxs := (unbox std_uladder fok).
Notation unbox_itemss := (unbox_items std_uladder fok).

Lemma unbox_items_eq l : forall s,
  (fix go (l : list pyval) (s : side) : result (list pyval * side) :=
     match l with
     | [] => Ok ([], s)
     | y :: ys => do (v, s1) <- unboxs y s; do (vs, s2) <- go ys s1; Ok (v :: vs, s2)
     end) l s = unbox_itemss l s.
Proof.
  induction l as [|y ys IH]; intros s; simpl; auto;
  try (destruct (unbox std_uladder fok y s) as [[v s1]| | |]; simpl; auto; now rewrite IH).
Qed.

Lemma unbox_value x s : unboxs (pair 1 x) s = Ok (x, s).
Proof. reflexivity. Qed.
Lemma unbox_tuple ps s : unboxs (pair 2 (PTuple ps)) s = do (vs, s') <- unbox_itemss ps s; Ok (PTuple vs, s').
Proof. simpl. now rewrite unbox_items_eq. Qed.
Lemma unbox_local k s : unboxs (pair 3 (pv_of_idpack k)) s =
  match lookup k (ltab s) with Some (obj, _) => Ok (obj, s) | None => Raise KeyError end.
Proof. destruct k as [[n c] o]. reflexivity. Qed.
Lemma unbox_remote k s : unboxs (pair 4 (pv_of_idpack k)) s =
  match lookup k (cache s) with Some _ => Ok (accept k s) | None => if fok k then Ok (accept k s) else Raise KeyError end.
Proof. destruct k as [[n c] o]. reflexivity. Qed.

Theorem unbox_box lt : forall v r pkg regs,
  boxs v = Ok (pkg, regs) -> echo_ok lt v = true -> ltab r = lt ->
  (forall u, In u regs -> fok (idp u) = true) ->
  unboxs pkg r = Ok (recv v r).
Proof.
  induction v using pyval_ind'; intros r pkg regs B E L F;
    try (rewrite box_value in B by reflexivity; injection B as <- <-; rewrite unbox_value; now rewrite recv_value).
  - (* tuple *)
    destruct (dumpable (PTuple l)) eqn:D.
    { rewrite box_value in B by exact D. injection B as <- <-. rewrite unbox_value. now rewrite recv_value. }
    rewrite box_tuple in B by exact D. rewrite echo_ok_tuple in E by exact D. rewrite recv_tuple by exact D.
    destruct (box_itemss l) as [[ps rs]| | |] eqn:BI; try discriminate. simpl in B. injection B as <- <-.
    rewrite unbox_tuple.
    assert (G : unbox_itemss ps r = Ok (recv_items l r)).
    { clear D. revert r ps rs BI E L F. induction H as [|y ys Hy Hys IH]; intros r ps rs BI E L F; simpl in BI.
      - injection BI as <- <-. reflexivity.
      - destruct (boxs y) as [[p r1]| | |] eqn:B1; try discriminate. simpl in BI.
        destruct (box_itemss ys) as [[ps' rs']| | |] eqn:B2; try discriminate. simpl in BI. injection BI as <- <-.
        simpl in E. apply andb_true_iff in E as [E1 E2]. simpl.
        rewrite (Hy r p r1 eq_refl E1 L) by (intros u Hu; apply F, in_or_app; now left). simpl.
        destruct (recv y r) as [y' s1] eqn:R1.
        assert (L1 : ltab s1 = lt). { pose proof (recv_ltab y r) as X. rewrite R1 in X. simpl in X. congruence. }
        rewrite (IH s1 ps' rs' eq_refl E2 L1) by (intros u Hu; apply F, in_or_app; now right). simpl.
        destruct (recv_items ys s1). reflexivity. }
    rewrite G. simpl. destruct (recv_items l r). reflexivity.
  - (* frozenset *)
    destruct (dumpable (PFset l)) eqn:D.
    { rewrite box_value in B by exact D. injection B as <- <-. rewrite unbox_value. now rewrite recv_value. }
    rewrite box_reg in B by auto. injection B as <- <-. rewrite unbox_remote, recv_reg by auto.
    rewrite (F (PFset l)) by (now left). now destruct (lookup _ _).
  - (* slice *)
    destruct (dumpable (PSlice v1 v2 v3)) eqn:D.
    { rewrite box_value in B by exact D. injection B as <- <-. rewrite unbox_value. now rewrite recv_value. }
    rewrite box_reg in B by auto. injection B as <- <-. rewrite unbox_remote, recv_reg by auto.
    rewrite (F (PSlice v1 v2 v3)) by (now left). now destruct (lookup _ _).
  - (* any other object *)
    destruct (own_proxy mk (POther k)) as [key|] eqn:O.
    + rewrite (box_own _ _ O) in B. injection B as <- <-. rewrite unbox_local, (recv_own _ _ _ O).
      simpl in E. rewrite O in E. unfold has in E. rewrite L. destruct (lookup key lt) as [[o c]|]; [reflexivity|discriminate].
    + rewrite box_reg in B by auto. injection B as <- <-. rewrite unbox_remote, recv_reg by auto.
      rewrite (F (POther k)) by (now left). now destruct (lookup _ _).
Qed.
End UB.
End Std.

(* ---- the package as a pure function; it is always an immutable plain value ---- *)
Local Arguments pair : simpl never.
Section Pkg.
Variable P : bparams.
Variable idp : pyval -> idpack.
Variable mk : list idpack.

Fixpoint pkg_of (v : pyval) : pyval :=
  if dumpable v then pair 1 v else
  match v with
  | PTuple l => pair 2 (PTuple (map pkg_of l))
  | _ => match own_proxy mk v with
         | Some k => pair 3 (pv_of_idpack k)
         | None => pair 4 (pv_of_idpack (idp v))
         end
  end.
Fixpoint regs_of (v : pyval) : list pyval :=
  if dumpable v then [] else
  match v with
  | PTuple l => flat_map regs_of l
  | _ => match own_proxy mk v with Some _ => [] | None => [v] end
  end.

Lemma box_spec : forall v, box std_bladder idp mk v = Ok (pkg_of v, regs_of v).
Proof.
  induction v using pyval_ind'; try (rewrite box_value by reflexivity; reflexivity).
  - destruct (dumpable (PTuple l)) eqn:D.
    { rewrite box_value by exact D. simpl in *. now rewrite D. }
    rewrite box_tuple by exact D.
    assert (G : box_items std_bladder idp mk l = Ok (map pkg_of l, flat_map regs_of l)).
    { clear D. induction H as [|y ys Hy Hys IH]; simpl; auto. rewrite Hy. simpl. rewrite IH. reflexivity. }
    rewrite G. simpl in *. now rewrite D.
  - destruct (dumpable (PFset l)) eqn:D.
    { rewrite box_value by exact D. simpl in *. now rewrite D. }
    rewrite box_reg by auto. simpl in *. now rewrite D.
  - destruct (dumpable (PSlice v1 v2 v3)) eqn:D.
    { rewrite box_value by exact D. simpl in *. now rewrite D. }
    rewrite box_reg by auto. simpl in *. now rewrite D.
  - destruct (own_proxy mk (POther k)) as [key|] eqn:O.
    + rewrite (box_own _ _ _ _ O). simpl. now rewrite O.
    + rewrite box_reg by auto. simpl. now rewrite O.
Qed.

Lemma dumpable_idpack k : dumpable (pv_of_idpack k) = true.
Proof. destruct k as [[n c] o]. reflexivity. Qed.

Theorem pkg_dumpable : forall v, dumpable (pkg_of v) = true.
Proof.
  induction v using pyval_ind'; try reflexivity.
  - simpl. destruct (forallb dumpable l) eqn:D; simpl; [now rewrite D|].
    rewrite andb_true_r. clear D. induction H as [|y ys Hy Hys IH]; simpl; auto. now rewrite Hy, IH.
  - simpl. destruct (forallb dumpable l) eqn:D; simpl; [now rewrite D|]. now rewrite dumpable_idpack.
  - simpl. destruct (dumpable v1 && dumpable v2 && dumpable v3) eqn:D; simpl; [now rewrite D|]. now rewrite dumpable_idpack.
  - simpl. destruct (own_proxy mk (POther k)); simpl; now rewrite dumpable_idpack.
Qed.

(* encodability of the package follows from encodability of the value and of the id packs *)
Hypothesis idp_wf : forall u, wf P (pv_of_idpack (idp u)) = true.
Hypothesis mk_wf : forall k, In k mk -> wf P (pv_of_idpack k) = true.
Lemma own_proxy_in v k : own_proxy mk v = Some k -> In k mk.
Proof. unfold own_proxy. destruct (proxy_serial v); [|discriminate]. apply nth_error_In. Qed.

Lemma wf_pair lab x : is_imm lab = true -> wf P (pair lab x) = wf P x.
Proof. intros H. unfold pair. cbn [wf forallb]. rewrite H. simpl. now rewrite andb_true_r. Qed.

Lemma pkg_of_value v : dumpable v = true -> pkg_of v = pair 1 v.
Proof. intros H. destruct v; simpl in *; try rewrite H; try reflexivity; discriminate. Qed.
Lemma pkg_of_tuple l : dumpable (PTuple l) = false -> pkg_of (PTuple l) = pair 2 (PTuple (map pkg_of l)).
Proof. intros H. simpl in *. now rewrite H. Qed.
Lemma pkg_of_own v k : own_proxy mk v = Some k -> pkg_of v = pair 3 (pv_of_idpack k).
Proof. intros H. pose proof (own_proxy_shape _ _ _ H) as [D T]. destruct v; try discriminate. simpl. now rewrite H. Qed.
Lemma pkg_of_reg v : dumpable v = false -> is_tuple v = false -> own_proxy mk v = None ->
  pkg_of v = pair 4 (pv_of_idpack (idp v)).
Proof. intros D T H. destruct v; try discriminate; simpl in *; try rewrite D; try reflexivity. now rewrite H. Qed.

(* a structural predicate that ignores labels holds of the package when it holds of the value and of the id packs *)
Lemma pkg_struct (Q : pyval -> bool) :
  (forall lab x, In lab [1; 2; 3; 4] -> Q (pair lab x) = Q x) ->
  (forall l, Q (PTuple l) = true -> Q (PTuple (map pkg_of l)) = forallb Q (map pkg_of l)) ->
  (forall l, Q (PTuple l) = true -> forallb Q l = true) ->
  (forall u, Q (pv_of_idpack (idp u)) = true) -> (forall k, In k mk -> Q (pv_of_idpack k) = true) ->
  forall v, Q v = true -> Q (pkg_of v) = true.
Proof.
  intros Qp Qt Qi Qu Qm. induction v using pyval_ind'; intros W;
    try (rewrite pkg_of_value by reflexivity; rewrite Qp by (solve [auto | simpl; auto 6]); exact W).
  - destruct (dumpable (PTuple l)) eqn:D; [rewrite pkg_of_value, Qp by (solve [auto | simpl; auto 6]); exact W|].
    rewrite pkg_of_tuple, Qp by (solve [auto | simpl; auto 6]). rewrite Qt by exact W. apply Qi in W. clear D.
    induction H as [|y ys Hy Hys IH]; simpl in W |- *; auto. apply andb_true_iff in W as [A B]. now rewrite Hy, IH.
  - destruct (dumpable (PFset l)) eqn:D; [rewrite pkg_of_value, Qp by (solve [auto | simpl; auto 6]); exact W|].
    rewrite pkg_of_reg, Qp by (solve [auto | simpl; auto 6]). apply Qu.
  - destruct (dumpable (PSlice v1 v2 v3)) eqn:D; [rewrite pkg_of_value, Qp by (solve [auto | simpl; auto 6]); exact W|].
    rewrite pkg_of_reg, Qp by (solve [auto | simpl; auto 6]). apply Qu.
  - destruct (own_proxy mk (POther k)) eqn:O.
    + rewrite (pkg_of_own _ _ O), Qp by (solve [auto | simpl; auto 6]). apply Qm. eapply own_proxy_in; eauto.
    + rewrite pkg_of_reg, Qp by (solve [auto | simpl; auto 6]). apply Qu.
Qed.

Theorem pkg_wf : forall v, wf P v = true -> wf P (pkg_of v) = true.
Proof.
  apply pkg_struct; auto.
  - intros lab x H. apply wf_pair. simpl in H. intuition subst; reflexivity.
  - intros l H. cbn [wf] in *. apply andb_true_iff in H as [H _]. unfold nlen in *. now rewrite map_length, H.
  - intros l H. cbn [wf] in H. now apply andb_true_iff in H as [_ H].
Qed.

Hypothesis idp_ns : forall u, text_ok P (pv_of_idpack (idp u)) = true.
Hypothesis mk_ns : forall k, In k mk -> text_ok P (pv_of_idpack k) = true.
Lemma nosurr_pair lab x : nosurr (pair lab x) = nosurr x.
Proof. simpl. now rewrite andb_true_r. Qed.
Theorem pkg_text_ok : forall v, text_ok P v = true -> text_ok P (pkg_of v) = true.
Proof.
  unfold text_ok in *. destruct (sp P) eqn:S; [reflexivity|]. simpl in *.
  apply pkg_struct; auto. intros; apply nosurr_pair.
Qed.
End Pkg.

(* the wire: C04's round trip *)
Lemma wire P pkg : wf P pkg = true -> dumpable pkg = true -> text_ok P pkg = true ->
  (do bytes <- dump P pkg; load P bytes) = Ok pkg.
Proof. intros W D T. destruct (load_dump P pkg W D T) as (bs & E & L). rewrite E. exact L. Qed.
