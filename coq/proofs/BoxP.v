(* Proofs about model/Box.v: what reaches the peer, by value or by reference, and identity. *)
From V Require Import lib.Base lib.Sx lib.Utf8 model.Ladder model.Brine proofs.BrineP model.Box.
From Coq Require Import ZifyBool.
Open Scope Z_scope.

(* ---- keys ---- *)
Lemma cps_eqb_eq a : forall b, cps_eqb a b = true <-> a = b.
Proof.
  induction a as [|x a IH]; intros [|y b]; simpl; split; try congruence; try discriminate.
  - intros H. apply andb_true_iff in H as [H1 H2]. apply N.eqb_eq in H1. apply IH in H2. congruence.
  - intros [= -> ->]. rewrite N.eqb_refl. simpl. now apply IH.
Qed.
Lemma idpack_eqb_eq a b : idpack_eqb a b = true <-> a = b.
Proof.
  destruct a as [[n1 c1] o1], b as [[n2 c2] o2]. unfold idpack_eqb. split.
  - intros H. apply andb_true_iff in H as [H H3]. apply andb_true_iff in H as [H1 H2].
    apply cps_eqb_eq in H1. apply Z.eqb_eq in H2. apply Z.eqb_eq in H3. congruence.
  - intros [= -> -> ->]. rewrite !Z.eqb_refl, andb_true_r, andb_true_r. now apply cps_eqb_eq.
Qed.
Lemma idpack_eqb_refl a : idpack_eqb a a = true.
Proof. now apply idpack_eqb_eq. Qed.
Lemma idpack_eqb_neq a b : idpack_eqb a b = false <-> a <> b.
Proof.
  split.
  - intros H E. subst. now rewrite idpack_eqb_refl in H.
  - intros H. destruct (idpack_eqb a b) eqn:E; [|reflexivity]. apply idpack_eqb_eq in E. contradiction.
Qed.
Lemma idpack_eq_dec (a b : idpack) : {a = b} + {a <> b}.
Proof.
  destruct (idpack_eqb a b) eqn:E; [left; now apply idpack_eqb_eq|right; now apply idpack_eqb_neq].
Qed.

(* ---- dictionaries ---- *)
Section Dict.
Context {A : Type}.
Implicit Types (t : list (idpack * A)) (k : idpack).

Lemma lookup_update_same k a t : lookup k (update k a t) = Some a.
Proof.
  induction t as [|[k' a'] t IH]; simpl.
  - now rewrite idpack_eqb_refl.
  - destruct (idpack_eqb k k') eqn:E; simpl; rewrite E; auto.
Qed.
Lemma lookup_update_other k k' a t : k' <> k -> lookup k' (update k a t) = lookup k' t.
Proof.
  intros H. induction t as [|[k2 a2] t IH]; simpl.
  - apply idpack_eqb_neq in H. now rewrite H.
  - destruct (idpack_eqb k k2) eqn:E; simpl.
    + apply idpack_eqb_eq in E. subst k2. apply idpack_eqb_neq in H. now rewrite H.
    + now rewrite IH.
Qed.
Lemma lookup_remove_same k t : lookup k (remove k t) = None.
Proof.
  induction t as [|[k2 a2] t IH]; simpl; auto.
  destruct (idpack_eqb k k2) eqn:E; simpl; auto. now rewrite E.
Qed.
Lemma lookup_remove_other k k' t : k' <> k -> lookup k' (remove k t) = lookup k' t.
Proof.
  intros H. induction t as [|[k2 a2] t IH]; simpl; auto.
  destruct (idpack_eqb k k2) eqn:E; simpl.
  - apply idpack_eqb_eq in E. subst k2. apply idpack_eqb_neq in H. now rewrite H.
  - now rewrite IH.
Qed.
End Dict.

(* RefCountingColl.add keeps what is there, and the object of a slot never changes *)
Lemma lookup_coll_add_same k obj t :
  lookup k (coll_add k obj t) = Some (match lookup k t with Some (o, c) => (o, c + 1) | None => (obj, 0) end).
Proof.
  unfold coll_add. destruct (lookup k t) as [[o c]|]; apply lookup_update_same.
Qed.
Lemma lookup_coll_add_other k k' obj t : k' <> k -> lookup k' (coll_add k obj t) = lookup k' t.
Proof.
  intros H. unfold coll_add. destruct (lookup k t) as [[o c]|]; now apply lookup_update_other.
Qed.
Lemma has_coll_add_mono k k' obj t : has k' t = true -> has k' (coll_add k obj t) = true.
Proof.
  unfold has. intros H. destruct (idpack_eq_dec k' k) as [->|N].
  - rewrite lookup_coll_add_same. destruct (lookup k t) as [[? ?]|]; auto.
  - now rewrite lookup_coll_add_other.
Qed.
Lemma has_coll_add_same k obj t : has k (coll_add k obj t) = true.
Proof. unfold has. rewrite lookup_coll_add_same. destruct (lookup k t) as [[? ?]|]; auto. Qed.

Section Reg.
Variable idp : pyval -> idpack.
Lemma has_register_mono regs : forall t k, has k t = true -> has k (register idp regs t) = true.
Proof.
  induction regs as [|u regs IH]; intros t k H; simpl; auto. apply IH. now apply has_coll_add_mono.
Qed.
Lemma has_register regs : forall t u, In u regs -> has (idp u) (register idp regs t) = true.
Proof.
  induction regs as [|x regs IH]; intros t u []; simpl.
  - subst. apply has_register_mono, has_coll_add_same.
  - now apply IH.
Qed.
Lemma register_app r1 r2 t : register idp (r1 ++ r2) t = register idp r2 (register idp r1 t).
Proof. unfold register. apply fold_left_app. Qed.
(* the slot of a key that is already in the table keeps its object *)
Lemma register_keeps_obj regs : forall t k o c, lookup k t = Some (o, c) ->
  exists c', lookup k (register idp regs t) = Some (o, c') /\ c <= c'.
Proof.
  induction regs as [|x regs IH]; intros t k o c H; simpl.
  - exists c. split; auto; lia.
  - destruct (idpack_eq_dec k (idp x)) as [->|N].
    + destruct (IH (coll_add (idp x) x t) (idp x) o (c + 1)) as (c' & E & L).
      { rewrite lookup_coll_add_same, H. reflexivity. }
      exists c'. split; auto; lia.
    + apply IH. now rewrite lookup_coll_add_other.
Qed.
(* keys in the table are the keys of the objects stored under them *)
Definition keyed (t : list (idpack * (pyval * Z))) : Prop :=
  forall k o c, lookup k t = Some (o, c) -> idp o = k.
Lemma keyed_coll_add u t : keyed t -> keyed (coll_add (idp u) u t).
Proof.
  intros K k o c H. destruct (idpack_eq_dec k (idp u)) as [->|N].
  - rewrite lookup_coll_add_same in H. destruct (lookup (idp u) t) as [[o' c']|] eqn:E.
    + injection H as <- _. exact (K _ _ _ E).
    + now injection H as <- _.
  - rewrite lookup_coll_add_other in H by exact N. exact (K _ _ _ H).
Qed.
Lemma keyed_register regs : forall t, keyed t -> keyed (register idp regs t).
Proof. induction regs as [|u regs IH]; intros t K; simpl; auto. apply IH. now apply keyed_coll_add. Qed.
End Reg.

(* ---- _box with the ladder of the source tree ---- *)
Definition is_tuple (v : pyval) : bool := match v with PTuple _ => true | _ => false end.

Section Std.
Variable idp : pyval -> idpack.
Variable mk : list idpack.
Notation boxs := (box std_bladder idp mk).
Notation box_itemss := (box_items std_bladder idp mk).

Lemma box_items_eq l :
  (fix go (l : list pyval) : result (list pyval * list pyval) :=
     match l with
     | [] => Ok ([], [])
     | y :: ys => do (p, r) <- boxs y; do (ps, rs) <- go ys; Ok (p :: ps, r ++ rs)
     end) l = box_itemss l.
Proof. induction l as [|y ys IH]; simpl; auto. Qed.

Lemma own_proxy_shape v k : own_proxy mk v = Some k -> dumpable v = false /\ is_tuple v = false.
Proof. unfold own_proxy, proxy_serial. destruct v; try discriminate. auto. Qed.

Lemma box_value v : dumpable v = true -> boxs v = Ok (pair 1 v, []).
Proof. intros H. destruct v; simpl in *; try rewrite H; try reflexivity; discriminate. Qed.
Lemma box_tuple l : dumpable (PTuple l) = false ->
  boxs (PTuple l) = do (ps, rs) <- box_itemss l; Ok (pair 2 (PTuple ps), rs).
Proof. intros H. simpl in *. rewrite H. rewrite box_items_eq. reflexivity. Qed.
Lemma box_own v k : own_proxy mk v = Some k -> boxs v = Ok (pair 3 (pv_of_idpack k), []).
Proof.
  intros H. pose proof (own_proxy_shape _ _ H) as [D T].
  destruct v; try discriminate. simpl. unfold cond_holds. rewrite H. reflexivity.
Qed.
Lemma box_reg v : dumpable v = false -> is_tuple v = false -> own_proxy mk v = None ->
  boxs v = Ok (pair 4 (pv_of_idpack (idp v)), [v]).
Proof.
  intros D T H. destruct v; try discriminate; simpl in *; try rewrite D; try reflexivity.
  unfold cond_holds. rewrite H. reflexivity.
Qed.

(* the four cases are exhaustive *)
Lemma box_cases v :
  (dumpable v = true) \/ (exists l, v = PTuple l /\ dumpable v = false) \/
  (exists k, own_proxy mk v = Some k) \/ (dumpable v = false /\ is_tuple v = false /\ own_proxy mk v = None).
Proof.
  destruct (dumpable v) eqn:D; [now left|right].
  destruct v; try (right; right; repeat split; reflexivity); try discriminate.
  - left. eauto.
  - right. destruct (own_proxy mk (POther k)) eqn:E; [left; eauto|right; auto].
Qed.

(* what the receiving party ends up with: a pure specification *)
Fixpoint recv (v : pyval) (r : side) : pyval * side :=
  if dumpable v then (v, r) else
  match v with
  | PTuple l =>
      let (vs, r') := (fix go (l : list pyval) (r : side) : list pyval * side :=
                         match l with
                         | [] => ([], r)
                         | y :: ys => let (y', r1) := recv y r in let (ys', r2) := go ys r1 in (y' :: ys', r2)
                         end) l r in
      (PTuple vs, r')
  | _ => match own_proxy mk v with
         | Some k => (match lookup k (ltab r) with Some (o, _) => o | None => PNone end, r)
         | None => accept (idp v) r
         end
  end.
Fixpoint recv_items (l : list pyval) (r : side) : list pyval * side :=
  match l with
  | [] => ([], r)
  | y :: ys => let (y', r1) := recv y r in let (ys', r2) := recv_items ys r1 in (y' :: ys', r2)
  end.
Lemma recv_items_eq l : forall r,
  (fix go (l : list pyval) (r : side) : list pyval * side :=
     match l with
     | [] => ([], r)
     | y :: ys => let (y', r1) := recv y r in let (ys', r2) := go ys r1 in (y' :: ys', r2)
     end) l r = recv_items l r.
Proof. induction l as [|y ys IH]; intros r; simpl; auto; try (destruct (recv y r); now rewrite IH). Qed.

Lemma recv_value v r : dumpable v = true -> recv v r = (v, r).
Proof. intros H. destruct v; simpl in *; try rewrite H; try reflexivity; discriminate. Qed.
Lemma recv_tuple l r : dumpable (PTuple l) = false ->
  recv (PTuple l) r = let (vs, r') := recv_items l r in (PTuple vs, r').
Proof. intros H. simpl in *. rewrite H, recv_items_eq. reflexivity. Qed.
Lemma recv_own v k r : own_proxy mk v = Some k ->
  recv v r = (match lookup k (ltab r) with Some (o, _) => o | None => PNone end, r).
Proof.
  intros H. pose proof (own_proxy_shape _ _ H) as [D T]. destruct v; try discriminate. simpl. now rewrite H.
Qed.
Lemma recv_reg v r : dumpable v = false -> is_tuple v = false -> own_proxy mk v = None -> recv v r = accept (idp v) r.
Proof.
  intros D T H. destruct v; try discriminate; simpl in *; try rewrite D; try reflexivity. now rewrite H.
Qed.

Lemma accept_ltab k r : ltab (snd (accept k r)) = ltab r.
Proof. unfold accept. destruct (lookup k (cache r)) as [[n rc]|]; reflexivity. Qed.
Lemma recv_ltab : forall v r, ltab (snd (recv v r)) = ltab r.
Proof.
  induction v using pyval_ind'; intros r; try reflexivity.
  - (* tuple *) destruct (dumpable (PTuple l)) eqn:D; [now rewrite recv_value|]. rewrite recv_tuple by exact D.
    destruct (recv_items l r) as [vs r'] eqn:E. simpl.
    clear D. revert r vs r' E. induction H as [|y ys Hy Hys IH]; intros r vs r' E; simpl in E.
    + now injection E as _ <-.
    + destruct (recv y r) as [y' r1] eqn:E1. destruct (recv_items ys r1) as [ys' r2] eqn:E2.
      injection E as _ <-. rewrite (IH _ _ _ E2). specialize (Hy r). now rewrite E1 in Hy.
  - (* fset *) destruct (dumpable (PFset l)) eqn:D; [now rewrite recv_value|].
    rewrite recv_reg; auto. apply accept_ltab.
  - (* slice *) destruct (dumpable (PSlice v1 v2 v3)) eqn:D; [now rewrite recv_value|].
    rewrite recv_reg; auto. apply accept_ltab.
  - (* other *) destruct (own_proxy mk (POther k)) eqn:E.
    + now rewrite (recv_own _ _ _ E).
    + rewrite recv_reg; auto. apply accept_ltab.
Qed.
Lemma recv_items_ltab l : forall r, ltab (snd (recv_items l r)) = ltab r.
Proof.
  induction l as [|y ys IH]; intros r; simpl; auto.
  destruct (recv y r) as [y' r1] eqn:E1. destruct (recv_items ys r1) as [ys' r2] eqn:E2. simpl.
  specialize (IH r1). rewrite E2 in IH. simpl in IH. rewrite IH.
  pose proof (recv_ltab y r) as H. now rewrite E1 in H.
Qed.

(* every proxy of the sender that occurs in v (outside frozensets and slices) is known to its owner *)
Fixpoint echo_ok (lt : list (idpack * (pyval * Z))) (v : pyval) : bool :=
  if dumpable v then true else
  match v with
  | PTuple l => forallb (echo_ok lt) l
  | _ => match own_proxy mk v with Some k => has k lt | None => true end
  end.
Lemma echo_ok_tuple lt l : dumpable (PTuple l) = false -> echo_ok lt (PTuple l) = forallb (echo_ok lt) l.
Proof. intros H. simpl in *. now rewrite H. Qed.

(* ---- _unbox undoes _box: the receiving party ends with [recv] ---- *)
Section UB.
Variable fok : idpack -> bool.
Notation unboxs := (unbox std_uladder fok).
Notation unbox_itemss := (unbox_items std_uladder fok).

Lemma unbox_items_eq l : forall s,
  (fix go (l : list pyval) (s : side) : result (list pyval * side) :=
     match l with
     | [] => Ok ([], s)
     | y :: ys => do (v, s1) <- unboxs y s; do (vs, s2) <- go ys s1; Ok (v :: vs, s2)
     end) l s = unbox_itemss l s.
Proof.
  induction l as [|y ys IH]; intros s; simpl; auto;
  try (destruct (unbox std_uladder fok y s) as [[v s1]| | |]; simpl; auto; now rewrite IH).
Qed.

Lemma unbox_value x s : unboxs (pair 1 x) s = Ok (x, s).
Proof. reflexivity. Qed.
Lemma unbox_tuple ps s : unboxs (pair 2 (PTuple ps)) s = do (vs, s') <- unbox_itemss ps s; Ok (PTuple vs, s').
Proof. simpl. now rewrite unbox_items_eq. Qed.
Lemma unbox_local k s : unboxs (pair 3 (pv_of_idpack k)) s =
  match lookup k (ltab s) with Some (obj, _) => Ok (obj, s) | None => Raise KeyError end.
Proof. destruct k as [[n c] o]. reflexivity. Qed.
Lemma unbox_remote k s : unboxs (pair 4 (pv_of_idpack k)) s =
  match lookup k (cache s) with Some _ => Ok (accept k s) | None => if fok k then Ok (accept k s) else Raise KeyError end.
Proof. destruct k as [[n c] o]. reflexivity. Qed.

Theorem unbox_box lt : forall v r pkg regs,
  boxs v = Ok (pkg, regs) -> echo_ok lt v = true -> ltab r = lt ->
  (forall u, In u regs -> fok (idp u) = true) ->
  unboxs pkg r = Ok (recv v r).
Proof.
  induction v using pyval_ind'; intros r pkg regs B E L F;
    try (rewrite box_value in B by reflexivity; injection B as <- <-; rewrite unbox_value; now rewrite recv_value).
  - (* tuple *)
    destruct (dumpable (PTuple l)) eqn:D.
    { rewrite box_value in B by exact D. injection B as <- <-. rewrite unbox_value. now rewrite recv_value. }
    rewrite box_tuple in B by exact D. rewrite echo_ok_tuple in E by exact D. rewrite recv_tuple by exact D.
    destruct (box_itemss l) as [[ps rs]| | |] eqn:BI; try discriminate. simpl in B. injection B as <- <-.
    rewrite unbox_tuple.
    assert (G : unbox_itemss ps r = Ok (recv_items l r)).
    { clear D. revert r ps rs BI E L F. induction H as [|y ys Hy Hys IH]; intros r ps rs BI E L F; simpl in BI.
      - injection BI as <- <-. reflexivity.
      - destruct (boxs y) as [[p r1]| | |] eqn:B1; try discriminate. simpl in BI.
        destruct (box_itemss ys) as [[ps' rs']| | |] eqn:B2; try discriminate. simpl in BI. injection BI as <- <-.
        simpl in E. apply andb_true_iff in E as [E1 E2]. simpl.
        rewrite (Hy r p r1 eq_refl E1 L) by (intros u Hu; apply F, in_or_app; now left). simpl.
        destruct (recv y r) as [y' s1] eqn:R1.
        assert (L1 : ltab s1 = lt). { pose proof (recv_ltab y r) as X. rewrite R1 in X. simpl in X. congruence. }
        rewrite (IH s1 ps' rs' eq_refl E2 L1) by (intros u Hu; apply F, in_or_app; now right). simpl.
        destruct (recv_items ys s1). reflexivity. }
    rewrite G. simpl. destruct (recv_items l r). reflexivity.
  - (* frozenset *)
    destruct (dumpable (PFset l)) eqn:D.
    { rewrite box_value in B by exact D. injection B as <- <-. rewrite unbox_value. now rewrite recv_value. }
    rewrite box_reg in B by auto. injection B as <- <-. rewrite unbox_remote, recv_reg by auto.
    rewrite (F (PFset l)) by (now left). now destruct (lookup _ _).
  - (* slice *)
    destruct (dumpable (PSlice v1 v2 v3)) eqn:D.
    { rewrite box_value in B by exact D. injection B as <- <-. rewrite unbox_value. now rewrite recv_value. }
    rewrite box_reg in B by auto. injection B as <- <-. rewrite unbox_remote, recv_reg by auto.
    rewrite (F (PSlice v1 v2 v3)) by (now left). now destruct (lookup _ _).
  - (* any other object *)
    destruct (own_proxy mk (POther k)) as [key|] eqn:O.
    + rewrite (box_own _ _ O) in B. injection B as <- <-. rewrite unbox_local, (recv_own _ _ _ O).
      simpl in E. rewrite O in E. unfold has in E. rewrite L. destruct (lookup key lt) as [[o c]|]; [reflexivity|discriminate].
    + rewrite box_reg in B by auto. injection B as <- <-. rewrite unbox_remote, recv_reg by auto.
      rewrite (F (POther k)) by (now left). now destruct (lookup _ _).
Qed.
End UB.
End Std.

(* ---- the package as a pure function; it is always an immutable plain value ---- *)
Local Arguments pair : simpl never.
Section Pkg.
Variable P : bparams.
Variable idp : pyval -> idpack.
Variable mk : list idpack.

Fixpoint pkg_of (v : pyval) : pyval :=
  if dumpable v then pair 1 v else
  match v with
  | PTuple l => pair 2 (PTuple (map pkg_of l))
  | _ => match own_proxy mk v with
         | Some k => pair 3 (pv_of_idpack k)
         | None => pair 4 (pv_of_idpack (idp v))
         end
  end.
Fixpoint regs_of (v : pyval) : list pyval :=
  if dumpable v then [] else
  match v with
  | PTuple l => flat_map regs_of l
  | _ => match own_proxy mk v with Some _ => [] | None => [v] end
  end.

Lemma box_spec : forall v, box std_bladder idp mk v = Ok (pkg_of v, regs_of v).
Proof.
  induction v using pyval_ind'; try (rewrite box_value by reflexivity; reflexivity).
  - destruct (dumpable (PTuple l)) eqn:D.
    { rewrite box_value by exact D. simpl in *. now rewrite D. }
    rewrite box_tuple by exact D.
    assert (G : box_items std_bladder idp mk l = Ok (map pkg_of l, flat_map regs_of l)).
    { clear D. induction H as [|y ys Hy Hys IH]; simpl; auto. rewrite Hy. simpl. rewrite IH. reflexivity. }
    rewrite G. simpl in *. now rewrite D.
  - destruct (dumpable (PFset l)) eqn:D.
    { rewrite box_value by exact D. simpl in *. now rewrite D. }
    rewrite box_reg by auto. simpl in *. now rewrite D.
  - destruct (dumpable (PSlice v1 v2 v3)) eqn:D.
    { rewrite box_value by exact D. simpl in *. now rewrite D. }
    rewrite box_reg by auto. simpl in *. now rewrite D.
  - destruct (own_proxy mk (POther k)) as [key|] eqn:O.
    + rewrite (box_own _ _ _ _ O). simpl. now rewrite O.
    + rewrite box_reg by auto. simpl. now rewrite O.
Qed.

Lemma dumpable_idpack k : dumpable (pv_of_idpack k) = true.
Proof. destruct k as [[n c] o]. reflexivity. Qed.

Theorem pkg_dumpable : forall v, dumpable (pkg_of v) = true.
Proof.
  induction v using pyval_ind'; try reflexivity.
  - simpl. destruct (forallb dumpable l) eqn:D; simpl; [now rewrite D|].
    rewrite andb_true_r. clear D. induction H as [|y ys Hy Hys IH]; simpl; auto. now rewrite Hy, IH.
  - simpl. destruct (forallb dumpable l) eqn:D; simpl; [now rewrite D|]. now rewrite dumpable_idpack.
  - simpl. destruct (dumpable v1 && dumpable v2 && dumpable v3) eqn:D; simpl; [now rewrite D|]. now rewrite dumpable_idpack.
  - simpl. destruct (own_proxy mk (POther k)); simpl; now rewrite dumpable_idpack.
Qed.

(* encodability of the package follows from encodability of the value and of the id packs *)
Hypothesis idp_wf : forall u, wf P (pv_of_idpack (idp u)) = true.
Hypothesis mk_wf : forall k, In k mk -> wf P (pv_of_idpack k) = true.
Lemma own_proxy_in v k : own_proxy mk v = Some k -> In k mk.
Proof. unfold own_proxy. destruct (proxy_serial v); [|discriminate]. apply nth_error_In. Qed.

Lemma wf_pair lab x : is_imm lab = true -> wf P (pair lab x) = wf P x.
Proof. intros H. unfold pair. cbn [wf forallb]. rewrite H. simpl. now rewrite andb_true_r. Qed.

Lemma pkg_of_value v : dumpable v = true -> pkg_of v = pair 1 v.
Proof. intros H. destruct v; simpl in *; try rewrite H; try reflexivity; discriminate. Qed.
Lemma pkg_of_tuple l : dumpable (PTuple l) = false -> pkg_of (PTuple l) = pair 2 (PTuple (map pkg_of l)).
Proof. intros H. simpl in *. now rewrite H. Qed.
Lemma pkg_of_own v k : own_proxy mk v = Some k -> pkg_of v = pair 3 (pv_of_idpack k).
Proof. intros H. pose proof (own_proxy_shape _ _ _ H) as [D T]. destruct v; try discriminate. simpl. now rewrite H. Qed.
Lemma pkg_of_reg v : dumpable v = false -> is_tuple v = false -> own_proxy mk v = None ->
  pkg_of v = pair 4 (pv_of_idpack (idp v)).
Proof. intros D T H. destruct v; try discriminate; simpl in *; try rewrite D; try reflexivity. now rewrite H. Qed.

(* a structural predicate that ignores labels holds of the package when it holds of the value and of the id packs *)
Lemma pkg_struct (Q : pyval -> bool) :
  (forall lab x, In lab [1; 2; 3; 4] -> Q (pair lab x) = Q x) ->
  (forall l, Q (PTuple l) = true -> Q (PTuple (map pkg_of l)) = forallb Q (map pkg_of l)) ->
  (forall l, Q (PTuple l) = true -> forallb Q l = true) ->
  (forall u, Q (pv_of_idpack (idp u)) = true) -> (forall k, In k mk -> Q (pv_of_idpack k) = true) ->
  forall v, Q v = true -> Q (pkg_of v) = true.
Proof.
  intros Qp Qt Qi Qu Qm. induction v using pyval_ind'; intros W;
    try (rewrite pkg_of_value by reflexivity; rewrite Qp by (solve [auto | simpl; auto 6]); exact W).
  - destruct (dumpable (PTuple l)) eqn:D; [rewrite pkg_of_value, Qp by (solve [auto | simpl; auto 6]); exact W|].
    rewrite pkg_of_tuple, Qp by (solve [auto | simpl; auto 6]). rewrite Qt by exact W. apply Qi in W. clear D.
    induction H as [|y ys Hy Hys IH]; simpl in W |- *; auto. apply andb_true_iff in W as [A B]. now rewrite Hy, IH.
  - destruct (dumpable (PFset l)) eqn:D; [rewrite pkg_of_value, Qp by (solve [auto | simpl; auto 6]); exact W|].
    rewrite pkg_of_reg, Qp by (solve [auto | simpl; auto 6]). apply Qu.
  - destruct (dumpable (PSlice v1 v2 v3)) eqn:D; [rewrite pkg_of_value, Qp by (solve [auto | simpl; auto 6]); exact W|].
    rewrite pkg_of_reg, Qp by (solve [auto | simpl; auto 6]). apply Qu.
  - destruct (own_proxy mk (POther k)) eqn:O.
    + rewrite (pkg_of_own _ _ O), Qp by (solve [auto | simpl; auto 6]). apply Qm. eapply own_proxy_in; eauto.
    + rewrite pkg_of_reg, Qp by (solve [auto | simpl; auto 6]). apply Qu.
Qed.

Theorem pkg_wf : forall v, wf P v = true -> wf P (pkg_of v) = true.
Proof.
  apply pkg_struct; auto.
  - intros lab x H. apply wf_pair. simpl in H. intuition subst; reflexivity.
  - intros l H. cbn [wf] in *. apply andb_true_iff in H as [H _]. unfold nlen in *. now rewrite map_length, H.
  - intros l H. cbn [wf] in H. now apply andb_true_iff in H as [_ H].
Qed.

Hypothesis idp_ns : forall u, text_ok P (pv_of_idpack (idp u)) = true.
Hypothesis mk_ns : forall k, In k mk -> text_ok P (pv_of_idpack k) = true.
Lemma nosurr_pair lab x : nosurr (pair lab x) = nosurr x.
Proof. simpl. now rewrite andb_true_r. Qed.
Theorem pkg_text_ok : forall v, text_ok P v = true -> text_ok P (pkg_of v) = true.
Proof.
  unfold text_ok in *. destruct (sp P) eqn:S; [reflexivity|]. simpl in *.
  apply pkg_struct; auto. intros; apply nosurr_pair.
Qed.
End Pkg.

(* the wire: C04's round trip *)
Lemma wire P pkg : wf P pkg = true -> dumpable pkg = true -> text_ok P pkg = true ->
  (do bytes <- dump P pkg; load P bytes) = Ok pkg.
Proof. intros W D T. destruct (load_dump P pkg W D T) as (bs & E & L). rewrite E. exact L. Qed.
Lemma wire_k {B} P pkg (K : pyval -> result B) : wf P pkg = true -> dumpable pkg = true -> text_ok P pkg = true ->
  (do bytes <- dump P pkg; do pkg' <- load P bytes; K pkg') = K pkg.
Proof. intros W D T. destruct (load_dump P pkg W D T) as (bs & E & L). rewrite E. cbn [bind]. now rewrite L. Qed.

(* ---- two parties ---- *)
Lemma set_ltab_id s : set_ltab s (ltab s) = s.
Proof. now destruct s. Qed.
Lemma put2_get from w : put2 from (get w from) (get w (negb from)) = w.
Proof. destruct w, from; reflexivity. Qed.
Lemma get_put2_same from s r : get (put2 from s r) from = s.
Proof. now destruct from. Qed.
Lemma get_put2_other from s r : get (put2 from s r) (negb from) = r.
Proof. now destruct from. Qed.

Lemma proxy_serial_name n : proxy_serial (POther (proxy_name n)) = Some n.
Proof.
  unfold proxy_serial, proxy_name. replace (2 * n + 1)%N with (1 + 2 * n)%N by lia.
  rewrite N.odd_add_mul_2. simpl. f_equal.
  replace (1 + 2 * n)%N with (1 + n * 2)%N by lia. rewrite N.div_add by lia. reflexivity.
Qed.
Lemma own_proxy_name mk n : own_proxy mk (POther (proxy_name n)) = nth_error mk (N.to_nat n).
Proof. unfold own_proxy. now rewrite proxy_serial_name. Qed.

Section WorldP.
Variable P : bparams.
Variable idp : pyval -> idpack.
Hypothesis idp_wf : forall u, wf P (pv_of_idpack (idp u)) = true.
Hypothesis idp_ns : forall u, text_ok P (pv_of_idpack (idp u)) = true.
Notation transfers := (transfer P std_bladder std_uladder idp).

Definition keys_ok (mk : list idpack) : Prop :=
  forall k, In k mk -> wf P (pv_of_idpack k) = true /\ text_ok P (pv_of_idpack k) = true.

Theorem transfer_spec from v w :
  wf P v = true -> text_ok P v = true -> keys_ok (made (get w from)) ->
  echo_ok (made (get w from)) (ltab (get w (negb from))) v = true ->
  transfers from v w =
    Ok (fst (recv idp (made (get w from)) v (get w (negb from))),
        put2 from (set_ltab (get w from) (register idp (regs_of (made (get w from)) v) (ltab (get w from))))
                  (snd (recv idp (made (get w from)) v (get w (negb from))))).
Proof.
  intros W T K E. unfold transfer. rewrite box_spec. cbn [bind].
  rewrite wire_k; [|apply pkg_wf; auto; apply K|apply pkg_dumpable|apply pkg_text_ok; auto; apply K].
  erewrite unbox_box; [|apply box_spec|exact E|reflexivity|].
  - cbn [bind]. destruct (recv _ _ _ _). reflexivity.
  - intros u Hu. cbn [ltab set_ltab]. now apply has_register.
Qed.

(* 1. plain immutable values arrive as themselves and nothing else changes *)
Theorem values_by_copy from v w : dumpable v = true -> wf P v = true -> text_ok P v = true ->
  transfers from v w = Ok (v, w).
Proof.
  intros D W T. unfold transfer. rewrite box_value by exact D. cbn [bind register fold_left].
  rewrite set_ltab_id. rewrite wire_k; [|now rewrite wf_pair|unfold pair; simpl; now rewrite D|unfold text_ok in *; now rewrite nosurr_pair].
  rewrite unbox_value. cbn [bind]. now rewrite put2_get.
Qed.

(* ---- the invariant of every world reachable by well-behaved parties ---- *)
(* T k: the owner's table has key k *)
Definition cache_ok (T : idpack -> bool) (r : side) : Prop :=
  forall k n rc, lookup k (cache r) = Some (n, rc) -> nth_error (made r) (N.to_nat n) = Some k /\ T k = true.
Definition side_ok (T : idpack -> bool) (r : side) : Prop := cache_ok T r /\ keys_ok (made r).

Lemma nth_error_nlen {A} (l : list A) x : nth_error (l ++ [x]) (N.to_nat (nlen l)) = Some x.
Proof. unfold nlen. rewrite Nat2N.id, nth_error_app2, Nat.sub_diag by lia. reflexivity. Qed.
Lemma nth_error_app_some {A} (l : list A) x n y : nth_error l n = Some y -> nth_error (l ++ [x]) n = Some y.
Proof. intros H. rewrite nth_error_app1; auto. apply nth_error_Some. congruence. Qed.

Lemma accept_ok T k r : side_ok T r -> T k = true ->
  wf P (pv_of_idpack k) = true -> text_ok P (pv_of_idpack k) = true -> side_ok T (snd (accept k r)).
Proof.
  intros [C K] Tk Wk Nk. unfold accept. destruct (lookup k (cache r)) as [[n rc]|] eqn:E; cbn [snd]; split; unfold cache_ok; cbn [cache made set_cache]; auto.
  - intros k' n' rc' H. destruct (idpack_eq_dec k' k) as [->|N].
    + rewrite lookup_update_same in H. injection H as <- <-. split; auto. exact (proj1 (C _ _ _ E)).
    + rewrite lookup_update_other in H by exact N. exact (C _ _ _ H).
  - intros k' n' rc' H. destruct (idpack_eq_dec k' k) as [->|N].
    + rewrite lookup_update_same in H. injection H as <- <-. split; auto. apply nth_error_nlen.
    + rewrite lookup_update_other in H by exact N. destruct (C _ _ _ H) as [A B]. split; auto. now apply nth_error_app_some.
  - intros k' H. apply in_app_or in H as [H|[<-|[]]]; auto.
Qed.

Lemma recv_ok T mk : forall v r, side_ok T r -> (forall u, In u (regs_of mk v) -> T (idp u) = true) ->
  side_ok T (snd (recv idp mk v r)).
Proof.
  induction v using pyval_ind'; intros r S F; try (rewrite recv_value by reflexivity; exact S).
  - destruct (dumpable (PTuple l)) eqn:D; [rewrite recv_value by exact D; exact S|].
    rewrite recv_tuple by exact D. destruct (recv_items idp mk l r) as [vs r'] eqn:E. cbn [snd].
    assert (F' : forall u, In u (flat_map (regs_of mk) l) -> T (idp u) = true).
    { intros u Hu. apply F. simpl. simpl in D. now rewrite D. }
    clear D F. revert r vs r' S E F'. induction H as [|y ys Hy Hys IH]; intros r vs r' S E F; simpl in E.
    + now injection E as _ <-.
    + destruct (recv idp mk y r) as [y' r1] eqn:E1. destruct (recv_items idp mk ys r1) as [ys' r2] eqn:E2.
      injection E as _ <-. eapply IH; [|exact E2|].
      * specialize (Hy r S). rewrite E1 in Hy. apply Hy. intros u Hu. apply F. simpl. apply in_or_app. now left.
      * intros u Hu. apply F. simpl. apply in_or_app. now right.
  - destruct (dumpable (PFset l)) eqn:D; [rewrite recv_value by exact D; exact S|].
    rewrite recv_reg by auto. apply accept_ok; auto. apply F. simpl in *. rewrite D. now left.
  - destruct (dumpable (PSlice v1 v2 v3)) eqn:D; [rewrite recv_value by exact D; exact S|].
    rewrite recv_reg by auto. apply accept_ok; auto. apply F. simpl in *. rewrite D. now left.
  - destruct (own_proxy mk (POther k)) eqn:O.
    + rewrite (recv_own _ _ _ _ _ O). exact S.
    + rewrite recv_reg by auto. apply accept_ok; auto. apply F. simpl. rewrite O. now left.
Qed.

Definition inv1 (s t : side) : Prop :=
  side_ok (fun k => has k (ltab t)) s /\ keyed idp (ltab t).
Definition inv (w : world) : Prop := inv1 (wa w) (wb w) /\ inv1 (wb w) (wa w).
Lemma inv_get w a : inv w -> inv1 (get w a) (get w (negb a)) /\ inv1 (get w (negb a)) (get w a).
Proof. intros [A B]. destruct a; split; assumption. Qed.
Lemma inv_put2 a s r : inv1 s r -> inv1 r s -> inv (put2 a s r).
Proof. intros A B. destruct a; split; assumption. Qed.
Lemma inv0 : inv world0.
Proof.
  assert (H : inv1 side0 side0).
  { split; [split|]; [intros k n rc H; discriminate|intros k []|intros k o c H; discriminate]. }
  split; exact H.
Qed.

(* the application only hands over proxies it still holds *)
Fixpoint held (s : side) (v : pyval) : bool :=
  if dumpable v then true else
  match v with
  | PTuple l => forallb (held s) l
  | _ => match proxy_serial v with
         | Some n => match nth_error (made s) (N.to_nat n) with
                     | Some k => match lookup k (cache s) with Some (n', _) => (n' =? n)%N | None => false end
                     | None => true      (* not a proxy of this connection: an ordinary object *)
                     end
         | None => true
         end
  end.
Lemma held_echo_ok s t : inv1 s t -> forall v, held s v = true -> echo_ok (made s) (ltab t) v = true.
Proof.
  intros [[C _] _]. induction v using pyval_ind'; intros Hh; try reflexivity.
  - simpl in *. destruct (forallb dumpable l); auto.
    induction H as [|y ys Hy Hys IH]; simpl in *; auto. apply andb_true_iff in Hh as [A B]. now rewrite Hy, IH.
  - simpl in *. now destruct (forallb dumpable l).
  - simpl in *. now destruct (dumpable v1 && dumpable v2 && dumpable v3).
  - cbn [held echo_ok dumpable] in *. unfold own_proxy. destruct (proxy_serial (POther k)) as [n|]; auto.
    destruct (nth_error (made s) (N.to_nat n)) as [key|]; auto.
    destruct (lookup key (cache s)) as [[n' rc]|] eqn:E; [|discriminate]. exact (proj2 (C _ _ _ E)).
Qed.

Theorem transfer_inv from v w : inv w -> wf P v = true -> text_ok P v = true -> held (get w from) v = true ->
  exists v' w', transfers from v w = Ok (v', w') /\ inv w'.
Proof.
  intros I W T Hh. destruct (inv_get w from I) as [[[C K] Ky] [[C' K'] Ky']].
  rewrite transfer_spec; auto; [|now apply (held_echo_ok _ _ (conj (conj C K) Ky))].
  eexists _, _. split; [reflexivity|]. apply inv_put2.
  - split; [split|]; cbn [cache made ltab set_ltab]; auto.
    + intros k n rc H. rewrite recv_ltab. exact (C _ _ _ H).
    + rewrite recv_ltab. exact Ky.
  - split.
    + apply recv_ok; [|intros u Hu; cbn [ltab set_ltab]; now apply has_register].
      split; auto. intros k n rc H. destruct (C' _ _ _ H) as [A B]. split; auto.
      cbn [ltab set_ltab]. now apply has_register_mono.
    + cbn [ltab set_ltab]. now apply keyed_register.
Qed.

(* ---- 2. every other object arrives as a reference to it ---- *)
Definition byref (mk : list idpack) (v : pyval) : Prop :=
  dumpable v = false /\ is_tuple v = false /\ own_proxy mk v = None.

Lemma echo_ok_reg mk lt v : dumpable v = false -> is_tuple v = false -> own_proxy mk v = None -> echo_ok mk lt v = true.
Proof. intros D T O. destruct v; try discriminate; simpl in *; try rewrite D; try reflexivity. now rewrite O. Qed.
Lemma regs_of_reg mk v : dumpable v = false -> is_tuple v = false -> own_proxy mk v = None -> regs_of mk v = [v].
Proof. intros D T O. destruct v; try discriminate; simpl in *; try rewrite D; try reflexivity. now rewrite O. Qed.
Lemma regs_of_own mk v k : own_proxy mk v = Some k -> regs_of mk v = [].
Proof. intros O. pose proof (own_proxy_shape _ _ _ O) as [D T]. destruct v; try discriminate. simpl. now rewrite O. Qed.
Lemma regs_of_value mk v : dumpable v = true -> regs_of mk v = [].
Proof. intros D. destruct v; simpl in *; try rewrite D; try reflexivity; discriminate. Qed.
Lemma echo_ok_value mk lt v : dumpable v = true -> echo_ok mk lt v = true.
Proof. intros D. destruct v; simpl in *; try rewrite D; try reflexivity; discriminate. Qed.
Lemma echo_ok_own mk lt v k : own_proxy mk v = Some k -> echo_ok mk lt v = has k lt.
Proof. intros O. pose proof (own_proxy_shape _ _ _ O) as [D T]. destruct v; try discriminate. simpl. now rewrite O. Qed.

Lemma inv_keys w a : inv w -> keys_ok (made (get w a)).
Proof. intros I. destruct (inv_get w a I) as [[[_ K] _] _]. exact K. Qed.

Theorem refs_by_reference from v w :
  inv w -> byref (made (get w from)) v -> wf P v = true -> text_ok P v = true ->
  transfers from v w =
    Ok (fst (accept (idp v) (get w (negb from))),
        put2 from (set_ltab (get w from) (coll_add (idp v) v (ltab (get w from))))
                  (snd (accept (idp v) (get w (negb from))))).
Proof.
  intros I (D & T & O) W X. rewrite transfer_spec; auto; [|now apply inv_keys|now apply echo_ok_reg].
  rewrite recv_reg, regs_of_reg by auto. reflexivity.
Qed.

Lemma accept_alive k n rc r : lookup k (cache r) = Some (n, rc) ->
  accept k r = (POther (proxy_name n), set_cache r (update k (n, rc + 1) (cache r))).
Proof. intros H. unfold accept. now rewrite H. Qed.
Lemma accept_fresh k r : lookup k (cache r) = None ->
  accept k r = (POther (proxy_name (nlen (made r))),
                {| ltab := ltab r; made := made r ++ [k]; cache := update k (nlen (made r), 1) (cache r); mlog := mlog r |}).
Proof. intros H. unfold accept. now rewrite H. Qed.

(* ---- 4. a reference handed back to its owner is the original object, and nothing changes ---- *)
Lemma text_ok_other k : text_ok P (POther k) = true.
Proof. unfold text_ok. simpl. apply orb_true_r. Qed.

Theorem echo_identity a n k rc obj c w :
  inv w -> lookup k (cache (get w a)) = Some (n, rc) -> lookup k (ltab (get w (negb a))) = Some (obj, c) ->
  transfers a (POther (proxy_name n)) w = Ok (obj, w).
Proof.
  intros I C L. destruct (inv_get w a I) as [[[Cs K] Ky] _]. destruct (Cs _ _ _ C) as [Hn Hh].
  assert (O : own_proxy (made (get w a)) (POther (proxy_name n)) = Some k) by now rewrite own_proxy_name.
  rewrite transfer_spec; auto; [|apply text_ok_other|rewrite (echo_ok_own _ _ _ _ O); unfold has; now rewrite L].
  rewrite (recv_own _ _ _ _ _ O), (regs_of_own _ _ _ O), L. cbn [fst snd register fold_left].
  now rewrite set_ltab_id, put2_get.
Qed.

(* a request through the n-th proxy carrying a plain argument x: the owner's _unbox yields the object itself *)
Lemma request_via_proxy a n k rc obj c x w :
  inv w -> lookup k (cache (get w a)) = Some (n, rc) -> lookup k (ltab (get w (negb a))) = Some (obj, c) ->
  dumpable x = true -> wf P x = true -> text_ok P x = true ->
  transfers a (PTuple [POther (proxy_name n); x]) w = Ok (PTuple [obj; x], w).
Proof.
  intros I C L D W X. destruct (inv_get w a I) as [[[Cs K] Ky] _]. destruct (Cs _ _ _ C) as [Hn Hh].
  assert (O : own_proxy (made (get w a)) (POther (proxy_name n)) = Some k) by now rewrite own_proxy_name.
  assert (DT : dumpable (PTuple [POther (proxy_name n); x]) = false) by reflexivity.
  rewrite transfer_spec; auto.
  - rewrite recv_tuple by exact DT. cbn [recv_items]. rewrite (recv_own _ _ _ _ _ O), L, recv_value by exact D.
    cbn [fst snd]. replace (regs_of _ (PTuple [POther (proxy_name n); x])) with (@nil pyval).
    + cbn [register fold_left]. now rewrite set_ltab_id, put2_get.
    + cbn [regs_of dumpable forallb andb flat_map]. rewrite O, regs_of_value by exact D. reflexivity.
  - cbn [wf forallb]. now rewrite W.
  - unfold text_ok in *. cbn [nosurr forallb]. destruct (sp P); auto. simpl in *. now rewrite X.
  - rewrite echo_ok_tuple by exact DT. cbn [forallb]. rewrite (echo_ok_own _ _ _ _ O), echo_ok_value by exact D.
    unfold has. now rewrite L.
Qed.

(* ---- 3. an operation applied through a proxy is applied to the owner's object ---- *)
Theorem mutation_at_owner a n k rc obj c d w :
  inv w -> lookup k (cache (get w a)) = Some (n, rc) -> lookup k (ltab (get w (negb a))) = Some (obj, c) ->
  wf P (PInt d) = true ->
  mutate P std_bladder std_uladder idp a n d w =
    Ok (put2 a (get w a) (set_mlog (get w (negb a)) (mlog (get w (negb a)) ++ [(obj, d)]))).
Proof.
  intros I C L W. unfold mutate. rewrite (request_via_proxy a n k rc obj c (PInt d) w I C L); auto.
  unfold text_ok. simpl. apply orb_true_r.
Qed.

(* ---- dropping a proxy ---- *)
Theorem drop_spec a n k rc obj c w :
  inv w -> lookup k (cache (get w a)) = Some (n, rc) -> lookup k (ltab (get w (negb a))) = Some (obj, c) ->
  wf P (PInt rc) = true ->
  drop P std_bladder std_uladder idp a n w =
    Ok (put2 a (set_cache (get w a) (remove k (cache (get w a))))
               (set_ltab (get w (negb a))
                  (if c <? rc then remove k (ltab (get w (negb a))) else update k (obj, c - rc) (ltab (get w (negb a)))))).
Proof.
  intros I C L W. destruct (inv_get w a I) as [[[Cs K] Ky] _]. destruct (Cs _ _ _ C) as [Hn Hh].
  unfold drop. rewrite Hn, C, N.eqb_refl.
  rewrite (request_via_proxy a n k rc obj c (PInt rc) w I C L); auto; [|unfold text_ok; simpl; apply orb_true_r].
  cbn [bind]. rewrite (Ky _ _ _ L). unfold coll_decref. rewrite L. reflexivity.
Qed.

Theorem drop_inv a n w : inv w ->
  (forall k rc, lookup k (cache (get w a)) = Some (n, rc) -> wf P (PInt rc) = true) ->
  exists w', drop P std_bladder std_uladder idp a n w = Ok w' /\ inv w'.
Proof.
  intros I Wc. destruct (inv_get w a I) as [[[Cs K] Ky] [[Co Ko] Kyo]].
  destruct (nth_error (made (get w a)) (N.to_nat n)) as [k|] eqn:Hn; [|exists w; unfold drop; now rewrite Hn].
  destruct (lookup k (cache (get w a))) as [[n' rc]|] eqn:C; [|exists w; unfold drop; now rewrite Hn, C].
  destruct (N.eqb_spec n' n) as [->|Ne]; [|exists w; unfold drop; rewrite Hn, C; apply N.eqb_neq in Ne; now rewrite Ne].
  destruct (Cs _ _ _ C) as [_ Hh]. unfold has in Hh. destruct (lookup k (ltab (get w (negb a)))) as [[obj c]|] eqn:L; [|discriminate].
  rewrite (drop_spec a n k rc obj c w I C L (Wc _ _ C)). eexists; split; [reflexivity|]. apply inv_put2.
  - split; [split|]; unfold cache_ok, keyed; cbn [cache made ltab set_ltab set_cache]; auto.
    + intros k' n2 rc2 H. destruct (idpack_eq_dec k' k) as [->|N]; [now rewrite lookup_remove_same in H|].
      rewrite lookup_remove_other in H by exact N. destruct (Cs _ _ _ H) as [A B]. split; auto.
      unfold has in *. destruct (c <? rc); [now rewrite lookup_remove_other|now rewrite lookup_update_other].
    + intros k' o' c' H. destruct (c <? rc).
      * destruct (idpack_eq_dec k' k) as [->|N]; [now rewrite lookup_remove_same in H|].
        rewrite lookup_remove_other in H by exact N. exact (Ky _ _ _ H).
      * destruct (idpack_eq_dec k' k) as [->|N].
        -- rewrite lookup_update_same in H. injection H as <- _. exact (Ky _ _ _ L).
        -- rewrite lookup_update_other in H by exact N. exact (Ky _ _ _ H).
  - split; [split|]; unfold cache_ok, keyed; cbn [cache made ltab set_ltab set_cache]; auto.
Qed.

(* ---- 5. one proxy per remote object while it is alive ---- *)
Lemma proxy_name_inj m n : POther (proxy_name m) = POther (proxy_name n) -> m = n.
Proof. unfold proxy_name. intros [= H]. lia. Qed.

Lemma accept_cache k r : exists n rc, fst (accept k r) = POther (proxy_name n) /\
  lookup k (cache (snd (accept k r))) = Some (n, rc) /\ ltab (snd (accept k r)) = ltab r.
Proof.
  unfold accept. destruct (lookup k (cache r)) as [[n rc]|]; eexists _, _; cbn [fst snd cache set_cache ltab];
    (split; [reflexivity|split; [apply lookup_update_same|reflexivity]]).
Qed.

Lemma held_byref s v : byref (made s) v -> held s v = true.
Proof.
  intros (D & T & O). destruct v; try discriminate; try (simpl in *; rewrite D; reflexivity).
  cbn [held dumpable]. unfold own_proxy in O. destruct (proxy_serial (POther k)); auto. now rewrite O.
Qed.

Theorem one_proxy_alive from v w n rc :
  inv w -> byref (made (get w from)) v -> wf P v = true -> text_ok P v = true ->
  lookup (idp v) (cache (get w (negb from))) = Some (n, rc) ->
  exists w', transfers from v w = Ok (POther (proxy_name n), w') /\
    lookup (idp v) (cache (get w' (negb from))) = Some (n, rc + 1) /\
    made (get w' (negb from)) = made (get w (negb from)).
Proof.
  intros I B W X C. rewrite refs_by_reference by auto. rewrite (accept_alive _ _ _ _ C). cbn [fst snd].
  eexists; split; [reflexivity|]. rewrite get_put2_other. cbn [cache set_cache made]. split; auto. apply lookup_update_same.
Qed.

Theorem one_proxy_fresh from v w :
  inv w -> byref (made (get w from)) v -> wf P v = true -> text_ok P v = true ->
  lookup (idp v) (cache (get w (negb from))) = None ->
  let n := nlen (made (get w (negb from))) in
  exists w', transfers from v w = Ok (POther (proxy_name n), w') /\
    lookup (idp v) (cache (get w' (negb from))) = Some (n, 1) /\
    (forall m, nth_error (made (get w (negb from))) (N.to_nat m) <> None -> POther (proxy_name m) <> POther (proxy_name n)).
Proof.
  intros I B W X C n. rewrite refs_by_reference by auto. rewrite (accept_fresh _ _ C). cbn [fst snd].
  eexists; split; [reflexivity|]. rewrite get_put2_other. cbn [cache]. split; [apply lookup_update_same|].
  intros m Hm E. apply proxy_name_inj in E. subst m. apply Hm. apply nth_error_None. unfold n, nlen. rewrite Nat2N.id. lia.
Qed.

Theorem dropped_proxy_forgotten a n k rc obj c w w' :
  inv w -> lookup k (cache (get w a)) = Some (n, rc) -> lookup k (ltab (get w (negb a))) = Some (obj, c) ->
  wf P (PInt rc) = true -> drop P std_bladder std_uladder idp a n w = Ok w' ->
  lookup k (cache (get w' a)) = None /\ made (get w' a) = made (get w a).
Proof.
  intros I C L W D. rewrite (drop_spec a n k rc obj c w I C L W) in D. injection D as <-.
  rewrite get_put2_same. cbn [cache set_cache made]. split; auto. apply lookup_remove_same.
Qed.

(* ---- 4'. there and back again, any number of times ---- *)
Definition linked (from : bool) (p : N) (v : pyval) (w : world) : Prop :=
  inv w /\ byref (made (get w from)) v /\
  (exists rc, lookup (idp v) (cache (get w (negb from))) = Some (p, rc)) /\
  (exists c, lookup (idp v) (ltab (get w from)) = Some (v, c)).

Lemma linked_back from p v w : linked from p v w -> transfers (negb from) (POther (proxy_name p)) w = Ok (v, w).
Proof.
  intros (I & B & (rc & C) & (c & L)). apply (echo_identity (negb from) p (idp v) rc v c w I C).
  now rewrite negb_involutive.
Qed.

Lemma linked_forth from p v w : linked from p v w -> wf P v = true -> text_ok P v = true ->
  exists w', transfers from v w = Ok (POther (proxy_name p), w') /\ linked from p v w'.
Proof.
  intros (I & B & (rc & C) & (c & L)) W X.
  pose proof (held_byref _ _ B) as Hh.
  destruct (transfer_inv from v w I W X Hh) as (v' & w' & E & I').
  rewrite refs_by_reference in E by auto. rewrite (accept_alive _ _ _ _ C) in E. cbn [fst snd] in E.
  injection E as <- <-. eexists; split; [rewrite refs_by_reference by auto; rewrite (accept_alive _ _ _ _ C); reflexivity|].
  split; [exact I'|]. rewrite get_put2_same, get_put2_other. cbn [made set_ltab ltab cache set_cache]. split; [exact B|]. split.
  - eexists. apply lookup_update_same.
  - rewrite lookup_coll_add_same, L. eauto.
Qed.

Fixpoint hops (n : nat) (from : bool) (x : pyval) (w : world) : result (pyval * world) :=
  match n with
  | O => Ok (x, w)
  | S n' => do (y, w') <- transfers from x w; hops n' (negb from) y w'
  end.

Theorem echo_hops from p v : wf P v = true -> text_ok P v = true ->
  forall n w, linked from p v w ->
  exists w', hops (2 * n) from v w = Ok (v, w') /\ linked from p v w' /\
             exists w'', hops (2 * n + 1) from v w = Ok (POther (proxy_name p), w'').
Proof.
  intros W X. induction n as [|n IH]; intros w Lk.
  - exists w. split; [reflexivity|]. split; [exact Lk|]. destruct (linked_forth _ _ _ _ Lk W X) as (w1 & E & _).
    exists w1. simpl. now rewrite E.
  - destruct (linked_forth _ _ _ _ Lk W X) as (w1 & E & L1).
    pose proof (linked_back _ _ _ _ L1) as E2. destruct (IH w1 L1) as (w' & H1 & H2 & (w'' & H3)).
    exists w'. replace (2 * S n)%nat with (S (S (2 * n))) by lia. cbn [hops]. rewrite E. cbn [bind]. rewrite E2. cbn [bind].
    rewrite negb_involutive. split; [exact H1|]. split; [exact H2|]. exists w''.
    replace (S (S (2 * n)) + 1)%nat with (S (S (2 * n + 1))) by lia. cbn [hops]. rewrite E. cbn [bind]. rewrite E2. cbn [bind].
    now rewrite negb_involutive.
Qed.

Theorem first_send_links from v w :
  inv w -> byref (made (get w from)) v -> wf P v = true -> text_ok P v = true ->
  (forall o c, lookup (idp v) (ltab (get w from)) = Some (o, c) -> o = v) ->
  exists p w1, transfers from v w = Ok (POther (proxy_name p), w1) /\ linked from p v w1.
Proof.
  intros I B W X NC.
  pose proof (held_byref _ _ B) as Hh.
  destruct (transfer_inv from v w I W X Hh) as (v' & w' & E & I').
  rewrite refs_by_reference in E by auto. rewrite refs_by_reference by auto.
  destruct (accept_cache (idp v) (get w (negb from))) as (n & rc & A1 & A2 & A3).
  injection E as <- <-. rewrite A1. exists n. eexists. split; [reflexivity|]. split; [exact I'|].
  rewrite get_put2_same, get_put2_other. cbn [made set_ltab ltab]. split; [exact B|]. split; [eauto|].
  rewrite lookup_coll_add_same. destruct (lookup (idp v) (ltab (get w from))) as [[o c]|] eqn:L; [|eauto].
  rewrite (NC _ _ eq_refl). eauto.
Qed.

(* ---- 2'. exact tuples: the rule is applied element by element, at every nesting ---- *)
Fixpoint transfer_items (from : bool) (l : list pyval) (w : world) : result (list pyval * world) :=
  match l with
  | [] => Ok ([], w)
  | y :: ys => do (y', w1) <- transfers from y w; do (ys', w2) <- transfer_items from ys w1; Ok (y' :: ys', w2)
  end.

Lemma forallb_same {A} (f g : A -> bool) l : (forall x, f x = g x) -> forallb f l = forallb g l.
Proof. intros H. induction l as [|y ys IH]; simpl; auto. now rewrite H, IH. Qed.
Lemma held_ext s s' : made s = made s' -> cache s = cache s' -> forall v, held s v = held s' v.
Proof.
  intros M C. induction v using pyval_ind'; try reflexivity.
  - simpl. destruct (forallb dumpable l); auto. induction H as [|y ys Hy Hys IH]; simpl; auto. now rewrite Hy, IH.
  - cbn [held]. now rewrite M, C.
Qed.
Lemma held_value s v : dumpable v = true -> held s v = true.
Proof. intros D. destruct v; simpl in *; try rewrite D; try reflexivity; discriminate. Qed.
Lemma held_items s l : held s (PTuple l) = true -> forallb (held s) l = true.
Proof.
  simpl. destruct (forallb dumpable l) eqn:D; auto. intros _.
  induction l as [|y ys IH]; simpl in *; auto. apply andb_true_iff in D as [A B]. now rewrite held_value, IH.
Qed.
Lemma recv_items_values mk l r : forallb dumpable l = true -> recv_items idp mk l r = (l, r).
Proof.
  induction l as [|y ys IH]; simpl; auto. intros D. apply andb_true_iff in D as [A B].
  now rewrite recv_value, IH.
Qed.
Lemma regs_items_values mk l : forallb dumpable l = true -> flat_map (regs_of mk) l = [].
Proof.
  induction l as [|y ys IH]; simpl; auto. intros D. apply andb_true_iff in D as [A B].
  now rewrite regs_of_value, IH.
Qed.
Lemma recv_tuple_all mk l r :
  recv idp mk (PTuple l) r = let (vs, r') := recv_items idp mk l r in (PTuple vs, r').
Proof.
  destruct (dumpable (PTuple l)) eqn:D; [|now apply recv_tuple].
  rewrite recv_value by exact D. simpl in D. now rewrite recv_items_values.
Qed.
Lemma regs_tuple_all mk l : regs_of mk (PTuple l) = flat_map (regs_of mk) l.
Proof.
  destruct (dumpable (PTuple l)) eqn:D; [|simpl in *; now rewrite D].
  rewrite regs_of_value by exact D. simpl in D. now rewrite regs_items_values.
Qed.

Lemma transfer_items_spec from : forall l w, inv w ->
  forallb (wf P) l = true -> forallb (text_ok P) l = true -> forallb (held (get w from)) l = true ->
  transfer_items from l w =
    Ok (fst (recv_items idp (made (get w from)) l (get w (negb from))),
        put2 from (set_ltab (get w from) (register idp (flat_map (regs_of (made (get w from))) l) (ltab (get w from))))
                  (snd (recv_items idp (made (get w from)) l (get w (negb from))))).
Proof.
  induction l as [|y ys IH]; intros w I W X Hh.
  - simpl. now rewrite set_ltab_id, put2_get.
  - simpl in W, X, Hh. apply andb_true_iff in W as [W1 W2]. apply andb_true_iff in X as [X1 X2].
    apply andb_true_iff in Hh as [H1 H2]. cbn [transfer_items].
    destruct (transfer_inv from y w I W1 X1 H1) as (y' & w1 & E & I1). rewrite E. cbn [bind].
    destruct (inv_get w from I) as [Is _].
    rewrite transfer_spec in E; auto; [|now apply inv_keys|now apply (held_echo_ok _ _ Is)].
    injection E as <- <-. rewrite IH; auto.
    + rewrite get_put2_same, get_put2_other. cbn [made set_ltab ltab bind recv_items flat_map].
      destruct (recv idp (made (get w from)) y (get w (negb from))) as [y' r1]. cbn [fst snd].
      destruct (recv_items idp (made (get w from)) ys r1) as [ys' r2]. cbn [fst snd].
      rewrite register_app. reflexivity.
    + rewrite get_put2_same. rewrite <- H2. apply forallb_same. intros v. apply held_ext; reflexivity.
Qed.

Theorem tuple_elementwise from l w :
  inv w -> wf P (PTuple l) = true -> text_ok P (PTuple l) = true -> held (get w from) (PTuple l) = true ->
  transfers from (PTuple l) w = do (vs, w') <- transfer_items from l w; Ok (PTuple vs, w').
Proof.
  intros I W X Hh. destruct (inv_get w from I) as [Is _].
  rewrite transfer_spec; auto; [|now apply inv_keys|now apply (held_echo_ok _ _ Is)].
  rewrite transfer_items_spec; auto.
  - cbn [bind]. rewrite recv_tuple_all, regs_tuple_all. destruct (recv_items _ _ _ _). reflexivity.
  - cbn [wf] in W. now apply andb_true_iff in W as [_ W].
  - now apply text_ok_list.
  - now apply held_items.
Qed.

(* ---- 6. explicit copy transfer; pickle is an oracle ---- *)
Section PickleP.
Variable pk_dumps : pyval -> list byte.
Variable pk_loads : list byte -> pyval.

Theorem obtain_spec a n k rc obj c proto w :
  inv w -> lookup k (cache (get w a)) = Some (n, rc) -> lookup k (ltab (get w (negb a))) = Some (obj, c) ->
  wf P (PInt proto) = true -> wf P (PBytes (pk_dumps obj)) = true ->
  obtain P std_bladder std_uladder idp pk_dumps pk_loads a n proto w = Ok (pk_loads (pk_dumps obj), w).
Proof.
  intros I C L W Wb. unfold obtain.
  rewrite (request_via_proxy a n k rc obj c (PInt proto) w I C L); auto; [|unfold text_ok; simpl; apply orb_true_r].
  cbn [bind]. rewrite values_by_copy; auto. unfold text_ok. simpl. apply orb_true_r.
Qed.

Theorem deliver_spec a v w :
  inv w -> wf P (PBytes (pk_dumps v)) = true ->
  let cp := pk_loads (pk_dumps v) in
  byref (made (get w (negb a))) cp -> wf P cp = true -> text_ok P cp = true ->
  deliver P std_bladder std_uladder idp pk_dumps pk_loads a v w =
    Ok (fst (accept (idp cp) (get w a)),
        put2 (negb a) (set_ltab (get w (negb a)) (coll_add (idp cp) cp (ltab (get w (negb a)))))
                      (snd (accept (idp cp) (get w a)))).
Proof.
  intros I Wb cp B W X. unfold deliver. rewrite values_by_copy; auto; [|unfold text_ok; simpl; apply orb_true_r].
  cbn [bind]. fold cp. rewrite refs_by_reference; auto. now rewrite negb_involutive.
Qed.
End PickleP.

(* ---- every history of well-behaved parties: no step raises and the invariant holds throughout ---- *)
Definition valid_op (w : world) (o : op) : Prop :=
  match o with
  | Send a v => wf P v = true /\ text_ok P v = true /\ held (get w a) v = true
  | Drop a n => forall k rc, lookup k (cache (get w a)) = Some (n, rc) -> wf P (PInt rc) = true
  | Mutate a n d => wf P (PInt d) = true /\ exists k rc, lookup k (cache (get w a)) = Some (n, rc)
  | Raw _ _ _ => False
  end.
Notation steps := (step P std_bladder std_uladder idp).

Theorem step_inv o w : inv w -> valid_op w o -> exists v w', steps o w = Ok (v, w') /\ inv w'.
Proof.
  intros I V. destruct o as [a v|a n|a n d|a f pkg]; cbn [valid_op step] in *.
  - destruct V as (W & X & Hh). exact (transfer_inv a v w I W X Hh).
  - destruct (drop_inv a n w I V) as (w' & E & I'). rewrite E. cbn [bind]. eauto.
  - destruct V as (W & k & rc & C). destruct (inv_get w a I) as [[[Cs K] Ky] Io]. destruct (Cs _ _ _ C) as [_ Hh].
    unfold has in Hh. destruct (lookup k (ltab (get w (negb a)))) as [[obj c]|] eqn:L; [|discriminate].
    rewrite (mutation_at_owner a n k rc obj c d w I C L W). cbn [bind]. eexists _, _. split; [reflexivity|].
    apply inv_put2; [split; [split|]; auto|].
    destruct Io as [[Co Ko] Kyo]. split; [split|]; auto.
  - contradiction.
Qed.

Inductive good : world -> list op -> Prop :=
| good_nil w : good w []
| good_cons w o ops : valid_op w o -> (forall v w', steps o w = Ok (v, w') -> good w' ops) -> good w (o :: ops).

Definition is_ok {A} (r : result A) : Prop := match r with Ok _ => True | _ => False end.
Theorem run_inv : forall ops w, inv w -> good w ops ->
  Forall is_ok (fst (run P std_bladder std_uladder idp ops w)) /\ inv (snd (run P std_bladder std_uladder idp ops w)).
Proof.
  induction ops as [|o ops IH]; intros w I G; simpl.
  - split; auto.
  - inversion G as [|? ? ? V Hn]; subst. destruct (step_inv o w I V) as (v & w' & E & I').
    rewrite E. destruct (IH w' I' (Hn _ _ E)) as [A B].
    destruct (run P std_bladder std_uladder idp ops w') as [vs w2]. simpl in *. split; auto. constructor; simpl; auto.
Qed.
End WorldP.

(* ---- get_id_pack may change between steps, as long as the packs of the objects that are lent do not ----
   (the pack follows the object's current class and the class's current name; see props/C03.v, 5''') *)
Lemma inv_change_idp P idp idp' w :
  (forall a k o c, lookup k (ltab (get w a)) = Some (o, c) -> idp' o = idp o) ->
  inv P idp w -> inv P idp' w.
Proof.
  intros H [[S1 K1] [S2 K2]]. split; (split; [assumption|]).
  - intros k o c L. rewrite (H false k o c L). exact (K1 _ _ _ L).
  - intros k o c L. rewrite (H true k o c L). exact (K2 _ _ _ L).
Qed.

(* ---- deliver, then operate through the result: the operation lands on the copy at the other party ---- *)
Section DeliverP.
Variable P : bparams.
Variable idp : pyval -> idpack.
Hypothesis idp_wf : forall u, wf P (pv_of_idpack (idp u)) = true.
Hypothesis idp_ns : forall u, text_ok P (pv_of_idpack (idp u)) = true.
Variable pk_dumps : pyval -> list byte.
Variable pk_loads : list byte -> pyval.

Lemma get_put2_neg a s r : get (put2 (negb a) s r) a = r.
Proof. now destruct a. Qed.
Lemma get_put2_neg' a s r : get (put2 (negb a) s r) (negb a) = s.
Proof. now destruct a. Qed.

Theorem deliver_then_mutate a v d w :
  inv P idp w -> wf P (PBytes (pk_dumps v)) = true ->
  let cp := pk_loads (pk_dumps v) in
  byref (made (get w (negb a))) cp -> wf P cp = true -> text_ok P cp = true -> wf P (PInt d) = true ->
  (forall o c, lookup (idp cp) (ltab (get w (negb a))) = Some (o, c) -> o = cp) ->
  exists n w1 w2,
    deliver P std_bladder std_uladder idp pk_dumps pk_loads a v w = Ok (POther (proxy_name n), w1) /\
    mutate P std_bladder std_uladder idp a n d w1 = Ok w2 /\
    mlog (get w2 (negb a)) = mlog (get w (negb a)) ++ [(cp, d)] /\
    mlog (get w2 a) = mlog (get w a).
Proof.
  intros I Wb cp B W X Wd NC.
  rewrite (deliver_spec P idp idp_wf idp_ns pk_dumps pk_loads a v w I Wb B W X). fold cp.
  destruct (accept_cache (idp cp) (get w a)) as (n & rc & A1 & A2 & A3).
  destruct (transfer_inv P idp idp_wf idp_ns (negb a) cp w I W X (held_byref _ _ B)) as (v' & w' & E & I').
  rewrite (refs_by_reference P idp idp_wf idp_ns (negb a) cp w I B W X) in E. rewrite negb_involutive in E.
  injection E as _ <-. rewrite A1. exists n. eexists. 
  set (w1 := put2 (negb a) _ _) in *.
  assert (C : lookup (idp cp) (cache (get w1 a)) = Some (n, rc)) by (unfold w1; now rewrite get_put2_neg).
  assert (L : exists c, lookup (idp cp) (ltab (get w1 (negb a))) = Some (cp, c)).
  { unfold w1. rewrite get_put2_neg'. cbn [ltab set_ltab]. rewrite lookup_coll_add_same.
    destruct (lookup (idp cp) (ltab (get w (negb a)))) as [[o c]|] eqn:Lo; [rewrite (NC _ _ eq_refl)|]; eauto. }
  destruct L as (c & L).
  eexists. split; [reflexivity|]. split; [exact (mutation_at_owner P idp idp_wf idp_ns a n (idp cp) rc cp c d w1 I' C L Wd)|].
  rewrite get_put2_other, get_put2_same. cbn [mlog set_mlog]. unfold w1. rewrite get_put2_neg', get_put2_neg. cbn [mlog set_ltab].
  split; [reflexivity|]. unfold accept. destruct (lookup (idp cp) (cache (get w a))) as [[? ?]|]; reflexivity.
Qed.
End DeliverP.

(* ---- an arrival dispatched while another waits for the class (HANDLE_INSPECT) ---- *)
Lemma nested_arrival_rechecked k r : lookup k (cache r) = None ->
  let n := nlen (made r) in
  nested_arrival true k r =
    ((POther (proxy_name n), POther (proxy_name n)),
     {| ltab := ltab r; made := made r ++ [k]; cache := update k (n, 2) (update k (n, 1) (cache r)); mlog := mlog r |}).
Proof.
  intros H n. unfold nested_arrival. rewrite (accept_fresh _ _ H). fold n.
  unfold accept. cbn [cache]. rewrite lookup_update_same. reflexivity.
Qed.
Lemma nested_arrival_stale k r : lookup k (cache r) = None ->
  let n := nlen (made r) in
  nested_arrival false k r =
    ((POther (proxy_name (n + 1)), POther (proxy_name n)),
     {| ltab := ltab r; made := (made r ++ [k]) ++ [k]; cache := update k ((n + 1)%N, 1) (update k (n, 1) (cache r)); mlog := mlog r |}).
Proof.
  intros H n. unfold nested_arrival. rewrite (accept_fresh _ _ H). fold n. unfold store_fresh. cbn [made cache ltab mlog].
  replace (nlen (made r ++ [k])) with (n + 1)%N; [reflexivity|]. unfold n, nlen. rewrite app_length. simpl. lia.
Qed.
