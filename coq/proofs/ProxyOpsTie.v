(* Tie between the facts regenerated from rpyc/core/netref.py, rpyc/core/protocol.py (request handlers),
   rpyc/utils/helpers.py (buffiter) and rpyc/lib/__init__.py (get_methods) -- gen/Gen_netref.v, rewritten on every run --
   and the tables the model and its proofs use.  Every lemma is by computation. *)
From V Require Import lib.Base model.Attr model.ProxyOps gen.Gen_netref gen.Gen_protocol gen.Gen_consts gen.Gen_attrpolicy proofs.AttrP.
From Coq Require Import String.
Open Scope string_scope.

(* the two facts of the source tree the theorems are conditional on *)
Definition Fgen : facts :=
  {| f_getattr_repeats := Gen_netref.getattr_repeats_request; f_ctxexit_delivers := Gen_netref.ctxexit_delivers |}.

Lemma tie_local_attrs : Gen_netref.local_attrs = ProxyOps.local_attrs /\ Gen_netref.deleted_attrs = ProxyOps.deleted_attrs.
Proof. split; reflexivity. Qed.
Lemma tie_base_methods : Gen_netref.base_methods = ProxyOps.base_methods.
Proof. reflexivity. Qed.
Lemma tie_attribute_methods :
  Gen_netref.getattribute_route = ProxyOps.getattribute_route /\ Gen_netref.getattr_route = ProxyOps.getattr_route Fgen
  /\ Gen_netref.delattr_route = ProxyOps.delattr_route /\ Gen_netref.setattr_route = ProxyOps.setattr_route.
Proof. repeat split; reflexivity. Qed.
Lemma tie_make_method : Gen_netref.make_method = ProxyOps.make_method /\ Gen_netref.slicers = ProxyOps.slicers.
Proof. split; reflexivity. Qed.
Lemma tie_class_factory : Gen_netref.class_factory_skips_local = ProxyOps.class_factory_skips_local
  /\ Gen_netref.class_derives_from_base_only = true /\ Gen_netref.syncreq_sends_proxy_first = true.
Proof. repeat split; reflexivity. Qed.
Lemma tie_handler_bodies : Gen_netref.handler_bodies = ProxyOps.handler_bodies Fgen.
Proof. reflexivity. Qed.
Lemma tie_buffiter : Gen_netref.buff_skel_gen = ProxyOps.buff_skel_model.
Proof. reflexivity. Qed.
(* get_methods: callables found on the MRO of the object's type, minus the names it is given (LOCAL_ATTRS);
   for class objects the metaclass's methods are added *)
Lemma tie_get_methods : Gen_netref.get_methods_excludes_given_names = true /\ Gen_netref.get_methods_walks_type_mro = true
  /\ Gen_netref.get_methods_adds_metaclass_for_classes = true.
Proof. repeat split; reflexivity. Qed.
(* every handler the routing names is in the peer's dispatch table under the method whose body was translated *)
Definition expected_handler_methods : list (string * string) :=
  [("HANDLE_REPR", "_handle_repr"); ("HANDLE_STR", "_handle_str"); ("HANDLE_HASH", "_handle_hash"); ("HANDLE_DIR", "_handle_dir");
   ("HANDLE_GETATTR", "_handle_getattr"); ("HANDLE_DELATTR", "_handle_delattr"); ("HANDLE_SETATTR", "_handle_setattr");
   ("HANDLE_CMP", "_handle_cmp"); ("HANDLE_CALL", "_handle_call"); ("HANDLE_CALLATTR", "_handle_callattr");
   ("HANDLE_CTXEXIT", "_handle_ctxexit"); ("HANDLE_BUFFITER", "_handle_buffiter")].
Lemma tie_dispatch : forallb (fun e => match slookup Gen_protocol.handler_table (fst e) with
                                       | Some m => String.eqb m (snd e) | None => false end) expected_handler_methods = true.
Proof. reflexivity. Qed.
(* ... and has a number in consts.py *)
Lemma tie_handler_numbers : forallb (fun e => match slookup Gen_consts.all_consts (fst e) with Some _ => true | None => false end)
                                    (ProxyOps.handler_bodies Fgen) = true.
Proof. reflexivity. Qed.
(* the default safe_attrs of protocol.py as a set is the model's *)
Lemma tie_safe_attrs : forallb (fun n => smem n ProxyOps.default_safe_attrs) Gen_protocol.safe_attrs = true
  /\ forallb (fun n => smem n Gen_protocol.safe_attrs) ProxyOps.default_safe_attrs = true.
Proof. split; vm_compute; reflexivity. Qed.
Lemma tie_default_switches :
  map (fun k => slookup Gen_protocol.config_switches k)
      ["allow_safe_attrs"; "allow_exposed_attrs"; "allow_public_attrs"; "allow_all_attrs"; "allow_getattr"; "allow_setattr"; "allow_delattr"]
  = [Some (allow_safe sw_default); Some (allow_exposed sw_default); Some (allow_public sw_default); Some (allow_all sw_default);
     Some (allow_getattr sw_default); Some (allow_setattr sw_default); Some (allow_delattr sw_default)]
  /\ Gen_protocol.exposed_prefix = pc_prefix conf_default.
Proof. split; reflexivity. Qed.
(* the classic configuration is the default one updated by SlaveService.on_connect (gen/Gen_attrpolicy.v, C06's translator) *)
Definition upd (k : string) (dflt : bool) : bool := match slookup Gen_attrpolicy.classic_update k with Some b => b | None => dflt end.
Lemma tie_classic_switches : Gen_attrpolicy.default_switches = sw_default /\
  sw_classic = {| allow_safe := upd "allow_safe_attrs" (allow_safe sw_default); allow_exposed := upd "allow_exposed_attrs" (allow_exposed sw_default);
                  allow_public := upd "allow_public_attrs" (allow_public sw_default); allow_all := upd "allow_all_attrs" (allow_all sw_default);
                  allow_getattr := upd "allow_getattr" (allow_getattr sw_default); allow_setattr := upd "allow_setattr" (allow_setattr sw_default);
                  allow_delattr := upd "allow_delattr" (allow_delattr sw_default) |}.
Proof. split; reflexivity. Qed.
(* the decision function the model uses for permissions is the one regenerated from _check_attr (C06's tie) *)
Lemma tie_check_attr : forall s perm pne n o, Gen_attrpolicy.check_attr s perm pne n o = Attr.check_attr s perm pne n o.
Proof. exact AttrP.tie_check_attr. Qed.
