From V Require Import lib.Base model.CallTree.
From Coq Require Import Arith Relations.

Lemma peer_eta p : p = {| stack := stack p; nseq := nseq p; inbox := inbox p |}.
Proof. now destruct p. Qed.
Lemma upd_same f s p : upd f s p s = p.
Proof. unfold upd. now rewrite side_eqb_refl. Qed.
Lemma upd_other f s p : upd f s p (other s) = f (other s).
Proof. unfold upd. now rewrite side_eqb_other. Qed.
Lemma upd_other' f s p : upd f (other s) p s = f s.
Proof. unfold upd. now rewrite side_eqb_other'. Qed.
Lemma send_same f t m : send f t m t = {| stack := stack (f t); nseq := nseq (f t); inbox := inbox (f t) ++ [m] |}.
Proof. unfold send. apply upd_same. Qed.
Lemma send_other f t m : send f t m (other t) = f (other t).
Proof. unfold send. apply upd_other. Qed.
Lemma send_other' f t m : send f (other t) m t = f t.
Proof. unfold send. apply upd_other'. Qed.

Lemma node_ind' (P : node -> Prop) :
  (forall s i kids r, Forall (fun kc => P (fst kc)) kids -> P (Node s i kids r)) -> forall n, P n.
Proof.
  intros H. fix IH 1. intros [s i kids r]. apply H.
  induction kids as [|[k c] ks IHk]; constructor; [apply IH | exact IHk].
Qed.

Section W.
Variable xw : side -> list nat -> list nat.
Local Notation pstep := (CallTree.pstep xw).
Local Notation step := (CallTree.step xw).
Local Notation steps := (CallTree.steps xw).
Local Notation pstep_fun := (CallTree.pstep_fun xw).
Local Notation exec := (CallTree.exec xw).
Local Notation evalx := (CallTree.evalx xw).
Local Notation evalkx := (CallTree.evalkx xw).
Local Notation evalroot := (CallTree.evalroot xw).
Local Notation seen_by := (CallTree.seen_by xw).

Definition can_serve (p:peer) := inbox p = [] /\ (stack p = [] \/ exists q K, stack p = FWait q :: K).

(* what "running [FRun r n ks acc] on top of K at peer s to completion" means *)
Definition runs_to (s:side) (f:side->peer) (l:list nat) (res:option outcome)
                   (r:option nat) (K:list frame) (lo:list nat * outcome) : Prop :=
  exists f', steps (mk f l res) (mk f' (l ++ fst lo) res) /\
    stack (f' s) = FRet r (snd lo) :: K /\ inbox (f' s) = [] /\
    stack (f' (other s)) = stack (f (other s)) /\ inbox (f' (other s)) = [].

Definition P (k:node) : Prop := forall r s f l res K,
  stack (f s) = FRun r k (nkids k) 0 :: K -> inbox (f s) = [] -> can_serve (f (other s)) ->
  runs_to s f l res r K (evalkx s k (nkids k) 0).

Lemma step1 s y y' : pstep s y y' -> steps y y'.
Proof. intros H. apply rt_step. now exists s. Qed.
Lemma steps_trans a b c : steps a b -> steps b c -> steps a c.
Proof. apply rt_trans. Qed.

Lemma kids_run n : forall ks, Forall (fun kc => P (fst kc)) ks ->
  forall acc r s f l res K,
  stack (f s) = FRun r n ks acc :: K -> inbox (f s) = [] -> can_serve (f (other s)) ->
  runs_to s f l res r K (evalkx s n ks acc).
Proof.
  induction ks as [|[k c] ks IH]; intros HF acc r s f l res K Hst Hib Hcs.
  - (* no kids left: finish *)
    eexists. split; [|split; [|split; [|split]]].
    + cbn [CallTree.evalkx fst]. rewrite app_nil_r. apply step1 with (s:=s).
      eapply st_fin. rewrite (peer_eta (f s)), Hst, Hib. reflexivity.
    + rewrite upd_same. reflexivity.
    + rewrite upd_same. reflexivity.
    + now rewrite upd_other.
    + rewrite upd_other. apply Hcs.
  - inversion HF as [|? ? Pk HF']; subst. cbn [fst] in Pk.
    (* common continuation once the child's outcome sits in FRet None on top of the FCall frame *)
    assert (CONT: forall f1 (lk:list nat) (o0 ok:outcome),
        stack (f1 s) = FRet None ok :: FCall r n ks acc c :: K -> inbox (f1 s) = [] ->
        can_serve (f1 (other s)) ->
        steps (mk f l res) (mk f1 (l ++ nid k :: lk) res) ->
        stack (f1 (other s)) = stack (f (other s)) ->
        (lk, o0) = evalkx (nside k) k (nkids k) 0 -> ok = seen_by s k o0 ->
        runs_to s f l res r K (evalkx s n ((k,c)::ks) acc)).
    { intros f1 lk o0 ok Hs1 Hi1 Hc1 Hsteps Hoth Hlo Hok.
      cbn [CallTree.evalkx]. rewrite (evalx_evalkx xw k), <- Hlo, <- Hok. destruct ok as [v|e]; cbn [fst snd] in *.
      - (* value *)
        destruct (IH HF' (acc+v) r s
                    (upd f1 s {| stack := FRun r n ks (acc+v) :: K; nseq := nseq (f1 s); inbox := [] |})
                    (l ++ nid k :: lk) res K) as (f2 & S2 & A & B & C & D).
        { now rewrite upd_same. } { now rewrite upd_same. } { now rewrite upd_other. }
        destruct (evalkx s n ks (acc+v)) as [l2 o2] eqn:E2. cbn [fst snd] in *.
        exists f2. split; [|split; [|split; [|split]]]; auto.
        + eapply steps_trans; [exact Hsteps|]. eapply steps_trans; [|rewrite <- app_assoc in S2; exact S2].
          apply step1 with (s:=s). eapply st_ret_val. rewrite (peer_eta (f1 s)), Hs1, Hi1. reflexivity.
        + rewrite C, upd_other. exact Hoth.
      - destruct (catches c e) eqn:Ec.
        + (* caught *)
          destruct (IH HF' acc r s
                      (upd f1 s {| stack := FRun r n ks acc :: K; nseq := nseq (f1 s); inbox := [] |})
                      (l ++ nid k :: lk) res K) as (f2 & S2 & A & B & C & D).
          { now rewrite upd_same. } { now rewrite upd_same. } { now rewrite upd_other. }
          destruct (evalkx s n ks acc) as [l2 o2] eqn:E2. cbn [fst snd] in *.
          exists f2. split; [|split; [|split; [|split]]]; auto.
          * eapply steps_trans; [exact Hsteps|]. eapply steps_trans; [|rewrite <- app_assoc in S2; exact S2].
            apply step1 with (s:=s). eapply st_ret_caught; [rewrite (peer_eta (f1 s)), Hs1, Hi1; reflexivity|exact Ec].
          * rewrite C, upd_other. exact Hoth.
        + (* uncaught: propagate *)
          eexists. split; [|split; [|split; [|split]]].
          * cbn [fst]. eapply steps_trans; [exact Hsteps|].
            apply step1 with (s:=s). eapply st_ret_uncaught; [rewrite (peer_eta (f1 s)), Hs1, Hi1; reflexivity|exact Ec].
          * now rewrite upd_same.
          * now rewrite upd_same.
          * now rewrite upd_other.
          * rewrite upd_other. apply Hc1. }
    destruct (side_eqb (nside k) s) eqn:Eside.
    + (* local call *)
      apply side_eqb_eq in Eside.
      set (f0 := upd f s {| stack := FRun None k (nkids k) 0 :: FCall r n ks acc c :: K; nseq := nseq (f s); inbox := [] |}).
      destruct (Pk None s f0 (l ++ [nid k]) res (FCall r n ks acc c :: K)) as (f1 & S1 & A & B & C & D).
      { unfold f0. now rewrite upd_same. } { unfold f0. now rewrite upd_same. } { unfold f0. now rewrite upd_other. }
      assert (Es2 : evalkx s k (nkids k) 0 = evalkx (nside k) k (nkids k) 0) by now rewrite Eside.
      rewrite Es2 in S1, A. destruct (evalkx (nside k) k (nkids k) 0) as [lk0 ok0] eqn:Ek. cbn [fst snd] in *.
      assert (Hsb : ok0 = seen_by s k ok0) by (unfold CallTree.seen_by; rewrite Eside, side_eqb_refl; reflexivity).
      eapply (CONT f1 lk0 ok0 ok0); auto.
      * split; [exact D|]. rewrite C. unfold f0. rewrite upd_other. apply Hcs.
      * eapply steps_trans; [|rewrite <- app_assoc in S1; exact S1].
        apply step1 with (s:=s). eapply st_local; [|exact Eside]. rewrite (peer_eta (f s)), Hst, Hib. reflexivity.
      * rewrite C. unfold f0. now rewrite upd_other.
    + (* remote call *)
      apply side_neq_other in Eside. set (o := other s) in *.
      assert (Eso: side_eqb s o = false) by (unfold o; apply side_eqb_other').
      assert (Eos: side_eqb o s = false) by (unfold o; apply side_eqb_other).
      assert (Hoo: other o = s) by (unfold o; apply other_other).
      destruct Hcs as [Hoi Hos].
      set (q := nseq (f s)).
      (* 1. s sends the request and waits *)
      set (f0 := send (upd f s {| stack := FWait q :: FCall r n ks acc c :: K; nseq := S q; inbox := [] |}) o (Req q k)).
      assert (S0: steps (mk f l res) (mk f0 l res)).
      { apply step1 with (s:=s). unfold f0, o. eapply st_remote; [|exact Eside].
        rewrite (peer_eta (f s)), Hst, Hib. reflexivity. }
      assert (F0s: f0 s = {| stack := FWait q :: FCall r n ks acc c :: K; nseq := S q; inbox := [] |}).
      { unfold f0, send, upd. rewrite Eso, side_eqb_refl. reflexivity. }
      assert (F0o: f0 o = {| stack := stack (f o); nseq := nseq (f o); inbox := [Req q k] |}).
      { unfold f0, send. rewrite upd_same. unfold upd. rewrite Eos, Hoi. reflexivity. }
      (* 2. the peer picks the request up: idle or nested inside its own wait *)
      set (f1 := upd f0 o {| stack := FRun (Some q) k (nkids k) 0 :: stack (f o); nseq := nseq (f o); inbox := [] |}).
      assert (S1: steps (mk f0 l res) (mk f1 (l ++ [nid k]) res)).
      { apply step1 with (s:=o). unfold f1. destruct Hos as [Hnil | (q' & Ko & HK)].
        - rewrite Hnil. eapply st_idle. rewrite F0o, Hnil. reflexivity.
        - rewrite HK. eapply st_nested. rewrite F0o, HK. reflexivity. }
      assert (F1s: f1 s = f0 s) by (unfold f1, upd; now rewrite Eso).
      destruct (Pk (Some q) o f1 (l ++ [nid k]) res (stack (f o))) as (f2 & S2 & A & B & C & D).
      { unfold f1. now rewrite upd_same. } { unfold f1. now rewrite upd_same. }
      { rewrite Hoo, F1s, F0s. split; [reflexivity|]. right. cbn [stack]. eauto. }
      rewrite Hoo in C, D. rewrite F1s, F0s in C. cbn [stack] in C.
      (* 3. the peer replies *)
      assert (Eok : o = nside k) by (symmetry; exact Eside).
      set (lo := evalkx o k (nkids k) 0) in *.
      set (ok := cross (xw (other o)) (snd lo)).
      set (f3 := send (upd f2 o {| stack := stack (f o); nseq := nseq (f2 o); inbox := [] |}) (other o) (Rep q ok)).
      assert (S3: steps (mk f2 ((l ++ [nid k]) ++ fst lo) res) (mk f3 ((l ++ [nid k]) ++ fst lo) res)).
      { apply step1 with (s:=o). unfold f3. eapply st_ret_remote.
        rewrite (peer_eta (f2 o)), A, B. reflexivity. }
      assert (F3s: f3 s = {| stack := FWait q :: FCall r n ks acc c :: K; nseq := nseq (f2 s); inbox := [Rep q ok] |}).
      { unfold f3. rewrite Hoo, send_same. unfold upd. rewrite Eso, C, D. reflexivity. }
      assert (F3o: f3 o = {| stack := stack (f o); nseq := nseq (f2 o); inbox := [] |}).
      { unfold f3. rewrite Hoo. unfold send, upd. rewrite Eos, side_eqb_refl. reflexivity. }
      (* 4. s matches the reply to its wait frame *)
      set (f4 := upd f3 s {| stack := FRet None ok :: FCall r n ks acc c :: K; nseq := nseq (f2 s); inbox := [] |}).
      assert (S4: steps (mk f3 ((l ++ [nid k]) ++ fst lo) res) (mk f4 ((l ++ [nid k]) ++ fst lo) res)).
      { apply step1 with (s:=s). unfold f4. eapply st_reply. rewrite F3s. reflexivity. }
      assert (F4o: f4 o = f3 o) by (unfold f4, upd; now rewrite Eos).
      eapply (CONT f4 (fst lo) (snd lo) ok); auto.
      * unfold f4. now rewrite upd_same.
      * unfold f4. now rewrite upd_same.
      * fold o. rewrite F4o, F3o. split; [reflexivity|exact Hos].
      * rewrite <- app_assoc in S2, S3, S4. cbn [app] in S2, S3, S4.
        eapply steps_trans; [exact S0|]. eapply steps_trans; [exact S1|].
        eapply steps_trans; [exact S2|]. eapply steps_trans; [exact S3|exact S4].
      * fold o. rewrite F4o, F3o. reflexivity.
      * rewrite <- Eok. unfold lo. now destruct (evalkx o k (nkids k) 0).
      * unfold ok, CallTree.seen_by. rewrite <- Eok, Eos, Hoo. reflexivity.
Qed.

Theorem node_runs : forall k, P k.
Proof.
  induction k as [s i kids r HF] using node_ind'. unfold P. intros.
  cbn [nkids] in *. eapply kids_run; eauto.
Qed.

Theorem distributed_eq_local root :
  exists f' : side -> peer,
    steps (init root) (mk f' (fst (evalroot root)) (Some (snd (evalroot root)))) /\
    stack (f' SA) = [] /\ stack (f' SB) = [] /\ inbox (f' SA) = [] /\ inbox (f' SB) = [].
Proof.
  destruct (node_runs root None SA
     (fun t => match t with SA => {| stack := [FRun None root (nkids root) 0]; nseq := 0; inbox := [] |} | SB => idle end)
     [nid root] None []) as (f1 & S1 & A & B & C & D); try reflexivity.
  { split; [reflexivity| left; reflexivity]. }
  unfold CallTree.evalroot. destruct (evalkx SA root (nkids root) 0) as [l o]. cbn [fst snd] in *.
  exists (upd f1 SA {| stack := []; nseq := nseq (f1 SA); inbox := [] |}). split; [|repeat split].
  - eapply steps_trans; [exact S1|]. apply step1 with (s:=SA). eapply st_root.
    rewrite (peer_eta (f1 SA)), A, B. reflexivity.
  - exact C.
  - exact D.
Qed.

(* ================= determinism: the relation is the function ================= *)
Lemma sys_eta y : y = mk (peers y) (log y) (result y).
Proof. now destruct y. Qed.

Lemma pstep_fun_sound s y y' : pstep_fun s y = Some y' -> pstep s y y'.
Proof.
  unfold CallTree.pstep_fun. rewrite (sys_eta y) at 2. cbn [peers log result mk].
  set (f := peers y). set (l := log y). set (res := result y).
  destruct (stack (f s)) as [|fr K] eqn:Es.
  - destruct (inbox (f s)) as [|[rq k|q1 o] ib'] eqn:Ei; try discriminate. intros [= <-].
    eapply st_idle. rewrite (peer_eta (f s)), Es, Ei. reflexivity.
  - destruct fr as [r n ks acc|r n ks acc c|r o|q0].
    + destruct ks as [|[k c] ks].
      * intros [= <-]. eapply st_fin. rewrite (peer_eta (f s)), Es. reflexivity.
      * destruct (side_eqb (nside k) s) eqn:E; intros [= <-].
        -- eapply st_local; [rewrite (peer_eta (f s)), Es; reflexivity|now apply side_eqb_eq].
        -- eapply st_remote; [rewrite (peer_eta (f s)), Es; reflexivity|now apply side_neq_other].
    + discriminate.
    + destruct r as [rq|].
      * intros [= <-]. eapply st_ret_remote. rewrite (peer_eta (f s)), Es. reflexivity.
      * destruct K as [|fr2 K2].
        -- destruct res eqn:Er; [discriminate|]. intros [= <-]. eapply st_root. rewrite (peer_eta (f s)), Es. reflexivity.
        -- destruct fr2 as [| r n ks acc c | |]; try discriminate.
           destruct o as [v|e].
           ++ intros [= <-]. eapply st_ret_val. rewrite (peer_eta (f s)), Es. reflexivity.
           ++ destruct (catches c e) eqn:Ec; intros [= <-].
              ** eapply st_ret_caught; [rewrite (peer_eta (f s)), Es; reflexivity|exact Ec].
              ** eapply st_ret_uncaught; [rewrite (peer_eta (f s)), Es; reflexivity|exact Ec].
    + destruct (inbox (f s)) as [|[rq k|q1 o] ib'] eqn:Ei; try discriminate.
      * intros [= <-]. eapply st_nested. rewrite (peer_eta (f s)), Es, Ei. reflexivity.
      * destruct (Nat.eqb_spec q1 q0); [|discriminate]. subst. intros [= <-].
        eapply st_reply. rewrite (peer_eta (f s)), Es, Ei. reflexivity.
Qed.

Lemma pstep_fun_complete s y y' : pstep s y y' -> pstep_fun s y = Some y'.
Proof.
  intros H. destruct H as
    [f l res r n acc K q ib E | f l res r n k c ks acc K q ib E Hs | f l res r n k c ks acc K q ib E Hs
    | f l res q0 o K q ib E | f l res q0 rq k K q ib E | f l res rq k q ib E | f l res rq o K q ib E
    | f l res v r n ks acc c K q ib E | f l res e r n ks acc c K q ib E Hc | f l res e r n ks acc c K q ib E Hc | f l o q ib E];
  unfold CallTree.pstep_fun; cbn [peers log result mk]; rewrite E; cbn [stack nseq inbox]; try reflexivity.
  - rewrite Hs. now rewrite side_eqb_refl.
  - rewrite Hs. now rewrite side_eqb_other.
  - now rewrite Nat.eqb_refl.
  - now rewrite Hc.
  - now rewrite Hc.
Qed.

Theorem pstep_deterministic s y y1 y2 : pstep s y y1 -> pstep s y y2 -> y1 = y2.
Proof. intros H1 H2. apply pstep_fun_complete in H1, H2. congruence. Qed.

(* ================= the token invariant: at most one side can move ================= *)
Definition quiet (K : list frame) : Prop := K = [] \/ exists q K', K = FWait q :: K'.
Definition reply_to (fr : frame) : option nat :=
  match fr with FRun r _ _ _ | FCall r _ _ _ _ | FRet r _ => r | FWait _ => None end.
Fixpoint served_ok (K : list frame) : Prop :=
  match K with
  | [] => True
  | fr :: K' => served_ok K' /\ (reply_to fr <> None -> quiet K')
  end.

Definition Tok (y : sys) : Prop :=
  let f := peers y in
  (forall t, served_ok (stack (f t))) /\
  ((exists s, ~ quiet (stack (f s)) /\ quiet (stack (f (other s))) /\ inbox (f s) = [] /\ inbox (f (other s)) = [])
   \/ ((forall t, quiet (stack (f t))) /\
       ((exists s m, inbox (f s) = [m] /\ inbox (f (other s)) = []) \/ (forall t, inbox (f t) = [])))).

Lemma quiet_no_step_empty s y : quiet (stack (peers y s)) -> inbox (peers y s) = [] -> pstep_fun s y = None.
Proof.
  intros [E|(q & K & E)] Hi; unfold pstep_fun; rewrite E, Hi; reflexivity.
Qed.

Lemma side_cases (s t : side) : t = s \/ t = other s.
Proof. destruct s, t; auto. Qed.

Lemma tok_one_side y : Tok y -> forall y1 y2 s1 s2, pstep s1 y y1 -> pstep s2 y y2 -> s1 = s2.
Proof.
  intros (_ & T) y1 y2 s1 s2 H1 H2. apply pstep_fun_complete in H1, H2.
  assert (G : forall s, quiet (stack (peers y s)) -> inbox (peers y s) = [] -> forall y', pstep_fun s y = Some y' -> False).
  { intros s Q I y' E. rewrite (quiet_no_step_empty s y Q I) in E. discriminate. }
  destruct T as [(s & Hnq & Hq & Hi & Hio)|(Q & [(s & m & Hi & Hio)|I])].
  - destruct (side_cases s s1) as [-> | ->]; destruct (side_cases s s2) as [-> | ->]; auto; exfalso.
    + exact (G (other s) Hq Hio _ H2).
    + exact (G (other s) Hq Hio _ H1).
  - destruct (side_cases s s1) as [-> | ->]; destruct (side_cases s s2) as [-> | ->]; auto; exfalso.
    + exact (G (other s) (Q _) Hio _ H2).
    + exact (G (other s) (Q _) Hio _ H1).
  - exfalso. exact (G s1 (Q _) (I _) _ H1).
Qed.

(* which alternative of the token invariant holds is determined by the moving side's own state *)
Lemma tok_busy y s : Tok y -> ~ quiet (stack (peers y s)) ->
  quiet (stack (peers y (other s))) /\ inbox (peers y s) = [] /\ inbox (peers y (other s)) = [].
Proof.
  intros (_ & T) Hn. destruct T as [(s' & Hnq & Hq & Hi & Hio)|(Q & _)]; [|exfalso; apply Hn, Q].
  destruct (side_cases s' s) as [-> | ->]; [auto|]. rewrite other_other in *. exfalso. now apply Hn.
Qed.
Lemma tok_msg y s m ib : Tok y -> quiet (stack (peers y s)) -> inbox (peers y s) = m :: ib ->
  ib = [] /\ quiet (stack (peers y (other s))) /\ inbox (peers y (other s)) = [].
Proof.
  intros (_ & T) Hq Hi. destruct T as [(s' & Hnq & Hq' & Hi' & Hio')|(Q & [(s' & m' & Hi' & Hio')|I])].
  - destruct (side_cases s' s) as [-> | ->]; [contradiction|]. rewrite other_other in *. congruence.
  - destruct (side_cases s' s) as [-> | ->]; [|rewrite other_other in *; congruence].
    rewrite Hi in Hi'. injection Hi' as -> ->. auto.
  - rewrite I in Hi. discriminate.
Qed.

Lemma tok_intro_busy f l res s : (forall t, served_ok (stack (f t))) -> ~ quiet (stack (f s)) -> quiet (stack (f (other s))) ->
  inbox (f s) = [] -> inbox (f (other s)) = [] -> Tok (mk f l res).
Proof. intros H1 H2 H3 H4 H5. split; [exact H1|]. left. exists s. auto. Qed.
Lemma tok_intro_msg f l res s m : (forall t, served_ok (stack (f t))) -> (forall t, quiet (stack (f t))) ->
  inbox (f s) = [m] -> inbox (f (other s)) = [] -> Tok (mk f l res).
Proof. intros H1 H2 H3 H4. split; [exact H1|]. right. split; [exact H2|]. left. exists s, m. auto. Qed.
Lemma tok_intro_done f l res : (forall t, served_ok (stack (f t))) -> (forall t, quiet (stack (f t))) ->
  (forall t, inbox (f t) = []) -> Tok (mk f l res).
Proof. intros H1 H2 H3. split; [exact H1|]. right. split; [exact H2|]. now right. Qed.

Lemma not_quiet_run r n ks acc K : ~ quiet (FRun r n ks acc :: K).
Proof. intros [X|(q & K' & X)]; discriminate. Qed.
Lemma not_quiet_ret r o K : ~ quiet (FRet r o :: K).
Proof. intros [X|(q & K' & X)]; discriminate. Qed.
Lemma quiet_wait q K : quiet (FWait q :: K).
Proof. right. eauto. Qed.
Lemma quiet_nil : quiet [].
Proof. now left. Qed.
#[local] Hint Resolve not_quiet_run not_quiet_ret quiet_wait quiet_nil : core.

Ltac norm_upd := repeat first [rewrite send_other' | rewrite send_same | rewrite send_other | rewrite upd_same | rewrite upd_other | rewrite upd_other'
                               | rewrite other_other]; cbn [stack inbox nseq].
Ltac per_side t s := destruct (side_cases s t) as [-> | ->]; norm_upd.

Lemma tok_step s y y' : Tok y -> pstep s y y' -> Tok y'.
Proof.
  intros T H. pose proof T as (SO & _).
  destruct H as
    [f l res r n acc K q ib E | f l res r n k c ks acc K q ib E Hs | f l res r n k c ks acc K q ib E Hs
    | f l res q0 o K q ib E | f l res q0 rq k K q ib E | f l res rq k q ib E | f l res rq o K q ib E
    | f l res v r n ks acc c K q ib E | f l res e r n ks acc c K q ib E Hc | f l res e r n ks acc c K q ib E Hc | f l o q ib E];
  cbn [peers mk] in *.
  (* the moving side's own record *)
  all: pose proof (SO s) as SOs; rewrite E in SOs; cbn [stack served_ok reply_to] in SOs.
  - (* fin *) destruct (tok_busy _ s T) as (Qo & Is & Io); [cbn [peers mk]; rewrite E; cbn [stack]; auto|];
    cbn [peers mk] in Qo, Is, Io; rewrite E in Is; cbn [inbox] in Is; subst ib.
    apply (tok_intro_busy _ _ _ s).
    + intros t. per_side t s; [cbn [stack served_ok reply_to]; exact SOs|apply SO].
    + rewrite upd_same. cbn. auto.
    + now rewrite upd_other.
    + now rewrite upd_same.
    + now rewrite upd_other.
  - (* local call *) destruct (tok_busy _ s T) as (Qo & Is & Io); [cbn [peers mk]; rewrite E; cbn [stack]; auto|];
    cbn [peers mk] in Qo, Is, Io; rewrite E in Is; cbn [inbox] in Is; subst ib.
    apply (tok_intro_busy _ _ _ s).
    + intros t. per_side t s; [|apply SO]. cbn [stack served_ok reply_to]. destruct SOs as [A B]. repeat split; auto. congruence.
    + rewrite upd_same. cbn. auto.
    + now rewrite upd_other.
    + now rewrite upd_same.
    + now rewrite upd_other.
  - (* remote call: the token travels as a request *)
    destruct (tok_busy _ s T) as (Qo & Is & Io); [cbn [peers mk]; rewrite E; cbn [stack]; auto|];
    cbn [peers mk] in Qo, Is, Io; rewrite E in Is; cbn [inbox] in Is; subst ib.
    apply (tok_intro_msg _ _ _ (other s) (Req q k)).
    + intros t. per_side t s; [|apply SO]. cbn [served_ok reply_to]. destruct SOs as [A B]. repeat split; auto. congruence.
    + intros t. per_side t s; auto.
    + norm_upd. now rewrite Io.
    + norm_upd. reflexivity.
  - (* reply consumed *)
    destruct (tok_msg _ s (Rep q0 o) ib T) as (-> & Qo & Io); [cbn [peers mk]; rewrite E; cbn; auto|cbn [peers mk]; now rewrite E|].
    cbn [peers mk] in Qo, Io. apply (tok_intro_busy _ _ _ s).
    + intros t. per_side t s; [cbn [stack served_ok reply_to]; destruct SOs as [A B]; split; [exact A|congruence]|apply SO].
    + rewrite upd_same. cbn. auto.
    + now rewrite upd_other.
    + now rewrite upd_same.
    + now rewrite upd_other.
  - (* nested request picked up *)
    destruct (tok_msg _ s (Req rq k) ib T) as (-> & Qo & Io); [cbn [peers mk]; rewrite E; cbn; auto|cbn [peers mk]; now rewrite E|].
    cbn [peers mk] in Qo, Io. apply (tok_intro_busy _ _ _ s).
    + intros t. per_side t s; [cbn [stack served_ok reply_to]; destruct SOs as [A B]; repeat split; auto; congruence|apply SO].
    + rewrite upd_same. cbn. auto.
    + now rewrite upd_other.
    + now rewrite upd_same.
    + now rewrite upd_other.
  - (* idle server picks a request up *)
    destruct (tok_msg _ s (Req rq k) ib T) as (-> & Qo & Io); [cbn [peers mk]; rewrite E; cbn; auto|cbn [peers mk]; now rewrite E|].
    cbn [peers mk] in Qo, Io. apply (tok_intro_busy _ _ _ s).
    + intros t. per_side t s; [cbn [stack served_ok reply_to]; repeat split; auto|apply SO].
    + rewrite upd_same. cbn. auto.
    + now rewrite upd_other.
    + now rewrite upd_same.
    + now rewrite upd_other.
  - (* a served request returns: the token travels as a reply *)
    destruct (tok_busy _ s T) as (Qo & Is & Io); [cbn [peers mk]; rewrite E; cbn [stack]; auto|];
    cbn [peers mk] in Qo, Is, Io; rewrite E in Is; cbn [inbox] in Is; subst ib.
    destruct SOs as [A B]. assert (QK : quiet K) by (apply B; discriminate).
    apply (tok_intro_msg _ _ _ (other s) (Rep rq (cross (xw (other s)) o))).
    + intros t. per_side t s; [exact A|apply SO].
    + intros t. per_side t s; auto.
    + norm_upd. now rewrite Io.
    + norm_upd. reflexivity.
  - (* child value *) destruct (tok_busy _ s T) as (Qo & Is & Io); [cbn [peers mk]; rewrite E; cbn [stack]; auto|];
    cbn [peers mk] in Qo, Is, Io; rewrite E in Is; cbn [inbox] in Is; subst ib.
    apply (tok_intro_busy _ _ _ s).
    + intros t. per_side t s; [cbn [stack served_ok reply_to]; destruct SOs as [[A B] _]; split; auto|apply SO].
    + rewrite upd_same. cbn. auto.
    + now rewrite upd_other.
    + now rewrite upd_same.
    + now rewrite upd_other.
  - (* caught *) destruct (tok_busy _ s T) as (Qo & Is & Io); [cbn [peers mk]; rewrite E; cbn [stack]; auto|];
    cbn [peers mk] in Qo, Is, Io; rewrite E in Is; cbn [inbox] in Is; subst ib.
    apply (tok_intro_busy _ _ _ s).
    + intros t. per_side t s; [cbn [stack served_ok reply_to]; destruct SOs as [[A B] _]; split; auto|apply SO].
    + rewrite upd_same. cbn. auto.
    + now rewrite upd_other.
    + now rewrite upd_same.
    + now rewrite upd_other.
  - (* uncaught *) destruct (tok_busy _ s T) as (Qo & Is & Io); [cbn [peers mk]; rewrite E; cbn [stack]; auto|];
    cbn [peers mk] in Qo, Is, Io; rewrite E in Is; cbn [inbox] in Is; subst ib.
    apply (tok_intro_busy _ _ _ s).
    + intros t. per_side t s; [cbn [stack served_ok reply_to]; destruct SOs as [[A B] _]; split; auto|apply SO].
    + rewrite upd_same. cbn. auto.
    + now rewrite upd_other.
    + now rewrite upd_same.
    + now rewrite upd_other.
  - (* root returns *) destruct (tok_busy _ s T) as (Qo & Is & Io); [cbn [peers mk]; rewrite E; cbn [stack]; auto|];
    cbn [peers mk] in Qo, Is, Io; rewrite E in Is; cbn [inbox] in Is; subst ib.
    apply tok_intro_done.
    + intros t. per_side t s; [cbn; auto|apply SO].
    + intros t. per_side t s; [cbn; auto|exact Qo].
    + intros t. per_side t s; [reflexivity|exact Io].
Qed.

(* ================= every execution is THE execution ================= *)
Definition Tok2 (y : sys) : Prop :=
  Tok y /\ (result y <> None -> forall t, quiet (stack (peers y t)) /\ inbox (peers y t) = []).

Lemma tok2_init root : Tok2 (init root).
Proof.
  split; [|cbn; congruence]. apply (tok_intro_busy _ _ _ SA); cbn; auto.
  intros []; cbn; auto.
Qed.

Lemma stuck_when_quiet y : (forall t, quiet (stack (peers y t)) /\ inbox (peers y t) = []) -> forall s y', ~ pstep s y y'.
Proof.
  intros H s y' St. apply pstep_fun_complete in St. destruct (H s) as [Q I]. rewrite (quiet_no_step_empty s y Q I) in St. discriminate.
Qed.

Lemma tok2_step s y y' : Tok2 y -> pstep s y y' -> Tok2 y'.
Proof.
  intros [T D] St. split; [eapply tok_step; eauto|].
  destruct (result y) eqn:Er.
  - exfalso. eapply stuck_when_quiet; [apply D; congruence|exact St].
  - intros Hr. assert (Ty' : Tok y') by (eapply tok_step; eauto).
    (* the only rule that sets the result leaves everything quiet and empty *)
    destruct St; cbn [result mk] in *; try congruence.
    destruct (tok_busy _ s T) as (Qo & Is & Io); [cbn [peers mk]; rewrite H; cbn; auto|].
    cbn [peers mk] in *. rewrite H in Is. cbn in Is. subst ib.
    intros t. per_side t s; auto.
Qed.

Lemma tok2_steps y y' : Tok2 y -> steps y y' -> Tok2 y'.
Proof.
  intros T H. apply clos_rt_rt1n in H. induction H as [|a b c [s St] _ IH]; [exact T|].
  apply IH. eapply tok2_step; eauto.
Qed.

Lemma step_functional y y1 y2 : Tok2 y -> step y y1 -> step y y2 -> y1 = y2.
Proof.
  intros [T _] [s1 H1] [s2 H2]. assert (s1 = s2) by (eapply tok_one_side; eauto). subst. eapply pstep_deterministic; eauto.
Qed.

Lemma confluent_line a b c : Tok2 a -> clos_refl_trans_1n sys step a b -> clos_refl_trans_1n sys step a c ->
  clos_refl_trans_1n sys step b c \/ clos_refl_trans_1n sys step c b.
Proof.
  intros T Hb. revert c. induction Hb as [a|a a1 b St Hb IH]; intros c Hc; [now left|].
  destruct Hc as [|a2 c St2 Hc]; [right; econstructor; eauto|].
  assert (a1 = a2) by (eapply step_functional; eauto). subst a2.
  apply IH; [|exact Hc]. destruct St as [s St]. eapply tok2_step; eauto.
Qed.

(* the final state of the run constructed above cannot move *)
Lemma final_stuck f' l o : stack (f' SA) = [] -> stack (f' SB) = [] -> inbox (f' SA) = [] -> inbox (f' SB) = [] ->
  forall y', ~ step (mk f' l (Some o)) y'.
Proof.
  intros A B C D y' [s St]. eapply stuck_when_quiet; [|exact St]. intros []; cbn [peers mk]; rewrite ?A, ?B, ?C, ?D; auto.
Qed.

(* 1. whatever the interleaving, an execution that delivers a result delivers the local one, having invoked exactly the
      nodes the local evaluation invokes, in the same order, each once *)
Theorem every_execution_is_local root y o : steps (init root) y -> result y = Some o ->
  o = snd (evalroot root) /\ log y = fst (evalroot root).
Proof.
  intros Hy Hr. destruct (distributed_eq_local root) as (f' & HF & A & B & C & D).
  set (F := mk f' (fst (evalroot root)) (Some (snd (evalroot root)))) in *.
  assert (Ty : Tok2 y) by (eapply tok2_steps; [apply tok2_init|exact Hy]).
  assert (Sy : forall y', ~ step y y').
  { intros y' [s St]. eapply stuck_when_quiet; [|exact St]. apply (proj2 Ty). congruence. }
  apply clos_rt_rt1n in Hy, HF.
  destruct (confluent_line _ _ _ (tok2_init root) Hy HF) as [H|H]; unfold F in *; clear F.
  - inversion H as [E|y1 z St Hrest]; [subst y; cbn in Hr; injection Hr as <-; cbn; auto|subst; exfalso; eapply Sy; eauto].
  - inversion H as [E|y1 z St Hrest]; [subst y; cbn in Hr; injection Hr as <-; cbn; auto|subst].
    exfalso. eapply (final_stuck f' _ _ A B C D). exact St.
Qed.

(* 2. no execution gets stuck or runs forever before the result is delivered: an unfinished reachable state always has a step,
      and it lies on the one path to the final state *)
Theorem no_deadlock_before_result root y : steps (init root) y -> result y = None ->
  (exists y', step y y') /\ exists f', steps y (mk f' (fst (evalroot root)) (Some (snd (evalroot root)))).
Proof.
  intros Hy Hr. destruct (distributed_eq_local root) as (f' & HF & A & B & C & D).
  apply clos_rt_rt1n in Hy. pose proof HF as HF'. apply clos_rt_rt1n in HF.
  destruct (confluent_line _ _ _ (tok2_init root) Hy HF) as [H|H].
  - split; [|exists f'; now apply clos_rt1n_rt]. inversion H as [E|y1 z St Hrest]; [subst y; cbn in Hr; discriminate|eauto].
  - inversion H as [E|y1 z St Hrest]; [subst y; cbn in Hr; discriminate|subst]. exfalso. eapply (final_stuck f' _ _ A B C D). exact St.
Qed.

(* 3. the extracted runner performs steps of the same machine *)
Lemma exec_steps : forall fuel y, steps y (exec fuel y).
Proof.
  induction fuel as [|fuel IH]; intros y; cbn [exec]; [apply rt_refl|].
  destruct (pstep_fun SA y) as [y1|] eqn:EA.
  - apply (rt_trans _ _ _ y1); [apply rt_step; exists SA; apply pstep_fun_sound; exact EA|apply IH].
  - destruct (pstep_fun SB y) as [y1|] eqn:EB; [|apply rt_refl].
    apply (rt_trans _ _ _ y1); [apply rt_step; exists SB; apply pstep_fun_sound; exact EB|apply IH].
Qed.
End W.

(* ---- when the connection reproduces exception classes, the evaluation seen through it is the one-process evaluation ---- *)
Section Identity.
Variable xw : side -> list nat -> list nat.
Hypothesis xw_id : forall t m, xw t m = m.
Lemma cross_id t o : cross (xw t) o = o.
Proof. destruct o as [v|[i m]]; cbn; [reflexivity|now rewrite xw_id]. Qed.
Lemma seen_by_id s k o : seen_by xw s k o = o.
Proof. unfold seen_by. destruct (side_eqb (nside k) s); [reflexivity|apply cross_id]. Qed.
Lemma evalkx_id n s : forall ks acc, Forall (fun kc => evalx xw (fst kc) = eval (fst kc)) ks -> evalkx xw s n ks acc = evalk n ks acc.
Proof.
  induction ks as [|[k c] ks IH]; intros acc HF; [reflexivity|]. inversion HF as [|? ? Hk HF']; subst. cbn [fst] in Hk.
  cbn [evalkx evalk]. rewrite Hk. destruct (eval k) as [l1 o0]. rewrite seen_by_id.
  destruct o0 as [v|e]; [now rewrite IH|destruct (catches c e); [now rewrite IH|reflexivity]].
Qed.
Lemma evalx_id : forall n, evalx xw n = eval n.
Proof.
  induction n as [s i kids r HF] using node_ind'. rewrite evalx_evalkx, eval_evalk. cbn [nside nkids nid].
  now rewrite (evalkx_id (Node s i kids r) s kids 0 HF).
Qed.
Lemma evalroot_id root : evalroot xw root = eval root.
Proof.
  unfold evalroot. rewrite eval_evalk. rewrite evalkx_id; [reflexivity|]. apply Forall_forall. intros kc _. apply evalx_id.
Qed.

Theorem distributed_eq_local_id root : exists f' : side -> peer,
  steps xw (init root) (mk f' (fst (eval root)) (Some (snd (eval root)))) /\
  stack (f' SA) = [] /\ stack (f' SB) = [] /\ inbox (f' SA) = [] /\ inbox (f' SB) = [].
Proof. rewrite <- evalroot_id. apply distributed_eq_local. Qed.
Theorem every_execution_is_local_id root y o : steps xw (init root) y -> result y = Some o ->
  o = snd (eval root) /\ log y = fst (eval root).
Proof. rewrite <- evalroot_id. apply every_execution_is_local. Qed.
Theorem no_deadlock_before_result_id root y : steps xw (init root) y -> result y = None ->
  (exists y', step xw y y') /\ exists f', steps xw y (mk f' (fst (eval root)) (Some (snd (eval root)))).
Proof. rewrite <- evalroot_id. apply no_deadlock_before_result. Qed.
End Identity.
