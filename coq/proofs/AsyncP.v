(* Proofs about model/Async.v: finality of the outcome, callbacks exactly once in order, exact expiry of wait,
   sync_request = async_request + value, and the skeleton programs mean the model's functions. *)
From V Require Import lib.Base lib.Sx model.Async.
From Coq Require Import ZifyBool String.
Open Scope Z_scope.

(* ------------------------------------------------------------------ Timeout *)
Lemma expired_at_spec tt t : expired_at tt t = true <-> finite tt = true /\ tmax tt <= t.
Proof. unfold expired_at, timeout_expired. destruct (finite tt); cbn; split; try lia; intros [? ?]; try discriminate; lia. Qed.

Lemma expired_mono tt t t' : t <= t' -> expired_at tt t = true -> expired_at tt t' = true.
Proof. intros H E. apply expired_at_spec in E. apply expired_at_spec. split; [tauto|lia]. Qed.

Lemma never_not_expired t : expired_at never t = false.
Proof. reflexivity. Qed.

Lemma mk_timeout_finite now t : finite (mk_timeout now t) = true <-> exists z, t = Some z /\ 0 <= z.
Proof.
  unfold mk_timeout, timeout_finite; cbn. destruct t as [z|]; split.
  - intros H. exists z. split; [reflexivity|lia].
  - intros (z' & [= <-] & H). lia.
  - discriminate.
  - intros (z & H & _). discriminate.
Qed.

Lemma mk_timeout_tmax now z : 0 <= z -> tmax (mk_timeout now (Some z)) = now + z.
Proof. intros H. unfold mk_timeout, timeout_tmax, timeout_finite, oz; cbn. destruct (Z.geb_spec z 0); [reflexivity|lia]. Qed.

(* none and negative timeouts never expire; zero expires at once *)
Lemma mk_timeout_none_never now t : expired_at (mk_timeout now None) t = false.
Proof. reflexivity. Qed.
Lemma mk_timeout_negative_never now z t : z < 0 -> expired_at (mk_timeout now (Some z)) t = false.
Proof. intros H. unfold expired_at, timeout_expired, mk_timeout, timeout_finite; cbn. destruct (Z.geb_spec z 0); [lia|reflexivity]. Qed.
Lemma mk_timeout_expired now z t : 0 <= z -> expired_at (mk_timeout now (Some z)) t = (now + z <=? t).
Proof.
  intros H. unfold expired_at, timeout_expired, mk_timeout, timeout_finite, timeout_tmax, oz; cbn.
  destruct (Z.geb_spec z 0); [|lia]. cbn. lia.
Qed.

(* ------------------------------------------------------------------ eta / setters *)
Lemma set_now_id w : set_now w (now w) = w.
Proof. destruct w; reflexivity. Qed.

Definition dur (m : msg) : Z := match m with Traffic d => Z.of_N d | _ => 0 end.
Lemma dur_nonneg m : 0 <= dur m.
Proof. destruct m; cbn; lia. Qed.

(* ------------------------------------------------------------------ __call__ *)
Lemma ar_call_frame w e v :
  now (ar_call w e v) = now w /\ queue (ar_call w e v) = queue w /\ tie (ar_call w e v) = tie w /\
  registered (ar_call w e v) = registered w /\ g_regs (ar_call w e v) = g_regs w /\ g_disp (ar_call w e v) = g_disp w /\
  ttl (res (ar_call w e v)) = ttl (res w).
Proof. unfold ar_call. destruct (ar_expired (res w) (now w)); cbn; repeat split. Qed.

Lemma ar_call_expired w e v : ar_expired (res w) (now w) = true -> ar_call w e v = w.
Proof. unfold ar_call. now intros ->. Qed.

Lemma ar_call_accept w e v : ar_expired (res w) (now w) = false ->
  let w' := ar_call w e v in
  ready (res w') = true /\ is_exc (res w') = e /\ obj (res w') = v /\ callbacks (res w') = [] /\
  log w' = log w ++ map (fun c => (c, now w)) (callbacks (res w)) /\ g_got w' = Some (now w).
Proof. unfold ar_call. intros ->. cbn. repeat split. Qed.

(* ------------------------------------------------------------------ dispatch *)
Lemma dispatch_frame w m :
  let w' := dispatch w m in
  now w' = now w + dur m /\ queue w' = queue w /\ tie w' = tie w /\ g_regs w' = g_regs w /\
  ttl (res w') = ttl (res w) /\ g_disp w' = g_disp w ++ [(now w, now w + dur m, m)].
Proof.
  unfold dispatch. destruct m as [e v|d|]; cbn.
  - destruct (registered w); cbn.
    + pose proof (ar_call_frame (set_registered w false) e v) as (A & B & C & D & E & F & G). cbn in *.
      rewrite A, B, C, E, F, G. repeat split; try lia. now rewrite Z.add_0_r.
    + rewrite Z.add_0_r. repeat split.
  - repeat split.
  - rewrite Z.add_0_r. repeat split.
Qed.

(* what a dispatch does to the result: only a still-registered reply that is not late changes it *)
Lemma dispatch_result w m :
  let w' := dispatch w m in
  match m with
  | Reply e v =>
      if registered w then
        registered w' = false /\
        (if ar_expired (res w) (now w) then res w' = res w /\ log w' = log w /\ g_got w' = g_got w
         else ready (res w') = true /\ is_exc (res w') = e /\ obj (res w') = v /\ callbacks (res w') = [] /\
              log w' = log w ++ map (fun c => (c, now w)) (callbacks (res w)) /\ g_got w' = Some (now w))
      else res w' = res w /\ log w' = log w /\ registered w' = false /\ g_got w' = g_got w
  | _ => res w' = res w /\ log w' = log w /\ registered w' = registered w /\ g_got w' = g_got w
  end.
Proof.
  unfold dispatch. destruct m as [e v|d|]; cbn; [|repeat split..].
  destruct (registered w) eqn:R; cbn; [|rewrite R; repeat split].
  destruct (ar_expired (res w) (now w)) eqn:X.
  - rewrite ar_call_expired by exact X. cbn. repeat split.
  - pose proof (ar_call_accept (set_registered w false) e v X) as (A & B & C & D & E & F).
    pose proof (ar_call_frame (set_registered w false) e v) as (_ & _ & _ & G & _). cbn in *.
    repeat split; assumption.
Qed.

(* ------------------------------------------------------------------ serve *)
Definition head_after (w : world) (t : Z) : Prop :=
  match queue w with [] => True | (a, _) :: _ => t < a \/ (t = a /\ tie w = false) end.

Lemma serve_spec tt w w' r : serve_tt tt w = (w', r) ->
  (r = PData /\ exists a m q, queue w = (a, m) :: q /\
     let t' := Z.max (now w) a in
     (finite tt = true -> now w < tmax tt -> t' < tmax tt \/ (tie w = true /\ t' = tmax tt)) /\
     (finite tt = true -> tmax tt <= now w -> t' = now w) /\
     w' = dispatch (set_queue (set_now w t') q) m)
  \/ (r = PNothing /\ finite tt = true /\ w' = set_now w (Z.max (now w) (tmax tt)) /\ head_after w (Z.max (now w) (tmax tt)))
  \/ (r = PHang /\ finite tt = false /\ queue w = [] /\ w' = w).
Proof.
  unfold serve_tt, chan_poll, timeleft, timeout_timeleft, head_after.
  destruct (queue w) as [|[a m] q] eqn:Q.
  - destruct (finite tt) eqn:F; intros [= <- <-].
    + right; left. repeat split. f_equal. lia.
    + right; right. repeat split.
  - destruct (Z.leb_spec a (now w)) as [L|L].
    + rewrite Q. intros [= <- <-]. left. split; [reflexivity|]. exists a, m, q. split; [reflexivity|].
      cbn zeta. replace (Z.max (now w) a) with (now w) by lia. rewrite set_now_id. repeat split; auto; lia.
    + destruct (finite tt) eqn:F.
      * destruct ((a <? now w + Z.max 0 (tmax tt - now w)) || ((a =? now w + Z.max 0 (tmax tt - now w)) && tie w)) eqn:C.
        -- cbn [queue set_now]. rewrite Q. intros [= <- <-]. left. split; [reflexivity|]. exists a, m, q. split; [reflexivity|].
           cbn zeta. replace (Z.max (now w) a) with a by lia. repeat split; try lia.
        -- intros [= <- <-]. right; left. repeat split. { f_equal. lia. }
           destruct (tie w); cbn in C; [left|]; lia.
      * cbn [queue set_now]. rewrite Q. intros [= <- <-]. left. split; [reflexivity|]. exists a, m, q. split; [reflexivity|].
        cbn zeta. replace (Z.max (now w) a) with a by lia. repeat split; intros; discriminate.
Qed.

(* ------------------------------------------------------------------ the invariant of reachable worlds *)
Definition cb_times (tg : Z) (regs : list (N * Z)) : list (N * Z) := map (fun r => (fst r, Z.max (snd r) tg)) regs.

Record inv (w : world) : Prop := {
  inv_reg : ready (res w) = true -> registered w = false;
  inv_pending : ready (res w) = false -> log w = [] /\ callbacks (res w) = map fst (g_regs w) /\ g_got w = None;
  inv_ready : ready (res w) = true ->
              callbacks (res w) = [] /\ exists tg, g_got w = Some tg /\ tg <= now w /\ log w = cb_times tg (g_regs w);
  inv_regs : Forall (fun r => snd r <= now w) (g_regs w)
}.

Lemma inv_transfer w w' :
  res w' = res w -> log w' = log w -> g_regs w' = g_regs w -> g_got w' = g_got w ->
  (registered w' = registered w \/ registered w' = false) -> now w <= now w' -> inv w -> inv w'.
Proof.
  intros R L G T Rg N [I1 I2 I3 I4]. split; rewrite ?R, ?L, ?G, ?T.
  - intros H. destruct Rg as [-> | ->]; auto.
  - exact I2.
  - intros H. destruct (I3 H) as (A & tg & B & C & D). split; [exact A|]. exists tg. repeat split; auto; lia.
  - eapply Forall_impl; [|exact I4]. cbn. intros; lia.
Qed.

Lemma inv_set_now w t : now w <= t -> inv w -> inv (set_now w t).
Proof. intros H. apply inv_transfer; cbn; auto. Qed.
Lemma inv_set_queue w q : inv w -> inv (set_queue w q).
Proof. apply inv_transfer; cbn; auto; lia. Qed.

Lemma cb_times_now regs t : Forall (fun r => snd r <= t) regs -> map (fun c => (c, t)) (map fst regs) = cb_times t regs.
Proof.
  unfold cb_times. induction 1 as [|[c tr] l H _ IH]; cbn; [reflexivity|]. rewrite IH. cbn in H. repeat f_equal. lia.
Qed.

Lemma inv_dispatch w m : inv w -> inv (dispatch w m).
Proof.
  intros I. pose proof (dispatch_frame w m) as (N & _ & _ & G & _). pose proof (dispatch_result w m) as R. cbn zeta in *.
  pose proof (dur_nonneg m) as D.
  assert (forall rg, res (dispatch w m) = res w /\ log (dispatch w m) = log w /\ registered (dispatch w m) = rg /\ g_got (dispatch w m) = g_got w ->
          (rg = registered w \/ rg = false) -> inv (dispatch w m)) as Same.
  { intros rg (A & B & C & E) Hrg. apply (inv_transfer w); auto; [|lia]. rewrite C. exact Hrg. }
  destruct m as [e v|d|]; [|apply (Same _ R); auto..].
  destruct (registered w) eqn:Rg; [|apply (Same _ R); auto].
  destruct R as (R0 & R). destruct (ar_expired (res w) (now w)) eqn:X.
  - destruct R as (A & B & C). apply (inv_transfer w); auto; lia.
  - destruct R as (A & B & C & E & F & H).
    assert (ready (res w) = false) as NR.
    { destruct (ready (res w)) eqn:Y; [|reflexivity]. destruct I as [I1 _ _ _]. rewrite (I1 Y) in Rg. discriminate. }
    destruct I as [_ I2 _ I4]. destruct (I2 NR) as (L0 & CB & _).
    split; rewrite ?G, ?N.
    + auto.
    + rewrite A. discriminate.
    + intros _. split; [exact E|]. exists (now w). repeat split; [exact H|lia|].
      rewrite F, L0, CB. cbn. now apply cb_times_now.
    + eapply Forall_impl; [|exact I4]. cbn; intros; lia.
Qed.

Lemma serve_now_le tt w w' r : serve_tt tt w = (w', r) -> now w <= now w'.
Proof.
  intros H. apply serve_spec in H as [(_ & a & m & q & _ & _ & _ & ->)|[(_ & _ & -> & _)|(_ & _ & _ & ->)]].
  - pose proof (dispatch_frame (set_queue (set_now w (Z.max (now w) a)) q) m) as (N & _). cbn zeta in N. rewrite N. cbn.
    pose proof (dur_nonneg m). lia.
  - cbn. lia.
  - lia.
Qed.

Lemma inv_serve tt w w' r : serve_tt tt w = (w', r) -> inv w -> inv w'.
Proof.
  intros H I. apply serve_spec in H as [(_ & a & m & q & _ & _ & _ & ->)|[(_ & _ & -> & _)|(_ & _ & _ & ->)]].
  - apply inv_dispatch, inv_set_queue, inv_set_now; [lia|exact I].
  - apply inv_set_now; [lia|exact I].
  - exact I.
Qed.

Lemma inv_add_callback w c : inv w -> inv (ar_add_callback w c).
Proof.
  intros [I1 I2 I3 I4]. unfold ar_add_callback. destruct (ready (res w)) eqn:R; split; cbn; rewrite ?R.
  - exact I1.
  - discriminate.
  - intros _. destruct (I3 eq_refl) as (A & tg & B & C & D). split; [exact A|]. exists tg. repeat split; auto.
    rewrite D. unfold cb_times. rewrite map_app. cbn. repeat f_equal. lia.
  - apply Forall_app. split; [exact I4|]. constructor; [cbn; lia|constructor].
  - discriminate.
  - intros _. destruct (I2 eq_refl) as (A & B & C). repeat split; auto. rewrite map_app, B. reflexivity.
  - discriminate.
  - apply Forall_app. split; [exact I4|]. constructor; [cbn; lia|constructor].
Qed.

Lemma inv_set_expiry w t : inv w -> inv (ar_set_expiry w t).
Proof. intros [I1 I2 I3 I4]. unfold ar_set_expiry. split; cbn; auto. Qed.

Lemma poll_all0_now_le w : now w <= now (poll_all0 w).
Proof. unfold poll_all0. destruct (serve_tt _ w) eqn:E. cbn. eapply serve_now_le; eauto. Qed.
Lemma inv_poll_all0 w : inv w -> inv (poll_all0 w).
Proof. unfold poll_all0. destruct (serve_tt _ w) eqn:E. cbn. eapply inv_serve; eauto. Qed.

Lemma q_ready_now_le w : now w <= now (fst (q_ready w)).
Proof.
  unfold q_ready. destruct (ready (res w)); [cbn; lia|]. destruct (expired_at _ _); [cbn; lia|]. cbn. apply poll_all0_now_le.
Qed.
Lemma inv_q_ready w : inv w -> inv (fst (q_ready w)).
Proof.
  intros I. unfold q_ready. destruct (ready (res w)); [exact I|]. destruct (expired_at _ _); [exact I|]. cbn. now apply inv_poll_all0.
Qed.

Lemma wait_loop_inv fuel : forall w, inv w -> inv (fst (wait_loop fuel w)) /\ now w <= now (fst (wait_loop fuel w)).
Proof.
  induction fuel as [|f IH]; intros w I; cbn [wait_loop].
  - destruct (ready (res w)); [split; [exact I|cbn; lia]|]. destruct (expired_at _ _); split; try exact I; cbn; lia.
  - destruct (ready (res w)); [split; [exact I|cbn; lia]|]. destruct (expired_at _ _); [split; [exact I|cbn; lia]|].
    destruct (serve_tt (ttl (res w)) w) as [w1 r] eqn:E.
    pose proof (serve_now_le _ _ _ _ E) as N. pose proof (inv_serve _ _ _ _ E I) as I1.
    destruct r; try (destruct (IH w1 I1) as (A & B); split; [exact A|lia]).
    cbn. split; [exact I1|exact N].
Qed.

Lemma step_inv w a : inv w -> inv (fst (step w a)) /\ now w <= now (fst (step w a)).
Proof.
  intros I. destruct a as [d|c|t| | | | | |t]; cbn [step].
  - cbn. split; [apply inv_set_now; [lia|exact I]|lia].
  - cbn. split; [now apply inv_add_callback|]. unfold ar_add_callback. destruct (ready (res w)); cbn; lia.
  - cbn. split; [now apply inv_set_expiry|lia].
  - pose proof (inv_q_ready w I). pose proof (q_ready_now_le w). destruct (q_ready w). cbn in *. auto.
  - unfold q_error. pose proof (inv_q_ready w I). pose proof (q_ready_now_le w). destruct (q_ready w). cbn in *. auto.
  - cbn. split; [exact I|lia].
  - unfold q_value, ar_wait. pose proof (wait_loop_inv (wait_fuel w) w I) as (A & B).
    destruct (wait_loop (wait_fuel w) w) as [w' o]. cbn in *. destruct o; cbn; auto.
  - unfold ar_wait. apply wait_loop_inv, I.
  - destruct (serve_tt (mk_timeout (now w) t) w) as [w' r] eqn:E.
    pose proof (serve_now_le _ _ _ _ E). pose proof (inv_serve _ _ _ _ E I). destruct r; cbn; auto.
Qed.

Lemma run_w_inv acts : forall w, inv w -> inv (run_w w acts) /\ now w <= now (run_w w acts).
Proof.
  unfold run_w. induction acts as [|a rest IH]; intros w I; cbn [fold_left].
  - split; [exact I|lia].
  - destruct (step_inv w a I) as (A & B). destruct (IH _ A) as (C & D). split; [exact C|lia].
Qed.

Lemma run_hist_run_w acts : forall w, fst (run_hist w acts) = run_w w acts.
Proof.
  unfold run_w. induction acts as [|a rest IH]; intros w; cbn [run_hist fold_left]; [reflexivity|].
  destruct (step w a) as [w1 o]. specialize (IH w1). destruct (run_hist w1 rest). cbn in *. exact IH.
Qed.

Lemma inv_fresh t0 tb q : inv (fresh t0 tb q).
Proof. split; cbn; try discriminate; auto. Qed.
Lemma inv_async_request t sd w : g_regs w = [] -> log w = [] -> g_got w = None -> inv (async_request t sd w).
Proof.
  intros G L T. assert (inv (set_now (set_registered (set_res w new_ar) true) (now w + Z.of_N sd))) as I.
  { split; cbn; try discriminate; rewrite ?G, ?L, ?T; auto. }
  unfold async_request. destruct t; [apply inv_set_expiry|]; exact I.
Qed.

(* ------------------------------------------------------------------ predicates closed under the primitives *)
Section Closed.
  Variable P : world -> Prop.
  Hypothesis P_now : forall w t, now w <= t -> P w -> P (set_now w t).
  Hypothesis P_queue : forall w q, P w -> P (set_queue w q).
  Hypothesis P_dispatch : forall w m, P w -> P (dispatch w m).

  Lemma closed_serve tt w w' r : serve_tt tt w = (w', r) -> P w -> P w'.
  Proof.
    intros H I. apply serve_spec in H as [(_ & a & m & q & _ & _ & _ & ->)|[(_ & _ & -> & _)|(_ & _ & _ & ->)]].
    - apply P_dispatch, P_queue, P_now; [lia|exact I].
    - apply P_now; [lia|exact I].
    - exact I.
  Qed.
  Lemma closed_poll_all0 w : P w -> P (poll_all0 w).
  Proof. unfold poll_all0. destruct (serve_tt _ w) eqn:E. cbn. eapply closed_serve; eauto. Qed.
  Lemma closed_q_ready w : P w -> P (fst (q_ready w)).
  Proof.
    intros I. unfold q_ready. destruct (ready (res w)); [exact I|]. destruct (expired_at _ _); [exact I|]. cbn. now apply closed_poll_all0.
  Qed.
  Lemma closed_wait_loop fuel : forall w, P w -> P (fst (wait_loop fuel w)).
  Proof.
    induction fuel as [|f IH]; intros w I; cbn [wait_loop].
    - destruct (ready (res w)); [exact I|]. destruct (expired_at _ _); exact I.
    - destruct (ready (res w)); [exact I|]. destruct (expired_at _ _); [exact I|].
      destruct (serve_tt (ttl (res w)) w) as [w1 r] eqn:E. pose proof (closed_serve _ _ _ _ E I) as I1.
      destruct r; try (apply IH; exact I1). exact I1.
  Qed.
  Lemma closed_step w a : P w ->
    (forall c, a = AddCb c -> P (ar_add_callback w c)) -> (forall t, a = SetExpiry t -> P (ar_set_expiry w t)) ->
    P (fst (step w a)).
  Proof.
    intros I HA HS. destruct a as [d|c|t| | | | | |t]; cbn [step].
    - cbn. apply P_now; [lia|exact I].
    - cbn. now apply HA.
    - cbn. now apply HS.
    - pose proof (closed_q_ready w I). destruct (q_ready w). exact H.
    - unfold q_error. pose proof (closed_q_ready w I). destruct (q_ready w). exact H.
    - exact I.
    - unfold q_value, ar_wait. pose proof (closed_wait_loop (wait_fuel w) w I) as A.
      destruct (wait_loop (wait_fuel w) w) as [w' o]. cbn in *. destruct o; exact A.
    - unfold ar_wait. now apply closed_wait_loop.
    - destruct (serve_tt (mk_timeout (now w) t) w) as [w' r] eqn:E.
      pose proof (closed_serve _ _ _ _ E I). destruct r; cbn; auto.
  Qed.
End Closed.

Definition is_set_expiry (a : action) : bool := match a with SetExpiry _ => true | _ => false end.
Definition no_set_expiry (acts : list action) : Prop := forallb (fun a => negb (is_set_expiry a)) acts = true.

Lemma closed_run (P : world -> Prop) :
  (forall w t, now w <= t -> P w -> P (set_now w t)) -> (forall w q, P w -> P (set_queue w q)) ->
  (forall w m, P w -> P (dispatch w m)) -> (forall w c, P w -> P (ar_add_callback w c)) ->
  forall acts w, no_set_expiry acts -> P w -> P (run_w w acts).
Proof.
  intros H1 H2 H3 H4. unfold run_w, no_set_expiry. induction acts as [|a rest IH]; intros w N I; cbn [fold_left]; [exact I|].
  cbn in N. apply andb_prop in N as (Na & N). apply IH; [exact N|].
  apply closed_step; auto. intros t ->. discriminate.
Qed.
Lemma closed_run_all (P : world -> Prop) :
  (forall w t, now w <= t -> P w -> P (set_now w t)) -> (forall w q, P w -> P (set_queue w q)) ->
  (forall w m, P w -> P (dispatch w m)) -> (forall w c, P w -> P (ar_add_callback w c)) ->
  (forall w t, P w -> P (ar_set_expiry w t)) ->
  forall acts w, P w -> P (run_w w acts).
Proof.
  intros H1 H2 H3 H4 H5. unfold run_w. induction acts as [|a rest IH]; intros w I; cbn [fold_left]; [exact I|].
  apply IH. apply closed_step; auto.
Qed.

Lemma dispatch_unreg w m : registered w = false ->
  res (dispatch w m) = res w /\ registered (dispatch w m) = false /\ log (dispatch w m) = log w /\ g_got (dispatch w m) = g_got w.
Proof.
  intros R. pose proof (dispatch_result w m) as H. cbn zeta in H. destruct m; rewrite ?R in H; intuition congruence.
Qed.

(* ------------------------------------------------------------------ 1a. a value, once there, stays *)
Definition has_value (e : bool) (v : Z) (w : world) : Prop :=
  ready (res w) = true /\ is_exc (res w) = e /\ obj (res w) = v /\ registered w = false.

Lemma has_value_run e v acts w : has_value e v w -> has_value e v (run_w w acts).
Proof.
  apply (closed_run_all (has_value e v)); unfold has_value.
  - intros; cbn; auto.
  - intros; cbn; auto.
  - intros w0 m (A & B & C & D). destruct (dispatch_unreg w0 m D) as (E & F & _). rewrite E. auto.
  - intros w0 c (A & B & C & D). unfold ar_add_callback. rewrite A. cbn. auto.
  - intros w0 t (A & B & C & D). cbn. auto.
Qed.

Lemma outcome_got w e v : outcome_of w = Got e v <-> ready (res w) = true /\ is_exc (res w) = e /\ obj (res w) = v.
Proof.
  unfold outcome_of. destruct (ready (res w)).
  - split; [intros [= <- <-]; auto|intros (_ & <- & <-); reflexivity].
  - destruct (expired_at _ _); split; try discriminate; intros (? & _); discriminate.
Qed.
Lemma outcome_expired w : outcome_of w = Expired <-> ready (res w) = false /\ expired_at (ttl (res w)) (now w) = true.
Proof.
  unfold outcome_of. destruct (ready (res w)); [split; [discriminate|intros (? & _); discriminate]|].
  destruct (expired_at _ _); split; auto; try discriminate. intros (_ & ?); discriminate.
Qed.
Lemma outcome_pending w : outcome_of w = Pending <-> ready (res w) = false /\ expired_at (ttl (res w)) (now w) = false.
Proof.
  unfold outcome_of. destruct (ready (res w)); [split; [discriminate|intros (? & _); discriminate]|].
  destruct (expired_at _ _); split; auto; try discriminate. intros (_ & ?); discriminate.
Qed.

Theorem got_final w e v acts : inv w -> outcome_of w = Got e v -> outcome_of (run_w w acts) = Got e v.
Proof.
  intros I H. apply outcome_got in H as (A & B & C). apply outcome_got.
  destruct (has_value_run e v acts w) as (X & Y & Z & _); [|auto]. repeat split; auto. destruct I as [I1 _ _ _]; auto.
Qed.

(* observations on a result that has its value: immediate, at the same clock, state untouched *)
Theorem got_observations w e v : outcome_of w = Got e v ->
  step w QReady = (w, OBool true) /\ step w QError = (w, OBool e) /\ step w QExpired = (w, OBool false) /\
  step w Wait = (w, ONone) /\ step w QValue = (w, if e then ORaise v else OVal v).
Proof.
  intros H. apply outcome_got in H as (A & B & C).
  cbn [step]. unfold q_error, q_ready, q_value, ar_wait, wait_fuel, ar_expired. cbn [wait_loop]. rewrite A, B, C. cbn. repeat split.
Qed.

(* ------------------------------------------------------------------ 1b. expired stays expired; late replies change nothing *)
Definition dead (tt : timeout) (l : list (N * Z)) (e : bool) (v : Z) (t : Z) (w : world) : Prop :=
  ready (res w) = false /\ ttl (res w) = tt /\ log w = l /\ is_exc (res w) = e /\ obj (res w) = v /\ t <= now w.

Lemma dead_run tt l e v t acts w : expired_at tt t = true -> no_set_expiry acts ->
  dead tt l e v t w -> dead tt l e v t (run_w w acts).
Proof.
  intros X. apply (closed_run (dead tt l e v t)); unfold dead.
  - intros w0 t0 H (A & B & C & D & E & F). cbn. repeat split; auto. lia.
  - intros; cbn; auto.
  - intros w0 m (A & B & C & D & E & F). pose proof (dispatch_frame w0 m) as (N & _ & _ & _ & T & _).
    pose proof (dispatch_result w0 m) as R. cbn zeta in *. pose proof (dur_nonneg m).
    assert (ar_expired (res w0) (now w0) = true) as AX.
    { unfold ar_expired. rewrite A, B. cbn. eapply expired_mono; eauto. }
    rewrite T, N. destruct m as [e' v'|d|].
    + destruct (registered w0); [rewrite AX in R; destruct R as (_ & R1 & R2 & _)|destruct R as (R1 & R2 & _)];
        rewrite R1, R2; repeat split; auto; lia.
    + destruct R as (R1 & R2 & _). rewrite R1, R2. repeat split; auto; lia.
    + destruct R as (R1 & R2 & _). rewrite R1, R2. repeat split; auto; lia.
  - intros w0 c (A & B & C & D & E & F). unfold ar_add_callback. rewrite A. cbn. repeat split; auto.
Qed.

Theorem expired_final w acts : no_set_expiry acts -> outcome_of w = Expired ->
  let w' := run_w w acts in
  outcome_of w' = Expired /\ log w' = log w /\ is_exc (res w') = is_exc (res w) /\ obj (res w') = obj (res w) /\ ttl (res w') = ttl (res w).
Proof.
  intros N H. apply outcome_expired in H as (A & X). cbn zeta.
  destruct (dead_run (ttl (res w)) (log w) (is_exc (res w)) (obj (res w)) (now w) acts w X N) as (B & C & D & E & F & G).
  { unfold dead. repeat split; auto. lia. }
  repeat split; auto. apply outcome_expired. split; [exact B|]. rewrite C. eapply expired_mono; eauto.
Qed.

Theorem expired_observations w : outcome_of w = Expired ->
  step w QReady = (w, OBool false) /\ step w QError = (w, OBool false) /\ step w QExpired = (w, OBool true) /\
  step w Wait = (w, OTimeout) /\ step w QValue = (w, OTimeout).
Proof.
  intros H. apply outcome_expired in H as (A & X).
  cbn [step]. unfold q_error, q_ready, q_value, ar_wait, wait_fuel, ar_expired. cbn [wait_loop]. rewrite A, X. cbn. repeat split.
Qed.

(* 1c. the dispatch of the (still registered) reply decides: accepted iff the clock is before the expiry *)
Theorem reply_decides w e v : registered w = true -> ready (res w) = false ->
  let w' := dispatch w (Reply e v) in
  registered w' = false /\ now w' = now w /\
  if expired_at (ttl (res w)) (now w)
  then outcome_of w' = Expired /\ res w' = res w /\ log w' = log w
  else outcome_of w' = Got e v /\ log w' = log w ++ map (fun c => (c, now w)) (callbacks (res w)).
Proof.
  intros R NR. pose proof (dispatch_result w (Reply e v)) as H. pose proof (dispatch_frame w (Reply e v)) as (N & _).
  cbn zeta in *. rewrite R in H. unfold ar_expired in H. rewrite NR in H. cbn [negb andb] in H. cbn [dur] in N. rewrite Z.add_0_r in N. destruct H as (H0 & H).
  split; [exact H0|]. split; [exact N|]. destruct (expired_at (ttl (res w)) (now w)) eqn:X.
  - destruct H as (A & B & _). repeat split; auto. apply outcome_expired. rewrite A, N. auto.
  - destruct H as (A & B & C & _ & E & _). split; [|exact E]. apply outcome_got. auto.
Qed.

(* ------------------------------------------------------------------ 1. the outcome is the first of "reply dispatched" and "expiry passed" *)
Fixpoint first_reply (d : list (Z * Z * msg)) : option (Z * bool * Z) :=
  match d with
  | [] => None
  | (t, _, Reply e v) :: _ => Some (t, e, v)
  | _ :: r => first_reply r
  end.
Lemma first_reply_app d x : first_reply (d ++ [x]) = match first_reply d with Some s => Some s | None => first_reply [x] end.
Proof. induction d as [|[[t t'] [e v|n|]] d IH]; cbn [app first_reply]; auto. Qed.

Definition chr (tt : timeout) (w : world) : Prop :=
  ttl (res w) = tt /\
  match first_reply (g_disp w) with
  | None => registered w = true /\ ready (res w) = false
  | Some (t, e, v) => registered w = false /\ t <= now w /\
      if expired_at tt t then ready (res w) = false
      else ready (res w) = true /\ is_exc (res w) = e /\ obj (res w) = v /\ g_got w = Some t
  end.

Lemma chr_run tt acts w : no_set_expiry acts -> chr tt w -> chr tt (run_w w acts).
Proof.
  apply (closed_run (chr tt)); unfold chr.
  - intros w0 t0 H (A & B). cbn. split; [exact A|]. destruct (first_reply (g_disp w0)) as [[[t e] v]|]; [|exact B].
    destruct B as (B1 & B2 & B3). repeat split; auto. lia.
  - intros; cbn; auto.
  - intros w0 m (A & B). pose proof (dispatch_frame w0 m) as (N & _ & _ & _ & T & G).
    pose proof (dispatch_result w0 m) as R. cbn zeta in *. pose proof (dur_nonneg m) as D.
    rewrite T, G, first_reply_app. split; [exact A|].
    destruct (first_reply (g_disp w0)) as [[[t e] v]|].
    + destruct B as (B1 & B2 & B3). destruct (dispatch_unreg w0 m B1) as (E1 & E2 & _ & E4). rewrite E1, E2, E4, N.
      repeat split; auto. lia.
    + destruct B as (B1 & B2). destruct m as [e v|d|]; cbn [first_reply].
      * rewrite B1 in R. unfold ar_expired in R. rewrite B2, A in R. cbn [negb andb] in R. destruct R as (R0 & R).
        split; [exact R0|]. split; [lia|]. destruct (expired_at tt (now w0)).
        -- destruct R as (-> & _). exact B2.
        -- destruct R as (R1 & R2 & R3 & _ & _ & R6). auto.
      * destruct R as (-> & _ & -> & _). auto.
      * destruct R as (-> & _ & -> & _). auto.
  - intros w0 c (A & B). unfold ar_add_callback. destruct (ready (res w0)) eqn:Y; cbn; rewrite ?Y; auto.
Qed.

Lemma chr_async_request t sd w : g_disp w = [] -> chr (ttl (res (async_request t sd w))) (async_request t sd w).
Proof. intros G. unfold chr, async_request. destruct t; cbn; rewrite G; cbn; auto. Qed.

Theorem outcome_first_of_reply_and_expiry tt acts w : no_set_expiry acts -> chr tt w ->
  let w' := run_w w acts in
  outcome_of w' = match first_reply (g_disp w') with
                  | Some (t, e, v) => if expired_at tt t then Expired else Got e v
                  | None => if expired_at tt (now w') then Expired else Pending
                  end.
Proof.
  intros N C. cbn zeta. destruct (chr_run tt acts w N C) as (A & B). unfold outcome_of. rewrite A.
  destruct (first_reply (g_disp (run_w w acts))) as [[[t e] v]|].
  - destruct B as (_ & B2 & B3). destruct (expired_at tt t) eqn:X.
    + rewrite B3. now rewrite (expired_mono tt t _ B2 X).
    + destruct B3 as (-> & -> & -> & _). reflexivity.
  - destruct B as (_ & ->). reflexivity.
Qed.

(* ------------------------------------------------------------------ 2. callbacks: exactly once, in registration order *)
Fixpoint cb_ids (acts : list action) : list N :=
  match acts with [] => [] | AddCb c :: r => c :: cb_ids r | _ :: r => cb_ids r end.

Lemma regs_step w a : g_regs (fst (step w a)) = g_regs w ++ match a with AddCb c => [(c, now w)] | _ => [] end.
Proof.
  assert (forall a', (forall c, a' <> AddCb c) -> g_regs (fst (step w a')) = g_regs w) as H.
  { intros a' NA. apply (closed_step (fun w' => g_regs w' = g_regs w)); auto.
    - intros w0 m <-. now destruct (dispatch_frame w0 m) as (_ & _ & _ & G & _).
    - intros c ->. now destruct (NA c).
  }
  destruct a; try (rewrite app_nil_r; apply H; discriminate).
  cbn. unfold ar_add_callback. destruct (ready (res w)); reflexivity.
Qed.
Lemma regs_run acts : forall w, map fst (g_regs (run_w w acts)) = map fst (g_regs w) ++ cb_ids acts.
Proof.
  unfold run_w. induction acts as [|a rest IH]; intros w; cbn [fold_left cb_ids]; [now rewrite app_nil_r|].
  rewrite IH, regs_step, map_app, <- app_assoc. destruct a; cbn; rewrite ?app_nil_r; reflexivity.
Qed.

Theorem callbacks_once_in_order w acts : inv w -> g_regs w = [] ->
  let w' := run_w w acts in
  map fst (g_regs w') = cb_ids acts /\
  match outcome_of w' with
  | Got _ _ => exists tg, g_got w' = Some tg /\ log w' = cb_times tg (g_regs w') /\ callbacks (res w') = []
  | _ => log w' = [] /\ callbacks (res w') = cb_ids acts
  end.
Proof.
  intros I G. cbn zeta. pose proof (regs_run acts w) as RR. rewrite G in RR. cbn in RR. split; [exact RR|].
  destruct (run_w_inv acts w I) as ([_ I2 I3 _] & _). unfold outcome_of.
  destruct (ready (res (run_w w acts))).
  - destruct (I3 eq_refl) as (A & tg & B & _ & D). exists tg. auto.
  - destruct (I2 eq_refl) as (A & B & _). rewrite <- RR. destruct (expired_at _ _); auto.
Qed.

Lemma cb_times_ids tg regs : map fst (cb_times tg regs) = map fst regs.
Proof. unfold cb_times. rewrite map_map. reflexivity. Qed.

(* ------------------------------------------------------------------ 3. wait raises exactly at the expiry, later only when busy *)
Definition last_end (ds : list (Z * Z * msg)) (d : Z) : Z := fold_left (fun _ x => snd (fst x)) ds d.
Definition disp_ok (t0 tm : Z) (tb : bool) (x : Z * Z * msg) : Prop :=
  let '(r, e, m) := x in t0 <= r /\ (r < tm \/ (tb = true /\ r = tm)) /\ e = r + dur m.

Lemma wait_loop_exact fuel : forall w,
  ready (res w) = false -> finite (ttl (res w)) = true ->
  let tm := tmax (ttl (res w)) in
  let w' := fst (wait_loop fuel w) in let o := snd (wait_loop fuel w) in
  exists ds, g_disp w' = g_disp w ++ ds /\ Forall (disp_ok (now w) tm (tie w)) ds /\
    now w <= last_end ds (now w) /\ last_end ds (now w) <= now w' /\ o <> OHang /\
    (o = OTimeout -> ready (res w') = false /\ now w' = Z.max (Z.max (now w) tm) (last_end ds (now w))) /\
    (o = ONone -> ready (res w') = true) /\
    (o = OFuel -> (fuel <= List.length (queue w))%nat) /\
    (o = ONone \/ o = OTimeout \/ o = OFuel).
Proof.
  induction fuel as [|f IH]; intros w NR F; cbn zeta; cbn [wait_loop]; rewrite NR.
  - destruct (expired_at (ttl (res w)) (now w)) eqn:X; cbn [fst snd]; exists []; rewrite app_nil_r; cbn [last_end fold_left].
    + apply expired_at_spec in X as (_ & X). repeat split; auto; try lia; try discriminate.
    + repeat split; auto; try lia; try discriminate.
  - destruct (expired_at (ttl (res w)) (now w)) eqn:X.
    { cbn [fst snd]. exists []. rewrite app_nil_r. cbn [last_end fold_left].
      apply expired_at_spec in X as (_ & X). repeat split; auto; try lia; try discriminate. }
    assert (now w < tmax (ttl (res w))) as LT.
    { destruct (Z.ltb_spec (now w) (tmax (ttl (res w)))); [assumption|].
      assert (expired_at (ttl (res w)) (now w) = true) by (apply expired_at_spec; split; [exact F|lia]). congruence. }
    destruct (serve_tt (ttl (res w)) w) as [w1 r] eqn:E.
    apply serve_spec in E as [(-> & a & m & q & Q & B1 & _ & ->)|[(-> & _ & -> & _)|(-> & F' & _)]]; [| |congruence].
    + (* a message was received and dispatched *)
      set (t' := Z.max (now w) a) in *. set (w0 := set_queue (set_now w t') q).
      pose proof (dispatch_frame w0 m) as (N & Qd & Td & _ & T & G). pose proof (dispatch_result w0 m) as R. cbn zeta in *.
      pose proof (dur_nonneg m) as D. cbn [now set_queue set_now w0] in N, G.
      assert (disp_ok (now w) (tmax (ttl (res w))) (tie w) (t', t' + dur m, m)) as OK.
      { unfold disp_ok. repeat split; [lia|auto]. }
      destruct (ready (res (dispatch w0 m))) eqn:Y.
      * (* it made the result ready: the loop ends *)
        assert (wait_loop f (dispatch w0 m) = (dispatch w0 m, ONone)) as ->.
        { destruct f; cbn [wait_loop]; now rewrite Y. }
        cbn [fst snd]. exists [(t', t' + dur m, m)]. rewrite G. cbn [last_end fold_left fst snd].
        repeat split; auto; try lia; try discriminate.
      * specialize (IH (dispatch w0 m) Y). rewrite T in IH. cbn [res ttl set_queue set_now w0] in IH. specialize (IH F).
        cbn zeta in IH. destruct IH as (ds & I1 & I2 & I3 & I4 & I5 & I6 & I7 & I8 & I9).
        rewrite N, Td in *. cbn [tie set_queue set_now w0] in I2.
        destruct (wait_loop f (dispatch w0 m)) as [w' o]. cbn [fst snd] in *.
        exists ((t', t' + dur m, m) :: ds). rewrite I1, G, <- app_assoc. cbn [app last_end fold_left fst snd].
        fold (last_end ds (t' + dur m)).
        repeat split; auto; try lia.
        -- constructor; [exact OK|]. eapply Forall_impl; [|exact I2]. intros [[r e] m']. unfold disp_ok. intros (? & ? & ?). repeat split; auto; lia.
        -- apply I6; auto.
        -- destruct (I6 H) as (_ & ->). lia.
        -- intros H. specialize (I8 H). rewrite Qd in I8. cbn [queue set_queue w0] in I8. rewrite Q. cbn [List.length]. lia.
    + (* nothing arrived before the deadline: the clock is at the expiry *)
      set (w1 := set_now w (Z.max (now w) (tmax (ttl (res w))))).
      assert (wait_loop f w1 = (w1, OTimeout)) as ->.
      { assert (expired_at (ttl (res w1)) (now w1) = true) as X1 by (apply expired_at_spec; cbn; split; [exact F|lia]).
        destruct f; cbn [wait_loop]; cbn [res set_now w1]; rewrite NR; cbn [res set_now w1] in X1; now rewrite X1. }
      cbn [fst snd]. exists []. rewrite app_nil_r. cbn [last_end fold_left now set_now w1 res g_disp].
      repeat split; auto; try lia; try discriminate.
Qed.

Lemma last_end_snoc ds x d : last_end (ds ++ [x]) d = snd (fst x).
Proof. unfold last_end. now rewrite fold_left_app. Qed.

Theorem wait_exact w : ready (res w) = false -> finite (ttl (res w)) = true ->
  let tm := tmax (ttl (res w)) in
  let w' := fst (ar_wait w) in let o := snd (ar_wait w) in
  exists ds, g_disp w' = g_disp w ++ ds /\ Forall (disp_ok (now w) tm (tie w)) ds /\
    (o = ONone \/ o = OTimeout) /\
    (o = ONone -> ready (res w') = true) /\
    (o = OTimeout -> ready (res w') = false /\ tm <= now w' /\ now w' = Z.max (Z.max (now w) tm) (last_end ds (now w))) /\
    (o = OTimeout -> Z.max (now w) tm < now w' ->
       exists ds' r d, ds = ds' ++ [(r, now w', Traffic d)] /\ r <= tm /\ now w' = r + Z.of_N d).
Proof.
  intros NR F. cbn zeta. unfold ar_wait.
  destruct (wait_loop_exact (wait_fuel w) w NR F) as (ds & A & B & C & D & E & G & H & I & J). cbn zeta in *.
  exists ds. split; [exact A|]. split; [exact B|].
  assert (snd (wait_loop (wait_fuel w) w) <> OFuel) as NF.
  { intros X. specialize (I X). unfold wait_fuel in I. lia. }
  split; [destruct J as [|[|]]; auto; contradiction|]. split; [exact H|]. split.
  - intros X. destruct (G X) as (G1 & G2). repeat split; auto. lia.
  - intros X L. destruct (G X) as (_ & G2). rewrite G2 in L.
    destruct ds as [|x ds0] using rev_ind; [cbn in L; lia|]. clear IHds0.
    rewrite last_end_snoc in *. destruct x as [[r e] m]. cbn [fst snd] in *.
    apply Forall_app in B as (_ & B). apply Forall_inv in B. unfold disp_ok in B. destruct B as (B1 & B2 & B3).
    assert (0 < dur m) as P by lia. destruct m as [| d |]; cbn in P; try lia.
    exists ds0, r, d. cbn [dur] in *. repeat split; [|lia|lia]. repeat f_equal. lia.
Qed.

(* with nothing that can be received up to the expiry the waiting thread is never busy: the error is raised exactly at the expiry *)
Theorem wait_exact_idle w : ready (res w) = false -> finite (ttl (res w)) = true ->
  let tm := tmax (ttl (res w)) in
  (match queue w with [] => True | (a, _) :: _ => tm < a \/ (tm = a /\ tie w = false /\ now w < tm) end) ->
  ar_wait w = (set_now w (Z.max (now w) tm), OTimeout).
Proof.
  intros NR F tm HQ. unfold ar_wait, wait_fuel. cbn [wait_loop]. rewrite NR.
  destruct (expired_at (ttl (res w)) (now w)) eqn:X.
  { apply expired_at_spec in X as (_ & X). fold tm in X. replace (Z.max (now w) tm) with (now w) by lia. now rewrite set_now_id. }
  assert (now w < tm) as LT.
  { destruct (Z.ltb_spec (now w) tm); [assumption|].
    assert (expired_at (ttl (res w)) (now w) = true) by (apply expired_at_spec; split; [exact F|assumption]). congruence. }
  destruct (serve_tt (ttl (res w)) w) as [w1 r] eqn:E.
  apply serve_spec in E as [(-> & a & m & q & Q & B1 & _ & ->)|[(-> & _ & -> & _)|(-> & F' & _)]]; [| |congruence].
  - exfalso. rewrite Q in HQ. specialize (B1 F LT). fold tm in B1. destruct HQ as [|(? & ? & ?)]; [lia|].
    destruct B1 as [|(? & ?)]; [lia|congruence].
  - fold tm. set (w1 := set_now w (Z.max (now w) tm)).
    assert (expired_at (ttl (res w1)) (now w1) = true) as X1 by (apply expired_at_spec; cbn; split; [exact F|fold tm; lia]).
    cbn [res set_now w1] in *. destruct (List.length (queue w)); cbn [wait_loop]; cbn [res set_now w1]; now rewrite NR, X1.
Qed.

(* without a finite expiry wait never raises the timeout error *)
Lemma wait_loop_never fuel : forall w, finite (ttl (res w)) = false -> snd (wait_loop fuel w) <> OTimeout.
Proof.
  induction fuel as [|f IH]; intros w F; cbn [wait_loop];
    assert (expired_at (ttl (res w)) (now w) = false) as X by (unfold expired_at, timeout_expired; now rewrite F).
  - destruct (ready (res w)); [cbn; discriminate|]. rewrite X. cbn. discriminate.
  - destruct (ready (res w)); [cbn; discriminate|]. rewrite X.
    destruct (serve_tt (ttl (res w)) w) as [w1 r] eqn:E.
    assert (ttl (res w1) = ttl (res w)) as T.
    { refine (closed_serve (fun w' => ttl (res w') = ttl (res w)) _ _ _ _ _ _ _ E eq_refl); auto.
      intros w0 m <-. now destruct (dispatch_frame w0 m) as (_ & _ & _ & _ & T & _). }
    destruct r; try (apply IH; now rewrite T). cbn. discriminate.
Qed.
Theorem wait_never_times_out_without_expiry w : finite (ttl (res w)) = false -> snd (ar_wait w) <> OTimeout.
Proof. apply wait_loop_never. Qed.

(* ------------------------------------------------------------------ 4. sync_request / timed are async_request plus one more step *)
Theorem sync_is_async_then_value cfg_timeout sd w :
  sync_request cfg_timeout sd w = step (async_request cfg_timeout sd w) QValue.
Proof. reflexivity. Qed.
Theorem timed_is_async_then_set_expiry t sd w :
  timed_call t sd w = fst (step (async_request None sd w) (SetExpiry t)).
Proof. reflexivity. Qed.
(* async_request(timeout=t) arms the expiry after the request was sent; None leaves the result without expiry *)
Theorem async_request_arms_after_send t sd w :
  let w' := async_request t sd w in
  now w' = now w + Z.of_N sd /\ registered w' = true /\ ready (res w') = false /\
  ttl (res w') = match t with None => never | Some _ => mk_timeout (now w + Z.of_N sd) t end.
Proof. unfold async_request. destruct t; cbn; repeat split. Qed.

(* ------------------------------------------------------------------ the skeleton programs mean the model's functions *)
Definition mkargs e v c t := {| a_exc := e; a_obj := v; a_func := c; a_timeout := t |}.

Lemma exec_call w e v c t : fst (exec call_prog (mkargs e v c t) w) = ar_call w e v.
Proof.
  unfold ar_call. cbn [exec call_prog exec1 eval_guard]. destruct (ar_expired (res w) (now w)); [reflexivity|].
  destruct w as [n [r x o cb tt] rg q tb l gr gd gg]. reflexivity.
Qed.

Lemma while_wait_loop fuel : forall w,
  (match while_serve fuel (GAnd (GNot GReady) (GNot GTtlExpired)) w with
   | (w', Some o) => (w', o)
   | (w', None) => if negb (ready (res w')) then (w', OTimeout) else (w', ONone)
   end) = wait_loop fuel w.
Proof.
  induction fuel as [|f IH]; intros w; cbn [while_serve wait_loop eval_guard]; destruct (ready (res w)) eqn:R; cbn [negb];
    try (rewrite R; reflexivity); destruct (expired_at (ttl (res w)) (now w)) eqn:X; cbn [negb]; try (rewrite R; reflexivity);
    try reflexivity.
  destruct (serve_tt (ttl (res w)) w) as [w1 r]. destruct r; try apply IH. reflexivity.
Qed.
Lemma exec_wait x w : exec wait_prog x w = ar_wait w.
Proof.
  unfold ar_wait. rewrite <- while_wait_loop. cbn [exec wait_prog exec1].
  destruct (while_serve (wait_fuel w) _ w) as [w' [o|]]; [reflexivity|]. cbn [eval_guard]. destruct (ready (res w')); reflexivity.
Qed.
Lemma exec_add_callback w e v c t : fst (exec add_callback_prog (mkargs e v c t) w) = ar_add_callback w c.
Proof.
  destruct w as [n [r x o cb tt] rg q tb l gr gd gg]. destruct r; reflexivity.
Qed.
Lemma exec_set_expiry w e v c t : fst (exec set_expiry_prog (mkargs e v c t) w) = ar_set_expiry w t.
Proof. destruct w as [n [r x o cb tt] rg q tb l gr gd gg]. reflexivity. Qed.
Lemma exec_ready x w : exec ready_prog x w = (fst (q_ready w), OBool (snd (q_ready w))).
Proof.
  unfold q_ready. cbn [exec ready_prog exec1 eval_guard]. destruct (ready (res w)); [reflexivity|].
  destruct (expired_at (ttl (res w)) (now w)); reflexivity.
Qed.
Lemma exec_error x w : exec error_prog x w = (fst (q_error w), OBool (snd (q_error w))).
Proof. unfold q_error. cbn [exec error_prog exec1 eval_guard]. destruct (q_ready w) as [w' [|]]; reflexivity. Qed.
Lemma exec_expired x w : exec expired_prog x w = (w, OBool (ar_expired (res w) (now w))).
Proof. unfold ar_expired. cbn [exec expired_prog exec1 eval_guard]. destruct (ready (res w)); reflexivity. Qed.
Lemma exec_value x w : exec value_prog x w = q_value w.
Proof.
  unfold q_value. cbn [exec value_prog exec1]. destruct (ar_wait w) as [w' o]. destruct o; reflexivity.
Qed.

Lemma cexec_async_request cfg own sd t w :
  c_w (cexec cfg own sd async_request_prog {| c_w := w; c_timeout := t; c_ret := None |}) = async_request t sd w.
Proof. unfold async_request. destruct t; reflexivity. Qed.
Lemma cexec_sync_request cfg own sd t0 w :
  let f := cexec cfg own sd sync_request_prog {| c_w := w; c_timeout := t0; c_ret := None |} in
  (c_w f, c_ret f) = (fst (sync_request (cfg "sync_request_timeout"%string) sd w), Some (snd (sync_request (cfg "sync_request_timeout"%string) sd w))).
Proof.
  unfold sync_request. cbn [cexec sync_request_prog fold_left cexec1 c_w c_timeout c_ret].
  destruct (q_value (async_request (cfg "sync_request_timeout"%string) sd w)). reflexivity.
Qed.
Lemma cexec_timed_call cfg own sd t0 w :
  c_w (cexec cfg own sd timed_call_prog {| c_w := w; c_timeout := t0; c_ret := None |}) = timed_call own sd w.
Proof. reflexivity. Qed.
