(* Proofs about model/Async.v: finality of the outcome, callbacks exactly once in order, exact expiry of wait,
   sync_request = async_request + value, the refutation witnesses for the four findings, and the skeleton programs
   mean the model's functions. *)
From V Require Import lib.Base lib.Sx model.Async.
From Coq Require Import ZifyBool String.
Open Scope Z_scope.

(* ------------------------------------------------------------------ Timeout *)
Lemma expired_at_spec tt t : expired_at tt t = true <-> finite tt = true /\ tmax tt <= t.
Proof. unfold expired_at, timeout_expired. destruct (finite tt); cbn; split; try lia; intros [? ?]; try discriminate; lia. Qed.

Lemma expired_mono tt t t' : t <= t' -> expired_at tt t = true -> expired_at tt t' = true.
Proof. intros H E. apply expired_at_spec in E. apply expired_at_spec. split; [tauto|lia]. Qed.

Lemma mk_timeout_finite now t : finite (mk_timeout now t) = true <-> exists z, t = Some z /\ 0 <= z.
Proof.
  unfold mk_timeout, timeout_finite; cbn. destruct t as [z|]; split.
  - intros H. exists z. split; [reflexivity|lia].
  - intros (z' & [= <-] & H). lia.
  - discriminate.
  - intros (z & H & _). discriminate.
Qed.

Lemma mk_timeout_tmax now z : 0 <= z -> tmax (mk_timeout now (Some z)) = now + z.
Proof. intros H. unfold mk_timeout, timeout_tmax, timeout_finite, oz; cbn. destruct (Z.geb_spec z 0); [reflexivity|lia]. Qed.

(* none and negative timeouts never expire; zero expires at once *)
Lemma mk_timeout_none_never now t : expired_at (mk_timeout now None) t = false.
Proof. reflexivity. Qed.
Lemma mk_timeout_negative_never now z t : z < 0 -> expired_at (mk_timeout now (Some z)) t = false.
Proof. intros H. unfold expired_at, timeout_expired, mk_timeout, timeout_finite; cbn. destruct (Z.geb_spec z 0); [lia|reflexivity]. Qed.
Lemma mk_timeout_expired now z t : 0 <= z -> expired_at (mk_timeout now (Some z)) t = (now + z <=? t).
Proof.
  intros H. unfold expired_at, timeout_expired, mk_timeout, timeout_finite, timeout_tmax, oz; cbn.
  destruct (Z.geb_spec z 0); [|lia]. cbn. lia.
Qed.

(* ------------------------------------------------------------------ eta / setters *)
Lemma set_now_id w : set_now w (now w) = w.
Proof. destruct w; reflexivity. Qed.

(* how long the dispatch of a message keeps the thread: serving a request, or materialising a reply's value *)
Definition dur (m : msg) : Z := match m with Traffic d | Stray d => Z.of_N d | Reply _ _ u => Z.of_N u end.
Lemma dur_nonneg m : 0 <= dur m.
Proof. destruct m; cbn; lia. Qed.

(* ------------------------------------------------------------------ running callbacks *)
Definition quiet (cbs : list (N * bool)) : Prop := Forall (fun c => snd c = false) cbs.
Definition at_clock (t : Z) (cbs : list (N * bool)) : list (N * Z) := map (fun c => (fst c, t)) cbs.

Lemma run_all_log t cbs : fst (run_all t cbs) = at_clock t cbs.
Proof. induction cbs as [|[c r] l IH]; cbn; [reflexivity|]. destruct (run_all t l). cbn in *. now rewrite IH. Qed.
Lemma run_all_quiet t cbs : quiet cbs -> snd (run_all t cbs) = None.
Proof.
  induction 1 as [|[c r] l H _ IH]; cbn; [reflexivity|]. destruct (run_all t l). cbn in *. subst. reflexivity.
Qed.
Lemma run_until_quiet t cbs : quiet cbs -> run_until t cbs = (at_clock t cbs, None).
Proof.
  induction 1 as [|[c r] l H _ IH]; cbn; [reflexivity|]. cbn in H. subst. now rewrite IH.
Qed.

(* the callbacks waiting in w are harmless for the loop of __call__ *)
Definition cb_ok (w : world) : Prop := iso w = true \/ quiet (callbacks (res w)).

(* ------------------------------------------------------------------ __call__ *)
Lemma ar_call_frame w e v :
  let w' := fst (ar_call w e v) in
  now w' = now w /\ queue w' = queue w /\ tie w' = tie w /\ iso w' = iso w /\ atom w' = atom w /\ pend w' = pend w /\
  registered w' = registered w /\ g_regs w' = g_regs w /\ g_disp w' = g_disp w /\ ttl (res w') = ttl (res w).
Proof.
  unfold ar_call. destruct (ar_expired (res w) (now w)); cbn; [repeat split|].
  destruct (if iso w then _ else _); cbn. repeat split.
Qed.

Lemma ar_call_expired w e v : ar_expired (res w) (now w) = true -> ar_call w e v = (w, None).
Proof. unfold ar_call. now intros ->. Qed.

Lemma ar_call_accept w e v : ar_expired (res w) (now w) = false ->
  let w' := fst (ar_call w e v) in
  ready (res w') = true /\ is_exc (res w') = e /\ obj (res w') = v /\ g_got w' = Some (now w) /\
  (cb_ok w -> callbacks (res w') = [] /\ log w' = log w ++ at_clock (now w) (callbacks (res w))).
Proof.
  unfold ar_call, cb_ok. intros ->. destruct (iso w) eqn:I.
  - pose proof (run_all_log (now w) (callbacks (res w))) as L. destruct (run_all _ _) as [l x]. cbn in *. subst.
    repeat split.
  - destruct (run_until (now w) (callbacks (res w))) as [l x] eqn:R. cbn. repeat split;
      destruct H as [H|H]; try discriminate; rewrite (run_until_quiet _ _ H) in R; injection R as <- <-; reflexivity.
Qed.

Lemma ar_call_exc_ready w e v c : snd (ar_call w e v) = Some c -> ready (res (fst (ar_call w e v))) = true.
Proof.
  unfold ar_call. destruct (ar_expired (res w) (now w)); [discriminate|]. destruct (if iso w then _ else _). reflexivity.
Qed.

(* ------------------------------------------------------------------ dispatch *)
Lemma dispatch_frame w r m :
  let w' := fst (dispatch w r m) in
  now w' = now w + dur m /\ queue w' = queue w /\ tie w' = tie w /\ iso w' = iso w /\ atom w' = atom w /\ pend w' = pend w /\
  g_regs w' = g_regs w /\ ttl (res w') = ttl (res w) /\ g_disp w' = g_disp w ++ [(r, now w, now w + dur m, m)].
Proof.
  unfold dispatch. destruct m as [e v u|d|]; cbn [dur].
  - destruct (registered w); cbn.
    + pose proof (ar_call_frame (set_registered (set_now w (now w + Z.of_N u)) false) e v) as (A & B & C & D & E & F & _ & G & H & I).
      destruct (ar_call _ e v) as [w1 x]. cbn in *. rewrite A, B, C, D, E, F, G, H, I. repeat split.
    + repeat split.
  - cbn. repeat split.
  - cbn. repeat split.
Qed.

(* what a dispatch does to the result: only a still-registered reply changes it, and only if the clock AFTER its value
   was materialised is still before the expiry *)
Lemma dispatch_result w r m :
  let w' := fst (dispatch w r m) in
  match m with
  | Reply e v u =>
      if registered w then
        registered w' = false /\
        (if ar_expired (res w) (now w + Z.of_N u)
         then res w' = res w /\ log w' = log w /\ g_got w' = g_got w /\ snd (dispatch w r m) = None
         else ready (res w') = true /\ is_exc (res w') = e /\ obj (res w') = v /\ g_got w' = Some (now w + Z.of_N u) /\
              (cb_ok w -> callbacks (res w') = [] /\ log w' = log w ++ at_clock (now w + Z.of_N u) (callbacks (res w))))
      else res w' = res w /\ log w' = log w /\ registered w' = false /\ g_got w' = g_got w /\ snd (dispatch w r m) = None
  | _ => res w' = res w /\ log w' = log w /\ registered w' = registered w /\ g_got w' = g_got w /\ snd (dispatch w r m) = None
  end.
Proof.
  unfold dispatch. destruct m as [e v u|d|]; cbn; [|repeat split..].
  destruct (registered w) eqn:R; cbn; [|rewrite R; repeat split].
  set (w0 := set_registered (set_now w (now w + Z.of_N u)) false).
  assert (ar_expired (res w0) (now w0) = ar_expired (res w) (now w + Z.of_N u)) as EX by reflexivity.
  pose proof (ar_call_frame w0 e v) as (_ & _ & _ & _ & _ & _ & G & _). cbn zeta in G.
  destruct (ar_expired (res w) (now w + Z.of_N u)) eqn:X.
  - rewrite (ar_call_expired w0 e v) by now rewrite EX. cbn. repeat split.
  - pose proof (ar_call_accept w0 e v) as A. rewrite EX in A. specialize (A eq_refl). cbn zeta in A.
    destruct (ar_call w0 e v) as [w1 x]. cbn in *. destruct A as (A1 & A2 & A3 & A4 & A5). repeat split; auto; apply A5; exact H.
Qed.

Lemma dispatch_exc_ready w r m c : snd (dispatch w r m) = Some c -> ready (res (fst (dispatch w r m))) = true.
Proof.
  unfold dispatch. destruct m as [e v u|d|]; cbn; try discriminate.
  destruct (registered w); cbn; [|discriminate].
  pose proof (ar_call_exc_ready (set_registered (set_now w (now w + Z.of_N u)) false) e v c) as H.
  destruct (ar_call _ e v). cbn in *. exact H.
Qed.

(* ------------------------------------------------------------------ serve *)
Definition head_after (w : world) (t : Z) : Prop :=
  match queue w with [] => True | (a, _, _) :: _ => t < a \/ (t = a /\ tie w = false) end.
Definition res_of_exc (x : option N) : pollres := match x with Some c => PExc c | None => PData end.

Lemma serve_spec tt w w' r : serve_tt tt w = (w', r) ->
  (exists a c m q, queue w = (a, c, m) :: q /\
     let t' := Z.max (now w) a in
     (finite tt = true -> now w < tmax tt -> t' < tmax tt \/ (tie w = true /\ t' = tmax tt)) /\
     (finite tt = true -> tmax tt <= now w -> t' = now w) /\
     let w0 := set_queue (set_now w (Z.max t' c)) q in
     w' = fst (dispatch w0 t' m) /\ r = res_of_exc (snd (dispatch w0 t' m)))
  \/ (r = PNothing /\ finite tt = true /\ w' = set_now w (Z.max (now w) (tmax tt)) /\ head_after w (Z.max (now w) (tmax tt)))
  \/ (r = PHang /\ finite tt = false /\ queue w = [] /\ w' = w).
Proof.
  unfold serve_tt, chan_poll, timeleft, timeout_timeleft, head_after.
  destruct (queue w) as [|[[a c] m] q] eqn:Q.
  - destruct (finite tt) eqn:F; intros [= <- <-].
    + right; left. repeat split. f_equal. lia.
    + right; right. repeat split.
  - match goal with |- _ -> ?G => assert (forall t', now w <= t' -> t' = Z.max (now w) a ->
              (finite tt = true -> now w < tmax tt -> t' < tmax tt \/ tie w = true /\ t' = tmax tt) ->
              (finite tt = true -> tmax tt <= now w -> t' = now w) ->
              match queue (set_now w t') with
              | [] => (set_now w t', PNothing)
              | (_, c0, m0) :: q0 =>
                  match dispatch (set_queue (set_now (set_now w t') (Z.max (now (set_now w t')) c0)) q0) (now (set_now w t')) m0 with
                  | (w2, None) => (w2, PData) | (w2, Some cb) => (w2, PExc cb) end
              end = (w', r) -> G) as K end.
    { intros t' Hle Ht' B1 B2. cbn [queue set_now now]. rewrite Q. intros E. left. exists a, c, m, q. split; [reflexivity|].
      cbn zeta. rewrite <- Ht'. split; [exact B1|]. split; [exact B2|].
      replace (set_now (set_now w t') (Z.max t' c)) with (set_now w (Z.max t' c)) in E by (destruct w; reflexivity).
      destruct (dispatch _ t' m) as [w2 [cb|]]; injection E as <- <-; split; reflexivity. }
    destruct (Z.leb_spec a (now w)) as [L|L].
    + intros E. apply (K (now w)); [lia|lia|intros; lia|intros; lia|]. rewrite set_now_id. exact E.
    + destruct (finite tt) eqn:F.
      * destruct ((a <? now w + Z.max 0 (tmax tt - now w)) || ((a =? now w + Z.max 0 (tmax tt - now w)) && tie w)) eqn:C.
        -- intros E. apply (K a); [lia|lia| | |exact E]; intros; destruct (tie w); cbn in C; lia.
        -- intros [= <- <-]. right; left. repeat split. { f_equal. lia. }
           destruct (tie w); cbn in C; [left|]; lia.
      * intros E. apply (K a); [lia|lia|discriminate|discriminate|exact E].
Qed.

Lemma serve_now_le tt w w' r : serve_tt tt w = (w', r) -> now w <= now w'.
Proof.
  intros H. apply serve_spec in H as [(a & c & m & q & _ & _ & _ & -> & _)|[(_ & _ & -> & _)|(_ & _ & _ & ->)]].
  - pose proof (dispatch_frame (set_queue (set_now w (Z.max (Z.max (now w) a) c)) q) (Z.max (now w) a) m) as (N & _).
    cbn zeta in N. rewrite N. cbn. pose proof (dur_nonneg m). lia.
  - cbn. lia.
  - lia.
Qed.

(* ------------------------------------------------------------------ predicates closed under serving *)
Section ClosedServe.
  Variable P : world -> Prop.
  Hypothesis P_now : forall w t, now w <= t -> P w -> P (set_now w t).
  Hypothesis P_serve : forall tt w w' r, serve_tt tt w = (w', r) -> P w -> P w'.

  Lemma closed_poll_all0 w : P w -> P (fst (poll_all0 w)).
  Proof. unfold poll_all0. destruct (serve_tt _ w) as [w' r] eqn:E. intros I. pose proof (P_serve _ _ _ _ E I). destruct r; exact H. Qed.
  Lemma closed_q_ready w : P w -> P (fst (q_ready w)).
  Proof.
    intros I. unfold q_ready. destruct (ready (res w)); [exact I|]. destruct (expired_at _ _); [exact I|].
    pose proof (closed_poll_all0 w I). destruct (poll_all0 w) as [w' [c|]]; exact H.
  Qed.
  Lemma closed_q_error w : P w -> P (fst (q_error w)).
  Proof. intros I. unfold q_error. pose proof (closed_q_ready w I). destruct (q_ready w) as [w' o]. destruct o; exact H. Qed.
  Lemma closed_wait_loop fuel : forall w, P w -> P (fst (wait_loop fuel w)).
  Proof.
    induction fuel as [|f IH]; intros w I; cbn [wait_loop].
    - destruct (ready (res w)); [exact I|]. destruct (expired_at _ _); exact I.
    - destruct (ready (res w)); [exact I|]. destruct (expired_at _ _); [exact I|].
      destruct (serve_tt (ttl (res w)) w) as [w1 r] eqn:E. pose proof (P_serve _ _ _ _ E I) as I1.
      destruct r; try (apply IH; exact I1); exact I1.
  Qed.
  Definition is_reg_act (a : action) : bool :=
    match a with AddCb _ _ | AddCbTest _ _ | AddCbCommit | SetExpiry _ => true | _ => false end.
  Lemma closed_step w a : P w -> (is_reg_act a = true -> P (fst (step w a))) -> P (fst (step w a)).
  Proof.
    intros I HA. destruct a as [d|c r|c r| |t| | | | | |t]; try (apply HA; reflexivity); cbn [step].
    - cbn. apply P_now; [lia|exact I].
    - now apply closed_q_ready.
    - now apply closed_q_error.
    - exact I.
    - unfold q_value, ar_wait. pose proof (closed_wait_loop (wait_fuel w) w I) as A.
      destruct (wait_loop (wait_fuel w) w) as [w' o]. cbn in *. destruct o; exact A.
    - unfold ar_wait. now apply closed_wait_loop.
    - destruct (serve_tt (mk_timeout (now w) t) w) as [w' r] eqn:E.
      pose proof (P_serve _ _ _ _ E I). destruct r; cbn; auto.
  Qed.
End ClosedServe.

Lemma serve_from_prims (P : world -> Prop) :
  (forall w t, now w <= t -> P w -> P (set_now w t)) -> (forall w q, P w -> P (set_queue w q)) ->
  (forall w r m, P w -> P (fst (dispatch w r m))) ->
  forall tt w w' r, serve_tt tt w = (w', r) -> P w -> P w'.
Proof.
  intros P_now P_queue P_dispatch tt w w' r H I.
  apply serve_spec in H as [(a & c & m & q & _ & _ & _ & -> & _)|[(_ & _ & -> & _)|(_ & _ & _ & ->)]].
  - apply P_dispatch, P_queue, P_now; [lia|exact I].
  - apply P_now; [lia|exact I].
  - exact I.
Qed.

Definition is_set_expiry (a : action) : bool := match a with SetExpiry _ => true | _ => false end.
Definition no_set_expiry (acts : list action) : Prop := forallb (fun a => negb (is_set_expiry a)) acts = true.

(* a predicate kept by the primitives is kept by every history (every history without set_expiry, if set_expiry breaks it) *)
Lemma reg_step (P : world -> Prop) :
  (forall w c r, P w -> P (fst (ar_add_callback w c r))) -> (forall w c r, P w -> P (ar_append_callback w c r)) ->
  (forall w p, P w -> P (set_pend w p)) ->
  forall w a, P w -> is_reg_act a = true -> is_set_expiry a = false -> P (fst (step w a)).
Proof.
  intros Hadd Happ Hpend w a I R NS. destruct a as [d|c r|c r| |t| | | | | |t]; try discriminate; cbn [step].
  - pose proof (Hadd w c r I). destruct (ar_add_callback w c r). exact H.
  - destruct (pend w); [exact I|]. destruct (atom w); [now apply Hpend|].
    destruct (ready (res w)); [|now apply Hpend]. pose proof (Hadd w c r I). destruct (ar_add_callback w c r). exact H.
  - destruct (pend w) as [[c r]|]; [|exact I]. destruct (atom w).
    + pose proof (Hadd (set_pend w None) c r (Hpend _ _ I)). destruct (ar_add_callback _ c r). exact H.
    + cbn. apply Happ, Hpend, I.
Qed.

Lemma closed_run (P : world -> Prop) :
  (forall w t, now w <= t -> P w -> P (set_now w t)) ->
  (forall tt w w' r, serve_tt tt w = (w', r) -> P w -> P w') ->
  (forall w c r, P w -> P (fst (ar_add_callback w c r))) -> (forall w c r, P w -> P (ar_append_callback w c r)) ->
  (forall w p, P w -> P (set_pend w p)) ->
  forall acts w, no_set_expiry acts -> P w -> P (run_w w acts).
Proof.
  intros H1 H2 H3 H4 H5. unfold run_w, no_set_expiry. induction acts as [|a rest IH]; intros w N I; cbn [fold_left]; [exact I|].
  cbn in N. apply andb_prop in N as (Na & N). apply IH; [exact N|].
  apply closed_step; auto. intros R. apply reg_step; auto. now destruct (is_set_expiry a).
Qed.
Lemma closed_run_all (P : world -> Prop) :
  (forall w t, now w <= t -> P w -> P (set_now w t)) ->
  (forall tt w w' r, serve_tt tt w = (w', r) -> P w -> P w') ->
  (forall w c r, P w -> P (fst (ar_add_callback w c r))) -> (forall w c r, P w -> P (ar_append_callback w c r)) ->
  (forall w p, P w -> P (set_pend w p)) -> (forall w t, P w -> P (ar_set_expiry w t)) ->
  forall acts w, P w -> P (run_w w acts).
Proof.
  intros H1 H2 H3 H4 H5 H6. unfold run_w. induction acts as [|a rest IH]; intros w I; cbn [fold_left]; [exact I|].
  apply IH. apply closed_step; auto. intros R. destruct (is_set_expiry a) eqn:S.
  - destruct a; try discriminate. cbn. now apply H6.
  - apply reg_step; auto.
Qed.

Lemma closed_run_p (P : world -> Prop) :
  (forall w t, now w <= t -> P w -> P (set_now w t)) -> (forall w q, P w -> P (set_queue w q)) ->
  (forall w r m, P w -> P (fst (dispatch w r m))) ->
  (forall w c r, P w -> P (fst (ar_add_callback w c r))) -> (forall w c r, P w -> P (ar_append_callback w c r)) ->
  (forall w p, P w -> P (set_pend w p)) ->
  forall acts w, no_set_expiry acts -> P w -> P (run_w w acts).
Proof. intros H1 H2 H3. apply closed_run; [exact H1|]. now apply (serve_from_prims P). Qed.
Lemma closed_run_all_p (P : world -> Prop) :
  (forall w t, now w <= t -> P w -> P (set_now w t)) -> (forall w q, P w -> P (set_queue w q)) ->
  (forall w r m, P w -> P (fst (dispatch w r m))) ->
  (forall w c r, P w -> P (fst (ar_add_callback w c r))) -> (forall w c r, P w -> P (ar_append_callback w c r)) ->
  (forall w p, P w -> P (set_pend w p)) -> (forall w t, P w -> P (ar_set_expiry w t)) ->
  forall acts w, P w -> P (run_w w acts).
Proof. intros H1 H2 H3. apply closed_run_all; [exact H1|]. now apply (serve_from_prims P). Qed.

Lemma run_hist_run_w acts : forall w, fst (run_hist w acts) = run_w w acts.
Proof.
  unfold run_w. induction acts as [|a rest IH]; intros w; cbn [run_hist fold_left]; [reflexivity|].
  destruct (step w a) as [w1 o]. specialize (IH w1). destruct (run_hist w1 rest). cbn in *. exact IH.
Qed.

(* ------------------------------------------------------------------ facts kept by every history *)
(* the clock never goes back; the two generated facts and the tie flag are constants *)
Definition same_flags (w0 w : world) : Prop := iso w = iso w0 /\ atom w = atom w0 /\ tie w = tie w0 /\ now w0 <= now w.
Lemma same_flags_run acts w : same_flags w (run_w w acts).
Proof.
  apply (closed_run_all_p (same_flags w)); unfold same_flags.
  - intros w0 t H (A & B & C & D). cbn. repeat split; auto. lia.
  - intros w0 q (A & B & C & D). cbn. auto.
  - intros w0 r m (A & B & C & D). pose proof (dispatch_frame w0 r m) as (N & _ & T & I & At & _). cbn zeta in *.
    pose proof (dur_nonneg m). rewrite N, T, I, At. repeat split; auto. lia.
  - intros w0 c r (A & B & C & D). unfold ar_add_callback. destruct (ready (res w0)); cbn; auto.
  - intros w0 c r (A & B & C & D). cbn. auto.
  - intros w0 p (A & B & C & D). cbn. auto.
  - intros w0 t (A & B & C & D). cbn. auto.
  - repeat split; lia.
Qed.

(* a ready result is no longer registered with the connection: a second reply cannot reach it *)
Definition inv0 (w : world) : Prop := ready (res w) = true -> registered w = false.
Lemma inv0_run acts w : inv0 w -> inv0 (run_w w acts).
Proof.
  apply (closed_run_all_p inv0); unfold inv0.
  - intros; cbn in *; auto.
  - intros; cbn in *; auto.
  - intros w0 r m I. pose proof (dispatch_result w0 r m) as R. cbn zeta in R. destruct m as [e v u|d|].
    + destruct (registered w0); [now destruct R|]. now destruct R as (_ & _ & -> & _).
    + destruct R as (-> & _ & -> & _). exact I.
    + destruct R as (-> & _ & -> & _). exact I.
  - intros w0 c r I. unfold ar_add_callback. destruct (ready (res w0)) eqn:Y; cbn; rewrite ?Y; auto.
  - intros w0 c r I. cbn. auto.
  - intros; cbn in *; auto.
  - intros; cbn in *; auto.
Qed.

Lemma dispatch_unreg w r m : registered w = false ->
  let w' := fst (dispatch w r m) in
  res w' = res w /\ registered w' = false /\ log w' = log w /\ g_got w' = g_got w.
Proof.
  intros R. pose proof (dispatch_result w r m) as H. cbn zeta in *. destruct m; rewrite ?R in H; intuition congruence.
Qed.

(* ------------------------------------------------------------------ 1a. a value, once there, stays *)
Definition has_value (e : bool) (v : Z) (w : world) : Prop :=
  ready (res w) = true /\ is_exc (res w) = e /\ obj (res w) = v /\ registered w = false.

Lemma has_value_run e v acts w : has_value e v w -> has_value e v (run_w w acts).
Proof.
  apply (closed_run_all_p (has_value e v)); unfold has_value.
  - intros; cbn; auto.
  - intros; cbn; auto.
  - intros w0 r m (A & B & C & D). destruct (dispatch_unreg w0 r m D) as (E & F & _). cbn zeta in *. rewrite E. auto.
  - intros w0 c r (A & B & C & D). unfold ar_add_callback. rewrite A. cbn. auto.
  - intros w0 c r (A & B & C & D). cbn. auto.
  - intros; cbn; auto.
  - intros w0 t (A & B & C & D). cbn. auto.
Qed.

Lemma outcome_got w e v : outcome_of w = Got e v <-> ready (res w) = true /\ is_exc (res w) = e /\ obj (res w) = v.
Proof.
  unfold outcome_of. destruct (ready (res w)).
  - split; [intros [= <- <-]; auto|intros (_ & <- & <-); reflexivity].
  - destruct (expired_at _ _); split; try discriminate; intros (? & _); discriminate.
Qed.
Lemma outcome_expired w : outcome_of w = Expired <-> ready (res w) = false /\ expired_at (ttl (res w)) (now w) = true.
Proof.
  unfold outcome_of. destruct (ready (res w)); [split; [discriminate|intros (? & _); discriminate]|].
  destruct (expired_at _ _); split; auto; try discriminate. intros (_ & ?); discriminate.
Qed.
Lemma outcome_pending w : outcome_of w = Pending <-> ready (res w) = false /\ expired_at (ttl (res w)) (now w) = false.
Proof.
  unfold outcome_of. destruct (ready (res w)); [split; [discriminate|intros (? & _); discriminate]|].
  destruct (expired_at _ _); split; auto; try discriminate. intros (_ & ?); discriminate.
Qed.

Theorem got_final w e v acts : inv0 w -> outcome_of w = Got e v -> outcome_of (run_w w acts) = Got e v.
Proof.
  intros I H. apply outcome_got in H as (A & B & C). apply outcome_got.
  destruct (has_value_run e v acts w) as (X & Y & Z & _); [|auto]. repeat split; auto.
Qed.

(* observations on a result that has its value: immediate, at the same clock, state untouched *)
Theorem got_observations w e v : outcome_of w = Got e v ->
  step w QReady = (w, OBool true) /\ step w QError = (w, OBool e) /\ step w QExpired = (w, OBool false) /\
  step w Wait = (w, ONone) /\ step w QValue = (w, if e then ORaise v else OVal v).
Proof.
  intros H. apply outcome_got in H as (A & B & C).
  cbn [step]. unfold q_error, q_ready, q_value, ar_wait, wait_fuel, ar_expired. cbn [wait_loop]. rewrite A, B, C. cbn. repeat split.
Qed.

(* ------------------------------------------------------------------ 1b. expired stays expired; late replies change nothing *)
Definition dead (tt : timeout) (l : list (N * Z)) (e : bool) (v : Z) (t : Z) (w : world) : Prop :=
  ready (res w) = false /\ ttl (res w) = tt /\ log w = l /\ is_exc (res w) = e /\ obj (res w) = v /\ t <= now w.

Lemma dead_run tt l e v t acts w : expired_at tt t = true -> no_set_expiry acts ->
  dead tt l e v t w -> dead tt l e v t (run_w w acts).
Proof.
  intros X. apply (closed_run_p (dead tt l e v t)); unfold dead.
  - intros w0 t0 H (A & B & C & D & E & F). cbn. repeat split; auto. lia.
  - intros; cbn; auto.
  - intros w0 r m (A & B & C & D & E & F). pose proof (dispatch_frame w0 r m) as (N & _ & _ & _ & _ & _ & _ & T & _).
    pose proof (dispatch_result w0 r m) as R. cbn zeta in *. pose proof (dur_nonneg m).
    rewrite T, N. destruct m as [e' v' u|d|].
    + assert (ar_expired (res w0) (now w0 + Z.of_N u) = true) as AX.
      { unfold ar_expired. rewrite A, B. cbn. eapply expired_mono; [|exact X]. lia. }
      destruct (registered w0); [rewrite AX in R; destruct R as (_ & R1 & R2 & _)|destruct R as (R1 & R2 & _)];
        rewrite R1, R2; repeat split; auto; lia.
    + destruct R as (R1 & R2 & _). rewrite R1, R2. repeat split; auto; lia.
    + destruct R as (R1 & R2 & _). rewrite R1, R2. repeat split; auto; lia.
  - intros w0 c r (A & B & C & D & E & F). unfold ar_add_callback. rewrite A. cbn. repeat split; auto.
  - intros w0 c r (A & B & C & D & E & F). cbn. repeat split; auto.
  - intros w0 p (A & B & C & D & E & F). cbn. repeat split; auto.
Qed.

Theorem expired_final w acts : no_set_expiry acts -> outcome_of w = Expired ->
  let w' := run_w w acts in
  outcome_of w' = Expired /\ log w' = log w /\ is_exc (res w') = is_exc (res w) /\ obj (res w') = obj (res w) /\ ttl (res w') = ttl (res w).
Proof.
  intros N H. apply outcome_expired in H as (A & X). cbn zeta.
  destruct (dead_run (ttl (res w)) (log w) (is_exc (res w)) (obj (res w)) (now w) acts w X N) as (B & C & D & E & F & G).
  { unfold dead. repeat split; auto. lia. }
  repeat split; auto. apply outcome_expired. split; [exact B|]. rewrite C. eapply expired_mono; eauto.
Qed.

Theorem expired_observations w : outcome_of w = Expired ->
  step w QReady = (w, OBool false) /\ step w QError = (w, OBool false) /\ step w QExpired = (w, OBool true) /\
  step w Wait = (w, OTimeout) /\ step w QValue = (w, OTimeout).
Proof.
  intros H. apply outcome_expired in H as (A & X).
  cbn [step]. unfold q_error, q_ready, q_value, ar_wait, wait_fuel, ar_expired. cbn [wait_loop]. rewrite A, X. cbn. repeat split.
Qed.

(* 1c. the dispatch of the (still registered) reply decides, at the clock at which its value has been materialised:
       accepted iff that clock is before the expiry *)
Theorem reply_decides w r e v u : registered w = true -> ready (res w) = false ->
  let w' := fst (dispatch w r (Reply e v u)) in
  let t := now w + Z.of_N u in
  registered w' = false /\ now w' = t /\
  if expired_at (ttl (res w)) t
  then outcome_of w' = Expired /\ res w' = res w /\ log w' = log w
  else outcome_of w' = Got e v /\ (cb_ok w -> log w' = log w ++ at_clock t (callbacks (res w))).
Proof.
  intros R NR. pose proof (dispatch_result w r (Reply e v u)) as H. pose proof (dispatch_frame w r (Reply e v u)) as (N & _).
  cbn zeta in *. rewrite R in H. unfold ar_expired in H. rewrite NR in H. cbn [negb andb] in H. cbn [dur] in N. destruct H as (H0 & H).
  split; [exact H0|]. split; [exact N|]. destruct (expired_at (ttl (res w)) (now w + Z.of_N u)) eqn:X.
  - destruct H as (A & B & _). repeat split; auto. apply outcome_expired. rewrite A, N. auto.
  - destruct H as (A & B & C & _ & E). split; [apply outcome_got; auto|]. intros K. now destruct (E K).
Qed.

(* ------------------------------------------------------------------ 1. the outcome is the first of "reply decided" and "expiry passed" *)
(* the dispatch of the first reply: (clock its frame was complete, clock its value had been materialised, exception?, value) *)
Fixpoint first_reply (d : list (Z * Z * Z * msg)) : option (Z * Z * bool * Z) :=
  match d with
  | [] => None
  | (_, rc, t, Reply e v _) :: _ => Some (rc, t, e, v)
  | _ :: r => first_reply r
  end.
Lemma first_reply_app d x : first_reply (d ++ [x]) = match first_reply d with Some s => Some s | None => first_reply [x] end.
Proof. induction d as [|[[[r rc] t] [e v u|n|]] d IH]; cbn [app first_reply]; auto. Qed.

Definition chr (tt : timeout) (w : world) : Prop :=
  ttl (res w) = tt /\
  match first_reply (g_disp w) with
  | None => registered w = true /\ ready (res w) = false
  | Some (_, t, e, v) => registered w = false /\ t <= now w /\
      if expired_at tt t then ready (res w) = false
      else ready (res w) = true /\ is_exc (res w) = e /\ obj (res w) = v /\ g_got w = Some t
  end.

Lemma chr_run tt acts w : no_set_expiry acts -> chr tt w -> chr tt (run_w w acts).
Proof.
  apply (closed_run_p (chr tt)); unfold chr.
  - intros w0 t0 H (A & B). cbn. split; [exact A|]. destruct (first_reply (g_disp w0)) as [[[[rc t] e] v]|]; [|exact B].
    destruct B as (B1 & B2 & B3). repeat split; auto. lia.
  - intros; cbn; auto.
  - intros w0 r m (A & B). pose proof (dispatch_frame w0 r m) as (N & _ & _ & _ & _ & _ & _ & T & G).
    pose proof (dispatch_result w0 r m) as R. cbn zeta in *. pose proof (dur_nonneg m) as D.
    rewrite T, G, first_reply_app. split; [exact A|].
    destruct (first_reply (g_disp w0)) as [[[[rc t] e] v]|].
    + destruct B as (B1 & B2 & B3). destruct (dispatch_unreg w0 r m B1) as (E1 & E2 & _ & E4). cbn zeta in *. rewrite E1, E2, E4, N.
      repeat split; auto. lia.
    + destruct B as (B1 & B2). destruct m as [e v u|d|]; cbn [first_reply].
      * rewrite B1 in R. unfold ar_expired in R. rewrite B2, A in R. cbn [negb andb] in R. cbn [dur] in *. destruct R as (R0 & R).
        split; [exact R0|]. split; [lia|]. destruct (expired_at tt (now w0 + Z.of_N u)).
        -- destruct R as (-> & _). exact B2.
        -- destruct R as (R1 & R2 & R3 & R4 & _). auto.
      * destruct R as (-> & _ & -> & _). auto.
      * destruct R as (-> & _ & -> & _). auto.
  - intros w0 c r (A & B). unfold ar_add_callback. destruct (ready (res w0)) eqn:Y; cbn; rewrite ?Y; auto.
  - intros w0 c r (A & B). cbn. auto.
  - intros w0 p (A & B). cbn. auto.
Qed.

Theorem outcome_first_of_decision_and_expiry tt acts w : no_set_expiry acts -> chr tt w ->
  let w' := run_w w acts in
  outcome_of w' = match first_reply (g_disp w') with
                  | Some (_, t, e, v) => if expired_at tt t then Expired else Got e v
                  | None => if expired_at tt (now w') then Expired else Pending
                  end.
Proof.
  intros N C. cbn zeta. destruct (chr_run tt acts w N C) as (A & B). unfold outcome_of. rewrite A.
  destruct (first_reply (g_disp (run_w w acts))) as [[[[rc t] e] v]|].
  - destruct B as (_ & B2 & B3). destruct (expired_at tt t) eqn:X.
    + rewrite B3. now rewrite (expired_mono tt t _ B2 X).
    + destruct B3 as (-> & -> & -> & _). reflexivity.
  - destruct B as (_ & ->). reflexivity.
Qed.

(* ---- every dispatch took its message from the script; its end is "frame complete" + duration *)
Definition instant (m : msg) : Prop := match m with Reply _ _ u => u = 0%N | _ => True end.
Definition instant_replies (q : list (Z * Z * msg)) : Prop := Forall (fun x => instant (snd x)) q.
Definition whole_frames (q : list (Z * Z * msg)) : Prop := Forall (fun x => snd (fst x) <= fst (fst x)) q.

Definition disp_sound (w : world) : Prop :=
  Forall (fun d => let '(r, rc, t, m) := d in t = rc + dur m /\ r <= rc) (g_disp w).
Definition all_instant (w : world) : Prop :=
  instant_replies (queue w) /\ Forall (fun d => instant (snd d)) (g_disp w).

Lemma serve_disp_sound tt w w' r : serve_tt tt w = (w', r) -> disp_sound w -> disp_sound w'.
Proof.
  unfold disp_sound. intros H I.
  apply serve_spec in H as [(a & c & m & q & _ & _ & _ & -> & _)|[(_ & _ & -> & _)|(_ & _ & _ & ->)]]; auto.
  pose proof (dispatch_frame (set_queue (set_now w (Z.max (Z.max (now w) a) c)) q) (Z.max (now w) a) m) as (_ & _ & _ & _ & _ & _ & _ & _ & G).
  cbn zeta in G. rewrite G. cbn. apply Forall_app. split; [exact I|]. constructor; [|constructor]. split; lia.
Qed.
Lemma serve_all_instant tt w w' r : serve_tt tt w = (w', r) -> all_instant w -> all_instant w'.
Proof.
  unfold all_instant, instant_replies. intros H (I1 & I2).
  apply serve_spec in H as [(a & c & m & q & Q & _ & _ & -> & _)|[(_ & _ & -> & _)|(_ & _ & _ & ->)]]; auto.
  pose proof (dispatch_frame (set_queue (set_now w (Z.max (Z.max (now w) a) c)) q) (Z.max (now w) a) m) as (_ & Qd & _ & _ & _ & _ & _ & _ & G).
  cbn zeta in *. rewrite G, Qd. cbn. rewrite Q in I1. inversion I1 as [|? ? Hm Hq]; subst. split; [exact Hq|].
  apply Forall_app. split; [exact I2|]. constructor; [exact Hm|constructor].
Qed.

Lemma disp_sound_run acts w : disp_sound w -> disp_sound (run_w w acts).
Proof.
  apply (closed_run_all disp_sound); try (intros; assumption).
  - exact serve_disp_sound.
  - intros w0 c r I. unfold ar_add_callback. destruct (ready (res w0)); exact I.
Qed.
Lemma all_instant_run acts w : all_instant w -> all_instant (run_w w acts).
Proof.
  apply (closed_run_all all_instant); try (intros; assumption).
  - exact serve_all_instant.
  - intros w0 c r I. unfold ar_add_callback. destruct (ready (res w0)); exact I.
Qed.

Lemma first_reply_in d rc t e v : first_reply d = Some (rc, t, e, v) -> exists r u, In (r, rc, t, Reply e v u) d.
Proof.
  induction d as [|[[[r rc'] t'] [e' v' u|n|]] d IH]; cbn [first_reply]; try discriminate.
  - intros [= <- <- <- <-]. exists r, u. now left.
  - intros H. destruct (IH H) as (r0 & u0 & I). exists r0, u0. now right.
  - intros H. destruct (IH H) as (r0 & u0 & I). exists r0, u0. now right.
Qed.

(* with replies whose value needs no round trip the decision instant is the arrival instant (frame complete) *)
Theorem outcome_first_of_arrival_and_expiry tt acts w : no_set_expiry acts -> chr tt w -> disp_sound w -> all_instant w ->
  let w' := run_w w acts in
  outcome_of w' = match first_reply (g_disp w') with
                  | Some (rc, _, e, v) => if expired_at tt rc then Expired else Got e v
                  | None => if expired_at tt (now w') then Expired else Pending
                  end.
Proof.
  intros N C S A. cbn zeta. rewrite (outcome_first_of_decision_and_expiry tt acts w N C).
  destruct (first_reply (g_disp (run_w w acts))) as [[[[rc t] e] v]|] eqn:F; [|reflexivity].
  destruct (first_reply_in _ _ _ _ _ F) as (r & u & I).
  pose proof (disp_sound_run acts w S) as S'. pose proof (all_instant_run acts w A) as (_ & A').
  unfold disp_sound in S'. rewrite Forall_forall in S', A'. specialize (S' _ I). specialize (A' _ I). cbn in S', A'.
  subst u. cbn in S'. replace t with rc by lia. reflexivity.
Qed.

(* ------------------------------------------------------------------ 2. callbacks: exactly once, in registration order *)
Definition cb_times (tg : Z) (regs : list (N * Z)) : list (N * Z) := map (fun r => (fst r, Z.max (snd r) tg)) regs.

Record inv (w : world) : Prop := {
  inv_pending : ready (res w) = false -> log w = [] /\ map fst (callbacks (res w)) = map fst (g_regs w) /\ g_got w = None;
  inv_ready : ready (res w) = true ->
              callbacks (res w) = [] /\ exists tg, g_got w = Some tg /\ tg <= now w /\ log w = cb_times tg (g_regs w);
  inv_regs : Forall (fun r => snd r <= now w) (g_regs w);
  inv_cbok : cb_ok w;
  inv_pend : atom w = true \/ pend w = None;
  inv_pendok : match pend w with Some (_, r) => iso w = true \/ r = false | None => True end
}.

(* the histories for which the current tree keeps the callback clauses: no raising callback unless callbacks are isolated,
   no registration split across the arrival unless registration is atomic *)
Definition ok_act (i a : bool) (x : action) : bool :=
  match x with
  | AddCb _ r => i || negb r
  | AddCbTest _ r => a && (i || negb r)
  | _ => true
  end.
Definition ok_acts (i a : bool) (acts : list action) : Prop := forallb (ok_act i a) acts = true.

Lemma inv_transfer w w' :
  res w' = res w -> log w' = log w -> g_regs w' = g_regs w -> g_got w' = g_got w -> now w <= now w' ->
  iso w' = iso w -> atom w' = atom w -> pend w' = pend w -> inv w -> inv w'.
Proof.
  intros R L G T N I A P [I2 I3 I4 I5 I6 I7]. split; unfold cb_ok in *; rewrite ?R, ?L, ?G, ?T, ?I, ?A, ?P; auto.
  - intros H. destruct (I3 H) as (X & tg & B & C & D). split; [exact X|]. exists tg. repeat split; auto; lia.
  - eapply Forall_impl; [|exact I4]. cbn. intros; lia.
Qed.

Lemma cb_times_now regs (cbs : list (N * bool)) t : Forall (fun r => snd r <= t) regs -> map fst cbs = map fst regs ->
  at_clock t cbs = cb_times t regs.
Proof.
  unfold cb_times, at_clock. revert cbs. induction regs as [|[c tr] l IH]; intros [|[c' r'] cbs] F E; cbn in *; try discriminate; [reflexivity|].
  injection E as -> E. inversion F as [|? ? H F']; subst. cbn in H. rewrite (IH cbs F' E). repeat f_equal. lia.
Qed.

Lemma inv_dispatch w r m : inv0 w -> inv w -> inv (fst (dispatch w r m)).
Proof.
  intros I0 I. pose proof (dispatch_frame w r m) as (N & _ & _ & Fi & Fa & Fp & G & _). pose proof (dispatch_result w r m) as R. cbn zeta in *.
  pose proof (dur_nonneg m) as D.
  assert (res (fst (dispatch w r m)) = res w /\ log (fst (dispatch w r m)) = log w /\ g_got (fst (dispatch w r m)) = g_got w ->
          inv (fst (dispatch w r m))) as Same.
  { intros (A & B & E). apply (inv_transfer w); auto. lia. }
  destruct m as [e v u|d|]; [|apply Same; tauto..].
  destruct (registered w) eqn:Rg; [|apply Same; tauto].
  destruct R as (R0 & R). cbn [dur] in *. destruct (ar_expired (res w) (now w + Z.of_N u)) eqn:X; [apply Same; tauto|].
  destruct R as (A & B & C & H & K).
  assert (ready (res w) = false) as NR.
  { destruct (ready (res w)) eqn:Y; [|reflexivity]. rewrite (I0 Y) in Rg. discriminate. }
  destruct I as [I2 _ I4 I5 I6 I7]. destruct (I2 NR) as (L0 & CB & _). destruct (K I5) as (K1 & K2).
  split; unfold cb_ok; rewrite ?G, ?N, ?Fi, ?Fa, ?Fp; auto.
  - rewrite A. discriminate.
  - intros _. split; [exact K1|]. exists (now w + Z.of_N u). repeat split; [exact H|lia|].
    rewrite K2, L0. cbn. apply cb_times_now; [|exact CB]. eapply Forall_impl; [|exact I4]. cbn; intros; lia.
  - eapply Forall_impl; [|exact I4]. cbn; intros; lia.
  - rewrite K1. right. constructor.
Qed.

Lemma inv_serve tt w w' r : serve_tt tt w = (w', r) -> inv0 w /\ inv w -> inv0 w' /\ inv w'.
Proof.
  intros H (I0 & I). split.
  - revert H I0. apply (serve_from_prims inv0); unfold inv0; [intros; cbn in *; auto..|].
    intros w0 r0 m J. pose proof (dispatch_result w0 r0 m) as R. cbn zeta in R. destruct m as [e v u|d|].
    + destruct (registered w0); [now destruct R|]. now destruct R as (_ & _ & -> & _).
    + destruct R as (-> & _ & -> & _). exact J.
    + destruct R as (-> & _ & -> & _). exact J.
  - apply serve_spec in H as [(a & c & m & q & _ & _ & _ & -> & _)|[(_ & _ & -> & _)|(_ & _ & _ & ->)]]; [| |exact I].
    + apply inv_dispatch; [exact I0|]. apply (inv_transfer w); cbn; auto. lia.
    + apply (inv_transfer w); cbn; auto. lia.
Qed.

Lemma inv_add_callback w c r : iso w = true \/ r = false -> inv w -> inv (fst (ar_add_callback w c r)).
Proof.
  intros OK [I2 I3 I4 I5 I6 I7]. unfold ar_add_callback, cb_ok in *. destruct (ready (res w)) eqn:R; split; cbn; rewrite ?R; auto.
  - discriminate.
  - intros _. destruct (I3 eq_refl) as (A & tg & B & C & D). split; [exact A|]. exists tg. repeat split; auto.
    rewrite D. unfold cb_times. rewrite map_app. cbn. repeat f_equal. lia.
  - apply Forall_app. split; [exact I4|]. constructor; [cbn; lia|constructor].
  - intros _. destruct (I2 eq_refl) as (A & B & C). repeat split; auto. rewrite !map_app, B. reflexivity.
  - discriminate.
  - apply Forall_app. split; [exact I4|]. constructor; [cbn; lia|constructor].
  - destruct I5 as [I5|I5]; [now left|]. destruct OK as [OK|OK]; [now left|]. right. apply Forall_app. split; [exact I5|].
    constructor; [exact OK|constructor].
Qed.

Definition good (w : world) : Prop := inv0 w /\ inv w.

Lemma good_step w a : ok_act (iso w) (atom w) a = true -> good w -> good (fst (step w a)).
Proof.
  intros OK (I0 & I). apply (closed_step good); [| |split; assumption|].
  - intros w0 t H (J0 & J). split; [exact J0|]. apply (inv_transfer w0); cbn; auto.
  - intros tt w0 w' r H J. eapply inv_serve; eauto.
  - intros RA. destruct a as [d|c r|c r| |t| | | | | |t]; try discriminate RA; cbn [step].
    + cbn in OK. assert (inv0 (fst (ar_add_callback w c r))) as K0.
      { unfold inv0, ar_add_callback in *. destruct (ready (res w)) eqn:Y; cbn; rewrite ?Y; auto. }
      pose proof (inv_add_callback w c r) as K. destruct (ar_add_callback w c r). split; [exact K0|]. apply K; [|exact I].
      destruct (iso w); [now left|right; now destruct r].
    + cbn in OK. apply andb_prop in OK as (At & OK). destruct (pend w) eqn:Pd; [split; assumption|]. rewrite At. cbn.
      split; [exact I0|]. destruct I as [I2 I3 I4 I5 I6 I7]. split; cbn; auto.
      destruct (iso w); [now left|right; now destruct r].
    + destruct (pend w) as [[c r]|] eqn:Pd; [|split; assumption].
      destruct I as [I2 I3 I4 I5 I6 I7]. destruct I6 as [At|Pn]; [|congruence]. rewrite At. rewrite Pd in I7.
      assert (inv (set_pend w None)) as J by (split; cbn; auto).
      assert (inv0 (fst (ar_add_callback (set_pend w None) c r))) as K0.
      { unfold inv0, ar_add_callback in *. cbn. destruct (ready (res w)) eqn:Y; cbn; rewrite ?Y; auto. }
      pose proof (inv_add_callback (set_pend w None) c r) as K. destruct (ar_add_callback _ c r). split; [exact K0|]. apply K; [|exact J].
      exact I7.
    + split; [exact I0|]. destruct I as [I2 I3 I4 I5 I6 I7]. split; cbn; auto.
Qed.

Lemma flags_step w a : iso (fst (step w a)) = iso w /\ atom (fst (step w a)) = atom w.
Proof. destruct (same_flags_run [a] w) as (A & B & _). cbn in *. auto. Qed.

Lemma good_run acts : forall w, ok_acts (iso w) (atom w) acts -> good w -> good (run_w w acts).
Proof.
  unfold run_w, ok_acts. induction acts as [|a rest IH]; intros w OK G; cbn [fold_left]; [exact G|].
  cbn in OK. apply andb_prop in OK as (Oa & OK). destruct (flags_step w a) as (Fi & Fa).
  apply IH; [now rewrite Fi, Fa|]. now apply good_step.
Qed.

(* the registration sequence of a history: a split registration counts where it is committed *)
Fixpoint reg_ids (p : option N) (acts : list action) : list N :=
  match acts with
  | [] => []
  | AddCb c _ :: r => c :: reg_ids p r
  | AddCbTest c _ :: r => reg_ids (match p with Some _ => p | None => Some c end) r
  | AddCbCommit :: r => match p with Some c => c :: reg_ids None r | None => reg_ids None r end
  | _ :: r => reg_ids p r
  end.

Lemma regs_other w a : (forall c r, a <> AddCb c r) -> (forall c r, a <> AddCbTest c r) -> a <> AddCbCommit ->
  g_regs (fst (step w a)) = g_regs w /\ pend (fst (step w a)) = pend w.
Proof.
  intros N1 N2 N3. apply (closed_step (fun w' => g_regs w' = g_regs w /\ pend w' = pend w)); auto.
  - apply (serve_from_prims (fun w' => g_regs w' = g_regs w /\ pend w' = pend w)); auto.
    intros w0 r m (<- & <-). now destruct (dispatch_frame w0 r m) as (_ & _ & _ & _ & _ & P & G & _).
  - intros R. destruct a as [d|c r|c r| |t| | | | | |t]; try discriminate R.
    + now destruct (N1 c r). + now destruct (N2 c r). + now destruct N3. + cbn. auto.
Qed.

Lemma regs_run acts : forall w, ok_acts (iso w) (atom w) acts -> good w ->
  map fst (g_regs (run_w w acts)) = map fst (g_regs w) ++ reg_ids (option_map fst (pend w)) acts.
Proof.
  unfold run_w, ok_acts. induction acts as [|a rest IH]; intros w OK G; cbn [fold_left reg_ids]; [now rewrite app_nil_r|].
  cbn in OK. apply andb_prop in OK as (Oa & OK). destruct (flags_step w a) as (Fi & Fa).
  pose proof (good_step w a Oa G) as G1. rewrite IH; [|now rewrite Fi, Fa|exact G1]. clear IH.
  assert (forall c r, g_regs (fst (ar_add_callback w c r)) = g_regs w ++ [(c, now w)] /\ pend (fst (ar_add_callback w c r)) = pend w) as AC.
  { intros c r. unfold ar_add_callback. destruct (ready (res w)); cbn; auto. }
  destruct a as [d|c r|c r| |t| | | | | |t];
    try (match goal with |- context [step w ?a] =>
           destruct (regs_other w a ltac:(intros; discriminate) ltac:(intros; discriminate) ltac:(discriminate)) as (-> & ->) end; reflexivity).
  - cbn [step]. destruct (AC c r) as (A & B). destruct (ar_add_callback w c r). cbn in *. rewrite A, B, map_app, <- app_assoc. reflexivity.
  - cbn [step]. cbn in Oa. apply andb_prop in Oa as (At & _). destruct (pend w) as [[c0 r0]|] eqn:Pd; cbn; [now rewrite Pd|]. rewrite At. cbn. reflexivity.
  - cbn [step]. destruct (pend w) as [[c r]|] eqn:Pd; cbn [option_map fst]; [|cbn; now rewrite Pd].
    destruct G as (_ & [_ _ _ _ [At|Pn] _]); [|congruence]. rewrite At.
    assert (g_regs (fst (ar_add_callback (set_pend w None) c r)) = g_regs w ++ [(c, now w)] /\ pend (fst (ar_add_callback (set_pend w None) c r)) = None) as (A & B).
    { unfold ar_add_callback. cbn. destruct (ready (res w)); cbn; auto. }
    destruct (ar_add_callback _ c r). cbn in *. rewrite A, B, map_app, <- app_assoc. reflexivity.
Qed.

Lemma cb_times_ids tg regs : map fst (cb_times tg regs) = map fst regs.
Proof. unfold cb_times. rewrite map_map. reflexivity. Qed.

Theorem callbacks_once_in_order w acts : good w -> g_regs w = [] -> pend w = None -> ok_acts (iso w) (atom w) acts ->
  let w' := run_w w acts in
  map fst (g_regs w') = reg_ids None acts /\
  match outcome_of w' with
  | Got _ _ => exists tg, g_got w' = Some tg /\ log w' = cb_times tg (g_regs w') /\ callbacks (res w') = []
  | _ => log w' = [] /\ map fst (callbacks (res w')) = map fst (g_regs w')
  end.
Proof.
  intros G Gr Pn OK. cbn zeta. pose proof (regs_run acts w OK G) as RR. rewrite Gr, Pn in RR. cbn in RR. split; [exact RR|].
  destruct (good_run acts w OK G) as (_ & [I2 I3 _ _ _ _]). unfold outcome_of.
  destruct (ready (res (run_w w acts))).
  - destruct (I3 eq_refl) as (A & tg & B & _ & D). exists tg. auto.
  - destruct (I2 eq_refl) as (A & B & _). destruct (expired_at _ _); auto.
Qed.

(* ------------------------------------------------------------------ 3. wait raises exactly at the expiry, later only when busy *)
Definition last_end (ds : list (Z * Z * Z * msg)) (d : Z) : Z := fold_left (fun _ x => snd (fst x)) ds d.
(* a dispatch performed by a wait that started at t0 with expiry tm on a stream scripted q0: first byte seen at r in
   [t0, tm] (tm itself only when the stream reports data arriving exactly at the deadline), frame complete at rc,
   dispatch over at e = rc + duration; the frame is one of the scripted ones *)
Definition disp_ok (q0 : list (Z * Z * msg)) (t0 tm : Z) (tb : bool) (x : Z * Z * Z * msg) : Prop :=
  let '(r, rc, e, m) := x in
  t0 <= r /\ (r < tm \/ (tb = true /\ r = tm)) /\ e = rc + dur m /\ exists a c, In (a, c, m) q0 /\ a <= r /\ rc = Z.max r c.

Lemma disp_ok_weaken q0 q1 t0 t1 tm tb x : incl q1 q0 -> t0 <= t1 -> disp_ok q1 t1 tm tb x -> disp_ok q0 t0 tm tb x.
Proof.
  destruct x as [[[r rc] e] m]. unfold disp_ok. intros I L (A & B & C & a & c & D & E & F).
  repeat split; auto; [lia|]. exists a, c. repeat split; auto.
Qed.

Lemma wait_loop_exact fuel : forall w,
  ready (res w) = false -> finite (ttl (res w)) = true ->
  let tm := tmax (ttl (res w)) in
  let w' := fst (wait_loop fuel w) in let o := snd (wait_loop fuel w) in
  exists ds, g_disp w' = g_disp w ++ ds /\ Forall (disp_ok (queue w) (now w) tm (tie w)) ds /\
    now w <= last_end ds (now w) /\ last_end ds (now w) <= now w' /\ o <> OHang /\
    (o = OTimeout -> ready (res w') = false /\ now w' = Z.max (Z.max (now w) tm) (last_end ds (now w))) /\
    (o = ONone -> ready (res w') = true) /\ (forall c, o = OCbExc c -> ready (res w') = true) /\
    (o = OFuel -> (fuel <= List.length (queue w))%nat) /\
    (o = ONone \/ o = OTimeout \/ o = OFuel \/ exists c, o = OCbExc c).
Proof.
  induction fuel as [|f IH]; intros w NR F; cbn zeta; cbn [wait_loop]; rewrite NR.
  - destruct (expired_at (ttl (res w)) (now w)) eqn:X; cbn [fst snd]; exists []; rewrite app_nil_r; cbn [last_end fold_left].
    + apply expired_at_spec in X as (_ & X). repeat split; auto; try lia; try discriminate.
    + repeat split; auto; try lia; try discriminate.
  - destruct (expired_at (ttl (res w)) (now w)) eqn:X.
    { cbn [fst snd]. exists []. rewrite app_nil_r. cbn [last_end fold_left].
      apply expired_at_spec in X as (_ & X). repeat split; auto; try lia; try discriminate. }
    assert (now w < tmax (ttl (res w))) as LT.
    { destruct (Z.ltb_spec (now w) (tmax (ttl (res w)))); [assumption|].
      assert (expired_at (ttl (res w)) (now w) = true) by (apply expired_at_spec; split; [exact F|lia]). congruence. }
    destruct (serve_tt (ttl (res w)) w) as [w1 r] eqn:E.
    apply serve_spec in E as [(a & c & m & q & Q & B1 & _ & -> & ->)|[(-> & _ & -> & _)|(-> & F' & _)]]; [| |congruence].
    + (* a frame was received and dispatched *)
      set (t' := Z.max (now w) a) in *. set (w0 := set_queue (set_now w (Z.max t' c)) q).
      pose proof (dispatch_frame w0 t' m) as (N & Qd & Td & _ & _ & _ & _ & T & G). cbn zeta in *.
      pose proof (dur_nonneg m) as D. cbn [now set_queue set_now w0] in N, G.
      assert (disp_ok (queue w) (now w) (tmax (ttl (res w))) (tie w) (t', Z.max t' c, Z.max t' c + dur m, m)) as OK.
      { unfold disp_ok. repeat split; [lia|auto|]. exists a, c. rewrite Q. repeat split; [now left|lia]. }
      destruct (snd (dispatch w0 t' m)) as [cb|] eqn:X1; cbn [res_of_exc].
      * (* a callback of the accepted reply raised: its exception leaves wait, the result is ready *)
        cbn [fst snd]. exists [(t', Z.max t' c, Z.max t' c + dur m, m)]. rewrite G. cbn [last_end fold_left fst snd].
        pose proof (dispatch_exc_ready w0 t' m cb X1) as RD.
        repeat split; auto; try lia; try discriminate. right; right; right. now exists cb.
      * destruct (ready (res (fst (dispatch w0 t' m)))) eqn:Y.
        -- (* it made the result ready: the loop ends *)
           assert (wait_loop f (fst (dispatch w0 t' m)) = (fst (dispatch w0 t' m), ONone)) as ->.
           { destruct f; cbn [wait_loop]; now rewrite Y. }
           cbn [fst snd]. exists [(t', Z.max t' c, Z.max t' c + dur m, m)]. rewrite G. cbn [last_end fold_left fst snd].
           repeat split; auto; try lia; try discriminate.
        -- specialize (IH (fst (dispatch w0 t' m)) Y). rewrite T in IH. cbn [res ttl set_queue set_now w0] in IH. specialize (IH F).
           cbn zeta in IH. destruct IH as (ds & I1 & I2 & I3 & I4 & I5 & I6 & I7 & I7' & I8 & I9).
           rewrite N, Td, Qd in *. cbn [tie queue set_queue set_now w0] in I2, I8.
           destruct (wait_loop f (fst (dispatch w0 t' m))) as [w' o]. cbn [fst snd] in *.
           exists ((t', Z.max t' c, Z.max t' c + dur m, m) :: ds). rewrite I1, G, <- app_assoc. cbn [app last_end fold_left fst snd].
           fold (last_end ds (Z.max t' c + dur m)).
           repeat split; auto; try lia.
           ++ constructor; [exact OK|]. eapply Forall_impl; [|exact I2]. intros x. apply disp_ok_weaken; [|lia].
              rewrite Q. intros y Hy. now right.
           ++ apply I6; auto.
           ++ destruct (I6 H) as (_ & ->). lia.
           ++ intros H. specialize (I8 H). rewrite Q. cbn [List.length]. lia.
    + (* nothing arrived before the deadline: the clock is at the expiry *)
      set (w1 := set_now w (Z.max (now w) (tmax (ttl (res w))))).
      assert (wait_loop f w1 = (w1, OTimeout)) as ->.
      { assert (expired_at (ttl (res w1)) (now w1) = true) as X1 by (apply expired_at_spec; cbn; split; [exact F|lia]).
        destruct f; cbn [wait_loop]; cbn [res set_now w1]; rewrite NR; cbn [res set_now w1] in X1; now rewrite X1. }
      cbn [fst snd]. exists []. rewrite app_nil_r. cbn [last_end fold_left now set_now w1 res g_disp].
      repeat split; auto; try lia; try discriminate.
Qed.

Lemma last_end_snoc ds x d : last_end (ds ++ [x]) d = snd (fst x).
Proof. unfold last_end. now rewrite fold_left_app. Qed.

Theorem wait_exact w : ready (res w) = false -> finite (ttl (res w)) = true ->
  let tm := tmax (ttl (res w)) in
  let w' := fst (ar_wait w) in let o := snd (ar_wait w) in
  exists ds, g_disp w' = g_disp w ++ ds /\ Forall (disp_ok (queue w) (now w) tm (tie w)) ds /\
    (o = ONone \/ o = OTimeout \/ exists c, o = OCbExc c) /\
    (o <> OTimeout -> ready (res w') = true) /\
    (o = OTimeout -> ready (res w') = false /\ tm <= now w' /\ now w' = Z.max (Z.max (now w) tm) (last_end ds (now w))) /\
    (o = OTimeout -> Z.max (now w) tm < now w' ->
       exists ds' r rc m, ds = ds' ++ [(r, rc, now w', m)] /\ r <= tm /\ now w' = rc + dur m /\ (tm < rc \/ 0 < dur m)).
Proof.
  intros NR F. cbn zeta. unfold ar_wait.
  destruct (wait_loop_exact (wait_fuel w) w NR F) as (ds & A & B & C & D & E & G & H & H' & I & J). cbn zeta in *.
  exists ds. split; [exact A|]. split; [exact B|].
  assert (snd (wait_loop (wait_fuel w) w) <> OFuel) as NF.
  { intros X. specialize (I X). unfold wait_fuel in I. lia. }
  split; [destruct J as [|[|[|]]]; auto; contradiction|]. split.
  { intros NT. destruct J as [J|[J|[J|(c & J)]]]; [auto|contradiction|contradiction|eauto]. } split.
  - intros X. destruct (G X) as (G1 & G2). repeat split; auto. lia.
  - intros X L. destruct (G X) as (_ & G2). rewrite G2 in L.
    destruct ds as [|x ds0] using rev_ind; [cbn in L; lia|]. clear IHds0.
    rewrite last_end_snoc in *. destruct x as [[[r rc] e] m]. cbn [fst snd] in *.
    apply Forall_app in B as (_ & B). apply Forall_inv in B. unfold disp_ok in B. destruct B as (B1 & B2 & B3 & a & c & B4 & B5 & B6).
    exists ds0, r, rc, m. pose proof (dur_nonneg m). repeat split; try lia. repeat f_equal. lia.
Qed.

(* the statement's clause: with whole frames and replies that need no round trip, wait is late only because the thread was
   busy with ANOTHER message that arrived no later than the expiry: serving an unrelated request, or running the callbacks
   of the reply to another pending request of this connection (callbacks run on the thread that dispatches the reply) *)
Definition other_work (m : msg) (d : N) : Prop := m = Traffic d \/ m = Stray d.
Theorem wait_late_only_when_serving w : ready (res w) = false -> finite (ttl (res w)) = true ->
  whole_frames (queue w) -> instant_replies (queue w) ->
  let tm := tmax (ttl (res w)) in
  let w' := fst (ar_wait w) in
  snd (ar_wait w) = OTimeout -> Z.max (now w) tm < now w' ->
  exists ds' r m d, other_work m d /\ g_disp w' = g_disp w ++ ds' ++ [(r, r, now w', m)] /\ r <= tm /\ now w' = r + Z.of_N d /\ (0 < d)%N.
Proof.
  intros NR F WF IR tm w' X L. destruct (wait_exact w NR F) as (ds & A & B & _ & _ & _ & K). cbn zeta in *.
  destruct (K X L) as (ds' & r & rc & m & -> & K1 & K2 & K3).
  apply Forall_app in B as (_ & B). apply Forall_inv in B. unfold disp_ok in B. destruct B as (B1 & B2 & B3 & a & c & B4 & B5 & B6).
  unfold whole_frames, instant_replies in *. rewrite Forall_forall in WF, IR. specialize (WF _ B4). specialize (IR _ B4). cbn in WF, IR.
  assert (rc = r) as Erc by lia. clear B6. subst rc. destruct m as [e v u|d|d]; cbn [dur instant] in IR, K3, K2.
  - subst u. lia.
  - exists ds', r, (Traffic d), d. fold w' in A. rewrite A. repeat split; auto; [now left|lia].
  - exists ds', r, (Stray d), d. fold w' in A. rewrite A. repeat split; auto; [now right|lia].
Qed.

(* with nothing that can be received up to the expiry the waiting thread is never busy: the error is raised exactly at the expiry *)
Theorem wait_exact_idle w : ready (res w) = false -> finite (ttl (res w)) = true ->
  let tm := tmax (ttl (res w)) in
  (match queue w with [] => True | (a, _, _) :: _ => tm < a \/ (tm = a /\ tie w = false /\ now w < tm) end) ->
  ar_wait w = (set_now w (Z.max (now w) tm), OTimeout).
Proof.
  intros NR F tm HQ. unfold ar_wait, wait_fuel. cbn [wait_loop]. rewrite NR.
  destruct (expired_at (ttl (res w)) (now w)) eqn:X.
  { apply expired_at_spec in X as (_ & X). fold tm in X. replace (Z.max (now w) tm) with (now w) by lia. now rewrite set_now_id. }
  assert (now w < tm) as LT.
  { destruct (Z.ltb_spec (now w) tm); [assumption|].
    assert (expired_at (ttl (res w)) (now w) = true) by (apply expired_at_spec; split; [exact F|assumption]). congruence. }
  destruct (serve_tt (ttl (res w)) w) as [w1 r] eqn:E.
  apply serve_spec in E as [(a & c & m & q & Q & B1 & _ & -> & ->)|[(-> & _ & -> & _)|(-> & F' & _)]]; [| |congruence].
  - exfalso. rewrite Q in HQ. specialize (B1 F LT). fold tm in B1. destruct HQ as [|(? & ? & ?)]; [lia|].
    destruct B1 as [|(? & ?)]; [lia|congruence].
  - fold tm. set (w1 := set_now w (Z.max (now w) tm)).
    assert (expired_at (ttl (res w1)) (now w1) = true) as X1 by (apply expired_at_spec; cbn; split; [exact F|fold tm; lia]).
    cbn [res set_now w1] in *. destruct (List.length (queue w)); cbn [wait_loop]; cbn [res set_now w1]; now rewrite NR, X1.
Qed.

(* without a finite expiry wait never raises the timeout error *)
Lemma wait_loop_never fuel : forall w, finite (ttl (res w)) = false -> snd (wait_loop fuel w) <> OTimeout.
Proof.
  induction fuel as [|f IH]; intros w F; cbn [wait_loop];
    assert (expired_at (ttl (res w)) (now w) = false) as X by (unfold expired_at, timeout_expired; now rewrite F).
  - destruct (ready (res w)); [cbn; discriminate|]. rewrite X. cbn. discriminate.
  - destruct (ready (res w)); [cbn; discriminate|]. rewrite X.
    destruct (serve_tt (ttl (res w)) w) as [w1 r] eqn:E.
    assert (ttl (res w1) = ttl (res w)) as T.
    { refine (serve_from_prims (fun w' => ttl (res w') = ttl (res w)) _ _ _ _ _ _ _ E eq_refl); auto.
      intros w0 r0 m <-. now destruct (dispatch_frame w0 r0 m) as (_ & _ & _ & _ & _ & _ & _ & T & _). }
    destruct r; try (apply IH; now rewrite T); cbn; discriminate.
Qed.
Theorem wait_never_times_out_without_expiry w : finite (ttl (res w)) = false -> snd (ar_wait w) <> OTimeout.
Proof. apply wait_loop_never. Qed.

(* ------------------------------------------------------------------ 4. sync_request / timed are async_request plus one more step *)
Theorem sync_is_async_then_value cfg_timeout sd w :
  sync_request cfg_timeout sd w = step (async_request cfg_timeout sd w) QValue.
Proof. reflexivity. Qed.
Theorem timed_is_async_then_set_expiry t sd w :
  timed_call t sd w = fst (step (async_request None sd w) (SetExpiry t)).
Proof. reflexivity. Qed.
(* async_request(timeout=t) arms the expiry after the request was sent; None leaves the result without expiry *)
Theorem async_request_arms_after_send t sd w :
  let w' := async_request t sd w in
  now w' = now w + Z.of_N sd /\ registered w' = true /\ ready (res w') = false /\
  ttl (res w') = match t with None => never | Some _ => mk_timeout (now w + Z.of_N sd) t end.
Proof. unfold async_request. destruct t; cbn; repeat split. Qed.

(* ------------------------------------------------------------------ the skeleton programs mean the model's functions *)
Definition mkargs e v c r t := {| a_exc := e; a_obj := v; a_func := c; a_raises := r; a_timeout := t |}.

Lemma exec_call w e v c r t :
  exec (call_prog (iso w)) (mkargs e v c r t) w = (fst (ar_call w e v), obs_of_exc (snd (ar_call w e v))).
Proof.
  unfold ar_call, exec. destruct w as [n [rd x o cb tt] rg q tb i a p l gr gd gg]. cbn [iso res now callbacks ready ttl].
  destruct i; cbn [call_prog call_prog_current call_prog_repaired exec_l exec1 on_guard eval_guard res now].
  - destruct (ar_expired _ n); [reflexivity|]. cbn.
    destruct (run_all n cb) as [lg [c0|]]; reflexivity.
  - destruct (ar_expired _ n); [reflexivity|]. cbn.
    destruct (run_until n cb) as [lg [c0|]]; reflexivity.
Qed.

Lemma q_ready_obs w : (exists b, snd (q_ready w) = OBool b) \/ (exists c, snd (q_ready w) = OCbExc c).
Proof.
  unfold q_ready. destruct (ready (res w)); [left; eexists; reflexivity|]. destruct (expired_at _ _); [left; eexists; reflexivity|].
  destruct (poll_all0 w) as [w' [c|]]; [right|left]; eexists; reflexivity.
Qed.

Lemma while_wait_loop fuel : forall w,
  (match while_serve fuel (GAnd (GNot GReady) (GNot GTtlExpired)) w with
   | (w', Some o) => (w', o)
   | (w', None) => if negb (ready (res w')) then (w', OTimeout) else (w', ONone)
   end) = wait_loop fuel w.
Proof.
  induction fuel as [|f IH]; intros w; cbn [while_serve wait_loop eval_guard]; destruct (ready (res w)) eqn:R; cbn [negb];
    try (rewrite R; reflexivity); destruct (expired_at (ttl (res w)) (now w)) eqn:X; cbn [negb]; try (rewrite R; reflexivity);
    try reflexivity.
  destruct (serve_tt (ttl (res w)) w) as [w1 r]. destruct r; try apply IH; reflexivity.
Qed.
Lemma exec_wait x w : exec wait_prog x w = ar_wait w.
Proof.
  unfold ar_wait, exec. rewrite <- while_wait_loop. cbn [exec_l wait_prog exec1].
  destruct (while_serve (wait_fuel w) _ w) as [w' [o|]]; [reflexivity|]. cbn [on_guard eval_guard]. destruct (ready (res w')); reflexivity.
Qed.
Lemma exec_add_callback w e v c r t :
  exec (add_callback_prog (atom w)) (mkargs e v c r t) w = (fst (ar_add_callback w c r), obs_of_exc (snd (ar_add_callback w c r))).
Proof.
  destruct w as [n [rd x o cb tt] rg q tb i a p l gr gd gg]. destruct a, rd, r; reflexivity.
Qed.
Lemma exec_set_expiry w e v c r t : fst (exec set_expiry_prog (mkargs e v c r t) w) = ar_set_expiry w t.
Proof. destruct w as [n [rd x o cb tt] rg q tb i a p l gr gd gg]. reflexivity. Qed.
Lemma exec_ready x w : exec ready_prog x w = q_ready w.
Proof.
  unfold q_ready, exec. cbn [exec_l ready_prog exec1 on_guard eval_guard]. destruct (ready (res w)); [reflexivity|].
  destruct (expired_at (ttl (res w)) (now w)); [reflexivity|]. destruct (poll_all0 w) as [w' [c|]]; reflexivity.
Qed.
Lemma exec_error x w : exec error_prog x w = q_error w.
Proof.
  unfold q_error, exec. cbn [exec_l error_prog exec1]. unfold on_guard. cbn [eval_guard].
  destruct (q_ready_obs w) as [(b & E)|(c & E)]; destruct (q_ready w) as [w' o]; cbn in E; subst o; [destruct b|]; reflexivity.
Qed.
Lemma exec_expired x w : exec expired_prog x w = (w, OBool (ar_expired (res w) (now w))).
Proof. unfold ar_expired, exec. cbn [exec_l expired_prog exec1]. unfold on_guard. cbn [eval_guard]. destruct (ready (res w)); reflexivity. Qed.
Lemma exec_value x w : exec value_prog x w = q_value w.
Proof.
  unfold q_value, exec. cbn [exec_l value_prog exec1]. destruct (ar_wait w) as [w' o]. destruct o; reflexivity.
Qed.

Lemma cexec_async_request cfg own sd t w :
  c_w (cexec cfg own sd async_request_prog {| c_w := w; c_timeout := t; c_ret := None |}) = async_request t sd w.
Proof. unfold async_request. destruct t; reflexivity. Qed.
Lemma cexec_sync_request cfg own sd t0 w :
  let f := cexec cfg own sd sync_request_prog {| c_w := w; c_timeout := t0; c_ret := None |} in
  (c_w f, c_ret f) = (fst (sync_request (cfg "sync_request_timeout"%string) sd w), Some (snd (sync_request (cfg "sync_request_timeout"%string) sd w))).
Proof.
  unfold sync_request. cbn [cexec sync_request_prog fold_left cexec1 c_w c_timeout c_ret].
  destruct (q_value (async_request (cfg "sync_request_timeout"%string) sd w)). reflexivity.
Qed.
Lemma cexec_timed_call cfg own sd t0 w :
  c_w (cexec cfg own sd timed_call_prog {| c_w := w; c_timeout := t0; c_ret := None |}) = timed_call own sd w.
Proof. reflexivity. Qed.
(* a synchronous operation on a proxy (netref.syncreq) is the connection's sync_request: it carries the configured timeout;
   an asynchronous one (netref.asyncreq) is async_request without a timeout *)
Lemma cexec_syncreq cfg own sd t0 w :
  let f := cexec cfg own sd syncreq_prog {| c_w := w; c_timeout := t0; c_ret := None |} in
  (c_w f, c_ret f) = (fst (sync_request (cfg "sync_request_timeout"%string) sd w), Some (snd (sync_request (cfg "sync_request_timeout"%string) sd w))).
Proof.
  cbn [cexec syncreq_prog fold_left cexec1 c_w c_timeout c_ret].
  destruct (sync_request (cfg "sync_request_timeout"%string) sd w). reflexivity.
Qed.
Lemma cexec_asyncreq cfg own sd t0 w :
  c_w (cexec cfg own sd asyncreq_prog {| c_w := w; c_timeout := t0; c_ret := None |}) = async_request None sd w.
Proof. reflexivity. Qed.

(* the two facts as functions of the programs *)
Lemma facts_current : isolated_of call_prog_current = false /\ atomic_of call_prog_current add_callback_prog_current = false.
Proof. split; reflexivity. Qed.
Lemma facts_repaired : isolated_of call_prog_repaired = true /\ atomic_of call_prog_repaired add_callback_prog_repaired = true.
Proof. split; reflexivity. Qed.

(* ------------------------------------------------------------------ materialisation bounded by the configured timeout *)
Lemma bound_reply_times_out c e v u : 0 <= c -> c <= Z.of_N u -> (0 < u)%N ->
  bound_reply (Some c) (Reply e v u) = Reply true tmark (Z.to_N c).
Proof.
  intros H1 H2 H3. unfold bound_reply, timeout_finite, oz. destruct (Z.geb_spec c 0); [|lia].
  destruct (Z.leb_spec c (Z.of_N u)); [|lia]. destruct (N.eqb_spec u 0); [lia|reflexivity].
Qed.
Lemma bound_reply_in_time cfg e v u : timeout_finite cfg = false \/ Z.of_N u < oz cfg \/ u = 0%N ->
  bound_reply cfg (Reply e v u) = Reply e v u.
Proof.
  intros H. unfold bound_reply. destruct H as [H|[H|H]].
  - now rewrite H.
  - destruct (Z.leb_spec (oz cfg) (Z.of_N u)); [lia|]. now rewrite andb_false_r.
  - subst u. now rewrite andb_false_r.
Qed.
Lemma bound_reply_other cfg m : (forall e v u, m <> Reply e v u) -> bound_reply cfg m = m.
Proof. destruct m; intros H; [now destruct (H e v u)|reflexivity..]. Qed.
