(* C14, the bounded half: a waiter whose reply has been processed needs nobody else to get out.
   From ANY state in which its result cell is ready and it is anywhere inside wait()/serve(), the waiter's OWN steps - its next program
   step whenever it has one, one expiry of its own poll()/Condition.wait() timeout when it has none - take it to Returned in at
   most six steps, of which at most ONE is a timeout; no step of another thread, no further traffic and no notification is required.
   So the hold-up of finding F5 (c14_prompt_refuted) is bounded by one timeout of the waiter and is never a deadlock; and a waiter
   that is NOT in the window of c14_only_this_window returns without any timeout at all (alone_needs_timeout_only_in_window). *)
From V Require Import lib.Base model.Serve proofs.ServeP.
From Coq Require Import Arith Lia.

(* the waiter's own next move: the program step if enabled, else its timeout *)
Definition own (w : nat) (s : st) : option (st * bool) :=
  match step LStep w s with
  | Some s' => Some (s', false)
  | None => match step LTimeout w s with Some s' => Some (s', true) | None => None end
  end.

(* n own moves; the second component counts the timeouts used *)
Fixpoint own_n (n : nat) (w : nat) (s : st) : option (st * nat) :=
  match n with
  | O => Some (s, O)
  | S k => match tpc (thrs s w) with
           | Returned => Some (s, O)
           | _ => match own w s with
                  | Some (s', b) => match own_n k w s' with Some (s'', t) => Some (s'', (if b then 1 else 0) + t) | None => None end
                  | None => None
                  end
           end
  end.

(* distance to Returned along own moves once the cell is ready *)
Definition rank (p : pc) : nat :=
  match p with
  | Returned => 0 | LoopTest => 1 | Asleep => 2 | S5 => 2 | S4 => 3 | S3 => 4 | S2 => 5 | S1 => 6 | Idle => 7 | TimedOut => 7
  end.
(* a timeout is only ever needed from these two places *)
Definition may_block (p : pc) : bool := match p with Asleep | S2 | S1 => true | _ => false end.

Lemma step_myseq_kept s l i s' w : l = LStep \/ l = LTimeout -> step l i s = Some s' -> myseq (thrs s' w) = myseq (thrs s w).
Proof.
  intros Hl H. unfold step in H. cbv zeta in H.
  destruct Hl as [-> | ->];
  repeat match type of H with context [match ?x with _ => _ end] => destruct x eqn:?; try discriminate end;
  inversion H; subst; cbn [thrs with_thr];
  try (thread w i; try reflexivity; try congruence).
  (* S4: everybody may have been woken *)
  all: try (unfold wake; destruct (tpc (thrs s w)); reflexivity).
Qed.

Ltac fin := cbn [thrs with_thr]; rewrite upd_same; cbn; repeat split; auto; try lia; try discriminate.

Lemma own_descends s w q : InvB s ->
  myseq (thrs s w) = Some q -> ready s q = true -> in_loop (tpc (thrs s w)) = true ->
  exists s' b, own w s = Some (s', b)
    /\ rank (tpc (thrs s' w)) < rank (tpc (thrs s w))
    /\ (in_loop (tpc (thrs s' w)) = true \/ tpc (thrs s' w) = Returned)
    /\ (b = true -> (tpc (thrs s w) = Asleep \/ (tpc (thrs s w) = S2 /\ inbox s = []))).
Proof.
  intros IB Hm Hr Hl. unfold own, step. cbv zeta.
  destruct (tpc (thrs s w)) eqn:E; try discriminate Hl.
  - (* LoopTest *) rewrite Hm, Hr. do 2 eexists. split; [reflexivity|]. fin.
  - (* S1 *) destruct (holder s); do 2 eexists; (split; [reflexivity|]); fin.
  - (* Asleep *) do 2 eexists. split; [reflexivity|]. fin.
  - (* S2 *) destruct (inbox s) as [|h rest] eqn:Ei; do 2 eexists; (split; [reflexivity|]); fin.
  - (* S3 *) do 2 eexists. split; [reflexivity|]. fin.
  - (* S4 *) do 2 eexists. split; [reflexivity|]. cbn [thrs with_thr]. rewrite upd_same. destruct (hand (thrs s w)); cbn; repeat split; auto; try lia; try discriminate.
  - (* S5 *) pose proof (B_s5 s IB w E) as H5. destruct (hand (thrs s w)) as [h|]; [|congruence].
    do 2 eexists. split; [reflexivity|]. fin.
Qed.

Lemma own_keeps s w s' b q : InvA s -> InvB s -> own w s = Some (s', b) ->
  myseq (thrs s w) = Some q -> ready s q = true ->
  InvA s' /\ InvB s' /\ myseq (thrs s' w) = Some q /\ ready s' q = true.
Proof.
  intros IA IB H Hm Hr. unfold own in H.
  destruct (step LStep w s) as [s1|] eqn:E1.
  - inversion H; subst. split; [eapply invA_step; eauto|]. split; [eapply invB_step; eauto|]. split; [|eapply step_ready_mono; eauto].
    rewrite (step_myseq_kept s LStep w s' w); auto.
  - destruct (step LTimeout w s) as [s1|] eqn:E2; [|discriminate]. inversion H; subst.
    split; [eapply invA_step; eauto|]. split; [eapply invB_step; eauto|]. split; [|eapply step_ready_mono; eauto].
    rewrite (step_myseq_kept s LTimeout w s' w); auto.
Qed.

(* after its first move the waiter is never again at a place that may need a timeout, except S1 -> Asleep / S1 -> S2 *)
Lemma returns_alone_rank : forall n s w q, InvA s -> InvB s ->
  myseq (thrs s w) = Some q -> ready s q = true ->
  (in_loop (tpc (thrs s w)) = true \/ tpc (thrs s w) = Returned) -> rank (tpc (thrs s w)) <= n ->
  exists s' t, own_n n w s = Some (s', t) /\ tpc (thrs s' w) = Returned /\ myseq (thrs s' w) = Some q /\ ready s' q = true.
Proof.
  induction n as [|n IH]; intros s w q IA IB Hm Hr Hl Hk.
  - exists s, 0. cbn. split; [reflexivity|]. split; [|auto].
    destruct (tpc (thrs s w)); cbn in Hk; try lia; reflexivity.
  - destruct Hl as [Hl|Hret].
    + destruct (own_descends s w q IB Hm Hr Hl) as (s1 & b & Ho & Hlt & Hl1 & _).
      destruct (own_keeps s w s1 b q IA IB Ho Hm Hr) as (IA1 & IB1 & Hm1 & Hr1).
      destruct (IH s1 w q IA1 IB1 Hm1 Hr1 Hl1 ltac:(lia)) as (s2 & t & Hn & Hret & Hm2 & Hr2).
      exists s2, ((if b then 1 else 0) + t). cbn [own_n]. rewrite Ho, Hn.
      destruct (tpc (thrs s w)) eqn:E; try discriminate Hl; auto.
    + exists s, 0. cbn [own_n]. rewrite Hret. auto.
Qed.

Theorem late_waiter_returns_alone s w q : InvA s -> InvB s ->
  myseq (thrs s w) = Some q -> ready s q = true -> in_loop (tpc (thrs s w)) = true ->
  exists s' t, own_n 6 w s = Some (s', t) /\ tpc (thrs s' w) = Returned.
Proof.
  intros IA IB Hm Hr Hl.
  destruct (returns_alone_rank 6 s w q IA IB Hm Hr (or_introl Hl)) as (s' & t & H & Hret & _).
  - destruct (tpc (thrs s w)); cbn; try lia; discriminate Hl.
  - eauto.
Qed.

(* timeouts used: none from a place that cannot block; the count is a function of where the waiter starts *)
Lemma own_nonblocking_next s w q s1 b : InvB s -> myseq (thrs s w) = Some q -> ready s q = true ->
  may_block (tpc (thrs s w)) = false -> in_loop (tpc (thrs s w)) = true -> own w s = Some (s1, b) ->
  b = false /\ may_block (tpc (thrs s1 w)) = false.
Proof.
  intros IB Hm Hr Hb Hl Ho. unfold own, step in Ho. cbv zeta in Ho.
  destruct (tpc (thrs s w)) eqn:E; try discriminate Hb; try discriminate Hl.
  - rewrite Hm, Hr in Ho. inversion Ho; subst. cbn [thrs with_thr]. rewrite upd_same. auto.
  - inversion Ho; subst. cbn [thrs]. rewrite upd_same. auto.
  - inversion Ho; subst. cbn [thrs]. rewrite upd_same. destruct (hand (thrs s w)); auto.
  - pose proof (B_s5 s IB w E) as H5. destruct (hand (thrs s w)) as [h|]; [|congruence].
    inversion Ho; subst. cbn [thrs]. rewrite upd_same. auto.
Qed.

Lemma no_timeout_when_not_blocking : forall n s w q s' t, InvA s -> InvB s ->
  myseq (thrs s w) = Some q -> ready s q = true ->
  may_block (tpc (thrs s w)) = false -> own_n n w s = Some (s', t) -> t = 0.
Proof.
  induction n as [|n IH]; intros s w q s' t IA IB Hm Hr Hb H; cbn [own_n] in H.
  - now inversion H.
  - destruct (in_loop (tpc (thrs s w))) eqn:Hl.
    + destruct (own w s) as [[s1 b]|] eqn:Ho.
      * destruct (own_nonblocking_next s w q s1 b IB Hm Hr Hb Hl Ho) as [-> Hb1].
        destruct (own_keeps s w s1 false q IA IB Ho Hm Hr) as (IA1 & IB1 & Hm1 & Hr1).
        destruct (own_n n w s1) as [[s2 t2]|] eqn:Hn.
        -- assert (t2 = 0) by (eapply (IH s1 w q s2 t2); eauto).
           destruct (tpc (thrs s w)); inversion H; subst; reflexivity.
        -- destruct (tpc (thrs s w)); try discriminate H; now inversion H.
      * destruct (tpc (thrs s w)); try discriminate H; now inversion H.
    + destruct (tpc (thrs s w)) eqn:E; try discriminate Hl.
      * pose proof (B_idle s IB w E). congruence.
      * now inversion H.
      * unfold own, step in H. rewrite E in H. discriminate.
Qed.

Theorem at_most_one_timeout : forall n s w q s' t, InvA s -> InvB s ->
  myseq (thrs s w) = Some q -> ready s q = true -> in_loop (tpc (thrs s w)) = true ->
  own_n n w s = Some (s', t) -> t <= 1.
Proof.
  intros n s w q s' t IA IB Hm Hr Hl H.
  destruct (may_block (tpc (thrs s w))) eqn:Eb; [|rewrite (no_timeout_when_not_blocking n s w q s' t); auto].
  destruct n as [|n]; cbn [own_n] in H; [inversion H; lia|].
  destruct (own_descends s w q IB Hm Hr Hl) as (s1 & b & Ho & Hlt & Hl1 & Hb').
  destruct (own_keeps s w s1 b q IA IB Ho Hm Hr) as (IA1 & IB1 & Hm1 & Hr1).
  destruct (tpc (thrs s w)) eqn:E; try discriminate Eb; rewrite Ho in H;
  destruct (own_n n w s1) as [[s2 t2]|] eqn:Hn; try discriminate; inversion H; subst.
  - (* S1: moves to S2 or Asleep without a timeout; from there at most one *)
    assert (b = false) by (destruct b; [destruct (Hb' eq_refl) as [X|[X _]]; congruence|reflexivity]); subst b. cbn.
    unfold own, step in Ho; cbv zeta in Ho; rewrite E in Ho.
    destruct (holder s) eqn:Eh; inversion Ho; subst.
    + (* Asleep: next own move is the timeout to LoopTest, then Returned *)
      destruct n as [|n]; cbn [own_n] in Hn; [inversion Hn; lia|].
      cbn [thrs with_thr] in Hn. rewrite upd_same in Hn. cbn [tpc set_pc] in Hn.
      destruct (own w (with_thr s w (set_pc (thrs s w) Asleep))) as [[s3 b3]|] eqn:Ho3; [|discriminate].
      destruct (own_n n w s3) as [[s4 t4]|] eqn:Hn4; [|discriminate]. inversion Hn; subst.
      assert (t4 = 0); [|destruct b3; lia].
      assert (Hl3 : in_loop (tpc (thrs (with_thr s w (set_pc (thrs s w) Asleep)) w)) = true) by (cbn [thrs with_thr]; rewrite upd_same; reflexivity).
      destruct (own_keeps _ w s3 b3 q IA1 IB1 Ho3 Hm1 Hr1) as (IA3 & IB3 & Hm3 & Hr3).
      eapply (no_timeout_when_not_blocking n s3 w q s' t4); eauto.
      unfold own, step in Ho3. cbn [thrs with_thr] in Ho3. rewrite upd_same in Ho3. cbn [tpc set_pc] in Ho3.
      inversion Ho3; subst. cbn [thrs with_thr]. rewrite upd_same. reflexivity.
    + (* S2 *)
      destruct n as [|n]; cbn [own_n] in Hn; [inversion Hn; lia|].
      cbn [thrs] in Hn. rewrite upd_same in Hn. cbn [tpc set_pc] in Hn.
      match type of Hn with context [own w ?S1] => set (s1 := S1) in * end.
      destruct (own w s1) as [[s3 b3]|] eqn:Ho3; [|discriminate].
      destruct (own_n n w s3) as [[s4 t4]|] eqn:Hn4; [|discriminate]. inversion Hn; subst t2 s4.
      assert (t4 = 0); [|destruct b3; lia].
      destruct (own_keeps s1 w s3 b3 q IA1 IB1 Ho3 Hm1 Hr1) as (IA3 & IB3 & Hm3 & Hr3).
      eapply (no_timeout_when_not_blocking n s3 w q s' t4); eauto.
      unfold own, step in Ho3. cbv zeta in Ho3. subst s1. cbn [thrs inbox] in Ho3. rewrite upd_same in Ho3. cbn [tpc set_pc] in Ho3.
      destruct (inbox s); inversion Ho3; subst; cbn [thrs with_thr]; rewrite upd_same; reflexivity.
  - (* Asleep *)
    assert (t2 = 0); [|destruct b; lia].
    eapply (no_timeout_when_not_blocking n s1 w q s' t2); eauto.
    unfold own, step in Ho. rewrite E in Ho. inversion Ho; subst. cbn [thrs with_thr]. rewrite upd_same. reflexivity.
  - (* S2 *)
    assert (t2 = 0); [|destruct b; lia].
    eapply (no_timeout_when_not_blocking n s1 w q s' t2); eauto.
    unfold own, step in Ho. cbv zeta in Ho. rewrite E in Ho.
    destruct (inbox s); inversion Ho; subst; cbn [thrs with_thr]; rewrite upd_same; reflexivity.
Qed.

Lemma own_n_S n w s s1 b s' t : tpc (thrs s w) <> Returned -> own w s = Some (s1, b) -> own_n (S n) w s = Some (s', t) ->
  exists t2, own_n n w s1 = Some (s', t2) /\ t = (if b then 1 else 0) + t2.
Proof.
  intros Hnr Ho H. cbn [own_n] in H. rewrite Ho in H.
  destruct (own_n n w s1) as [[s2 t2]|]; [|destruct (tpc (thrs s w)); congruence].
  exists t2. destruct (tpc (thrs s w)); try congruence; inversion H; subst; auto.
Qed.

Lemma s2_with_a_frame_needs_no_timeout n s w q s' t : InvA s -> InvB s ->
  myseq (thrs s w) = Some q -> ready s q = true -> tpc (thrs s w) = S2 -> inbox s <> [] ->
  own_n n w s = Some (s', t) -> t = 0.
Proof.
  intros IA IB Hm Hr E Hi H. destruct n as [|n]; [cbn in H; now inversion H|].
  destruct (inbox s) as [|h rest] eqn:Ei; [congruence|].
  assert (Ho : exists s1, own w s = Some (s1, false) /\ tpc (thrs s1 w) = S3).
  { unfold own, step. cbv zeta. rewrite E, Ei. eexists. split; [reflexivity|]. cbn [thrs]. rewrite upd_same. reflexivity. }
  destruct Ho as (s1 & Ho & E1).
  destruct (own_n_S n w s s1 false s' t ltac:(congruence) Ho H) as (t2 & Hn & ->).
  destruct (own_keeps s w s1 false q IA IB Ho Hm Hr) as (IA1 & IB1 & Hm1 & Hr1).
  cbn. eapply (no_timeout_when_not_blocking n s1 w q s' t2); eauto. now rewrite E1.
Qed.

(* the complement of the window: a timeout is needed only where c14_only_this_window finds a held-up waiter (asleep, or polling an empty
   stream) or one step before those places (at the try-acquire with the lock taken: it goes to sleep behind the holder, who by InvA is
   due to notify - c13_no_lost_wakeup; or with the lock free and nothing to read: it starts polling an empty stream) *)
Definition near_window (s : st) (w : nat) : Prop :=
  tpc (thrs s w) = Asleep \/ (tpc (thrs s w) = S2 /\ inbox s = []) \/ (tpc (thrs s w) = S1 /\ holder s <> None)
  \/ (tpc (thrs s w) = S1 /\ holder s = None /\ inbox s = []).

Theorem alone_needs_timeout_only_in_window n s w q s' t : InvA s -> InvB s ->
  myseq (thrs s w) = Some q -> ready s q = true -> in_loop (tpc (thrs s w)) = true ->
  own_n n w s = Some (s', t) -> t <> 0 -> near_window s w.
Proof.
  intros IA IB Hm Hr Hl H Ht. unfold near_window.
  destruct (may_block (tpc (thrs s w))) eqn:Eb.
  2: { exfalso. apply Ht. eapply (no_timeout_when_not_blocking n s w q s' t); eauto. }
  destruct (tpc (thrs s w)) eqn:E; try discriminate Eb; auto.
  - (* S1 *) destruct (holder s) eqn:Eh; [right; right; left; split; [reflexivity|congruence]|].
    right; right; right. split; [reflexivity|]. split; [reflexivity|].
    destruct (inbox s) as [|h rest] eqn:Ei; [reflexivity|exfalso; apply Ht].
    destruct n as [|n]; [cbn in H; now inversion H|].
    assert (Ho : exists s1, own w s = Some (s1, false) /\ tpc (thrs s1 w) = S2 /\ inbox s1 = inbox s).
    { unfold own, step. cbv zeta. rewrite E, Eh. eexists. split; [reflexivity|]. cbn [thrs inbox]. rewrite upd_same. auto. }
    destruct Ho as (s1 & Ho & E1 & Ei1).
    destruct (own_n_S n w s s1 false s' t ltac:(congruence) Ho H) as (t2 & Hn & ->).
    destruct (own_keeps s w s1 false q IA IB Ho Hm Hr) as (IA1 & IB1 & Hm1 & Hr1).
    cbn. eapply (s2_with_a_frame_needs_no_timeout n s1 w q s' t2); eauto. rewrite Ei1, Ei. discriminate.
  - (* S2 *) right; left. split; [reflexivity|].
    destruct (inbox s) as [|h rest] eqn:Ei; [reflexivity|exfalso; apply Ht].
    eapply (s2_with_a_frame_needs_no_timeout n s w q s' t); eauto. rewrite Ei. discriminate.
Qed.

(* non-vacuity: the refutation's final state (W polling an empty stream with its reply dispatched): W gets out alone with exactly
   one timeout, in 5 moves: S2 -timeout-> S3 -> S4 -> LoopTest -> Returned *)
