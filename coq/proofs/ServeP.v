(* Invariants of model/Serve.v: any number of threads, any scheduler, any answer order, nondeterministic timeouts. *)
From V Require Import lib.Base model.Serve.
From Coq Require Import Arith Setoid.

Lemma upd_same {A} (f : nat -> A) i v : upd f i v i = v.
Proof. unfold upd. now rewrite Nat.eqb_refl. Qed.
Lemma upd_other {A} (f : nat -> A) i j v : j <> i -> upd f i v j = f j.
Proof. unfold upd. intros H. apply Nat.eqb_neq in H. now rewrite H. Qed.

Ltac thread j i :=
  destruct (Nat.eq_dec j i) as [->|?]; [rewrite ?upd_same|rewrite ?upd_other by assumption]; cbn [tpc myseq hand server set_pc].

Definition holds_lock (p : pc) : bool := match p with S2 | S3 => true | _ => false end.
Definition will_notify (p : pc) : bool := match p with S2 | S3 | S4 => true | _ => false end.

(* ---- group A: the receive lock and the condition variable ---- *)
Record InvA (s : st) : Prop := {
  A_hold : forall i, holds_lock (tpc (thrs s i)) = true <-> holder s = Some i;
  A_wake : forall i, tpc (thrs s i) = Asleep -> exists h, will_notify (tpc (thrs s h)) = true
}.

Lemma invA_init sv : InvA (init sv).
Proof. constructor; cbn; intros i; [split; intros; discriminate|intros; discriminate]. Qed.


Lemma NoDup_app_one (l : list nat) (x : nat) : NoDup l -> ~ In x l -> NoDup (l ++ [x]).
Proof.
  induction l as [|y ys IH]; intros Hn Hx; cbn; [constructor; [tauto|constructor]|].
  inversion Hn; subst. constructor.
  - rewrite in_app_iff. cbn. intros [A|[A|[]]]; [contradiction|]. subst. apply Hx. now left.
  - apply IH; [assumption|]. intros A. apply Hx. now right.
Qed.

Lemma wake_pc t : tpc (wake t) = match tpc t with Asleep => LoopTest | p => p end.
Proof. destruct t as [p m h sv]. destruct p; reflexivity. Qed.

Lemma invA_step s l i s' : InvA s -> step l i s = Some s' -> InvA s'.
Proof.
  intros [Hh Hw] H. pose proof (Hh i) as Hhi.
  unfold step in H. cbv zeta in H.
  destruct l as [| | |q|q].
  - (* issue *)
    destruct (tpc (thrs s i)) eqn:Epc; try discriminate. destruct (server (thrs s i)); inversion H; subst; clear H;
    (constructor; cbn [thrs holder with_thr];
     [intros j; thread j i; [cbn in *; split; [discriminate|intros E; apply Hhi in E; discriminate]|apply Hh]
     |intros j; thread j i; [discriminate|]; intros Hj; destruct (Hw j Hj) as [h Hn]; exists h;
      thread h i; [rewrite Epc in Hn; discriminate|exact Hn]]).
  - (* program step *)
    destruct (tpc (thrs s i)) eqn:Epc; try discriminate; cbn [holds_lock] in Hhi.
    + (* LoopTest *)
      assert (G : forall p, holds_lock p = false -> p <> Asleep -> InvA (with_thr s i (set_pc (thrs s i) p))).
      { intros p Hp1 Hp2. constructor; cbn [thrs holder with_thr].
        - intros j. thread j i; [rewrite Hp1; split; [discriminate|intros E; apply Hhi in E; discriminate]|apply Hh].
        - intros j. thread j i; [intros E; congruence|].
          intros Hj. destruct (Hw j Hj) as [h Hn]. exists h. thread h i; [rewrite Epc in Hn; discriminate|exact Hn]. }
      destruct (myseq (thrs s i)) as [q|]; [destruct (ready s q); [|destruct (expd s q)]|]; inversion H; subst; apply G; (reflexivity || discriminate).
    + (* S1 *)
      assert (Hl : (exists h, holder s = Some h) \/ holder s = None) by (destruct (holder s); eauto).
      destruct Hl as [(h & El)|El]; rewrite El in H at 1; inversion H; subst; clear H; constructor; cbn [thrs holder with_thr].
      * intros j. thread j i; [cbn; split; [discriminate|intros E; apply Hhi in E; discriminate]|apply Hh].
      * intros j. thread j i.
        -- intros _. assert (h <> i) by (intros ->; apply Hhi in El; discriminate).
           exists h. rewrite upd_other by assumption. apply Hh in El. destruct (tpc (thrs s h)); try discriminate; reflexivity.
        -- intros Hj. destruct (Hw j Hj) as [g Hn]. exists g. thread g i; [rewrite Epc in Hn; discriminate|exact Hn].
      * intros j. thread j i; [cbn; tauto|]. specialize (Hh j). rewrite El in Hh. split; [intros E; apply Hh in E; discriminate|congruence].
      * intros j. thread j i; [discriminate|]. intros _. exists i. rewrite upd_same. reflexivity.
    + (* S2: read a frame *)
      destruct (inbox s) as [|q rest]; [discriminate|]. inversion H; subst; clear H. constructor; cbn [thrs holder].
      * intros j. thread j i; [cbn; apply Hhi|apply Hh].
      * intros j. thread j i; [discriminate|]. intros _. exists i. rewrite upd_same. reflexivity.
    + (* S3: release *)
      inversion H; subst; clear H. constructor; cbn [thrs holder].
      * intros j. thread j i; [cbn; split; discriminate|]. assert (El : holder s = Some i) by (apply Hhi; reflexivity).
        specialize (Hh j). rewrite El in Hh. split; [intros E; apply Hh in E; congruence|discriminate].
      * intros j. thread j i; [discriminate|]. intros _. exists i. rewrite upd_same. reflexivity.
    + (* S4: notify_all wakes every sleeper *)
      inversion H; subst; clear H. constructor; cbn [thrs holder].
      * intros j. thread j i.
        -- destruct (hand (thrs s i)); cbn; (split; [discriminate|intros E; apply Hhi in E; discriminate]).
        -- rewrite wake_pc. specialize (Hh j). destruct (tpc (thrs s j)); cbn in *; exact Hh.
      * intros j. thread j i.
        -- destruct (hand (thrs s i)); discriminate.
        -- rewrite wake_pc. destruct (tpc (thrs s j)); discriminate.
    + (* S5: dispatch *)
      destruct (hand (thrs s i)) as [q|]; [|discriminate]. inversion H; subst; clear H. constructor; cbn [thrs holder].
      * intros j. thread j i; [cbn; split; [discriminate|intros E; apply Hhi in E; discriminate]|apply Hh].
      * intros j. thread j i; [discriminate|]. intros Hj. destruct (Hw j Hj) as [h Hn]. exists h.
        thread h i; [rewrite Epc in Hn; discriminate|exact Hn].
  - (* timeout *)
    destruct (tpc (thrs s i)) eqn:Epc; try discriminate; inversion H; subst; clear H; constructor; cbn [thrs holder with_thr].
    + intros j. thread j i; [cbn; split; [discriminate|intros E; apply Hhi in E; discriminate]|apply Hh].
    + intros j. thread j i; [discriminate|]. intros Hj. destruct (Hw j Hj) as [h Hn]. exists h.
      thread h i; [rewrite Epc in Hn; discriminate|exact Hn].
    + intros j. thread j i; [cbn; exact Hhi|apply Hh].
    + intros j. thread j i; [discriminate|]. intros _. exists i. rewrite upd_same. reflexivity.
  - (* the peer answers *)
    destruct (ph s q); try discriminate. inversion H; subst; clear H. constructor; cbn [thrs holder]; auto.
  - (* the clock passes an expiry *)
    inversion H; subst; clear H. constructor; cbn [thrs holder]; auto.
Qed.

Theorem invA_reach sv s : reach (init sv) s -> InvA s.
Proof. intros R. induction R; [apply invA_init|eauto using invA_step]. Qed.

(* ---- group B: where every reply is, who owns it, and that it is dispatched once ---- *)
Definition carries (p : pc) : bool := match p with S3 | S4 | S5 => true | _ => false end.

Record InvB (s : st) : Prop := {
  B_hand1 : forall i q, hand (thrs s i) = Some q -> ph s q = PHand i /\ carries (tpc (thrs s i)) = true;
  B_hand2 : forall q i, ph s q = PHand i -> hand (thrs s i) = Some q;
  B_s5    : forall i, tpc (thrs s i) = S5 -> hand (thrs s i) <> None;
  B_inbox : NoDup (inbox s) /\ forall q, In q (inbox s) <-> ph s q = PIn;
  B_fresh : forall q, counter s <= q <-> ph s q = PNone;
  B_pend  : forall q, (pending s q = None <-> (ph s q = PNone \/ ph s q = PDone))
                      /\ forall t, pending s q = Some t -> myseq (thrs s t) = Some q;
  B_ready : forall q, ready s q = true <-> (ph s q = PDone /\ late s q = false);
  B_late  : forall q, late s q = true -> ph s q = PDone /\ expd s q = true;
  B_disp  : NoDup (dispatched s) /\ forall q, In q (dispatched s) <-> ph s q = PDone;
  B_seq   : (forall i q, myseq (thrs s i) = Some q -> q < counter s)
            /\ forall i j q, myseq (thrs s i) = Some q -> myseq (thrs s j) = Some q -> i = j;
  B_idle  : forall i, tpc (thrs s i) = Idle -> myseq (thrs s i) = None
}.

Lemma invB_init sv : InvB (init sv).
Proof.
  constructor; cbn; try (intros; discriminate).
  - split; [constructor|]. intros q. split; [tauto|discriminate].
  - intros q. split; [reflexivity|intros; lia].
  - intros q. split; [split; [auto|reflexivity]|intros; discriminate].
  - intros q. split; [discriminate|intros [X _]; discriminate].
  - split; [constructor|]. intros q. split; [tauto|discriminate].
  - split; intros; discriminate.
  - reflexivity.
Qed.

(* steps that only move program counters (of any threads) and the lock *)
Lemma invB_pcs s thrs' hl :
  InvB s ->
  (forall j, myseq (thrs' j) = myseq (thrs s j) /\ hand (thrs' j) = hand (thrs s j)) ->
  (forall j, hand (thrs s j) <> None -> carries (tpc (thrs' j)) = true) ->
  (forall j, tpc (thrs' j) = S5 -> hand (thrs s j) <> None) ->
  (forall j, tpc (thrs' j) = Idle -> tpc (thrs s j) = Idle) ->
  InvB {| thrs := thrs'; counter := counter s; pending := pending s; inbox := inbox s; holder := hl;
          ready := ready s; dispatched := dispatched s; ph := ph s; expd := expd s; late := late s |}.
Proof.
  intros [H1 H2 H5 Hi Hf Hp Hr Hl Hd Hs Hid] Hsame Hc H5' Hidle. constructor; cbn [thrs counter pending inbox holder ready dispatched ph expd late]; auto.
  - intros i q Hh. destruct (Hsame i) as [_ E]. rewrite E in Hh. split; [apply (H1 i q Hh)|]. apply Hc. congruence.
  - intros q i Hq. destruct (Hsame i) as [_ E]. rewrite E. now apply H2.
  - intros i Hi5. destruct (Hsame i) as [_ E]. rewrite E. now apply H5'.
  - intros q. destruct (Hp q) as [Ha Hb]. split; [exact Ha|]. intros t Ht. destruct (Hsame t) as [E _]. rewrite E. now apply Hb.
  - destruct Hs as [Hs1 Hs2]. split.
    + intros i q Hm. destruct (Hsame i) as [E _]. rewrite E in Hm. now apply (Hs1 i).
    + intros i j q Hi' Hj'. destruct (Hsame i) as [Ei _]. destruct (Hsame j) as [Ej _]. rewrite Ei in Hi'. rewrite Ej in Hj'. now apply (Hs2 i j q).
  - intros i Hi0. destruct (Hsame i) as [E _]. rewrite E. apply Hid. now apply Hidle.
Qed.

Lemma hand_none_not_carrying s i : InvB s -> carries (tpc (thrs s i)) = false -> hand (thrs s i) = None.
Proof.
  intros I Hc. destruct (hand (thrs s i)) as [q|] eqn:E; [|reflexivity].
  destruct (B_hand1 s I i q E) as [_ X]. congruence.
Qed.

Lemma invB_step s l i s' : InvB s -> step l i s = Some s' -> InvB s'.
Proof.
  intros I H. pose proof I as [H1 H2 H5 Hi Hf Hp Hr Hl Hd Hs Hid].
  unfold step in H. cbv zeta in H.
  destruct l as [| | |q|q].
  - (* issue *)
    destruct (tpc (thrs s i)) eqn:Epc; try discriminate.
    assert (Hn : hand (thrs s i) = None) by (apply (hand_none_not_carrying s i I); rewrite Epc; reflexivity).
    destruct (server (thrs s i)) eqn:Esv; inversion H; subst; clear H.
    + (* a serving thread starts its loop *)
      apply invB_pcs; auto.
      * intros j. thread j i; auto.
      * intros j. thread j i; [congruence|]. intros Hh. destruct (hand (thrs s j)) as [r0|] eqn:E; [|congruence]. apply (H1 j r0 E).
      * intros j. thread j i; [discriminate|apply H5].
      * intros j. thread j i; [discriminate|auto].
    + (* a client issues request number [counter s] *)
      set (q := counter s).
      assert (Hq : ph s q = PNone) by (apply Hf; lia).
      constructor; cbn [thrs counter pending inbox holder ready dispatched ph expd late].
      * intros j r. thread j i; [discriminate|]. intros Hh. destruct (H1 j r Hh) as [A B]. split; [|exact B].
        unfold upd. destruct (Nat.eqb_spec r q); [subst; congruence|exact A].
      * intros r j. unfold upd at 1. destruct (Nat.eqb_spec r q); [discriminate|]. intros Hr'. thread j i; [|now apply H2].
        apply H2 in Hr'. congruence.
      * intros j. thread j i; [discriminate|apply H5].
      * destruct Hi as [Hn1 Hn2]. split; [exact Hn1|]. intros r. unfold upd. destruct (Nat.eqb_spec r q).
        -- subst. split; [intros X; apply Hn2 in X; congruence|discriminate].
        -- apply Hn2.
      * intros r. unfold upd. destruct (Nat.eqb_spec r q).
        -- subst. split; [lia|discriminate].
        -- rewrite <- (Hf r). fold q. lia.
      * intros r. destruct (Nat.eq_dec r q) as [->|Hne].
        -- rewrite !upd_same. split; [split; [discriminate|intros [X|X]; discriminate]|]. intros t Ht. injection Ht as <-. now rewrite upd_same.
        -- rewrite !upd_other by assumption. destruct (Hp r) as [Pa Pb]. split; [exact Pa|]. intros t Ht. thread t i; [|now apply Pb].
           apply Pb in Ht. rewrite (Hid i Epc) in Ht. discriminate.
      * intros r. unfold upd. destruct (Nat.eqb_spec r q); [subst; rewrite Hr, Hq; split; intros [X _]; discriminate|apply Hr].
      * intros r Hlr. destruct (Hl r Hlr) as [A B]. split; [|exact B]. unfold upd. destruct (Nat.eqb_spec r q); [subst; congruence|exact A].
      * destruct Hd as [Hd1 Hd2]. split; [exact Hd1|]. intros r. unfold upd. destruct (Nat.eqb_spec r q); [subst; rewrite Hd2, Hq; split; discriminate|apply Hd2].
      * destruct Hs as [Hs1 Hs2]. split.
        -- intros j r. thread j i; [intros [= <-]; fold q; lia|]. intros Hm. apply Hs1 in Hm. lia.
        -- intros j k r. thread j i; thread k i; intros Hj Hk; auto.
           ++ injection Hj as <-. apply Hs1 in Hk. fold q in Hk. lia.
           ++ injection Hk as <-. apply Hs1 in Hj. fold q in Hj. lia.
           ++ now apply (Hs2 j k r).
      * intros j. thread j i; [discriminate|apply Hid].
  - (* program step *)
    destruct (tpc (thrs s i)) eqn:Epc; try discriminate.
    + (* LoopTest *)
      assert (Hn : hand (thrs s i) = None) by (apply (hand_none_not_carrying s i I); rewrite Epc; reflexivity).
      assert (G : forall p, p <> S5 -> p <> Idle -> InvB (with_thr s i (set_pc (thrs s i) p))).
      { intros p Hp5 HpI. apply invB_pcs; auto.
        - intros j. thread j i; auto.
        - intros j. thread j i; [congruence|]. intros Hh. destruct (hand (thrs s j)) as [r0|] eqn:E; [|congruence]. apply (H1 j r0 E).
        - intros j. thread j i; [congruence|apply H5].
        - intros j. thread j i; [intros X; exfalso; apply HpI; exact X|auto]. }
      destruct (myseq (thrs s i)) as [q|]; [destruct (ready s q); [|destruct (expd s q)]|]; inversion H; subst; apply G; discriminate.
    + (* S1 *)
      assert (Hn : hand (thrs s i) = None) by (apply (hand_none_not_carrying s i I); rewrite Epc; reflexivity).
      destruct (holder s); inversion H; subst; clear H; (apply invB_pcs; auto;
        [intros j; thread j i; auto
        |intros j; thread j i; [congruence|]; intros Hh; destruct (hand (thrs s j)) as [r0|] eqn:E; [|congruence]; apply (H1 j r0 E)
        |intros j; thread j i; [discriminate|apply H5]
        |intros j; thread j i; [discriminate|auto]]).
    + (* S2: take the oldest frame out of the stream *)
      assert (Hn : hand (thrs s i) = None) by (apply (hand_none_not_carrying s i I); rewrite Epc; reflexivity).
      destruct (inbox s) as [|q rest] eqn:Ein; [discriminate|]. inversion H; subst; clear H.
      destruct Hi as [Hn1 Hn2].
      assert (Hq : ph s q = PIn) by (apply Hn2; now left).
      inversion Hn1 as [|? ? Hnotin Hnd]; subst.
      constructor; cbn [thrs counter pending inbox holder ready dispatched ph expd late].
      * intros j r. thread j i.
        -- intros [= <-]. now rewrite upd_same.
        -- intros Hh. destruct (H1 j r Hh) as [A B]. split; [|exact B]. unfold upd. destruct (Nat.eqb_spec r q); [subst; congruence|exact A].
      * intros r j. unfold upd at 1. destruct (Nat.eqb_spec r q).
        -- subst. intros [= <-]. now rewrite upd_same.
        -- intros Hr'. thread j i; [apply H2 in Hr'; congruence|now apply H2].
      * intros j. thread j i; [discriminate|apply H5].
      * split; [exact Hnd|]. intros r. unfold upd. destruct (Nat.eqb_spec r q).
        -- subst. split; [intros X; contradiction|discriminate].
        -- rewrite <- Hn2. cbn. split; [auto|intros [X|X]; [congruence|exact X]].
      * intros r. unfold upd. destruct (Nat.eqb_spec r q); [subst; rewrite Hf, Hq; split; discriminate|apply Hf].
      * intros r. destruct (Hp r) as [Pa Pb]. split.
        -- unfold upd. destruct (Nat.eqb_spec r q); [subst; rewrite Pa, Hq; split; [intros [X|X]; discriminate|intros [X|X]; discriminate]|exact Pa].
        -- intros t Ht. thread t i; now apply Pb.
      * intros r. unfold upd. destruct (Nat.eqb_spec r q); [subst; rewrite Hr, Hq; split; intros [X _]; discriminate|apply Hr].
      * intros r Hlr. destruct (Hl r Hlr) as [A B]. split; [|exact B]. unfold upd. destruct (Nat.eqb_spec r q); [subst; congruence|exact A].
      * destruct Hd as [Hd1 Hd2]. split; [exact Hd1|]. intros r. unfold upd. destruct (Nat.eqb_spec r q); [subst; rewrite Hd2, Hq; split; discriminate|apply Hd2].
      * destruct Hs as [Hs1 Hs2]. split.
        -- intros j r. thread j i; apply Hs1.
        -- intros j k r. thread j i; thread k i; apply Hs2.
      * intros j. thread j i; [discriminate|apply Hid].
    + (* S3 *)
      inversion H; subst; clear H. apply invB_pcs; auto.
      * intros j. thread j i; auto.
      * intros j. thread j i; [reflexivity|]. intros Hh. destruct (hand (thrs s j)) as [r0|] eqn:E; [|congruence]. apply (H1 j r0 E).
      * intros j. thread j i; [discriminate|apply H5].
      * intros j. thread j i; [discriminate|auto].
    + (* S4 *)
      inversion H; subst; clear H. apply invB_pcs; auto.
      * intros j. thread j i; [auto|]. unfold wake. destruct (tpc (thrs s j)); auto.
      * intros j. thread j i.
        -- intros Hh. destruct (hand (thrs s i)); [reflexivity|congruence].
        -- intros Hh. rewrite wake_pc. destruct (hand (thrs s j)) as [r0|] eqn:E; [|congruence]. destruct (H1 j r0 E) as [_ X].
           destruct (tpc (thrs s j)); try discriminate; reflexivity.
      * intros j. thread j i.
        -- destruct (hand (thrs s i)); [discriminate|discriminate].
        -- rewrite wake_pc. intros Hj. apply H5. destruct (tpc (thrs s j)); try discriminate; reflexivity.
      * intros j. thread j i.
        -- destruct (hand (thrs s i)); discriminate.
        -- rewrite wake_pc. destruct (tpc (thrs s j)); try discriminate; reflexivity.
    + (* S5: dispatch *)
      destruct (hand (thrs s i)) as [q|] eqn:Eh; [|discriminate]. inversion H; subst; clear H.
      destruct (H1 i q Eh) as [Hq _].
      constructor; cbn [thrs counter pending inbox holder ready dispatched ph expd late].
      * intros j r. thread j i; [discriminate|]. intros Hh. destruct (H1 j r Hh) as [A B]. split; [|exact B].
        unfold upd. destruct (Nat.eqb_spec r q); [subst; congruence|exact A].
      * intros r j. unfold upd at 1. destruct (Nat.eqb_spec r q); [discriminate|]. intros Hr'. thread j i; [|now apply H2].
        apply H2 in Hr'. congruence.
      * intros j. thread j i; [discriminate|apply H5].
      * destruct Hi as [Hn1 Hn2]. split; [exact Hn1|]. intros r. unfold upd. destruct (Nat.eqb_spec r q); [subst; rewrite Hn2, Hq; split; discriminate|apply Hn2].
      * intros r. unfold upd. destruct (Nat.eqb_spec r q); [subst; rewrite Hf, Hq; split; discriminate|apply Hf].
      * intros r. destruct (Nat.eq_dec r q) as [->|Hne].
        -- rewrite !upd_same. split; [split; [auto|reflexivity]|intros t Ht; discriminate].
        -- rewrite !upd_other by assumption. destruct (Hp r) as [Pa Pb]. split; [exact Pa|]. intros t Ht. thread t i; now apply Pb.
      * intros r. assert (Hpq : pending s q <> None).
        { destruct (Hp q) as [Pa _]. rewrite Pa, Hq. intros [X|X]; discriminate. }
        assert (Hrq : ready s q = false).
        { destruct (ready s q) eqn:E; [|reflexivity]. apply Hr in E. destruct E as [E _]. congruence. }
        assert (Hlq : late s q = false).
        { destruct (late s q) eqn:E; [|reflexivity]. apply Hl in E. destruct E as [E _]. congruence. }
        destruct (pending s q) as [o|]; [|congruence]. destruct (Nat.eq_dec r q) as [->|Hne].
        -- rewrite upd_same. destruct (expd s q); [rewrite upd_same, Hrq; split; [discriminate|intros [_ X]; discriminate]
                                                  |rewrite upd_same, Hlq; split; [auto|reflexivity]].
        -- rewrite (upd_other (ph s)) by assumption. destruct (expd s q); rewrite ?upd_other by assumption; apply Hr.
      * intros r. assert (Hlq : late s q = false).
        { destruct (late s q) eqn:E; [|reflexivity]. apply Hl in E. destruct E as [E _]. congruence. }
        destruct (Nat.eq_dec r q) as [->|Hne].
        -- rewrite upd_same. destruct (expd s q) eqn:Ee; [intros _; split; reflexivity|rewrite Hlq; discriminate].
        -- rewrite (upd_other (ph s)) by assumption. destruct (expd s q); rewrite ?upd_other by assumption; apply Hl.
      * destruct Hd as [Hd1 Hd2]. split.
        -- apply NoDup_app_one; [exact Hd1|]. rewrite Hd2, Hq. discriminate.
        -- intros r. rewrite in_app_iff. unfold upd. destruct (Nat.eqb_spec r q).
           ++ subst. split; [reflexivity|intros _; right; now left].
           ++ rewrite <- Hd2. cbn. split; [intros [X|[X|[]]]; [exact X|congruence]|auto].
      * destruct Hs as [Hs1 Hs2]. split.
        -- intros j r. thread j i; apply Hs1.
        -- intros j k r. thread j i; thread k i; apply Hs2.
      * intros j. thread j i; [discriminate|apply Hid].
  - (* timeout *)
    destruct (tpc (thrs s i)) eqn:Epc; try discriminate; inversion H; subst; clear H.
    + assert (Hn : hand (thrs s i) = None) by (apply (hand_none_not_carrying s i I); rewrite Epc; reflexivity).
      apply invB_pcs; auto.
      * intros j. thread j i; auto.
      * intros j. thread j i; [congruence|]. intros Hh. destruct (hand (thrs s j)) as [r0|] eqn:E; [|congruence]. apply (H1 j r0 E).
      * intros j. thread j i; [discriminate|apply H5].
      * intros j. thread j i; [discriminate|auto].
    + apply invB_pcs; auto.
      * intros j. thread j i; auto.
      * intros j. thread j i; [reflexivity|]. intros Hh. destruct (hand (thrs s j)) as [r0|] eqn:E; [|congruence]. apply (H1 j r0 E).
      * intros j. thread j i; [discriminate|apply H5].
      * intros j. thread j i; [discriminate|auto].
  - (* the peer answers request q *)
    destruct (ph s q) eqn:Hq; try discriminate. inversion H; subst; clear H.
    constructor; cbn [thrs counter pending inbox holder ready dispatched ph expd late]; auto.
    + intros j r Hh. destruct (H1 j r Hh) as [A B]. split; [|exact B]. unfold upd. destruct (Nat.eqb_spec r q); [subst; congruence|exact A].
    + intros r j. unfold upd. destruct (Nat.eqb_spec r q); [discriminate|apply H2].
    + destruct Hi as [Hn1 Hn2]. split.
      * apply NoDup_app_one; [exact Hn1|]. rewrite Hn2, Hq. discriminate.
      * intros r. rewrite in_app_iff. unfold upd. destruct (Nat.eqb_spec r q).
        -- subst. split; [reflexivity|intros _; right; now left].
        -- rewrite <- Hn2. cbn. split; [intros [X|[X|[]]]; [exact X|congruence]|auto].
    + intros r. unfold upd. destruct (Nat.eqb_spec r q); [subst; rewrite Hf, Hq; split; discriminate|apply Hf].
    + intros r. destruct (Hp r) as [Pa Pb]. split; [|exact Pb].
      unfold upd. destruct (Nat.eqb_spec r q); [subst; rewrite Pa, Hq; split; [intros [X|X]; discriminate|intros [X|X]; discriminate]|exact Pa].
    + intros r. unfold upd. destruct (Nat.eqb_spec r q); [subst; rewrite Hr, Hq; split; intros [X _]; discriminate|apply Hr].
    + intros r Hlr. destruct (Hl r Hlr) as [A B]. split; [|exact B]. unfold upd. destruct (Nat.eqb_spec r q); [subst; congruence|exact A].
    + destruct Hd as [Hd1 Hd2]. split; [exact Hd1|]. intros r. unfold upd. destruct (Nat.eqb_spec r q); [subst; rewrite Hd2, Hq; split; discriminate|apply Hd2].
  - (* the clock passes the expiry of request q *)
    inversion H; subst; clear H. constructor; cbn [thrs counter pending inbox holder ready dispatched ph expd late]; auto.
    intros r Hlr. destruct (Hl r Hlr) as [A B]. split; [exact A|]. unfold upd. destruct (Nat.eqb r q); [reflexivity|exact B].
Qed.

Theorem invB_reach sv s : reach (init sv) s -> InvB s.
Proof. intros R. induction R; [apply invB_init|eauto using invB_step]. Qed.

(* ---- group C: a waiter returns only with the reply to its own request ---- *)
Lemma step_ready_mono s l i s' q : step l i s = Some s' -> ready s q = true -> ready s' q = true.
Proof.
  intros H Hr. unfold step in H. cbv zeta in H.
  destruct l; repeat match type of H with context [match ?x with _ => _ end] => destruct x; try discriminate end;
  inversion H; subst; cbn [ready with_thr]; auto.
  unfold upd. destruct (Nat.eqb q n); auto.
Qed.

Definition InvC (s : st) : Prop :=
  forall i, tpc (thrs s i) = Returned -> exists q, myseq (thrs s i) = Some q /\ ready s q = true.

Lemma invC_step s l i s' : InvC s -> step l i s = Some s' -> InvC s'.
Proof.
  intros I H j Hj.
  assert (Hcase : (tpc (thrs s j) = Returned /\ myseq (thrs s' j) = myseq (thrs s j))
                  \/ (j = i /\ l = LStep /\ tpc (thrs s i) = LoopTest /\ exists q, myseq (thrs s i) = Some q /\ ready s q = true /\ myseq (thrs s' i) = Some q)).
  { unfold step in H. cbv zeta in H.
    destruct l; repeat match type of H with context [match ?x with _ => _ end] => destruct x eqn:?; try discriminate end;
    inversion H; subst; clear H; cbn [thrs with_thr] in Hj |- *;
    (destruct (Nat.eq_dec j i) as [->|Hne]; [rewrite ?upd_same in *|rewrite ?upd_other in * by assumption]);
    cbn [tpc myseq set_pc] in *; try discriminate; try (left; split; [assumption|reflexivity]);
    try (right; repeat split; eauto; fail).
    all: try (rewrite wake_pc in Hj; left; split; [destruct (tpc (thrs s j)); try discriminate; reflexivity|unfold wake; destruct (tpc (thrs s j)); reflexivity]).
    all: try (destruct (hand (thrs s i)); discriminate). }
  destruct Hcase as [[Hr Hm]|(-> & -> & Hl & q & Hm & Hr & Hm')].
  - destruct (I j Hr) as (q & Hq & Hrd). exists q. split; [congruence|]. eapply step_ready_mono; eauto.
  - exists q. split; [exact Hm'|]. eapply step_ready_mono; eauto.
Qed.

Theorem invC_reach sv s : reach (init sv) s -> InvC s.
Proof. intros R. induction R; [intros i; cbn; discriminate|eauto using invC_step]. Qed.

(* progress: as long as a reply sits in the stream and some thread is inside the serving loop, a non-timeout step exists *)
Definition in_loop (p : pc) : bool := match p with LoopTest | S1 | Asleep | S2 | S3 | S4 | S5 => true | _ => false end.
Theorem progress s : InvA s -> InvB s -> inbox s <> [] -> (exists i, in_loop (tpc (thrs s i)) = true) ->
  exists j s', step LStep j s = Some s'.
Proof.
  intros IA IB Hin [i Hi].
  assert (G : forall h, will_notify (tpc (thrs s h)) = true -> exists s', step LStep h s = Some s').
  { intros h Hh. unfold step. destruct (tpc (thrs s h)) eqn:E; try discriminate; eauto.
    destruct (inbox s); [congruence|eauto]. }
  destruct (tpc (thrs s i)) eqn:E; try discriminate.
  - exists i. unfold step. rewrite E. destruct (myseq (thrs s i)); [destruct (ready s n); [|destruct (expd s n)]|]; eauto.
  - exists i. unfold step. rewrite E. destruct (holder s); eauto.
  - destruct (A_wake s IA i E) as [h Hh]. exists h. apply G. exact Hh.
  - exists i. apply G. now rewrite E.
  - exists i. apply G. now rewrite E.
  - exists i. apply G. now rewrite E.
  - exists i. unfold step. rewrite E. pose proof (B_s5 s IB i E). destruct (hand (thrs s i)); [eauto|congruence].
Qed.

(* C14: the only places where a waiter whose reply has already been processed can still be held up *)
Theorem blocked_only_in_window s w q : InvA s -> InvB s ->
  myseq (thrs s w) = Some q -> ready s q = true -> tpc (thrs s w) <> Returned -> tpc (thrs s w) <> TimedOut -> step LStep w s = None ->
  (tpc (thrs s w) = S2 /\ inbox s = []) \/ (tpc (thrs s w) = Asleep /\ exists h, will_notify (tpc (thrs s h)) = true).
Proof.
  intros IA IB Hm Hr Hnr Hnt Hb. unfold step in Hb. destruct (tpc (thrs s w)) eqn:E; try congruence.
  - pose proof (B_idle s IB w E). congruence.
  - rewrite Hm, Hr in Hb. discriminate.
  - destruct (holder s); discriminate.
  - right. split; [reflexivity|]. exact (A_wake s IA w E).
  - left. split; [reflexivity|]. destruct (inbox s); [reflexivity|discriminate].
  - pose proof (B_s5 s IB w E). destruct (hand (thrs s w)); [discriminate|congruence].
Qed.

(* ---- group D: expiry. The clock only moves on; a wait gives up only after its own expiry with the cell not ready - and then
   the cell never becomes ready (a reply dispatched after the expiry is dropped) ---- *)
Lemma step_expd_mono s l i s' q : step l i s = Some s' -> expd s q = true -> expd s' q = true.
Proof.
  intros H He. unfold step in H. cbv zeta in H.
  destruct l; repeat match type of H with context [match ?x with _ => _ end] => destruct x; try discriminate end;
  inversion H; subst; cbn [expd with_thr]; auto.
  unfold upd. destruct (Nat.eqb q s0); auto.
Qed.
Definition InvD (s : st) : Prop :=
  forall i, tpc (thrs s i) = TimedOut -> exists q, myseq (thrs s i) = Some q /\ expd s q = true /\ ready s q = false.
Lemma ready_needs_fresh s l i s' q : step l i s = Some s' -> expd s q = true -> ready s q = false -> ready s' q = false.
Proof.
  intros H He Hr. unfold step in H. cbv zeta in H.
  destruct l; repeat match type of H with context [match ?x with _ => _ end] => destruct x eqn:?; try discriminate end;
  inversion H; subst; cbn [ready with_thr]; auto.
  unfold upd. destruct (Nat.eqb_spec q n); [subst; congruence|auto].
Qed.
Lemma invD_step s l i s' : InvD s -> step l i s = Some s' -> InvD s'.
Proof.
  intros I H j Hj.
  assert (Hcase : (tpc (thrs s j) = TimedOut /\ myseq (thrs s' j) = myseq (thrs s j))
                  \/ (exists q, myseq (thrs s' j) = Some q /\ expd s q = true /\ ready s q = false)).
  { unfold step in H. cbv zeta in H.
    destruct l; repeat match type of H with context [match ?x with _ => _ end] => destruct x eqn:?; try discriminate end;
    inversion H; subst; clear H; cbn [thrs with_thr] in Hj |- *;
    (destruct (Nat.eq_dec j i) as [->|Hne]; [rewrite ?upd_same in *|rewrite ?upd_other in * by assumption]);
    cbn [tpc myseq set_pc] in *; try discriminate; try (left; split; [assumption|reflexivity]);
    try (right; eexists; repeat split; eauto; fail).
    all: try (rewrite wake_pc in Hj; left; split; [destruct (tpc (thrs s j)); try discriminate; reflexivity|unfold wake; destruct (tpc (thrs s j)); reflexivity]).
    all: try (destruct (hand (thrs s i)); discriminate). }
  destruct Hcase as [[Ht Hm]|(q & Hm & He & Hr)].
  - destruct (I j Ht) as (q & Hq & He & Hr). exists q. split; [congruence|]. split; [eapply step_expd_mono; eauto|eapply ready_needs_fresh; eauto].
  - exists q. split; [exact Hm|]. split; [eapply step_expd_mono; eauto|eapply ready_needs_fresh; eauto].
Qed.
Theorem invD_reach sv s : reach (init sv) s -> InvD s.
Proof. intros R. induction R; [intros i; cbn; discriminate|eauto using invD_step]. Qed.
