(* Tie between the generated facts of rpyc/core/vinegar.py + the exception plumbing of rpyc/core/protocol.py
   (gen/Gen_vinegar.v, regenerated on every run) and what model/Vinegar.v uses.  Every lemma is by computation. *)
From V Require Import lib.Base model.Vinegar gen.Gen_vinegar gen.Gen_consts.
From Coq Require Import String.
Local Open Scope string_scope.

(* load: the guarded import and the class-resolution ladder are the programs the model interprets *)
Lemma tie_import_guard : Gen_vinegar.load_import_guard = Vinegar.import_guard.
Proof. reflexivity. Qed.
Lemma tie_ladder : Gen_vinegar.load_ladder = Vinegar.resolution_prog.
Proof. reflexivity. Qed.
Lemma tie_load_guards : Gen_vinegar.load_class_guard = true /\ Gen_vinegar.load_instantiates_with_new_only = true.
Proof. split; reflexivity. Qed.
Lemma tie_fast_const : Gen_vinegar.load_fast_path_const = "EXC_STOP_ITERATION" /\ Gen_consts.EXC_STOP_ITERATION = Vinegar.EXC_STOP.
Proof. split; reflexivity. Qed.
Lemma tie_exceptions_module : txt Gen_vinegar.exceptions_module_name = Vinegar.BUILTINS.
Proof. reflexivity. Qed.

(* dump: markers, skipped names, normalisation rule, record layout *)
Lemma tie_denied : txt Gen_vinegar.dump_denied_tb = Vinegar.DENIED_TB /\ txt Gen_vinegar.dump_denied_ver = Vinegar.DENIED_VER
  /\ txt Gen_vinegar.load_denied_ver = Vinegar.DENIED_VER.
Proof. repeat split. Qed.
Lemma tie_names : txt Gen_vinegar.dump_args_name = Vinegar.ARGS /\ txt Gen_vinegar.dump_version_attr = Vinegar.REMOTE_VERSION
  /\ txt Gen_vinegar.load_version_attr = Vinegar.REMOTE_VERSION /\ map txt Gen_vinegar.dump_ignored_attrs = Vinegar.IGNORED_ATTRS
  /\ txt Gen_vinegar.dump_private_prefix = [95%N].
Proof. repeat split. Qed.
Lemma tie_norm : Gen_vinegar.dump_norm_is_dumpable_or_repr = true.
Proof. reflexivity. Qed.
Lemma tie_record : Gen_vinegar.dump_record_fields = ["typ.__module__"; "typ.__name__"; "args"; "attrs"; "tbtext"].
Proof. reflexivity. Qed.

(* protocol: each switch reaches dump/load under its own name; defaults; what is re-raised locally *)
Lemma tie_box : Gen_vinegar.box_exc_map =
  [("include_local_traceback", "include_local_traceback"); ("include_local_version", "include_local_version")].
Proof. reflexivity. Qed.
Lemma tie_unbox : Gen_vinegar.unbox_exc_map =
  [("import_custom_exceptions", "import_custom_exceptions"); ("instantiate_custom_exceptions", "instantiate_custom_exceptions");
   ("instantiate_oldstyle_exceptions", "instantiate_oldstyle_exceptions")].
Proof. reflexivity. Qed.
Lemma tie_defaults : Gen_vinegar.default_flags =
  [("include_local_traceback", true); ("include_local_version", true); ("instantiate_custom_exceptions", false);
   ("import_custom_exceptions", false); ("instantiate_oldstyle_exceptions", false);
   ("propagate_SystemExit_locally", false); ("propagate_KeyboardInterrupt_locally", true)].
Proof. reflexivity. Qed.
Lemma tie_routed : Gen_vinegar.routed_locally =
  [("SystemExit", "propagate_SystemExit_locally"); ("KeyboardInterrupt", "propagate_KeyboardInterrupt_locally")]
  /\ map (fun p => txt (fst p)) Gen_vinegar.routed_locally = [Vinegar.SYSTEM_EXIT; Vinegar.KEYBOARD_INTERRUPT].
Proof. split; reflexivity. Qed.
Lemma tie_dispatch : Gen_vinegar.dispatch_exception_unboxes = true.
Proof. reflexivity. Qed.

(* the model parameters / default switches of the current tree *)
Definition Pgen : vparams :=
  {| fast_noargs_only := Gen_vinegar.fast_path_noargs_only; skip_callables := Gen_vinegar.dump_skips_callables |}.
Definition flag (k : string) : bool :=
  match find (fun p => String.eqb (fst p) k) Gen_vinegar.default_flags with Some p => snd p | None => false end.
Definition default_rflags : rflags :=
  {| import_custom := flag "import_custom_exceptions"; inst_custom := flag "instantiate_custom_exceptions";
     inst_oldstyle := flag "instantiate_oldstyle_exceptions" |}.
Definition default_sflags : sflags :=
  {| incl_tb := flag "include_local_traceback"; incl_ver := flag "include_local_version";
     prop_sysexit := flag "propagate_SystemExit_locally"; prop_kbdint := flag "propagate_KeyboardInterrupt_locally" |}.
Lemma default_rflags_safe : import_custom default_rflags = false /\ inst_custom default_rflags = false.
Proof. split; reflexivity. Qed.
Definition local_major_gen : text := txt Gen_vinegar.version_major.
(* how the current tree reads a class out of an already imported module (see Vinegar.lookup_mode) *)
Definition Mgen : lookup_mode := Gen_vinegar.load_lookup_mode.
Definition mode_safe_gen : bool := match Mgen with LkGetattr => false | _ => true end.
(* does a failure while rebuilding a response reach the request it answers (_dispatch_response) or escape _dispatch? *)
Definition Dgen : bool := Gen_vinegar.dispatch_delivers_rebuild_failure.

(* the sender's fallback: _send_exc reports the failure of dump/encode of the exception's own payload instead (exact form) *)
Lemma tie_send_exc : Gen_vinegar.send_exc_reports_dump_failure = true.
Proof. reflexivity. Qed.
(* Derived.__str__ appends REMOTE_LINE.format(n) + _remote_tb: the constants *)
Definition nl : string := String (Ascii.Ascii false true false true false false false false) EmptyString.
Lemma tie_remote_line :
  Gen_vinegar.remote_line_start = (nl ++ nl ++ "========= Remote Traceback ")%string /\
  Gen_vinegar.remote_line_end = (" =========" ++ nl)%string /\ Gen_vinegar.remote_line_format = "{0}({{}}){1}".
Proof. repeat split. Qed.
(* the three repairs of this property that the current tree carries: asserted, so that reverting one of them breaks the tie *)
Lemma tie_repairs : Dgen = true /\ mode_safe_gen = true /\ fast_noargs_only Pgen = true.
Proof. repeat split. Qed.
