(* Every encoding a conforming peer may emit is accepted with the same meaning - at EVERY node, not just the outermost:
   counts may be in the dedicated short tags, the one-byte form or the four-byte form wherever the format admits them,
   integers may be immediates or decimal text in either count form, items of tuples / frozensets / slices and the bytes
   under a text value may again be in any admissible form. [admits] is that set of encodings; [admits_accepted] says the
   decoder reads each of them back as the value, leaving the rest of the stream untouched. *)
From Coq Require Import ZifyBool.
From V Require Import lib.Base lib.Sx lib.Decimal lib.Utf8 model.Ladder model.Brine proofs.DecimalP proofs.Utf8P proofs.BrineP proofs.PublishedP.
Open Scope N_scope.
Ltac Zify.zify_post_hook ::= Z.to_euclidean_division_equations.

(* the headers the format admits for a tuple of n items *)
Inductive tup_header (n : N) : list byte -> Prop :=
| TH_short h : n < LIM -> hdr_tup n = Ok h -> tup_header n h                      (* what the shortest-form encoder picks *)
| TH_L1 : n < 256 -> tup_header n [x14; b_of n]                              (* also for the empty tuple: 14 00 *)
| TH_L4 : n < 4294967296 -> tup_header n (x15 :: be4 n).

Section A.
Variable P : bparams.

Inductive admits : pyval -> list byte -> Prop :=
| A_canon v bs : wf P v = true -> dumpable v = true -> text_ok P v = true -> dump P v = Ok bs -> admits v bs
| A_bytes_L1 b : nlen b < 256 -> admits (PBytes b) (x0e :: b_of (nlen b) :: b)
| A_bytes_L4 b : nlen b < 4294967296 -> admits (PBytes b) (x0f :: be4 (nlen b) ++ b)
| A_int_L1 z t : render (maxdigits P) z = Ok t -> nlen t < 256 -> admits (PInt z) (x16 :: b_of (nlen t) :: t)
| A_int_L4 z t : render (maxdigits P) z = Ok t -> nlen t < 4294967296 -> admits (PInt z) (x17 :: be4 (nlen t) ++ t)
| A_str cps e enc : utf8_encode (sp P) cps = Ok e -> admits (PBytes e) enc -> admits (PStr cps) (x08 :: enc)
| A_tuple l bss h : tup_header (nlen l) h -> admits_list l bss -> admits (PTuple l) (h ++ concat bss)
| A_fset l t : admits (PTuple l) t -> admits (PFset l) (x1a :: t)
| A_slice a b c t : admits (PTuple [a; b; c]) t -> admits (PSlice a b c) (x19 :: t)
with admits_list : list pyval -> list (list byte) -> Prop :=
| AL_nil : admits_list [] []
| AL_cons y ys b bs : admits y b -> admits_list ys bs -> admits_list (y :: ys) (b :: bs).

Scheme admits_mut := Induction for admits Sort Prop
  with admits_list_mut := Induction for admits_list Sort Prop.

(* accepted at fuel f: non-empty, and read back exactly, whatever follows *)
Definition acc (f : nat) (v : pyval) (bs : list byte) : Prop := bs <> [] /\ forall rest, load_f P f (bs ++ rest) = Ok (v, rest).
Definition accs (f : nat) (l : list pyval) (bss : list (list byte)) : Prop :=
  length l = length bss /\ (length l <= length (concat bss))%nat /\
  forall acc0 k rest, (length l <= k)%nat -> items (load_f P f) k (nlen l) (concat bss ++ rest) acc0 = Ok (rev acc0 ++ l, rest).

Lemma accs_nil f : accs f [] [].
Proof. split; [reflexivity|split; [cbn; lia|]]. intros a k rest _. destruct k; cbn; now rewrite app_nil_r. Qed.
Lemma accs_cons f y ys b bs : acc f y b -> accs f ys bs -> accs f (y :: ys) (b :: bs).
Proof.
  intros [Nb Hb] (Hl & Hc & Hi). split; [cbn; now rewrite Hl|]. split.
  { cbn [concat length]. rewrite app_length. destruct b; [congruence|cbn [length]; lia]. }
  intros a k rest Hk. destruct k as [|k]; [cbn in Hk; lia|].
  assert (E : nlen (y :: ys) =? 0 = false) by (apply N.eqb_neq; unfold nlen; cbn [length]; lia).
  cbn [items concat]. rewrite E. rewrite <- app_assoc, Hb. cbn [bind].
  replace (nlen (y :: ys) - 1) with (nlen ys) by (unfold nlen; cbn [length]; lia).
  rewrite Hi by (cbn in Hk; lia). cbn [rev]. now rewrite <- app_assoc.
Qed.

Fixpoint depths (l : list pyval) : nat := match l with [] => O | y :: ys => Nat.max (depth y) (depths ys) end.

Lemma tuple_acc f l bss h : tup_header (nlen l) h -> accs f l bss -> acc (S f) (PTuple l) (h ++ concat bss).
Proof.
  intros Hh (Hl & Hc & Hi). destruct Hh as [h Hn Eh|H256|H32].
  - destruct (hdr_tup_ok _ Hn) as (h' & Eh' & Nh' & Hh'). rewrite Eh in Eh'. injection Eh' as <-. split.
    { destruct h; [congruence|discriminate]. }
    intros rest. cbn [load_f]. rewrite <- List.app_assoc, Hh'. destruct (N.eqb_spec (nlen l) 0) as [E|E].
    + destruct l; [|unfold nlen in E; cbn in E; lia]. destruct bss; [|discriminate]. reflexivity.
    + unfold tup_of. rewrite Hi; [reflexivity|rewrite app_length; lia].
  - split; [discriminate|]. intros rest. cbn. rewrite to_b_of by exact H256. unfold tup_of.
    rewrite Hi; [reflexivity|rewrite app_length; lia].
  - split; [discriminate|]. intros rest.
    replace (((x15 :: be4 (nlen l)) ++ concat bss) ++ rest) with (x15 :: be4 (nlen l) ++ concat bss ++ rest) by (cbn [app]; now rewrite <- app_assoc).
    cbn. rewrite un4_be4 by exact H32. unfold tup_of.
    rewrite Hi; [reflexivity|rewrite app_length; lia].
Qed.

Lemma acc_mono f g v bs : (f <= g)%nat -> acc f v bs -> (forall rest, load_f P f (bs ++ rest) = Ok (v, rest) -> load_f P g (bs ++ rest) = Ok (v, rest)) -> acc g v bs.
Proof. intros _ [N H] M. split; [exact N|]. intros rest. apply M, H. Qed.

(* the main induction: an admitted encoding is accepted at every fuel that covers the value's depth *)
Theorem admits_acc : forall v bs, admits v bs -> forall f, (depth v <= f)%nat -> acc f v bs.
Proof.
  apply (admits_mut (fun v bs _ => forall f, (depth v <= f)%nat -> acc f v bs)
                    (fun l bss _ => forall f, (depths l <= f)%nat -> accs f l bss)).
  - (* canonical *) intros v bs Hw Hd Ht E f Hf. destruct (roundtrip_rt P v Hw Hd Ht f Hf) as (bs' & E' & N & H).
    rewrite E in E'. injection E' as <-. split; assumption.
  - intros b H f Hf. destruct f as [|f]; [cbn in Hf; lia|]. split; [discriminate|]. intros rest. cbn [load_f]. apply (accept_str_L1 P _ b rest H).
  - intros b H f Hf. destruct f as [|f]; [cbn in Hf; lia|]. split; [discriminate|]. intros rest. cbn [load_f].
    replace ((x0f :: be4 (nlen b) ++ b) ++ rest) with (x0f :: be4 (nlen b) ++ b ++ rest) by (cbn [app]; now rewrite <- app_assoc).
    apply (accept_str_L4 P _ b rest H).
  - intros z t Hr H f Hf. destruct f as [|f]; [cbn in Hf; lia|]. split; [discriminate|]. intros rest. cbn [load_f].
    cbn. rewrite to_b_of by exact H. unfold int_of. rewrite take_upto_app. rewrite (parse_render (maxdigits P) z t Hr). reflexivity.
  - intros z t Hr H f Hf. destruct f as [|f]; [cbn in Hf; lia|]. split; [discriminate|]. intros rest. cbn [load_f].
    replace ((x17 :: be4 (nlen t) ++ t) ++ rest) with (x17 :: be4 (nlen t) ++ t ++ rest) by (cbn [app]; now rewrite <- app_assoc).
    apply (accept_int_L4 P _ z t rest Hr H).
  - (* text *) intros cps e enc Ee _ IH f Hf. cbn [depth] in Hf. destruct f as [|f]; [lia|]. destruct f as [|f]; [lia|].
    destruct (IH (S f) ltac:(cbn; lia)) as [N H]. split; [discriminate|]. intros rest.
    cbn [load_f app]. unfold load_body at 1. change (to_N x08) with 8.
    cbn [andb N.leb N.ltb N.compare Pos.compare Pos.compare_cont]. cbv iota.
    change (load_body P (load_f P f)) with (load_f P (S f)). rewrite H. cbn [bind].
    now rewrite (utf8_roundtrip _ _ _ Ee).
  - (* tuple *) intros l bss h Hh _ IH f Hf. cbn [depth] in Hf. destruct f as [|f]; [lia|].
    apply tuple_acc; [exact Hh|]. apply IH. clear -Hf. induction l as [|y ys IHl]; cbn in *; [lia|]. 
    assert (fold_right (fun y m => Nat.max (depth y) m) O ys <= f)%nat by lia. specialize (IHl ltac:(lia)). lia.
  - (* frozenset *) intros l t _ IH f Hf. cbn [depth] in Hf. destruct f as [|f]; [lia|].
    destruct (IH f ltac:(cbn [depth]; lia)) as [N H]. split; [discriminate|]. intros rest.
    cbn [load_f app]. unfold load_body at 1. change (to_N x1a) with 26.
    cbn [andb N.leb N.ltb N.compare Pos.compare Pos.compare_cont]. cbv iota. rewrite H. reflexivity.
  - (* slice *) intros a b c t _ IH f Hf. cbn [depth] in Hf. destruct f as [|f]; [lia|].
    destruct (IH f ltac:(cbn [depth fold_right]; lia)) as [N H]. split; [discriminate|]. intros rest.
    cbn [load_f app]. unfold load_body at 1. change (to_N x19) with 25.
    cbn [andb N.leb N.ltb N.compare Pos.compare Pos.compare_cont]. cbv iota. rewrite H. reflexivity.
  - intros f _. apply accs_nil.
  - intros y ys b bs _ IHy _ IHys f Hf. cbn [depths] in Hf. apply accs_cons; [apply IHy; lia|apply IHys; lia].
Qed.

Lemma depths_fold l : depths l = fold_right (fun y m => Nat.max (depth y) m) O l.
Proof. induction l as [|y ys IH]; cbn; congruence. Qed.

(* nesting never exceeds the number of bytes, so the fuel brine.load starts with always suffices *)
Lemma admits_depth : forall v bs, admits v bs -> (depth v <= S (length bs))%nat.
Proof.
  apply (admits_mut (fun v bs _ => (depth v <= S (length bs))%nat)
                    (fun l bss _ => (depths l <= S (length (concat bss)))%nat)).
  - intros v bs _ _ _ E. exact (depth_le P v bs E).
  - intros; cbn; lia.
  - intros; cbn; lia.
  - intros; cbn; lia.
  - intros; cbn; lia.
  - intros cps e enc _ _ IH. cbn [depth length] in *. lia.
  - intros l bss h Hh _ IH. cbn [depth]. rewrite <- depths_fold, app_length.
    assert (1 <= length h)%nat; [|lia].
    destruct Hh as [h Hn Eh| |]; [|cbn; lia|cbn; lia].
    destruct (hdr_tup_ok _ Hn) as (h' & Eh' & Nh' & _). rewrite Eh in Eh'. injection Eh' as <-. destruct h; [congruence|cbn; lia].
  - intros l t _ IH. cbn [depth length] in *. lia.
  - intros a b c t _ IH. cbn [depth length fold_right] in *. lia.
  - cbn; lia.
  - intros y ys b bs _ IHy _ IHys. cbn [depths concat]. rewrite app_length. lia.
Qed.

Theorem admits_load v bs : admits v bs -> load P bs = Ok v.
Proof.
  intros H. unfold load. pose proof (proj2 (admits_acc v bs H (S (length bs)) (admits_depth v bs H)) []) as E.
  rewrite app_nil_r in E. now rewrite E.
Qed.

Theorem admits_accepted v bs : admits v bs -> forall rest, load_f P (S (depth v)) (bs ++ rest) = Ok (v, rest).
Proof. intros H rest. exact (proj2 (admits_acc v bs H (S (depth v)) ltac:(lia)) rest). Qed.
End A.
