(* Proofs about the forwarding layer (model/ProxyOps.v). *)
From V Require Import lib.Base lib.Sx model.Attr model.ProxyOps.
From Coq Require Import String Ascii.
Open Scope string_scope.
Open Scope bool_scope.

(* ------------------------------------------------------------------ tables *)

(* BaseNetref's own forwarding methods are all proxy-local names, so class_factory never shadows them *)
Lemma base_methods_local : forallb (fun e => smem (fst e) local_attrs) base_methods = true.
Proof. reflexivity. Qed.
(* every comparison goes through HANDLE_CMP with (other, name) *)
Lemma cmp_in_base : forallb (fun d => match slookup base_methods d with
                                      | Some (MSync "HANDLE_CMP" [MParam 0; MConst d'] WNone) => String.eqb d d'
                                      | _ => false end) cmp_names = true.
Proof. reflexivity. Qed.

Lemma smem_true_in s l : smem s l = true <-> In s l.
Proof.
  unfold smem. rewrite existsb_exists. split.
  - intros (x & Hi & He). apply String.eqb_eq in He. now subst.
  - intros H. exists s. split; auto. apply String.eqb_refl.
Qed.
Lemma eqb_lit_local d lit : smem lit local_attrs = true -> smem d local_attrs = false -> String.eqb d lit = false.
Proof.
  intros Hl Hd. destruct (String.eqb d lit) eqn:E; auto. apply String.eqb_eq in E. subst. congruence.
Qed.

Ltac not_local H lit := rewrite (eqb_lit_local _ lit eq_refl H).

(* ------------------------------------------------------------------ 1. routing composed with denotation is the operation *)

Lemma slookup_base_cases d m : slookup base_methods d = Some m ->
  In d ["__dir__"; "__hash__"; "__cmp__"; "__eq__"; "__ne__"; "__lt__"; "__gt__"; "__le__"; "__ge__"; "__repr__"; "__str__"; "__exit__"].
Proof.
  unfold base_methods. cbn [slookup].
  repeat match goal with
         | |- context [String.eqb d ?l] => let E := fresh "E" in destruct (String.eqb d l) eqn:E;
               [ apply String.eqb_eq in E; subst; intros _; apply smem_true_in; reflexivity | ]
         end.
  discriminate.
Qed.

Section Routing.
  Variable F : facts.
  Variable A : Type.
  Variable f : nat -> A.
  Variable truthy : A -> bool.
  Variable byval : A -> bool.

  Definition faithful (ms : list string) (o : op) : Prop :=
    match route ms o with
    | RSend rq _ => exists sv, serve_request F truthy byval (rqmap f rq) = Ok sv
                               /\ sv_act sv = direct truthy f o /\ sv_checks sv = direct_checks o
                               /\ sv_reflect sv = serve_reflect F byval f o
    | RNoMethod => exists d n k, o = OSpecial d n k /\ smem d ms = false /\ slookup base_methods d = None
    | _ => False
    end.

  Lemma faithful_getattr ms n : forwarded (OGetAttr n) = true -> faithful ms (OGetAttr n).
  Proof.
    unfold forwarded, faithful, route, getattribute_route. intros H.
    destruct (smem n local_attrs) eqn:L.
    - cbn [negb andb orb] in H. apply String.eqb_eq in H. subst n. cbn.
      eexists. split; [reflexivity|]. repeat split; reflexivity.
    - cbn [negb andb] in H. rewrite orb_true_iff in H. destruct H as [H|H].
      2:{ apply String.eqb_eq in H. subst. discriminate. }
      unfold smem in H. cbn [existsb] in H. rewrite !orb_false_r in H.
      rewrite negb_orb in H. apply andb_true_iff in H. destruct H as [H1 H2].
      apply negb_true_iff in H1. apply negb_true_iff in H2. rewrite H1, H2.
      cbn. eexists. split; [reflexivity|]. repeat split; reflexivity.
  Qed.

  Lemma faithful_setattr ms n : forwarded (OSetAttr n) = true -> faithful ms (OSetAttr n).
  Proof.
    unfold forwarded, faithful, route, setattr_route. intros H. apply negb_true_iff in H. rewrite H.
    cbn. eexists. split; [reflexivity|]. repeat split; reflexivity.
  Qed.
  Lemma faithful_delattr ms n : forwarded (ODelAttr n) = true -> faithful ms (ODelAttr n).
  Proof.
    unfold forwarded, faithful, route, delattr_route. intros H. apply negb_true_iff in H. rewrite H.
    cbn. eexists. split; [reflexivity|]. repeat split; reflexivity.
  Qed.
  Lemma not_local_facts d : smem d local_attrs = false ->
    smem d cmp_names = false /\ smem d ["__repr__"; "__str__"; "__hash__"; "__dir__"] = false /\ String.eqb d "__exit__" = false
    /\ String.eqb d "__repr__" = false /\ String.eqb d "__str__" = false /\ String.eqb d "__hash__" = false /\ String.eqb d "__dir__" = false.
  Proof.
    intros L. unfold smem, cmp_names. cbn [existsb].
    rewrite (eqb_lit_local d "__eq__" eq_refl L), (eqb_lit_local d "__ne__" eq_refl L), (eqb_lit_local d "__lt__" eq_refl L),
      (eqb_lit_local d "__gt__" eq_refl L), (eqb_lit_local d "__le__" eq_refl L), (eqb_lit_local d "__ge__" eq_refl L),
      (eqb_lit_local d "__repr__" eq_refl L), (eqb_lit_local d "__str__" eq_refl L), (eqb_lit_local d "__hash__" eq_refl L),
      (eqb_lit_local d "__dir__" eq_refl L), (eqb_lit_local d "__exit__" eq_refl L).
    repeat split; reflexivity.
  Qed.

  Lemma faithful_special ms d nargs kw :
    forwarded (OSpecial d nargs kw) = true -> well_formed (OSpecial d nargs kw) = true ->
    exit_ok F (truthy (f 0%nat)) (OSpecial d nargs kw) = true ->
    faithful ms (OSpecial d nargs kw).
  Proof.
    intros Hf Hw He. unfold faithful, route.
    destruct (synthesized ms d) eqn:S.
    - unfold synthesized in S. cbn [class_factory_skips_local] in S. apply andb_true_iff in S. destruct S as [Hms L].
      apply negb_true_iff in L.
      destruct (not_local_facts d L) as (N1 & N2 & N3 & N4 & N5 & N6 & N7).
      unfold well_formed in Hw. rewrite N1, N2, N3 in Hw. apply negb_true_iff in Hw.
      unfold smem in Hw. cbn [slicers app existsb] in Hw. rewrite !orb_false_r in Hw.
      unfold make_method. destruct (String.eqb d "__call__") eqn:Ec.
      + apply String.eqb_eq in Ec. subst d. cbn. eexists. split; [reflexivity|]. repeat split; try reflexivity.
        cbn [sv_reflect]. unfold reflect_for. destruct (map f (positional nargs)) as [|x [|y l]]; reflexivity.
      + unfold smem. cbn [slicers existsb]. rewrite !orb_false_r.
        apply orb_false_iff in Hw. destruct Hw as [Hw1 Hw]. apply orb_false_iff in Hw. destruct Hw as [Hw2 Hw].
        apply orb_false_iff in Hw. destruct Hw as [Hw3 Hw4].
        rewrite Hw1, Hw2, Hw3, Hw4. cbn [orb map inst_method rqmap rq_args rq_handler wmap].
        unfold serve_request. cbn [slookup handler_bodies rq_handler String.eqb Ascii.eqb Bool.eqb andb]. cbn [rq_args denote].
        eexists. split; [reflexivity|]. cbn [sv_act sv_checks].
        unfold direct_checks, direct. rewrite Ec, N1, N4, N5, N6, N7, N3. split; [reflexivity|]. split; [reflexivity|].
        cbn [sv_reflect serve_reflect]. destruct kw; reflexivity.
    - destruct (slookup base_methods d) as [[h args w]|] eqn:B.
      + pose proof (slookup_base_cases d _ B) as Hin. cbn [In] in Hin.
        unfold well_formed in Hw. unfold exit_ok in He.
        repeat (destruct Hin as [<-|Hin]);
          try (cbn in Hf; discriminate Hf);
          try (cbn in B; injection B as <- <- <-; cbn in Hw;
               repeat (destruct nargs as [|nargs]; try discriminate Hw); destruct kw; try discriminate Hw;
               cbn; eexists; split; [reflexivity|]; repeat split; reflexivity).
        * (* __exit__ *)
          cbn in B. injection B as <- <- <-. cbn in Hw.
          repeat (destruct nargs as [|nargs]; try discriminate Hw). destruct kw; try discriminate Hw.
          cbn in He. cbn.
          eexists. split; [reflexivity|]. cbn [sv_act sv_checks sv_reflect]. split; [|split; reflexivity].
          destruct (truthy (f 0%nat)); destruct (f_ctxexit_delivers F); cbn in He; try discriminate He; reflexivity.
        * contradiction.
      + exists d, nargs, kw. split; [reflexivity|]. split; [|exact B].
        unfold forwarded in Hf. rewrite B in Hf. rewrite orb_false_r in Hf.
        unfold synthesized in S. cbn [class_factory_skips_local] in S. rewrite Hf in S. now rewrite andb_true_r in S.
  Qed.

  Lemma faithful_fetch ms : faithful ms OFetch.
  Proof. unfold faithful. cbn. eexists. split; [reflexivity|]. repeat split; reflexivity. Qed.

  Theorem routing_faithful ms o :
    forwarded o = true -> well_formed o = true -> exit_ok F (truthy (f 0%nat)) o = true -> faithful ms o.
  Proof.
    destruct o; intros Hf Hw He.
    - now apply faithful_getattr.
    - now apply faithful_setattr.
    - now apply faithful_delattr.
    - now apply faithful_special.
    - apply faithful_fetch.
  Qed.
End Routing.

(* ------------------------------------------------------------------ the clauses the pinned tree does not meet *)

(* reading a proxy-local name is answered by the proxy (or falls back to one remote read when the proxy lacks it): never the
   target's attribute except for __doc__ *)
Lemma local_names_not_forwarded ms :
  forallb (fun n => String.eqb n "__doc__" || match route ms (OGetAttr n) with RSend _ _ => false | RNoMethod => false | _ => true end)
          local_attrs = true.
Proof. reflexivity. Qed.
Lemma local_names_not_written ms :
  forallb (fun n => match route ms (OSetAttr n), route ms (ODelAttr n) with RLocal, RLocal => true | _, _ => false end) local_attrs = true.
Proof. reflexivity. Qed.

(* the with statement's __exit__ call: unless the tree delivers the class, the target's __exit__ is told TypeError *)
Lemma exit_refuted F ms A (f : nat -> A) truthy byval : f_ctxexit_delivers F = false -> truthy (f 0%nat) = true ->
  exists rq w sv, route ms (OSpecial "__exit__" 3 []) = RSend rq w /\ serve_request F truthy byval (rqmap f rq) = Ok sv
    /\ sv_act sv = AExit TTypeError /\ direct truthy f (OSpecial "__exit__" 3 []) = AExit (TClass (f 0%nat)).
Proof.
  intros HF Ht. unfold route, synthesized. replace (smem "__exit__" local_attrs) with true by reflexivity.
  cbn [class_factory_skips_local negb]. rewrite andb_false_r. cbn.
  do 3 eexists. split; [reflexivity|]. cbn. rewrite HF, Ht. repeat split; reflexivity.
Qed.
(* a failing read is asked for twice *)
Lemma getattr_twice F n : f_getattr_repeats F = true -> forwarded (OGetAttr n) = true -> n <> "__doc__" ->
  exists rq w, route [] (OGetAttr n) = RSend rq w /\ fallback F (OGetAttr n) = Some rq.
Proof.
  intros HF Hf Hn. unfold forwarded in Hf. apply orb_true_iff in Hf. destruct Hf as [Hf|Hf].
  2:{ apply String.eqb_eq in Hf. contradiction. }
  apply andb_true_iff in Hf. destruct Hf as [L C]. apply negb_true_iff in L. apply negb_true_iff in C.
  unfold smem in C. cbn [existsb] in C. rewrite orb_false_r in C. apply orb_false_iff in C. destruct C as [C1 C2].
  assert (D : smem n deleted_attrs = false).
  { destruct (smem n deleted_attrs) eqn:D; auto. apply smem_true_in in D.
    assert (In n local_attrs) by (unfold local_attrs; apply in_or_app; now right).
    apply smem_true_in in H. congruence. }
  unfold route, fallback, getattribute_route, getattr_route. rewrite L, C1, C2, D, HF. cbn.
  do 2 eexists. split; reflexivity.
Qed.
Lemma getattr_once F o : f_getattr_repeats F = false -> forwarded o = true -> fallback F o = None.
Proof.
  intros HF Hf. destruct o; try reflexivity. unfold fallback, getattribute_route, getattr_route. rewrite HF.
  destruct (smem n local_attrs) eqn:L.
  - destruct (String.eqb n "__class__"); [reflexivity|]. destruct (String.eqb n "__doc__"); [reflexivity|].
    destruct (smem n deleted_attrs); reflexivity.
  - destruct (String.eqb n "__call__"); [reflexivity|]. destruct (String.eqb n "__array__"); [reflexivity|].
    cbn [negb andb]. destruct (smem n deleted_attrs); reflexivity.
Qed.
(* when it repeats, it repeats the same request *)
Lemma fallback_same F ms o rq2 : fallback F o = Some rq2 -> forwarded o = true ->
  exists n w, o = OGetAttr n /\ route ms o = RSend rq2 w /\ f_getattr_repeats F = true.
Proof.
  destruct o; try discriminate. unfold fallback, route, forwarded, getattribute_route, getattr_route. intros H Hf.
  destruct (smem n local_attrs) eqn:L.
  - destruct (String.eqb n "__class__"); [discriminate|]. destruct (String.eqb n "__doc__"); [discriminate|].
    destruct (smem n deleted_attrs); discriminate.
  - destruct (String.eqb n "__call__"); [discriminate|]. destruct (String.eqb n "__array__"); [discriminate|].
    destruct (smem n deleted_attrs); [discriminate|]. destruct (f_getattr_repeats F); cbn in H; [|discriminate].
    injection H as <-. exists n, WNone. repeat split; reflexivity.
Qed.

(* ------------------------------------------------------------------ configurations *)

Lemma classic_permits_all checks : permitted conf_classic checks = true.
Proof.
  unfold permitted. apply forallb_forall. intros [p n] _. unfold check_one, check_attr. cbn.
  destruct p; reflexivity.
Qed.
Lemma safe_permitted_default n : smem n default_safe_attrs = true -> permitted conf_default [(PGet, n)] = true.
Proof.
  intros H. unfold permitted, check_one, check_attr. cbn -[smem sprefix default_safe_attrs]. rewrite H.
  destruct (sprefix "exposed_" n); reflexivity.
Qed.
Lemma safe_permitted_public n : smem n default_safe_attrs = true -> permitted conf_public [(PGet, n)] = true.
Proof.
  intros H. unfold permitted, check_one, check_attr. cbn -[smem sprefix default_safe_attrs]. rewrite H.
  destruct (sprefix "exposed_" n); reflexivity.
Qed.
Lemma public_permits_public_names n : sprefix "_" n = false -> permitted conf_public [(PGet, n)] = true.
Proof.
  intros H. unfold permitted, check_one, check_attr. cbn -[smem sprefix default_safe_attrs]. rewrite H.
  destruct (sprefix "exposed_" n); destruct (smem n default_safe_attrs); reflexivity.
Qed.
Lemma default_and_public_refuse_writes p n : p <> PGet ->
  permitted conf_default [(p, n)] = false /\ permitted conf_public [(p, n)] = false.
Proof. destruct p; intros H; try contradiction; split; reflexivity. Qed.
(* the default configuration refuses exactly the names outside safe_attrs that do not carry the exposed prefix *)
Lemma default_permits_iff n : permitted conf_default [(PGet, n)] = smem n default_safe_attrs || sprefix "exposed_" n.
Proof.
  unfold permitted, check_one, check_attr. cbn -[smem sprefix default_safe_attrs].
  destruct (sprefix "exposed_" n); destruct (smem n default_safe_attrs); reflexivity.
Qed.

Lemma listed_specials_safe : forallb (fun d => smem d default_safe_attrs) listed_specials = true.
Proof. vm_compute. reflexivity. Qed.
Lemma unlisted_specials_refused : forallb (fun d => negb (permitted conf_default [(PGet, d)]) && negb (permitted conf_public [(PGet, d)]))
                                          unlisted_specials = true.
Proof. vm_compute. reflexivity. Qed.

Lemma direct_checks_special d n k : direct_checks (OSpecial d n k) = [] \/ direct_checks (OSpecial d n k) = [(PGet, d)].
Proof.
  unfold direct_checks, direct.
  destruct (String.eqb d "__call__"); [left; reflexivity|].
  destruct (smem d cmp_names); [right; reflexivity|].
  destruct (String.eqb d "__repr__"); [left; reflexivity|].
  destruct (String.eqb d "__str__"); [left; reflexivity|].
  destruct (String.eqb d "__hash__"); [left; reflexivity|].
  destruct (String.eqb d "__dir__"); [left; reflexivity|].
  destruct (String.eqb d "__exit__") eqn:E; [|right; reflexivity].
  apply String.eqb_eq in E. subst. right. reflexivity.
Qed.
(* every operation kind the property lists is permitted by all three configurations *)
Lemma listed_specials_permitted d n k : In d listed_specials ->
  permitted conf_default (direct_checks (OSpecial d n k)) = true /\ permitted conf_public (direct_checks (OSpecial d n k)) = true
  /\ permitted conf_classic (direct_checks (OSpecial d n k)) = true.
Proof.
  intros Hin. pose proof listed_specials_safe as Hs. rewrite forallb_forall in Hs. specialize (Hs d Hin).
  destruct (direct_checks_special d n k) as [E|E]; rewrite E.
  - repeat split; reflexivity.
  - split; [now apply safe_permitted_default|]. split; [now apply safe_permitted_public | apply classic_permits_all].
Qed.

(* ------------------------------------------------------------------ 2. sequences: through proxies = on the twin *)

Lemma results_all_map_ok {A B} (h : A -> result B) (k : A -> B) l : (forall x, In x l -> h x = Ok (k x)) -> results_all (map h l) = Ok (map k l).
Proof.
  induction l as [|a l IH]; intros H; [reflexivity|]. cbn [map results_all]. rewrite (H a (or_introl eq_refl)). cbn [bind].
  rewrite IH by (intros x Hx; apply H; now right). reflexivity.
Qed.

Section WorldP.
  Variable imm : Type.
  Variable truthy_imm : imm -> bool.
  Variable is_ni : imm -> bool.
  Variable imm_bool : bool -> imm.
  Variable heap : Type.
  Variable apply : act (val imm) -> heap -> oid -> result (val imm) * heap.
  Variable methods : oid -> list string.
  Variable no_method : op -> exn.
  Variable conf : pconf.
  Variable F : facts.

  Notation value := (val imm).
  Notation Truthy := (truthy imm truthy_imm).
  Notation Byval := (byval imm).
  Notation ResNi := (res_ni imm is_ni).
  Notation Tstep := (t_step imm truthy_imm is_ni imm_bool heap apply methods no_method).
  Notation Pstep := (p_step imm truthy_imm is_ni imm_bool heap apply methods no_method conf F).
  Notation Trun := (t_run imm truthy_imm is_ni imm_bool heap apply methods no_method).
  Notation Prun := (p_run imm truthy_imm is_ni imm_bool heap apply methods no_method conf F).
  Notation Serves := (owner_serves imm truthy_imm is_ni heap apply conf F).

  (* a read that failed with AttributeError fails the same way, without further effect, when asked again *)
  Definition failing_reads_repeatable : Prop :=
    forall n h o h', apply (AGetAttr n) h o = (Raise AttributeError, h') -> apply (AGetAttr n) h' o = (Raise AttributeError, h').
  Definition reads_ok : Prop := f_getattr_repeats F = false \/ failing_reads_repeatable.
  (* no value's reflected method accepts one of the objects: it declines, without effect (true of lists, dicts, files ...;
     false of an int subclass, which float.__radd__ accepts) *)
  Definition reflection_inert : Prop :=
    forall rd a h o, exists v, apply (AReflected rd (VImm imm a)) h o = (Ok (VImm imm v), h) /\ is_ni v = true.
  Definition reflection_ok : Prop := f_reflects F = true \/ reflection_inert.

  Definition inv (tw : tworld heap) (pw : pworld heap) : Prop :=
    tw_heap heap tw = pw_heap heap pw /\ tw_slots heap tw = pw_slots heap pw
    /\ forall o, In o (pw_slots heap pw) -> has_oid o (pw_exported heap pw) = true.

  Lemma has_oid_in o l : has_oid o l = true <-> In o l.
  Proof.
    unfold has_oid. rewrite existsb_exists. split.
    - intros (x & Hi & He). apply Nat.eqb_eq in He. now subst.
    - intros H. exists o. split; auto. apply Nat.eqb_refl.
  Qed.
  Lemma reply_id (r : result value) : reply imm r = r.
  Proof. destruct r as [[v|o|e]| | |]; reflexivity. Qed.

  Lemma operands_unbox slots ex ops : (forall o, In o slots -> has_oid o ex = true) ->
    forall vs, all_some (map (t_operand imm slots) ops) = Some vs ->
    forall i, unbox_s imm ex (box_c imm (nth_val imm vs i)) = Ok (nth_val imm vs i).
  Proof.
    intros Hex. induction ops as [|a ops IH]; intros vs H i.
    - injection H as <-. unfold nth_val. destruct i; reflexivity.
    - cbn [map all_some] in H. destruct (t_operand imm slots a) as [v|] eqn:Ea; [|discriminate].
      destruct (all_some (map (t_operand imm slots) ops)) as [vs'|] eqn:Er; [|discriminate].
      injection H as <-. destruct i as [|i]; [|exact (IH vs' eq_refl i)].
      unfold nth_val. cbn [nth]. destruct a as [x|j|e]; cbn in Ea.
      + injection Ea as <-. reflexivity.
      + destruct (nth_error slots j) as [o|] eqn:Ej; [|discriminate]. injection Ea as <-. cbn.
        rewrite (Hex o (nth_error_In _ _ Ej)). reflexivity.
      + injection Ea as <-. reflexivity.
  Qed.
  Lemma first_truthy_ok slots ops vs : all_some (map (t_operand imm slots) ops) = Some vs ->
    Truthy (nth_val imm vs 0) = first_truthy imm truthy_imm ops.
  Proof.
    destruct ops as [|a ops]; intros H.
    - injection H as <-. reflexivity.
    - cbn [map all_some] in H. destruct (t_operand imm slots a) as [v|] eqn:Ea; [|discriminate].
      destruct (all_some (map (t_operand imm slots) ops)) as [vs'|]; [|discriminate]. injection H as <-.
      unfold nth_val. cbn [nth]. destruct a as [x|j|e]; cbn in Ea.
      + injection Ea as <-. reflexivity.
      + destruct (nth_error slots j); [|discriminate]. injection Ea as <-. reflexivity.
      + injection Ea as <-. reflexivity.
  Qed.

  Lemma traverse_ok ex (g : nat -> value) (rq : request nat) :
    (forall i, unbox_s imm ex (box_c imm (g i)) = Ok (g i)) ->
    rqtraverse (unbox_s imm ex) (rqmap (box_c imm) (rqmap g rq)) = Ok (rqmap g rq).
  Proof.
    intros Hg. unfold rqtraverse, rqmap. cbn [rq_args rq_handler]. rewrite !map_map.
    rewrite (results_all_map_ok _ (wmap g)); [reflexivity|].
    intros w _. destruct w as [s|a|l|l]; cbn [wmap wtraverse].
    - reflexivity.
    - rewrite Hg. reflexivity.
    - rewrite !map_map. rewrite (results_all_map_ok _ g); [reflexivity|]. intros x _. apply Hg.
    - rewrite !map_map. cbn [fst snd].
      rewrite (results_all_map_ok _ (fun p => (fst p, g (snd p)))); [reflexivity|]. intros x _. rewrite Hg. reflexivity.
  Qed.

  Lemma send_finds_slot o p rq w : route (methods o) p = RSend rq w -> finds_slot methods o p = true.
  Proof.
    destruct p; try reflexivity. unfold route, finds_slot, has_method, always_present, synthesized.
    destruct (smem d (methods o)); [intros _; apply orb_true_r|]. cbn [andb].
    destruct (slookup base_methods d) as [[h a w']|]; [reflexivity|discriminate].
  Qed.

  Lemma export_keeps ex (r : result value) x : has_oid x ex = true -> has_oid x (export imm ex r) = true.
  Proof.
    intros H. destruct r as [[v|o|e]| | |]; cbn; auto. destruct (has_oid o ex); auto.
    apply has_oid_in. apply in_or_app. left. now apply has_oid_in.
  Qed.
  Lemma inv_push ex slots (r : result value) :
    (forall o, In o slots -> has_oid o ex = true) ->
    forall o, In o (push_ref imm slots r) -> has_oid o (export imm ex r) = true.
  Proof.
    intros H o Ho.
    assert (Hold : In o slots -> has_oid o (export imm ex r) = true) by (intros Hi; apply export_keeps; auto).
    destruct r as [[v|o2|e]| | |]; try (apply Hold; exact Ho).
    cbn [push_ref] in Ho. destruct (has_oid o2 slots) eqn:Es; [apply Hold; exact Ho|].
    apply in_app_or in Ho. destruct Ho as [Ho|[<-|[]]]; [apply Hold; exact Ho|].
    cbn [export]. destruct (has_oid o2 ex) eqn:E; auto. apply has_oid_in. apply in_or_app. right. now left.
  Qed.

  Lemma reflect_for_flag {B} (bv : B -> bool) r d l b :
    reflect_for bv r d l b = if r then reflect_for bv true d l b else None.
  Proof. unfold reflect_for. destruct l as [|x [|y l]]; destruct (reflected_of d); destruct r; reflexivity. Qed.
  Lemma serve_reflect_protocol p vs :
    serve_reflect F Byval (nth_val imm vs) p
    = if f_reflects F then match protocol_operand imm p vs with Some (_, rd, a) => Some (rd, a) | None => None end else None.
  Proof.
    destruct p; cbn [serve_reflect protocol_operand]; try (destruct (f_reflects F); reflexivity).
    rewrite reflect_for_flag. destruct (f_reflects F); [|reflexivity].
    destruct (reflect_for Byval true d (map (nth_val imm vs) (positional nargs)) (no_kw_list kw)) as [[rd a]|]; reflexivity.
  Qed.
  Lemma protocol_operand_shape p vs d rd a : protocol_operand imm p vs = Some (d, rd, a) ->
    (exists n k, p = OSpecial d n k) /\ exists x, a = VImm imm x.
  Proof.
    destruct p; cbn [protocol_operand]; try discriminate. unfold reflect_for.
    destruct (map (nth_val imm vs) (positional nargs)) as [|x [|y l]]; try discriminate.
    destruct (reflected_of d0); try discriminate. cbn [andb]. destruct (no_kw_list kw); try discriminate.
    destruct x as [v|o|e]; cbn; try discriminate. intros [= <- <- <-]. split; [now exists nargs, kw|now exists v].
  Qed.
  Lemma no_fallback_match (r : result value) (h : heap) (fb : option (request nat)) (X : request nat -> result value * heap) :
    fb = None ->
    match r, fb with
    | Raise AttributeError, Some rq2 => X rq2
    | _, _ => (r, h)
    end = (r, h).
  Proof. intros ->. destruct r as [v|e| |]; try reflexivity. destruct e; reflexivity. Qed.
  Lemma push_give_up slots d : push_ref imm slots (give_up imm imm_bool d) = slots.
  Proof. unfold give_up. destruct (String.eqb d "__eq__"); [reflexivity|]. destruct (String.eqb d "__ne__"); reflexivity. Qed.

  Lemma step_sim tw pw s : inv tw pw -> step_ok imm truthy_imm conf F s = true -> reads_ok -> reflection_ok ->
    match Tstep tw s, Pstep pw s with
    | Some (r, tw'), Some (r', pw') => r = r' /\ inv tw' pw'
    | None, None => True
    | _, _ => False
    end.
  Proof.
    intros (Hh & Hs & Hex) Hok Hrep Hrefl. unfold t_step, p_step. rewrite <- Hs.
    destruct (nth_error (tw_slots heap tw) (st_target imm s)) as [o|] eqn:Eo; [|trivial].
    destruct (all_some (map (t_operand imm (tw_slots heap tw)) (st_operands imm s))) as [vs|] eqn:Ev; [|trivial].
    unfold step_ok in Hok. apply andb_true_iff in Hok. destruct Hok as [Hok Hcls].
    apply andb_true_iff in Hok. destruct Hok as [Hok Hexit].
    apply andb_true_iff in Hok. destruct Hok as [Hok Hperm]. apply andb_true_iff in Hok. destruct Hok as [Hfw Hwf].
    assert (Hesc : escapes_handler imm F s = None).
    { unfold exit_class_ok in Hcls. destruct (escapes_handler imm F s); [discriminate|reflexivity]. }
    rewrite Hesc.
    rewrite <- (first_truthy_ok _ _ _ Ev) in Hexit.
    pose proof (routing_faithful F value (nth_val imm vs) Truthy Byval (methods o) (st_op imm s) Hfw Hwf Hexit) as Hfaith.
    unfold faithful in Hfaith.
    assert (Hoex : has_oid o (pw_exported heap pw) = true).
    { apply Hex. rewrite <- Hs. exact (nth_error_In _ _ Eo). }
    assert (Hops : forall i, unbox_s imm (pw_exported heap pw) (box_c imm (nth_val imm vs i)) = Ok (nth_val imm vs i)).
    { apply (operands_unbox (tw_slots heap tw) _ (st_operands imm s)); auto. intros x Hx. apply Hex. now rewrite <- Hs. }
    assert (Hslots : forall x, In x (tw_slots heap tw) -> has_oid x (pw_exported heap pw) = true).
    { intros x Hx. apply Hex. now rewrite <- Hs. }
    destruct (route (methods o) (st_op imm s)) as [rq w| | | |] eqn:R; try contradiction.
    - destruct Hfaith as (sv & Hsv & Hact & Hchk & Hrf).
      rewrite (send_finds_slot _ _ _ _ R).
      assert (Hserve : forall h, Serves h (pw_exported heap pw) o (rqmap (nth_val imm vs) rq)
                                 = let '(r1, h1) := apply (direct Truthy (nth_val imm vs) (st_op imm s)) h o in
                                   match serve_reflect F Byval (nth_val imm vs) (st_op imm s) with
                                   | Some (rd, a) => if ResNi r1 then apply (AReflected rd a) h1 o else (r1, h1)
                                   | None => (r1, h1)
                                   end).
      { intros h. unfold owner_serves. cbn [unbox_s]. rewrite Hoex. rewrite (traverse_ok _ _ _ Hops). rewrite Hsv.
        rewrite Hchk, Hperm, Hact, Hrf. reflexivity. }
      rewrite Hserve, <- Hh. rewrite serve_reflect_protocol.
      destruct (apply (direct Truthy (nth_val imm vs) (st_op imm s)) (tw_heap heap tw) o) as [r1 h1] eqn:Ea.
      destruct (protocol_operand imm (st_op imm s) vs) as [[[d rd] a]|] eqn:Ep.
      + (* a one-operand operator whose operand is a value *)
        destruct (protocol_operand_shape _ _ _ _ _ Ep) as ((n & k & Hop) & (x & ->)).
        assert (Hnf : fallback F (st_op imm s) = None) by (rewrite Hop; reflexivity).
        destruct (f_reflects F) eqn:HF.
        * (* the owner completes the protocol *)
          destruct (ResNi r1) eqn:Hn1.
          -- destruct (apply (AReflected rd (VImm imm x)) h1 o) as [r2 h2] eqn:Ea2.
             rewrite (no_fallback_match _ _ _ _ Hnf), reply_id.
             split; [reflexivity|].
             unfold inv. cbn [tw_heap tw_slots pw_heap pw_slots pw_exported]. split; [reflexivity|]. split; [reflexivity|].
             destruct (ResNi r2) eqn:Hn2.
             ++ rewrite push_give_up. intros y Hy. apply export_keeps. auto.
             ++ apply inv_push. exact Hslots.
          -- rewrite (no_fallback_match _ _ _ _ Hnf), reply_id. rewrite Hn1.
             split; [reflexivity|].
             unfold inv. cbn [tw_heap tw_slots pw_heap pw_slots pw_exported]. split; [reflexivity|]. split; [reflexivity|].
             apply inv_push; auto.
        * (* the caller's interpreter is left with the proxy *)
          rewrite (no_fallback_match _ _ _ _ Hnf), reply_id.
          destruct (ResNi r1) eqn:Hn1.
          -- destruct Hrefl as [Hrefl|Hrefl]; [congruence|].
             destruct (Hrefl rd x h1 o) as (v & Ea2 & Hv). rewrite Ea2. cbn [res_ni]. rewrite Hv.
             split; [reflexivity|].
             unfold inv. cbn [tw_heap tw_slots pw_heap pw_slots pw_exported]. split; [reflexivity|]. split; [reflexivity|].
             rewrite push_give_up. intros y Hy. apply export_keeps. auto.
          -- split; [reflexivity|].
             unfold inv. cbn [tw_heap tw_slots pw_heap pw_slots pw_exported]. split; [reflexivity|]. split; [reflexivity|].
             apply inv_push; auto.
      + (* everything else: one action *)
        replace (if f_reflects F then @None (string * value) else None) with (@None (string * value)) by (destruct (f_reflects F); reflexivity).
        assert (Hfb : (match r1, fallback F (st_op imm s) with
                       | Raise AttributeError, Some rq2 => Serves h1 (pw_exported heap pw) o (rqmap (nth_val imm vs) rq2)
                       | _, _ => (r1, h1) end) = (r1, h1)).
        { destruct r1 as [v|e| |]; try reflexivity. destruct e; try reflexivity.
          destruct (fallback F (st_op imm s)) as [rq2|] eqn:Efb; [|reflexivity].
          destruct (fallback_same F (methods o) _ _ Efb Hfw) as (n & w' & Hop & Hr & Hrepeats).
          rewrite R in Hr. injection Hr as <- <-. rewrite Hserve. rewrite serve_reflect_protocol, Ep.
          replace (if f_reflects F then @None (string * value) else None) with (@None (string * value)) by (destruct (f_reflects F); reflexivity).
          destruct Hrep as [Hrep|Hrep]; [congruence|].
          rewrite Hop in *. cbn [direct] in *. rewrite (Hrep _ _ _ _ Ea). reflexivity. }
        rewrite Hfb. rewrite reply_id. split; [reflexivity|].
        unfold inv. cbn [tw_heap tw_slots pw_heap pw_slots pw_exported]. split; [reflexivity|]. split; [reflexivity|].
        apply inv_push; auto.
    - destruct Hfaith as (d & n & k & Hop & Hms & Hb).
      assert (Hfs : finds_slot methods o (st_op imm s) = false).
      { rewrite Hop. unfold finds_slot, has_method, always_present. now rewrite Hb, Hms. }
      rewrite Hfs. split; [reflexivity|]. destruct pw as [ph pe ps]. cbn in *. subst. repeat split; auto.
  Qed.

  Theorem run_sim steps : forall tw pw, inv tw pw -> forallb (step_ok imm truthy_imm conf F) steps = true -> reads_ok -> reflection_ok ->
    match Trun tw steps, Prun pw steps with
    | Some (rs, tw'), Some (rs', pw') => rs = rs' /\ inv tw' pw'
    | None, None => True
    | _, _ => False
    end.
  Proof.
    induction steps as [|s steps IH]; intros tw pw Hinv Hok Hrep Hrefl.
    - cbn. split; auto.
    - cbn [forallb] in Hok. apply andb_true_iff in Hok. destruct Hok as [Hs Hrest].
      cbn [t_run p_run]. pose proof (step_sim tw pw s Hinv Hs Hrep Hrefl) as H1.
      destruct (Tstep tw s) as [[r tw1]|]; destruct (Pstep pw s) as [[r' pw1]|]; try contradiction; [|trivial].
      destruct H1 as [<- Hinv1]. specialize (IH tw1 pw1 Hinv1 Hrest Hrep Hrefl).
      destruct (Trun tw1 steps) as [[rs tw2]|]; destruct (Prun pw1 steps) as [[rs' pw2]|]; try contradiction; [|trivial].
      destruct IH as [<- Hinv2]. split; auto.
  Qed.

  (* an operation whose names the configuration does not permit is refused with AttributeError and changes nothing *)
  Lemma refused_unchanged tw pw s : inv tw pw ->
    forwarded (st_op imm s) = true -> well_formed (st_op imm s) = true ->
    exit_ok F (first_truthy imm truthy_imm (st_operands imm s)) (st_op imm s) = true ->
    permitted conf (direct_checks (st_op imm s)) = false ->
    match Pstep pw s with
    | Some (r, pw') => (exists e, r = Raise e) /\ pw_heap heap pw' = pw_heap heap pw /\ pw_slots heap pw' = pw_slots heap pw
    | None => True
    end.
  Proof.
    intros (Hh & Hs & Hex) Hfw Hwf Hexit Hperm. unfold p_step.
    destruct (nth_error (pw_slots heap pw) (st_target imm s)) as [o|] eqn:Eo; [|trivial].
    destruct (all_some (map (t_operand imm (pw_slots heap pw)) (st_operands imm s))) as [vs|] eqn:Ev; [|trivial].
    rewrite <- (first_truthy_ok _ _ _ Ev) in Hexit.
    pose proof (routing_faithful F value (nth_val imm vs) Truthy Byval (methods o) (st_op imm s) Hfw Hwf Hexit) as Hfaith.
    unfold faithful in Hfaith.
    assert (Hoex : has_oid o (pw_exported heap pw) = true) by (apply Hex; exact (nth_error_In _ _ Eo)).
    assert (Hops : forall i, unbox_s imm (pw_exported heap pw) (box_c imm (nth_val imm vs i)) = Ok (nth_val imm vs i)).
    { apply (operands_unbox (pw_slots heap pw) _ (st_operands imm s)); auto. }
    destruct (route (methods o) (st_op imm s)) as [rq w| | | |] eqn:R; try contradiction.
    - destruct (escapes_handler imm F s) as [esc|]; [split; [eexists; reflexivity|]; split; reflexivity|].
      destruct Hfaith as (sv & Hsv & Hact & Hchk & _).
      assert (Hserve : forall h, Serves h (pw_exported heap pw) o (rqmap (nth_val imm vs) rq) = (Raise AttributeError, h)).
      { intros h. unfold owner_serves. cbn [unbox_s]. rewrite Hoex. rewrite (traverse_ok _ _ _ Hops). rewrite Hsv.
        rewrite Hchk, Hperm. reflexivity. }
      rewrite Hserve.
      destruct (fallback F (st_op imm s)) as [rq2|] eqn:Efb.
      + destruct (fallback_same F (methods o) _ _ Efb Hfw) as (n & w' & Hop & Hr & _).
        rewrite R in Hr. injection Hr as <- <-. rewrite Hserve.
        destruct (protocol_operand imm (st_op imm s) vs) as [[[d rd] a]|]; cbn; (split; [eexists; reflexivity|]); split; reflexivity.
      + destruct (protocol_operand imm (st_op imm s) vs) as [[[d rd] a]|]; cbn; (split; [eexists; reflexivity|]); split; reflexivity.
    - split; [eexists; reflexivity|]. split; reflexivity.
  Qed.
End WorldP.

(* ---- witnesses: the two clauses really fail on a tree with the corresponding fact ---- *)

Definition w_apply_count (a : act (val unit)) (h : nat) (o : oid) : result (val unit) * nat :=
  match a with AGetAttr _ => (Raise AttributeError, S h) | _ => (Ok (VImm unit tt), h) end.
Definition w_step_read : step unit := {| st_target := 0; st_op := OGetAttr "flaky"; st_operands := [] |}.
Lemma failing_read_runs_twice F : f_getattr_repeats F = true ->
  let tw := {| tw_heap := 0%nat; tw_slots := [0%nat] |} in
  let pw := {| pw_heap := 0%nat; pw_exported := [0%nat]; pw_slots := [0%nat] |} in
  step_ok unit (fun _ => true) conf_classic F w_step_read = true /\
  option_map (fun x => tw_heap nat (snd x))
             (t_run unit (fun _ => true) (fun _ => false) (fun _ => tt) nat w_apply_count (fun _ => []) (fun _ => TypeError) tw [w_step_read]) = Some 1%nat /\
  option_map (fun x => pw_heap nat (snd x))
             (p_run unit (fun _ => true) (fun _ => false) (fun _ => tt) nat w_apply_count (fun _ => []) (fun _ => TypeError) conf_classic F pw [w_step_read]) = Some 2%nat.
Proof.
  destruct F as [a b d c]. cbn [f_getattr_repeats]. intros ->. cbv zeta. split; [reflexivity|]. split; reflexivity.
Qed.

Definition w_apply_log (a : act (val unit)) (h : list (told (val unit))) (o : oid) : result (val unit) * list (told (val unit)) :=
  match a with AExit t => (Ok (VImm unit tt), t :: h) | _ => (Ok (VImm unit tt), h) end.
Definition w_step_exit : step unit :=
  {| st_target := 0; st_op := OSpecial "__exit__" 3 []; st_operands := [PExc unit ValueError; PExc unit ValueError; PImm unit tt] |}.
Lemma exit_told_type_error F : f_ctxexit_delivers F = false ->
  let tw := {| tw_heap := []; tw_slots := [0%nat] |} in
  let pw := {| pw_heap := []; pw_exported := [0%nat]; pw_slots := [0%nat] |} in
  option_map (fun x => tw_heap _ (snd x))
             (t_run unit (fun _ => true) (fun _ => false) (fun _ => tt) _ w_apply_log (fun _ => ["__exit__"]) (fun _ => TypeError) tw [w_step_exit])
    = Some [TClass (VExc unit ValueError)] /\
  option_map (fun x => pw_heap _ (snd x))
             (p_run unit (fun _ => true) (fun _ => false) (fun _ => tt) _ w_apply_log (fun _ => ["__exit__"]) (fun _ => TypeError) conf_classic F pw [w_step_exit])
    = Some [TTypeError].
Proof.
  destruct F as [a b d c]. cbn [f_ctxexit_delivers]. intros ->. cbv zeta. split; reflexivity.
Qed.

Definition w_step_exit_base : step unit :=
  {| st_target := 0; st_op := OSpecial "__exit__" 3 []; st_operands := [PExc unit OtherError; PExc unit OtherError; PImm unit tt] |}.
Lemma exit_skipped_for_base_exceptions F : f_ctxexit_delivers F = true -> f_ctxexit_base F = false ->
  let tw := {| tw_heap := []; tw_slots := [0%nat] |} in
  let pw := {| pw_heap := []; pw_exported := [0%nat]; pw_slots := [0%nat] |} in
  option_map (fun x => (fst x, tw_heap _ (snd x)))
             (t_run unit (fun _ => true) (fun _ => false) (fun _ => tt) _ w_apply_log (fun _ => ["__exit__"]) (fun _ => TypeError) tw [w_step_exit_base])
    = Some ([Ok (VImm unit tt)], [TClass (VExc unit OtherError)]) /\
  option_map (fun x => (fst x, pw_heap _ (snd x)))
             (p_run unit (fun _ => true) (fun _ => false) (fun _ => tt) _ w_apply_log (fun _ => ["__exit__"]) (fun _ => TypeError) conf_classic F pw [w_step_exit_base])
    = Some ([Raise OtherError], []).
Proof.
  destruct F as [a b d c]. cbn [f_ctxexit_delivers f_ctxexit_base]. intros -> ->. cbv zeta. split; reflexivity.
Qed.
Lemma exit_kept_for_base_exceptions F : f_ctxexit_delivers F = true -> f_ctxexit_base F = true ->
  step_ok unit (fun _ => true) conf_classic F w_step_exit_base = true.
Proof. destruct F as [a b d c]. cbn [f_ctxexit_delivers f_ctxexit_base]. intros -> ->. reflexivity. Qed.

(* a number-like target: values are numbers (None stands for NotImplemented); the object holds an integer, its own __add__
   declines anything but integers below 100, while the reflected method of a "float" (>= 100) accepts it: MyInt(3) + 5.0 *)
Definition w_apply_num (a : act (val (option nat))) (h : nat) (o : oid) : result (val (option nat)) * nat :=
  match a with
  | ACallAttr "__add__" [VImm _ (Some n)] [] => (Ok (VImm _ (if Nat.ltb n 100 then Some (h + n)%nat else None)), h)
  | ATypeCall "__eq__" (VImm _ (Some n)) => (Ok (VImm _ (if Nat.ltb n 100 then Some (if Nat.eqb h n then 1 else 0)%nat else None)), h)
  | AReflected "__radd__" (VImm _ (Some n)) => (Ok (VImm _ (Some (n + h)%nat)), h)
  | AReflected "__eq__" (VImm _ (Some n)) => (Ok (VImm _ (Some (if Nat.eqb (n - 100) h then 1 else 0)%nat)), h)
  | _ => (Raise TypeError, h)
  end.
Definition w_ni (v : option nat) : bool := match v with None => true | _ => false end.
Definition w_bool (b : bool) : option nat := Some (if b then 1 else 0)%nat.
Definition w_steps_num : list (step (option nat)) :=
  [ {| st_target := 0; st_op := OSpecial "__add__" 1 []; st_operands := [PImm _ (Some 5%nat)] |};       (* x + 5   : the target's own method *)
    {| st_target := 0; st_op := OSpecial "__add__" 1 []; st_operands := [PImm _ (Some 105%nat)] |};     (* x + 5.0 : declined, reflected *)
    {| st_target := 0; st_op := OSpecial "__eq__" 1 []; st_operands := [PImm _ (Some 103%nat)] |} ].    (* x == 3.0 *)
Lemma reflection_lost F : f_reflects F = false ->
  let tw := {| tw_heap := 3%nat; tw_slots := [0%nat] |} in
  let pw := {| pw_heap := 3%nat; pw_exported := [0%nat]; pw_slots := [0%nat] |} in
  forallb (step_ok (option nat) (fun _ => true) conf_classic F) w_steps_num = true /\
  option_map fst (t_run _ (fun _ => true) w_ni w_bool nat w_apply_num (fun _ => ["__add__"]) (fun _ => TypeError) tw w_steps_num)
    = Some [Ok (VImm _ (Some 8%nat)); Ok (VImm _ (Some 108%nat)); Ok (VImm _ (Some 1%nat))] /\
  option_map fst (p_run _ (fun _ => true) w_ni w_bool nat w_apply_num (fun _ => ["__add__"]) (fun _ => TypeError) conf_classic F pw w_steps_num)
    = Some [Ok (VImm _ (Some 8%nat)); Raise TypeError; Ok (VImm _ (Some 0%nat))].
Proof.
  destruct F as [a b d c]. cbn [f_reflects]. intros ->. cbv zeta. split; [reflexivity|]. split; reflexivity.
Qed.
Lemma reflection_kept F : f_reflects F = true ->
  let tw := {| tw_heap := 3%nat; tw_slots := [0%nat] |} in
  let pw := {| pw_heap := 3%nat; pw_exported := [0%nat]; pw_slots := [0%nat] |} in
  option_map fst (p_run _ (fun _ => true) w_ni w_bool nat w_apply_num (fun _ => ["__add__"]) (fun _ => TypeError) conf_classic F pw w_steps_num)
  = option_map fst (t_run _ (fun _ => true) w_ni w_bool nat w_apply_num (fun _ => ["__add__"]) (fun _ => TypeError) tw w_steps_num).
Proof.
  destruct F as [a b d c]. cbn [f_reflects]. intros ->. cbv zeta. reflexivity.
Qed.

(* ------------------------------------------------------------------ 3. buffered iteration *)
From Coq Require Import ZifyBool.
Ltac Zify.zify_post_hook ::= Z.to_euclidean_division_equations.

Section BuffP.
  Variable A : Type.
  Open Scope Z_scope.

  Lemma next_count_pos count factor maxc : 1 <= count -> 1 <= factor -> 1 <= maxc -> 1 <= next_count count factor maxc.
  Proof. unfold next_count. intros. apply Z.min_glb; nia. Qed.

  Lemma buff_loop_complete factor maxc : 1 <= factor -> 1 <= maxc ->
    forall fuel (xs : list A) count, 1 <= count -> (List.length xs < fuel)%nat ->
    exists cs, buff_loop A fuel count factor maxc xs = Ok (xs, [], cs) /\ schedule count factor maxc cs
               /\ Forall (fun c => 1 <= c) cs /\ (List.length cs <= S (List.length xs))%nat.
  Proof.
    intros Hf Hm. induction fuel as [|fuel IH]; intros xs count Hc Hlen; [lia|].
    cbn [buff_loop]. unfold islice. destruct (Z.ltb_spec count 0) as [Hneg|_]; [lia|]. cbn [bind fst snd].
    destruct (Z.to_nat count) as [|k] eqn:Ek; [lia|].
    destruct xs as [|a xs].
    - cbn. exists [count]. repeat split; auto.
    - cbn [firstn skipn]. cbn [List.length] in Hlen.
      assert (Hrest : (List.length (skipn k xs) < fuel)%nat).
      { pose proof (skipn_length k xs). lia. }
      destruct (IH (skipn k xs) (next_count count factor maxc) (next_count_pos _ _ _ Hc Hf Hm) Hrest) as (cs & E & Hs & Hp & Hl).
      rewrite E. cbn [bind fst snd]. exists (count :: cs).
      split; [now rewrite <- app_comm_cons, firstn_skipn|]. split; [cbn; auto|]. split; [constructor; auto|].
      cbn [List.length]. pose proof (skipn_length k xs). lia.
  Qed.

  (* all items, in order, nothing left in the target's iterator, counts chunk, min(chunk*factor, max), ... *)
  Theorem buffiter_exact chunk maxc factor (xs : list A) : 1 <= chunk -> 1 <= factor -> 1 <= maxc ->
    exists cs, buffiter A chunk maxc factor xs = Ok (xs, [], cs) /\ schedule chunk factor maxc cs
               /\ Forall (fun c => 1 <= c) cs /\ (List.length cs <= S (List.length xs))%nat.
  Proof.
    intros Hc Hf Hm. unfold buffiter. destruct (Z.ltb_spec factor 1); [lia|].
    apply buff_loop_complete; auto.
  Qed.
  Lemma buffiter_bad_factor chunk maxc factor (xs : list A) : factor < 1 -> buffiter A chunk maxc factor xs = Raise ValueError.
  Proof. intros H. unfold buffiter. destruct (Z.ltb_spec factor 1); [reflexivity|lia]. Qed.
  (* why chunk >= 1 is needed: with chunk = 0 the first batch is empty and nothing is yielded *)
  Lemma buffiter_zero_chunk maxc factor (xs : list A) : 1 <= factor -> buffiter A 0 maxc factor xs = Ok ([], xs, [0]).
  Proof. intros H. unfold buffiter. destruct (Z.ltb_spec factor 1); [lia|]. reflexivity. Qed.
End BuffP.


(* ------------------------------------------------------------------ 4. class queries *)

(* a class the caller cannot find by name: p.__class__ is an ordinary forwarded read of "__class__" -- which classic permits and the
   other two configurations refuse *)
Lemma class_query_unknown F A (f : nat -> A) truthy byval :
  exists rq sv, class_query_route false = CAAsk rq /\ serve_request F truthy byval (rqmap f rq) = Ok sv
    /\ sv_act sv = direct truthy f (OGetAttr "__class__") /\ sv_checks sv = [(PGet, "__class__")]
    /\ permitted conf_classic (sv_checks sv) = true /\ permitted conf_public (sv_checks sv) = false
    /\ permitted conf_default (sv_checks sv) = false.
Proof. do 2 eexists. split; [reflexivity|]. split; [reflexivity|]. repeat split; reflexivity. Qed.

Section ClassByName.
  Variable cls : Type.
  Variable name_of : cls -> string.             (* module-qualified name *)
  Variable callers : string -> option cls.      (* what the caller finds under a name (sys.modules) *)
  Hypothesis callers_by_name : forall n c, callers n = Some c -> name_of c = n.
  (* the answer of a class query for a target of class t, when the caller has a class of that name *)
  Definition class_query_by_name (t : cls) : option cls := callers (name_of t).
  (* right whenever a name means one class on both sides *)
  Lemma class_query_right : (forall c c', name_of c = name_of c' -> c = c') ->
    forall t c, class_query_by_name t = Some c -> c = t.
  Proof. intros Hinj t c H. apply Hinj. now apply callers_by_name in H. Qed.
End ClassByName.
(* and wrong as soon as two classes share a name (a class factory, type(name, ...), a re-definition, another version of a module) *)
Lemma class_query_wrong_for_namesakes :
  exists (name_of : bool -> string) (callers : string -> option bool),
    (forall n c, callers n = Some c -> name_of c = n) /\ class_query_by_name bool name_of callers true = Some false.
Proof. exists (fun _ => "m.C"), (fun n => if String.eqb n "m.C" then Some false else None). split; [|reflexivity].
  intros n c. destruct (String.eqb n "m.C") eqn:E; [|discriminate]. apply String.eqb_eq in E. now subst. Qed.

(* isinstance(other, p) *)
Lemma instancecheck_cases asks resolved :
  (* p is not the proxy of a class: TypeError, as for any non-class second argument *)
  (forall a b c, instancecheck_route asks resolved a false b c = ICRaiseTypeError)
  (* other is a proxy of an instance of exactly p's class / of the class itself *)
  /\ instancecheck_route asks resolved true true true false = ICTrue
  /\ instancecheck_route asks resolved true true true true = ICFalse
  (* other is a proxy of something of another class: the owner is asked (HANDLE_INSTANCECHECK; its handler is not modelled) *)
  /\ (forall c, instancecheck_route asks resolved true true false c = ICSync "HANDLE_INSTANCECHECK")
  (* other is the caller's own: checked against the caller's class of that name, if there is one *)
  /\ (forall b c, instancecheck_route asks true false true b c = ICLocalIsinstance).
Proof. repeat split; intros; try reflexivity. destruct a; reflexivity. Qed.
(* the caller has no class of that name: on the pinned tree the check dies with AttributeError instead of answering; on a tree
   that asks the owner it is the forwarded call type(C).__instancecheck__(C, other) *)
Lemma instancecheck_unknown_class_refuted : forall b c, instancecheck_route false false false true b c = ICAttributeError.
Proof. reflexivity. Qed.
Lemma instancecheck_unknown_class_asks F A (f : nat -> A) truthy byval b c :
  instancecheck_route true false false true b c = ICSync "HANDLE_CALLATTR"
  /\ exists sv, serve_request F truthy byval (rqmap f {| rq_handler := "HANDLE_CALLATTR"; rq_args := [WStr "__instancecheck__"; WTuple [0%nat]; WKw []] |}) = Ok sv
       /\ sv_act sv = ACallAttr "__instancecheck__" [f 0%nat] [] /\ sv_checks sv = [(PGet, "__instancecheck__")].
Proof. split; [reflexivity|]. eexists. split; [reflexivity|]. split; reflexivity. Qed.
