(* C19 proofs: generated tables = published tables; the ladders pick the shortest admissible form;
   every admissible form is accepted by the decoder and means the same. *)
From V Require Import lib.Base lib.Sx lib.Decimal lib.Utf8 model.Ladder model.Brine model.Channel model.Published
  proofs.BrineP gen.Gen_brine gen.Gen_consts gen.Gen_channel gen.Gen_protocol.
From Coq Require Import ZifyBool.
Open Scope N_scope.

Lemma tables_eq :
  Gen_brine.all_tags = pub_tags /\ Gen_brine.imm_lo = pub_imm_lo /\ Gen_brine.imm_hi = pub_imm_hi /\ Gen_brine.imm_off = pub_imm_off
  /\ Gen_brine.bytes_ladder = pub_str_ladder /\ Gen_brine.tuple_ladder = pub_tup_ladder /\ Gen_brine.int_ladder = pub_int_ladder
  /\ Gen_brine.struct_formats = pub_structs.
Proof. repeat split. Qed.

Lemma frame_params_eq :
  Gen_channel.COMPRESSION_THRESHOLD = pub_threshold /\ Gen_channel.COMPRESSION_LEVEL = pub_level
  /\ Gen_channel.FRAME_HEADER_format = pub_header_format /\ Gen_channel.FRAME_HEADER_size = pub_header_size
  /\ Gen_channel.FLUSHER = pub_flusher /\ Gen_channel.compress_when_len = pub_compress_when.
Proof. repeat split. Qed.

(* every published number is present with its value; nothing on the wire is renumbered *)
Lemma consts_eq : forall k v, In (k, v) pub_consts -> In (k, v) Gen_consts.all_consts.
Proof.
  intros k v H. unfold pub_consts in H. cbn [In] in H.
  repeat (destruct H as [H|H]; [injection H as <- <-; vm_compute; tauto|]). contradiction.
Qed.
Lemma handlers_eq : Gen_protocol.handler_table = pub_handlers.
Proof. reflexivity. Qed.
Lemma message_layout : Gen_protocol.send_packs_msg_seq_args = true /\ Gen_protocol.dispatch_unpacks_msg_seq_args = true
  /\ Gen_protocol.request_args_are_handler_boxed = true /\ Gen_protocol.request_unpacks_handler_args = true.
Proof. repeat split. Qed.

(* model ladders are the published ones (so C04's theorems are about the published format) *)
Lemma model_ladders_published : Brine.str_ladder = pub_str_ladder /\ Brine.tup_ladder = pub_tup_ladder /\ Brine.int_ladder = pub_int_ladder.
Proof. repeat split. Qed.

(* ---- shortest form ---- *)
(* The statement is about the three published ladders, so we prove it for them by direct case analysis on n. *)
Definition shortest_for (l : ladder) : Prop :=
  forall n h, n < 4294967296 -> ladder_hdr l n = Ok h ->
  forall e, In e l -> entry_admits e n = true -> nlen h <= entry_hdr_len e.

Ltac ladder_split n :=
  destruct (N.eqb_spec n 0); [subst|destruct (N.eqb_spec n 1); [subst|destruct (N.eqb_spec n 2); [subst|
  destruct (N.eqb_spec n 3); [subst|destruct (N.eqb_spec n 4); [subst|destruct (N.ltb_spec n 256)]]]]].

Lemma shortest_str : shortest_for pub_str_ladder.
Proof.
  intros n h Hn Hh e He Ha. unfold pub_str_ladder in *. cbn [In] in He.
  unfold ladder_hdr, lcmp_holds, lfield_bytes, pack_I1, pack_I4 in Hh.
  ladder_split n; try (destruct (N.ltb_spec n 4294967296); [|lia]); cbn [bind] in Hh; injection Hh as <-;
  repeat (destruct He as [<-|He]; [cbn in *; try discriminate; try lia|]); try contradiction;
  unfold nlen; cbn; try lia.
Qed.
Lemma shortest_tup : shortest_for pub_tup_ladder.
Proof.
  intros n h Hn Hh e He Ha. unfold pub_tup_ladder in *. cbn [In] in He.
  unfold ladder_hdr, lcmp_holds, lfield_bytes, pack_I1, pack_I4 in Hh.
  ladder_split n; try (destruct (N.ltb_spec n 4294967296); [|lia]); cbn [bind] in Hh; injection Hh as <-;
  repeat (destruct He as [<-|He]; [cbn in *; try discriminate; try lia|]); try contradiction;
  unfold nlen; cbn; try lia.
Qed.
Lemma shortest_int : shortest_for pub_int_ladder.
Proof.
  intros n h Hn Hh e He Ha. unfold pub_int_ladder in *. cbn [In] in He.
  unfold ladder_hdr, lcmp_holds, lfield_bytes, pack_I1, pack_I4 in Hh.
  destruct (N.ltb_spec n 256); try (destruct (N.ltb_spec n 4294967296); [|lia]); cbn [bind] in Hh; injection Hh as <-;
  repeat (destruct He as [<-|He]; [cbn in *; try discriminate; try lia|]); try contradiction;
  unfold nlen; cbn; try lia.
Qed.
(* integers: the one-byte immediate is used whenever the format has one *)
Lemma imm_used P z : is_imm z = true -> exists b, dump_int P z = Ok [b].
Proof. intros H. unfold dump_int. rewrite H. eauto. Qed.

(* ---- every admissible form is accepted and means the same (an independent encoder may pick any of them) ---- *)
Lemma accept_str_L1 P rec (b rest : list byte) : nlen b < 256 ->
  load_body P rec (x0e :: b_of (nlen b) :: b ++ rest) = Ok (PBytes b, rest).
Proof. intros H. cbn. rewrite to_b_of by exact H. unfold bytes_of. now rewrite take_upto_app. Qed.
Lemma accept_str_L4 P rec (b rest : list byte) : nlen b < 4294967296 ->
  load_body P rec (x0f :: be4 (nlen b) ++ b ++ rest) = Ok (PBytes b, rest).
Proof. intros H. cbn. rewrite un4_be4 by exact H. unfold bytes_of. now rewrite take_upto_app. Qed.
Lemma accept_int_L4 P rec z t (rest : list byte) : render (maxdigits P) z = Ok t -> nlen t < 4294967296 ->
  load_body P rec (x17 :: be4 (nlen t) ++ t ++ rest) = Ok (PInt z, rest).
Proof.
  intros Hr H. cbn. rewrite un4_be4 by exact H. unfold int_of. rewrite take_upto_app.
  now rewrite (proofs.DecimalP.parse_render _ _ _ Hr).
Qed.
Lemma accept_tup_L1 P f l : nlen l < 256 -> nlen l <> 0 -> Forall (rt_at P f) l ->
  exists body, dump_items P l = Ok body /\ forall rest, load_f P (S f) (x14 :: b_of (nlen l) :: body ++ rest) = Ok (PTuple l, rest).
Proof.
  intros H H0 HF. destruct (items_ok P f l HF) as (body & Eb & Lb & Hb). exists body. split; [exact Eb|].
  intros rest. cbn. rewrite to_b_of by exact H. unfold tup_of. rewrite Hb by (rewrite app_length; lia). reflexivity.
Qed.
Lemma accept_tup_L4 P f l : nlen l < 4294967296 -> Forall (rt_at P f) l ->
  exists body, dump_items P l = Ok body /\ forall rest, load_f P (S f) (x15 :: be4 (nlen l) ++ body ++ rest) = Ok (PTuple l, rest).
Proof.
  intros H HF. destruct (items_ok P f l HF) as (body & Eb & Lb & Hb). exists body. split; [exact Eb|].
  intros rest. cbn. rewrite un4_be4 by exact H. unfold tup_of. rewrite Hb by (rewrite app_length; lia). reflexivity.
Qed.
