(* Proofs for C20 (model/Files.v): the chunk loop copies every file exactly, the tree copy is [prune]. *)
From V Require Import lib.Base lib.Sx model.Files.
From Coq Require Import ZifyBool.
Ltac Zify.zify_post_hook ::= Z.to_euclidean_division_equations.
Open Scope N_scope.

(* ================================================================== 1. one file *)

Lemma nlen_nil {A} : nlen (@nil A) = 0.
Proof. reflexivity. Qed.
Lemma nlen_cons {A} (x : A) l : nlen (x :: l) = nlen l + 1.
Proof. unfold nlen. cbn [length]. lia. Qed.
Lemma nlen_app {A} (a b : list A) : nlen (a ++ b) = nlen a + nlen b.
Proof. unfold nlen. rewrite app_length. lia. Qed.
Lemma nlen_zero {A} (l : list A) : nlen l = 0 -> l = [].
Proof. destruct l; [easy|]. rewrite nlen_cons. lia. Qed.

(* file.read(chunk) for chunk >= 1 *)
Lemma take_upto_spec chunk (src : list byte) : 1 <= chunk ->
  forall b rest, take_upto chunk src = (b, rest) ->
    b ++ rest = src /\ nlen b <= chunk /\
    (src = [] -> b = []) /\ (src <> [] -> b <> []) /\ (rest <> [] -> nlen b = chunk).
Proof.
  intros Hc b rest. unfold take_upto. destruct (N.leb_spec (nlen src) chunk) as [H|H]; intros [= <- <-].
  - rewrite app_nil_r. repeat split; auto; try easy.
  - rewrite firstn_skipn. assert (L : nlen (firstn (N.to_nat chunk) src) = chunk).
    { unfold nlen in *. rewrite firstn_length. lia. }
    repeat split; auto; try lia.
    + intros ->. now rewrite firstn_nil.
    + intros _ E. rewrite E in L. rewrite nlen_nil in L. lia.
Qed.

Lemma take_upto_nil chunk : take_upto chunk (@nil byte) = ([], []).
Proof. unfold take_upto. destruct (nlen [] <=? chunk); [reflexivity|]. now rewrite firstn_nil, skipn_nil. Qed.

Definition ceil_div (n c : N) : N := (n + c - 1) / c.

Lemma ceil_div_0 c : 1 <= c -> ceil_div 0 c = 0.
Proof. intros. unfold ceil_div. apply N.div_small. lia. Qed.
Lemma ceil_div_small n c : 1 <= n -> n <= c -> ceil_div n c = 1.
Proof.
  intros. unfold ceil_div. replace (n + c - 1) with ((n - 1) + 1 * c) by lia.
  rewrite N.div_add by lia. rewrite N.div_small by lia. reflexivity.
Qed.
Lemma ceil_div_step n c : 1 <= c -> ceil_div (c + n) c = ceil_div n c + 1.
Proof.
  intros. unfold ceil_div. replace (c + n + c - 1) with ((n + c - 1) + 1 * c) by lia.
  now rewrite N.div_add by lia.
Qed.

(* what the standard loop writes: *)
Record good_writes (chunk : N) (data : list byte) (ws : list (list byte)) : Prop := {
  gw_concat : concat ws = data;                                        (* the bytes, in order *)
  gw_count : nlen ws = ceil_div (nlen data) chunk;                     (* ceil(len/chunk) write calls *)
  gw_each : Forall (fun w => w <> [] /\ nlen w <= chunk) ws;           (* never an empty write, never more than a chunk *)
  gw_full : Forall (fun w => nlen w = chunk) (removelast ws) }.        (* all but the last are full chunks *)

Lemma run_loop_S f chunk body s :
  run_loop (S f) chunk body s = match run_body chunk body s with Break s' => Ok s' | Continue s' => run_loop f chunk body s' end.
Proof. reflexivity. Qed.

Lemma run_body_std chunk s :
  run_body chunk std_body s =
  match take_upto chunk (ls_src s) with
  | ([], rest) => Break {| ls_src := rest; ls_buf := []; ls_out := ls_out s; ls_reads := 0 :: ls_reads s |}
  | (b, rest) => Continue {| ls_src := rest; ls_buf := b; ls_out := b :: ls_out s; ls_reads := nlen b :: ls_reads s |}
  end.
Proof. unfold std_body. cbn [run_body]. destruct (take_upto chunk (ls_src s)) as [[|b0 b] rest]; reflexivity. Qed.

Lemma std_loop_spec chunk : 1 <= chunk -> forall n src, (length src <= n)%nat -> forall buf out reads,
  exists ws, run_loop (S n) chunk std_body {| ls_src := src; ls_buf := buf; ls_out := out; ls_reads := reads |}
             = Ok {| ls_src := []; ls_buf := []; ls_out := rev ws ++ out; ls_reads := 0 :: rev (map nlen ws) ++ reads |}
             /\ good_writes chunk src ws.
Proof.
  intros Hc. induction n as [|n IH]; intros src Hn buf out reads.
  - destruct src; [|cbn in Hn; lia]. exists [].
    split; [rewrite run_loop_S, run_body_std; cbn [ls_src]; now rewrite take_upto_nil|].
    split; cbn [concat removelast]; auto. now rewrite ceil_div_0.
  - rewrite run_loop_S, run_body_std. cbn [ls_src ls_buf ls_out ls_reads].
    destruct (take_upto chunk src) as [b rest] eqn:E.
    destruct (take_upto_spec chunk src Hc b rest E) as (Happ & Hle & Hnil & Hne & Hfull).
    destruct b as [|b0 b'].
    + (* read returned nothing: the source is exhausted *)
      assert (src = []) as -> by (destruct src; [easy|]; exfalso; now apply Hne).
      cbn in Happ. subst rest. exists []. split; [reflexivity|].
      split; cbn [concat removelast]; auto. now rewrite ceil_div_0.
    + assert (Hlen : (length rest <= n)%nat).
      { rewrite <- Happ in Hn. rewrite app_length in Hn. cbn in Hn. lia. }
      destruct (IH rest Hlen (b0 :: b') ((b0 :: b') :: out) (nlen (b0 :: b') :: reads)) as (ws & Hrun & G).
      exists ((b0 :: b') :: ws). split.
      * rewrite Hrun. f_equal. cbn [rev map]. rewrite <- !app_assoc. reflexivity.
      * destruct G as [Gc Gn Ge Gf]. split.
        -- cbn [concat]. now rewrite Gc.
        -- rewrite nlen_cons, Gn. rewrite <- Happ, nlen_app.
           destruct rest as [|r0 rest'].
           ++ rewrite nlen_nil, N.add_0_r, ceil_div_0 by exact Hc.
              rewrite ceil_div_small; [reflexivity| rewrite nlen_cons; lia | exact Hle].
           ++ rewrite Hfull by easy. now rewrite ceil_div_step.
        -- constructor; [split; [easy|exact Hle]|exact Ge].
        -- destruct ws as [|w ws']; [constructor|].
           change (removelast ((b0 :: b') :: w :: ws')) with ((b0 :: b') :: removelast (w :: ws')).
           constructor; [|exact Gf]. apply Hfull. intros ->. cbn in Gc.
           inversion Ge as [|? ? [Hw _] _]; subst. destruct w; [easy|discriminate].
Qed.

Theorem copy_file_trace_good chunk data : 1 <= chunk ->
  exists ws, copy_file_trace std_body chunk data = Ok (ws, map nlen ws ++ [0]) /\ good_writes chunk data ws.
Proof.
  intros Hc. destruct (std_loop_spec chunk Hc (length data) data (le_n _) [] [] []) as (ws & Hrun & G).
  exists ws. split; [|exact G]. unfold copy_file_trace. rewrite Hrun. cbn [bind ls_out ls_reads].
  rewrite !app_nil_r, rev_involutive. f_equal. f_equal.
  change (0 :: rev (map nlen ws)) with ([0] ++ rev (map nlen ws))%list. rewrite rev_app_distr, rev_involutive. reflexivity.
Qed.

Theorem copy_file_id chunk data : 1 <= chunk -> copy_file chunk data = Ok data.
Proof.
  intros Hc. destruct (copy_file_trace_good chunk data Hc) as (ws & E & G).
  unfold copy_file, copy_file_with. rewrite E. cbn [bind fst]. now rewrite (gw_concat _ _ _ G).
Qed.

(* ================================================================== 2. names and directory entries *)

Lemma bytes_eqb_eq a b : bytes_eqb a b = true <-> a = b.
Proof.
  revert b. induction a as [|x a IH]; destruct b as [|y b]; cbn; try easy.
  rewrite andb_true_iff, IH. split.
  - intros [H ->]. now rewrite (Byte.byte_dec_bl _ _ H).
  - intros [= -> ->]. split; [now apply Byte.byte_dec_lb|reflexivity].
Qed.
Lemma bytes_eqb_refl a : bytes_eqb a a = true.
Proof. now apply bytes_eqb_eq. Qed.
Lemma bytes_eqb_neq a b : bytes_eqb a b = false <-> a <> b.
Proof. rewrite <- bytes_eqb_eq. destruct (bytes_eqb a b); easy. Qed.

Lemma mem_name_In k l : mem_name k l = true <-> In k l.
Proof.
  induction l as [|x l IH]; cbn; [easy|]. rewrite orb_true_iff, IH, bytes_eqb_eq. split; intros [H|H]; auto.
Qed.
Lemma nodup_names_NoDup l : nodup_names l = true <-> NoDup l.
Proof.
  induction l as [|x l IH]; cbn.
  - split; [constructor|reflexivity].
  - rewrite andb_true_iff, negb_true_iff, IH. split.
    + intros [H1 H2]. constructor; [|exact H2]. rewrite <- mem_name_In. now rewrite H1.
    + intros H. inversion H as [|? ? H1 H2]; subst. split; [|exact H2].
      rewrite <- mem_name_In in H1. now destruct (mem_name x l).
Qed.

Lemma wf_dir es : wf_tree (Dir es) = true <->
  NoDup (map fst es) /\ Forall (fun e => wf_tree (snd e) = true) es.
Proof.
  cbn [wf_tree]. rewrite andb_true_iff, nodup_names_NoDup.
  assert (E : forall es, (fix all (es : list (name * node)) : bool :=
                  match es with [] => true | (_, c) :: r => wf_tree c && all r end) es = true
              <-> Forall (fun e => wf_tree (snd e) = true) es).
  { clear. induction es as [|[k c] r IH].
    - split; [constructor|reflexivity].
    - rewrite andb_true_iff, IH. split.
      + intros [H1 H2]. now constructor.
      + intros H. inversion H; subst. now split. }
  now rewrite E.
Qed.

Lemma lookup_entry_None k es : ~ In k (map fst es) -> lookup_entry k es = None.
Proof.
  induction es as [|[k' v] r IH]; cbn; [easy|]. intros H.
  destruct (bytes_eqb k k') eqn:E.
  - apply bytes_eqb_eq in E. subst. exfalso. now apply H; left.
  - apply IH. intros H'. apply H. now right.
Qed.
Lemma lookup_entry_In k es c : lookup_entry k es = Some c -> In (k, c) es.
Proof.
  induction es as [|[k' v] r IH]; cbn; [easy|]. destruct (bytes_eqb k k') eqn:E.
  - apply bytes_eqb_eq in E. subst. intros [= ->]. now left.
  - intros H. right. now apply IH.
Qed.

Lemma lookup_set_entry k k' v es :
  lookup_entry k (set_entry k' v es) = if bytes_eqb k k' then Some v else lookup_entry k es.
Proof.
  induction es as [|[k0 v0] r IH]; cbn.
  - destruct (bytes_eqb k k'); reflexivity.
  - destruct (bytes_eqb k' k0) eqn:E0; cbn.
    + apply bytes_eqb_eq in E0. subst k0. destruct (bytes_eqb k k'); reflexivity.
    + destruct (bytes_eqb k k0) eqn:E1.
      * apply bytes_eqb_eq in E1. subst k0. destruct (bytes_eqb k k') eqn:E2; [|reflexivity].
        apply bytes_eqb_eq in E2. subst k'. now rewrite bytes_eqb_refl in E0.
      * exact IH.
Qed.

Lemma set_entry_fresh k v es : lookup_entry k es = None -> set_entry k v es = es ++ [(k, v)].
Proof.
  induction es as [|[k0 v0] r IH]; cbn; [reflexivity|].
  destruct (bytes_eqb k k0); [discriminate|]. intros H. now rewrite IH.
Qed.

(* a stronger induction principle for the nested type *)
Section NodeInd.
  Variable P : node -> Prop.
  Hypothesis HF : forall d, P (File d).
  Hypothesis HS : P Special.
  Hypothesis HD : forall es, Forall (fun e => P (snd e)) es -> P (Dir es).
  Fixpoint node_ind' (n : node) : P n :=
    match n with
    | File d => HF d
    | Special => HS
    | Dir es => HD es ((fix go (es : list (name * node)) : Forall (fun e => P (snd e)) es :=
                          match es with
                          | [] => Forall_nil _
                          | e :: r => Forall_cons e (node_ind' (snd e)) (go r)
                          end) es)
    end.
End NodeInd.

(* ================================================================== 3. copying into an empty destination = prune *)
Section Tree.
  Variable f : name -> bool.
  Variable chunk : N.
  Hypothesis Hc : 1 <= chunk.

  Notation cnode := (copy_node std_body f chunk).

  (* what is at the destination path after copying [c] to a path where nothing was *)
  Definition pruned_o (c : node) : option node := match c with Special => None | _ => Some (prune f c) end.

  Lemma copy_entries_fresh es :
    Forall (fun e => wf_tree (snd e) = true -> cnode true (snd e) None = Ok (pruned_o (snd e))) es ->
    Forall (fun e => wf_tree (snd e) = true) es ->
    NoDup (map fst es) -> forall des, (forall k, In k (map fst es) -> lookup_entry k des = None) ->
    copy_entries f (cnode true) es des = Ok (des ++ prune_entries (prune f) f es).
  Proof.
    induction es as [|[k c] r IH]; intros HI HW HN des Hfresh.
    - cbn. now rewrite app_nil_r.
    - inversion HI as [|? ? HI1 HI2]; subst. inversion HW as [|? ? HW1 HW2]; subst.
      cbn [map fst] in HN. inversion HN as [|? ? HN1 HN2]; subst.
      cbn [copy_entries prune_entries]. cbn [snd] in HI1, HW1. destruct (f k) eqn:Fk.
      + rewrite (Hfresh k) by now left. rewrite (HI1 HW1). cbn [bind].
        assert (Hd : lookup_entry k des = None) by (apply Hfresh; now left).
        destruct c as [d|es'|]; cbn [pruned_o put].
        * rewrite set_entry_fresh by exact Hd. rewrite (IH HI2 HW2 HN2).
          -- now rewrite <- app_assoc.
          -- intros k' Hk'. rewrite <- set_entry_fresh by exact Hd. rewrite lookup_set_entry.
             destruct (bytes_eqb k' k) eqn:E; [|apply Hfresh; now right].
             apply bytes_eqb_eq in E. subst k'. contradiction.
        * rewrite set_entry_fresh by exact Hd. rewrite (IH HI2 HW2 HN2).
          -- now rewrite <- app_assoc.
          -- intros k' Hk'. rewrite <- set_entry_fresh by exact Hd. rewrite lookup_set_entry.
             destruct (bytes_eqb k' k) eqn:E; [|apply Hfresh; now right].
             apply bytes_eqb_eq in E. subst k'. contradiction.
        * apply (IH HI2 HW2 HN2). intros k' Hk'. apply Hfresh. now right.
      + apply (IH HI2 HW2 HN2). intros k' Hk'. apply Hfresh. now right.
  Qed.

  Lemma copy_node_fresh src : wf_tree src = true ->
    cnode true src None = Ok (pruned_o src).
  Proof.
    induction src as [d| |es IH] using node_ind'; intros HW.
    - cbn [copy_node]. fold (copy_file chunk d). now rewrite copy_file_id.
    - reflexivity.
    - apply wf_dir in HW. destruct HW as [HN HW].
      cbn [copy_node bind]. rewrite (copy_entries_fresh es IH HW HN []) by reflexivity.
      reflexivity.
  Qed.

  (* the top-level call (ignore_invalid as given) *)
  Lemma copy_node_fresh_top ign src : wf_tree src = true -> src <> Special ->
    cnode ign src None = Ok (Some (prune f src)).
  Proof.
    intros HW HS. destruct src as [d|es|]; [| |contradiction].
    - cbn [copy_node]. fold (copy_file chunk d). now rewrite copy_file_id.
    - pose proof (copy_node_fresh (Dir es) HW) as H. cbn [copy_node] in *. exact H.
  Qed.
End Tree.

(* ================================================================== 4. copying into an existing destination *)
Section Existing.
  Variable f : name -> bool.
  Variable chunk : N.
  Hypothesis Hc : 1 <= chunk.

  Notation cnode := (copy_node std_body f chunk).

  (* the call leaves "nothing" at the destination only when nothing was there *)
  Lemma copy_node_None ign src dst : cnode ign src dst = Ok None -> dst = None.
  Proof.
    destruct src as [d|es|]; cbn [copy_node].
    - destruct dst as [[| |]|]; try discriminate; try reflexivity.
      destruct (copy_file_with std_body chunk d); discriminate.
    - destruct dst as [[| |]|]; cbn [bind]; try discriminate;
        match goal with |- context [copy_entries ?a ?b ?c ?d] => destruct (copy_entries a b c d) end; discriminate.
    - destruct ign; [now intros [= ->]|discriminate].
  Qed.

  (* the for loop: each accepted listed name gets the outcome of its recursive call, every other name is untouched *)
  Lemma copy_entries_lookup rec (Hn : forall c d, rec c d = Ok None -> d = None) :
    forall es des des', NoDup (map fst es) -> copy_entries f rec es des = Ok des' ->
    forall k, match (if f k then lookup_entry k es else None) with
              | Some c => exists d', rec c (lookup_entry k des) = Ok d' /\ lookup_entry k des' = d'
              | None => lookup_entry k des' = lookup_entry k des
              end.
  Proof.
    induction es as [|[k0 c0] r IH]; intros des des' HN Hrun k.
    - cbn in Hrun. injection Hrun as <-. cbn. destruct (f k); reflexivity.
    - cbn [map fst] in HN. inversion HN as [|? ? HN1 HN2]; subst.
      cbn [copy_entries] in Hrun. cbn [lookup_entry].
      destruct (f k0) eqn:F0.
      + destruct (rec c0 (lookup_entry k0 des)) as [d0| | |] eqn:R0; cbn [bind] in Hrun; try discriminate.
        specialize (IH _ _ HN2 Hrun k).
        assert (Hput : forall k1, lookup_entry k1 (put k0 d0 des) =
                                  if bytes_eqb k1 k0 then d0 else lookup_entry k1 des).
        { intros k1. destruct d0 as [v|]; cbn [put].
          - apply lookup_set_entry.
          - destruct (bytes_eqb k1 k0) eqn:E; [|reflexivity]. apply bytes_eqb_eq in E. subst k1.
            apply (Hn _ _ R0). }
        destruct (bytes_eqb k k0) eqn:E.
        * apply bytes_eqb_eq in E. subst k0. rewrite F0.
          rewrite F0, (lookup_entry_None k r HN1) in IH.
          exists d0. split; [exact R0|]. rewrite IH, Hput. now rewrite bytes_eqb_refl.
        * rewrite Hput, E in IH. exact IH.
      + specialize (IH _ _ HN2 Hrun k). destruct (bytes_eqb k k0) eqn:E; [|exact IH].
        apply bytes_eqb_eq in E. subst k0. rewrite F0. rewrite F0 in IH. exact IH.
  Qed.

  (* the filter seen through one directory level *)
  Lemma lookup_prune_entries es k : NoDup (map fst es) ->
    lookup_entry k (prune_entries (prune f) f es) =
    if f k then match lookup_entry k es with Some Special => None | Some c => Some (prune f c) | None => None end
    else None.
  Proof.
    induction es as [|[k0 c0] r IH]; intros HN.
    - cbn. destruct (f k); reflexivity.
    - cbn [map fst] in HN. inversion HN as [|? ? HN1 HN2]; subst. specialize (IH HN2).
      cbn [prune_entries lookup_entry]. destruct (bytes_eqb k k0) eqn:E.
      + apply bytes_eqb_eq in E. subst k0. destruct (f k) eqn:Fk.
        * destruct c0; cbn [lookup_entry]; rewrite ?bytes_eqb_refl; try reflexivity.
          rewrite IH, (lookup_entry_None k r HN1). reflexivity.
        * rewrite IH. reflexivity.
      + destruct (f k0) eqn:F0; [|exact IH].
        destruct c0; cbn [lookup_entry]; rewrite ?E; exact IH.
  Qed.

  (* [r] is [dst] overlaid with the tree [src']: files of src' are there with their bytes, directories of src' are
     directories, every path src' does not have is exactly as it was *)
  Definition overlays (src' : node) (dst r : option node) : Prop :=
    forall p, match lookup p src' with
              | Some (File d) => lookup_o p r = Some (File d)
              | Some (Dir _) => dir_at p r = true
              | _ => lookup_o p r = lookup_o p dst
              end.

  Lemma lookup_o_cons k q es : lookup_o (k :: q) (Some (Dir es)) = lookup_o q (lookup_entry k es).
  Proof. cbn. destruct (lookup_entry k es); reflexivity. Qed.

  Lemma copy_node_overlays src : wf_tree src = true -> forall ign dst r,
    cnode ign src dst = Ok r -> overlays (prune f src) dst r.
  Proof.
    induction src as [d| |es IH] using node_ind'; intros HW ign dst r Hrun p.
    - (* file *)
      cbn [copy_node] in Hrun. fold (copy_file chunk d) in Hrun. rewrite copy_file_id in Hrun by exact Hc.
      cbn [prune]. destruct p as [|k q].
      + cbn [lookup]. destruct dst as [[| |]|]; cbn [bind] in Hrun; try discriminate; now injection Hrun as <-.
      + cbn [lookup]. destruct dst as [[| |]|]; cbn [bind] in Hrun; try discriminate; now injection Hrun as <-.
    - (* neither file nor directory *)
      cbn [copy_node] in Hrun. destruct ign; [|discriminate]. injection Hrun as <-.
      cbn [prune]. destruct p; reflexivity.
    - (* directory *)
      apply wf_dir in HW. destruct HW as [HN HW].
      cbn [copy_node] in Hrun.
      set (des0 := match dst with Some (Dir des) => des | _ => [] end).
      assert (Hd : lookup_o p dst = lookup_o p (Some (Dir des0)) \/ p = []).
      { destruct p; [now right|left]. destruct dst as [[| |]|]; try reflexivity. }
      assert (Hrun' : exists des', copy_entries f (cnode true) es des0 = Ok des' /\ r = Some (Dir des')).
      { destruct dst as [[| |]|]; cbn [bind] in Hrun; try discriminate; subst des0;
          match type of Hrun with context [copy_entries ?a ?b ?c ?d] => destruct (copy_entries a b c d) as [des'| | |] end;
          cbn [bind] in Hrun; try discriminate; injection Hrun as <-; now exists des'. }
      destruct Hrun' as (des' & Hent & ->). clear Hrun.
      cbn [prune]. destruct p as [|k q]; [reflexivity|].
      destruct Hd as [Hd|]; [|discriminate]. rewrite Hd. unfold dir_at. rewrite !lookup_o_cons.
      cbn [lookup]. rewrite (lookup_prune_entries es k HN).
      pose proof (copy_entries_lookup (cnode true) (copy_node_None true) es des0 des' HN Hent k) as L.
      destruct (f k); [|now rewrite L].
      destruct (lookup_entry k es) as [c|] eqn:Ek; [|now rewrite L].
      destruct L as (d' & Hrec & ->).
      apply lookup_entry_In in Ek.
      rewrite Forall_forall in IH, HW. specialize (IH _ Ek). specialize (HW _ Ek). cbn [snd] in IH, HW.
      specialize (IH HW true _ _ Hrec q).
      destruct c as [d|es'|].
      + exact IH.
      + exact IH.
      + cbn [copy_node] in Hrec. now injection Hrec as <-.
  Qed.
End Existing.

(* ================================================================== 5. the filter excludes exactly what it rejects *)
Lemma lookup_prune f : forall p t n, wf_tree t = true -> p <> [] ->
  (lookup p (prune f t) = Some n <->
   exists n0, lookup p t = Some n0 /\ n0 <> Special /\ forallb f p = true /\ n = prune f n0).
Proof.
  induction p as [|k q IH]; intros t n HW Hp; [contradiction|].
  destruct t as [d|es|].
  - cbn. split; [discriminate|]. now intros (n0 & H & _).
  - apply wf_dir in HW. destruct HW as [HN HW]. cbn [prune lookup forallb].
    rewrite (lookup_prune_entries f es k HN).
    destruct (f k) eqn:Fk.
    2:{ split; [discriminate|]. intros (n0 & _ & _ & H & _). discriminate. }
    destruct (lookup_entry k es) as [c|] eqn:Ek.
    2:{ split; [discriminate|]. now intros (n0 & H & _). }
    assert (HWc : wf_tree c = true).
    { rewrite Forall_forall in HW. exact (HW _ (lookup_entry_In _ _ _ Ek)). }
    cbn [andb]. destruct q as [|k1 q1].
    + cbn [lookup forallb]. destruct c as [d|es'|].
      * split; [intros [= <-]; exists (File d); now repeat split|]. intros (n0 & [= <-] & _ & _ & ->). reflexivity.
      * split; [intros [= <-]; exists (Dir es'); now repeat split|]. intros (n0 & [= <-] & _ & _ & ->). reflexivity.
      * split; [discriminate|]. intros (n0 & [= <-] & H & _). contradiction.
    + destruct c as [d|es'|].
      * cbn. split; [discriminate|]. now intros (n0 & H & _).
      * apply IH; [exact HWc|discriminate].
      * cbn. split; [discriminate|]. now intros (n0 & H & _).
  - cbn. split; [discriminate|]. now intros (n0 & H & _).
Qed.

(* ================================================================== 6. the two-sided world: upload and download *)
Definition rmap {A B} (g : A -> B) (r : result A) : result B :=
  match r with Ok a => Ok (g a) | Raise e => Raise e | OutOfFuel => OutOfFuel | Unmodelled => Unmodelled end.

Definition swap_skel (k : skel) : skel :=
  {| sk_top := {| tk_probe := other (tk_probe (sk_top k)); tk_dir_first := tk_dir_first (sk_top k);
                  tk_raise_unless_ignored := tk_raise_unless_ignored (sk_top k) |};
     sk_file := {| fk_src := other (fk_src (sk_file k)); fk_src_mode := fk_src_mode (sk_file k);
                   fk_dst := other (fk_dst (sk_file k)); fk_dst_mode := fk_dst_mode (sk_file k);
                   fk_body := fk_body (sk_file k) |};
     sk_dir := {| dk_mk := other (dk_mk (sk_dir k)); dk_list := other (dk_list (sk_dir k));
                  dk_guard := dk_guard (sk_dir k);
                  dk_src_join := other (dk_src_join (sk_dir k)); dk_dst_join := other (dk_dst_join (sk_dir k));
                  dk_ignore_invalid := dk_ignore_invalid (sk_dir k) |} |}.

Lemma side_eqb_other a b : side_eqb (other a) (other b) = side_eqb a b.
Proof. destruct a, b; reflexivity. Qed.
Lemma get_other_swap s w : get (other s) (swap w) = get s w.
Proof. destruct s, w; reflexivity. Qed.
Lemma set_other_swap s v w : set (other s) v (swap w) = swap (set s v w).
Proof. destruct s, w; reflexivity. Qed.

Lemma coherent_swap k : coherent (swap_skel k) = coherent k.
Proof.
  unfold coherent, src_side, dst_side. cbn [swap_skel sk_top sk_file sk_dir tk_probe tk_dir_first tk_raise_unless_ignored
    fk_src fk_src_mode fk_dst fk_dst_mode fk_body dk_mk dk_list dk_guard dk_src_join dk_dst_join dk_ignore_invalid].
  now rewrite !side_eqb_other.
Qed.

(* any function family and its side-swapped twin do the same thing with the roles of the two sides exchanged *)
Theorem transfer_swap k flt chunk ign w :
  transfer (swap_skel k) flt chunk ign (swap w) = rmap swap (transfer k flt chunk ign w).
Proof.
  unfold transfer. rewrite coherent_swap. destruct (coherent k); [|reflexivity].
  change (src_side (swap_skel k)) with (other (src_side k)).
  change (dst_side (swap_skel k)) with (other (dst_side k)).
  change (fk_body (sk_file (swap_skel k))) with (fk_body (sk_file k)).
  change (dk_guard (sk_dir (swap_skel k))) with (dk_guard (sk_dir k)).
  rewrite !get_other_swap. destruct (get (src_side k) w) as [src|].
  - destruct (copy_node _ _ chunk ign src (get (dst_side k) w)) as [d| | |]; cbn [bind rmap]; try reflexivity.
    now rewrite set_other_swap.
  - destruct ign; reflexivity.
Qed.

Lemma swap_std_skel g s d : swap_skel (std_skel g s d) = std_skel g (other s) (other d).
Proof. reflexivity. Qed.

Theorem download_upload_swap g flt chunk ign w :
  download g flt chunk ign (swap w) = rmap swap (upload g flt chunk ign w).
Proof. exact (transfer_swap (std_skel g Local Remote) flt chunk ign w). Qed.

Lemma upload_unfold g flt chunk ign src dst :
  upload g flt chunk ign {| at_local := Some src; at_remote := dst |} =
  do d <- copy_node std_body (guard g flt) chunk ign src dst; Ok {| at_local := Some src; at_remote := d |}.
Proof. destruct g; reflexivity. Qed.

(* upload into a path where nothing exists *)
Theorem upload_fresh g flt chunk ign t : 1 <= chunk -> wf_tree t = true -> t <> Special ->
  upload g flt chunk ign {| at_local := Some t; at_remote := None |} =
  Ok {| at_local := Some t; at_remote := Some (prune (guard g flt) t) |}.
Proof.
  intros Hc HW HS. rewrite upload_unfold. now rewrite (copy_node_fresh_top (guard g flt) chunk Hc ign t HW HS).
Qed.

Theorem download_fresh g flt chunk ign t : 1 <= chunk -> wf_tree t = true -> t <> Special ->
  download g flt chunk ign {| at_local := None; at_remote := Some t |} =
  Ok {| at_local := Some (prune (guard g flt) t); at_remote := Some t |}.
Proof.
  intros Hc HW HS.
  change {| at_local := None; at_remote := Some t |} with (swap {| at_local := Some t; at_remote := None |}).
  rewrite download_upload_swap, (upload_fresh g flt chunk ign t Hc HW HS). reflexivity.
Qed.

(* upload into whatever is at the remote path: the local side is not modified, the remote side is overlaid *)
Theorem upload_existing g flt chunk ign t dst w' : 1 <= chunk -> wf_tree t = true ->
  upload g flt chunk ign {| at_local := Some t; at_remote := dst |} = Ok w' ->
  at_local w' = Some t /\ overlays (prune (guard g flt) t) dst (at_remote w').
Proof.
  intros Hc HW. rewrite upload_unfold.
  destruct (copy_node std_body (guard g flt) chunk ign t dst) as [d| | |] eqn:E; cbn [bind]; try discriminate.
  intros [= <-]. cbn [at_local at_remote]. split; [reflexivity|].
  exact (copy_node_overlays (guard g flt) chunk Hc t HW ign dst d E).
Qed.

Theorem download_existing g flt chunk ign t dst w' : 1 <= chunk -> wf_tree t = true ->
  download g flt chunk ign {| at_local := dst; at_remote := Some t |} = Ok w' ->
  at_remote w' = Some t /\ overlays (prune (guard g flt) t) dst (at_local w').
Proof.
  intros Hc HW H.
  change {| at_local := dst; at_remote := Some t |} with (swap {| at_local := Some t; at_remote := dst |}) in H.
  rewrite download_upload_swap in H.
  destruct (upload g flt chunk ign {| at_local := Some t; at_remote := dst |}) as [w1| | |] eqn:E; cbn [rmap] in H; try discriminate.
  injection H as <-. destruct (upload_existing g flt chunk ign t dst w1 Hc HW E) as [H1 H2]. now destruct w1.
Qed.

(* something that is neither file nor directory, or nothing at all, at the top: ValueError unless ignore_invalid *)
Theorem upload_invalid g flt chunk dst src : src = None \/ src = Some Special ->
  upload g flt chunk false {| at_local := src; at_remote := dst |} = Raise ValueError /\
  upload g flt chunk true {| at_local := src; at_remote := dst |} = Ok {| at_local := src; at_remote := dst |}.
Proof. destruct g; intros [-> | ->]; split; reflexivity. Qed.

(* ---- the guard and the filter the caller passed *)
Lemma prune_ext f f' : (forall k, f k = f' k) -> forall t, prune f t = prune f' t.
Proof.
  intros E t. induction t as [d| |es IH] using node_ind'; try reflexivity.
  cbn [prune]. f_equal. induction es as [|[k c] r IHr]; [reflexivity|].
  inversion IH as [|? ? H1 H2]; subst. cbn [prune_entries]. cbn [snd] in H1.
  rewrite <- E. destruct (f k); [|exact (IHr H2)]. rewrite (IHr H2). destruct c; try reflexivity; now rewrite H1.
Qed.

(* with the `is None` guard, or with any filter object that is true in a boolean context, the guard is the filter *)
Lemma guard_wanted g flt : g = GIsNone \/ truthy_or_none flt = true -> forall k, guard g flt k = wanted flt k.
Proof.
  intros H k. destruct flt as [o|]; [|reflexivity]. cbn [guard wanted].
  destruct g; [|reflexivity]. destruct H as [H|H]; [discriminate|]. cbn in H. now rewrite H.
Qed.

Theorem upload_fresh_wanted g flt chunk ign t : 1 <= chunk -> wf_tree t = true -> t <> Special ->
  g = GIsNone \/ truthy_or_none flt = true ->
  upload g flt chunk ign {| at_local := Some t; at_remote := None |} =
  Ok {| at_local := Some t; at_remote := Some (prune (wanted flt) t) |}.
Proof.
  intros Hc HW HS Hg. rewrite (upload_fresh g flt chunk ign t Hc HW HS).
  now rewrite (prune_ext _ _ (guard_wanted g flt Hg) t).
Qed.

Theorem download_fresh_wanted g flt chunk ign t : 1 <= chunk -> wf_tree t = true -> t <> Special ->
  g = GIsNone \/ truthy_or_none flt = true ->
  download g flt chunk ign {| at_local := None; at_remote := Some t |} =
  Ok {| at_local := Some (prune (wanted flt) t); at_remote := Some t |}.
Proof.
  intros Hc HW HS Hg. rewrite (download_fresh g flt chunk ign t Hc HW HS).
  now rewrite (prune_ext _ _ (guard_wanted g flt Hg) t).
Qed.

(* with the truthiness guard a filter object that is false in a boolean context is not consulted at all:
   a predicate that rejects every name (e.g. an empty callable set of accepted names) lets everything through *)
Definition falsy_reject_all : filter_obj := {| fo_truthy := false; fo_pred := fun _ => false |}.
Theorem truthiness_guard_ignores_falsy_filter : forall chunk ign k data, 1 <= chunk ->
  wanted (Some falsy_reject_all) k = false /\
  upload GTruthy (Some falsy_reject_all) chunk ign {| at_local := Some (Dir [(k, File data)]); at_remote := None |}
  = Ok {| at_local := Some (Dir [(k, File data)]); at_remote := Some (Dir [(k, File data)]) |} /\
  download GTruthy (Some falsy_reject_all) chunk ign {| at_local := None; at_remote := Some (Dir [(k, File data)]) |}
  = Ok {| at_local := Some (Dir [(k, File data)]); at_remote := Some (Dir [(k, File data)]) |}.
Proof.
  intros chunk ign k data Hc. split; [reflexivity|].
  assert (HW : wf_tree (Dir [(k, File data)]) = true) by reflexivity.
  assert (HS : Dir [(k, File data)] <> Special) by discriminate.
  rewrite (upload_fresh GTruthy _ chunk ign _ Hc HW HS), (download_fresh GTruthy _ chunk ign _ Hc HW HS).
  split; reflexivity.
Qed.

(* ================================================================== 7. when copying into an existing destination succeeds *)
Section Compat.
  Variable f : name -> bool.
  Variable chunk : N.
  Hypothesis Hc : 1 <= chunk.
  Notation cnode := (copy_node std_body f chunk).

  (* no accepted source file lands on an existing directory (or special entry), no accepted source directory on an
     existing non-directory *)
  Fixpoint compat (src : node) (dst : option node) : bool :=
    match src with
    | File _ => match dst with Some (Dir _) => false | Some Special => false | _ => true end
    | Special => true
    | Dir es =>
        match dst with
        | None => true
        | Some (Dir des) =>
            (fix all (es : list (name * node)) : bool :=
               match es with
               | [] => true
               | (k, c) :: r => (if f k then compat c (lookup_entry k des) else true) && all r
               end) es
        | Some _ => false
        end
    end.

  Lemma compat_None src : compat src None = true.
  Proof. destruct src; reflexivity. Qed.

  Lemma compat_dir es des : compat (Dir es) (Some (Dir des)) = true ->
    forall k c, In (k, c) es -> f k = true -> compat c (lookup_entry k des) = true.
  Proof.
    cbn [compat]. induction es as [|[k0 c0] r IH]; intros H k c HI Fk; [destruct HI|].
    apply andb_true_iff in H. destruct H as [H1 H2]. destruct HI as [[= -> ->]|HI].
    - now rewrite Fk in H1.
    - exact (IH H2 k c HI Fk).
  Qed.

  Definition succeeds (src : node) : Prop :=
    wf_tree src = true -> forall ign dst, compat src dst = true -> (ign = true \/ src <> Special) ->
    exists r, cnode ign src dst = Ok r.

  Lemma copy_entries_succeeds es : Forall (fun e => succeeds (snd e)) es ->
    Forall (fun e => wf_tree (snd e) = true) es -> NoDup (map fst es) -> forall des0 des,
    (forall k, In k (map fst es) -> lookup_entry k des = lookup_entry k des0) ->
    (forall k c, In (k, c) es -> f k = true -> compat c (lookup_entry k des0) = true) ->
    exists des', copy_entries f (cnode true) es des = Ok des'.
  Proof.
    induction es as [|[k c] r IH]; intros HI HW HN des0 des Hsame Hcompat.
    - now exists des.
    - inversion HI as [|? ? HI1 HI2]; subst. inversion HW as [|? ? HW1 HW2]; subst.
      cbn [map fst] in HN. inversion HN as [|? ? HN1 HN2]; subst. cbn [snd] in HI1, HW1.
      cbn [copy_entries].
      assert (Hrest : forall des1, (forall k', k' <> k -> lookup_entry k' des1 = lookup_entry k' des) ->
                                   exists des', copy_entries f (cnode true) r des1 = Ok des').
      { intros des1 H1. apply (IH HI2 HW2 HN2 des0 des1).
        - intros k' Hk'. rewrite H1; [apply Hsame; now right|]. intros ->. contradiction.
        - intros k' c' HIn. apply Hcompat. now right. }
      destruct (f k) eqn:Fk; [|now apply Hrest].
      destruct (HI1 HW1 true (lookup_entry k des)) as (d' & Hd'); [|now left|].
      { rewrite (Hsame k) by now left. apply Hcompat; [now left|exact Fk]. }
      rewrite Hd'. cbn [bind]. apply Hrest. intros k' Hk'.
      destruct d' as [v|]; cbn [put]; [|reflexivity].
      rewrite lookup_set_entry. destruct (bytes_eqb k' k) eqn:E; [|reflexivity].
      apply bytes_eqb_eq in E. contradiction.
  Qed.

  Theorem copy_node_succeeds src : succeeds src.
  Proof.
    induction src as [d| |es IH] using node_ind'; intros HW ign dst Hcp Hign.
    - cbn [copy_node]. fold (copy_file chunk d). rewrite copy_file_id by exact Hc.
      destruct dst as [[| |]|]; try discriminate; eexists; reflexivity.
    - destruct Hign as [->|H]; [|contradiction]. now exists dst.
    - apply wf_dir in HW. destruct HW as [HN HW]. cbn [copy_node].
      destruct dst as [[d|des|]|]; try discriminate; cbn [bind].
      + destruct (copy_entries_succeeds es IH HW HN des des) as (des' & E); [reflexivity| |].
        * exact (compat_dir es des Hcp).
        * rewrite E. now eexists.
      + destruct (copy_entries_succeeds es IH HW HN [] []) as (des' & E); [reflexivity| |].
        * intros k c _ _. apply compat_None.
        * rewrite E. now eexists.
  Qed.
End Compat.

Theorem upload_existing_succeeds g flt chunk ign t dst : 1 <= chunk -> wf_tree t = true -> t <> Special ->
  compat (guard g flt) t dst = true -> exists w', upload g flt chunk ign {| at_local := Some t; at_remote := dst |} = Ok w'.
Proof.
  intros Hc HW HS Hcp. rewrite upload_unfold.
  destruct (copy_node_succeeds (guard g flt) chunk Hc t HW ign dst Hcp (or_intror HS)) as (r & ->). cbn [bind]. now eexists.
Qed.

(* ================================================================== 8. no filter; upload_package *)
Lemma no_special_dir es : no_special (Dir es) = true <-> Forall (fun e => no_special (snd e) = true) es.
Proof.
  cbn [no_special]. induction es as [|[k c] r IH].
  - split; [constructor|reflexivity].
  - rewrite andb_true_iff, IH. split.
    + intros [H1 H2]. now constructor.
    + intros H. inversion H; subst. now split.
Qed.

(* without a filter, a tree that has only files and directories is kept whole *)
Lemma prune_all f t : (forall k, f k = true) -> no_special t = true -> prune f t = t.
Proof.
  intros Hf. induction t as [d| |es IH] using node_ind'; intros HS; try reflexivity.
  apply no_special_dir in HS. cbn [prune]. f_equal.
  induction es as [|[k c] r IHr]; [reflexivity|].
  inversion IH as [|? ? H1 H2]; subst. inversion HS as [|? ? S1 S2]; subst. cbn [snd] in H1, S1.
  cbn [prune_entries]. rewrite Hf, (IHr H2 S2), (H1 S1). destruct c; try reflexivity. discriminate.
Qed.

Theorem upload_package_fresh g chunk t : 1 <= chunk -> wf_tree t = true -> no_special t = true ->
  upload_package g chunk {| at_local := Some t; at_remote := None |} = Ok {| at_local := Some t; at_remote := Some t |}.
Proof.
  intros Hc HW HS. unfold upload_package.
  assert (t <> Special) by (intros ->; discriminate).
  rewrite (upload_fresh g None chunk false t Hc HW H). now rewrite (prune_all (guard g None) t (fun _ => eq_refl) HS).
Qed.
