(* Tie between the facts regenerated from rpyc/core/protocol.py, rpyc/lib/colls.py, rpyc/lib/__init__.py on every run
   (gen/Gen_handlers.v, Gen_protocol.v, Gen_attrpolicy.v, Gen_vinegar.v) and what model/Hostile.v interprets.
   Every lemma is by computation; a handler that changes, a new handler, a renumbered constant, a reordered ladder or a
   changed default breaks one of them. *)
From V Require Import lib.Base model.Attr model.Hostile proofs.HostileP proofs.VinegarTie
  gen.Gen_handlers gen.Gen_protocol gen.Gen_attrpolicy gen.Gen_consts gen.Gen_vinegar.
From V Require model.Vinegar.
From Coq Require Import String.
Local Open Scope string_scope.

(* every request handler body is the term the interpreter runs *)
(* _handle_cmp and _handle_ctxexit exist in two forms (before / after their repairs); the generated facts cmp_guard and
   ctx_catches_all say which one the tree has, and the whole table is the model's table for those facts *)
Lemma handlers_tie : Gen_handlers.handlers = Hostile.handlers_of Gen_handlers.cmp_guard Gen_handlers.ctx_catches_all.
Proof. reflexivity. Qed.
Lemma variants_tie : (Gen_handlers.cmp_guard = None \/ Gen_handlers.cmp_guard = Some Hostile.CMP_NAMES)
  /\ (Gen_handlers.ctx_catches_all = false \/ Gen_handlers.ctx_catches_all = true).
Proof. split; [first [left; reflexivity | right; reflexivity]|first [left; reflexivity | right; reflexivity]]. Qed.
Lemma dispatch_tie : Gen_handlers.dispatch = Hostile.dispatch.
Proof. reflexivity. Qed.
(* every handler number of consts.py is routed *)
Lemma dispatch_covers_consts : forall k v, In (k, v) Gen_consts.all_consts -> String.prefix "HANDLE_" k = true ->
  exists n, In (v, n) Gen_handlers.dispatch.
Proof.
  intros k v H. unfold Gen_consts.all_consts in H. cbn [In] in H.
  repeat (destruct H as [H|H]; [injection H as <- <-; cbn; intros P; try discriminate P; eexists; cbn; tauto|]). contradiction.
Qed.
Lemma ladders_tie : Gen_handlers.msg_ladder = Hostile.msg_ladder /\ Gen_handlers.unbox_ladder = Hostile.unbox_ladder
  /\ Gen_handlers.box_ladder = Hostile.box_ladder.
Proof. repeat split. Qed.
Lemma ladder_consts_tie :
  Gen_consts.MSG_REQUEST = 1%Z /\ Gen_consts.MSG_REPLY = 2%Z /\ Gen_consts.MSG_EXCEPTION = 3%Z /\ Gen_consts.LABEL_VALUE = 1%Z
  /\ Gen_consts.LABEL_TUPLE = 2%Z /\ Gen_consts.LABEL_LOCAL_REF = 3%Z /\ Gen_consts.LABEL_REMOTE_REF = 4%Z /\ Gen_consts.HANDLE_INSPECT = Hostile.HANDLE_INSPECT.
Proof. repeat split. Qed.
(* _dispatch_request: unpack, unbox and the handler call are inside the try; only a local SystemExit/KeyboardInterrupt that the
   configuration propagates is re-raised; everything else is sent back under the request's own sequence number *)
Lemma request_steps_tie : Gen_handlers.request_steps = ["try:handler, args = raw_args"; "try:args = self._unbox(args)"; "try:res = self._HANDLERS[handler](self, *args)"; "except:t, v, tb = sys.exc_info()"; "except:if t is SystemExit and self._config['propagate_SystemExit_locally']: ;     raise"; "except:if t is KeyboardInterrupt and self._config['propagate_KeyboardInterrupt_locally']: ;     raise"; "except:self._send_exc(seq, t, v, tb)"; "else:try:
    self._send(consts.MSG_REPLY, seq, self._box(res))
except EOFError:
    raise
except Exception:
    self._send_exc(seq, *sys.exc_info())"].
Proof. reflexivity. Qed.
Lemma table_lookup_tie : Gen_handlers.getitem_plain = true /\ Gen_handlers.serve_all_closes = true.
Proof. split; reflexivity. Qed.
(* the names the implementation itself looks up on objects it handles for the peer (the fuzzer's expected noise) *)
Lemma const_names_tie : Gen_handlers.const_names = ["____conn__"; "____id_pack__"; "__bases__"; "__call__"; "__class__"; "__class_getitem__"; "__dict__"; "__module__"; "__mro__"; "__name__"; "__qualname__"; "_rpyc_delattr"; "_rpyc_getattr"; "_rpyc_setattr"; "keys"; "on_disconnect"].
Proof. reflexivity. Qed.

(* the default configuration the theorems are instantiated with *)
Lemma default_config_tie :
  Gen_protocol.safe_attrs = Hostile.default_safe /\ Gen_protocol.exposed_prefix = "exposed_"
  /\ Gen_attrpolicy.default_switches = Hostile.default_switches
  /\ Gen_attrpolicy.decode_guarded = c_guard default_config
  /\ In ("allow_pickle", c_pickle default_config) Gen_protocol.config_switches
  /\ c_rflags default_config = VinegarTie.default_rflags
  /\ c_prop_kbd default_config = Vinegar.prop_kbdint VinegarTie.default_sflags
  /\ c_prop_sysexit default_config = Vinegar.prop_sysexit VinegarTie.default_sflags.
Proof. repeat split; cbn; tauto. Qed.

(* netref.class_factory reads a peer-named class out of the module's own __dict__ (no module-level __getattr__ hook runs) *)
Lemma class_lookup_tie : Gen_handlers.class_lookup_mode = c_cls_mode default_config.
Proof. reflexivity. Qed.

(* the configuration of the tree: the default one, with the generated fact on how class_factory accepts the object it found *)
Definition tree_config : config := with_cls_reads default_config Gen_handlers.class_reads_object.

(* the generated table never pickles outside the allow_pickle guard *)
Lemma handlers_guarded : table_pk default_config Gen_handlers.handlers.
Proof. apply table_pkb_sound. vm_compute. reflexivity. Qed.
