(* Proofs about model/Brine.v: round trip, agreement of the predicate with the encoder. *)
From V Require Import lib.Base lib.Sx lib.Decimal lib.Utf8 model.Ladder model.Brine proofs.DecimalP proofs.Utf8P.
From Coq Require Import ZifyBool.
Open Scope N_scope.
Ltac Zify.zify_post_hook ::= Z.to_euclidean_division_equations.

(* ---- induction principle for the nested type ---- *)
Lemma pyval_ind' (Q : pyval -> Prop) :
  Q PNone -> Q PNotImpl -> Q PEllipsis -> (forall b, Q (PBool b)) -> (forall z, Q (PInt z)) ->
  (forall b, Q (PFloat b)) -> (forall b, Q (PComplex b)) -> (forall b, Q (PBytes b)) -> (forall c, Q (PStr c)) ->
  (forall l, Forall Q l -> Q (PTuple l)) -> (forall l, Forall Q l -> Q (PFset l)) ->
  (forall a b c, Q a -> Q b -> Q c -> Q (PSlice a b c)) -> (forall k, Q (POther k)) ->
  forall v, Q v.
Proof.
  intros H1 H2 H3 H4 H5 H6 H7 H8 H9 HT HF HS HO. fix IH 1.
  intros [| | |b|z|b|b|b|c|l|l|a b c|k];
    [exact H1|exact H2|exact H3|apply H4|apply H5|apply H6|apply H7|apply H8|apply H9| | |apply HS; apply IH|apply HO].
  - apply HT. induction l as [|y ys IHl]; constructor; [apply IH|exact IHl].
  - apply HF. induction l as [|y ys IHl]; constructor; [apply IH|exact IHl].
Qed.

(* ---- well-formedness: what the universe of Python values / the property text allows ---- *)
Definition LIM : N := 4294967296.
Fixpoint wf (P : bparams) (v : pyval) : bool :=
  match v with
  | PInt z => is_imm z || (negb (over_limit (maxdigits P) (ndigits z)) && (ndigits z <? LIM - 1))
  | PFloat b => nlen b =? 8
  | PComplex b => nlen b =? 16
  | PBytes b => nlen b <? LIM
  | PStr cps => forallb (fun c => c <? 0x110000) cps && (4 * nlen cps <? LIM)
  | PTuple l | PFset l => (nlen l <? LIM) && forallb (wf P) l
  | PSlice a b c => wf P a && wf P b && wf P c
  | _ => true
  end.
Fixpoint nosurr (v : pyval) : bool :=
  match v with
  | PStr cps => forallb (fun c => negb (is_surrogate c)) cps
  | PTuple l | PFset l => forallb nosurr l
  | PSlice a b c => nosurr a && nosurr b && nosurr c
  | _ => true
  end.
Definition text_ok (P : bparams) (v : pyval) : bool := sp P || nosurr v.

Fixpoint depth (v : pyval) : nat :=
  match v with
  | PStr _ => 2
  | PTuple l => S (fold_right (fun y m => Nat.max (depth y) m) O l)
  | PFset l => S (S (fold_right (fun y m => Nat.max (depth y) m) O l))
  | PSlice a b c => S (S (Nat.max (depth a) (Nat.max (depth b) (depth c))))
  | _ => 1
  end.

(* ---- headers ---- *)
Lemma take_upto_0 r : take_upto 0 r = ([], r).
Proof. unfold take_upto. destruct r; reflexivity. Qed.

Ltac norm_tags :=
  repeat match goal with
  | |- context [b_of (Npos ?p)] =>
      let v := eval vm_compute in (b_of (Npos p)) in change (b_of (Npos p)) with v
  end.
Ltac ladder_cases n :=
  destruct (N.eqb_spec n 0) as [?|?]; [subst|
  destruct (N.eqb_spec n 1) as [?|?]; [subst|
  destruct (N.eqb_spec n 2) as [?|?]; [subst|
  destruct (N.eqb_spec n 3) as [?|?]; [subst|
  destruct (N.eqb_spec n 4) as [?|?]; [subst|
  destruct (N.ltb_spec n 256) as [?|?]]]]]].

Lemma hdr_str_ok n : n < LIM -> exists h, hdr_str n = Ok h /\ h <> [] /\
  forall P rec r, load_body P rec (h ++ r) = bytes_of n r.
Proof.
  intros Hn. unfold hdr_str, str_ladder, ladder_hdr, lcmp_holds, lfield_bytes, pack_I1, pack_I4. norm_tags.
  unfold LIM in Hn.
  ladder_cases n; try (destruct (N.ltb_spec n 4294967296); [|lia]); cbn [bind];
  (eexists; split; [reflexivity|split; [discriminate|intros; cbn]]); try reflexivity.
  - unfold bytes_of. now rewrite take_upto_0.
  - rewrite to_b_of by assumption. reflexivity.
  - rewrite un4_be4 by assumption. reflexivity.
Qed.

Lemma hdr_tup_ok n : n < LIM -> exists h, hdr_tup n = Ok h /\ h <> [] /\
  forall P rec r, load_body P rec (h ++ r) = if n =? 0 then Ok (PTuple [], r) else tup_of rec n r.
Proof.
  intros Hn. unfold hdr_tup, tup_ladder, ladder_hdr, lcmp_holds, lfield_bytes, pack_I1, pack_I4. norm_tags.
  unfold LIM in Hn.
  ladder_cases n; try (destruct (N.ltb_spec n 4294967296); [|lia]); cbn [bind];
  (eexists; split; [reflexivity|split; [discriminate|intros; cbn]]); try reflexivity.
  - rewrite to_b_of by assumption. destruct (N.eqb_spec n 0); [lia|reflexivity].
  - rewrite un4_be4 by assumption. destruct (N.eqb_spec n 0); [lia|reflexivity].
Qed.

Lemma hdr_int_ok n : n < LIM -> exists h, hdr_int n = Ok h /\ h <> [] /\
  forall P rec r, load_body P rec (h ++ r) = int_of P n r.
Proof.
  intros Hn. unfold hdr_int, int_ladder, ladder_hdr, lcmp_holds, lfield_bytes, pack_I1, pack_I4. norm_tags.
  norm_tags. destruct (N.ltb_spec n 256).
  - cbn [bind]. eexists; split; [reflexivity|split; [discriminate|intros]]. cbn. rewrite to_b_of by assumption. reflexivity.
  - unfold LIM in Hn. destruct (N.ltb_spec n 4294967296); [|lia]. cbn [bind].
    eexists; split; [reflexivity|split; [discriminate|intros]]. cbn. rewrite un4_be4 by assumption. reflexivity.
Qed.

(* ---- item loops ---- *)
Definition rt_at (P : bparams) (f : nat) (y : pyval) : Prop :=
  exists bs, dump P y = Ok bs /\ bs <> [] /\ forall rest, load_f P f (bs ++ rest) = Ok (y, rest).

Lemma dump_items_eq P l : (fix go (l : list pyval) : result (list byte) :=
      match l with [] => Ok [] | y :: ys => do a <- dump P y; do b <- go ys; Ok (a ++ b) end) l = dump_items P l.
Proof. induction l as [|y ys IH]; cbn [dump_items]; [reflexivity|]. now rewrite IH. Qed.

Lemma items_ok P f l : Forall (rt_at P f) l ->
  exists body, dump_items P l = Ok body /\ (length l <= length body)%nat /\
  forall acc k rest, (length l <= k)%nat ->
    items (load_f P f) k (nlen l) (body ++ rest) acc = Ok (rev acc ++ l, rest).
Proof.
  induction l as [|y ys IH]; intros HF.
  - exists []. split; [reflexivity|split; [cbn; lia|]]. intros acc k rest _.
    destruct k; cbn; now rewrite app_nil_r.
  - inversion HF as [|? ? Hy Hys]; subst. destruct (IH Hys) as (body & Eb & Lb & Hb).
    destruct Hy as (a & Ea & Na & Ha).
    exists (a ++ body). cbn [dump_items]. rewrite Ea, Eb. cbn [bind]. split; [reflexivity|]. split.
    { rewrite app_length. cbn [length]. destruct a; [congruence|cbn [length]; lia]. }
    intros acc k rest Hk. destruct k as [|k]; [cbn in Hk; lia|].
    assert (E : nlen (y :: ys) =? 0 = false) by (apply N.eqb_neq; unfold nlen; cbn [length]; lia).
    cbn [items]. rewrite E. rewrite <- app_assoc, Ha. cbn [bind].
    replace (nlen (y :: ys) - 1) with (nlen ys) by (unfold nlen; cbn [length]; lia).
    rewrite Hb by (cbn in Hk; lia). cbn [rev]. now rewrite <- app_assoc.
Qed.

Lemma load_tuple P f l : nlen l < LIM -> Forall (rt_at P f) l ->
  exists h body, hdr_tup (nlen l) = Ok h /\ dump_items P l = Ok body /\
  forall rest, load_f P (S f) (h ++ body ++ rest) = Ok (PTuple l, rest).
Proof.
  intros Hn HF. destruct (hdr_tup_ok _ Hn) as (h & Eh & Nh & Hh).
  destruct (items_ok P f l HF) as (body & Eb & Lb & Hb).
  exists h, body. split; [exact Eh|split; [exact Eb|]]. intros rest.
  cbn [load_f]. rewrite Hh. destruct (N.eqb_spec (nlen l) 0) as [E|E].
  - destruct l; [|unfold nlen in E; cbn in E; lia]. cbn in Eb. injection Eb as <-. reflexivity.
  - unfold tup_of. rewrite Hb.
    + reflexivity.
    + rewrite app_length. lia.
Qed.

Lemma Forall_rt_mono P f g l : (f <= g)%nat ->
  Forall (fun y => forall f, (depth y <= f)%nat -> rt_at P f y) l ->
  (fold_right (fun y m => Nat.max (depth y) m) O l <= f)%nat -> Forall (rt_at P g) l.
Proof.
  intros Hfg HF Hd. induction l as [|y ys IH]; constructor.
  - inversion HF; subst. apply H1. cbn in Hd. lia.
  - inversion HF; subst. apply IH; [assumption|]. cbn in Hd. lia.
Qed.

(* ---- the round trip ---- *)
Theorem roundtrip_rt P : forall v, wf P v = true -> dumpable v = true -> text_ok P v = true ->
  forall f, (depth v <= f)%nat -> rt_at P f v.
Proof.
  induction v as [| | |b|z|b|b|b|cps|l IH|l IH|a b c IHa IHb IHc|k] using pyval_ind';
    intros Hwf Hd Ht f Hf; cbn [depth] in Hf; try discriminate;
    (destruct f as [|f]; [lia|]); unfold rt_at.
  - eexists; split; [reflexivity|split; [discriminate|reflexivity]].
  - eexists; split; [reflexivity|split; [discriminate|reflexivity]].
  - eexists; split; [reflexivity|split; [discriminate|reflexivity]].
  - destruct b; (eexists; split; [reflexivity|split; [discriminate|reflexivity]]).
  - (* int *)
    cbn [wf] in Hwf. cbn [dump]. unfold dump_int.
    destruct (is_imm z) eqn:Ei.
    + eexists; split; [reflexivity|split; [discriminate|]]. intros rest.
      unfold is_imm, IMM_LO, IMM_HI in Ei. cbn [load_f app]. unfold load_body.
      rewrite to_b_of by (unfold IMM_OFF; lia).
      assert (X : (32 <=? Z.to_N (z + IMM_OFF)) && (Z.to_N (z + IMM_OFF) <? 240) = true) by (unfold IMM_OFF; lia).
      rewrite X. do 3 f_equal. unfold IMM_OFF. lia.
    + cbn [orb] in Hwf. apply andb_true_iff in Hwf as [Hl Hs]. apply negb_true_iff in Hl.
      unfold render. rewrite Hl. cbn [bind].
      assert (Hlen : nlen (render_raw z) < LIM).
      { apply N.ltb_lt in Hs. unfold LIM in *. destruct z as [|p|p]; cbn [render_raw ndigits] in *.
        - cbn. lia.
        - unfold render_pos, nlen in *. rewrite rev_length, map_length. lia.
        - unfold render_pos, nlen in *. cbn [length]. rewrite rev_length, map_length. lia. }
      destruct (hdr_int_ok _ Hlen) as (h & Eh & Nh & Hh). rewrite Eh. cbn [bind].
      eexists; split; [reflexivity|split]. { destruct h; [congruence|discriminate]. }
      intros rest. cbn [load_f]. rewrite <- app_assoc, Hh. unfold int_of. rewrite take_upto_app.
      rewrite (parse_render (maxdigits P) z (render_raw z)); [reflexivity|]. unfold render. now rewrite Hl.
  - (* float *) cbn [wf] in Hwf. eexists; split; [reflexivity|split; [discriminate|]]. intros rest.
    apply N.eqb_eq in Hwf. cbn [load_f app]. unfold load_body. change (to_N TAG_FLOAT) with 24.
    cbn [andb N.leb N.ltb N.compare Pos.compare Pos.compare_cont]. cbv iota. unfold TAG_FLOAT.
    rewrite <- Hwf, take_upto_app, N.eqb_refl. reflexivity.
  - (* complex *) cbn [wf] in Hwf. eexists; split; [reflexivity|split; [discriminate|]]. intros rest.
    apply N.eqb_eq in Hwf. cbn [load_f app]. unfold load_body. change (to_N TAG_COMPLEX) with 27.
    cbn [andb N.leb N.ltb N.compare Pos.compare Pos.compare_cont]. cbv iota. unfold TAG_COMPLEX.
    rewrite <- Hwf, take_upto_app, N.eqb_refl. reflexivity.
  - (* bytes *) cbn [wf] in Hwf. apply N.ltb_lt in Hwf.
    destruct (hdr_str_ok _ Hwf) as (h & Eh & Nh & Hh). cbn [dump]. unfold dump_bytes. rewrite Eh. cbn [bind].
    eexists; split; [reflexivity|split]. { destruct h; [congruence|discriminate]. }
    intros rest. cbn [load_f]. rewrite <- app_assoc, Hh. unfold bytes_of. now rewrite take_upto_app.
  - (* str *) cbn [wf] in Hwf. apply andb_true_iff in Hwf as [Hc Hl]. unfold text_ok in Ht. cbn [nosurr] in Ht.
    assert (Hok : forallb (cp_ok (sp P)) cps = true).
    { rewrite forallb_forall in *. intros c Hin. unfold cp_ok. rewrite (Hc c Hin). cbn [andb].
      destruct (sp P); [now rewrite andb_false_r|]. cbn [orb] in Ht. rewrite (proj1 (forallb_forall _ _) Ht c Hin) || idtac.
      rewrite forallb_forall in Ht. specialize (Ht c Hin). apply negb_true_iff in Ht. now rewrite Ht. }
    destruct (encode_ok _ _ Hok) as (e & Ee).
    assert (He : nlen e < LIM).
    { apply N.ltb_lt in Hl. enough (nlen e <= 4 * nlen cps) by lia. clear -Ee. revert e Ee.
      induction cps as [|c t IH]; intros e; cbn [utf8_encode].
      - intros [= <-]. cbn. lia.
      - destruct (enc1 (sp P) c) as [x|] eqn:E1; [|discriminate].
        destruct (utf8_encode (sp P) t) as [r| | |]; cbn [bind]; try discriminate. intros [= <-].
        specialize (IH r eq_refl). unfold nlen in *. rewrite app_length. cbn [length].
        assert (length x <= 4)%nat.
        { unfold enc1 in E1. repeat match type of E1 with context [if ?c then _ else _] => destruct c end;
          try discriminate; injection E1 as <-; cbn; lia. }
        lia. }
    destruct (hdr_str_ok _ He) as (h & Eh & Nh & Hh).
    cbn [dump]. rewrite Ee. cbn [bind]. unfold dump_bytes. rewrite Eh. cbn [bind].
    eexists; split; [reflexivity|split; [discriminate|]]. intros rest.
    destruct f as [|f]; [lia|]. cbn [load_f app]. unfold load_body at 1. change (to_N TAG_UNICODE) with 8.
    cbn [andb N.leb N.ltb N.compare Pos.compare Pos.compare_cont]. cbv iota. unfold TAG_UNICODE.
    rewrite <- app_assoc, Hh. unfold bytes_of. rewrite take_upto_app. cbn [bind].
    now rewrite (utf8_roundtrip _ _ _ Ee).
  - (* tuple *) cbn [wf] in Hwf. apply andb_true_iff in Hwf as [Hn Hw]. apply N.ltb_lt in Hn.
    cbn [dumpable] in Hd. unfold text_ok in *. cbn [nosurr] in Ht.
    assert (HF : Forall (fun y => forall f, (depth y <= f)%nat -> rt_at P f y) l).
    { rewrite Forall_forall in *. rewrite forallb_forall in *. intros y Hy g Hg. apply IH; auto.
      destruct (sp P); [reflexivity|]. cbn [orb] in *. rewrite forallb_forall in Ht. unfold text_ok. cbn. auto. }
    destruct (load_tuple P f l Hn (Forall_rt_mono P f f l (le_n _) HF ltac:(lia))) as (h & body & Eh & Eb & Hl).
    cbn [dump]. rewrite Eh, dump_items_eq, Eb. cbn [bind].
    eexists; split; [reflexivity|split]. { destruct (hdr_tup_ok _ Hn) as (h' & Eh' & Nh' & _). rewrite Eh in Eh'. injection Eh' as <-. destruct h; [congruence|discriminate]. }
    intros rest. rewrite <- app_assoc. apply Hl.
  - (* frozenset *) cbn [wf] in Hwf. apply andb_true_iff in Hwf as [Hn Hw]. apply N.ltb_lt in Hn.
    cbn [dumpable] in Hd. unfold text_ok in *. cbn [nosurr] in Ht.
    assert (HF : Forall (fun y => forall f, (depth y <= f)%nat -> rt_at P f y) l).
    { rewrite Forall_forall in *. rewrite forallb_forall in *. intros y Hy g Hg. apply IH; auto.
      destruct (sp P); [reflexivity|]. cbn [orb] in *. rewrite forallb_forall in Ht. unfold text_ok. cbn. auto. }
    destruct f as [|f]; [lia|].
    destruct (load_tuple P f l Hn (Forall_rt_mono P f f l (le_n _) HF ltac:(lia))) as (h & body & Eh & Eb & Hl).
    cbn [dump]. rewrite Eh, dump_items_eq, Eb. cbn [bind].
    eexists; split; [reflexivity|split; [discriminate|]].
    intros rest. cbn [load_f app]. unfold load_body at 1. change (to_N TAG_FSET) with 26.
    cbn [andb N.leb N.ltb N.compare Pos.compare Pos.compare_cont]. cbv iota. unfold TAG_FSET.
    change (load_body P (load_f P f)) with (load_f P (S f)). rewrite <- app_assoc, Hl. reflexivity.
  - (* slice *) cbn [wf] in Hwf. apply andb_true_iff in Hwf as [Hwf Hwc]. apply andb_true_iff in Hwf as [Hwa Hwb].
    cbn [dumpable] in Hd. apply andb_true_iff in Hd as [Hd Hdc]. apply andb_true_iff in Hd as [Hda Hdb].
    assert (Hta : text_ok P a = true /\ text_ok P b = true /\ text_ok P c = true).
    { unfold text_ok in *. destruct (sp P); [auto|]. cbn [orb nosurr] in *.
      apply andb_true_iff in Ht as [Ht Htc]. apply andb_true_iff in Ht as [Hta Htb]. auto. }
    destruct Hta as (Hta & Htb & Htc).
    destruct f as [|f]; [lia|].
    assert (HF : Forall (rt_at P f) [a; b; c]).
    { repeat constructor; [apply IHa|apply IHb|apply IHc]; auto; lia. }
    destruct (load_tuple P f [a; b; c] ltac:(unfold LIM, nlen; cbn; lia) HF) as (h & body & Eh & Eb & Hl).
    cbn in Eh. injection Eh as <-. change (b_of 18) with x12 in Hl. cbn [dump_items] in Eb. cbn [dump].
    destruct (dump P a) as [x| | |]; cbn [bind] in Eb; try discriminate.
    destruct (dump P b) as [y| | |]; cbn [bind] in Eb; try discriminate.
    destruct (dump P c) as [z| | |]; cbn [bind] in Eb; try discriminate.
    injection Eb as <-. cbn [bind].
    eexists; split; [reflexivity|split; [discriminate|]].
    intros rest. cbn [load_f app]. unfold load_body at 1. change (to_N TAG_SLICE) with 25.
    cbn [andb N.leb N.ltb N.compare Pos.compare Pos.compare_cont]. cbv iota. unfold TAG_SLICE.
    change (load_body P (load_f P f)) with (load_f P (S f)).
    specialize (Hl rest). cbn [app] in Hl. rewrite app_nil_r in Hl.
    replace (TAG_TUP3 :: (x ++ y ++ z) ++ rest) with (x12 :: (x ++ y ++ z) ++ rest) by reflexivity.
    replace ((x ++ y ++ z) ++ rest) with (x ++ y ++ z ++ rest) by (now rewrite <- !app_assoc).
    rewrite <- !app_assoc in Hl. cbn [app] in Hl. rewrite Hl. reflexivity.
Qed.

(* ---- agreement of the predicate with the encoder ---- *)
Lemma dump_items_undumpable P l :
  Forall (fun y => wf P y = true -> text_ok P y = true -> dumpable y = false -> dump P y = Raise TypeError) l ->
  Forall (fun y => wf P y = true -> text_ok P y = true -> dumpable y = true -> exists bs, dump P y = Ok bs) l ->
  forallb (wf P) l = true -> forallb (text_ok P) l = true -> forallb dumpable l = false ->
  dump_items P l = Raise TypeError.
Proof.
  induction l as [|y ys IH]; intros HN HP Hw Ht Hd; cbn [forallb] in *; [discriminate|].
  apply andb_true_iff in Hw as [Hwy Hws]. apply andb_true_iff in Ht as [Hty Hts].
  inversion HN as [|? ? HNy HNs]; subst. inversion HP as [|? ? HPy HPs]; subst.
  cbn [dump_items]. destruct (dumpable y) eqn:Dy.
  - destruct (HPy Hwy Hty eq_refl) as [a ->]. cbn [bind]. cbn [andb] in Hd. now rewrite (IH HNs HPs Hws Hts Hd).
  - now rewrite (HNy Hwy Hty eq_refl).
Qed.

Lemma text_ok_list P l : text_ok P (PTuple l) = true -> forallb (text_ok P) l = true.
Proof.
  unfold text_ok. destruct (sp P); cbn [orb nosurr]; [intros _; induction l; cbn; auto|]. auto.
Qed.

Theorem decision_exact P : forall v, wf P v = true -> text_ok P v = true ->
  (dumpable v = true -> exists bs, dump P v = Ok bs) /\ (dumpable v = false -> dump P v = Raise TypeError).
Proof.
  intros v Hw Ht. split.
  { intros Hd. destruct (roundtrip_rt P v Hw Hd Ht (depth v) (le_n _)) as (bs & E & _). eauto. }
  revert Hw Ht.
  induction v as [| | |b|z|b|b|b|cps|l IH|l IH|a b c IHa IHb IHc|k] using pyval_ind';
    intros Hw Ht Hd; cbn [dumpable] in Hd; try discriminate; try reflexivity.
  - cbn [wf] in Hw. apply andb_true_iff in Hw as [Hn Hw]. apply N.ltb_lt in Hn.
    destruct (hdr_tup_ok _ Hn) as (h & Eh & _). cbn [dump]. rewrite Eh, dump_items_eq. cbn [bind].
    rewrite (dump_items_undumpable P l); [reflexivity| | |assumption|now apply text_ok_list|assumption].
    + rewrite Forall_forall in *. intros y Hy ? ? ?. now apply IH.
    + rewrite Forall_forall. intros y Hy Hwy Hty Hdy.
      destruct (roundtrip_rt P y Hwy Hdy Hty (depth y) (le_n _)) as (bs & E & _). eauto.
  - cbn [wf] in Hw. apply andb_true_iff in Hw as [Hn Hw]. apply N.ltb_lt in Hn.
    destruct (hdr_tup_ok _ Hn) as (h & Eh & _). cbn [dump]. rewrite Eh, dump_items_eq. cbn [bind].
    rewrite (dump_items_undumpable P l); [reflexivity| | |assumption|now apply (text_ok_list P l)|assumption].
    + rewrite Forall_forall in *. intros y Hy ? ? ?. now apply IH.
    + rewrite Forall_forall. intros y Hy Hwy Hty Hdy.
      destruct (roundtrip_rt P y Hwy Hdy Hty (depth y) (le_n _)) as (bs & E & _). eauto.
  - cbn [wf] in Hw. apply andb_true_iff in Hw as [Hw Hwc]. apply andb_true_iff in Hw as [Hwa Hwb].
    assert (Hts : text_ok P a = true /\ text_ok P b = true /\ text_ok P c = true).
    { unfold text_ok in *. destruct (sp P); [auto|]. cbn [orb nosurr] in *.
      apply andb_true_iff in Ht as [Ht Htc]. apply andb_true_iff in Ht as [Hta Htb]. auto. }
    destruct Hts as (Hta & Htb & Htc). cbn [dump].
    destruct (dumpable a) eqn:Da; [|now rewrite (IHa Hwa Hta eq_refl)].
    destruct (roundtrip_rt P a Hwa Da Hta (depth a) (le_n _)) as (x & -> & _). cbn [bind].
    destruct (dumpable b) eqn:Db; [|now rewrite (IHb Hwb Htb eq_refl)].
    destruct (roundtrip_rt P b Hwb Db Htb (depth b) (le_n _)) as (y & -> & _). cbn [bind].
    destruct (dumpable c) eqn:Dc; [discriminate|]. now rewrite (IHc Hwc Htc eq_refl).
Qed.

(* F1: with the strict codec the predicate and the encoder disagree on lone surrogates *)
Theorem decision_exact_refuted P : sp P = false ->
  exists v, wf P v = true /\ dumpable v = true /\ dump P v = Raise UnicodeError.
Proof.
  intros H. exists (PStr [0xD800]). repeat split. cbn [dump utf8_encode]. unfold enc1. rewrite H. reflexivity.
Qed.

(* ---- the public entry point: brine.load(brine.dump(v)) = v ---- *)
Lemma max_le_fold (l : list pyval) (g : pyval -> nat) y : In y l -> (g y <= fold_right (fun y m => Nat.max (g y) m) O l)%nat.
Proof. induction l as [|x xs IH]; cbn; [tauto|]. intros [->|H]; [lia|specialize (IH H); lia]. Qed.

Lemma dump_items_len P l body : dump_items P l = Ok body ->
  Forall (fun y => forall bs, dump P y = Ok bs -> (depth y <= S (length bs))%nat) l ->
  (fold_right (fun y m => Nat.max (depth y) m) O l <= S (length body))%nat.
Proof.
  revert body. induction l as [|y ys IH]; intros body E HF; cbn [fold_right]; [lia|].
  cbn [dump_items] in E. destruct (dump P y) as [a| | |] eqn:Ea; cbn [bind] in E; try discriminate.
  destruct (dump_items P ys) as [b| | |] eqn:Eb; cbn [bind] in E; try discriminate. injection E as <-.
  inversion HF as [|? ? Hy Hys]; subst. specialize (Hy a Ea). specialize (IH b eq_refl Hys).
  rewrite app_length. lia.
Qed.

Lemma ladder_nonempty l n h : ladder_hdr l n = Ok h -> (1 <= length h)%nat.
Proof.
  induction l as [|[[[c k] t] f] rest IH]; cbn [ladder_hdr]; [discriminate|].
  destruct (lcmp_holds c n k); [|exact IH].
  destruct (lfield_bytes f n); cbn [bind]; try discriminate. intros [= <-]. cbn. lia.
Qed.

Lemma depth_le P : forall v bs, dump P v = Ok bs -> (depth v <= S (length bs))%nat.
Proof.
  induction v as [| | |b|z|b|b|b|cps|l IH|l IH|a b c IHa IHb IHc|k] using pyval_ind';
    intros bs E; cbn [depth]; try lia; cbn [dump] in E.
  - destruct (utf8_encode (sp P) cps); cbn [bind] in E; try discriminate.
    unfold dump_bytes in E. destruct (hdr_str (nlen a)) eqn:Eh; cbn [bind] in E; try discriminate.
    injection E as <-. apply ladder_nonempty in Eh. cbn [length]. rewrite app_length. lia.
  - destruct (hdr_tup (nlen l)) eqn:Eh; cbn [bind] in E; try discriminate. rewrite dump_items_eq in E.
    destruct (dump_items P l) as [body| | |] eqn:Eb; cbn [bind] in E; try discriminate. injection E as <-.
    apply ladder_nonempty in Eh. pose proof (dump_items_len P l body Eb IH). rewrite app_length. lia.
  - destruct (hdr_tup (nlen l)) eqn:Eh; cbn [bind] in E; try discriminate. rewrite dump_items_eq in E.
    destruct (dump_items P l) as [body| | |] eqn:Eb; cbn [bind] in E; try discriminate. injection E as <-.
    apply ladder_nonempty in Eh. pose proof (dump_items_len P l body Eb IH). cbn [length]. rewrite app_length. lia.
  - destruct (dump P a) as [x| | |] eqn:Ex; cbn [bind] in E; try discriminate.
    destruct (dump P b) as [y| | |] eqn:Ey; cbn [bind] in E; try discriminate.
    destruct (dump P c) as [z| | |] eqn:Ez; cbn [bind] in E; try discriminate. injection E as <-.
    specialize (IHa x eq_refl). specialize (IHb y eq_refl). specialize (IHc z eq_refl).
    cbn [length]. rewrite !app_length. lia.
Qed.

Theorem load_dump P v : wf P v = true -> dumpable v = true -> text_ok P v = true ->
  exists bs, dump P v = Ok bs /\ load P bs = Ok v.
Proof.
  intros Hw Hd Ht. destruct (roundtrip_rt P v Hw Hd Ht (S (length (match dump P v with Ok b => b | _ => [] end)))) as (bs & E & _ & H).
  { rewrite <- (app_nil_r _). destruct (roundtrip_rt P v Hw Hd Ht (depth v) (le_n _)) as (bs & E & _).
    rewrite E. rewrite app_nil_r. now apply (depth_le P v bs). }
  exists bs. split; [exact E|]. unfold load. rewrite E in H. specialize (H []). rewrite app_nil_r in H. now rewrite H.
Qed.

(* ---- decoder safety: whatever bytes come in, a successful decode yields only immutable plain values ---- *)
Section Safe.
Variable P : bparams.
Variable rec : list byte -> result (pyval * list byte).
Hypothesis rec_safe : forall bs v r, rec bs = Ok (v, r) -> dumpable v = true.

Lemma items_safe : forall k n bs acc l r, forallb dumpable acc = true ->
  items rec k n bs acc = Ok (l, r) -> forallb dumpable l = true.
Proof.
  induction k as [|k IH]; intros n bs acc l r Ha; cbn [items]; destruct (n =? 0).
  - intros [= <- <-]. clear -Ha. rewrite forallb_forall in *. intros x Hx. apply Ha. now apply in_rev.
  - discriminate.
  - intros [= <- <-]. clear -Ha. rewrite forallb_forall in *. intros x Hx. apply Ha. now apply in_rev.
  - destruct (rec bs) as [[y r']| | |] eqn:E; cbn [bind]; try discriminate.
    intros H. assert (Ha' : forallb dumpable (y :: acc) = true) by (cbn [forallb]; rewrite (rec_safe _ _ _ E); exact Ha).
    exact (IH _ _ _ _ _ Ha' H).
Qed.

Lemma tup_of_safe n r v r' : tup_of rec n r = Ok (v, r') -> dumpable v = true.
Proof.
  unfold tup_of. destruct (items rec (S (length r)) n r []) as [[l r'']| | |] eqn:E; cbn [bind]; try discriminate.
  intros [= <- <-]. cbn [dumpable]. eapply items_safe; [|exact E]. reflexivity.
Qed.
Lemma bytes_of_safe n r v r' : bytes_of n r = Ok (v, r') -> dumpable v = true.
Proof. unfold bytes_of. destruct (take_upto n r). now intros [= <- <-]. Qed.
Lemma int_of_safe n r v r' : int_of P n r = Ok (v, r') -> dumpable v = true.
Proof. unfold int_of. destruct (take_upto n r). destruct (parse _ _); cbn [bind]; try discriminate. now intros [= <- <-]. Qed.
Lemma iter_elems_safe s o es : dumpable o = true -> iter_elems s o = Ok es -> forallb dumpable es = true.
Proof.
  destruct o; cbn [iter_elems dumpable]; try discriminate.
  - intros _ [= <-]. induction b; cbn; auto.
  - intros _ [= <-]. induction cps; cbn; auto.
  - now intros H [= <-].
  - destruct s; [discriminate|]. now intros H [= <-].
Qed.

Lemma load_body_safe bs v r : load_body P rec bs = Ok (v, r) -> dumpable v = true.
Proof.
  unfold load_body. destruct bs as [|t bs]; [discriminate|].
  destruct ((32 <=? to_N t) && (to_N t <? 240)); [now intros [= <- <-]|].
  unfold with_I1, with_I4.
  destruct t; try discriminate; try (now intros [= <- <-]);
    try (apply bytes_of_safe); try (apply tup_of_safe);
    try (destruct bs as [|n1 bs]; [discriminate|]; first [apply bytes_of_safe|apply tup_of_safe|apply int_of_safe]);
    try (destruct bs as [|n1 [|n2 [|n3 [|n4 bs]]]]; try discriminate; first [apply bytes_of_safe|apply tup_of_safe|apply int_of_safe]).
  - (* unicode *) destruct (rec bs) as [[o r']| | |]; cbn [bind]; try discriminate.
    destruct o; try discriminate. destruct (utf8_decode (sp P) b); try discriminate. now intros [= <- <-].
  - (* float *) destruct (take_upto 8 bs). destruct (nlen l =? 8); [|discriminate]. now intros [= <- <-].
  - (* slice *) destruct (rec bs) as [[o r']| | |] eqn:E; cbn [bind]; try discriminate.
    destruct (iter_elems true o) as [es| | |] eqn:Ei; cbn [bind]; try discriminate.
    pose proof (iter_elems_safe _ _ _ (rec_safe _ _ _ E) Ei) as Hs.
    destruct es as [|a [|b [|c [|d es]]]]; try discriminate. intros [= <- <-]. cbn in Hs. cbn [dumpable].
    rewrite andb_true_r in Hs. now rewrite <- andb_assoc.
  - (* frozenset *) destruct (rec bs) as [[o r']| | |] eqn:E; cbn [bind]; try discriminate.
    destruct (iter_elems false o) as [es| | |] eqn:Ei; cbn [bind]; try discriminate.
    intros [= <- <-]. cbn [dumpable]. apply (iter_elems_safe _ _ _ (rec_safe _ _ _ E) Ei).
  - (* complex *) destruct (take_upto 16 bs). destruct (nlen l =? 16); [|discriminate]. now intros [= <- <-].
Qed.
End Safe.

Theorem load_safe P : forall f bs v r, load_f P f bs = Ok (v, r) -> dumpable v = true.
Proof.
  induction f as [|f IH]; intros bs v r; cbn [load_f]; [discriminate|].
  apply load_body_safe. exact IH.
Qed.

(* the top-level decoder never runs out of fuel: fuel only bounds nesting, and every level consumes a byte *)
Section Total.
Variable P : bparams.
Lemma items_total rec : (forall bs, rec bs <> OutOfFuel) ->
  (forall bs v r, rec bs = Ok (v, r) -> (length r < length bs)%nat) ->
  forall k n bs acc, (length bs < k)%nat -> items rec k n bs acc <> OutOfFuel.
Proof.
  intros Hr Hc. induction k as [|k IH]; intros n bs acc Hk; [lia|]. cbn [items].
  destruct (n =? 0); [discriminate|].
  destruct (rec bs) as [[y r]| | |] eqn:E; cbn [bind]; try discriminate.
  - apply IH. specialize (Hc _ _ _ E). lia.
  - now apply Hr in E.
Qed.
End Total.

(* ---- the decoder always terminates with a definite outcome: fuel only bounds nesting and every level consumes a byte ---- *)
Lemma take_upto_len n (bs a b : list byte) : take_upto n bs = (a, b) -> (length b <= length bs)%nat.
Proof.
  unfold take_upto. destruct (nlen bs <=? n)%N; intros [= <- <-]; [cbn; lia|]. rewrite skipn_length. lia.
Qed.

Section Shrink.
Variable P : bparams.
Variable rec : list byte -> result (pyval * list byte).
Hypothesis rec_shrinks : forall bs v r, rec bs = Ok (v, r) -> (length r < length bs)%nat.

Lemma items_shrinks : forall k n bs acc l r, items rec k n bs acc = Ok (l, r) -> (length r <= length bs)%nat.
Proof.
  induction k as [|k IH]; intros n bs acc l r; cbn [items]; destruct (n =? 0)%N; try discriminate; try (intros [= <- <-]; lia).
  destruct (rec bs) as [[y r']| | |] eqn:E; cbn [bind]; try discriminate.
  intros H. apply IH in H. apply rec_shrinks in E. lia.
Qed.
Lemma tup_of_shrinks n r v r' : tup_of rec n r = Ok (v, r') -> (length r' <= length r)%nat.
Proof.
  unfold tup_of. destruct (items rec (S (length r)) n r []) as [[l r'']| | |] eqn:E; cbn [bind]; try discriminate.
  intros [= <- <-]. now apply items_shrinks in E.
Qed.
Lemma bytes_of_shrinks n r v r' : bytes_of n r = Ok (v, r') -> (length r' <= length r)%nat.
Proof. unfold bytes_of. destruct (take_upto n r) eqn:E. intros [= <- <-]. now apply take_upto_len in E. Qed.
Lemma int_of_shrinks n r v r' : int_of P n r = Ok (v, r') -> (length r' <= length r)%nat.
Proof.
  unfold int_of. destruct (take_upto n r) eqn:E. destruct (parse _ _); cbn [bind]; try discriminate.
  intros [= <- <-]. now apply take_upto_len in E.
Qed.

Lemma load_body_shrinks bs v r : load_body P rec bs = Ok (v, r) -> (length r < length bs)%nat.
Proof.
  unfold load_body. destruct bs as [|t bs]; [discriminate|]. cbn [length].
  destruct ((32 <=? to_N t) && (to_N t <? 240))%N; [intros [= <- <-]; lia|].
  unfold with_I1, with_I4.
  destruct t; try discriminate; try (intros [= <- <-]; lia);
    try (intros H; first [apply bytes_of_shrinks in H|apply tup_of_shrinks in H]; lia);
    try (destruct bs as [|n1 bs]; [discriminate|]; intros H; first [apply bytes_of_shrinks in H|apply tup_of_shrinks in H|apply int_of_shrinks in H]; cbn [length]; lia);
    try (destruct bs as [|n1 [|n2 [|n3 [|n4 bs]]]]; try discriminate; intros H;
         first [apply bytes_of_shrinks in H|apply tup_of_shrinks in H|apply int_of_shrinks in H]; cbn [length]; lia).
  - destruct (rec bs) as [[o r']| | |] eqn:E; cbn [bind]; try discriminate. apply rec_shrinks in E.
    destruct o; try discriminate. destruct (utf8_decode (sp P) b); try discriminate. intros [= <- <-]. lia.
  - destruct (take_upto 8 bs) eqn:E. destruct (nlen l =? 8)%N; [|discriminate]. intros [= <- <-]. apply take_upto_len in E. lia.
  - destruct (rec bs) as [[o r']| | |] eqn:E; cbn [bind]; try discriminate. apply rec_shrinks in E.
    destruct (iter_elems true o) as [es| | |]; cbn [bind]; try discriminate.
    destruct es as [|a [|b [|c [|d es]]]]; try discriminate. intros [= <- <-]. lia.
  - destruct (rec bs) as [[o r']| | |] eqn:E; cbn [bind]; try discriminate. apply rec_shrinks in E.
    destruct (iter_elems false o) as [es| | |]; cbn [bind]; try discriminate. intros [= <- <-]. lia.
  - destruct (take_upto 16 bs) eqn:E. destruct (nlen l =? 16)%N; [|discriminate]. intros [= <- <-]. apply take_upto_len in E. lia.
Qed.
End Shrink.

Lemma load_f_shrinks P : forall f bs v r, load_f P f bs = Ok (v, r) -> (length r < length bs)%nat.
Proof.
  induction f as [|f IH]; intros bs v r; cbn [load_f]; [discriminate|]. apply load_body_shrinks. exact IH.
Qed.

Section NoFuel.
Variable P : bparams.
Variable rec : list byte -> result (pyval * list byte).
Variable bound : nat.
Hypothesis rec_shrinks : forall bs v r, rec bs = Ok (v, r) -> (length r < length bs)%nat.
Hypothesis rec_total : forall bs, (length bs < bound)%nat -> rec bs <> OutOfFuel.

Lemma items_total' : forall k n bs acc, (length bs < k)%nat -> (length bs < bound)%nat -> items rec k n bs acc <> OutOfFuel.
Proof.
  induction k as [|k IH]; intros n bs acc Hk Hb; [lia|]. cbn [items]. destruct (n =? 0)%N; [discriminate|].
  destruct (rec bs) as [[y r]| | |] eqn:E; cbn [bind]; try discriminate.
  - apply rec_shrinks in E. apply IH; lia.
  - now apply rec_total in E.
Qed.
Lemma tup_of_total n r : (length r < bound)%nat -> tup_of rec n r <> OutOfFuel.
Proof.
  intros Hb. unfold tup_of. destruct (items rec (S (length r)) n r []) as [[l r'']| | |] eqn:E; cbn [bind]; try discriminate.
  exfalso. revert E. apply items_total'; lia.
Qed.
Lemma bytes_of_total n r : bytes_of n r <> OutOfFuel.
Proof. unfold bytes_of. destruct (take_upto n r). discriminate. Qed.
Lemma int_of_total n r : int_of P n r <> OutOfFuel.
Proof. unfold int_of. destruct (take_upto n r). unfold parse. destruct (_ : list byte) ; cbn; repeat match goal with |- context [match ?x with _ => _ end] => destruct x end; cbn; try discriminate. Qed.
End NoFuel.

Lemma dec1_shrinks sp l c r : dec1 sp l = Some (c, r) -> (length r < length l)%nat.
Proof.
  unfold dec1. destruct l as [|b0 t0]; [discriminate|]. cbn [length].
  repeat match goal with
  | |- context [if ?c then _ else _] => destruct c
  | |- context [match ?l with [] => _ | _ :: _ => _ end] => destruct l
  end; try discriminate; intros [= <- <-]; cbn [length]; lia.
Qed.
Lemma utf8_decode_f_total sp : forall f l, (length l <= f)%nat -> utf8_decode_f f sp l <> OutOfFuel.
Proof.
  induction f as [|f IH]; intros l Hl; destruct l as [|b t]; cbn [utf8_decode_f]; try discriminate; [cbn in Hl; lia|].
  destruct (dec1 sp (b :: t)) as [[c r]|] eqn:E; [|discriminate].
  apply dec1_shrinks in E. specialize (IH r ltac:(cbn [length] in *; lia)).
  destruct (utf8_decode_f f sp r); cbn [bind]; try discriminate. congruence.
Qed.

Section NoFuel2.
Variable P : bparams.
Variable rec : list byte -> result (pyval * list byte).
Variable bound : nat.
Hypothesis rec_shrinks : forall bs v r, rec bs = Ok (v, r) -> (length r < length bs)%nat.
Hypothesis rec_total : forall bs, (length bs < bound)%nat -> rec bs <> OutOfFuel.

Lemma load_body_total bs : (length bs <= bound)%nat -> load_body P rec bs <> OutOfFuel.
Proof.
  unfold load_body. destruct bs as [|t bs]; [discriminate|]. cbn [length]. intros Hb.
  destruct ((32 <=? to_N t) && (to_N t <? 240))%N; [discriminate|].
  assert (Hr : rec bs <> OutOfFuel) by (apply rec_total; lia).
  assert (Ht : forall n r, (length r <= length bs)%nat -> tup_of rec n r <> OutOfFuel)
    by (intros n r Hl; apply (tup_of_total rec bound rec_shrinks rec_total); lia).
  unfold with_I1, with_I4.
  destruct t; try discriminate; try apply bytes_of_total; try (apply Ht; lia);
    try (destruct bs as [|n1 bs]; [discriminate|]; first [apply bytes_of_total|apply int_of_total|apply Ht; cbn [length]; lia]);
    try (destruct bs as [|n1 [|n2 [|n3 [|n4 bs]]]]; try discriminate; first [apply bytes_of_total|apply int_of_total|apply Ht; cbn [length]; lia]).
  - destruct (rec bs) as [[o r']| | |]; cbn [bind]; try discriminate; [|congruence].
    destruct o; try discriminate. pose proof (utf8_decode_f_total (sp P) (length b) b (le_n _)) as X. unfold utf8_decode.
    destruct (utf8_decode_f (length b) (sp P) b); try discriminate. congruence.
  - destruct (take_upto 8 bs). destruct (nlen l =? 8)%N; discriminate.
  - destruct (rec bs) as [[o r']| | |]; cbn [bind]; try discriminate; [|congruence].
    destruct (iter_elems true o) as [es| | |] eqn:Ei; cbn [bind]; try discriminate.
    + destruct es as [|a [|b [|c [|d es]]]]; discriminate.
    + destruct o; cbn in Ei; try discriminate.
  - destruct (rec bs) as [[o r']| | |]; cbn [bind]; try discriminate; [|congruence].
    destruct (iter_elems false o) as [es| | |] eqn:Ei; cbn [bind]; try discriminate.
    destruct o; cbn in Ei; try discriminate.
  - destruct (take_upto 16 bs). destruct (nlen l =? 16)%N; discriminate.
Qed.
End NoFuel2.

Theorem load_f_total P : forall f bs, (length bs < f)%nat -> load_f P f bs <> OutOfFuel.
Proof.
  induction f as [|f IH]; intros bs Hl; [lia|]. cbn [load_f].
  apply (load_body_total P (load_f P f) f (load_f_shrinks P f) IH). lia.
Qed.

Theorem load_total P bs : load P bs <> OutOfFuel.
Proof.
  unfold load. pose proof (load_f_total P (S (length bs)) bs (Nat.lt_succ_diag_r _)) as H.
  destruct (load_f P (S (length bs)) bs) as [[v r]| | |]; cbn [bind]; try discriminate. congruence.
Qed.
