(* Tie between the facts generated from rpyc/lib/__init__.py (Timeout), rpyc/core/async_.py (AsyncResult),
   rpyc/core/protocol.py (sync_request / async_request / _dispatch), rpyc/core/netref.py (syncreq / asyncreq) and
   rpyc/utils/helpers.py (timed) -- gen/Gen_libinit.v and gen/Gen_async_.v, regenerated on every run -- and what
   model/Async.v uses.  Every lemma is by computation.  __call__ and add_callback are accepted in two forms (the current
   one and the repaired one); which one the tree has is the pair of generated facts the model is parameterised with. *)
From V Require Import lib.Base model.Async gen.Gen_libinit gen.Gen_async_.
From Coq Require Import String.

(* Timeout: finite / tmax / expired / timeleft are the model's functions *)
Lemma tie_timeout_finite : Gen_libinit.Timeout_init_finite = Async.timeout_finite.
Proof. reflexivity. Qed.
Lemma tie_timeout_tmax : Gen_libinit.Timeout_init_tmax = Async.timeout_tmax.
Proof. reflexivity. Qed.
Lemma tie_timeout_expired : Gen_libinit.Timeout_expired = Async.timeout_expired.
Proof. reflexivity. Qed.
Lemma tie_timeout_timeleft : Gen_libinit.Timeout_timeleft = Async.timeout_timeleft.
Proof. reflexivity. Qed.
Lemma tie_timeout_copy : Gen_libinit.Timeout_init_copies_fields = ["self.finite = timeout.finite"; "self.tmax = timeout.tmax"]%string.
Proof. reflexivity. Qed.

(* the two facts are what the programs say *)
Lemma tie_facts :
  Gen_async_.callbacks_isolated = Async.isolated_of Gen_async_.AsyncResult_call /\
  Gen_async_.add_callback_atomic = Async.atomic_of Gen_async_.AsyncResult_call Gen_async_.AsyncResult_add_callback.
Proof. split; reflexivity. Qed.

(* AsyncResult: the method bodies are the model's skeleton programs *)
Lemma tie_call : Gen_async_.AsyncResult_call = Async.call_prog Gen_async_.callbacks_isolated.
Proof. reflexivity. Qed.
Lemma tie_add_callback : Gen_async_.AsyncResult_add_callback = Async.add_callback_prog Gen_async_.add_callback_atomic.
Proof. reflexivity. Qed.
Lemma tie_wait : Gen_async_.AsyncResult_wait = Async.wait_prog.
Proof. reflexivity. Qed.
Lemma tie_set_expiry : Gen_async_.AsyncResult_set_expiry = Async.set_expiry_prog.
Proof. reflexivity. Qed.
Lemma tie_ready : Gen_async_.AsyncResult_ready = Async.ready_prog.
Proof. reflexivity. Qed.
Lemma tie_error : Gen_async_.AsyncResult_error = Async.error_prog.
Proof. reflexivity. Qed.
Lemma tie_expired : Gen_async_.AsyncResult_expired = Async.expired_prog.
Proof. reflexivity. Qed.
Lemma tie_value : Gen_async_.AsyncResult_value = Async.value_prog.
Proof. reflexivity. Qed.

(* the callers *)
Lemma tie_sync_request : Gen_async_.Connection_sync_request = Async.sync_request_prog.
Proof. reflexivity. Qed.
Lemma tie_async_request : Gen_async_.Connection_async_request = Async.async_request_prog.
Proof. reflexivity. Qed.
Lemma tie_timed_call : Gen_async_.timed_call_body = Async.timed_call_prog.
Proof. reflexivity. Qed.
Lemma tie_syncreq : Gen_async_.netref_syncreq = Async.syncreq_prog.
Proof. reflexivity. Qed.
Lemma tie_asyncreq : Gen_async_.netref_asyncreq = Async.asyncreq_prog.
Proof. reflexivity. Qed.
(* _dispatch unboxes the reply's value before it looks the callback up (the model's [dispatch] does the same) *)
Lemma tie_dispatch_reply : Gen_async_.Connection_dispatch_reply = Async.dispatch_reply_order.
Proof. reflexivity. Qed.
