(* The closed state: once an operation has met the end of the stream or a transport failure, the stream is closed; a closed
   stream answers every later operation with EOFError and touches nothing. *)
From V Require Import lib.Base model.Channel model.ChannelS.
Open Scope N_scope.

Section S.
Variable compress : list byte -> list byte.
Variable decompress : list byte -> result (list byte).
Variable P : cparams.
Variable tolerant cmp : bool.
Local Notation sstep := (sstep compress decompress P tolerant cmp).
Local Notation srun := (srun compress decompress P tolerant cmp).

Lemma sstep_closed s o : closed s = true -> sstep s o = (s, OEOF).
Proof. intros H. unfold ChannelS.sstep. now rewrite H. Qed.

Theorem closed_absorbing : forall ops s, closed s = true -> srun s ops = (s, map (fun _ => OEOF) ops).
Proof.
  induction ops as [|o t IH]; intros s H; [reflexivity|]. cbn [ChannelS.srun map]. rewrite (sstep_closed s o H), (IH s H). reflexivity.
Qed.

(* on an open stream: the operation reports EOFError exactly when it leaves the stream closed *)
Theorem eof_iff_closed s o s' r : closed s = false -> sstep s o = (s', r) -> (r = OEOF <-> closed s' = true).
Proof.
  intros H E. unfold ChannelS.sstep in E. rewrite H in E. destruct o as [d|].
  - destruct (channel_send compress P cmp (wevs s) d) as [[[ok w] e']| e | |]; try (injection E as <- <-; rewrite H; split; discriminate).
    destruct ok; injection E as <- <-; cbn; split; auto; discriminate.
  - destruct (channel_recv decompress P tolerant (revs s) (avail s)) as [[rc r'] a']. destruct rc; injection E as <- <-; cbn; split; auto; discriminate.
Qed.

(* an operation that fails for another reason leaves the stream open: an undescribable packet writes nothing at all *)
Theorem rejected_packet_touches_nothing s d e s' : closed s = false -> sstep s (SSend d) = (s', OErr e) -> s' = s.
Proof.
  intros H E. unfold ChannelS.sstep in E. rewrite H in E.
  destruct (channel_send compress P cmp (wevs s) d) as [[[ok w] e']| e0 | |]; try (now injection E as <- _).
  destruct ok; discriminate.
Qed.

Lemma srun_app : forall a b s, srun s (a ++ b) = let '(s1, r1) := srun s a in let '(s2, r2) := srun s1 b in (s2, r1 ++ r2).
Proof.
  induction a as [|o t IH]; intros b s; cbn [app ChannelS.srun].
  - now destruct (srun s b).
  - destruct (sstep s o) as [s1 r]. rewrite IH. destruct (srun s1 t) as [s2 rs]. now destruct (srun s2 b).
Qed.

Lemma srun_closed_mono : forall ops s s' rs, srun s ops = (s', rs) -> closed s = true -> closed s' = true.
Proof. intros ops s s' rs E H. rewrite (closed_absorbing ops s H) in E. now injection E as <- _. Qed.

Lemma srun_eof_closed : forall ops s s' rs, srun s ops = (s', rs) -> In OEOF rs -> closed s' = true.
Proof.
  induction ops as [|o t IH]; intros s s' rs E Hin; cbn [ChannelS.srun] in E.
  - injection E as <- <-. contradiction.
  - destruct (sstep s o) as [s1 r] eqn:E1. destruct (srun s1 t) as [s2 rs2] eqn:E2. injection E as <- <-.
    destruct Hin as [->|Hin]; [|exact (IH s1 s2 rs2 E2 Hin)].
    apply (srun_closed_mono t s1 s2 rs2 E2). destruct (closed s) eqn:Hc.
    + rewrite (sstep_closed s o Hc) in E1. now injection E1 as <-.
    + exact (proj1 (eof_iff_closed s o s1 OEOF Hc E1) eq_refl).
Qed.

(* the whole statement: in any session, once some operation has reported EOFError every later operation reports EOFError, and
   the transport (bytes written, bytes and events left) is exactly what it was after the earlier operations *)
Theorem after_eof_everything_fails : forall before after s s1 r1,
  srun s before = (s1, r1) -> In OEOF r1 -> srun s (before ++ after) = (s1, r1 ++ map (fun _ => OEOF) after).
Proof.
  intros before after s s1 r1 E Hin. rewrite srun_app, E. rewrite (closed_absorbing after s1 (srun_eof_closed before s s1 r1 E Hin)). reflexivity.
Qed.

(* and conversely a session that never reported EOFError is still open *)
Theorem open_until_eof : forall ops s s' rs, closed s = false -> srun s ops = (s', rs) -> ~ In OEOF rs -> closed s' = false.
Proof.
  induction ops as [|o t IH]; intros s s' rs H E Hn; cbn [ChannelS.srun] in E.
  - now injection E as <- _.
  - destruct (sstep s o) as [s1 r] eqn:E1. destruct (srun s1 t) as [s2 rs2] eqn:E2. injection E as <- <-.
    apply (IH s1 s2 rs2); [|exact E2|intros X; apply Hn; now right].
    destruct (closed s1) eqn:H1; [|reflexivity]. exfalso. apply Hn. left. exact (proj2 (eof_iff_closed s o s1 r H E1) H1).
Qed.
End S.
