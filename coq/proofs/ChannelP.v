(* Proofs about model/Channel.v *)
From V Require Import lib.Base lib.Sx model.Ladder model.Channel.
From Coq Require Import ZifyBool.
Open Scope N_scope.
Ltac Zify.zify_post_hook ::= Z.to_euclidean_division_equations.

(* ---- list helpers over N ---- *)
Lemma nfirst_nskip n (l : list byte) : nfirst n l ++ nskip n l = l.
Proof. apply firstn_skipn. Qed.
Lemma nlen_app {A} (a b : list A) : nlen (a ++ b) = nlen a + nlen b.
Proof. unfold nlen. rewrite app_length. lia. Qed.
Lemma nfirst_app_le n (a b : list byte) : n <= nlen a -> nfirst n (a ++ b) = nfirst n a.
Proof.
  unfold nfirst, nlen. intros H. rewrite firstn_app.
  replace (N.to_nat n - length a)%nat with O by lia. cbn. apply app_nil_r.
Qed.
Lemma nskip_app_le n (a b : list byte) : n <= nlen a -> nskip n (a ++ b) = nskip n a ++ b.
Proof.
  unfold nskip, nlen. intros H. rewrite skipn_app.
  replace (N.to_nat n - length a)%nat with O by lia. reflexivity.
Qed.
Lemma nfirst_all n (a : list byte) : nlen a <= n -> nfirst n a = a.
Proof. unfold nfirst, nlen. intros H. apply firstn_all2. lia. Qed.
Lemma nskip_all n (a : list byte) : nlen a <= n -> nskip n a = [].
Proof. unfold nskip, nlen. intros H. apply skipn_all2. lia. Qed.
Lemma nlen_nfirst n (a : list byte) : n <= nlen a -> nlen (nfirst n a) = n.
Proof. unfold nfirst, nlen. intros H. rewrite firstn_length. lia. Qed.
Lemma nlen_nskip n (a : list byte) : nlen (nskip n a) = nlen a - n.
Proof. unfold nskip, nlen. rewrite skipn_length. lia. Qed.
Lemma nlen_nil {A} (l : list A) : nlen l = 0 -> l = [].
Proof. destruct l; [reflexivity|unfold nlen; cbn; lia]. Qed.

(* ---- writing ---- *)
Definition benign_w (evs : list wev) : Prop := Forall (fun e => e <> WErr) evs.

Lemma stream_write_complete chunk : 1 <= chunk -> forall evs data wire, benign_w evs ->
  exists evs', stream_write chunk evs data wire = (true, wire ++ data, evs') /\ benign_w evs'.
Proof.
  intros Hc. induction evs as [|e evs IH]; intros data wire Hb.
  - destruct data; cbn; eexists; (split; [rewrite ?app_nil_r; reflexivity|constructor]).
  - inversion Hb as [|? ? He Hb']; subst. destruct data as [|d0 data].
    { cbn. eexists. split; [now rewrite app_nil_r|exact Hb]. }
    destruct e as [k|]; [|congruence]. cbn [stream_write].
    destruct (IH (nskip (N.max 1 (N.min k (N.min chunk (nlen (d0 :: data))))) (d0 :: data))
                 (wire ++ nfirst (N.max 1 (N.min k (N.min chunk (nlen (d0 :: data))))) (d0 :: data)) Hb') as (evs' & E & B).
    exists evs'. split; [|exact B]. rewrite E. now rewrite <- app_assoc, nfirst_nskip.
Qed.

Section Z.
Variable compress : list byte -> list byte.
Variable decompress : list byte -> result (list byte).
Hypothesis zlib_roundtrip : forall x, decompress (compress x) = Ok x.
Variable P : cparams.
Hypothesis Hhdr : hdr_size P = 5.
Hypothesis Hchunk : hdr_size P + nlen (flusher P) <= chunk P.

Lemma chunk_pos : 1 <= chunk P.
Proof. rewrite Hhdr in Hchunk. lia. Qed.

Lemma do_writes_complete : forall ws evs wire, benign_w evs ->
  exists evs', do_writes P evs ws wire = (true, wire ++ concat ws, evs') /\ benign_w evs'.
Proof.
  induction ws as [|w ws IH]; intros evs wire Hb; cbn [do_writes concat].
  - eexists. split; [now rewrite app_nil_r|exact Hb].
  - destruct (stream_write_complete (chunk P) chunk_pos evs w wire Hb) as (evs1 & E & B1). rewrite E.
    destruct (IH evs1 (wire ++ w) B1) as (evs2 & E2 & B2). exists evs2. split; [|exact B2].
    rewrite E2. now rewrite <- app_assoc.
Qed.

Lemma send_writes_concat cmp data ws : send_writes compress P cmp data = Ok ws ->
  frame compress P cmp data = Ok (concat ws).
Proof.
  unfold send_writes, frame. destruct (frame_body compress P cmp data) as [flag body].
  destruct (header (nlen body) flag) as [h| | |]; cbn [bind]; try discriminate.
  destruct (hdr_size P + nlen body + nlen (flusher P) <=? chunk P); intros [= <-]; cbn [concat].
  - now rewrite app_nil_r.
  - rewrite app_nil_r, <- app_assoc. do 2 f_equal. rewrite app_assoc, nfirst_nskip. reflexivity.
Qed.

(* a sender over a transport that never fails puts exactly the frame on the wire, however writes are split *)
Theorem send_complete cmp data evs f : benign_w evs -> frame compress P cmp data = Ok f ->
  exists evs', channel_send compress P cmp evs data = Ok (true, f, evs').
Proof.
  intros Hb Hf. unfold channel_send.
  assert (Hws : exists ws, send_writes compress P cmp data = Ok ws).
  { unfold send_writes, frame in *. destruct (frame_body compress P cmp data) as [flag body].
    destruct (header (nlen body) flag); cbn [bind] in *; try discriminate.
    destruct (_ <=? _); eauto. }
  destruct Hws as (ws & Ew). rewrite Ew. cbn [bind].
  pose proof (send_writes_concat _ _ _ Ew) as Hc. rewrite Hf in Hc. injection Hc as ->.
  destruct (do_writes_complete ws evs [] Hb) as (evs' & E & _). exists evs'. now rewrite E.
Qed.

(* ---- reading ---- *)
Definition benign_r (tol : bool) (evs : list revt) : Prop :=
  Forall (fun e => match e with RData _ => True | RTimeout | RWouldBlock => tol = true | _ => False end) evs.

(* whatever the oracle does, a read of [req] bytes in front of which exactly [bs] is available either returns exactly bs or fails *)
Lemma stream_read_spec tol : forall evs req bs rest acc, 1 <= chunk P -> nlen bs = req ->
  (exists evs', stream_read tol (chunk P) evs req (bs ++ rest) acc = (Some (acc ++ bs), evs', rest) /\ (benign_r tol evs -> benign_r tol evs'))
  \/ (exists evs' av, stream_read tol (chunk P) evs req (bs ++ rest) acc = (None, evs', av) /\ ~ benign_r tol evs).
Proof.
  induction evs as [|e evs IH]; intros req bs rest acc Hc Hl.
  - left. exists []. cbn [stream_read]. destruct (N.eqb_spec req 0) as [E|E].
    + rewrite E in Hl. apply nlen_nil in Hl. subst. cbn. rewrite app_nil_r. split; [reflexivity|auto].
    + destruct (N.ltb_spec (nlen (bs ++ rest)) req) as [H|H]; [rewrite nlen_app in H; lia|].
      rewrite nfirst_app_le, nskip_app_le, nfirst_all, nskip_all by lia. split; [reflexivity|auto].
  - cbn [stream_read]. destruct (N.eqb_spec req 0) as [E|E].
    { left. rewrite E in Hl. apply nlen_nil in Hl. subst. cbn. rewrite app_nil_r. eexists. split; [reflexivity|auto]. }
    destruct e as [k| | | |].
    + destruct (bs ++ rest) as [|x xs] eqn:Eav.
      { apply (f_equal nlen) in Eav. rewrite nlen_app in Eav. unfold nlen at 3 in Eav. cbn in Eav. lia. }
      rewrite <- Eav. clear x xs Eav.
      set (n := N.max 1 (N.min k (N.min (N.min (chunk P) req) (nlen (bs ++ rest))))).
      assert (Hn : 1 <= n <= req) by (subst n; rewrite nlen_app; lia).
      rewrite nfirst_app_le, nskip_app_le by lia.
      destruct (IH (req - n) (nskip n bs) rest (acc ++ nfirst n bs) Hc ltac:(rewrite nlen_nskip; lia)) as [(evs' & E1 & B1)|(evs' & av & E1 & B1)].
      * left. exists evs'. rewrite E1. rewrite <- app_assoc, nfirst_nskip. split; [reflexivity|].
        intros Hb. inversion Hb; subst. auto.
      * right. exists evs', av. split; [exact E1|]. intros Hb. inversion Hb; subst. auto.
    + destruct tol.
      * destruct (IH req bs rest acc Hc Hl) as [(evs' & E1 & B1)|(evs' & av & E1 & B1)].
        -- left. exists evs'. split; [exact E1|]. intros Hb. inversion Hb; subst. auto.
        -- right. exists evs', av. split; [exact E1|]. intros Hb. inversion Hb; subst. auto.
      * right. eexists _, _. split; [reflexivity|]. intros Hb. inversion Hb; subst. discriminate.
    + destruct tol.
      * destruct (IH req bs rest acc Hc Hl) as [(evs' & E1 & B1)|(evs' & av & E1 & B1)].
        -- left. exists evs'. split; [exact E1|]. intros Hb. inversion Hb; subst. auto.
        -- right. exists evs', av. split; [exact E1|]. intros Hb. inversion Hb; subst. auto.
      * right. eexists _, _. split; [reflexivity|]. intros Hb. inversion Hb; subst. discriminate.
    + right. eexists _, _. split; [reflexivity|]. intros Hb. inversion Hb; subst. contradiction.
    + right. eexists _, _. split; [reflexivity|]. intros Hb. inversion Hb; subst. contradiction.
Qed.

(* fewer bytes than requested are available, ever: the read fails whatever the oracle does *)
Lemma stream_read_short tol : forall evs req avail acc, nlen avail < req ->
  exists evs' av, stream_read tol (chunk P) evs req avail acc = (None, evs', av).
Proof.
  induction evs as [|e evs IH]; intros req avail acc Hl; cbn [stream_read];
    (destruct (N.eqb_spec req 0) as [E|E]; [lia|]).
  - destruct (N.ltb_spec (nlen avail) req); [eauto|lia].
  - destruct e as [k| | | |]; eauto.
    + destruct avail as [|x xs]; [eauto|].
      assert (Ha : 1 <= nlen (x :: xs)) by (unfold nlen; cbn [length]; lia).
      set (av := x :: xs) in *.
      apply IH. rewrite nlen_nskip. pose proof chunk_pos. lia.
    + destruct tol; eauto.
    + destruct tol; eauto.
Qed.

(* ---- one frame ---- *)
Definition frames (cmp : bool) (pkts : list (list byte)) : result (list (list byte)) :=
  fold_right (fun d acc => do f <- frame compress P cmp d; do r <- acc; Ok (f :: r)) (Ok []) pkts.

Lemma frame_shape cmp d f : frame compress P cmp d = Ok f ->
  exists flag body, frame_body compress P cmp d = (flag, body) /\ nlen body < 4294967296 /\
    f = (be4 (nlen body) ++ [if flag then x01 else x00]) ++ body ++ flusher P /\
    (if flag then decompress body else Ok body) = Ok d.
Proof.
  unfold frame. destruct (frame_body compress P cmp d) as [flag body] eqn:Eb. unfold header, pack_I4.
  destruct (N.ltb_spec (nlen body) 4294967296) as [Hl|Hl]; cbn [bind]; [|discriminate].
  intros [= <-]. exists flag, body. repeat split; auto.
  unfold frame_body in Eb. destruct (cmp && (threshold P <? nlen d)); injection Eb as <- <-; auto.
Qed.

(* either the frame is delivered exactly, or the read fails (EOFError, stream closed) *)
Lemma channel_recv_frame tol cmp d f evs rest : frame compress P cmp d = Ok f ->
  (exists evs', channel_recv decompress P tol evs (f ++ rest) = (RcvOk d, evs', rest) /\ (benign_r tol evs -> benign_r tol evs'))
  \/ (exists evs' av, channel_recv decompress P tol evs (f ++ rest) = (RcvEOF, evs', av) /\ ~ benign_r tol evs).
Proof.
  intros Hf. destruct (frame_shape _ _ _ Hf) as (flag & body & Eb & Hl & -> & Hd).
  unfold channel_recv. rewrite Hhdr. rewrite <- !app_assoc.
  destruct (stream_read_spec tol evs 5 (be4 (nlen body) ++ [if flag then x01 else x00]) (body ++ flusher P ++ rest) [] chunk_pos eq_refl)
    as [(evs1 & E1 & B1)|(evs1 & av & E1 & B1)].
  2:{ right. rewrite <- app_assoc in E1. cbn [app] in *. rewrite E1. eauto. }
  rewrite <- app_assoc in E1. cbn [app] in E1. cbn [app]. rewrite E1. cbn [be4 app]. rewrite un4_be4 by exact Hl.
  replace (body ++ flusher P ++ rest) with ((body ++ flusher P) ++ rest) by (now rewrite app_assoc).
  destruct (stream_read_spec tol evs1 (nlen body + nlen (flusher P)) (body ++ flusher P) rest [] chunk_pos ltac:(now rewrite nlen_app))
    as [(evs2 & E2 & B2)|(evs2 & av & E2 & B2)].
  2:{ right. rewrite E2. exists evs2, av. split; [reflexivity|]. intros Hb. apply B2. auto. }
  left. rewrite E2. cbn [app]. rewrite app_length, Nat.add_sub, firstn_app, Nat.sub_diag, firstn_all. cbn [firstn]. rewrite app_nil_r.
  exists evs2. split; [|auto]. destruct flag; cbn [Byte.eqb]; cbn in Hd.
  - change (Byte.eqb x01 x00) with false. cbv iota. rewrite Hd. reflexivity.
  - change (Byte.eqb x00 x00) with true. cbv iota. injection Hd as ->. reflexivity.
Qed.

(* a strict prefix of a frame (cut anywhere inside it, even at offset 0) always ends in EOFError *)
Lemma channel_recv_cut tol cmp d f evs k : frame compress P cmp d = Ok f -> k < nlen f ->
  exists evs' av, channel_recv decompress P tol evs (nfirst k f) = (RcvEOF, evs', av).
Proof.
  intros Hf Hk. destruct (frame_shape _ _ _ Hf) as (flag & body & Eb & Hl & -> & Hd).
  unfold channel_recv. rewrite Hhdr.
  destruct (N.ltb_spec k 5) as [H5|H5].
  { destruct (stream_read_short tol evs 5 (nfirst k ((be4 (nlen body) ++ [if flag then x01 else x00]) ++ body ++ flusher P)) [])
      as (e1 & a1 & E1). { rewrite nlen_nfirst; [lia|]. lia. } rewrite E1. eauto. }
  set (h := be4 (nlen body) ++ [if flag then x01 else x00]) in *.
  assert (Hh : nlen h = 5) by reflexivity.
  assert (Esplit : nfirst k (h ++ body ++ flusher P) = h ++ nfirst (k - 5) (body ++ flusher P)).
  { unfold nfirst. rewrite firstn_app. unfold nlen in Hh. rewrite firstn_all2 by lia. f_equal. f_equal. lia. }
  rewrite Esplit.
  destruct (stream_read_spec tol evs 5 h (nfirst (k - 5) (body ++ flusher P)) [] chunk_pos Hh) as [(evs1 & E1 & B1)|(evs1 & av & E1 & B1)].
  2:{ rewrite E1. eauto. }
  rewrite E1. subst h. cbn [be4 app]. rewrite un4_be4 by exact Hl.
  destruct (stream_read_short tol evs1 (nlen body + nlen (flusher P)) (nfirst (k - 5) (body ++ flusher P)) []) as (e2 & a2 & E2).
  { rewrite nlen_nfirst; rewrite !nlen_app in *; lia. }
  rewrite E2. eauto.
Qed.

(* ---- whole streams ---- *)
Lemma frames_cons cmp d pkts fs : frames cmp (d :: pkts) = Ok fs ->
  exists f fs', frame compress P cmp d = Ok f /\ frames cmp pkts = Ok fs' /\ fs = f :: fs'.
Proof.
  cbn [frames fold_right]. fold (frames cmp pkts).
  destruct (frame compress P cmp d); cbn [bind]; try discriminate.
  destruct (frames cmp pkts); cbn [bind]; try discriminate. intros [= <-]. eauto.
Qed.

Lemma recv_empty tol evs : exists evs' av, channel_recv decompress P tol evs [] = (RcvEOF, evs', av).
Proof.
  unfold channel_recv. destruct (stream_read_short tol evs (hdr_size P) [] []) as (e & a & E).
  { rewrite Hhdr. unfold nlen. cbn. lia. } rewrite E. eauto.
Qed.

(* 1. delivery: any packets, any compression setting of the sender, any read oracle without hard faults *)
Theorem recv_all_delivery tol cmp : forall pkts fs evs acc fuel, frames cmp pkts = Ok fs -> benign_r tol evs ->
  (length pkts < fuel)%nat ->
  recv_all decompress P fuel tol evs (concat fs) acc = (List.rev acc ++ pkts, false).
Proof.
  induction pkts as [|d pkts IH]; intros fs evs acc fuel Hfs Hb Hfuel.
  - cbn in Hfs. injection Hfs as <-. destruct fuel as [|fuel]; [cbn in Hfuel; lia|]. cbn [recv_all concat].
    destruct (recv_empty tol evs) as (e & a & ->). now rewrite app_nil_r.
  - destruct (frames_cons _ _ _ _ Hfs) as (f & fs' & Hf & Hfs' & ->).
    destruct fuel as [|fuel]; [cbn in Hfuel; lia|]. cbn [recv_all concat].
    destruct (channel_recv_frame tol cmp d f evs (concat fs') Hf) as [(evs1 & E1 & B1)|(evs1 & av & E1 & B1)]; [|contradiction].
    rewrite E1. rewrite (IH fs' evs1 (d :: acc) fuel Hfs' (B1 Hb)) by (cbn in Hfuel; lia).
    cbn [List.rev]. now rewrite <- app_assoc.
Qed.

(* 2. any fault or cut: what is received is an exact prefix of the packets sent — never shortened, padded or merged *)
Theorem recv_all_prefix tol cmp : forall pkts fs k evs acc fuel, frames cmp pkts = Ok fs ->
  exists n, recv_all decompress P fuel tol evs (nfirst k (concat fs)) acc = (List.rev acc ++ firstn n pkts, false).
Proof.
  induction pkts as [|d pkts IH]; intros fs k evs acc fuel Hfs.
  - cbn in Hfs. injection Hfs as <-. exists O. cbn [concat]. replace (nfirst k []) with (@nil byte) by (unfold nfirst; now rewrite firstn_nil).
    destruct fuel as [|fuel]; cbn [recv_all firstn]; [now rewrite app_nil_r|].
    destruct (recv_empty tol evs) as (e & a & ->). now rewrite app_nil_r.
  - destruct (frames_cons _ _ _ _ Hfs) as (f & fs' & Hf & Hfs' & ->). cbn [concat].
    destruct fuel as [|fuel]; [exists O; cbn; now rewrite app_nil_r|]. cbn [recv_all].
    destruct (N.ltb_spec k (nlen f)) as [Hk|Hk].
    + exists O. rewrite nfirst_app_le by lia.
      destruct (channel_recv_cut tol cmp d f evs k Hf Hk) as (e & a & ->). cbn. now rewrite app_nil_r.
    + assert (Esplit : nfirst k (f ++ concat fs') = f ++ nfirst (k - nlen f) (concat fs')).
      { unfold nfirst, nlen in *. rewrite firstn_app, firstn_all2 by lia. f_equal. f_equal. lia. }
      rewrite Esplit.
      destruct (channel_recv_frame tol cmp d f evs (nfirst (k - nlen f) (concat fs')) Hf) as [(evs1 & E1 & B1)|(evs1 & av & E1 & B1)].
      * rewrite E1. destruct (IH fs' (k - nlen f) evs1 (d :: acc) fuel Hfs') as (n & En). exists (S n).
        rewrite En. cbn [List.rev firstn]. now rewrite <- app_assoc.
      * rewrite E1. exists O. cbn. now rewrite app_nil_r.
Qed.

(* 3. with a cut and a benign oracle, exactly the packets wholly before the cut arrive *)
Fixpoint whole_before (k : N) (fs : list (list byte)) : nat :=
  match fs with [] => O | f :: t => if k <? nlen f then O else S (whole_before (k - nlen f) t) end.
Theorem recv_all_cut_exact tol cmp : forall pkts fs k evs acc fuel, frames cmp pkts = Ok fs -> benign_r tol evs ->
  (length pkts < fuel)%nat ->
  recv_all decompress P fuel tol evs (nfirst k (concat fs)) acc = (List.rev acc ++ firstn (whole_before k fs) pkts, false).
Proof.
  induction pkts as [|d pkts IH]; intros fs k evs acc fuel Hfs Hb Hfuel.
  - cbn in Hfs. injection Hfs as <-. cbn [concat whole_before firstn]. replace (nfirst k []) with (@nil byte) by (unfold nfirst; now rewrite firstn_nil).
    destruct fuel as [|fuel]; [cbn in Hfuel; lia|]. cbn [recv_all].
    destruct (recv_empty tol evs) as (e & a & ->). now rewrite app_nil_r.
  - destruct (frames_cons _ _ _ _ Hfs) as (f & fs' & Hf & Hfs' & ->). cbn [concat whole_before].
    destruct fuel as [|fuel]; [cbn in Hfuel; lia|]. cbn [recv_all].
    destruct (N.ltb_spec k (nlen f)) as [Hk|Hk].
    + rewrite nfirst_app_le by lia.
      destruct (channel_recv_cut tol cmp d f evs k Hf Hk) as (e & a & ->). cbn [firstn]. now rewrite app_nil_r.
    + assert (Esplit : nfirst k (f ++ concat fs') = f ++ nfirst (k - nlen f) (concat fs')).
      { unfold nfirst, nlen in *. rewrite firstn_app, firstn_all2 by lia. f_equal. f_equal. lia. }
      rewrite Esplit.
      destruct (channel_recv_frame tol cmp d f evs (nfirst (k - nlen f) (concat fs')) Hf) as [(evs1 & E1 & B1)|(evs1 & av & E1 & B1)]; [|contradiction].
      rewrite E1. rewrite (IH fs' (k - nlen f) evs1 (d :: acc) fuel Hfs' (B1 Hb)) by (cbn in Hfuel; lia).
      cbn [List.rev firstn]. now rewrite <- app_assoc.
Qed.
End Z.

(* ---- sender and receiver composed: a whole conversation over a transport that splits writes and reads arbitrarily ---- *)
Section EndToEnd.
Variable compress : list byte -> list byte.
Variable decompress : list byte -> result (list byte).
Hypothesis zlib_roundtrip : forall x, decompress (compress x) = Ok x.
Variable P : cparams.
Hypothesis Hhdr : hdr_size P = 5.
Hypothesis Hchunk : hdr_size P + nlen (flusher P) <= chunk P.

(* send each packet in turn, threading the write oracle and accumulating what reaches the wire *)
Fixpoint send_all (cmp : bool) (evs : list wev) (pkts : list (list byte)) (wire : list byte) : result (bool * list byte) :=
  match pkts with
  | [] => Ok (true, wire)
  | d :: t => match channel_send compress P cmp evs d with
              | Ok (true, w, evs') => send_all cmp evs' t (wire ++ w)
              | Ok (false, w, _) => Ok (false, wire ++ w)
              | Raise e => Raise e | OutOfFuel => OutOfFuel | Unmodelled => Unmodelled
              end
  end.

Lemma send_all_wire cmp : forall pkts fs evs wire, frames compress P cmp pkts = Ok fs -> benign_w evs ->
  send_all cmp evs pkts wire = Ok (true, wire ++ concat fs).
Proof.
  induction pkts as [|d t IH]; intros fs evs wire Hfs Hb.
  - cbn in Hfs. injection Hfs as <-. cbn. now rewrite app_nil_r.
  - destruct (frames_cons compress P cmp d t fs Hfs) as (f & fs' & Hf & Hfs' & ->).
    cbn [send_all].
    assert (Hs : exists evs', channel_send compress P cmp evs d = Ok (true, f, evs') /\ benign_w evs').
    { unfold channel_send.
      assert (Hws : exists ws, send_writes compress P cmp d = Ok ws).
      { unfold send_writes, frame in *. destruct (frame_body compress P cmp d) as [flag body].
        destruct (header (nlen body) flag); cbn [bind] in *; try discriminate. destruct (_ <=? _); eauto. }
      destruct Hws as (ws & Ew). rewrite Ew. cbn [bind].
      pose proof (send_writes_concat compress P cmp d ws Ew) as Hc. rewrite Hf in Hc. injection Hc as ->.
      destruct (do_writes_complete P Hhdr Hchunk ws evs [] Hb) as (evs' & E & B). exists evs'. now rewrite E. }
    destruct Hs as (evs' & -> & B). rewrite (IH fs' evs' (wire ++ f) Hfs' B). cbn [concat]. now rewrite <- app_assoc.
Qed.

Theorem end_to_end tol cmp pkts fs wevs revs fuel : frames compress P cmp pkts = Ok fs -> benign_w wevs -> benign_r tol revs ->
  (length pkts < fuel)%nat ->
  exists wire, send_all cmp wevs pkts [] = Ok (true, wire) /\ recv_all decompress P fuel tol revs wire [] = (pkts, false).
Proof.
  intros Hfs Hw Hr Hfuel. exists (concat fs). split.
  - now rewrite (send_all_wire cmp pkts fs wevs [] Hfs Hw).
  - now apply (recv_all_delivery compress decompress zlib_roundtrip P Hhdr Hchunk tol cmp pkts fs revs []).
Qed.
End EndToEnd.
