(* the encoder the C04 theorems are about (model/Brine.v, ladder tables tied to the source) IS the published encoding *)
From Coq Require Import ZifyBool.
From V Require Import lib.Base lib.Decimal lib.Utf8 model.Ladder model.Brine model.PubCodec proofs.BrineP.
Open Scope N_scope.
Ltac Zify.zify_post_hook ::= Z.to_euclidean_division_equations.

Lemma small_cases (n : N) : 1 <= n <= 4 -> n = 1 \/ n = 2 \/ n = 3 \/ n = 4.
Proof. lia. Qed.

Lemma hdr_str_pub n : hdr_str n = pub_count 0x01 0x0a 0x0e 0x0f n.
Proof.
  unfold hdr_str, pub_count, str_ladder, ladder_hdr, lcmp_holds, lfield_bytes, pack_I1, pack_I4.
  destruct (N.eqb_spec n 0) as [E0|H0]; [subst n; reflexivity|].
  destruct (N.leb_spec n 4) as [H4|H4].
  - destruct (small_cases n ltac:(lia)) as [E|[E|[E|E]]]; subst n; reflexivity.
  - destruct (N.eqb_spec n 1); [lia|]. destruct (N.eqb_spec n 2); [lia|]. destruct (N.eqb_spec n 3); [lia|]. destruct (N.eqb_spec n 4); [lia|].
    destruct (N.ltb_spec n 256); cbn [bind]; [reflexivity|]. destruct (N.ltb_spec n 4294967296); reflexivity.
Qed.
Lemma hdr_tup_pub n : hdr_tup n = pub_count 0x02 0x10 0x14 0x15 n.
Proof.
  unfold hdr_tup, pub_count, tup_ladder, ladder_hdr, lcmp_holds, lfield_bytes, pack_I1, pack_I4.
  destruct (N.eqb_spec n 0) as [E0|H0]; [subst n; reflexivity|].
  destruct (N.leb_spec n 4) as [H4|H4].
  - destruct (small_cases n ltac:(lia)) as [E|[E|[E|E]]]; subst n; reflexivity.
  - destruct (N.eqb_spec n 1); [lia|]. destruct (N.eqb_spec n 2); [lia|]. destruct (N.eqb_spec n 3); [lia|]. destruct (N.eqb_spec n 4); [lia|].
    destruct (N.ltb_spec n 256); cbn [bind]; [reflexivity|]. destruct (N.ltb_spec n 4294967296); reflexivity.
Qed.
Lemma dump_bytes_pub b : dump_bytes b = pub_bytes b.
Proof. unfold dump_bytes, pub_bytes. now rewrite hdr_str_pub. Qed.
Lemma dump_int_pub P z : dump_int P z = pub_int (maxdigits P) z.
Proof.
  unfold dump_int, pub_int, is_imm, IMM_LO, IMM_HI, IMM_OFF. destruct ((-48 <=? z)%Z && (z <? 160)%Z); [reflexivity|].
  destruct (render (maxdigits P) z) as [t| | |]; cbn [bind]; try reflexivity.
  unfold hdr_int, int_ladder, ladder_hdr, lcmp_holds, lfield_bytes, pack_I1, pack_I4.
  destruct (N.ltb_spec (nlen t) 256); cbn [bind app]; [reflexivity|]. destruct (N.ltb_spec (nlen t) 4294967296); reflexivity.
Qed.

Theorem dump_is_published P : forall v, dump P v = pub_dump (sp P) (maxdigits P) v.
Proof.
  induction v as [| | |b|z|b|b|b|cps|l IH|l IH|a b c IHa IHb IHc|k] using pyval_ind'; cbn [dump pub_dump]; try reflexivity.
  - destruct b; reflexivity.
  - apply dump_int_pub.
  - apply dump_bytes_pub.
  - destruct (utf8_encode (sp P) cps); cbn [bind]; try reflexivity. now rewrite dump_bytes_pub.
  - rewrite hdr_tup_pub. destruct (pub_count 2 16 20 21 (nlen l)); cbn [bind]; try reflexivity.
    assert (E : forall l0, Forall (fun v => dump P v = pub_dump (sp P) (maxdigits P) v) l0 ->
      (fix go (l1 : list pyval) : result (list byte) := match l1 with [] => Ok [] | y :: ys => do a <- dump P y; do b <- go ys; Ok (a ++ b) end) l0 =
      (fix go (l1 : list pyval) : result (list byte) := match l1 with [] => Ok [] | y :: ys => do a <- pub_dump (sp P) (maxdigits P) y; do b <- go ys; Ok (a ++ b) end) l0).
    { induction 1 as [|y ys Hy _ IHys]; [reflexivity|]. rewrite Hy, IHys. reflexivity. }
    now rewrite (E l IH).
  - rewrite hdr_tup_pub. destruct (pub_count 2 16 20 21 (nlen l)); cbn [bind]; try reflexivity.
    assert (E : forall l0, Forall (fun v => dump P v = pub_dump (sp P) (maxdigits P) v) l0 ->
      (fix go (l1 : list pyval) : result (list byte) := match l1 with [] => Ok [] | y :: ys => do a <- dump P y; do b <- go ys; Ok (a ++ b) end) l0 =
      (fix go (l1 : list pyval) : result (list byte) := match l1 with [] => Ok [] | y :: ys => do a <- pub_dump (sp P) (maxdigits P) y; do b <- go ys; Ok (a ++ b) end) l0).
    { induction 1 as [|y ys Hy _ IHys]; [reflexivity|]. rewrite Hy, IHys. reflexivity. }
    now rewrite (E l IH).
  - now rewrite IHa, IHb, IHc.
Qed.
