(* the encoder the C04 theorems are about (model/Brine.v, ladder tables tied to the source) IS the published encoding *)
From Coq Require Import ZifyBool.
From V Require Import lib.Base lib.Decimal lib.Utf8 model.Ladder model.Brine model.PubCodec proofs.BrineP.
Open Scope N_scope.
Ltac Zify.zify_post_hook ::= Z.to_euclidean_division_equations.

Lemma small_cases (n : N) : 1 <= n <= 4 -> n = 1 \/ n = 2 \/ n = 3 \/ n = 4.
Proof. lia. Qed.

Lemma hdr_str_pub n : hdr_str n = pub_count 0x01 0x0a 0x0e 0x0f n.
Proof.
  unfold hdr_str, pub_count, str_ladder, ladder_hdr, lcmp_holds, lfield_bytes, pack_I1, pack_I4.
  destruct (N.eqb_spec n 0) as [E0|H0]; [subst n; reflexivity|].
  destruct (N.leb_spec n 4) as [H4|H4].
  - destruct (small_cases n ltac:(lia)) as [E|[E|[E|E]]]; subst n; reflexivity.
  - destruct (N.eqb_spec n 1); [lia|]. destruct (N.eqb_spec n 2); [lia|]. destruct (N.eqb_spec n 3); [lia|]. destruct (N.eqb_spec n 4); [lia|].
    destruct (N.ltb_spec n 256); cbn [bind]; [reflexivity|]. destruct (N.ltb_spec n 4294967296); reflexivity.
Qed.
Lemma hdr_tup_pub n : hdr_tup n = pub_count 0x02 0x10 0x14 0x15 n.
Proof.
  unfold hdr_tup, pub_count, tup_ladder, ladder_hdr, lcmp_holds, lfield_bytes, pack_I1, pack_I4.
  destruct (N.eqb_spec n 0) as [E0|H0]; [subst n; reflexivity|].
  destruct (N.leb_spec n 4) as [H4|H4].
  - destruct (small_cases n ltac:(lia)) as [E|[E|[E|E]]]; subst n; reflexivity.
  - destruct (N.eqb_spec n 1); [lia|]. destruct (N.eqb_spec n 2); [lia|]. destruct (N.eqb_spec n 3); [lia|]. destruct (N.eqb_spec n 4); [lia|].
    destruct (N.ltb_spec n 256); cbn [bind]; [reflexivity|]. destruct (N.ltb_spec n 4294967296); reflexivity.
Qed.
Lemma dump_bytes_pub b : dump_bytes b = pub_bytes b.
Proof. unfold dump_bytes, pub_bytes. now rewrite hdr_str_pub. Qed.
Lemma dump_int_pub P z : dump_int P z = pub_int (maxdigits P) z.
Proof.
  unfold dump_int, pub_int, is_imm, IMM_LO, IMM_HI, IMM_OFF. destruct ((-48 <=? z)%Z && (z <? 160)%Z); [reflexivity|].
  destruct (render (maxdigits P) z) as [t| | |]; cbn [bind]; try reflexivity.
  unfold hdr_int, int_ladder, ladder_hdr, lcmp_holds, lfield_bytes, pack_I1, pack_I4.
  destruct (N.ltb_spec (nlen t) 256); cbn [bind app]; [reflexivity|]. destruct (N.ltb_spec (nlen t) 4294967296); reflexivity.
Qed.

Theorem dump_is_published P : forall v, dump P v = pub_dump (sp P) (maxdigits P) v.
Proof.
  induction v as [| | |b|z|b|b|b|cps|l IH|l IH|a b c IHa IHb IHc|k] using pyval_ind'; cbn [dump pub_dump]; try reflexivity.
  - destruct b; reflexivity.
  - apply dump_int_pub.
  - apply dump_bytes_pub.
  - destruct (utf8_encode (sp P) cps); cbn [bind]; try reflexivity. now rewrite dump_bytes_pub.
  - rewrite hdr_tup_pub. destruct (pub_count 2 16 20 21 (nlen l)); cbn [bind]; try reflexivity.
    assert (E : forall l0, Forall (fun v => dump P v = pub_dump (sp P) (maxdigits P) v) l0 ->
      (fix go (l1 : list pyval) : result (list byte) := match l1 with [] => Ok [] | y :: ys => do a <- dump P y; do b <- go ys; Ok (a ++ b) end) l0 =
      (fix go (l1 : list pyval) : result (list byte) := match l1 with [] => Ok [] | y :: ys => do a <- pub_dump (sp P) (maxdigits P) y; do b <- go ys; Ok (a ++ b) end) l0).
    { induction 1 as [|y ys Hy _ IHys]; [reflexivity|]. rewrite Hy, IHys. reflexivity. }
    now rewrite (E l IH).
  - rewrite hdr_tup_pub. destruct (pub_count 2 16 20 21 (nlen l)); cbn [bind]; try reflexivity.
    assert (E : forall l0, Forall (fun v => dump P v = pub_dump (sp P) (maxdigits P) v) l0 ->
      (fix go (l1 : list pyval) : result (list byte) := match l1 with [] => Ok [] | y :: ys => do a <- dump P y; do b <- go ys; Ok (a ++ b) end) l0 =
      (fix go (l1 : list pyval) : result (list byte) := match l1 with [] => Ok [] | y :: ys => do a <- pub_dump (sp P) (maxdigits P) y; do b <- go ys; Ok (a ++ b) end) l0).
    { induction 1 as [|y ys Hy _ IHys]; [reflexivity|]. rewrite Hy, IHys. reflexivity. }
    now rewrite (E l IH).
  - now rewrite IHa, IHb, IHc.
Qed.

(* ---- the STRICT published text codec (UTF-8 proper): what the tree emits equals it on every value whose text has no lone surrogate;
   lone surrogates are where the repaired tree (surrogatepass, F1) leaves the published format ---- *)
Fixpoint nosurr (v : pyval) : bool :=
  match v with
  | PStr cps => forallb (fun c => negb (is_surrogate c)) cps
  | PTuple l | PFset l => (fix go (l : list pyval) : bool := match l with [] => true | y :: ys => nosurr y && go ys end) l
  | PSlice a b c => nosurr a && nosurr b && nosurr c
  | _ => true
  end.
Lemma enc1_sp_irrelevant sp c : is_surrogate c = false -> enc1 sp c = enc1 false c.
Proof. intros H. unfold enc1. rewrite H. reflexivity. Qed.
Lemma utf8_encode_sp_irrelevant sp : forall cs, forallb (fun c => negb (is_surrogate c)) cs = true -> utf8_encode sp cs = utf8_encode false cs.
Proof.
  induction cs as [|c t IH]; intros H; [reflexivity|]. cbn [forallb] in H. apply andb_true_iff in H as [Hc Ht].
  apply negb_true_iff in Hc. cbn [utf8_encode]. rewrite (enc1_sp_irrelevant sp c Hc), (IH Ht). reflexivity.
Qed.
Theorem pub_dump_strict sp maxd : forall v, nosurr v = true -> pub_dump sp maxd v = pub_dump false maxd v.
Proof.
  induction v as [| | |b|z|b|b|b|cps|l IH|l IH|a b c IHa IHb IHc|k] using pyval_ind'; intros H; cbn [pub_dump]; try reflexivity.
  - cbn [nosurr] in H. now rewrite (utf8_encode_sp_irrelevant sp cps H).
  - destruct (pub_count 2 16 20 21 (nlen l)); cbn [bind]; try reflexivity. f_equal.
    cbn [nosurr] in H. revert H. induction IH as [|y ys Hy _ IHys]; intros H; [reflexivity|].
    apply andb_true_iff in H as [H1 H2]. rewrite (Hy H1), (IHys H2). reflexivity.
  - destruct (pub_count 2 16 20 21 (nlen l)); cbn [bind]; try reflexivity. f_equal.
    cbn [nosurr] in H. revert H. induction IH as [|y ys Hy _ IHys]; intros H; [reflexivity|].
    apply andb_true_iff in H as [H1 H2]. rewrite (Hy H1), (IHys H2). reflexivity.
  - cbn [nosurr] in H. apply andb_true_iff in H as [H Hc]. apply andb_true_iff in H as [Ha Hb]. now rewrite (IHa Ha), (IHb Hb), (IHc Hc).
Qed.
Theorem dump_is_strictly_published P v : nosurr v = true -> dump P v = pub_dump false (maxdigits P) v.
Proof. intros H. rewrite dump_is_published. now apply pub_dump_strict. Qed.
(* and where it leaves it: one lone surrogate, encoded by a surrogatepass tree, refused by the strict codec *)
Lemma surrogate_witness : dump {| sp := true; maxdigits := 4300 |} (PStr [0xD800%N]) = Ok [x08; x0c; xed; xa0; x80]
  /\ pub_dump false 4300 (PStr [0xD800%N]) = Raise UnicodeError.
Proof. split; vm_compute; reflexivity. Qed.

(* ---- frames ---- *)
From V Require Import model.Channel.
Theorem frame_is_published zlib (P : cparams) cmp d : threshold P = 3000 -> flusher P = [b_of 10] ->
  frame zlib P cmp d = pub_frame zlib cmp d.
Proof.
  intros Ht Hf. unfold frame, frame_body, pub_frame, header, pack_I4. rewrite Ht, Hf.
  destruct (cmp && (3000 <? nlen d)); cbn [bind];
    match goal with |- context [nlen ?b <? 4294967296] => destruct (nlen b <? 4294967296) end; cbn [bind]; try reflexivity;
    now rewrite <- !app_assoc.
Qed.
