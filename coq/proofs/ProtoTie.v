From V Require Import lib.Base model.Proto gen.Gen_dispatch.
Definition Pgen : dparams :=
  Build_dparams Gen_dispatch.unpack_in_try Gen_dispatch.unbox_in_try Gen_dispatch.handler_in_try
                Gen_dispatch.reply_encode_guarded Gen_dispatch.exc_encode_guarded Gen_dispatch.reraises_marked.
Lemma tie_guarded_region : Gen_dispatch.unpack_in_try = true /\ Gen_dispatch.unbox_in_try = true /\ Gen_dispatch.handler_in_try = true.
Proof. repeat split. Qed.
Lemma tie_requester : Gen_dispatch.dispatch_routing_is_standard = true /\ Gen_dispatch.callback_popped_then_called = true
  /\ Gen_dispatch.async_request_registers_then_sends_and_pops_on_failure = true.
Proof. repeat split. Qed.
