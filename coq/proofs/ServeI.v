(* C13/C14: messages nobody is waiting for -- in particular the PEER's OWN REQUESTS.

   model/Serve.v speaks of replies: a message in the stream carries the number of a request some thread issued.  A request of the peer's
   own (served by whichever thread reads it: a BgServingThread, or a client that happens to hold the receive lock) is, for every OTHER thread,
   the same thing as a reply whose issuer is not looking: it sits in the stream in front of or behind the replies, it is read under the
   receive lock, the lock is released and the sleepers are notified BEFORE it is dispatched, and dispatching it (running the handler, for as
   long as that takes: the thread simply stays at S5) touches nobody else's result.  The harness maps every inbound request to such a
   message: an `issue` by a thread identifier that never takes another step (harness/C13.py, model_events: phantom issuers).

   What that reading needs, and what is proved here for every reachable state:
     1. dispatching a message changes only that message's own cell and the dispatcher's own program counter (dispatch_frame);
     2. a thread that is outside serve() and does not move is never moved by anybody (absent_stays), and
     3. NO continuation ever needs a step of such a thread: from every reachable state every waiting thread w can still leave wait()
        (Returned, or TimedOut only if its own expiry had passed) by steps of w itself and of threads that are inside serve() with the lock or
        a frame in hand, plus the peer's answers -- the absent issuers (the peer's requests have no local issuer at all) are never scheduled
        (no_trap_without).  This strengthens ServeF.no_trap, whose witness schedule was not constrained. *)
From V Require Import lib.Base model.Serve proofs.ServeP proofs.ServeF.
From Coq Require Import Arith Lia.

Definition serving (p : pc) : bool := match p with S2 | S3 | S4 | S5 => true | _ => false end.
Definition outside (p : pc) : bool := match p with Idle | LoopTest | Returned | TimedOut => true | _ => false end.
(* who acts: nobody (the peer's answer), the waiter itself, or a thread inside serve() that holds the lock or carries a frame *)
Definition actor_ok (s : st) (w : nat) (l : label) (i : nat) : Prop :=
  (exists q, l = LAnswer q) \/ i = w \/ serving (tpc (thrs s i)) = true.

(* ---- 1. the dispatch of a message touches only that message's cell ---- *)
Lemma dispatch_frame s i s' q : tpc (thrs s i) = S5 -> hand (thrs s i) = Some q -> step LStep i s = Some s' ->
  (forall q', q' <> q -> ready s' q' = ready s q' /\ pending s' q' = pending s q' /\ ph s' q' = ph s q' /\ late s' q' = late s q')
  /\ (forall j, j <> i -> thrs s' j = thrs s j) /\ inbox s' = inbox s /\ holder s' = holder s /\ counter s' = counter s
  /\ dispatched s' = dispatched s ++ [q].
Proof.
  intros Hp Hh H. unfold step in H. rewrite Hp, Hh in H. injection H as <-. cbn.
  split; [|split; [intros j Hj; apply upd_other; exact Hj|repeat split]].
  intros q' Hq. rewrite !(upd_other _ q q') by exact Hq. split; [|split; [reflexivity|split; [reflexivity|]]].
  - destruct (pending s q); [destruct (expd s q); [reflexivity|apply upd_other; exact Hq]|reflexivity].
  - destruct (expd s q); [apply upd_other; exact Hq|reflexivity].
Qed.

(* ---- 2. a thread outside serve() that does not move is not moved ---- *)
Lemma absent_stays s l i s' j : step l i s = Some s' -> ((exists q, l = LAnswer q) \/ (exists q, l = LExpire q) \/ j <> i) ->
  outside (tpc (thrs s j)) = true -> thrs s' j = thrs s j.
Proof.
  intros H Hj Ho. unfold step in H. cbv zeta in H.
  destruct l as [| | |q0|q0].
  - destruct Hj as [[q X]|[[q X]|Hj]]; try discriminate X.
    destruct (tpc (thrs s i)); try discriminate H. destruct (server (thrs s i)); injection H as <-; cbn; apply upd_other; exact Hj.
  - destruct Hj as [[q X]|[[q X]|Hj]]; try discriminate X.
    destruct (tpc (thrs s i)) eqn:Epc; try discriminate H.
    + destruct (myseq (thrs s i)) as [q|]; [destruct (ready s q); [|destruct (expd s q)]|]; injection H as <-; cbn; apply upd_other; exact Hj.
    + destruct (holder s); injection H as <-; cbn; apply upd_other; exact Hj.
    + destruct (inbox s); [discriminate H|]. injection H as <-. cbn. apply upd_other; exact Hj.
    + injection H as <-. cbn. apply upd_other; exact Hj.
    + injection H as <-. cbn. rewrite upd_other by exact Hj. unfold wake. destruct (tpc (thrs s j)); try reflexivity; discriminate Ho.
    + destruct (hand (thrs s i)); [|discriminate H]. injection H as <-. cbn. apply upd_other; exact Hj.
  - destruct Hj as [[q X]|[[q X]|Hj]]; try discriminate X.
    destruct (tpc (thrs s i)); try discriminate H; injection H as <-; cbn; apply upd_other; exact Hj.
  - destruct (ph s q0); try discriminate H. injection H as <-. reflexivity.
  - injection H as <-. reflexivity.
Qed.

(* ---- 3. nobody outside serve() is ever needed ---- *)
Lemma nearer_by s w q : InvA s -> InvB s -> myseq (thrs s w) = Some q -> in_loop (tpc (thrs s w)) = true ->
  ready s q = false -> expd s q = false ->
  exists l i s', actor_ok s w l i /\ (l = LStep \/ l = LTimeout \/ exists q0, l = LAnswer q0) /\ step l i s = Some s' /\ (settled s' q \/ M s' w q < M s w q).
Proof.
  intros IA IB Hm Hl Hr He.
  assert (Hq : q < counter s) by (destruct (B_seq s IB) as [X _]; eauto).
  destruct (ph s q) as [| | |h|] eqn:Ep.
  - (* PNone: impossible, the number has been drawn *)
    exfalso. apply (proj2 (B_fresh s IB q)) in Ep. lia.
  - (* POut: the peer answers *)
    exists (LAnswer q), 0. unfold step. rewrite Ep. eexists. split; [unfold actor_ok; first [left; eexists; reflexivity | right; left; reflexivity | right; right; first [reflexivity | rewrite Eph; reflexivity | rewrite E; reflexivity]]|]. split; [eauto|]. split; [reflexivity|]. right.
    unfold M. cbn [ph inbox]. rewrite upd_same, Ep. rewrite app_length. cbn [length].
    match goal with |- _ + cpart ?S w < _ => pose proof (cpart_le S w) end. lia.
  - (* PIn: somebody has to read it *)
    assert (Hin : In q (inbox s)) by (apply (proj2 (B_inbox s IB)); exact Ep).
    destruct (holder s) as [h|] eqn:Eh.
    + assert (Hh : holds_lock (tpc (thrs s h)) = true) by (apply (A_hold s IA); exact Eh).
      destruct (tpc (thrs s h)) eqn:Eph; try discriminate Hh.
      * (* the holder is polling: it reads the oldest frame *)
        destruct (inbox s) as [|q0 rest] eqn:Ei; [destruct Hin|].
        exists LStep, h. unfold step. cbv zeta. rewrite Eph, Ei. eexists. split; [unfold actor_ok; first [left; eexists; reflexivity | right; left; reflexivity | right; right; first [reflexivity | rewrite Eph; reflexivity | rewrite E; reflexivity]]|]. split; [auto|]. split; [reflexivity|]. right.
        unfold M. cbn [ph inbox thrs]. rewrite Ep. unfold upd at 1. destruct (Nat.eqb q q0) eqn:Eq.
        -- rewrite upd_same. rewrite ?Ei. cbn. lia.
        -- rewrite Ep. cbn [length]. match goal with |- _ + cpart ?S w < _ => pose proof (cpart_le S w) end. rewrite ?Ei. cbn [length]. lia.
      * (* the holder is about to release *)
        exists LStep, h. unfold step. rewrite Eph. eexists. split; [unfold actor_ok; first [left; eexists; reflexivity | right; left; reflexivity | right; right; first [reflexivity | rewrite Eph; reflexivity | rewrite E; reflexivity]]|]. split; [auto|]. split; [reflexivity|]. right.
        unfold M, cpart. simp_s. rewrite Ep, Eh, Eph.
        match goal with |- context [rankw ?P] => pose proof (rankw_le P) end. lia.
    + (* the lock is free: the waiter itself goes for it *)
      assert (Hnl : holds_lock (tpc (thrs s w)) = false).
      { destruct (holds_lock (tpc (thrs s w))) eqn:X; [|reflexivity]. apply (A_hold s IA) in X. congruence. }
      destruct (tpc (thrs s w)) eqn:E; try discriminate Hl; try discriminate Hnl.
      * (* LoopTest *) exists LStep, w. unfold step. rewrite E, Hm, Hr, He. eexists. split; [unfold actor_ok; first [left; eexists; reflexivity | right; left; reflexivity | right; right; first [reflexivity | rewrite Eph; reflexivity | rewrite E; reflexivity]]|]. split; [auto|]. split; [reflexivity|]. right.
        unfold M, cpart. simp_s. rewrite Ep, Eh, upd_same. simp_s. rewrite E. cbn [rankw]. lia.
      * (* S1 *) exists LStep, w. unfold step. rewrite E, Eh. eexists. split; [unfold actor_ok; first [left; eexists; reflexivity | right; left; reflexivity | right; right; first [reflexivity | rewrite Eph; reflexivity | rewrite E; reflexivity]]|]. split; [auto|]. split; [reflexivity|]. right.
        unfold M, cpart. simp_s. rewrite Ep, Eh, upd_same. simp_s. rewrite E. cbn [rankw]. lia.
      * (* Asleep *) exists LTimeout, w. unfold step. rewrite E. eexists. split; [unfold actor_ok; first [left; eexists; reflexivity | right; left; reflexivity | right; right; first [reflexivity | rewrite Eph; reflexivity | rewrite E; reflexivity]]|]. split; [auto|]. split; [reflexivity|]. right.
        unfold M, cpart. simp_s. rewrite Ep, Eh, upd_same. simp_s. rewrite E. cbn [rankw]. lia.
      * (* S4 *) exists LStep, w. unfold step. cbv zeta. rewrite E. eexists. split; [unfold actor_ok; first [left; eexists; reflexivity | right; left; reflexivity | right; right; first [reflexivity | rewrite Eph; reflexivity | rewrite E; reflexivity]]|]. split; [auto|]. split; [reflexivity|]. right.
        unfold M, cpart. simp_s. rewrite Ep, Eh, upd_same. rewrite E.
        destruct (hand (thrs s w)); simp_s; cbn [rankw]; lia.
      * (* S5: dispatches the frame it carries, which is not q *)
        pose proof (B_s5 s IB w E) as H5. destruct (hand (thrs s w)) as [q1|] eqn:Ehd; [|congruence].
        destruct (B_hand1 s IB w q1 Ehd) as [Hp1 _].
        assert (Hne : q <> q1) by (intros ->; congruence).
        exists LStep, w. unfold step. rewrite E, Ehd. eexists. split; [unfold actor_ok; first [left; eexists; reflexivity | right; left; reflexivity | right; right; first [reflexivity | rewrite Eph; reflexivity | rewrite E; reflexivity]]|]. split; [auto|]. split; [reflexivity|]. right.
        unfold M, cpart. simp_s. rewrite (upd_other (ph s) q1 q PDone Hne). rewrite Ep, Eh, upd_same. simp_s. rewrite E. cbn [rankw]. lia.
  - (* PHand h: the thread that carries it goes on *)
    pose proof (B_hand2 s IB q h Ep) as Hh. destruct (B_hand1 s IB h q Hh) as [_ Hc].
    destruct (tpc (thrs s h)) eqn:Eph; try discriminate Hc.
    + (* S3 *) exists LStep, h. unfold step. rewrite Eph. eexists. split; [unfold actor_ok; first [left; eexists; reflexivity | right; left; reflexivity | right; right; first [reflexivity | rewrite Eph; reflexivity | rewrite E; reflexivity]]|]. split; [auto|]. split; [reflexivity|]. right.
      unfold M. simp_s. rewrite Ep, upd_same. simp_s. rewrite Eph. cbn [rank_carry]. lia.
    + (* S4 *) exists LStep, h. unfold step. cbv zeta. rewrite Eph. eexists. split; [unfold actor_ok; first [left; eexists; reflexivity | right; left; reflexivity | right; right; first [reflexivity | rewrite Eph; reflexivity | rewrite E; reflexivity]]|]. split; [auto|]. split; [reflexivity|]. right.
      unfold M. simp_s. rewrite Ep, upd_same, Hh. simp_s. rewrite Eph. cbn [rank_carry]. lia.
    + (* S5: the dispatch; the callback is still registered, the expiry has not passed: the cell becomes ready *)
      exists LStep, h. unfold step. rewrite Eph, Hh. eexists. split; [unfold actor_ok; first [left; eexists; reflexivity | right; left; reflexivity | right; right; first [reflexivity | rewrite Eph; reflexivity | rewrite E; reflexivity]]|]. split; [auto|]. split; [reflexivity|]. left. left.
      cbn [ready]. destruct (pending s q) as [t|] eqn:Epd.
      * rewrite He. apply upd_same.
      * exfalso. apply (proj1 (B_pend s IB q)) in Epd. destruct Epd; congruence.
  - (* PDone: then it is settled already *)
    exfalso. destruct (late s q) eqn:El.
    + destruct (B_late s IB q El) as [_ X]. congruence.
    + assert (ready s q = true) by (apply (B_ready s IB); auto). congruence.
Qed.


(* a continuation in which, at every step, the actor is the waiter or a thread inside serve() *)
Inductive runs_by (w : nat) : st -> list (label * nat) -> st -> Prop :=
| rb_nil s : runs_by w s [] s
| rb_cons s l i s1 evs s' : actor_ok s w l i -> quiet l -> step l i s = Some s1 -> runs_by w s1 evs s' -> runs_by w s ((l, i) :: evs) s'.

Lemma runs_by_runl w s evs s' : runs_by w s evs s' -> runl s evs = Some s' /\ (forall e, In e evs -> quiet (fst e)).
Proof.
  induction 1 as [|s l i s1 evs s' Ha Hq Hs R [IH1 IH2]]; [split; [reflexivity|intros e []]|].
  split; [cbn; rewrite Hs; exact IH1|]. intros e [<-|He]; [exact Hq|auto].
Qed.
Lemma own_run_by w : forall evs s s', runl s evs = Some s' -> (forall e, In e evs -> snd e = w /\ quiet (fst e)) -> runs_by w s evs s'.
Proof.
  induction evs as [|[l i] r IH]; intros s s' H Hown; cbn in H; [injection H as <-; constructor|].
  destruct (step l i s) as [s1|] eqn:E; [|discriminate H].
  destruct (Hown (l, i) (or_introl eq_refl)) as [Hi Hq]. cbn in Hi, Hq. subst i.
  econstructor; [right; left; reflexivity|exact Hq|exact E|]. apply IH; [exact H|]. intros e He. apply Hown. right; exact He.
Qed.

Theorem can_always_finish_by : forall n s w q, InvA s -> InvB s -> myseq (thrs s w) = Some q -> inside (tpc (thrs s w)) ->
  M s w q < n -> exists evs s', runs_by w s evs s' /\ finished (tpc (thrs s' w)).
Proof.
  induction n as [|n IH]; intros s w q IA IB Hm Hin HM; [lia|].
  destruct Hin as [Hl|Hf]; [|exists [], s; split; [constructor|exact Hf]].
  destruct (ready s q) eqn:Er.
  { destruct (settled_finishes _ s w q IA IB Hm (or_introl Er) (or_introl Hl) (le_n _)) as (evs & s' & H1 & H2 & H3).
    exists evs, s'. split; [apply own_run_by; assumption|exact H2]. }
  destruct (expd s q) eqn:Ee.
  { destruct (settled_finishes _ s w q IA IB Hm (or_intror Ee) (or_introl Hl) (le_n _)) as (evs & s' & H1 & H2 & H3).
    exists evs, s'. split; [apply own_run_by; assumption|exact H2]. }
  destruct (nearer_by s w q IA IB Hm Hl Er Ee) as (l & i & s1 & Hact & Hlab & Hst & Hprog).
  pose proof (invA_step _ _ _ _ IA Hst) as IA1. pose proof (invB_step _ _ _ _ IB Hst) as IB1.
  assert (Hm1 : myseq (thrs s1 w) = Some q) by (rewrite (step_myseq_kept' s l i s1 w Hlab Hst); exact Hm).
  assert (Hin1 : inside (tpc (thrs s1 w))) by (eapply step_inside_kept; eauto; left; exact Hl).
  destruct Hprog as [Hs|Hlt].
  - destruct (settled_finishes _ s1 w q IA1 IB1 Hm1 Hs Hin1 (le_n _)) as (evs & s' & H1 & H2 & H3).
    exists ((l, i) :: evs), s'. split; [|exact H2]. econstructor; [exact Hact|exact Hlab|exact Hst|apply own_run_by; assumption].
  - destruct (IH s1 w q IA1 IB1 Hm1 Hin1 ltac:(lia)) as (evs & s' & H1 & H2).
    exists ((l, i) :: evs), s'. split; [|exact H2]. econstructor; [exact Hact|exact Hlab|exact Hst|exact H1].
Qed.

(* the absent threads: they are outside serve() and are not the waiter; a run by the waiter and the serving threads never schedules them and
   leaves them exactly as they were *)
Lemma runs_by_absent w (absent : nat -> bool) : absent w = false -> forall s evs s', runs_by w s evs s' ->
  (forall j, absent j = true -> outside (tpc (thrs s j)) = true) ->
  (forall e, In e evs -> (exists q0, fst e = LAnswer q0) \/ absent (snd e) = false) /\ (forall j, absent j = true -> thrs s' j = thrs s j).
Proof.
  intros Hw s evs s' R. induction R as [|s l i s1 evs s' Ha Hq Hs R IH]; intros Hout; [split; [intros e []|reflexivity]|].
  assert (Hi : (exists q0, l = LAnswer q0) \/ absent i = false).
  { destruct Ha as [Ha|[->|Ha]]; [left; exact Ha|right; exact Hw|right].
    destruct (absent i) eqn:Ai; [|reflexivity]. specialize (Hout i Ai). destruct (tpc (thrs s i)); discriminate. }
  assert (Hkeep : forall j, absent j = true -> thrs s1 j = thrs s j).
  { intros j Aj. apply (absent_stays s l i s1 j Hs); [|apply Hout; exact Aj].
    destruct Hi as [Hi|Hi]; [left; exact Hi|right; right; intros ->; congruence]. }
  destruct IH as [IH1 IH2]; [intros j Aj; rewrite (Hkeep j Aj); apply Hout; exact Aj|].
  split; [intros e [<-|He]; [exact Hi|apply IH1; exact He]|intros j Aj; rewrite (IH2 j Aj); apply Hkeep; exact Aj].
Qed.

Theorem no_trap_without s w q (absent : nat -> bool) : InvA s -> InvB s -> InvD s -> myseq (thrs s w) = Some q -> in_loop (tpc (thrs s w)) = true ->
  absent w = false -> (forall j, absent j = true -> outside (tpc (thrs s j)) = true) ->
  exists evs s', runl s evs = Some s' /\ (forall e, In e evs -> quiet (fst e))
    /\ (forall e, In e evs -> (exists q0, fst e = LAnswer q0) \/ absent (snd e) = false)
    /\ (forall j, absent j = true -> thrs s' j = thrs s j)
    /\ (tpc (thrs s' w) = Returned \/ (tpc (thrs s' w) = TimedOut /\ expd s q = true)).
Proof.
  intros IA IB ID Hm Hl Hw Hout.
  destruct (can_always_finish_by (S (M s w q)) s w q IA IB Hm (or_introl Hl) (Nat.lt_succ_diag_r _)) as (evs & s' & Hr & Hf).
  destruct (runs_by_runl w s evs s' Hr) as [Hrun Hq]. destruct (runs_by_absent w absent Hw s evs s' Hr Hout) as [Hsched Hkeep].
  exists evs, s'. split; [exact Hrun|]. split; [exact Hq|]. split; [exact Hsched|]. split; [exact Hkeep|].
  destruct Hf as [Hf|Hf]; [left; exact Hf|right; split; [exact Hf|]].
  destruct (runl_inv evs s s' IA IB ID Hrun) as (_ & _ & ID').
  destruct (ID' w Hf) as (q' & Hm' & He' & _).
  rewrite (quiet_run_myseq evs s s' w Hq Hrun), Hm in Hm'. inversion Hm'; subst q'.
  rewrite (quiet_run_expd evs s s' Hq Hrun) in He'. exact He'.
Qed.
