From V Require Import lib.Base model.CallTree gen.Gen_calls.
Lemma tie_calls : Gen_calls.sync_request_is_async_value = true /\ Gen_calls.handle_call_applies_target_once = true
  /\ Gen_calls.handle_callattr_is_getattr_then_call = true /\ Gen_calls.netref_call_sends_args_and_kwargs_items = true
  /\ Gen_calls.value_waits_then_returns_or_raises = true /\ Gen_calls.wait_serves_while_waiting = true.
Proof. repeat split. Qed.
