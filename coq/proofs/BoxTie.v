(* Tie between the facts regenerated from the source tree (gen/Gen_box.v, Gen_consts.v, Gen_colls.v, Gen_brine.v)
   and what model/Box.v and the C03 theorems use.  Every lemma is by computation: a change of a test, a label,
   an action or the order of the branches of _box / _unbox makes this file stop compiling. *)
From V Require Import lib.Base model.Brine model.Box gen.Gen_box gen.Gen_consts gen.Gen_brine.
From Coq Require Import String.
Open Scope Z_scope.

(* _box: dumpable -> by value; exact tuple -> item by item; netref of this connection -> its id pack as a local
   reference; anything else -> registered in the local-object table and sent as a remote reference *)
Lemma tie_box_ladder : Gen_box.box_ladder = std_bladder.
Proof. reflexivity. Qed.
(* _unbox: the four labels in the same association, anything else raises ValueError *)
Lemma tie_unbox_ladder : Gen_box.unbox_ladder = std_uladder.
Proof. reflexivity. Qed.
(* the labels of the ladders are the published constants *)
Lemma tie_labels :
  (Gen_consts.LABEL_VALUE, Gen_consts.LABEL_TUPLE, Gen_consts.LABEL_LOCAL_REF, Gen_consts.LABEL_REMOTE_REF) = (1, 2, 3, 4) /\
  map (fun r => fst (snd r)) (b_rungs Gen_box.box_ladder) ++ [fst (b_else Gen_box.box_ladder)] =
    [Gen_consts.LABEL_VALUE; Gen_consts.LABEL_TUPLE; Gen_consts.LABEL_LOCAL_REF; Gen_consts.LABEL_REMOTE_REF] /\
  map fst Gen_box.unbox_ladder =
    [Gen_consts.LABEL_VALUE; Gen_consts.LABEL_TUPLE; Gen_consts.LABEL_LOCAL_REF; Gen_consts.LABEL_REMOTE_REF].
Proof. repeat split. Qed.

(* get_id_pack: instances are keyed by the address of the object, classes by their own address with 0 as the
   instance part: two different live objects never share a key.  The NAME and the CLASS id in the pack are read
   from the object's current class (obj.__class__.__module__/__name__, id(type(obj))): the pack of one and the same
   object changes when its class is reassigned or renamed (props/C03.v, c03_one_proxy_refuted_when_id_pack_changes) *)
Lemma tie_id_pack :
  Gen_box.id_pack_instance = ["name_pack"; "id(type(obj))"; "id(obj)"]%string /\
  Gen_box.id_pack_class = ["name_pack"; "id(obj)"; "0"]%string /\
  Gen_box.id_pack_instance_name = "name_pack = '{0}.{1}'.format(obj.__class__.__module__, obj.__class__.__name__)"%string /\
  Gen_box.id_pack_class_name = "name_pack = '{0}.{1}'.format(obj.__module__, obj.__name__)"%string.
Proof. repeat split; reflexivity. Qed.
(* netrefs are recognised by their TYPE (an object answering every attribute name is not taken for one); every name the
   function reads is defined; module-like objects get instance-shaped packs from every path of their branch *)
Lemma tie_id_pack_guards :
  Gen_box.id_pack_netref_test_on_type = true /\ Gen_box.id_pack_undefined_names = [] /\
  Gen_box.id_pack_module_test = "inspect.ismodule(obj) or getattr(obj, '__name__', None) == 'module'"%string /\
  Gen_box.id_pack_module_returns = [["name_pack"; "id(type(obj))"; "id(obj)"]; ["name_pack"; "id(type(obj))"; "id(obj)"]]%string /\
  Gen_box.id_pack_module_names =
    ["'{0}.{1}'.format(obj_cls.__module__, obj_cls.__name__)"; "obj.__name__"; "'{0}.{1}'.format(obj.__class__.__module__, obj.__name__)";
     "'{0}.{1}'.format(obj.__module__, obj.__name__)"; "'{0}'.format(obj.__name__)"]%string.
Proof. repeat split; reflexivity. Qed.

(* the by-value test looks at the exact type only (so instances of subclasses are not values) *)
Lemma tie_exact_types : Gen_box.dumpable_tests_exact_types = true /\
  Gen_brine.simple_types = ["NoneType"; "int"; "bool"; "float"; "bytes"; "str"; "complex"; "NotImplementedType"; "ellipsis"]%string.
Proof. split; reflexivity. Qed.

(* the counting constants of the table and of the proxies (0 / +1 / '<' / 1 / +1 / whole count) are C10's tie
   (proofs/RefcountTie.v over gen/Gen_colls.v); model/Box.v uses the same numbers and the harness compares every count *)

(* obtain / deliver are pickle round trips whose bytes travel by value *)
Lemma tie_copy :
  Gen_box.obtain_is_loads_of_dumps = true /\ Gen_box.deliver_is_remote_loads_of_local_dumps = true /\
  Gen_box.netref_pickles_at_the_owner = true /\ Gen_box.handle_pickle_returns_bytes_of_dumps = true.
Proof. repeat split. Qed.

(* _netref_factory is translated statement by statement; the ONLY thing that may differ between trees is whether the proxy
   cache is looked at again after the wait for HANDLE_INSPECT (a bool, not fixed here: props/C03.v has the theorem for each
   value: c03_one_proxy_nested_when_rechecked / c03_one_proxy_nested_refuted) *)
Lemma tie_factory : Gen_box.factory_rechecks_cache_after_inspect = true \/ Gen_box.factory_rechecks_cache_after_inspect = false.
Proof. destruct Gen_box.factory_rechecks_cache_after_inspect; auto. Qed.
