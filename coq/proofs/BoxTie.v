(* Tie between the facts regenerated from the source tree (gen/Gen_box.v, Gen_consts.v, Gen_colls.v, Gen_brine.v)
   and what model/Box.v and the C03 theorems use.  Every lemma is by computation: a change of a test, a label,
   an action or the order of the branches of _box / _unbox makes this file stop compiling. *)
From V Require Import lib.Base model.Brine model.Refcount model.Box gen.Gen_box gen.Gen_consts gen.Gen_colls gen.Gen_brine.
From Coq Require Import String.
Open Scope Z_scope.

(* _box: dumpable -> by value; exact tuple -> item by item; netref of this connection -> its id pack as a local
   reference; anything else -> registered in the local-object table and sent as a remote reference *)
Lemma tie_box_ladder : Gen_box.box_ladder = std_bladder.
Proof. reflexivity. Qed.
(* _unbox: the four labels in the same association, anything else raises ValueError *)
Lemma tie_unbox_ladder : Gen_box.unbox_ladder = std_uladder.
Proof. reflexivity. Qed.
(* the labels of the ladders are the published constants *)
Lemma tie_labels :
  (Gen_consts.LABEL_VALUE, Gen_consts.LABEL_TUPLE, Gen_consts.LABEL_LOCAL_REF, Gen_consts.LABEL_REMOTE_REF) = (1, 2, 3, 4) /\
  map (fun r => fst (snd r)) (b_rungs Gen_box.box_ladder) ++ [fst (b_else Gen_box.box_ladder)] =
    [Gen_consts.LABEL_VALUE; Gen_consts.LABEL_TUPLE; Gen_consts.LABEL_LOCAL_REF; Gen_consts.LABEL_REMOTE_REF] /\
  map fst Gen_box.unbox_ladder =
    [Gen_consts.LABEL_VALUE; Gen_consts.LABEL_TUPLE; Gen_consts.LABEL_LOCAL_REF; Gen_consts.LABEL_REMOTE_REF].
Proof. repeat split. Qed.

(* get_id_pack: instances are keyed by the address of the object, classes by their own address with 0 as the
   instance part: two different live objects never share a key *)
Lemma tie_id_pack :
  Gen_box.id_pack_instance = ["name_pack"; "id(type(obj))"; "id(obj)"]%string /\
  Gen_box.id_pack_class = ["name_pack"; "id(obj)"; "0"]%string.
Proof. split; reflexivity. Qed.

(* the by-value test looks at the exact type only (so instances of subclasses are not values) *)
Lemma tie_exact_types : Gen_box.dumpable_tests_exact_types = true /\
  Gen_brine.simple_types = ["NoneType"; "int"; "bool"; "float"; "bytes"; "str"; "complex"; "NotImplementedType"; "ellipsis"]%string.
Proof. split; reflexivity. Qed.

(* the counting constants of the table and of the proxies (C10's subject) are the ones model/Box.v uses *)
Lemma tie_counts :
  Gen_colls.add_init = 0 /\ Gen_colls.add_inc = 1 /\ Gen_colls.dec_cmp = CLt /\
  Gen_colls.proxy_init = 1 /\ Gen_colls.unbox_inc = 1 /\ Gen_colls.del_src = DRefcount.
Proof. repeat split. Qed.

(* obtain / deliver are pickle round trips whose bytes travel by value *)
Lemma tie_copy :
  Gen_box.obtain_is_loads_of_dumps = true /\ Gen_box.deliver_is_remote_loads_of_local_dumps = true /\
  Gen_box.netref_pickles_at_the_owner = true /\ Gen_box.handle_pickle_returns_bytes_of_dumps = true.
Proof. repeat split. Qed.
