From V Require Import lib.Base model.Proto.
From Coq Require Import ZifyBool.

Definition fully_guarded (P : dparams) : bool :=
  unpack_in_try P && unbox_in_try P && handler_in_try P && reply_encode_guarded P && exc_encode_guarded P.

(* every outcome is answerable except an exception class the configuration marks for local propagation, on a tree that re-raises those *)
Definition answerable (P : dparams) (o : outcome) : bool := match o with ORaiseMarked => negb (reraises_marked P) | _ => true end.

(* exactly one response, bearing the request's own number; the handler runs at most once; nothing escapes *)
Theorem serve_exactly_one P seq o : fully_guarded P = true -> answerable P o = true ->
  let r := serve_request P seq o in
  length (sent r) = 1%nat /\ (forall f, In f (sent r) -> frame_seq f = seq) /\ invoked r <= 1 /\ crashed r = false.
Proof.
  unfold fully_guarded. intros H Ha. repeat (apply andb_true_iff in H as [H ?]).
  unfold serve_request. rewrite H, H0, H1, H2, H3.
  destruct o as [| | |[]|[]|]; cbn in *; try (apply negb_true_iff in Ha; rewrite Ha); cbn; repeat split; auto; intros f [<-|[]]; reflexivity.
Qed.

(* the configuration's local-propagation switch: the handler ran, nothing is sent, the exception escapes the serving loop *)
Theorem marked_exception_unanswered P seq : handler_in_try P = true -> reraises_marked P = true ->
  let r := serve_request P seq ORaiseMarked in sent r = [] /\ crashed r = true /\ invoked r = 1%nat.
Proof. intros H1 H2. unfold serve_request. rewrite H1, H2. repeat split. Qed.

(* F2: a result the serializer rejects while encoding, with the reply built outside any guard *)
Theorem unencodable_result_refuted P seq : reply_encode_guarded P = false ->
  sent (serve_request P seq (OValue false)) = [] /\ crashed (serve_request P seq (OValue false)) = true.
Proof. intros H. unfold serve_request. rewrite H. split; reflexivity. Qed.
Theorem unencodable_exception_refuted P seq : handler_in_try P = true -> exc_encode_guarded P = false ->
  sent (serve_request P seq (ORaise false)) = [] /\ crashed (serve_request P seq (ORaise false)) = true.
Proof. intros H1 H2. unfold serve_request. rewrite H1, H2. split; reflexivity. Qed.

(* a whole stream of requests *)
Fixpoint serve_all (P : dparams) (reqs : list (Z * outcome)) : list served :=
  match reqs with [] => [] | (q, o) :: t => serve_request P q o :: serve_all P t end.
Definition responses_for (q : Z) (l : list served) : nat :=
  length (filter (fun f => Z.eqb (frame_seq f) q) (concat (map sent l))).

Lemma responses_app q a b : responses_for q (a ++ b) = (responses_for q a + responses_for q b)%nat.
Proof. unfold responses_for. now rewrite map_app, concat_app, filter_app, app_length. Qed.

Theorem stream_exactly_one P reqs : fully_guarded P = true -> NoDup (map fst reqs) ->
  Forall (fun qo => answerable P (snd qo) = true) reqs ->
  forall q o, In (q, o) reqs -> responses_for q (serve_all P reqs) = 1%nat
  /\ Forall (fun r => crashed r = false /\ invoked r <= 1) (serve_all P reqs).
Proof.
  intros HP. induction reqs as [|[q0 o0] t IH]; intros Hnd Hans q o Hin; [contradiction|].
  cbn [map fst] in Hnd. inversion Hnd as [|? ? Hnotin Hnd']; subst.
  inversion Hans as [|? ? Ha0 Hans']; subst. cbn [snd] in Ha0.
  destruct (serve_exactly_one P q0 o0 HP Ha0) as (Hlen & Hseq & Hinv & Hcr).
  assert (Hone : forall q', responses_for q' [serve_request P q0 o0] = if Z.eqb q0 q' then 1%nat else 0%nat).
  { intros q'. unfold responses_for. cbn [map concat]. rewrite app_nil_r.
    destruct (sent (serve_request P q0 o0)) as [|f [|g r]]; cbn in Hlen; try discriminate.
    cbn. rewrite (Hseq f (or_introl eq_refl)). destruct (Z.eqb q0 q'); reflexivity. }
  assert (Hzero : forall q', ~ In q' (map fst t) -> responses_for q' (serve_all P t) = 0%nat).
  { clear -HP Hans'. induction t as [|[a b] t IH]; intros q' Hn; [reflexivity|].
    inversion Hans' as [|? ? Hab Hans'']; subst. cbn [snd] in Hab.
    cbn [serve_all]. change (serve_request P a b :: serve_all P t) with ([serve_request P a b] ++ serve_all P t).
    rewrite responses_app. cbn [map fst] in Hn. rewrite (IH Hans'') by (intros X; apply Hn; now right).
    destruct (serve_exactly_one P a b HP Hab) as (Hlen & Hseq & _).
    unfold responses_for. cbn [map concat]. rewrite app_nil_r.
    destruct (sent (serve_request P a b)) as [|f [|g r]]; cbn in Hlen; try discriminate.
    cbn. rewrite (Hseq f (or_introl eq_refl)). destruct (Z.eqb_spec a q'); [exfalso; apply Hn; left; exact e|reflexivity]. }
  cbn [serve_all]. split.
  - change (serve_request P q0 o0 :: serve_all P t) with ([serve_request P q0 o0] ++ serve_all P t).
    rewrite responses_app, Hone. destruct Hin as [E|Hin].
    + injection E as -> ->. rewrite Z.eqb_refl. now rewrite Hzero.
    + assert (q0 <> q) by (intros ->; apply Hnotin; apply in_map_iff; exists (q, o); auto).
      destruct (Z.eqb_spec q0 q); [contradiction|]. now destruct (IH Hnd' Hans' q o Hin).
  - constructor; [split; auto|]. destruct t as [|[q1 o1] t']; [constructor|].
    now destruct (IH Hnd' Hans' q1 o1 (or_introl eq_refl)).
Qed.

(* ---- requester side ---- *)
Definition keys (s : req_state) : list Z := map fst (callbacks s).
Definition InvR (s : req_state) : Prop :=
  NoDup (keys s) /\ forall q, In q (keys s) -> (q < next_seq s)%Z.

Lemma remove_key_keys k l : forall x, In x (map fst (remove_key k l)) <-> (In x (map fst l) /\ x <> k).
Proof.
  induction l as [|[a b] t IH]; intros x; cbn; [tauto|].
  destruct (Z.eqb_spec a k); cbn; rewrite IH; [subst|]; intuition congruence.
Qed.
Lemma remove_key_nodup k l : NoDup (map fst l) -> NoDup (map fst (remove_key k l)).
Proof.
  induction l as [|[a b] t IH]; cbn; intros H; [constructor|]. inversion H; subst.
  destruct (Z.eqb a k); cbn; [auto|]. constructor; [|auto]. rewrite remove_key_keys. tauto.
Qed.

Lemma invR_step s e : InvR s -> InvR (req_step s e).
Proof.
  intros [Hn Hlt]. destruct e as [cb ok|q is_exc|q g]; cbn.
  - destruct ok; split; cbn.
    + constructor; [|exact Hn]. intros X. apply Hlt in X. lia.
    + intros q [<-|X]; [lia|apply Hlt in X; lia].
    + exact Hn.
    + intros q X. apply Hlt in X. lia.
  - destruct (find_key q (callbacks s)); [|split; assumption]. split; cbn.
    + now apply remove_key_nodup.
    + intros x X. apply remove_key_keys in X. now apply Hlt.
  - destruct g; [|split; assumption]. destruct (find_key q (callbacks s)); [|split; assumption]. split; cbn.
    + now apply remove_key_nodup.
    + intros x X. apply remove_key_keys in X. now apply Hlt.
Qed.
Theorem invR_run evs : InvR (fold_left req_step evs init_req).
Proof.
  assert (G : forall s, InvR s -> InvR (fold_left req_step evs s)).
  { induction evs as [|e t IH]; intros s H; cbn; [exact H|]. apply IH. now apply invR_step. }
  apply G. split; [constructor|intros q []].
Qed.

(* a response invokes exactly the callback registered under its number, and removes it; an unknown number invokes nothing *)
Lemma find_key_in k l cb : find_key k l = Some cb -> In (k, cb) l.
Proof. induction l as [|[a b] t IH]; cbn; [discriminate|]. destruct (Z.eqb_spec a k); [intros [= ->]; subst; now left|auto]. Qed.
Lemma find_key_none k l : find_key k l = None -> ~ In k (map fst l).
Proof. induction l as [|[a b] t IH]; cbn; [tauto|]. destruct (Z.eqb_spec a k); [discriminate|intros H [X|X]; [congruence|now apply IH]]. Qed.

Theorem response_routing s q is_exc :
  (forall cb, find_key q (callbacks s) = Some cb ->
     log (req_step s (EResponse q is_exc)) = log s ++ [(cb, is_exc)] /\ ~ In q (keys (req_step s (EResponse q is_exc)))
     /\ forall x, x <> q -> find_key x (callbacks (req_step s (EResponse q is_exc))) = find_key x (callbacks s))
  /\ (find_key q (callbacks s) = None -> req_step s (EResponse q is_exc) = s).
Proof.
  split.
  - intros cb H. cbn. rewrite H. cbn. split; [reflexivity|]. split.
    + unfold keys. cbn. rewrite remove_key_keys. tauto.
    + intros x Hx. clear H. induction (callbacks s) as [|[a b] t IH]; cbn; [reflexivity|].
      destruct (Z.eqb_spec a q); cbn.
      * subst. destruct (Z.eqb_spec q x); [congruence|exact IH].
      * destruct (Z.eqb a x); [reflexivity|exact IH].
  - intros H. cbn. now rewrite H.
Qed.

(* a number that has been answered (or never registered) stays unknown until the counter hands it out again, which it never does:
   registered numbers are always below the counter and the counter only grows *)
Theorem answered_stays_unknown s q is_exc e : InvR s -> find_key q (callbacks s) <> None ->
  let s1 := req_step s (EResponse q is_exc) in find_key q (callbacks (req_step s1 e)) = None.
Proof.
  intros [Hn Hlt] Hq. cbn zeta. destruct (find_key q (callbacks s)) as [cb|] eqn:E; [|congruence].
  assert (Hin : In q (keys s)) by (apply find_key_in in E; unfold keys; apply in_map_iff; exists (q, cb); auto).
  pose proof (Hlt q Hin) as Hlt1.
  assert (Hgone : find_key q (remove_key q (callbacks s)) = None).
  { clear. induction (callbacks s) as [|[a b] t IH]; cbn; [reflexivity|]. destruct (Z.eqb_spec a q); cbn; [exact IH|].
    destruct (Z.eqb_spec a q); [contradiction|exact IH]. }
  assert (Hrm : forall q', find_key q (remove_key q' (remove_key q (callbacks s))) = None).
  { intros q'. clear -Hgone. induction (remove_key q (callbacks s)) as [|[a b] t IH]; cbn in *; [reflexivity|].
    destruct (Z.eqb_spec a q'); cbn.
    + destruct (Z.eqb_spec a q); [discriminate|]. apply IH. exact Hgone.
    + destruct (Z.eqb_spec a q); [discriminate|]. apply IH. exact Hgone. }
  cbn [req_step]. rewrite E. destruct e as [cb' ok|q' e'|q' g]; cbn.
  - destruct ok; cbn; [|exact Hgone]. destruct (Z.eqb_spec (next_seq s) q); [lia|exact Hgone].
  - destruct (find_key q' (remove_key q (callbacks s))) eqn:E2; cbn; [|exact Hgone]. apply Hrm.
  - destruct g; cbn; [|exact Hgone]. destruct (find_key q' (remove_key q (callbacks s))) eqn:E2; cbn; [|exact Hgone]. apply Hrm.
Qed.

(* a response that cannot be rebuilt here: guarded, it is routed exactly like an exception response to the same request; unguarded,
   nothing at the requester changes - the request's callback stays registered (and the error escapes the serving loop) *)
Theorem undecodable_response s q : req_step s (EUndecodable q true) = req_step s (EResponse q true)
  /\ req_step s (EUndecodable q false) = s.
Proof. split; cbn; [destruct (find_key q (callbacks s)); reflexivity|reflexivity]. Qed.

(* sequence numbers never repeat: the counter only grows and every registration uses the current value *)
Theorem seq_monotone s e : (next_seq s <= next_seq (req_step s e))%Z.
Proof.
  destruct e as [cb ok|q x|q g]; cbn; [lia| |].
  - destruct (find_key q (callbacks s)); cbn; lia.
  - destruct g; [|lia]. destruct (find_key q (callbacks s)); cbn; lia.
Qed.

(* a failed send leaves no dangling registration *)
Theorem send_failure_unregisters s cb : callbacks (req_step s (ERequest cb false)) = callbacks s.
Proof. reflexivity. Qed.

(* ... and it stays unknown for ever: over ANY further history *)
Lemma find_key_remove_none q k l : find_key q l = None -> find_key q (remove_key k l) = None.
Proof.
  induction l as [|[a b] t IH]; cbn; [auto|]. destruct (Z.eqb_spec a q); [discriminate|]. intros H.
  destruct (Z.eqb a k); cbn; [now apply IH|]. destruct (Z.eqb_spec a q); [contradiction|now apply IH].
Qed.
Lemma unknown_below_counter_step s e q : (q < next_seq s)%Z -> find_key q (callbacks s) = None ->
  (q < next_seq (req_step s e))%Z /\ find_key q (callbacks (req_step s e)) = None.
Proof.
  intros Hlt Hn. destruct e as [cb ok|q' x|q' g]; cbn.
  - split; [lia|]. destruct ok; cbn; [|exact Hn]. destruct (Z.eqb_spec (next_seq s) q); [lia|exact Hn].
  - destruct (find_key q' (callbacks s)); cbn; [|auto]. split; [exact Hlt|now apply find_key_remove_none].
  - destruct g; [|auto]. destruct (find_key q' (callbacks s)); cbn; [|auto]. split; [exact Hlt|now apply find_key_remove_none].
Qed.
Theorem answered_stays_unknown_forever s q is_exc evs : InvR s -> find_key q (callbacks s) <> None ->
  find_key q (callbacks (fold_left req_step evs (req_step s (EResponse q is_exc)))) = None.
Proof.
  intros [Hn Hlt] Hq. destruct (find_key q (callbacks s)) as [cb|] eqn:E; [|congruence].
  assert (Hin : In q (keys s)) by (apply find_key_in in E; unfold keys; apply in_map_iff; exists (q, cb); auto).
  pose proof (Hlt q Hin) as Hlt1.
  assert (H0 : (q < next_seq (req_step s (EResponse q is_exc)))%Z /\ find_key q (callbacks (req_step s (EResponse q is_exc))) = None).
  { cbn. rewrite E. cbn. split; [exact Hlt1|]. clear. induction (callbacks s) as [|[a b] t IH]; cbn; [reflexivity|].
    destruct (Z.eqb_spec a q); cbn; [exact IH|]. destruct (Z.eqb_spec a q); [contradiction|exact IH]. }
  revert H0. generalize (req_step s (EResponse q is_exc)). induction evs as [|e t IH]; intros s0 [A B]; cbn; [exact B|].
  apply IH. now apply unknown_below_counter_step.
Qed.
