(* C10 — proofs about model/Refcount.v for the parameters found in the code (std_params). *)
From V Require Import lib.Base model.Refcount.
From Coq Require Import ZifyBool.
Ltac Zify.zify_post_hook ::= Z.to_euclidean_division_equations.
Open Scope Z_scope.

Notation P0 := std_params.

(* ---- counting ---- *)
Definition b2z (b : bool) : Z := if b then 1 else 0.
Fixpoint cnt (ks : list nat) (k : nat) : Z :=
  match ks with [] => 0 | j :: r => b2z (Nat.eqb j k) + cnt r k end.
Definition refs_m (m : msg) (k : nat) : Z :=
  match m with
  | MCall ks => cnt ks k
  | MReplyRef (Some r) => b2z (Nat.eqb r k)
  | _ => 0
  end.
Fixpoint refs (q : list msg) (k : nat) : Z :=
  match q with [] => 0 | m :: r => refs_m m k + refs r k end.
Definition dels_m (m : msg) (k : nat) : Z :=
  match m with
  | MDel j n => if Nat.eqb j k then n else 0
  | MDel0 j => b2z (Nat.eqb j k)
  | _ => 0
  end.
Fixpoint dels (q : list msg) (k : nat) : Z :=
  match q with [] => 0 | m :: r => dels_m m k + dels r k end.

(* number of references the owner's table accounts for *)
Definition Sv (t : tbl) (k : nat) : Z := match t k with Some z => z + 1 | None => 0 end.
Definition pz (o : option Z) : Z := match o with Some r => r | None => 0 end.

Lemma cnt_nonneg ks k : 0 <= cnt ks k.
Proof. induction ks as [|j r IH]; cbn [cnt]; [lia|]. unfold b2z. destruct (Nat.eqb j k); lia. Qed.
Lemma cnt_app a b k : cnt (a ++ b) k = cnt a k + cnt b k.
Proof. induction a as [|j r IH]; cbn [cnt app]; [lia|]. rewrite IH. lia. Qed.
Lemma refs_app a b k : refs (a ++ b) k = refs a k + refs b k.
Proof. induction a as [|j r IH]; cbn [refs app]; [lia|]. rewrite IH. lia. Qed.
Lemma dels_app a b k : dels (a ++ b) k = dels a k + dels b k.
Proof. induction a as [|j r IH]; cbn [dels app]; [lia|]. rewrite IH. lia. Qed.
Lemma refs_m_nonneg m k : 0 <= refs_m m k.
Proof.
  destruct m as [ks|[r|]| | | | |]; cbn [refs_m]; try lia.
  - apply cnt_nonneg.
  - unfold b2z. destruct (Nat.eqb r k); lia.
Qed.
Lemma refs_nonneg q k : 0 <= refs q k.
Proof. induction q as [|m r IH]; cbn [refs]; [lia|]. pose proof (refs_m_nonneg m k). lia. Qed.

(* every release notice in flight carries a positive count *)
Definition dels_pos (q : list msg) : Prop := forall k n, In (MDel k n) q -> 1 <= n.
Definition has_del (k : nat) (q : list msg) : Prop := (exists n, In (MDel k n) q) \/ In (MDel0 k) q.

Lemma dels_m_nonneg m k : (forall j n, m = MDel j n -> 1 <= n) -> 0 <= dels_m m k.
Proof.
  intros H. destruct m; cbn [dels_m]; try lia.
  - destruct (Nat.eqb k0 k); [|lia]. specialize (H _ _ eq_refl). lia.
  - unfold b2z. destruct (Nat.eqb k0 k); lia.
Qed.
Lemma dels_nonneg q k : dels_pos q -> 0 <= dels q k.
Proof.
  induction q as [|m r IH]; intros H; cbn [dels]; [lia|].
  assert (0 <= dels_m m k) by (apply dels_m_nonneg; intros j n ->; apply (H j n); now left).
  assert (0 <= dels r k) by (apply IH; intros j n Hin; apply (H j n); now right). lia.
Qed.
Lemma dels_has q k : dels_pos q -> has_del k q -> 1 <= dels q k.
Proof.
  induction q as [|m r IH]; intros H Hd.
  - destruct Hd as [[n []]|[]].
  - cbn [dels].
    assert (Hr : dels_pos r) by (intros j n Hin; apply (H j n); now right).
    assert (0 <= dels_m m k) by (apply dels_m_nonneg; intros j n ->; apply (H j n); now left).
    pose proof (dels_nonneg r k Hr).
    destruct Hd as [[n [->|Hin]]|[->|Hin]].
    + cbn [dels_m]. rewrite Nat.eqb_refl. specialize (H k n (or_introl eq_refl)). lia.
    + assert (1 <= dels r k) by (apply IH; [exact Hr|left; now exists n]). lia.
    + cbn [dels_m]. rewrite Nat.eqb_refl. cbn [b2z]. lia.
    + assert (1 <= dels r k) by (apply IH; [exact Hr|now right]). lia.
Qed.
Lemma dels_pos_app a b : dels_pos a -> dels_pos b -> dels_pos (a ++ b).
Proof. intros Ha Hb k n Hin. apply in_app_or in Hin. destruct Hin; [eapply Ha|eapply Hb]; eauto. Qed.
Lemma dels_pos_tail m q : dels_pos (m :: q) -> dels_pos q.
Proof. intros H k n Hin. apply (H k n). now right. Qed.
Lemma has_del_app_r k a b : has_del k b -> has_del k (a ++ b).
Proof. intros [[n H]|H]; [left; exists n|right]; apply in_or_app; now right. Qed.
Lemma has_del_app_l k a b : has_del k a -> has_del k (a ++ b).
Proof. intros [[n H]|H]; [left; exists n|right]; apply in_or_app; now left. Qed.

(* ---- requests through proxies in flight are covered ---- *)
Definition mentions (m : msg) (k : nat) : Prop :=
  match m with MUse c args _ => In k (c :: args) | _ => False end.
Fixpoint uses_ok (p : nat -> option Z) (q : list msg) : Prop :=
  match q with
  | [] => True
  | m :: post => (forall k, mentions m k -> p k <> None \/ has_del k post) /\ uses_ok p post
  end.

Lemma uses_ok_mono p p' q : (forall k, p k <> None -> p' k <> None) -> uses_ok p q -> uses_ok p' q.
Proof.
  intros Hm. induction q as [|m r IH]; cbn [uses_ok]; [auto|]. intros [H1 H2]. split; [|auto].
  intros k Hk. destruct (H1 k Hk); [left; auto|now right].
Qed.
Lemma uses_ok_app p q m : uses_ok p q -> (forall k, mentions m k -> p k <> None) -> uses_ok p (q ++ [m]).
Proof.
  intros Hq Hm. induction q as [|x r IH]; cbn [uses_ok app].
  - split; [|exact I]. intros k Hk. left. auto.
  - destruct Hq as [H1 H2]. split; [|auto]. intros k Hk. destruct (H1 k Hk); [now left|right]. now apply has_del_app_l.
Qed.
(* the proxy of k dies and its release notice is appended *)
Lemma uses_ok_app_del p q k m : uses_ok p q -> has_del k [m] -> (forall j, ~ mentions m j) ->
  uses_ok (upd p k None) (q ++ [m]).
Proof.
  intros Hq Hd Hm. induction q as [|x r IH]; cbn [uses_ok app].
  - split; [|exact I]. intros j Hj. now apply Hm in Hj.
  - destruct Hq as [H1 H2]. split; [|auto]. intros j Hj. destruct (H1 j Hj) as [Hp|Hp].
    + unfold upd. destruct (Nat.eqb_spec j k) as [->|Hne]; [right; now apply has_del_app_r|now left].
    + right. now apply has_del_app_l.
Qed.

(* ---- RefCountingColl ---- *)
Definition nonneg (t : tbl) : Prop := forall k z, t k = Some z -> 0 <= z.

Lemma add_Sv t j k : Sv (coll_add P0 t j) k = Sv t k + b2z (Nat.eqb j k).
Proof.
  unfold coll_add, Sv, upd. rewrite (Nat.eqb_sym j k).
  destruct (Nat.eqb_spec k j) as [->|Hne]; cbn [b2z P0 p_add_init p_add_inc std_params].
  - destruct (t j); lia.
  - destruct (t k); lia.
Qed.
Lemma add_nonneg t j : nonneg t -> nonneg (coll_add P0 t j).
Proof.
  intros H k z. unfold coll_add, upd. destruct (Nat.eqb_spec k j) as [->|Hne]; [|apply H].
  cbn [P0 p_add_init p_add_inc std_params]. destruct (t j) as [z0|] eqn:E; intros [= <-]; [|lia]. specialize (H _ _ E). lia.
Qed.
Lemma box_all_spec ks : forall t, nonneg t ->
  nonneg (box_all P0 t ks) /\ forall k, Sv (box_all P0 t ks) k = Sv t k + cnt ks k.
Proof.
  induction ks as [|j r IH]; intros t Ht; cbn [box_all fold_left cnt].
  - split; [exact Ht|intros; lia].
  - destruct (IH (coll_add P0 t j) (add_nonneg t j Ht)) as [H1 H2]. split; [exact H1|].
    intros k. unfold box_all in H2. rewrite H2, add_Sv. lia.
Qed.

Lemma decref_spec t k z n : nonneg t -> t k = Some z -> 1 <= n -> n <= z + 1 ->
  exists t', coll_decref P0 t k n = Ok t' /\ nonneg t' /\ Sv t' k = Sv t k - n /\ forall j, j <> k -> t' j = t j.
Proof.
  intros Ht E Hn Hz. unfold coll_decref. rewrite E. cbn [P0 p_dec_cmp std_params cmp_holds].
  destruct (Z.ltb_spec z n) as [Hlt|Hge]; eexists; (split; [reflexivity|]); repeat split.
  - intros j y. unfold upd. destruct (Nat.eqb j k); [discriminate|apply Ht].
  - unfold Sv, upd. rewrite Nat.eqb_refl, E. lia.
  - intros j Hj. unfold upd. now destruct (Nat.eqb_spec j k).
  - intros j y. unfold upd. destruct (Nat.eqb j k); [intros [= <-]; lia|apply Ht].
  - unfold Sv, upd. rewrite Nat.eqb_refl, E. lia.
  - intros j Hj. unfold upd. now destruct (Nat.eqb_spec j k).
Qed.

(* ---- the peer's proxies ---- *)
Definition ppos (p : nat -> option Z) : Prop := forall k r, p k = Some r -> 1 <= r.
Definition ph_ok (p : nat -> option Z) (h : nat -> nat) : Prop := forall k, p k = None <-> h k = O.

Lemma unbox_spec ks : forall p h, ppos p -> ph_ok p h ->
  let ph := fold_left (unbox1 P0) ks (p, h) in
  ppos (fst ph) /\ ph_ok (fst ph) (snd ph) /\ (forall k, pz (fst ph k) = pz (p k) + cnt ks k) /\
  (forall k, p k <> None -> fst ph k <> None).
Proof.
  induction ks as [|j r IH]; intros p h Hp Hh; cbn [fold_left cnt].
  - repeat split; auto; try apply Hh. intros; cbn [fst]; lia.
  - set (p1 := upd p j (match p j with Some x => Some (x + p_unbox_inc P0) | None => Some (p_proxy_init P0) end)).
    set (h1 := upd h j (S (h j))).
    assert (E : unbox1 P0 (p, h) j = (p1, h1)) by reflexivity. rewrite E.
    assert (Hp1 : ppos p1).
    { intros k x. unfold p1, upd. destruct (Nat.eqb_spec k j) as [->|]; [|apply Hp].
      cbn [P0 p_unbox_inc p_proxy_init std_params]. destruct (p j) as [y|] eqn:Ey; intros [= <-]; [|lia]. specialize (Hp _ _ Ey). lia. }
    assert (Hh1 : ph_ok p1 h1).
    { intros k. unfold p1, h1, upd. destruct (Nat.eqb_spec k j) as [->|]; [|apply Hh].
      split; [destruct (p j); discriminate|discriminate]. }
    destruct (IH p1 h1 Hp1 Hh1) as (A & B & C & D). repeat split; auto; try apply B.
    + intros k. rewrite C. unfold p1, upd. rewrite (Nat.eqb_sym j k).
      destruct (Nat.eqb_spec k j) as [->|]; cbn [b2z]; [|lia].
      cbn [P0 p_unbox_inc p_proxy_init std_params]. destruct (p j); cbn [pz]; lia.
    + intros k Hk. apply D. unfold p1, upd. destruct (Nat.eqb_spec k j) as [->|]; [|exact Hk]. destruct (p j); discriminate.
Qed.

(* ---- the invariant of open connections ---- *)
Record Inv (s : st) : Prop := {
  i_open : closed s = false;
  i_cnt : forall k, Sv (slot s) k = refs (qab s) k + pz (prox s k) + dels (qba s) k;
  i_nonneg : nonneg (slot s);
  i_ppos : ppos (prox s);
  i_dpos : dels_pos (qba s);
  i_nodel0 : forall k, ~ In (MDel0 k) (qba s);
  i_holds : ph_ok (prox s) (holds s);
  i_uses : uses_ok (prox s) (qba s);
  i_errs : errs s = O
}.

Lemma init_inv : Inv init.
Proof. split; cbn; try easy; intros k; split; auto. Qed.

Lemma send_inv ks s : Inv s -> Inv (send P0 ks s).
Proof.
  intros [Ho Hc Hn Hp Hd H0 Hh Hu He]. unfold send.
  destruct (box_all_spec (filter (appref s) ks) (slot s) Hn) as [N1 N2].
  split; cbn; auto. intros k. rewrite N2, refs_app, Hc. cbn [refs refs_m]. lia.
Qed.

Lemma forallb_all_present t ks : all_present t ks = true -> forall k, In k ks -> t k <> None.
Proof.
  unfold all_present. rewrite forallb_forall. intros H k Hk. specialize (H k Hk). destruct (t k); [discriminate|discriminate].
Qed.
Lemma all_present_false t ks : all_present t ks = false -> exists k, In k ks /\ t k = None.
Proof.
  induction ks as [|j r IH]; cbn [all_present forallb]; [discriminate|].
  destruct (t j) eqn:E; cbn [andb].
  - intros H. destruct (IH H) as (k & Hk & Ek). exists k. split; [now right|exact Ek].
  - intros _. exists j. split; [now left|exact E].
Qed.

Lemma Sv_pos_present t k : 1 <= Sv t k -> t k <> None.
Proof. unfold Sv. destruct (t k); [discriminate|lia]. Qed.

Lemma deliver_ba_inv s : Inv s -> Inv (deliver_ba P0 s).
Proof.
  intros I. pose proof I as [Ho Hc Hn Hp Hd H0 Hh Hu He]. unfold deliver_ba.
  destruct (qba s) as [|m q] eqn:Eq; [exact I|].
  assert (Hdq : dels_pos q) by (eapply dels_pos_tail; eauto).
  assert (H0q : forall k, ~ In (MDel0 k) q) by (intros k Hin; apply (H0 k); now right).
  assert (Huq : uses_ok (prox s) q) by (cbn [uses_ok] in Hu; tauto).
  assert (Hrn : forall k, 0 <= refs (qab s) k) by (intros; apply refs_nonneg).
  assert (Hpn : forall k, 0 <= pz (prox s k)) by (intros k; destruct (prox s k) as [r|] eqn:E; cbn [pz]; [specialize (Hp _ _ E)|]; lia).
  assert (Hdn : forall k, 0 <= dels q k) by (intros; now apply dels_nonneg).
  destruct m as [ks|r| |k n|k|c args ret|]; cbn [serve_owner].
  - (* stray MCall: ignored *) split; cbn; auto; try (intros k; rewrite Hc; cbn [dels dels_m]; lia).
  - split; cbn; auto; try (intros k; rewrite Hc; cbn [dels dels_m]; lia).
  - split; cbn; auto; try (intros k; rewrite Hc; cbn [dels dels_m]; lia).
  - (* release notice *)
    assert (Hn1 : 1 <= n) by (apply (Hd k n); now left).
    pose proof (Hc k) as Hck. cbn [dels dels_m] in Hck. rewrite Nat.eqb_refl in Hck.
    specialize (Hrn k). specialize (Hpn k). pose proof (Hdn k).
    destruct (slot s k) as [z|] eqn:Ez; [|unfold Sv in Hck; rewrite Ez in Hck; lia].
    assert (Hz : n <= z + 1) by (unfold Sv in Hck; rewrite Ez in Hck; lia).
    destruct (decref_spec (slot s) k z n Hn Ez Hn1 Hz) as (t' & Et & Nt & St & Ot).
    cbn [set_qba slot]. rewrite Et. split; cbn; auto.
    intros j. rewrite refs_app. cbn [refs refs_m].
    destruct (Nat.eq_dec j k) as [->|Hne].
    + rewrite St. lia.
    + unfold Sv. rewrite (Ot j Hne). fold (Sv (slot s) j). rewrite Hc. cbn [dels dels_m].
      destruct (Nat.eqb_spec k j); [congruence|lia].
  - exfalso. apply (H0 k). now left.
  - (* request through a proxy *)
    assert (Hall : all_present (slot s) (c :: args) = true).
    { destruct (all_present (slot s) (c :: args)) eqn:E; [reflexivity|exfalso].
      destruct (all_present_false _ _ E) as (k & Hk & Ek).
      cbn [uses_ok] in Hu. destruct Hu as [Hu1 _]. specialize (Hu1 k Hk).
      pose proof (Hc k) as Hck. cbn [dels dels_m] in Hck. unfold Sv in Hck. rewrite Ek in Hck.
      specialize (Hrn k). specialize (Hpn k). pose proof (Hdn k).
      destruct Hu1 as [Hp1|Hd1].
      - destruct (prox s k) as [r|] eqn:Er; [|congruence]. specialize (Hp _ _ Er). cbn [pz] in Hck. lia.
      - pose proof (dels_has q k Hdq Hd1). lia. }
    cbn [set_qba slot]. rewrite Hall.
    destruct ret; [destruct args as [|r args']|].
    + split; cbn; auto. intros k. rewrite refs_app, Hc. cbn [refs refs_m dels dels_m]. lia.
    + split; cbn; auto.
      * intros k. rewrite refs_app, add_Sv, Hc. cbn [refs refs_m dels dels_m]. lia.
      * now apply add_nonneg.
    + split; cbn; auto. intros k. rewrite refs_app, Hc. cbn [refs refs_m dels dels_m]. lia.
  - split; cbn; auto; try (intros k; rewrite Hc; cbn [dels dels_m]; lia).
Qed.

Lemma unbox_all_inv s ks d : closed s = false -> nonneg (slot s) -> ppos (prox s) -> ph_ok (prox s) (holds s) ->
  dels_pos (qba s) -> (forall k, ~ In (MDel0 k) (qba s)) -> uses_ok (prox s) (qba s) -> errs s = O ->
  (forall k, Sv (slot s) k = refs (qab s) k + cnt ks k + pz (prox s k) + dels (qba s) k) ->
  (forall j, ~ mentions d j) -> (forall j n, d <> MDel j n) -> (forall j, d <> MDel0 j) ->
  let s' := unbox_all P0 s ks in Inv (set_qba s' (qba s' ++ [d])).
Proof.
  intros Ho Hn Hp Hh Hd H0 Hu He Hc Hm Hd1 Hd2. unfold unbox_all.
  destruct (unbox_spec ks (prox s) (holds s) Hp Hh) as (A & B & C & D).
  destruct (fold_left (unbox1 P0) ks (prox s, holds s)) as [p' h'] eqn:E. cbn [fst snd] in *.
  split; cbn; auto.
  - intros k. rewrite C, dels_app, Hc. cbn [dels]. destruct d; cbn [dels_m]; try lia.
    + exfalso; eapply Hd1; eauto. + exfalso; eapply Hd2; eauto.
  - apply dels_pos_app; [exact Hd|]. intros k n [->|[]]. exfalso; eapply Hd1; eauto.
  - intros k Hin. apply in_app_or in Hin. destruct Hin as [Hin|[Hin|[]]]; [eapply H0; eauto|eapply Hd2; eauto].
  - apply uses_ok_app; [eapply uses_ok_mono; eauto|]. intros k Hk. now apply Hm in Hk.
Qed.

Lemma unbox_all_inv0 s ks : closed s = false -> nonneg (slot s) -> ppos (prox s) -> ph_ok (prox s) (holds s) ->
  dels_pos (qba s) -> (forall k, ~ In (MDel0 k) (qba s)) -> uses_ok (prox s) (qba s) -> errs s = O ->
  (forall k, Sv (slot s) k = refs (qab s) k + cnt ks k + pz (prox s k) + dels (qba s) k) ->
  Inv (unbox_all P0 s ks).
Proof.
  intros Ho Hn Hp Hh Hd H0 Hu He Hc. unfold unbox_all.
  destruct (unbox_spec ks (prox s) (holds s) Hp Hh) as (A & B & C & D).
  destruct (fold_left (unbox1 P0) ks (prox s, holds s)) as [p' h'] eqn:E. cbn [fst snd] in *.
  split; cbn; auto.
  - intros k. rewrite C, Hc. lia.
  - eapply uses_ok_mono; eauto.
Qed.

Lemma deliver_ab_inv s : Inv s -> Inv (deliver_ab P0 s).
Proof.
  intros I. pose proof I as [Ho Hc Hn Hp Hd H0 Hh Hu He]. unfold deliver_ab.
  destruct (qab s) as [|m q] eqn:Eq; [exact I|].
  destruct m as [ks|[r|]| |k n|k|c args ret|]; cbn [serve_peer];
    try (split; cbn; auto; intros k; rewrite Hc; cbn [refs refs_m]; lia).
  - apply unbox_all_inv; cbn; auto; try discriminate.
    intros k. rewrite Hc. cbn [refs refs_m]. lia.
  - apply unbox_all_inv0; cbn; auto.
    intros k. rewrite Hc. cbn [refs refs_m cnt]. lia.
Qed.

Lemma finalize_inv k s : Inv s -> Inv (finalize P0 k s).
Proof.
  intros I. pose proof I as [Ho Hc Hn Hp Hd H0 Hh Hu He]. unfold finalize.
  destruct (prox s k) as [r|] eqn:Er.
  - cbn [P0 del_msg p_del_src std_params]. split; cbn; auto.
    + intros j. rewrite dels_app, Hc. cbn [dels dels_m]. unfold upd. rewrite (Nat.eqb_sym k j).
      destruct (Nat.eqb_spec j k) as [->|]; [rewrite Er; cbn [pz]; lia|lia].
    + intros j x. unfold upd. destruct (Nat.eqb j k); [discriminate|apply Hp].
    + apply dels_pos_app; [exact Hd|]. intros j n [[= <- <-]|[]]. eapply Hp; eauto.
    + intros j Hin. apply in_app_or in Hin. destruct Hin as [Hin|[Hin|[]]]; [eapply H0; eauto|discriminate].
    + intros j. unfold upd. destruct (Nat.eqb_spec j k) as [->|]; [tauto|apply Hh].
    + apply uses_ok_app_del; auto. left. exists r. now left.
  - split; cbn; auto. intros j. unfold upd. destruct (Nat.eqb_spec j k) as [->|]; [tauto|apply Hh].
Qed.

Lemma drop_all_inv k s : Inv s -> Inv (drop_all P0 k s).
Proof. intros I. unfold drop_all. destruct (holds s k); [exact I|now apply finalize_inv]. Qed.

Lemma drop_one_inv k s : Inv s -> Inv (drop_one P0 k s).
Proof.
  intros I. unfold drop_one. destruct (holds s k) as [|[|h]] eqn:Eh; [exact I|now apply finalize_inv|].
  pose proof I as [Ho Hc Hn Hp Hd H0 Hh Hu He]. split; cbn; auto.
  intros j. unfold upd. destruct (Nat.eqb_spec j k) as [->|]; [|apply Hh].
  split; [|discriminate]. intros E. apply Hh in E. congruence.
Qed.

Lemma all_held_spec s ks : all_held s ks = true -> forall k, In k ks -> holds s k <> O.
Proof.
  unfold all_held. rewrite forallb_forall. intros H k Hk. specialize (H k Hk).
  destruct (Nat.eqb_spec (holds s k) O); [discriminate|assumption].
Qed.

Lemma use_inv c args ret s : Inv s -> Inv (use c args ret s).
Proof.
  intros I. pose proof I as [Ho Hc Hn Hp Hd H0 Hh Hu He]. unfold use.
  destruct (all_held s (c :: args)) eqn:E; [|exact I].
  split; cbn; auto.
  - intros k. rewrite dels_app, Hc. cbn [dels dels_m]. lia.
  - apply dels_pos_app; [exact Hd|]. intros k n [|[]]. discriminate.
  - intros k Hin. apply in_app_or in Hin. destruct Hin as [Hin|[Hin|[]]]; [eapply H0; eauto|discriminate].
  - apply uses_ok_app; [exact Hu|]. intros k Hk. cbn [mentions] in Hk.
    pose proof (all_held_spec s _ E k Hk) as Hk'. intros En. apply Hh in En. contradiction.
Qed.

Lemma iter_inv (f : st -> st) n s : (forall x, Inv x -> Inv (f x)) -> Inv s -> Inv (Nat.iter n f s).
Proof. intros Hf Hs. induction n; cbn [Nat.iter nat_rect]; auto. Qed.

Lemma sync_inv s : Inv s -> Inv (sync P0 s).
Proof. intros I. unfold sync. apply iter_inv; [apply deliver_ba_inv|]. apply iter_inv; [apply deliver_ab_inv|exact I]. Qed.

Lemma forget_inv k s : Inv s -> Inv (set_appref s (upd (appref s) k false)).
Proof. intros [Ho Hc Hn Hp Hd H0 Hh Hu He]. split; cbn; auto. Qed.

(* ---- all states: open and invariant, or closed and empty ---- *)
Definition Good (s : st) : Prop := if closed s then (forall k, slot s k = None) /\ errs s = O else Inv s.

Lemma cleanup_good s : errs s = O -> Good (cleanup P0 s).
Proof. intros He. unfold Good. cbn. split; [reflexivity|exact He]. Qed.

Lemma step_good o s : valid_op o -> Good s -> Good (step P0 o s).
Proof.
  intros Hv Hg. unfold step. unfold Good in Hg. destruct (closed s) eqn:Ec.
  - unfold Good. rewrite Ec. exact Hg.
  - assert (Hopen : forall x, Inv x -> Good x) by (intros x Ix; unfold Good; now rewrite (i_open x Ix)).
    destruct o; cbn [valid_op] in Hv; try contradiction.
    + apply Hopen. now apply send_inv.
    + apply Hopen. apply sync_inv. now apply send_inv.
    + apply Hopen. now apply deliver_ab_inv.
    + apply Hopen. now apply deliver_ba_inv.
    + apply Hopen. now apply drop_one_inv.
    + apply Hopen. now apply drop_all_inv.
    + apply Hopen. now apply use_inv.
    + apply Hopen. now apply forget_inv.
    + apply Hopen. now apply sync_inv.
    + unfold close. apply cleanup_good. destruct by_peer.
      * apply i_errs. apply iter_inv; [apply deliver_ba_inv|exact Hg].
      * now apply i_errs.
Qed.

Lemma run_from_good ops : forall s, Forall valid_op ops -> Good s -> Good (run_from P0 s ops).
Proof.
  induction ops as [|o r IH]; intros s Hv Hg; cbn [run_from fold_left]; [exact Hg|].
  inversion Hv; subst. apply IH; [assumption|]. now apply step_good.
Qed.
Lemma run_good ops : Forall valid_op ops -> Good (run P0 ops).
Proof. intros Hv. apply run_from_good; [exact Hv|]. unfold Good. cbn. apply init_inv. Qed.

(* ---- consequences for all histories ---- *)
Lemma has_del_cons k x r : has_del k r -> has_del k (x :: r).
Proof. apply (has_del_app_r k [x] r). Qed.
Lemma uses_ok_in p q m k : uses_ok p q -> In m q -> mentions m k -> p k <> None \/ has_del k q.
Proof.
  induction q as [|x r IH]; intros Hu Hin Hk; [destruct Hin|].
  cbn [uses_ok] in Hu. destruct Hu as [H1 H2]. destruct Hin as [->|Hin].
  - destruct (H1 k Hk) as [H|H]; [now left|right]. now apply has_del_cons.
  - destruct (IH H2 Hin Hk) as [H|H]; [now left|right]. now apply has_del_cons.
Qed.

Lemma good_open s : Good s -> closed s = false -> Inv s.
Proof. unfold Good. intros H E. now rewrite E in H. Qed.
Lemma good_errs s : Good s -> errs s = O.
Proof. unfold Good. destruct (closed s); [tauto|apply i_errs]. Qed.

(* 1. the counting invariant *)
Theorem count_invariant ops k : Forall valid_op ops -> closed (run P0 ops) = false ->
  Sv (slot (run P0 ops)) k = refs (qab (run P0 ops)) k + pz (prox (run P0 ops) k) + dels (qba (run P0 ops)) k.
Proof. intros Hv Ho. apply i_cnt. apply good_open; [now apply run_good|exact Ho]. Qed.

(* what keeps object k referenced by the owner's connection *)
Definition held_or_in_flight (s : st) (k : nat) : Prop :=
  prox s k <> None \/ 1 <= refs (qab s) k \/ has_del k (qba s) \/ exists m, In m (qba s) /\ mentions m k.

Lemma inv_alive s k : Inv s -> held_or_in_flight s k -> slot s k <> None.
Proof.
  intros [Ho Hc Hn Hp Hd H0 Hh Hu He] H. apply Sv_pos_present. rewrite Hc.
  pose proof (refs_nonneg (qab s) k). pose proof (dels_nonneg (qba s) k Hd).
  assert (0 <= pz (prox s k)) by (destruct (prox s k) as [r|] eqn:E; cbn [pz]; [specialize (Hp _ _ E)|]; lia).
  assert (Hpp : prox s k <> None -> 1 <= pz (prox s k)).
  { destruct (prox s k) as [r|] eqn:E; [|congruence]. intros _. cbn [pz]. eapply Hp; eauto. }
  destruct H as [H|[H|[H|(m & Hin & Hm)]]].
  - specialize (Hpp H). lia.
  - lia.
  - pose proof (dels_has _ _ Hd H). lia.
  - destruct (uses_ok_in _ _ _ _ Hu Hin Hm) as [H|H]; [specialize (Hpp H); lia|pose proof (dels_has _ _ Hd H); lia].
Qed.

(* 2. alive while held, and no lookup at the owner ever fails *)
Theorem alive_while_held ops k : Forall valid_op ops -> closed (run P0 ops) = false ->
  held_or_in_flight (run P0 ops) k -> slot (run P0 ops) k <> None /\ alive (run P0 ops) k = true.
Proof.
  intros Hv Ho H. assert (Hs : slot (run P0 ops) k <> None) by (eapply inv_alive; eauto; apply good_open; [now apply run_good|exact Ho]).
  split; [exact Hs|]. unfold alive. destruct (slot (run P0 ops) k); [apply orb_true_r|congruence].
Qed.
Theorem no_keyerror ops : Forall valid_op ops -> errs (run P0 ops) = O.
Proof. intros Hv. apply good_errs. now apply run_good. Qed.

(* 3. nothing in flight and no proxy: the owner's connection has let go *)
Theorem released_at_quiescence ops k : Forall valid_op ops -> closed (run P0 ops) = false ->
  refs (qab (run P0 ops)) k = 0 -> dels (qba (run P0 ops)) k = 0 -> prox (run P0 ops) k = None ->
  slot (run P0 ops) k = None /\ alive (run P0 ops) k = appref (run P0 ops) k.
Proof.
  intros Hv Ho Hr Hd Hp. pose proof (count_invariant ops k Hv Ho) as H. rewrite Hr, Hd, Hp in H. cbn [pz] in H.
  assert (E : slot (run P0 ops) k = None).
  { unfold Sv in H. destruct (slot (run P0 ops) k) as [z|] eqn:E; [|reflexivity].
    pose proof (i_nonneg _ (good_open _ (run_good ops Hv) Ho) k z E). lia. }
  split; [exact E|]. unfold alive. rewrite E. apply orb_false_r.
Qed.

(* 4. closing: for every history whatsoever, also with a misbehaving peer *)
Definition closed_cleared (s : st) : Prop := closed s = true -> forall k, slot s k = None.

Lemma serve_owner_closed m s : closed (serve_owner P0 m s) = closed s.
Proof.
  destruct m as [ks|r| |k n|k|c args ret|]; cbn [serve_owner]; try reflexivity.
  - destruct (coll_decref P0 (slot s) k n); reflexivity.
  - destruct (coll_decref P0 (slot s) k (p_dec_default P0)); reflexivity.
  - destruct (all_present (slot s) (c :: args)); [|reflexivity]. destruct ret; [destruct args|]; reflexivity.
Qed.
Lemma deliver_ba_closed s : closed (deliver_ba P0 s) = closed s.
Proof. unfold deliver_ba. destruct (qba s); [reflexivity|]. now rewrite serve_owner_closed. Qed.
Lemma unbox_all_closed s ks : closed (unbox_all P0 s ks) = closed s.
Proof. unfold unbox_all. destruct (fold_left (unbox1 P0) ks (prox s, holds s)). reflexivity. Qed.
Lemma deliver_ab_closed s : closed (deliver_ab P0 s) = closed s.
Proof.
  unfold deliver_ab. destruct (qab s) as [|m q]; [reflexivity|].
  destruct m as [ks|[r|]| |k n|k|c args ret|]; cbn [serve_peer]; try reflexivity.
  all: cbn; now rewrite ?unbox_all_closed.
Qed.
Lemma iter_closed (f : st -> st) n s : (forall x, closed (f x) = closed x) -> closed (Nat.iter n f s) = closed s.
Proof. intros Hf. induction n; cbn [Nat.iter nat_rect]; [reflexivity|]. now rewrite Hf. Qed.
Lemma sync_closed s : closed (sync P0 s) = closed s.
Proof. unfold sync. rewrite iter_closed by apply deliver_ba_closed. now rewrite iter_closed by apply deliver_ab_closed. Qed.

Lemma step_closed_cleared o s : closed_cleared s -> closed_cleared (step P0 o s).
Proof.
  intros H. unfold step. destruct (closed s) eqn:Ec; [exact H|].
  unfold closed_cleared. destruct o; cbn [step]; intros E;
    try (match type of E with closed (close _ _ _) = true => intros j; reflexivity end); exfalso; revert E.
  - cbn. congruence.
  - rewrite sync_closed. cbn. congruence.
  - rewrite deliver_ab_closed. congruence.
  - rewrite deliver_ba_closed. congruence.
  - unfold drop_one, finalize. destruct (holds s k) as [|[|h]]; [congruence| |cbn; congruence]. destruct (prox s k); cbn; congruence.
  - unfold drop_all, finalize. destruct (holds s k); [congruence|]. destruct (prox s k); cbn; congruence.
  - unfold use. destruct (all_held s (c :: args)); cbn; congruence.
  - cbn. congruence.
  - rewrite sync_closed. congruence.
  - cbn. congruence.
  - cbn. congruence.
Qed.
Lemma run_from_closed_cleared ops : forall s, closed_cleared s -> closed_cleared (run_from P0 s ops).
Proof. induction ops as [|o r IH]; intros s H; cbn [run_from fold_left]; [exact H|]. apply IH. now apply step_closed_cleared. Qed.

Lemma step_after_closed o s : closed s = true -> step P0 o s = s.
Proof. intros E. unfold step. now rewrite E. Qed.
Lemma run_from_after_closed ops : forall s, closed s = true -> run_from P0 s ops = s.
Proof. induction ops as [|o r IH]; intros s E; cbn [run_from fold_left]; [reflexivity|]. rewrite step_after_closed by exact E. now apply IH. Qed.

Lemma close_step_closed b s : closed (step P0 (Close b) s) = true.
Proof. unfold step. destruct (closed s) eqn:E; [exact E|reflexivity]. Qed.

Theorem close_releases ops b more k :
  let s := run P0 (ops ++ Close b :: more) in closed s = true /\ slot s k = None.
Proof.
  cbn zeta. unfold run, run_from. rewrite fold_left_app. cbn [fold_left].
  fold (run_from P0 init ops). set (s0 := run_from P0 init ops).
  fold (run_from P0 (step P0 (Close b) s0) more).
  rewrite run_from_after_closed by apply close_step_closed.
  split; [apply close_step_closed|].
  assert (H : closed_cleared (step P0 (Close b) s0)).
  { apply step_closed_cleared. apply run_from_closed_cleared. intros E. discriminate. }
  apply H. apply close_step_closed.
Qed.

(* every proxy the peer holds can be operated through: the request is sent, and serving it (and everything
   before it in the stream) raises nothing at the owner *)
Lemma iter_succ_r {A} n (f : A -> A) x : Nat.iter (S n) f x = Nat.iter n f (f x).
Proof. induction n as [|n IH]; [reflexivity|]. cbn [Nat.iter nat_rect] in *. now rewrite IH. Qed.
Lemma run_snoc P ops o : run P (ops ++ [o]) = step P o (run P ops).
Proof. unfold run, run_from. now rewrite fold_left_app. Qed.
Theorem reachable_through_proxy ops c args ret : Forall valid_op ops -> closed (run P0 ops) = false ->
  (forall k, In k (c :: args) -> holds (run P0 ops) k <> O) ->
  In (MUse c args ret) (qba (run P0 (ops ++ [Use c args ret]))) /\
  qba (run P0 ((ops ++ [Use c args ret]) ++ [Sync])) = [] /\
  errs (run P0 ((ops ++ [Use c args ret]) ++ [Sync])) = O.
Proof.
  intros Hv Ho Hh. split; [|split].
  - rewrite run_snoc. unfold step. rewrite Ho. unfold use.
    assert (E : all_held (run P0 ops) (c :: args) = true).
    { unfold all_held. apply forallb_forall. intros k Hk. specialize (Hh k Hk). now destruct (Nat.eqb_spec (holds (run P0 ops) k) O). }
    rewrite E. cbn. apply in_or_app. right. now left.
  - rewrite run_snoc. set (s := run P0 (ops ++ [Use c args ret])).
    assert (Hc : closed s = false).
    { unfold s. rewrite run_snoc. unfold step. rewrite Ho. unfold use. destruct (all_held _ _); cbn; exact Ho. }
    unfold step. rewrite Hc. unfold sync.
    set (s1 := Nat.iter (List.length (qab s)) (deliver_ab P0) s).
    clearbody s1. clear. remember (List.length (qba s1)) as n eqn:En. revert s1 En.
    induction n as [|n IH]; intros s1 En.
    + cbn. destruct (qba s1); [reflexivity|discriminate].
    + rewrite iter_succ_r. apply IH. unfold deliver_ba. destruct (qba s1) as [|m q] eqn:Eq; [discriminate|].
      cbn [List.length] in En. injection En as En.
      destruct m as [ks|r| |k n0|k|c args ret|]; cbn [serve_owner]; try (cbn; exact En).
      * destruct (coll_decref P0 (slot (set_qba s1 q)) k n0); cbn; exact En.
      * destruct (coll_decref P0 (slot (set_qba s1 q)) k (p_dec_default P0)); cbn; exact En.
      * destruct (all_present (slot (set_qba s1 q)) (c :: args)); [|cbn; exact En]. destruct ret; [destruct args|]; cbn; exact En.
  - apply no_keyerror. apply Forall_app. split; [apply Forall_app; split; [exact Hv|]|]; repeat constructor.
Qed.

(* ---- from any reachable state: drop every proxy, let the notices be processed, and the entries are gone ---- *)
Lemma iter_S {A} n (f : A -> A) x : Nat.iter (S n) f x = f (Nat.iter n f x).
Proof. reflexivity. Qed.
Definition no_calls (q : list msg) : Prop := forall ks, ~ In (MCall ks) q.
Definition only_dels (q : list msg) : Prop := forall m, In m q -> exists k n, m = MDel k n.
Definition norefs (q : list msg) : Prop := forall k, refs q k = 0.

Lemma refs_app_noref q m : norefs q -> (forall k, refs_m m k = 0) -> norefs (q ++ [m]).
Proof. intros Hq Hm k. rewrite refs_app, Hq. cbn [refs]. rewrite Hm. lia. Qed.

Lemma deliver_ab_qab s : qab (deliver_ab P0 s) = tl (qab s).
Proof.
  unfold deliver_ab. destruct (qab s) as [|m q] eqn:E; [now rewrite E|].
  destruct m as [ks|[r|]| |k n|k|c args ret|]; cbn [serve_peer tl]; try reflexivity.
  - unfold unbox_all. cbn. destruct (fold_left (unbox1 P0) ks (prox s, holds s)). reflexivity.
Qed.
Lemma deliver_ba_qba s : qba (deliver_ba P0 s) = tl (qba s).
Proof.
  unfold deliver_ba. destruct (qba s) as [|m q] eqn:E; [now rewrite E|].
  destruct m as [ks|r| |k n|k|c args ret|]; cbn [serve_owner tl]; try reflexivity.
  - destruct (coll_decref P0 (slot (set_qba s q)) k n); reflexivity.
  - destruct (coll_decref P0 (slot (set_qba s q)) k (p_dec_default P0)); reflexivity.
  - destruct (all_present (slot (set_qba s q)) (c :: args)); [|reflexivity]. destruct ret; [destruct args|]; reflexivity.
Qed.
Lemma drain_gen (f : st -> st) (sel : st -> list msg) : (forall s, sel (f s) = tl (sel s)) ->
  forall n s, List.length (sel s) = n -> sel (Nat.iter n f s) = [].
Proof.
  intros Hf. induction n as [|n IH]; intros s E.
  - cbn. now destruct (sel s).
  - rewrite iter_succ_r. apply IH. rewrite Hf. destruct (sel s); [discriminate|]. cbn in *. lia.
Qed.
Lemma drain_ab_empty s : qab (Nat.iter (List.length (qab s)) (deliver_ab P0) s) = [].
Proof. now apply (drain_gen (deliver_ab P0) qab deliver_ab_qab). Qed.
Lemma drain_ba_empty s : qba (Nat.iter (List.length (qba s)) (deliver_ba P0) s) = [].
Proof. now apply (drain_gen (deliver_ba P0) qba deliver_ba_qba). Qed.

Lemma deliver_ba_no_calls s : no_calls (qab s) -> no_calls (qab (deliver_ba P0 s)).
Proof.
  intros H. unfold deliver_ba. destruct (qba s) as [|m q]; [exact H|].
  assert (R : forall x m', (forall ks, m' <> MCall ks) -> qab x = qab s -> no_calls (qab (reply x m'))).
  { intros x m' Hm Ex ks Hin. cbn in Hin. rewrite Ex in Hin. apply in_app_or in Hin. destruct Hin as [Hin|[Hin|[]]]; [eapply H; eauto|eapply Hm; eauto]. }
  destruct m as [ks|r| |k n|k|c args ret|]; cbn [serve_owner]; try exact H.
  - destruct (coll_decref P0 (slot (set_qba s q)) k n); apply R; try discriminate; reflexivity.
  - destruct (coll_decref P0 (slot (set_qba s q)) k (p_dec_default P0)); apply R; try discriminate; reflexivity.
  - destruct (all_present (slot (set_qba s q)) (c :: args)); [|apply R; try discriminate; reflexivity].
    destruct ret; [destruct args|]; apply R; try discriminate; reflexivity.
Qed.
Lemma iter_pres {A} (Q : A -> Prop) (f : A -> A) n s : (forall x, Q x -> Q (f x)) -> Q s -> Q (Nat.iter n f s).
Proof. intros Hf Hs. induction n; cbn [Nat.iter nat_rect]; auto. Qed.

(* a message that is not a call leaves the peer's outgoing stream alone *)
Lemma deliver_ab_no_calls s : no_calls (qab s) -> qba (deliver_ab P0 s) = qba s /\ no_calls (qab (deliver_ab P0 s)).
Proof.
  intros H. split.
  - unfold deliver_ab. destruct (qab s) as [|m q] eqn:E; [reflexivity|].
    destruct m as [ks|[r|]| |k n|k|c args ret|]; cbn [serve_peer]; try reflexivity.
    exfalso. apply (H ks). now left.
  - rewrite deliver_ab_qab. intros ks Hin. apply (H ks). destruct (qab s); [destruct Hin|now right].
Qed.

Lemma sync_twice_empty s : let s' := sync P0 (sync P0 s) in qab s' = [] /\ qba s' = [].
Proof.
  cbn zeta.
  set (s1 := sync P0 s).
  assert (H1 : qba s1 = [] /\ no_calls (qab s1)).
  { unfold s1, sync. split; [apply drain_ba_empty|].
    apply (iter_pres (fun x => no_calls (qab x))); [apply deliver_ba_no_calls|].
    rewrite drain_ab_empty. intros ks []. }
  destruct H1 as [Hb Hc]. unfold sync.
  set (s2 := Nat.iter (List.length (qab s1)) (deliver_ab P0) s1).
  assert (H2 : qba s2 = [] /\ qab s2 = []).
  { split; [|apply drain_ab_empty].
    assert (G : forall n x, no_calls (qab x) -> qba (Nat.iter n (deliver_ab P0) x) = qba x /\ no_calls (qab (Nat.iter n (deliver_ab P0) x))).
    { induction n as [|n IH]; intros x Hx; [now split|]. rewrite iter_S.
      destruct (IH x Hx) as [E1 E2]. destruct (deliver_ab_no_calls _ E2) as [E3 E4]. split; [now rewrite E3|exact E4]. }
    destruct (G (List.length (qab s1)) s1 Hc) as [E _]. unfold s2. now rewrite E. }
  destruct H2 as [E1 E2]. rewrite E1. cbn. now split.
Qed.

Lemma drop_all_facts k s : Inv s -> only_dels (qba s) ->
  let s' := drop_all P0 k s in
  qab s' = qab s /\ only_dels (qba s') /\ prox s' k = None /\ (forall j, prox s j = None -> prox s' j = None).
Proof.
  intros I Hd. cbn zeta. unfold drop_all. destruct (holds s k) eqn:Eh.
  - repeat split; auto. now apply (i_holds s I).
  - unfold finalize. destruct (prox s k) as [r|] eqn:Er.
    + cbn [P0 del_msg p_del_src std_params]. cbn. repeat split.
      * intros m Hin. apply in_app_or in Hin. destruct Hin as [Hin|[<-|[]]]; [now apply Hd|now exists k, r].
      * unfold upd. now rewrite Nat.eqb_refl.
      * intros j Hj. unfold upd. now destruct (Nat.eqb j k).
    + cbn. repeat split; auto.
Qed.

Lemma drop_alls_facts ks : forall s, Inv s -> only_dels (qba s) ->
  let s' := run_from P0 s (map DropAll ks) in
  Inv s' /\ qab s' = qab s /\ only_dels (qba s') /\ (forall k, In k ks -> prox s' k = None) /\
  (forall j, prox s j = None -> prox s' j = None).
Proof.
  induction ks as [|k r IH]; intros s I Hd; cbn [map run_from fold_left].
  - split; [exact I|]. repeat split; auto. intros k [].
  - assert (Es : step P0 (DropAll k) s = drop_all P0 k s) by (unfold step; now rewrite (i_open s I)).
    rewrite Es. destruct (drop_all_facts k s I Hd) as (A & B & Cc & D).
    destruct (IH (drop_all P0 k s) (drop_all_inv k s I) B) as (I' & A' & B' & C' & D').
    fold (run_from P0 (drop_all P0 k s) (map DropAll r)).
    split; [exact I'|]. repeat split; auto.
    + now rewrite A'.
    + intros j [<-|Hj]; [now apply D'|now apply C'].
Qed.

Lemma deliver_ba_dels s : only_dels (qba s) -> norefs (qab s) ->
  only_dels (qba (deliver_ba P0 s)) /\ norefs (qab (deliver_ba P0 s)) /\ prox (deliver_ba P0 s) = prox s.
Proof.
  intros Hd Hr. split; [|split].
  - rewrite deliver_ba_qba. intros m Hin. apply Hd. destruct (qba s); [destruct Hin|now right].
  - unfold deliver_ba. destruct (qba s) as [|m q] eqn:E; [exact Hr|].
    destruct (Hd m (or_introl eq_refl)) as (k & n & ->). cbn [serve_owner].
    destruct (coll_decref P0 (slot (set_qba s q)) k n); cbn; apply refs_app_noref; auto.
  - unfold deliver_ba. destruct (qba s) as [|m q] eqn:E; [reflexivity|].
    destruct (Hd m (or_introl eq_refl)) as (k & n & ->). cbn [serve_owner].
    destruct (coll_decref P0 (slot (set_qba s q)) k n); reflexivity.
Qed.

Theorem release_after_drop ops ks : Forall valid_op ops -> closed (run P0 ops) = false ->
  let s := run P0 (ops ++ [Sync; Sync] ++ map DropAll ks ++ [Sync]) in
  closed s = false /\ qba s = [] /\ norefs (qab s) /\
  forall k, In k ks -> prox s k = None /\ slot s k = None /\ alive s k = appref s k.
Proof.
  intros Hv Ho. cbn zeta.
  assert (Hvall : Forall valid_op (ops ++ [Sync; Sync] ++ map DropAll ks ++ [Sync])).
  { apply Forall_app. split; [exact Hv|]. apply Forall_app. split; [repeat constructor|].
    apply Forall_app. split; [|repeat constructor]. apply Forall_forall. intros o Ho'. apply in_map_iff in Ho'. destruct Ho' as (k & <- & _). exact I. }
  unfold run, run_from. rewrite !fold_left_app. fold (run_from P0 init ops). fold (run P0 ops).
  set (s0 := run P0 ops).
  assert (I0 : Inv s0) by (apply good_open; [now apply run_good|exact Ho]).
  cbn [fold_left].
  assert (E1 : step P0 Sync s0 = sync P0 s0) by (unfold step; now rewrite (i_open _ I0)).
  rewrite E1. pose proof (sync_inv s0 I0) as I1.
  assert (E2 : step P0 Sync (sync P0 s0) = sync P0 (sync P0 s0)) by (unfold step; now rewrite (i_open _ I1)).
  rewrite E2. pose proof (sync_inv _ I1) as I2.
  destruct (sync_twice_empty s0) as [Qa Qb]. set (s2 := sync P0 (sync P0 s0)) in *.
  fold (run_from P0 s2 (map DropAll ks)).
  assert (Hd2 : only_dels (qba s2)) by (rewrite Qb; intros m []).
  destruct (drop_alls_facts ks s2 I2 Hd2) as (I3 & A3 & B3 & C3 & _).
  set (s3 := run_from P0 s2 (map DropAll ks)) in *.
  assert (E3 : step P0 Sync s3 = sync P0 s3) by (unfold step; now rewrite (i_open _ I3)).
  rewrite E3. pose proof (sync_inv _ I3) as I4.
  assert (Es4 : sync P0 s3 = Nat.iter (List.length (qba s3)) (deliver_ba P0) s3).
  { unfold sync. rewrite A3, Qa. reflexivity. }
  rewrite Es4 in *.
  set (s4 := Nat.iter (List.length (qba s3)) (deliver_ba P0) s3) in *.
  assert (G : forall n x, only_dels (qba x) -> norefs (qab x) ->
     let y := Nat.iter n (deliver_ba P0) x in only_dels (qba y) /\ norefs (qab y) /\ prox y = prox x).
  { induction n as [|n IH]; intros x H1 H2; [now repeat split|]. cbn zeta. rewrite iter_S.
    destruct (IH x H1 H2) as (F1 & F2 & F3). destruct (deliver_ba_dels _ F1 F2) as (G1 & G2 & G3).
    repeat split; auto. now rewrite G3. }
  assert (Hr3 : norefs (qab s3)) by (rewrite A3, Qa; intros k; reflexivity).
  destruct (G (List.length (qba s3)) s3 B3 Hr3) as (F1 & F2 & F3). fold s4 in F1, F2, F3.
  assert (Qb4 : qba s4 = []) by apply drain_ba_empty.
  split; [apply (i_open _ I4)|]. split; [exact Qb4|]. split; [exact F2|].
  intros k Hk.
  assert (Pk : prox s4 k = None) by (rewrite F3; now apply C3).
  assert (Sk : slot s4 k = None).
  { pose proof (i_cnt _ I4 k) as Hc. rewrite F2, Pk, Qb4 in Hc. cbn in Hc.
    unfold Sv in Hc. destruct (slot s4 k) as [z|] eqn:Ez; [|reflexivity].
    pose proof (i_nonneg _ I4 k z Ez). lia. }
  repeat split; auto. unfold alive. rewrite Sk. apply orb_false_r.
Qed.
