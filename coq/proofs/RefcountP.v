(* C10 — proofs about model/Refcount.v for the parameters found in the code: [stdp sc cg cf], where the three
   booleans are the close-path facts of the tree (send refuses on a closed channel / the clear in _cleanup cannot
   be skipped by on_disconnect / close() calls _cleanup in a finally). *)
From V Require Import lib.Base model.Refcount.
From Coq Require Import ZifyBool.
Ltac Zify.zify_post_hook ::= Z.to_euclidean_division_equations.
Open Scope Z_scope.

(* ---- counting ---- *)
Definition b2z (b : bool) : Z := if b then 1 else 0.
Fixpoint cnt (ks : list nat) (k : nat) : Z :=
  match ks with [] => 0 | j :: r => b2z (Nat.eqb j k) + cnt r k end.
Definition refs_m (m : msg) (k : nat) : Z :=
  match m with
  | MCall ks => cnt ks k
  | MCallRaise ks => cnt ks k
  | MReplyRef (Some r) => b2z (Nat.eqb r k)
  | _ => 0
  end.
Fixpoint refs (q : list msg) (k : nat) : Z :=
  match q with [] => 0 | m :: r => refs_m m k + refs r k end.
Definition dels_m (m : msg) (k : nat) : Z :=
  match m with
  | MDel j n => if Nat.eqb j k then n else 0
  | MDel0 j => b2z (Nat.eqb j k)
  | _ => 0
  end.
Fixpoint dels (q : list msg) (k : nat) : Z :=
  match q with [] => 0 | m :: r => dels_m m k + dels r k end.

(* number of references the owner's table accounts for *)
Definition Sv (t : tbl) (k : nat) : Z := match t k with Some z => z + 1 | None => 0 end.
Definition pz (o : option Z) : Z := match o with Some r => r | None => 0 end.

Lemma cnt_nonneg ks k : 0 <= cnt ks k.
Proof. induction ks as [|j r IH]; cbn [cnt]; [lia|]. unfold b2z. destruct (Nat.eqb j k); lia. Qed.
Lemma cnt_in ks k : In k ks -> 1 <= cnt ks k.
Proof.
  induction ks as [|j r IH]; intros H; [destruct H|]. cbn [cnt]. pose proof (cnt_nonneg r k).
  destruct H as [->|H]; [rewrite Nat.eqb_refl; cbn [b2z]; lia|]. specialize (IH H). unfold b2z. destruct (Nat.eqb j k); lia.
Qed.
Lemma cnt_app a b k : cnt (a ++ b) k = cnt a k + cnt b k.
Proof. induction a as [|j r IH]; cbn [cnt app]; [lia|]. rewrite IH. lia. Qed.
Lemma refs_app a b k : refs (a ++ b) k = refs a k + refs b k.
Proof. induction a as [|j r IH]; cbn [refs app]; [lia|]. rewrite IH. lia. Qed.
Lemma dels_app a b k : dels (a ++ b) k = dels a k + dels b k.
Proof. induction a as [|j r IH]; cbn [dels app]; [lia|]. rewrite IH. lia. Qed.
Lemma refs_m_nonneg m k : 0 <= refs_m m k.
Proof.
  destruct m as [ks|ks|[r|]| | | | |]; cbn [refs_m]; try lia; try apply cnt_nonneg.
  unfold b2z. destruct (Nat.eqb r k); lia.
Qed.
Lemma refs_nonneg q k : 0 <= refs q k.
Proof. induction q as [|m r IH]; cbn [refs]; [lia|]. pose proof (refs_m_nonneg m k). lia. Qed.

(* every release notice in flight carries a positive count *)
Definition dels_pos (q : list msg) : Prop := forall k n, In (MDel k n) q -> 1 <= n.
Definition has_del (k : nat) (q : list msg) : Prop := (exists n, In (MDel k n) q) \/ In (MDel0 k) q.

Lemma dels_m_nonneg m k : (forall j n, m = MDel j n -> 1 <= n) -> 0 <= dels_m m k.
Proof.
  intros H. destruct m; cbn [dels_m]; try lia.
  - destruct (Nat.eqb k0 k); [|lia]. specialize (H _ _ eq_refl). lia.
  - unfold b2z. destruct (Nat.eqb k0 k); lia.
Qed.
Lemma dels_nonneg q k : dels_pos q -> 0 <= dels q k.
Proof.
  induction q as [|m r IH]; intros H; cbn [dels]; [lia|].
  assert (0 <= dels_m m k) by (apply dels_m_nonneg; intros j n ->; apply (H j n); now left).
  assert (0 <= dels r k) by (apply IH; intros j n Hin; apply (H j n); now right). lia.
Qed.
Lemma dels_has q k : dels_pos q -> has_del k q -> 1 <= dels q k.
Proof.
  induction q as [|m r IH]; intros H Hd.
  - destruct Hd as [[n []]|[]].
  - cbn [dels].
    assert (Hr : dels_pos r) by (intros j n Hin; apply (H j n); now right).
    assert (0 <= dels_m m k) by (apply dels_m_nonneg; intros j n ->; apply (H j n); now left).
    pose proof (dels_nonneg r k Hr).
    destruct Hd as [[n [->|Hin]]|[->|Hin]].
    + cbn [dels_m]. rewrite Nat.eqb_refl. specialize (H k n (or_introl eq_refl)). lia.
    + assert (1 <= dels r k) by (apply IH; [exact Hr|left; now exists n]). lia.
    + cbn [dels_m]. rewrite Nat.eqb_refl. cbn [b2z]. lia.
    + assert (1 <= dels r k) by (apply IH; [exact Hr|now right]). lia.
Qed.
Lemma dels_pos_app a b : dels_pos a -> dels_pos b -> dels_pos (a ++ b).
Proof. intros Ha Hb k n Hin. apply in_app_or in Hin. destruct Hin; [eapply Ha|eapply Hb]; eauto. Qed.
Lemma dels_pos_tail m q : dels_pos (m :: q) -> dels_pos q.
Proof. intros H k n Hin. apply (H k n). now right. Qed.
Lemma has_del_app_r k a b : has_del k b -> has_del k (a ++ b).
Proof. intros [[n H]|H]; [left; exists n|right]; apply in_or_app; now right. Qed.
Lemma has_del_app_l k a b : has_del k a -> has_del k (a ++ b).
Proof. intros [[n H]|H]; [left; exists n|right]; apply in_or_app; now left. Qed.
Lemma has_del_cons k x r : has_del k r -> has_del k (x :: r).
Proof. apply (has_del_app_r k [x] r). Qed.

(* ---- requests through proxies in flight are covered ---- *)
Definition mentions (m : msg) (k : nat) : Prop :=
  match m with MUse c args _ => In k (c :: args) | _ => False end.
Fixpoint uses_ok (p : nat -> option Z) (q : list msg) : Prop :=
  match q with
  | [] => True
  | m :: post => (forall k, mentions m k -> p k <> None \/ has_del k post) /\ uses_ok p post
  end.

Lemma uses_ok_mono p p' q : (forall k, p k <> None -> p' k <> None) -> uses_ok p q -> uses_ok p' q.
Proof.
  intros Hm. induction q as [|m r IH]; cbn [uses_ok]; [auto|]. intros [H1 H2]. split; [|auto].
  intros k Hk. destruct (H1 k Hk); [left; auto|now right].
Qed.
Lemma uses_ok_app p q m : uses_ok p q -> (forall k, mentions m k -> p k <> None) -> uses_ok p (q ++ [m]).
Proof.
  intros Hq Hm. induction q as [|x r IH]; cbn [uses_ok app].
  - split; [|exact I]. intros k Hk. left. auto.
  - destruct Hq as [H1 H2]. split; [|auto]. intros k Hk. destruct (H1 k Hk); [now left|right]. now apply has_del_app_l.
Qed.
(* the proxy of k dies and its release notice is appended *)
Lemma uses_ok_app_del p q k m : uses_ok p q -> has_del k [m] -> (forall j, ~ mentions m j) ->
  uses_ok (upd p k None) (q ++ [m]).
Proof.
  intros Hq Hd Hm. induction q as [|x r IH]; cbn [uses_ok app].
  - split; [|exact I]. intros j Hj. now apply Hm in Hj.
  - destruct Hq as [H1 H2]. split; [|auto]. intros j Hj. destruct (H1 j Hj) as [Hp|Hp].
    + unfold upd. destruct (Nat.eqb_spec j k) as [->|Hne]; [right; now apply has_del_app_r|now left].
    + right. now apply has_del_app_l.
Qed.
Lemma uses_ok_in p q m k : uses_ok p q -> In m q -> mentions m k -> p k <> None \/ has_del k q.
Proof.
  induction q as [|x r IH]; intros Hu Hin Hk; [destruct Hin|].
  cbn [uses_ok] in Hu. destruct Hu as [H1 H2]. destruct Hin as [->|Hin].
  - destruct (H1 k Hk) as [H|H]; [now left|right]. now apply has_del_cons.
  - destruct (IH H2 Hin Hk) as [H|H]; [now left|right]. now apply has_del_cons.
Qed.

Lemma mem_in k l : mem k l = true <-> In k l.
Proof.
  unfold mem. rewrite existsb_exists. split.
  - intros (x & Hx & E). apply Nat.eqb_eq in E. now subst.
  - intros H. exists k. split; [exact H|apply Nat.eqb_refl].
Qed.
Lemma mem_false k l : mem k l = false <-> ~ In k l.
Proof. rewrite <- mem_in. destruct (mem k l); split; congruence. Qed.

Definition nonneg (t : tbl) : Prop := forall k z, t k = Some z -> 0 <= z.
Definition ppos (p : nat -> option Z) : Prop := forall k r, p k = Some r -> 1 <= r.
Lemma Sv_pos_present t k : 1 <= Sv t k -> t k <> None.
Proof. unfold Sv. destruct (t k); [discriminate|lia]. Qed.

Lemma iter_succ_r {A} n (f : A -> A) x : Nat.iter (S n) f x = Nat.iter n f (f x).
Proof. induction n as [|n IH]; [reflexivity|]. cbn [Nat.iter nat_rect] in *. now rewrite IH. Qed.
Lemma iter_S {A} n (f : A -> A) x : Nat.iter (S n) f x = f (Nat.iter n f x).
Proof. reflexivity. Qed.
Lemma iter_pres {A} (Q : A -> Prop) (f : A -> A) n s : (forall x, Q x -> Q (f x)) -> Q s -> Q (Nat.iter n f s).
Proof. intros Hf Hs. induction n; cbn [Nat.iter nat_rect]; auto. Qed.

Section Std.
Variables sc cg cf fr rc : bool.
Notation P0 := (stdp sc cg cf fr rc).

(* ---- RefCountingColl ---- *)
Lemma add_Sv t j k : Sv (coll_add P0 t j) k = Sv t k + b2z (Nat.eqb j k).
Proof.
  unfold coll_add, Sv, upd. rewrite (Nat.eqb_sym j k).
  destruct (Nat.eqb_spec k j) as [->|Hne]; cbn [b2z p_add_init p_add_inc stdp].
  - destruct (t j); lia.
  - destruct (t k); lia.
Qed.
Lemma add_nonneg t j : nonneg t -> nonneg (coll_add P0 t j).
Proof.
  intros H k z. unfold coll_add, upd. destruct (Nat.eqb_spec k j) as [->|Hne]; [|apply H].
  cbn [p_add_init p_add_inc stdp]. destruct (t j) as [z0|] eqn:E; intros [= <-]; [|lia]. specialize (H _ _ E). lia.
Qed.
Lemma box_all_spec ks : forall t, nonneg t ->
  nonneg (box_all P0 t ks) /\ forall k, Sv (box_all P0 t ks) k = Sv t k + cnt ks k.
Proof.
  induction ks as [|j r IH]; intros t Ht; cbn [box_all fold_left cnt].
  - split; [exact Ht|intros; lia].
  - destruct (IH (coll_add P0 t j) (add_nonneg t j Ht)) as [H1 H2]. split; [exact H1|].
    intros k. unfold box_all in H2. rewrite H2, add_Sv. lia.
Qed.

Lemma decref_spec t k z n : nonneg t -> t k = Some z -> 1 <= n -> n <= z + 1 ->
  exists t', coll_decref P0 t k n = Ok t' /\ nonneg t' /\ Sv t' k = Sv t k - n /\ forall j, j <> k -> t' j = t j.
Proof.
  intros Ht E Hn Hz. unfold coll_decref. rewrite E. cbn [p_dec_cmp stdp cmp_holds].
  destruct (Z.ltb_spec z n) as [Hlt|Hge]; eexists; (split; [reflexivity|]); repeat split.
  - intros j y. unfold upd. destruct (Nat.eqb j k); [discriminate|apply Ht].
  - unfold Sv, upd. rewrite Nat.eqb_refl, E. lia.
  - intros j Hj. unfold upd. now destruct (Nat.eqb_spec j k).
  - intros j y. unfold upd. destruct (Nat.eqb j k); [intros [= <-]; lia|apply Ht].
  - unfold Sv, upd. rewrite Nat.eqb_refl, E. lia.
  - intros j Hj. unfold upd. now destruct (Nat.eqb_spec j k).
Qed.

(* ---- the peer's proxies ---- *)
Lemma unbox_p_spec ks : forall p, ppos p ->
  let p' := fold_left (unbox_p P0) ks p in
  ppos p' /\ (forall k, pz (p' k) = pz (p k) + cnt ks k) /\ (forall k, p k <> None -> p' k <> None) /\
  (forall k, In k ks -> p' k <> None) /\ (forall k, ~ In k ks -> p' k = p k).
Proof.
  induction ks as [|j r IH]; intros p Hp; cbn [fold_left cnt].
  - repeat split; auto; try (intros; lia); intros k [].
  - set (p1 := unbox_p P0 p j).
    assert (Hp1 : ppos p1).
    { intros k x. unfold p1, unbox_p, upd. destruct (Nat.eqb_spec k j) as [->|]; [|apply Hp].
      cbn [p_unbox_inc p_proxy_init stdp]. destruct (p j) as [y|] eqn:Ey; intros [= <-]; [|lia]. specialize (Hp _ _ Ey). lia. }
    assert (Hj : p1 j <> None) by (unfold p1, unbox_p, upd; rewrite Nat.eqb_refl; destruct (p j); discriminate).
    destruct (IH p1 Hp1) as (A & C & D & E & F). repeat split; auto.
    + intros k. rewrite C. unfold p1, unbox_p, upd. rewrite (Nat.eqb_sym j k).
      destruct (Nat.eqb_spec k j) as [->|]; cbn [b2z]; [|lia].
      cbn [p_unbox_inc p_proxy_init stdp]. destruct (p j); cbn [pz]; lia.
    + intros k Hk. apply D. unfold p1, unbox_p, upd. destruct (Nat.eqb_spec k j) as [->|]; [|exact Hk]. destruct (p j); discriminate.
    + intros k [<-|Hk]; [now apply D|now apply E].
    + intros k Hk. rewrite F by (intros H; apply Hk; now right).
      unfold p1, unbox_p, upd. destruct (Nat.eqb_spec k j) as [->|]; [exfalso; apply Hk; now left|reflexivity].
Qed.

Lemma unbox1_fold ks : forall p h,
  fold_left (unbox1 P0) ks (p, h) = (fold_left (unbox_p P0) ks p, fold_left (fun h k => upd h k (S (h k))) ks h).
Proof. induction ks as [|j r IH]; intros p h; [reflexivity|]. cbn [fold_left unbox1]. apply IH. Qed.
Lemma hfold_spec ks : forall (h : nat -> nat),
  let h' := fold_left (fun h k => upd h k (S (h k))) ks h in
  (forall k, In k ks -> h' k <> O) /\ (forall k, ~ In k ks -> h' k = h k) /\ (forall k, h k <> O -> h' k <> O).
Proof.
  induction ks as [|j r IH]; intros h; cbn [fold_left].
  - repeat split; auto; try (intros k []).
  - destruct (IH (upd h j (S (h j)))) as (A & B & Cc). repeat split.
    + intros k [<-|Hk]; [apply Cc; unfold upd; now rewrite Nat.eqb_refl|now apply A].
    + intros k Hk. rewrite B by (intros H; apply Hk; now right). unfold upd.
      destruct (Nat.eqb_spec k j) as [->|]; [exfalso; apply Hk; now left|reflexivity].
    + intros k Hk. apply Cc. unfold upd. destruct (Nat.eqb k j); [discriminate|exact Hk].
Qed.

(* ---- the invariant of open connections ----
   [extra]: proxies that only a dropped traceback kept alive and that are about to be finalized *)
Record InvW (extra : list nat) (s : st) : Prop := {
  i_open : closed s = false;
  i_cnt : forall k, Sv (slot s) k = refs (qab s) k + pz (prox s k) + dels (qba s) k;
  i_nonneg : nonneg (slot s);
  i_ppos : ppos (prox s);
  i_dpos : dels_pos (qba s);
  i_nodel0 : forall k, ~ In (MDel0 k) (qba s);
  i_h1 : forall k, prox s k = None -> holds s k = O /\ mem k (pin s) = false;
  i_h2 : forall k, holds s k = O -> mem k (pin s) = false -> mem k extra = false -> prox s k = None;
  i_uses : uses_ok (prox s) (qba s);
  i_errs : errs s = O;
  i_morph : forall k, morphed s k = false
}.
Notation Inv := (InvW []).

Lemma init_inv : Inv init.
Proof. split; cbn; try easy; intros k; try split; auto. Qed.

Lemma held_present e s k : InvW e s -> holds s k <> O -> prox s k <> None.
Proof. intros I H E. apply (i_h1 e s I) in E. tauto. Qed.

Lemma send_inv b ks s : Inv s -> Inv (send P0 b ks s).
Proof.
  intros [Ho Hc Hn Hp Hd H0 Hh1 Hh2 Hu He Hm]. unfold send.
  destruct (box_all_spec (filter (appref s) ks) (slot s) Hn) as [N1 N2].
  split; cbn; auto. intros k. rewrite N2, refs_app, Hc. destruct b; cbn [refs refs_m]; lia.
Qed.

Lemma all_present_false t ks : all_present t ks = false -> exists k, In k ks /\ t k = None.
Proof.
  induction ks as [|j r IH]; cbn [all_present forallb]; [discriminate|].
  destruct (t j) eqn:E; cbn [andb].
  - intros H. destruct (IH H) as (k & Hk & Ek). exists k. split; [now right|exact Ek].
  - intros _. exists j. split; [now left|exact E].
Qed.

Lemma inv_pz_nonneg e s k : InvW e s -> 0 <= pz (prox s k).
Proof. intros I. destruct (prox s k) as [r|] eqn:E; cbn [pz]; [pose proof (i_ppos e s I _ _ E)|]; lia. Qed.

(* a request through proxies at the head of the owner's stream finds all its objects *)
Lemma inv_use_present e s c args md q : InvW e s -> qba s = MUse c args md :: q ->
  all_present (slot s) (c :: args) = true.
Proof.
  intros I Eq. destruct (all_present (slot s) (c :: args)) eqn:E; [reflexivity|exfalso].
  destruct (all_present_false _ _ E) as (k & Hk & Ek).
  pose proof (i_uses e s I) as Hu. rewrite Eq in Hu. cbn [uses_ok] in Hu. destruct Hu as [Hu1 _]. specialize (Hu1 k Hk).
  pose proof (i_cnt e s I k) as Hck. rewrite Eq in Hck. cbn [dels dels_m] in Hck. unfold Sv in Hck. rewrite Ek in Hck.
  pose proof (refs_nonneg (qab s) k). pose proof (inv_pz_nonneg e s k I).
  assert (Hdq : dels_pos q) by (eapply dels_pos_tail; rewrite <- Eq; apply (i_dpos e s I)).
  pose proof (dels_nonneg q k Hdq).
  destruct Hu1 as [Hp1|Hd1].
  - destruct (prox s k) as [r|] eqn:Er; [|congruence]. pose proof (i_ppos e s I _ _ Er). cbn [pz] in Hck. lia.
  - pose proof (dels_has q k Hdq Hd1). lia.
Qed.

Lemma deliver_ba_inv s : Inv s -> Inv (deliver_ba P0 s).
Proof.
  intros I. pose proof I as [Ho Hc Hn Hp Hd H0 Hh1 Hh2 Hu He Hm]. unfold deliver_ba.
  destruct (qba s) as [|m q] eqn:Eq; [exact I|].
  assert (Hdq : dels_pos q) by (eapply dels_pos_tail; eauto).
  assert (H0q : forall k, ~ In (MDel0 k) q) by (intros k Hin; apply (H0 k); now right).
  assert (Huq : uses_ok (prox s) q) by (cbn [uses_ok] in Hu; tauto).
  assert (Hrn : forall k, 0 <= refs (qab s) k) by (intros; apply refs_nonneg).
  assert (Hpn : forall k, 0 <= pz (prox s k)) by (intros k; eapply inv_pz_nonneg; eauto).
  assert (Hdn : forall k, 0 <= dels q k) by (intros; now apply dels_nonneg).
  destruct m as [ks|ks|r| |k n|k|c args md|]; cbn [serve_owner];
    try solve [split; cbn; auto; try (intros k; rewrite Hc; cbn [dels dels_m]; lia)].
  - (* release notice *)
    assert (Hn1 : 1 <= n) by (apply (Hd k n); now left).
    pose proof (Hc k) as Hck. cbn [dels dels_m] in Hck. rewrite Nat.eqb_refl in Hck.
    specialize (Hrn k). specialize (Hpn k). pose proof (Hdn k).
    destruct (slot s k) as [z|] eqn:Ez; [|unfold Sv in Hck; rewrite Ez in Hck; lia].
    assert (Hz : n <= z + 1) by (unfold Sv in Hck; rewrite Ez in Hck; lia).
    destruct (decref_spec (slot s) k z n Hn Ez Hn1 Hz) as (t' & Et & Nt & St & Ot).
    cbn [set_qba slot morphed]. rewrite Ez, (Hm k), Et. split; cbn; auto.
    intros j. rewrite refs_app. cbn [refs refs_m].
    destruct (Nat.eq_dec j k) as [->|Hne].
    + rewrite St. lia.
    + unfold Sv. rewrite (Ot j Hne). fold (Sv (slot s) j). rewrite Hc. cbn [dels dels_m].
      destruct (Nat.eqb_spec k j); [congruence|lia].
  - exfalso. apply (H0 k). now left.
  - (* request through a proxy *)
    pose proof (inv_use_present [] s c args md q I Eq) as Hall.
    cbn [set_qba slot]. rewrite Hall.
    destruct md; [|destruct args as [|r args']|].
    + split; cbn; auto. intros k. rewrite refs_app, Hc. cbn [refs refs_m dels dels_m]. lia.
    + split; cbn; auto. intros k. rewrite refs_app, Hc. cbn [refs refs_m dels dels_m]. lia.
    + split; cbn; auto.
      * intros k. rewrite refs_app, add_Sv, Hc. cbn [refs refs_m dels dels_m]. lia.
      * now apply add_nonneg.
    + split; cbn; auto. intros k. rewrite refs_app, Hc. cbn [refs refs_m dels dels_m]. lia.
Qed.

(* the peer unboxes the references ks and its application keeps them; message d is then appended *)
Lemma unbox_all_inv s ks d : closed s = false -> nonneg (slot s) -> ppos (prox s) ->
  (forall k, prox s k = None -> holds s k = O /\ mem k (pin s) = false) ->
  (forall k, holds s k = O -> mem k (pin s) = false -> prox s k = None) ->
  dels_pos (qba s) -> (forall k, ~ In (MDel0 k) (qba s)) -> uses_ok (prox s) (qba s) -> errs s = O ->
  (forall k, morphed s k = false) ->
  (forall k, Sv (slot s) k = refs (qab s) k + cnt ks k + pz (prox s k) + dels (qba s) k) ->
  (forall j, ~ mentions d j) -> (forall k, dels_m d k = 0) -> (forall j n, d <> MDel j n) -> (forall j, d <> MDel0 j) ->
  let s' := unbox_all P0 s ks in Inv (set_qba s' (qba s' ++ [d])) /\ Inv s'.
Proof.
  intros Ho Hn Hp Hh1 Hh2 Hd H0 Hu He Hm Hc Hmd Hdd Hd1 Hd2. unfold unbox_all.
  rewrite unbox1_fold.
  destruct (unbox_p_spec ks (prox s) Hp) as (A & C & D & E & F).
  destruct (hfold_spec ks (holds s)) as (G1 & G2 & G3).
  set (p' := fold_left (unbox_p P0) ks (prox s)) in *.
  set (h' := fold_left (fun h k => upd h k (S (h k))) ks (holds s)) in *.
  assert (K1 : forall k, p' k = None -> h' k = O /\ mem k (pin s) = false).
  { intros k Ek. assert (Hnk : ~ In k ks) by (intros Hin; now apply (E k Hin)).
    rewrite G2 by exact Hnk. apply Hh1. now rewrite <- (F k Hnk). }
  assert (K2 : forall k, h' k = O -> mem k (pin s) = false -> p' k = None).
  { intros k Ek Epin. assert (Hnk : ~ In k ks) by (intros Hin; now apply (G1 k Hin)).
    rewrite F by exact Hnk. apply Hh2; [now rewrite <- (G2 k Hnk)|exact Epin]. }
  split; split; cbn; auto.
  - intros k. rewrite C, dels_app, Hc. cbn [dels]. rewrite Hdd. lia.
  - apply dels_pos_app; [exact Hd|]. intros k n [->|[]]. exfalso; eapply Hd1; eauto.
  - intros k Hin. apply in_app_or in Hin. destruct Hin as [Hin|[Hin|[]]]; [eapply H0; eauto|eapply Hd2; eauto].
  - apply uses_ok_app; [eapply uses_ok_mono; eauto|]. intros k Hk. now apply Hmd in Hk.
  - intros k. rewrite C, Hc. lia.
  - eapply uses_ok_mono; eauto.
Qed.

(* the finalizer of proxy j runs; j is not referenced by the kept traceback *)
Lemma finalize_invW e e' j s : InvW e s -> mem j (pin s) = false ->
  (forall k, k <> j -> mem k e' = false -> mem k e = false) -> InvW e' (finalize P0 j s).
Proof.
  intros I Hj He'. pose proof I as [Ho Hc Hn Hp Hd H0 Hh1 Hh2 Hu He Hm]. unfold finalize.
  destruct (prox s j) as [r|] eqn:Er.
  - cbn [del_msg p_del_src stdp]. split; cbn; auto.
    + intros k. rewrite dels_app, Hc. cbn [dels dels_m]. unfold upd. rewrite (Nat.eqb_sym j k).
      destruct (Nat.eqb_spec k j) as [->|]; [rewrite Er; cbn [pz]; lia|lia].
    + intros k x. unfold upd. destruct (Nat.eqb k j); [discriminate|apply Hp].
    + apply dels_pos_app; [exact Hd|]. intros k n [[= <- <-]|[]]. eapply Hp; eauto.
    + intros k Hin. apply in_app_or in Hin. destruct Hin as [Hin|[Hin|[]]]; [eapply H0; eauto|discriminate].
    + intros k. unfold upd. destruct (Nat.eqb_spec k j) as [->|]; [intros _; now split|apply Hh1].
    + intros k. unfold upd. destruct (Nat.eqb_spec k j) as [->|Hne]; [reflexivity|]. intros A B Cc. apply Hh2; auto.
    + apply uses_ok_app_del; auto. left. exists r. now left.
  - split; cbn; auto.
    + intros k. unfold upd. destruct (Nat.eqb_spec k j) as [->|]; [intros _; now split|apply Hh1].
    + intros k. unfold upd. destruct (Nat.eqb_spec k j) as [->|Hne]; [intros; exact Er|]. intros A B Cc. apply Hh2; auto.
Qed.
Lemma finalize_inv j s : Inv s -> mem j (pin s) = false -> Inv (finalize P0 j s).
Proof. intros I Hj. eapply finalize_invW; eauto. Qed.
Lemma finalize_pin j s : pin (finalize P0 j s) = pin s.
Proof. unfold finalize. destruct (prox s j); reflexivity. Qed.
Lemma finalize_holds j s k : holds s k = O -> holds (finalize P0 j s) k = O.
Proof. intros H. unfold finalize. destruct (prox s j); cbn; unfold upd; destruct (Nat.eqb k j); auto. Qed.

Lemma finalize_loop e : forall s, InvW e s -> (forall j, In j e -> mem j (pin s) = false) ->
  Inv (fold_left (fun x j => finalize P0 j x) e s).
Proof.
  induction e as [|j r IH]; intros s I Hs; cbn [fold_left]; [exact I|].
  apply IH.
  - eapply finalize_invW; [exact I|apply Hs; now left|].
    intros k Hne Hk. cbn [mem existsb]. fold (mem k r). rewrite Hk. destruct (Nat.eqb_spec k j); [contradiction|reflexivity].
  - intros i Hi. rewrite finalize_pin. apply Hs. now right.
Qed.

(* a call served by the peer raises after unboxing ks: the new traceback references those proxies *)
Lemma repin_inv s ks : closed s = false -> nonneg (slot s) -> ppos (prox s) ->
  (forall k, prox s k = None -> holds s k = O /\ mem k (pin s) = false) ->
  (forall k, holds s k = O -> mem k (pin s) = false -> prox s k = None) ->
  dels_pos (qba s) -> (forall k, ~ In (MDel0 k) (qba s)) -> uses_ok (prox s) (qba s) -> errs s = O ->
  (forall k, morphed s k = false) ->
  (forall k, Sv (slot s) k = refs (qab s) k + cnt ks k + pz (prox s k) + dels (qba s) k) ->
  Inv (repin P0 ks s).
Proof.
  intros Ho Hn Hp Hh1 Hh2 Hd H0 Hu He Hm Hc. unfold repin.
  destruct (unbox_p_spec ks (prox s) Hp) as (A & C & D & E & F).
  set (p' := fold_left (unbox_p P0) ks (prox s)) in *.
  apply finalize_loop.
  - split; cbn; auto.
    + intros k. rewrite C, dels_app, Hc. cbn [dels dels_m]. lia.
    + apply dels_pos_app; [exact Hd|]. intros k n [|[]]. discriminate.
    + intros k Hin. apply in_app_or in Hin. destruct Hin as [Hin|[Hin|[]]]; [eapply H0; eauto|discriminate].
    + intros k Ek. assert (Hnk : ~ In k ks) by (intros Hin; now apply (E k Hin)).
      split; [apply Hh1; now rewrite <- (F k Hnk)|now apply mem_false].
    + intros k Ek Epin Eex. apply mem_false in Epin. rewrite F by exact Epin.
      destruct (prox s k) as [r|] eqn:Er; [exfalso|reflexivity].
      destruct (mem k (pin s)) eqn:Eold.
      * apply mem_false in Eex. apply Eex. apply filter_In. split; [now apply mem_in|].
        unfold stale. rewrite Ek. cbn. apply mem_false in Epin. now rewrite Epin.
      * specialize (Hh2 k Ek Eold). congruence.
    + apply uses_ok_app; [eapply uses_ok_mono; eauto|]. intros k [].
  - intros j Hj. apply filter_In in Hj. destruct Hj as [_ Hj]. unfold stale in Hj. cbn.
    apply andb_prop in Hj. destruct Hj as [_ Hj]. fold (mem j ks). now destruct (mem j ks).
Qed.

Lemma deliver_ab_inv s : Inv s -> Inv (deliver_ab P0 s).
Proof.
  intros I. pose proof I as [Ho Hc Hn Hp Hd H0 Hh1 Hh2 Hu He Hm]. unfold deliver_ab.
  destruct (qab s) as [|m q] eqn:Eq; [exact I|].
  assert (Hh2' : forall k, holds s k = O -> mem k (pin s) = false -> prox s k = None) by (intros; now apply Hh2).
  destruct m as [ks|ks|[r|]| |k n|k|c args md|]; cbn [serve_peer];
    try solve [split; cbn; auto; intros k; rewrite Hc; cbn [refs refs_m]; lia].
  - apply (unbox_all_inv (set_qab s q) ks MReply); cbn; auto; try discriminate.
    intros k. rewrite Hc. cbn [refs refs_m]. lia.
  - apply repin_inv; cbn; auto. intros k. rewrite Hc. cbn [refs refs_m]. lia.
  - apply (unbox_all_inv (set_qab s q) [r] MReply); cbn; auto; try discriminate.
    intros k. rewrite Hc. cbn [refs refs_m cnt]. lia.
Qed.

Lemma release_inv k s : Inv s -> Inv (release P0 k s).
Proof.
  intros I. unfold release. destruct (mem k (pin s)) eqn:Ep; [|now apply finalize_inv].
  pose proof I as [Ho Hc Hn Hp Hd H0 Hh1 Hh2 Hu He Hm]. split; cbn; auto.
  - intros j Ej. destruct (Hh1 j Ej) as [A B]. split; [|exact B]. unfold upd. destruct (Nat.eqb j k); auto.
  - intros j. unfold upd. destruct (Nat.eqb_spec j k) as [->|]; [intros _ B _; unfold mem in Ep; congruence|intros A B _; now apply Hh2].
Qed.
Lemma drop_all_inv k s : Inv s -> Inv (drop_all P0 k s).
Proof. intros I. unfold drop_all. destruct (holds s k); [exact I|now apply release_inv]. Qed.
Lemma drop_one_inv k s : Inv s -> Inv (drop_one P0 k s).
Proof.
  intros I. unfold drop_one. destruct (holds s k) as [|[|h]] eqn:Eh; [exact I|now apply release_inv|].
  pose proof I as [Ho Hc Hn Hp Hd H0 Hh1 Hh2 Hu He Hm]. split; cbn; auto.
  - intros j Ej. destruct (Hh1 j Ej) as [A B]. split; [|exact B]. unfold upd. destruct (Nat.eqb_spec j k) as [->|]; [congruence|exact A].
  - intros j. unfold upd. destruct (Nat.eqb_spec j k) as [->|]; [discriminate|intros A B _; now apply Hh2].
Qed.

Lemma all_held_spec s ks : all_held s ks = true -> forall k, In k ks -> holds s k <> O.
Proof.
  unfold all_held. rewrite forallb_forall. intros H k Hk. specialize (H k Hk).
  destruct (Nat.eqb_spec (holds s k) O); [discriminate|assumption].
Qed.
Lemma use_inv c args md s : Inv s -> Inv (use c args md s).
Proof.
  intros I. pose proof I as [Ho Hc Hn Hp Hd H0 Hh1 Hh2 Hu He Hm]. unfold use.
  destruct (all_held s (c :: args)) eqn:E; [|exact I].
  split; cbn; auto.
  - intros k. rewrite dels_app, Hc. cbn [dels dels_m]. lia.
  - apply dels_pos_app; [exact Hd|]. intros k n [|[]]. discriminate.
  - intros k Hin. apply in_app_or in Hin. destruct Hin as [Hin|[Hin|[]]]; [eapply H0; eauto|discriminate].
  - apply uses_ok_app; [exact Hu|]. intros k Hk. cbn [mentions] in Hk.
    eapply held_present; [exact I|]. now apply (all_held_spec s _ E).
Qed.

Lemma iter_inv (f : st -> st) n s : (forall x, Inv x -> Inv (f x)) -> Inv s -> Inv (Nat.iter n f s).
Proof. apply iter_pres. Qed.
Lemma sync_inv s : Inv s -> Inv (sync P0 s).
Proof. intros I. unfold sync. apply iter_inv; [apply deliver_ba_inv|]. apply iter_inv; [apply deliver_ab_inv|exact I]. Qed.
Lemma forget_inv k s : Inv s -> Inv (set_appref s (upd (appref s) k false)).
Proof. intros [Ho Hc Hn Hp Hd H0 Hh1 Hh2 Hu He Hm]. split; cbn; auto. Qed.

(* ---- all states of valid histories: open and invariant, or closed without a KeyError ---- *)
Definition Good (s : st) : Prop := if closed s then errs s = O else Inv s.

Lemma step_closed_facts o s : closed (step_closed P0 o s) = closed s /\ errs (step_closed P0 o s) = errs s.
Proof. destruct o; cbn [step_closed]; try (destruct (p_send_checks_closed P0)); split; reflexivity. Qed.

Lemma step_good o s : valid_op o -> Good s -> Good (step P0 o s).
Proof.
  intros Hv Hg. unfold step. unfold Good in Hg. destruct (closed s) eqn:Ec.
  - unfold Good. destruct (step_closed_facts o s) as [A B]. rewrite A, Ec, B. exact Hg.
  - assert (Hopen : forall x, Inv x -> Good x) by (intros x Ix; unfold Good; now rewrite (i_open [] x Ix)).
    destruct o; cbn [valid_op] in Hv; try contradiction.
    + apply Hopen. now apply send_inv.
    + apply Hopen. apply sync_inv. now apply send_inv.
    + apply Hopen. now apply send_inv.
    + apply Hopen. now apply deliver_ab_inv.
    + apply Hopen. now apply deliver_ba_inv.
    + apply Hopen. now apply drop_one_inv.
    + apply Hopen. now apply drop_all_inv.
    + apply Hopen. now apply use_inv.
    + apply Hopen. now apply forget_inv.
    + apply Hopen. now apply sync_inv.
    + unfold Good, close, cleanup. cbn. destruct by_peer.
      * apply (i_errs [] _). apply iter_inv; [apply deliver_ba_inv|exact Hg].
      * now apply (i_errs [] _).
Qed.

Lemma run_from_good ops : forall s, Forall valid_op ops -> Good s -> Good (run_from P0 s ops).
Proof.
  induction ops as [|o r IH]; intros s Hv Hg; cbn [run_from fold_left]; [exact Hg|].
  inversion Hv; subst. apply IH; [assumption|]. now apply step_good.
Qed.
Lemma run_good ops : Forall valid_op ops -> Good (run P0 ops).
Proof. intros Hv. apply run_from_good; [exact Hv|]. unfold Good. cbn. apply init_inv. Qed.
Lemma good_open s : Good s -> closed s = false -> Inv s.
Proof. unfold Good. intros H E. now rewrite E in H. Qed.
Lemma good_errs s : Good s -> errs s = O.
Proof. unfold Good. destruct (closed s); [tauto|apply i_errs]. Qed.

(* ---- consequences for all histories ---- *)
Lemma run_snoc P ops o : run P (ops ++ [o]) = step P o (run P ops).
Proof. unfold run, run_from. now rewrite fold_left_app. Qed.
Lemma run_app P a b : run P (a ++ b) = run_from P (run P a) b.
Proof. unfold run, run_from. now rewrite fold_left_app. Qed.

(* 1. the counting invariant *)
Theorem count_invariant ops k : Forall valid_op ops -> closed (run P0 ops) = false ->
  Sv (slot (run P0 ops)) k = refs (qab (run P0 ops)) k + pz (prox (run P0 ops) k) + dels (qba (run P0 ops)) k.
Proof. intros Hv Ho. apply (i_cnt []). apply good_open; [now apply run_good|exact Ho]. Qed.

(* what keeps object k referenced by the owner's connection *)
Definition held_or_in_flight (s : st) (k : nat) : Prop :=
  prox s k <> None \/ 1 <= refs (qab s) k \/ has_del k (qba s) \/ exists m, In m (qba s) /\ mentions m k.

Lemma inv_alive s k : Inv s -> held_or_in_flight s k -> slot s k <> None.
Proof.
  intros I H. pose proof I as [Ho Hc Hn Hp Hd H0 Hh1 Hh2 Hu He Hm]. apply Sv_pos_present. rewrite Hc.
  pose proof (refs_nonneg (qab s) k). pose proof (dels_nonneg (qba s) k Hd). pose proof (inv_pz_nonneg [] s k I).
  assert (Hpp : prox s k <> None -> 1 <= pz (prox s k)).
  { destruct (prox s k) as [r|] eqn:E; [|congruence]. intros _. cbn [pz]. eapply Hp; eauto. }
  destruct H as [H|[H|[H|(m & Hin & Hmm)]]].
  - specialize (Hpp H). lia.
  - lia.
  - pose proof (dels_has _ _ Hd H). lia.
  - destruct (uses_ok_in _ _ _ _ Hu Hin Hmm) as [H|H]; [specialize (Hpp H); lia|pose proof (dels_has _ _ Hd H); lia].
Qed.

(* 2. alive while held, and no lookup at the owner ever fails *)
Theorem alive_while_held ops k : Forall valid_op ops -> closed (run P0 ops) = false ->
  held_or_in_flight (run P0 ops) k -> slot (run P0 ops) k <> None /\ alive (run P0 ops) k = true.
Proof.
  intros Hv Ho H. assert (Hs : slot (run P0 ops) k <> None) by (eapply inv_alive; eauto; apply good_open; [now apply run_good|exact Ho]).
  split; [exact Hs|]. unfold alive. destruct (slot (run P0 ops) k); [|congruence]. now rewrite orb_true_r.
Qed.
Theorem no_keyerror ops : Forall valid_op ops -> errs (run P0 ops) = O.
Proof. intros Hv. apply good_errs. now apply run_good. Qed.

(* 3. nothing in flight and no proxy: the owner's table has let go; what can still keep the object alive is
      its owner application -- or the frames of the owner connection's last traceback *)
Theorem released_at_quiescence ops k : Forall valid_op ops -> closed (run P0 ops) = false ->
  refs (qab (run P0 ops)) k = 0 -> dels (qba (run P0 ops)) k = 0 -> prox (run P0 ops) k = None ->
  slot (run P0 ops) k = None /\ alive (run P0 ops) k = appref (run P0 ops) k || mem k (tbo (run P0 ops)).
Proof.
  intros Hv Ho Hr Hd Hp. pose proof (count_invariant ops k Hv Ho) as H. rewrite Hr, Hd, Hp in H. cbn [pz] in H.
  assert (E : slot (run P0 ops) k = None).
  { unfold Sv in H. destruct (slot (run P0 ops) k) as [z|] eqn:E; [|reflexivity].
    pose proof (i_nonneg [] _ (good_open _ (run_good ops Hv) Ho) k z E). lia. }
  split; [exact E|]. unfold alive. rewrite E. now rewrite orb_false_r.
Qed.

(* ---- closedness and queue shapes ---- *)
Lemma serve_owner_closed m s : closed (serve_owner P0 m s) = closed s.
Proof.
  destruct m as [ks|ks|r| |k n|k|c args md|]; cbn [serve_owner]; try reflexivity.
  - destruct (slot s k); [|reflexivity]. destruct (morphed s k); [reflexivity|]. destruct (coll_decref P0 (slot s) k n); reflexivity.
  - destruct (slot s k); [|reflexivity]. destruct (morphed s k); [reflexivity|]. destruct (coll_decref P0 (slot s) k (p_dec_default P0)); reflexivity.
  - destruct (all_present (slot s) (c :: args)); [|reflexivity]. destruct md; [|destruct args|]; reflexivity.
Qed.
Lemma deliver_ba_closed s : closed (deliver_ba P0 s) = closed s.
Proof. unfold deliver_ba. destruct (qba s); [reflexivity|]. now rewrite serve_owner_closed. Qed.
Lemma finalize_closed j s : closed (finalize P0 j s) = closed s.
Proof. unfold finalize. destruct (prox s j); reflexivity. Qed.
Lemma finalize_qab j s : qab (finalize P0 j s) = qab s.
Proof. unfold finalize. destruct (prox s j); reflexivity. Qed.
Lemma fold_finalize_closed l : forall s, closed (fold_left (fun x j => finalize P0 j x) l s) = closed s.
Proof. induction l as [|j r IH]; intros s; cbn [fold_left]; [reflexivity|]. now rewrite IH, finalize_closed. Qed.
Lemma fold_finalize_qab l : forall s, qab (fold_left (fun x j => finalize P0 j x) l s) = qab s.
Proof. induction l as [|j r IH]; intros s; cbn [fold_left]; [reflexivity|]. now rewrite IH, finalize_qab. Qed.
Lemma unbox_all_closed s ks : closed (unbox_all P0 s ks) = closed s.
Proof. unfold unbox_all. destruct (fold_left (unbox1 P0) ks (prox s, holds s)). reflexivity. Qed.
Lemma unbox_all_qab s ks : qab (unbox_all P0 s ks) = qab s.
Proof. unfold unbox_all. destruct (fold_left (unbox1 P0) ks (prox s, holds s)). reflexivity. Qed.
Lemma deliver_ab_closed s : closed (deliver_ab P0 s) = closed s.
Proof.
  unfold deliver_ab. destruct (qab s) as [|m q]; [reflexivity|].
  destruct m as [ks|ks|[r|]| |k n|k|c args md|]; cbn [serve_peer]; try reflexivity.
  all: first [unfold repin; now rewrite fold_finalize_closed | cbn; now rewrite ?unbox_all_closed].
Qed.
Lemma iter_closed (f : st -> st) n s : (forall x, closed (f x) = closed x) -> closed (Nat.iter n f s) = closed s.
Proof. intros Hf. induction n; cbn [Nat.iter nat_rect]; [reflexivity|]. now rewrite Hf. Qed.
Lemma sync_closed s : closed (sync P0 s) = closed s.
Proof. unfold sync. rewrite iter_closed by apply deliver_ba_closed. now rewrite iter_closed by apply deliver_ab_closed. Qed.

Lemma deliver_ab_qab s : qab (deliver_ab P0 s) = tl (qab s).
Proof.
  unfold deliver_ab. destruct (qab s) as [|m q] eqn:E; [now rewrite E|].
  destruct m as [ks|ks|[r|]| |k n|k|c args md|]; cbn [serve_peer tl]; try reflexivity.
  all: first [unfold repin; now rewrite fold_finalize_qab | cbn; now rewrite ?unbox_all_qab].
Qed.
Lemma serve_owner_qba m s : qba (serve_owner P0 m s) = qba s.
Proof.
  destruct m as [ks|ks|r| |k n|k|c args md|]; cbn [serve_owner]; try reflexivity.
  - destruct (slot s k); [|reflexivity]. destruct (morphed s k); [reflexivity|]. destruct (coll_decref P0 (slot s) k n); reflexivity.
  - destruct (slot s k); [|reflexivity]. destruct (morphed s k); [reflexivity|]. destruct (coll_decref P0 (slot s) k (p_dec_default P0)); reflexivity.
  - destruct (all_present (slot s) (c :: args)); [|reflexivity]. destruct md; [|destruct args|]; reflexivity.
Qed.
Lemma deliver_ba_qba s : qba (deliver_ba P0 s) = tl (qba s).
Proof. unfold deliver_ba. destruct (qba s) as [|m q] eqn:E; [now rewrite E|]. now rewrite serve_owner_qba. Qed.
Lemma iter_skipn (f : st -> st) (sel : st -> list msg) : (forall s, sel (f s) = tl (sel s)) ->
  forall n s, sel (Nat.iter n f s) = skipn n (sel s).
Proof.
  intros Hf. induction n as [|n IH]; intros s; [reflexivity|].
  rewrite iter_succ_r, IH, Hf. destruct (sel s); [now rewrite skipn_nil|reflexivity].
Qed.
Lemma drain_ab_empty s : qab (Nat.iter (List.length (qab s)) (deliver_ab P0) s) = [].
Proof. rewrite (iter_skipn (deliver_ab P0) qab deliver_ab_qab). apply skipn_all. Qed.
Lemma drain_ba_empty s : qba (Nat.iter (List.length (qba s)) (deliver_ba P0) s) = [].
Proof. rewrite (iter_skipn (deliver_ba P0) qba deliver_ba_qba). apply skipn_all. Qed.

(* 2''. a request through proxies the peer holds is served: it is sent, the owner works through its stream up to
        and including it without a KeyError, and the last thing the owner sends is the answer the callee
        determines -- not a refusal *)
Definition answer (args : list nat) (md : umode) : msg :=
  match md, args with UBoom, _ => MExc | URet, r :: _ => MReplyRef (Some r) | _, _ => MReplyRef None end.

Lemma run_from_dba n : forall s, closed s = false ->
  run_from P0 s (repeat DeliverBA n) = Nat.iter n (deliver_ba P0) s.
Proof.
  induction n as [|n IH]; intros s Hc; [reflexivity|].
  unfold run_from. cbn [repeat fold_left]. unfold step at 2. rewrite Hc. fold (run_from P0 (deliver_ba P0 s) (repeat DeliverBA n)).
  rewrite IH by (now rewrite deliver_ba_closed). now rewrite iter_succ_r.
Qed.

Theorem use_is_served ops c args md : Forall valid_op ops -> closed (run P0 ops) = false ->
  (forall k, In k (c :: args) -> holds (run P0 ops) k <> O) ->
  let s1 := run P0 (ops ++ [Use c args md]) in
  let s2 := run P0 ((ops ++ [Use c args md]) ++ repeat DeliverBA (List.length (qba s1))) in
  qba s1 = qba (run P0 ops) ++ [MUse c args md] /\ closed s2 = false /\ qba s2 = [] /\ errs s2 = O /\
  exists pre, qab s2 = pre ++ [answer args md].
Proof.
  intros Hv Ho Hh. cbn zeta. set (s0 := run P0 ops) in *.
  assert (E1 : run P0 (ops ++ [Use c args md]) = set_qba s0 (qba s0 ++ [MUse c args md])).
  { rewrite run_snoc. fold s0. unfold step. rewrite Ho. unfold use.
    assert (E : all_held s0 (c :: args) = true).
    { unfold all_held. apply forallb_forall. intros k Hk. specialize (Hh k Hk). now destruct (Nat.eqb_spec (holds s0 k) O). }
    now rewrite E. }
  rewrite !E1. rewrite run_app, E1. set (s1 := set_qba s0 (qba s0 ++ [MUse c args md])).
  assert (I0 : Inv s0) by (apply good_open; [now apply run_good|exact Ho]).
  assert (I1 : Inv s1) by (pose proof (use_inv c args md s0 I0) as H; unfold use in H;
    replace (all_held s0 (c :: args)) with true in H; [exact H|symmetry; unfold all_held; apply forallb_forall; intros k Hk; specialize (Hh k Hk); now destruct (Nat.eqb_spec (holds s0 k) O)]).
  split; [reflexivity|].
  rewrite run_from_dba by exact Ho.
  cbn [qba s1 set_qba]. rewrite app_length. cbn [List.length]. rewrite Nat.add_1_r.
  set (n := List.length (qba s0)).
  set (sn := Nat.iter n (deliver_ba P0) s1).
  assert (In_ : Inv sn) by (apply iter_inv; [apply deliver_ba_inv|exact I1]).
  assert (Qn : qba sn = [MUse c args md]).
  { unfold sn. rewrite (iter_skipn (deliver_ba P0) qba deliver_ba_qba). cbn [qba s1 set_qba].
    rewrite skipn_app. unfold n. rewrite skipn_all, Nat.sub_diag. reflexivity. }
  rewrite iter_S. fold sn.
  pose proof (inv_use_present [] sn c args md [] In_ Qn) as Hall.
  pose proof (deliver_ba_inv sn In_) as I2.
  split; [apply (i_open [] _ I2)|]. split; [rewrite deliver_ba_qba, Qn; reflexivity|]. split; [apply (i_errs [] _ I2)|].
  unfold deliver_ba. rewrite Qn. cbn [serve_owner set_qba slot]. rewrite Hall.
  exists (qab sn). unfold answer. destruct md; [|destruct args|]; reflexivity.
Qed.

(* ---- histories in which no remote call raises: no traceback is kept on either side ---- *)
Lemma calm_valid o : calm_op o -> valid_op o.
Proof. destruct o; cbn; auto. Qed.
Lemma calm_valid_all ops : Forall calm_op ops -> Forall valid_op ops.
Proof. intros H. eapply Forall_impl; [|exact H]. apply calm_valid. Qed.

Record quiet (s : st) : Prop := {
  q_pin : pin s = [];
  q_tbo : tbo s = [];
  q_ab : forall ks, ~ In (MCallRaise ks) (qab s);
  q_ba : forall c a, ~ In (MUse c a UBoom) (qba s)
}.

Lemma unbox_all_pin s ks : pin (unbox_all P0 s ks) = pin s /\ tbo (unbox_all P0 s ks) = tbo s /\ qba (unbox_all P0 s ks) = qba s.
Proof. unfold unbox_all. destruct (fold_left (unbox1 P0) ks (prox s, holds s)). now repeat split. Qed.

Lemma deliver_ab_quiet s : quiet s -> quiet (deliver_ab P0 s).
Proof.
  intros Q. pose proof Q as [Qp Qt Qa Qb]. unfold deliver_ab. destruct (qab s) as [|m q] eqn:E; [exact Q|].
  assert (Qa' : forall ks, ~ In (MCallRaise ks) q) by (intros ks H; apply (Qa ks); try rewrite E; now right).
  destruct m as [ks|ks|[r|]| |k n|k|c args md|]; cbn [serve_peer]; try (split; cbn; now auto).
  - destruct (unbox_all_pin (set_qab s q) ks) as (A & B & Cc). split; cbn.
    + now rewrite A. + now rewrite B. + now rewrite unbox_all_qab.
    + intros c a H. rewrite Cc in H. cbn in H. apply in_app_or in H. destruct H as [H|[H|[]]]; [now apply (Qb c a)|discriminate].
  - exfalso. apply (Qa ks). try rewrite E. now left.
Qed.

Lemma deliver_ba_quiet s : Inv s -> quiet s -> quiet (deliver_ba P0 s).
Proof.
  intros I Q. pose proof Q as [Qp Qt Qa Qb]. unfold deliver_ba. destruct (qba s) as [|m q] eqn:E; [exact Q|].
  assert (Qb' : forall c a, ~ In (MUse c a UBoom) q) by (intros c a H; apply (Qb c a); try rewrite E; now right).
  assert (R : forall x m', pin x = [] -> tbo x = [] -> qab x = qab s -> qba x = q -> (forall ks, m' <> MCallRaise ks) -> quiet (reply x m')).
  { intros x m' A B Cc D F. split; cbn; auto.
    - intros ks H. rewrite Cc in H. apply in_app_or in H. destruct H as [H|[H|[]]]; [now apply (Qa ks)|now apply (F ks)].
    - now rewrite D. }
  destruct m as [ks|ks|r| |k n|k|c args md|]; cbn [serve_owner]; try (split; cbn; now auto).
  - cbn [set_qba slot morphed]. rewrite (i_morph [] s I k).
    destruct (slot s k); [|apply R; cbn; auto; discriminate].
    destruct (coll_decref P0 (slot s) k n); apply R; cbn; auto; discriminate.
  - cbn [set_qba slot morphed]. rewrite (i_morph [] s I k).
    destruct (slot s k); [|apply R; cbn; auto; discriminate].
    destruct (coll_decref P0 (slot s) k (p_dec_default P0)); apply R; cbn; auto; discriminate.
  - destruct md; try (exfalso; apply (Qb c args); try rewrite E; now left).
    + destruct (all_present (slot (set_qba s q)) (c :: args)); apply R; cbn; auto; discriminate.
    + destruct (all_present (slot (set_qba s q)) (c :: args)); [destruct args|]; apply R; cbn; auto; discriminate.
Qed.

Lemma sync_quiet s : Inv s -> quiet s -> quiet (sync P0 s).
Proof.
  intros I Q. unfold sync.
  set (s1 := Nat.iter (List.length (qab s)) (deliver_ab P0) s).
  assert (I1 : Inv s1) by (apply iter_inv; [apply deliver_ab_inv|exact I]).
  assert (Q1 : quiet s1) by (apply (iter_pres quiet); [apply deliver_ab_quiet|exact Q]).
  apply (iter_pres (fun x => Inv x /\ quiet x)); [|now split].
  intros x [Ix Qx]. split; [now apply deliver_ba_inv|now apply deliver_ba_quiet].
Qed.

Lemma release_quiet k s : quiet s -> quiet (release P0 k s) /\ release P0 k s = finalize P0 k s.
Proof.
  intros Q. pose proof Q as [Qp Qt Qa Qb]. unfold release. rewrite Qp. cbn [mem existsb]. split; [|reflexivity].
  unfold finalize. destruct (prox s k); split; cbn; auto.
  cbn [del_msg p_del_src stdp]. intros c a H. apply in_app_or in H. destruct H as [H|[H|[]]]; [now apply (Qb c a)|discriminate].
Qed.

(* ---- from any reachable state: drop every proxy, let the notices be processed, and the entries are gone ---- *)
Definition no_calls (q : list msg) : Prop := forall ks, ~ In (MCall ks) q /\ ~ In (MCallRaise ks) q.
Definition only_dels (q : list msg) : Prop := forall m, In m q -> exists k n, m = MDel k n.
Definition norefs (q : list msg) : Prop := forall k, refs q k = 0.

Lemma refs_app_noref q m : norefs q -> (forall k, refs_m m k = 0) -> norefs (q ++ [m]).
Proof. intros Hq Hm k. rewrite refs_app, Hq. cbn [refs]. rewrite Hm. lia. Qed.

Lemma serve_owner_no_calls m s : no_calls (qab s) -> no_calls (qab (serve_owner P0 m s)).
Proof.
  intros H.
  assert (R : forall x m', (forall ks, m' <> MCall ks /\ m' <> MCallRaise ks) -> qab x = qab s -> no_calls (qab (reply x m'))).
  { intros x m' Hm Ex ks. cbn. rewrite Ex. destruct (H ks) as [H1 H2]. destruct (Hm ks) as [M1 M2].
    split; intros Hin; apply in_app_or in Hin; (destruct Hin as [Hin|[Hin|[]]]; [tauto|congruence]). }
  assert (N : forall m', (m' = MExc \/ exists r, m' = MReplyRef r) -> forall ks, m' <> MCall ks /\ m' <> MCallRaise ks).
  { intros m' [->|[r ->]] ks; split; discriminate. }
  destruct m as [ks|ks|r| |k n|k|c args md|]; cbn [serve_owner]; try exact H.
  - destruct (slot s k); [|apply R; auto]. destruct (morphed s k); [apply R; auto|].
    destruct (coll_decref P0 (slot s) k n); apply R; eauto.
  - destruct (slot s k); [|apply R; auto]. destruct (morphed s k); [apply R; auto|].
    destruct (coll_decref P0 (slot s) k (p_dec_default P0)); apply R; eauto.
  - destruct (all_present (slot s) (c :: args)); [|apply R; auto].
    destruct md; [|destruct args|]; apply R; eauto.
Qed.
Lemma deliver_ba_no_calls s : no_calls (qab s) -> no_calls (qab (deliver_ba P0 s)).
Proof. intros H. unfold deliver_ba. destruct (qba s) as [|m q]; [exact H|]. now apply serve_owner_no_calls. Qed.

(* a message that is not a call leaves the peer's outgoing stream alone *)
Lemma deliver_ab_no_calls s : no_calls (qab s) -> qba (deliver_ab P0 s) = qba s /\ no_calls (qab (deliver_ab P0 s)).
Proof.
  intros H. split.
  - unfold deliver_ab. destruct (qab s) as [|m q] eqn:E; [reflexivity|].
    destruct m as [ks|ks|[r|]| |k n|k|c args md|]; cbn [serve_peer]; try reflexivity.
    + exfalso. apply (proj1 (H ks)). now left.
    + exfalso. apply (proj2 (H ks)). now left.
  - rewrite deliver_ab_qab. intros ks. destruct (H ks) as [A B]. split; intros Hin; [apply A|apply B]; (destruct (qab s); [destruct Hin|now right]).
Qed.

Lemma sync_twice_empty s : let s' := sync P0 (sync P0 s) in qab s' = [] /\ qba s' = [].
Proof.
  cbn zeta.
  set (s1 := sync P0 s).
  assert (H1 : qba s1 = [] /\ no_calls (qab s1)).
  { unfold s1, sync. split; [apply drain_ba_empty|].
    apply (iter_pres (fun x => no_calls (qab x))); [apply deliver_ba_no_calls|].
    rewrite drain_ab_empty. intros ks. split; intros []. }
  destruct H1 as [Hb Hc]. unfold sync.
  set (s2 := Nat.iter (List.length (qab s1)) (deliver_ab P0) s1).
  assert (H2 : qba s2 = [] /\ qab s2 = []).
  { split; [|apply drain_ab_empty].
    assert (G : forall n x, no_calls (qab x) -> qba (Nat.iter n (deliver_ab P0) x) = qba x /\ no_calls (qab (Nat.iter n (deliver_ab P0) x))).
    { induction n as [|n IH]; intros x Hx; [now split|]. rewrite iter_S.
      destruct (IH x Hx) as [E1 E2]. destruct (deliver_ab_no_calls _ E2) as [E3 E4]. split; [now rewrite E3|exact E4]. }
    destruct (G (List.length (qab s1)) s1 Hc) as [E _]. unfold s2. now rewrite E. }
  destruct H2 as [E1 E2]. rewrite E1. cbn. now split.
Qed.

Lemma drop_all_facts k s : Inv s -> quiet s -> only_dels (qba s) ->
  let s' := drop_all P0 k s in
  quiet s' /\ qab s' = qab s /\ only_dels (qba s') /\ prox s' k = None /\ (forall j, prox s j = None -> prox s' j = None).
Proof.
  intros I Q Hd. cbn zeta. unfold drop_all. destruct (holds s k) eqn:Eh.
  - split; [exact Q|]. repeat split; auto. apply (i_h2 [] s I); auto. now rewrite (q_pin s Q).
  - destruct (release_quiet k s Q) as [Q' E]. rewrite E in *. split; [exact Q'|].
    unfold finalize. destruct (prox s k) as [r|] eqn:Er.
    + cbn [del_msg p_del_src stdp]. cbn. repeat split.
      * intros m Hin. apply in_app_or in Hin. destruct Hin as [Hin|[<-|[]]]; [now apply Hd|now exists k, r].
      * unfold upd. now rewrite Nat.eqb_refl.
      * intros j Hj. unfold upd. now destruct (Nat.eqb j k).
    + cbn. repeat split; auto.
Qed.

Lemma drop_alls_facts ks : forall s, Inv s -> quiet s -> only_dels (qba s) ->
  let s' := run_from P0 s (map DropAll ks) in
  Inv s' /\ quiet s' /\ qab s' = qab s /\ only_dels (qba s') /\ (forall k, In k ks -> prox s' k = None) /\
  (forall j, prox s j = None -> prox s' j = None).
Proof.
  induction ks as [|k r IH]; intros s I Q Hd; cbn [map run_from fold_left].
  - split; [exact I|]. split; [exact Q|]. repeat split; auto. intros k [].
  - assert (Es : step P0 (DropAll k) s = drop_all P0 k s) by (unfold step; now rewrite (i_open [] s I)).
    rewrite Es. destruct (drop_all_facts k s I Q Hd) as (Q1 & A & B & Cc & D).
    destruct (IH (drop_all P0 k s) (drop_all_inv k s I) Q1 B) as (I' & Q' & A' & B' & C' & D').
    fold (run_from P0 (drop_all P0 k s) (map DropAll r)).
    split; [exact I'|]. split; [exact Q'|]. repeat split; auto.
    + now rewrite A'.
    + intros j [<-|Hj]; [now apply D'|now apply C'].
Qed.

Lemma deliver_ba_dels s : only_dels (qba s) -> norefs (qab s) ->
  only_dels (qba (deliver_ba P0 s)) /\ norefs (qab (deliver_ba P0 s)) /\ prox (deliver_ba P0 s) = prox s.
Proof.
  intros Hd Hr. split; [|split].
  - rewrite deliver_ba_qba. intros m Hin. apply Hd. destruct (qba s); [destruct Hin|now right].
  - unfold deliver_ba. destruct (qba s) as [|m q] eqn:E; [exact Hr|].
    destruct (Hd m (or_introl eq_refl)) as (k & n & ->). cbn [serve_owner].
    destruct (slot (set_qba s q) k); [|cbn; apply refs_app_noref; auto].
    destruct (morphed (set_qba s q) k); [cbn; apply refs_app_noref; auto|].
    destruct (coll_decref P0 (slot (set_qba s q)) k n); cbn; apply refs_app_noref; auto.
  - unfold deliver_ba. destruct (qba s) as [|m q] eqn:E; [reflexivity|].
    destruct (Hd m (or_introl eq_refl)) as (k & n & ->). cbn [serve_owner].
    destruct (slot (set_qba s q) k); [|reflexivity].
    destruct (morphed (set_qba s q) k); [reflexivity|].
    destruct (coll_decref P0 (slot (set_qba s q)) k n); reflexivity.
Qed.

Lemma init_quiet : quiet init.
Proof. split; cbn; auto. Qed.
Lemma step_quiet o s : calm_op o -> Good s -> quiet s -> quiet (step P0 o s).
Proof.
  intros Hc Hg Q. pose proof Q as [Qp Qt Qa Qb]. unfold step. unfold Good in Hg. destruct (closed s) eqn:Ec.
  - destruct o; cbn [step_closed]; try exact Q; try (destruct (p_send_checks_closed P0); [exact Q|split; cbn; auto]); split; cbn; auto.
  - assert (App : forall q m, (forall ks, m <> MCallRaise ks) -> (forall ks, ~ In (MCallRaise ks) q) -> forall ks, ~ In (MCallRaise ks) (q ++ [m])).
    { intros q m Hm Hq ks H. apply in_app_or in H. destruct H as [H|[H|[]]]; [now apply (Hq ks)|now apply (Hm ks)]. }
    destruct o; cbn [calm_op] in Hc; try contradiction.
    + split; cbn; auto. apply App; auto. discriminate.
    + apply sync_quiet; [now apply send_inv|]. split; cbn; auto. apply App; auto. discriminate.
    + now apply deliver_ab_quiet.
    + now apply deliver_ba_quiet.
    + unfold drop_one. destruct (holds s k) as [|[|h]]; [exact Q|apply release_quiet; exact Q|split; cbn; auto].
    + unfold drop_all. destruct (holds s k); [exact Q|apply release_quiet; exact Q].
    + unfold use. destruct (all_held s (c :: args)); [|exact Q]. split; cbn; auto.
      intros c' a H. apply in_app_or in H. destruct H as [H|[H|[]]]; [now apply (Qb c' a)|].
      injection H as -> -> ->. exact Hc.
    + split; cbn; auto.
    + now apply sync_quiet.
    + unfold close, cleanup. destruct by_peer.
      * set (x := Nat.iter (List.length (qba s)) (deliver_ba P0) s).
        assert (Hx : Inv x /\ quiet x).
        { apply (iter_pres (fun y => Inv y /\ quiet y)); [|now split]. intros y [Iy Qy]. split; [now apply deliver_ba_inv|now apply deliver_ba_quiet]. }
        destruct Hx as [_ [Xp Xt Xa Xb]]. split; cbn; auto. rewrite Xt. now repeat match goal with |- context [if ?b then _ else _] => destruct b end.
      * split; cbn; auto. rewrite Qt. now repeat match goal with |- context [if ?b then _ else _] => destruct b end.
Qed.
Lemma run_quiet ops : Forall calm_op ops -> quiet (run P0 ops).
Proof.
  intros Hc. assert (G : forall l s, Forall calm_op l -> Good s -> quiet s -> quiet (run_from P0 s l)).
  { induction l as [|o r IH]; intros s Hl Hg Q; cbn [run_from fold_left]; [exact Q|]. inversion Hl; subst.
    apply IH; [assumption|apply step_good; [now apply calm_valid|exact Hg]|now apply step_quiet]. }
  apply G; [exact Hc| |apply init_quiet]. unfold Good. cbn. apply init_inv.
Qed.

(* 3'. constructive: from any reachable state of a history without raising calls *)
Theorem release_after_drop ops ks : Forall calm_op ops -> closed (run P0 ops) = false ->
  let s := run P0 (ops ++ [Sync; Sync] ++ map DropAll ks ++ [Sync]) in
  closed s = false /\ qba s = [] /\ norefs (qab s) /\
  forall k, In k ks -> prox s k = None /\ slot s k = None /\ alive s k = appref s k.
Proof.
  intros Hcalm Ho. cbn zeta. pose proof (calm_valid_all ops Hcalm) as Hv.
  unfold run, run_from. rewrite !fold_left_app. fold (run_from P0 init ops). fold (run P0 ops).
  pose proof (run_quiet ops Hcalm) as Q0.
  set (s0 := run P0 ops) in *.
  assert (I0 : Inv s0) by (apply good_open; [now apply run_good|exact Ho]).
  cbn [fold_left].
  assert (E1 : step P0 Sync s0 = sync P0 s0) by (unfold step; now rewrite (i_open [] _ I0)).
  rewrite E1. pose proof (sync_inv s0 I0) as I1. pose proof (sync_quiet s0 I0 Q0) as Q1.
  assert (E2 : step P0 Sync (sync P0 s0) = sync P0 (sync P0 s0)) by (unfold step; now rewrite (i_open [] _ I1)).
  rewrite E2. pose proof (sync_inv _ I1) as I2. pose proof (sync_quiet _ I1 Q1) as Q2.
  destruct (sync_twice_empty s0) as [Qa Qb]. set (s2 := sync P0 (sync P0 s0)) in *.
  fold (run_from P0 s2 (map DropAll ks)).
  assert (Hd2 : only_dels (qba s2)) by (rewrite Qb; intros m []).
  destruct (drop_alls_facts ks s2 I2 Q2 Hd2) as (I3 & Q3 & A3 & B3 & C3 & _).
  set (s3 := run_from P0 s2 (map DropAll ks)) in *.
  assert (E3 : step P0 Sync s3 = sync P0 s3) by (unfold step; now rewrite (i_open [] _ I3)).
  rewrite E3. pose proof (sync_inv _ I3) as I4. pose proof (sync_quiet _ I3 Q3) as Q4.
  assert (Es4 : sync P0 s3 = Nat.iter (List.length (qba s3)) (deliver_ba P0) s3).
  { unfold sync. rewrite A3, Qa. reflexivity. }
  rewrite Es4 in *.
  set (s4 := Nat.iter (List.length (qba s3)) (deliver_ba P0) s3) in *.
  assert (G : forall n x, only_dels (qba x) -> norefs (qab x) ->
     let y := Nat.iter n (deliver_ba P0) x in only_dels (qba y) /\ norefs (qab y) /\ prox y = prox x).
  { induction n as [|n IH]; intros x H1 H2; [now repeat split|]. cbn zeta. rewrite iter_S.
    destruct (IH x H1 H2) as (F1 & F2 & F3). destruct (deliver_ba_dels _ F1 F2) as (G1 & G2 & G3).
    repeat split; auto. now rewrite G3. }
  assert (Hr3 : norefs (qab s3)) by (rewrite A3, Qa; intros k; reflexivity).
  destruct (G (List.length (qba s3)) s3 B3 Hr3) as (F1 & F2 & F3). fold s4 in F1, F2, F3.
  assert (Qb4 : qba s4 = []) by apply drain_ba_empty.
  split; [apply (i_open [] _ I4)|]. split; [exact Qb4|]. split; [exact F2|].
  intros k Hk.
  assert (Pk : prox s4 k = None) by (rewrite F3; now apply C3).
  assert (Sk : slot s4 k = None).
  { pose proof (i_cnt [] _ I4 k) as Hc. rewrite F2, Pk, Qb4 in Hc. cbn in Hc.
    unfold Sv in Hc. destruct (slot s4 k) as [z|] eqn:Ez; [|reflexivity].
    pose proof (i_nonneg [] _ I4 k z Ez). lia. }
  repeat split; auto. unfold alive. rewrite Sk, (q_tbo _ Q4). cbn. now rewrite !orb_false_r.
Qed.

(* ---- closing ---- *)
(* 4. at the instant of closing (by either side, whatever happened before, also with a misbehaving peer):
      if the closing connection reaches its clear, every entry is gone *)
Theorem close_releases_now ops b f k : closed (run P0 ops) = false -> close_reaches_clear P0 b f = true ->
  closed (run P0 (ops ++ [Close b f])) = true /\ slot (run P0 (ops ++ [Close b f])) k = None /\
  alive (run P0 (ops ++ [Close b f])) k = appref (run P0 (ops ++ [Close b f])) k.
Proof.
  intros Ho Hr. rewrite run_snoc. unfold step. rewrite Ho. unfold close, cleanup, alive. cbn. rewrite Hr. cbn.
  repeat split. now rewrite !orb_false_r.
Qed.
(* ... and when lending through a closed connection is refused before boxing, nothing comes back afterwards *)
Lemma step_closed_empty o s : sc = true -> closed s = true -> (forall k, slot s k = None) ->
  closed (step P0 o s) = true /\ forall k, slot (step P0 o s) k = None.
Proof.
  intros Hsc Hc Hs. unfold step. rewrite Hc. destruct o; cbn [step_closed p_send_checks_closed stdp]; rewrite ?Hsc; now split.
Qed.
Theorem close_stays_released ops b f more k : sc = true -> closed (run P0 ops) = false -> close_reaches_clear P0 b f = true ->
  closed (run P0 (ops ++ Close b f :: more)) = true /\ slot (run P0 (ops ++ Close b f :: more)) k = None.
Proof.
  intros Hsc Ho Hr.
  replace (ops ++ Close b f :: more) with ((ops ++ [Close b f]) ++ more) by (now rewrite <- app_assoc).
  rewrite run_app.
  assert (H0 : closed (run P0 (ops ++ [Close b f])) = true /\ forall j, slot (run P0 (ops ++ [Close b f])) j = None).
  { split; [apply (close_releases_now ops b f k Ho Hr)|]. intros j. apply (close_releases_now ops b f j Ho Hr). }
  clear Ho.
  revert H0. generalize (run P0 (ops ++ [Close b f])). induction more as [|o r IH]; intros s [Hc Hs]; cbn [run_from fold_left].
  - split; [exact Hc|apply Hs].
  - apply IH. now apply step_closed_empty.
Qed.
End Std.

(* ---- witnesses: what breaks which clause ---- *)
(* a raising call on the lent object: released, forgotten by its owner, and still alive (A._last_traceback) *)
Theorem alive_exact_refuted sc cg cf fr rc : exists ops k,
  Forall valid_op ops /\ closed (run (stdp sc cg cf fr rc) ops) = false /\
  refs (qab (run (stdp sc cg cf fr rc) ops)) k = 0 /\ dels (qba (run (stdp sc cg cf fr rc) ops)) k = 0 /\
  prox (run (stdp sc cg cf fr rc) ops) k = None /\ slot (run (stdp sc cg cf fr rc) ops) k = None /\
  appref (run (stdp sc cg cf fr rc) ops) k = false /\ alive (run (stdp sc cg cf fr rc) ops) k = true.
Proof.
  exists [SendSync [0]; Use 0 [] UBoom; Sync; Sync; DropAll 0; Sync; Sync; Forget 0]%nat, 0%nat.
  split; [repeat constructor|]. vm_compute. repeat split; reflexivity.
Qed.
(* a raising call at the peer: the peer application holds nothing, everything has been delivered, and the
   proxy lives on in B._last_traceback, so the owner's entry stays *)
Theorem release_after_drop_refuted sc cg cf fr rc : exists ops k,
  Forall valid_op ops /\ closed (run (stdp sc cg cf fr rc) ops) = false /\
  let s := run (stdp sc cg cf fr rc) (ops ++ [Sync; Sync] ++ map DropAll [k] ++ [Sync]) in
  closed s = false /\ qab s = [] /\ qba s = [] /\ holds s k = O /\ prox s k = Some 1 /\ slot s k = Some 0.
Proof.
  exists [SendRaise [0]]%nat, 0%nat. split; [repeat constructor|]. vm_compute. repeat split; reflexivity.
Qed.
(* the key of a lent object changes: its release notice raises KeyError at the owner and the entry is never released *)
Theorem unstable_key_refuted sc cg cf fr rc : exists ops k,
  Forall valid_op ops /\
  let s := run (stdp sc cg cf fr rc) (ops ++ [Morph k; DropAll k; Sync; Sync]) in
  closed s = false /\ qba s = [] /\ prox s k = None /\ holds s k = O /\ errs s = 1%nat /\ slot s k = Some 0.
Proof.
  exists [SendSync [0]]%nat, 0%nat. split; [repeat constructor|]. vm_compute. repeat split; reflexivity.
Qed.
(* lending through a closed connection that does not refuse before boxing: an entry that nothing will release *)
Theorem close_stays_released_refuted cg cf fr rc : exists ops more k,
  Forall valid_op (ops ++ Close false FNone :: more) /\ closed (run (stdp false cg cf fr rc) ops) = false /\
  slot (run (stdp false cg cf fr rc) (ops ++ [Close false FNone])) k = None /\
  closed (run (stdp false cg cf fr rc) (ops ++ Close false FNone :: more)) = true /\
  slot (run (stdp false cg cf fr rc) (ops ++ Close false FNone :: more)) k = Some 0.
Proof.
  exists [SendSync [0]]%nat, [Send [0]]%nat, 0%nat. split; [repeat constructor|]. vm_compute. repeat split; reflexivity.
Qed.
(* a raising on_disconnect when the clear is not guarded; a raising before_closed hook when _cleanup is not in a finally *)
Theorem close_releases_refuted_disc sc cf fr rc : exists ops b k,
  closed (run (stdp sc false cf fr rc) ops) = false /\ closed (run (stdp sc false cf fr rc) (ops ++ [Close b FDisc])) = true /\
  slot (run (stdp sc false cf fr rc) (ops ++ [Close b FDisc])) k = Some 0.
Proof. exists [SendSync [0]]%nat, false, 0%nat. vm_compute. repeat split; reflexivity. Qed.
Theorem close_releases_refuted_hook sc cg fr rc : exists ops k,
  closed (run (stdp sc cg false fr rc) ops) = false /\ closed (run (stdp sc cg false fr rc) (ops ++ [Close false FHook])) = true /\
  slot (run (stdp sc cg false fr rc) (ops ++ [Close false FHook])) k = Some 0.
Proof. exists [SendSync [0]]%nat, 0%nat. vm_compute. repeat split; reflexivity. Qed.

(* ---- situations the theorems exclude: what the generated facts decide ---- *)
(* a call whose arguments cannot all be boxed / encoded: harmless when what _box registered is given back *)
Theorem failed_send_harmless sc cg cf rc s ks : closed s = false -> step (stdp sc cg cf true rc) (SendFail ks) s = s.
Proof. intros H. unfold step. rewrite H. reflexivity. Qed.
Theorem failed_reply_harmless sc cg cf rc s c r k : closed s = false ->
  slot (step (stdp sc cg cf true rc) (ReplyFail c r) s) k =
  slot (sync (stdp sc cg cf true rc) (sync (stdp sc cg cf true rc) s)) k.
Proof. intros H. unfold step. rewrite H. unfold reply_fail. destruct (_ && _); reflexivity. Qed.
(* ... and a leak on an open, healthy connection when it is not: nothing in flight, no proxy, entry present *)
Theorem failed_send_refuted sc cg cf rc : exists ops k,
  let s := run (stdp sc cg cf false rc) (ops ++ [Sync; Sync] ++ map DropAll [k] ++ [Sync]) in
  closed s = false /\ qab s = [] /\ qba s = [] /\ prox s k = None /\ holds s k = O /\ errs s = O /\ slot s k = Some 0.
Proof. exists [SendFail [0]]%nat, 0%nat. vm_compute. repeat split; reflexivity. Qed.
Theorem failed_reply_refuted sc cg cf rc : exists ops k,
  let s := run (stdp sc cg cf false rc) (ops ++ [Sync; Sync] ++ map DropAll [k] ++ [Sync; Sync]) in
  closed s = false /\ qab s = [] /\ qba s = [] /\ prox s k = None /\ holds s k = O /\ errs s = O /\ slot s k = Some 0.
Proof. exists [SendSync [0]; ReplyFail 0 0]%nat, 0%nat. vm_compute. repeat split; reflexivity. Qed.
(* a reference the peer consumed without producing a proxy (the unboxing of a sibling failed) is never given back *)
Theorem lost_reference_refuted sc cg cf fr rc : exists ops k,
  let s := run (stdp sc cg cf fr rc) (ops ++ [Sync; Sync] ++ map DropAll [k] ++ [Sync]) in
  closed s = false /\ qab s = [] /\ qba s = [] /\ prox s k = None /\ holds s k = O /\ errs s = O /\ slot s k = Some 0.
Proof. exists [SendBadSibling [0]]%nat, 0%nat. vm_compute. repeat split; reflexivity. Qed.
(* a callee that closes the owner's connection and then returns an object by reference *)
Theorem close_in_callee_releases sc cg cf fr s c r k : closed s = false ->
  closed (step (stdp sc cg cf fr true) (CloseInCallee c r) s) = true ->
  slot (step (stdp sc cg cf fr true) (CloseInCallee c r) s) k = None.
Proof.
  intros H. unfold step. rewrite H. unfold close_in_callee. destruct (_ && _); cbn.
  - reflexivity.
  - rewrite !sync_closed. congruence.
Qed.
Theorem close_in_callee_refuted sc cg cf fr : exists ops k,
  Forall valid_op ops /\ closed (run (stdp sc cg cf fr false) ops) = false /\
  closed (run (stdp sc cg cf fr false) (ops ++ [CloseInCallee k k])) = true /\
  slot (run (stdp sc cg cf fr false) (ops ++ [CloseInCallee k k])) k = Some 0.
Proof. exists [SendSync [0]]%nat, 0%nat. split; [repeat constructor|]. vm_compute. repeat split; reflexivity. Qed.
