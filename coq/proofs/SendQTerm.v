(* Termination of the send hand-off under ANY scheduler, fair or not: a potential that strictly decreases on every step
   of every thread.  For a system with n sending threads (all other thread ids idle). *)
From V Require Import lib.Base model.SendQ proofs.SendQP.
From Coq Require Import Arith.

Fixpoint sumn (g : nat -> nat) (n : nat) : nat := match n with O => O | S k => sumn g k + g k end.

Lemma sumn_update g g' c n i : i < n -> (forall j, j < n -> j <> i -> g' j <= g j + c) ->
  sumn g' n + g i <= sumn g n + g' i + c * n.
Proof.
  revert i. induction n as [|k IH]; intros i Hi H; [lia|]. cbn [sumn].
  destruct (Nat.eq_dec i k) as [->|Hne].
  - assert (X : sumn g' k <= sumn g k + c * k).
    { clear IH Hi. induction k as [|m IHm]; [cbn; lia|]. cbn [sumn].
      assert (g' m <= g m + c) by (apply H; lia).
      assert (sumn g' m <= sumn g m + c * m) by (apply IHm; intros j Hj Hn; apply H; lia). lia. }
    lia.
  - assert (i < k) by lia. specialize (IH i H0 (fun j Hj Hn => H j (Nat.lt_lt_succ_r _ _ Hj) Hn)).
    assert (g' k <= g k + c) by (apply H; lia). lia.
Qed.

Lemma sumn_same g g' n : (forall j, j < n -> g' j = g j) -> sumn g' n = sumn g n.
Proof. induction n as [|k IH]; intros H; [reflexivity|]. cbn [sumn]. rewrite IH by (intros; apply H; lia). rewrite H by lia. reflexivity. Qed.

Definition qe (s : st) : bool := match queue s with [] => true | _ => false end.
Definition rho (p : pc) (e : bool) : nat :=
  match p, e with
  | P0, _ | Done, _ => 0
  | P1, false => 4 | P1, true => 1
  | P2, false => 3 | P2, true => 7
  | P3, false => 2 | P3, true => 6
  | P4, _ => 1
  | P5, _ => 6
  | P6, _ => 5
  end.
Lemma rho_flip p e e' : rho p e' <= rho p e + 4.
Proof. destruct p, e, e'; cbn; lia. Qed.

Section Term.
Variable n : nat.
Definition W : nat := 4 * n + 8.
Definition remn (s : st) (i : nat) : nat := total (thrs s i) - next (thrs s i).
Definition A (s : st) : nat := sumn (remn s) n.
Definition R (s : st) : nat := sumn (fun i => rho (tpc (thrs s i)) (qe s)) n.
Definition Phi (s : st) : nat := W * (A s + length (queue s)) + W * A s + R s.

(* threads beyond n never move *)
Definition idle_beyond (s : st) : Prop := forall i, n <= i -> tpc (thrs s i) = Done.

Lemma step_idle_beyond i s s' : idle_beyond s -> step i s = Some s' -> i < n /\ idle_beyond s'.
Proof.
  intros Hb H. destruct (Nat.lt_ge_cases i n) as [Hi|Hi].
  - split; [exact Hi|]. intros j Hj. unfold step in H. cbv zeta in H.
    destruct (tpc (thrs s i)); repeat match type of H with context [match ?x with _ => _ end] => destruct x; try discriminate end;
    inversion H; subst; cbn [thrs]; rewrite upd_other by lia; apply Hb; exact Hj.
  - exfalso. unfold step in H. rewrite (Hb i Hi) in H. discriminate.
Qed.

Theorem potential_decreases i s s' : Inv s -> idle_beyond s -> step i s = Some s' -> Phi s' < Phi s.
Proof.
  intros I Hb H. destruct (step_idle_beyond i s s' Hb H) as [Hi _].
  pose proof (I_cnt s I i) as (Hn1 & Hn2 & Hn3). pose proof (I_pop s I i) as Hpop.
  unfold step in H. cbv zeta in H.
  (* generic facts about sums after updating thread i *)
  assert (GR : forall t q' l' w', 
             R {| thrs := upd (thrs s) i t; queue := q'; lock := l'; wire := w' |} + rho (tpc (thrs s i)) (qe s)
             <= R s + rho (tpc t) (qe {| thrs := upd (thrs s) i t; queue := q'; lock := l'; wire := w' |}) + 4 * n).
  { intros t q' l' w'. unfold R. cbn [thrs].
    set (e' := qe {| thrs := upd (thrs s) i t; queue := q'; lock := l'; wire := w' |}).
    pose proof (sumn_update (fun j => rho (tpc (thrs s j)) (qe s)) (fun j => rho (tpc (upd (thrs s) i t j)) e') 4 n i Hi) as X.
    cbn beta in X. rewrite upd_same in X. apply X. intros j Hj Hne. rewrite upd_other by exact Hne. apply rho_flip. }
  assert (GRsame : forall t l' w', qe {| thrs := upd (thrs s) i t; queue := queue s; lock := l'; wire := w' |} = qe s) by reflexivity.
  assert (GRq : forall t l' w', 
             R {| thrs := upd (thrs s) i t; queue := queue s; lock := l'; wire := w' |} + rho (tpc (thrs s i)) (qe s)
             = R s + rho (tpc t) (qe s)).
  { intros t l' w'. unfold R. cbn [thrs]. change (qe {| thrs := upd (thrs s) i t; queue := queue s; lock := l'; wire := w' |}) with (qe s).
    clear -Hi. revert i Hi. induction n as [|k IH]; intros i Hi; [lia|]. cbn [sumn].
    destruct (Nat.eq_dec i k) as [->|Hne].
    - rewrite upd_same. rewrite (sumn_same (fun j => rho (tpc (thrs s j)) (qe s)) (fun j => rho (tpc (upd (thrs s) k t j)) (qe s)) k)
        by (intros j Hj; rewrite upd_other by lia; reflexivity). lia.
    - rewrite upd_other by lia. assert (i < k) by lia. specialize (IH i H). lia. }
  assert (GAsame : forall t q' l' w', total t = total (thrs s i) -> next t = next (thrs s i) ->
             A {| thrs := upd (thrs s) i t; queue := q'; lock := l'; wire := w' |} = A s).
  { intros t q' l' w' Ht Hn. unfold A. apply sumn_same. intros j Hj. unfold remn. cbn [thrs].
    destruct (Nat.eq_dec j i) as [->|Hne]; [rewrite upd_same, Ht, Hn|rewrite upd_other by exact Hne]; reflexivity. }
  unfold Phi.
  destruct (tpc (thrs s i)) eqn:Epc.
  - (* P0: append *)
    inversion H; subst; clear H.
    specialize (Hn2 eq_refl).
    assert (HA : A {| thrs := upd (thrs s) i {| tpc := P1; next := S (next (thrs s i)); total := total (thrs s i); cur := None |};
                      queue := queue s ++ [(i, next (thrs s i))]; lock := lock s; wire := wire s |} + 1 = A s).
    { unfold A. pose proof (sumn_update (remn {| thrs := upd (thrs s) i {| tpc := P1; next := S (next (thrs s i)); total := total (thrs s i); cur := None |};
                      queue := queue s ++ [(i, next (thrs s i))]; lock := lock s; wire := wire s |}) (remn s) 0 n i Hi) as X1.
      pose proof (sumn_update (remn s) (remn {| thrs := upd (thrs s) i {| tpc := P1; next := S (next (thrs s i)); total := total (thrs s i); cur := None |};
                      queue := queue s ++ [(i, next (thrs s i))]; lock := lock s; wire := wire s |}) 0 n i Hi) as X2.
      unfold remn in *. cbn [thrs] in *. rewrite upd_same in *. cbn [total next] in *.
      assert (E : forall j, j < n -> j <> i -> total (upd (thrs s) i {| tpc := P1; next := S (next (thrs s i)); total := total (thrs s i); cur := None |} j)
                   - next (upd (thrs s) i {| tpc := P1; next := S (next (thrs s i)); total := total (thrs s i); cur := None |} j)
                   = total (thrs s j) - next (thrs s j)) by (intros j Hj Hne; now rewrite upd_other).
      specialize (X1 ltac:(intros j Hj Hne; rewrite E by assumption; lia)).
      specialize (X2 ltac:(intros j Hj Hne; rewrite E by assumption; lia)). lia. }
    pose proof (GR {| tpc := P1; next := S (next (thrs s i)); total := total (thrs s i); cur := None |}
                   (queue s ++ [(i, next (thrs s i))]) (lock s) (wire s)) as HR.
    cbn [tpc] in HR. change (rho P0 (qe s)) with 0 in HR. cbn [queue]. rewrite app_length. cbn [length].
    assert (rho P1 (qe {| thrs := upd (thrs s) i {| tpc := P1; next := S (next (thrs s i)); total := total (thrs s i); cur := None |};
                          queue := queue s ++ [(i, next (thrs s i))]; lock := lock s; wire := wire s |}) <= 4) by (match goal with |- rho P1 ?e <= 4 => destruct e; cbn; lia end).
    revert HA HR H. generalize (A s) (R s) (length (queue s)).
    match goal with |- context [A ?x] => generalize (A x) (R x) (rho P1 (qe x)) end.
    intros a' r' x a r lq HA HR Hx. subst a. unfold W.
    replace ((4 * n + 8) * (a' + (lq + 1)) + (4 * n + 8) * a' + r') with ((4 * n + 8) * a' + (4 * n + 8) * lq + (4 * n + 8) + (4 * n + 8) * a' + r') by lia.
    replace ((4 * n + 8) * (a' + 1 + lq) + (4 * n + 8) * (a' + 1) + r) with ((4 * n + 8) * a' + (4 * n + 8) + (4 * n + 8) * lq + (4 * n + 8) * a' + (4 * n + 8) + r) by lia.
    lia.
  - (* P1 *)
    destruct (queue s) as [|m q] eqn:Eq; inversion H; subst; clear H.
    + rewrite GAsame by reflexivity. pose proof (GRq {| tpc := ret_pc (thrs s i); next := next (thrs s i); total := total (thrs s i); cur := None |} (lock s) (wire s)) as HR.
      cbn [tpc] in HR. assert (Eqe : qe s = true) by (unfold qe; now rewrite Eq). rewrite Eqe in HR. cbn [rho] in HR.
      assert (rho (ret_pc (thrs s i)) true = 0) by (unfold ret_pc; destruct (_ <? _); reflexivity). cbn [queue]. lia.
    + rewrite GAsame by reflexivity. pose proof (GRq {| tpc := P2; next := next (thrs s i); total := total (thrs s i); cur := None |} (lock s) (wire s)) as HR.
      cbn [tpc] in HR. assert (Eqe : qe s = false) by (unfold qe; now rewrite Eq). rewrite Eqe in HR. cbn [rho queue] in *. lia.
  - (* P2 *)
    destruct (lock s) as [h|] eqn:El; inversion H; subst; clear H.
    + rewrite GAsame by reflexivity. pose proof (GRq {| tpc := ret_pc (thrs s i); next := next (thrs s i); total := total (thrs s i); cur := None |} (Some h) (wire s)) as HR.
      cbn [tpc] in HR. assert (rho (ret_pc (thrs s i)) (qe s) = 0) by (unfold ret_pc; destruct (_ <? _); reflexivity).
      assert (3 <= rho P2 (qe s)) by (destruct (qe s); cbn; lia). cbn [queue]. lia.
    + rewrite GAsame by reflexivity. pose proof (GRq {| tpc := P3; next := next (thrs s i); total := total (thrs s i); cur := None |} (Some i) (wire s)) as HR.
      cbn [tpc] in HR. assert (rho P3 (qe s) + 1 = rho P2 (qe s)) by (destruct (qe s); reflexivity). cbn [queue]. lia.
  - (* P3 *)
    destruct (queue s) as [|m q] eqn:Eq; inversion H; subst; clear H.
    + rewrite GAsame by reflexivity. pose proof (GRq {| tpc := P6; next := next (thrs s i); total := total (thrs s i); cur := None |} (lock s) (wire s)) as HR.
      cbn [tpc] in HR. assert (Eqe : qe s = true) by (unfold qe; now rewrite Eq). rewrite Eqe in HR. cbn [rho queue] in *. lia.
    + rewrite GAsame by reflexivity. pose proof (GRq {| tpc := P4; next := next (thrs s i); total := total (thrs s i); cur := None |} (lock s) (wire s)) as HR.
      cbn [tpc] in HR. assert (Eqe : qe s = false) by (unfold qe; now rewrite Eq). rewrite Eqe in HR. cbn [rho queue] in *. lia.
  - (* P4: pop *)
    destruct (queue s) as [|m q] eqn:Eq; [discriminate|]. inversion H; subst; clear H.
    rewrite GAsame by reflexivity.
    pose proof (GR {| tpc := P5; next := next (thrs s i); total := total (thrs s i); cur := Some m |} q (lock s) (wire s)) as HR.
    cbn [tpc rho] in HR. cbn [queue length]. unfold W in *. nia.
  - (* P5: write *)
    destruct (cur (thrs s i)) as [m|]; [|discriminate]. inversion H; subst; clear H.
    rewrite GAsame by reflexivity. pose proof (GRq {| tpc := P6; next := next (thrs s i); total := total (thrs s i); cur := None |} (lock s) (wire s ++ [m])) as HR.
    cbn [tpc rho queue] in *. lia.
  - (* P6: release *)
    inversion H; subst; clear H.
    rewrite GAsame by reflexivity. pose proof (GRq {| tpc := P1; next := next (thrs s i); total := total (thrs s i); cur := None |} None (wire s)) as HR.
    cbn [tpc] in HR. assert (rho P1 (qe s) <= 4) by (destruct (qe s); cbn; lia). cbn [rho queue] in *. lia.
  - discriminate.
Qed.

(* hence: every execution, under any scheduler, has at most Phi(initial) steps *)
Inductive run_of : st -> nat -> st -> Prop :=
| run_nil s : run_of s 0 s
| run_cons s i s1 k s2 : step i s = Some s1 -> run_of s1 k s2 -> run_of s (S k) s2.

Theorem bounded_executions : forall k s s', Inv s -> idle_beyond s -> run_of s k s' -> k + Phi s' <= Phi s.
Proof.
  induction k as [|k IH]; intros s s' I Hb Hr.
  - inversion Hr; subst. lia.
  - inversion Hr as [|s0 i s1 k0 s2 Hst Hrest]; subst.
    pose proof (potential_decreases _ _ _ I Hb Hst).
    assert (I1 : Inv s1) by (eapply inv_step; eauto). destruct (step_idle_beyond _ _ _ Hb Hst) as [_ Hb1].
    specialize (IH _ _ I1 Hb1 Hrest). lia.
Qed.
End Term.
