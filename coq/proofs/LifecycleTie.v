From V Require Import lib.Base model.Lifecycle proofs.LifecycleP gen.Gen_lifecycle gen.Gen_stream gen.Gen_dispatch.
Definition Pgen : lparams :=
  Build_lparams Gen_lifecycle.close_checks_closed_first Gen_lifecycle.close_sets_closed_before_io Gen_lifecycle.close_cleanup_in_finally
                Gen_lifecycle.close_swallows_eof Gen_lifecycle.cleanup_hook_once_guard Gen_lifecycle.cleanup_clears_in_finally
                Gen_lifecycle.serve_read_eof_closes
                Gen_lifecycle.serve_dispatch_eof_closes Gen_lifecycle.serve_all_finally_closes Gen_lifecycle.handle_close_guarded.
Lemma tie_core : core_ok Pgen = true.
Proof. reflexivity. Qed.
Lemma tie_entry_points : Gen_lifecycle.handle_close_is_cleanup = true /\ Gen_lifecycle.cleanup_default_anyway = true
  /\ Gen_lifecycle.serve_read_eof_closes = true /\ Gen_lifecycle.serve_all_finally_closes = true.
Proof. repeat split. Qed.
Definition Fgen : rfacts :=
  Build_rfacts Gen_stream.closed_stream_raises_eof Gen_lifecycle.cleanup_clears_callbacks Gen_dispatch.async_request_refuses_closed_channel.
Lemma tie_rfacts : Fgen = std_rfacts.
Proof. reflexivity. Qed.
