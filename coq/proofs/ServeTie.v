From V Require Import lib.Base model.Serve gen.Gen_serve.
Lemma tie_serve_prog : Gen_serve.serve_prog = Serve.serve_prog.
Proof. reflexivity. Qed.
Lemma tie_serve_facts : Gen_serve.wait_loops_on_serve = true /\ Gen_serve.call_sets_obj_before_ready = true
  /\ Gen_serve.callback_is_popped = true /\ Gen_serve.register_before_send = true /\ Gen_serve.seq_is_atomic_counter = true.
Proof. repeat split. Qed.
