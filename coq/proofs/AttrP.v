(* Proofs about the attribute-access policy model (model/Attr.v) and its tie to the functions and tables that
   tools/pygen/attrpolicy.py regenerates from rpyc/core/protocol.py, service.py, helpers.py (gen/Gen_attrpolicy.v). *)
From V Require Import lib.Base lib.Sx lib.Utf8 model.Attr.
From V Require gen.Gen_attrpolicy.   (* not imported: its check_attr/access_attr stay qualified *)
From Coq Require Import String.
Open Scope bool_scope.

(* ------------------------------------------------------------------ finite domains: enumerations, proved complete *)
Definition bools : list bool := [true; false].
Lemma bools_complete b : In b bools.
Proof. destruct b; simpl; auto. Qed.

Definition enum_switches : list switches :=
  flat_map (fun a => flat_map (fun b => flat_map (fun c => flat_map (fun d => flat_map (fun e => flat_map (fun f =>
  map (fun g => {| allow_safe := a; allow_exposed := b; allow_public := c; allow_all := d;
                   allow_getattr := e; allow_setattr := f; allow_delattr := g |}) bools) bools) bools) bools) bools) bools) bools.
Lemma enum_switches_complete s : In s enum_switches.
Proof.
  destruct s as [a b c d e f g]. unfold enum_switches.
  repeat (apply in_flat_map; eexists; split; [apply bools_complete|]).
  apply in_map. apply bools_complete.
Qed.
Definition enum_perm : list permkey := [PGet; PSet; PDel].
Lemma enum_perm_complete p : In p enum_perm.
Proof. destruct p; simpl; auto. Qed.
Definition enum_nkind : list nkind := [KStr; KBytesOk; KBytesBad; KOther].
Lemma enum_nkind_complete k : In k enum_nkind.
Proof. destruct k; simpl; auto. Qed.
Definition enum_nview : list nview :=
  flat_map (fun a => flat_map (fun b => map (fun c => {| starts_prefix := a; in_safe := b; starts_underscore := c |}) bools) bools) bools.
Lemma enum_nview_complete n : In n enum_nview.
Proof.
  destruct n as [a b c]. unfold enum_nview.
  repeat (apply in_flat_map; eexists; split; [apply bools_complete|]). apply in_map. apply bools_complete.
Qed.
Definition enum_oview : list oview := flat_map (fun a => map (fun b => {| has_name := a; has_twin := b |}) bools) bools.
Lemma enum_oview_complete o : In o enum_oview.
Proof.
  destruct o as [a b]. unfold enum_oview.
  repeat (apply in_flat_map; eexists; split; [apply bools_complete|]). apply in_map. apply bools_complete.
Qed.

Lemma all_spec {A} (l : list A) (complete : forall x, In x l) (f : A -> bool) : forallb f l = true -> forall x, f x = true.
Proof. intros H x. exact (proj1 (forallb_forall f l) H x (complete x)). Qed.
Definition all_b := all_spec bools bools_complete.
Definition all_sw := all_spec enum_switches enum_switches_complete.
Definition all_perm := all_spec enum_perm enum_perm_complete.
Definition all_nk := all_spec enum_nkind enum_nkind_complete.
Definition all_nv := all_spec enum_nview enum_nview_complete.
Definition all_ov := all_spec enum_oview enum_oview_complete.

(* decidable equality of outcomes *)
Definition exn_idx (e : exn) : nat :=
  match e with
  | TypeError => 0 | ValueError => 1 | AttributeError => 2 | KeyError => 3 | EOFError => 4 | UnicodeError => 5
  | StructError => 6 | TimeoutError => 7 | StopIteration => 8 | IndexError => 9 | ZlibError => 10 | OtherError => 11
  end.
Lemma exn_idx_inj a b : exn_idx a = exn_idx b -> a = b.
Proof. destruct a, b; simpl; intros H; try reflexivity; discriminate. Qed.
Definition result_eqb {A} (eqb : A -> A -> bool) (x y : result A) : bool :=
  match x, y with
  | Ok a, Ok b => eqb a b
  | Raise a, Raise b => Nat.eqb (exn_idx a) (exn_idx b)
  | OutOfFuel, OutOfFuel | Unmodelled, Unmodelled => true
  | _, _ => false
  end.
Lemma result_eqb_sound {A} (eqb : A -> A -> bool) (sound : forall a b, eqb a b = true -> a = b) x y :
  result_eqb eqb x y = true -> x = y.
Proof.
  destruct x, y; simpl; intros H; try discriminate; try reflexivity.
  - f_equal. now apply sound.
  - f_equal. apply exn_idx_inj. now apply Nat.eqb_eq.
Qed.
Definition target_eqb (a b : target) : bool := match a, b with Plain, Plain | Twin, Twin => true | _, _ => false end.
Lemma target_eqb_sound a b : target_eqb a b = true -> a = b.
Proof. destruct a, b; simpl; intros; try reflexivity; discriminate. Qed.
Definition reach_eqb (a b : reach) : bool :=
  match a, b with ByHook, ByHook => true | ByDefault x, ByDefault y => target_eqb x y | _, _ => false end.
Lemma reach_eqb_sound a b : reach_eqb a b = true -> a = b.
Proof. destruct a, b; simpl; intros H; try reflexivity; try discriminate. f_equal. now apply target_eqb_sound. Qed.
Definition probe_eqb (a b : probe) : bool := match a, b with ProbeTwin, ProbeTwin | ProbeName, ProbeName => true | _, _ => false end.
Fixpoint probes_eqb (a b : list probe) : bool :=
  match a, b with [], [] => true | x :: a', y :: b' => probe_eqb x y && probes_eqb a' b' | _, _ => false end.
Lemma probes_eqb_sound a : forall b, probes_eqb a b = true -> a = b.
Proof.
  induction a as [|x a IH]; intros [|y b]; simpl; intros H; try reflexivity; try discriminate.
  apply andb_true_iff in H as [H1 H2]. f_equal; [destruct x, y; simpl in H1; try reflexivity; discriminate | now apply IH].
Qed.

(* ------------------------------------------------------------------ tie: generated functions = model functions *)
(* every one of the 2^7 x 3 x 2 x 8 x 4 points of the abstract domain, evaluated by the kernel *)
Lemma tie_check_attr s perm pne n o : Gen_attrpolicy.check_attr s perm pne n o = Attr.check_attr s perm pne n o.
Proof.
  apply (result_eqb_sound target_eqb target_eqb_sound).
  revert o; apply all_ov. revert n; apply all_nv. revert pne; apply all_b. revert perm; apply all_perm. revert s; apply all_sw.
  vm_compute. reflexivity.
Qed.
Lemma tie_check_probes s perm pne n o : Gen_attrpolicy.check_probes s perm pne n o = Attr.check_probes s perm pne n o.
Proof.
  apply probes_eqb_sound.
  revert o; apply all_ov. revert n; apply all_nv. revert pne; apply all_b. revert perm; apply all_perm. revert s; apply all_sw.
  vm_compute. reflexivity.
Qed.
Lemma tie_access_attr nk hook s perm pne n o :
  Gen_attrpolicy.access_attr nk hook s perm pne n o = Attr.access_attr Gen_attrpolicy.decode_guarded nk hook s perm pne n o.
Proof.
  apply (result_eqb_sound reach_eqb reach_eqb_sound).
  revert o; apply all_ov. revert n; apply all_nv. revert pne; apply all_b. revert perm; apply all_perm. revert s; apply all_sw.
  revert hook; apply all_b. revert nk; apply all_nk.
  vm_compute. reflexivity.
Qed.

(* the tables *)
Lemma tie_routes_ok : routes_ok Gen_attrpolicy.handlers = true.
Proof. vm_compute. reflexivity. Qed.
Lemma tie_dispatch_covered :
  forallb (fun d => existsb (String.eqb (snd d)) (map fst Gen_attrpolicy.handlers)) Gen_attrpolicy.dispatch = true
  /\ List.length Gen_attrpolicy.dispatch = List.length Gen_attrpolicy.handlers.
Proof. split; vm_compute; reflexivity. Qed.
Lemma tie_classic_update : upd_of_pairs Gen_attrpolicy.classic_update = classic_upd.
Proof. reflexivity. Qed.
Definition Fgen : facts :=
  {| f_init_copies := Gen_attrpolicy.init_copies_defaults && Gen_attrpolicy.init_updates_own;
     f_on_connect_own := Gen_attrpolicy.on_connect_updates_own;
     f_requests_leave_config := writes_at_open_only Gen_attrpolicy.config_writes |}.
Lemma tie_facts : f_init_copies Fgen = true /\ f_on_connect_own Fgen = true /\ f_requests_leave_config Fgen = true.
Proof. repeat split; reflexivity. Qed.
(* the handlers that take an attribute name / that take none: exactly these, in source order *)
Lemma tie_handler_partition :
  handlers_with_routes Gen_attrpolicy.handlers = by_name_handlers /\
  handlers_without_routes Gen_attrpolicy.handlers = whole_object_handlers.
Proof. split; reflexivity. Qed.
Lemma tie_cmp_route :
  Gen_attrpolicy.cmp_ops = (if Gen_attrpolicy.cmp_ops_restricted then cmp_names else []).
Proof. reflexivity. Qed.
Lemma tie_pickle_gate : Gen_attrpolicy.pickle_gate = "allow_pickle"%string /\ Gen_attrpolicy.pickle_refusal = "ValueError"%string.
Proof. split; reflexivity. Qed.
(* class Service: no read hook, write and delete hooks that only raise AttributeError; nothing else under rpyc/ defines
   or binds a _rpyc_*attr hook except restricted()'s view *)
Lemma tie_service_hooks :
  Gen_attrpolicy.service_hooks = [("_rpyc_delattr", "deny:AttributeError"); ("_rpyc_setattr", "deny:AttributeError")]%string /\
  Gen_attrpolicy.service_denies_set = true /\ Gen_attrpolicy.service_denies_del = true /\
  Gen_attrpolicy.service_defines_get_hook = false.
Proof. repeat split. Qed.
Lemma tie_hook_definitions : Gen_attrpolicy.hook_definitions =
  [("rpyc/core/service.py:Service", "_rpyc_delattr"); ("rpyc/core/service.py:Service", "_rpyc_setattr");
   ("rpyc/utils/helpers.py:restricted.Restricted", "_rpyc_getattr"); ("rpyc/utils/helpers.py:restricted.Restricted", "_rpyc_setattr")]%string.
Proof. reflexivity. Qed.
(* the only writes to any configuration dict under rpyc/: the three in Connection.__init__ (own fresh dict) and
   SlaveService.on_connect (the connection it was given); DEFAULT_CONFIG is only defined and copied; the shared
   safe_attrs set is only defined and tested for membership *)
Lemma tie_config_writes : Gen_attrpolicy.config_writes =
  [("rpyc/core/protocol.py:Connection.__init__", "assign:DEFAULT_CONFIG.copy()");
   ("rpyc/core/protocol.py:Connection.__init__", "call:update:config");
   ("rpyc/core/protocol.py:Connection.__init__", "setitem:'connid'");
   ("rpyc/core/service.py:SlaveService.on_connect", "call:update:dict-literal")]%string.
Proof. reflexivity. Qed.
Lemma tie_default_config_refs : Gen_attrpolicy.default_config_refs =
  [("rpyc/core/protocol.py:<module>", "define"); ("rpyc/core/protocol.py:Connection.__init__", "copy")]%string.
Proof. reflexivity. Qed.
Lemma tie_safe_attrs_uses : Gen_attrpolicy.safe_attrs_uses =
  [("rpyc/core/protocol.py:<module>", "define"); ("rpyc/core/protocol.py:Connection._check_attr", "membership")]%string.
Proof. reflexivity. Qed.
Lemma tie_restricted :
  Gen_attrpolicy.restricted_hooks = [("_rpyc_getattr", "attrs", "getattr"); ("_rpyc_setattr", "wattrs", "setattr")]%string
  /\ Gen_attrpolicy.restricted_aliases = [("__getattr__", "_rpyc_getattr"); ("__setattr__", "_rpyc_setattr")]%string
  /\ Gen_attrpolicy.restricted_wattrs_default_attrs = true.
Proof. repeat split. Qed.
Lemma tie_default_config :
  Gen_attrpolicy.default_switches = {| allow_safe := true; allow_exposed := true; allow_public := false; allow_all := false;
                                       allow_getattr := true; allow_setattr := false; allow_delattr := false |}
  /\ Gen_attrpolicy.default_prefix = "exposed_"%string /\ List.length Gen_attrpolicy.default_safe_attrs = 80%nat.
Proof. repeat split. Qed.

(* ------------------------------------------------------------------ 1. the decision is the property's table *)
Lemma access_is_spec g nk hook s perm pne n o :
  g = true \/ nk <> KBytesBad -> access_attr g nk hook s perm pne n o = spec_access nk hook s perm pne n o.
Proof.
  intros H.
  assert (E : (g || negb (match nk with KBytesBad => true | _ => false end)) = true).
  { destruct H as [->|H]; [reflexivity|]. destruct nk; try (now rewrite orb_true_r). now elim H. }
  clear H. revert E.
  assert (K : implb (g || negb (match nk with KBytesBad => true | _ => false end))
                    (result_eqb reach_eqb (access_attr g nk hook s perm pne n o) (spec_access nk hook s perm pne n o)) = true).
  { revert o; apply all_ov. revert n; apply all_nv. revert pne; apply all_b. revert perm; apply all_perm. revert s; apply all_sw.
    revert hook; apply all_b. revert nk; apply all_nk. revert g; apply all_b. vm_compute. reflexivity. }
  intros E. rewrite E in K. simpl in K. now apply (result_eqb_sound reach_eqb reach_eqb_sound).
Qed.

(* on a tree that lets the decoding error escape, the table is missed exactly at names that are bytes but not UTF-8 *)
Lemma access_refuted hook s perm pne n o :
  access_attr false KBytesBad hook s perm pne n o = Raise UnicodeError
  /\ spec_access KBytesBad hook s perm pne n o = Raise TypeError.
Proof. split; reflexivity. Qed.

Lemma decide_is_spec g c perm p o :
  g = true \/ nkind_of p <> KBytesBad -> decide g c perm p o = spec_decide c perm p o.
Proof. intros H. unfold decide, spec_decide. now rewrite access_is_spec. Qed.

(* ---- the table, read back as the property's sentences ---- *)
Lemma text_eqb_eq a : forall b, text_eqb a b = true <-> a = b.
Proof.
  induction a as [|x a IH]; intros [|y b]; simpl; split; intros H; try reflexivity; try discriminate.
  - apply andb_true_iff in H as [H1 H2]. apply N.eqb_eq in H1. apply IH in H2. now subst.
  - injection H as -> ->. rewrite N.eqb_refl. simpl. now apply IH.
Qed.
Lemma mem_In n l : mem n l = true <-> In n l.
Proof.
  unfold mem. rewrite existsb_exists. split.
  - intros (x & Hx & E). apply text_eqb_eq in E. now subst.
  - intros H. exists n. split; [exact H|]. now apply text_eqb_eq.
Qed.
Lemma nonempty_iff t : nonempty t = true <-> t <> [].
Proof. destruct t; simpl; split; intros H; try discriminate; try reflexivity; try congruence; try (now elim H). Qed.

Definition is_text (p : pyname) : Prop := nkind_of p = KStr \/ nkind_of p = KBytesOk.
(* "the name must be allowed (everything / exposed-prefix / safe-list / public, as enabled)" *)
Definition allowed (c : cfg) (n : text) : Prop :=
  allow_all (sw c) = true
  \/ (allow_exposed (sw c) = true /\ starts_with (exposed_prefix c) n = true)
  \/ (allow_safe (sw c) = true /\ In n (safe_attrs c))
  \/ (allow_public (sw c) = true /\ starts_with underscore n = false).
(* "or have an exposed-prefixed twin on the object" *)
Definition twin_on (c : cfg) (n : text) (o : obj) : Prop :=
  allow_exposed (sw c) = true /\ exposed_prefix c <> [] /\ In (exposed_prefix c ++ n) (attrs o).

Lemma spec_allowed_iff c n : spec_allowed (sw c) (nview_of c n) = true <-> allowed c n.
Proof.
  unfold spec_allowed, allowed, nview_of; simpl.
  rewrite !orb_true_iff, !andb_true_iff, negb_true_iff, mem_In. tauto.
Qed.
Lemma spec_twin_iff c n o : spec_twin (sw c) (nonempty (exposed_prefix c)) (oview_of c n o) = true <-> twin_on c n o.
Proof.
  unfold spec_twin, twin_on, oview_of, has; simpl.
  rewrite !andb_true_iff, mem_In, nonempty_iff. tauto.
Qed.

Ltac split_spec c perm p o :=
  destruct (lookup_perm (sw c) perm); destruct (spec_allowed (sw c) (nview_of c (text_of p)));
  destruct (spec_twin (sw c) (nonempty (exposed_prefix c)) (oview_of c (text_of p) o));
  destruct (has_name (oview_of c (text_of p) o)); simpl.
Lemma spec_sound c perm p o final :
  hook_for o perm = false -> spec_decide c perm p o = Ok (ViaDefault final) ->
  is_text p /\ lookup_perm (sw c) perm = true /\
  ((final = text_of p /\ allowed c (text_of p)) \/ (final = exposed_prefix c ++ text_of p /\ twin_on c (text_of p) o)).
Proof.
  intros Hh. unfold spec_decide, spec_access, is_text. rewrite Hh.
  pose proof (spec_allowed_iff c (text_of p)) as HA. pose proof (spec_twin_iff c (text_of p) o) as HT.
  destruct (nkind_of p); cbv beta iota; try (simpl; discriminate);
    (split_spec c perm p o; try discriminate; intros [= <-]; (split; [auto|split; [reflexivity|]]);
     first [left; split; [reflexivity|now apply HA] | right; split; [reflexivity|now apply HT]]).
Qed.
Lemma spec_complete c perm p o :
  hook_for o perm = false -> is_text p -> lookup_perm (sw c) perm = true ->
  allowed c (text_of p) \/ twin_on c (text_of p) o ->
  exists final, spec_decide c perm p o = Ok (ViaDefault final).
Proof.
  intros Hh Ht Hp H. unfold spec_decide, spec_access. rewrite Hh, Hp.
  pose proof (spec_allowed_iff c (text_of p)) as HA. pose proof (spec_twin_iff c (text_of p) o) as HT.
  assert (E : spec_allowed (sw c) (nview_of c (text_of p)) || spec_twin (sw c) (nonempty (exposed_prefix c)) (oview_of c (text_of p) o) = true).
  { apply orb_true_iff. destruct H; [left; now apply HA | right; now apply HT]. }
  clear HA HT H. revert E.
  destruct Ht as [-> | ->]; cbv beta iota;
    (destruct (spec_allowed (sw c) (nview_of c (text_of p)));
     destruct (spec_twin (sw c) (nonempty (exposed_prefix c)) (oview_of c (text_of p) o));
     destruct (has_name (oview_of c (text_of p) o)); simpl; intros E; try discriminate; eexists; reflexivity).
Qed.
Lemma spec_denied c perm p o :
  hook_for o perm = false -> is_text p ->
  ~ (lookup_perm (sw c) perm = true /\ (allowed c (text_of p) \/ twin_on c (text_of p) o)) ->
  spec_decide c perm p o = Raise AttributeError.
Proof.
  intros Hh Ht H. unfold spec_decide, spec_access. rewrite Hh.
  pose proof (spec_allowed_iff c (text_of p)) as HA. pose proof (spec_twin_iff c (text_of p) o) as HT.
  destruct Ht as [-> | ->]; cbv beta iota;
    (split_spec c perm p o; try reflexivity; elim H; (split; [reflexivity|]);
     first [left; now apply HA | right; now apply HT]).
Qed.
Lemma spec_not_text c perm p o : ~ is_text p -> spec_decide c perm p o = Raise TypeError.
Proof.
  unfold is_text, spec_decide, spec_access. intros H. destruct (nkind_of p); try reflexivity; elim H; auto.
Qed.

(* ------------------------------------------------------------------ 2. a refusal has no effect *)
Lemma probes_only_twin_when_refused s perm pne n o e :
  check_attr s perm pne n o = Raise e -> forall q, In q (check_probes s perm pne n o) -> q = ProbeTwin.
Proof.
  assert (K : match check_attr s perm pne n o with
              | Raise _ => forallb (fun q => probe_eqb q ProbeTwin) (check_probes s perm pne n o) | _ => true end = true).
  { revert o; apply all_ov. revert n; apply all_nv. revert pne; apply all_b. revert perm; apply all_perm. revert s; apply all_sw.
    vm_compute. reflexivity. }
  intros E q Hq. rewrite E in K. rewrite forallb_forall in K. specialize (K q Hq). destruct q; [reflexivity|discriminate].
Qed.

Lemma denied_no_effect g c perm p o e :
  o_decision (handle g c perm p o) = Raise e ->
  o_result (handle g c perm p o) = Raise e /\ o_touch (handle g c perm p o) = [] /\ o_obj (handle g c perm p o) = o
  /\ forall x, In x (o_trace (handle g c perm p o)) -> x = EGet (exposed_prefix c ++ text_of p).
Proof.
  unfold handle. destruct (decide g c perm p o) as [[n|final]| e' | |] eqn:D; simpl; try discriminate.
  { destruct (perform perm final o) as [[r t] o']. simpl. discriminate. }
  intros [= ->]. repeat split; try reflexivity.
  intros x Hx. unfold probes_of in Hx.
  unfold decide, access_attr in D.
  destruct (nkind_of p); simpl in Hx; try contradiction;
    (destruct (hook_for o perm); simpl in Hx; try contradiction;
     destruct (check_attr (sw c) perm (nonempty (exposed_prefix c)) (nview_of c (text_of p)) (oview_of c (text_of p) o)) as [t|e''| |] eqn:C;
     try (destruct t; discriminate); try discriminate;
     apply in_map_iff in Hx as (q & <- & Hq);
     now rewrite (probes_only_twin_when_refused _ _ _ _ _ _ C q Hq)).
Qed.

(* granted accesses touch exactly the decided attribute, once, with the requested kind of operation *)
Lemma granted_touches_final g c perm p o final :
  o_decision (handle g c perm p o) = Ok (ViaDefault final) ->
  o_touch (handle g c perm p o) = [match perm with PGet => EGet final | PSet => ESet final | PDel => EDel final end].
Proof.
  unfold handle. destruct (decide g c perm p o) as [[n|f]| e' | |] eqn:D; simpl; try discriminate.
  destruct (perform perm f o) as [[r t] o'] eqn:P. simpl. intros [= ->].
  destruct perm; simpl in P; injection P as <- <- <-; reflexivity.
Qed.

(* ------------------------------------------------------------------ 3. own hooks decide instead of the configuration *)
Lemma hook_overrides g c perm p o :
  hook_for o perm = true -> is_text p -> decide g c perm p o = Ok (ViaHook (text_of p)).
Proof. intros Hh [E|E]; unfold decide, access_attr; rewrite Hh, E; reflexivity. Qed.

Lemma restricted_get_exact r n :
  (In n (r_attrs r) -> restricted_get r n = perform PGet n (r_under r)) /\
  (~ In n (r_attrs r) -> restricted_get r n = (Raise AttributeError, [], r_under r)).
Proof.
  unfold restricted_get. pose proof (mem_In n (r_attrs r)) as M. destruct (mem n (r_attrs r)); split; intros H; try reflexivity.
  - elim H. now apply M.
  - apply M in H. discriminate.
Qed.
Lemma restricted_set_exact r n :
  (In n (r_wlist r) -> restricted_set r n = perform PSet n (r_under r)) /\
  (~ In n (r_wlist r) -> restricted_set r n = (Raise AttributeError, [], r_under r)).
Proof.
  unfold restricted_set. pose proof (mem_In n (r_wlist r)) as M. destruct (mem n (r_wlist r)); split; intros H; try reflexivity.
  - elim H. now apply M.
  - apply M in H. discriminate.
Qed.
(* through a connection: whatever the configuration, a restricted view is read at exactly its listed names,
   written at exactly its writable names, never deleted from *)
Lemma restricted_via_connection g c p r : is_text p ->
  handle_restricted g c PGet p r = restricted_get r (text_of p) /\
  handle_restricted g c PSet p r = restricted_set r (text_of p) /\
  (exists tr, handle_restricted g c PDel p r = (Raise AttributeError, tr, r_under r) /\ forall e, In e tr -> is_write e = false).
Proof.
  intros [E|E]; unfold handle_restricted; rewrite E; (split; [reflexivity|split; [reflexivity|]]);
    (eexists; split; [reflexivity|]; intros e He; apply in_flat_map in He as (q & _ & He);
     destruct (probe_ev c (text_of p) q); simpl in He; try contradiction; unfold r_probe_ev in He;
     destruct (mem n (r_attrs r)); simpl in He; [destruct He as [<-|[]]; reflexivity | contradiction]).
Qed.
Lemma restricted_underlying_changes_only_by_listed_write g c perm p r :
  snd (handle_restricted g c perm p r) <> r_under r -> perm = PSet /\ In (text_of p) (r_wlist r).
Proof.
  unfold handle_restricted. destruct (nkind_of p); simpl; try (intros H; now elim H);
    (destruct perm; simpl; try (intros H; now elim H);
     [unfold restricted_get; destruct (mem (text_of p) (r_attrs r)); simpl; intros H; now elim H |
      unfold restricted_set; destruct (mem (text_of p) (r_wlist r)) eqn:M; simpl; intros H; [split; [reflexivity|now apply mem_In] | now elim H]]).
Qed.

(* a Service instance denies writes and deletes on itself whatever the configuration; reads follow the configuration *)
Lemma service_root g c p l : is_text p ->
  handle_service true true g c PSet p l = (Raise AttributeError, [], svc_obj l) /\
  handle_service true true g c PDel p l = (Raise AttributeError, [], svc_obj l) /\
  handle_service true true g c PGet p l =
    (o_result (handle g c PGet p (svc_obj l)), o_trace (handle g c PGet p (svc_obj l)), o_obj (handle g c PGet p (svc_obj l))) /\
  hook_for (svc_obj l) PGet = false.
Proof. intros [E|E]; unfold handle_service; rewrite E; repeat split. Qed.
Lemma service_root_unchanged ds dd g c perm p l : snd (handle_service ds dd g c perm p l) = svc_obj l.
Proof.
  unfold handle_service. destruct (nkind_of p); try reflexivity;
    (destruct perm; [|destruct ds; reflexivity|destruct dd; reflexivity]; simpl;
     unfold handle; destruct (decide g c PGet p (svc_obj l)) as [[n|f]| | |]; reflexivity).
Qed.

(* ------------------------------------------------------------------ 4. every route to an attribute is checked *)
Lemma route_perm_sound r p : route_perm r = Some p ->
  exists t, r = match p with
      | PGet => RAccess t "_rpyc_getattr" "allow_getattr" "getattr"
      | PSet => RAccess t "_rpyc_setattr" "allow_setattr" "setattr"
      | PDel => RAccess t "_rpyc_delattr" "allow_delattr" "delattr"
      end%string.
Proof.
  destruct r as [t o q d| |]; simpl; try discriminate.
  destruct (String.eqb o "_rpyc_getattr" && String.eqb q "allow_getattr" && String.eqb d "getattr") eqn:A.
  { intros [= <-]. exists t. apply andb_true_iff in A as [A A3]. apply andb_true_iff in A as [A1 A2].
    apply String.eqb_eq in A1, A2, A3. now subst. }
  destruct (String.eqb o "_rpyc_setattr" && String.eqb q "allow_setattr" && String.eqb d "setattr") eqn:B.
  { intros [= <-]. exists t. apply andb_true_iff in B as [B B3]. apply andb_true_iff in B as [B1 B2].
    apply String.eqb_eq in B1, B2, B3. now subst. }
  destruct (String.eqb o "_rpyc_delattr" && String.eqb q "allow_delattr" && String.eqb d "delattr") eqn:C; try discriminate.
  intros [= <-]. exists t. apply andb_true_iff in C as [C C3]. apply andb_true_iff in C as [C1 C2].
  apply String.eqb_eq in C1, C2, C3. now subst.
Qed.
Lemma perms_eqb_sound a : forall b, perms_eqb a b = true -> a = b /\ Forall (fun x => x <> None) a.
Proof.
  induction a as [|x a IH]; intros [|y b]; simpl; intros H; try discriminate; [split; [reflexivity|constructor]|].
  apply andb_true_iff in H as [H1 H2]. destruct (IH _ H2) as [-> F].
  destruct x as [[]|], y as [[]|]; simpl in H1; try discriminate; (split; [reflexivity | constructor; [discriminate|exact F]]).
Qed.
Lemma targets_eqb_sound a : forall b, targets_eqb a b = true -> a = b.
Proof.
  induction a as [|x a IH]; intros [|y b]; simpl; intros H; try discriminate; [reflexivity|].
  apply andb_true_iff in H as [H1 H2]. rewrite (IH _ H2).
  destruct x as [x|], y as [y|]; simpl in H1; try discriminate. apply Bool.eqb_prop in H1. now subst.
Qed.
Lemma routes_checked (t : htable) : routes_ok t = true -> forall h rs, In (h, rs) t ->
  handler_perms t h = expected_perms h /\ Forall (fun x => x <> None) (handler_perms t h) /\
  handler_targets t h = expected_targets h.
Proof.
  unfold routes_ok. intros H h rs Hin. rewrite forallb_forall in H. specialize (H _ Hin). simpl in H.
  apply andb_true_iff in H as [H1 H2]. destruct (perms_eqb_sound _ _ H1) as [A B].
  repeat split; auto. now apply targets_eqb_sound.
Qed.

(* the cmp route: served names when the accessor is restricted to the comparison protocol; and, when it is not, a method
   reached by name although the object's own hook -- which decides on every other route -- was never asked *)
Lemma cmp_restricted_only_comparisons g c p ty final :
  decide_cmp true g c p ty = Ok (ViaDefault final) -> In final (map text_of_string cmp_names).
Proof.
  unfold decide_cmp. destruct (decide g c PGet p ty) as [[n|f]| | |]; try discriminate.
  destruct (mem f (map text_of_string cmp_names)) eqn:M; cbn [andb negb]; try discriminate.
  intros [= <-]. now apply mem_In.
Qed.
Lemma cmp_hook_never_asked r g c p ty : decide_cmp r g c p ty = Ok (ViaHook (text_of p)) -> hook_get ty = true.
Proof.
  unfold decide_cmp, decide, access_attr. destruct (hook_for ty PGet) eqn:Hk; [intros _; exact Hk|].
  destruct (nkind_of p); simpl; try discriminate;
    destruct (check_attr (sw c) PGet (nonempty (exposed_prefix c)) (nview_of c (text_of p)) (oview_of c (text_of p) ty)) as [[]| | |];
    simpl; try discriminate;
    match goal with |- context [if ?b then _ else _] => destruct b end; discriminate.
Qed.

(* ------------------------------------------------------------------ 5. isolation between connections *)
Fixpoint opens_of (h : list hop) : list (upd * svc) :=
  match h with [] => [] | HOpen u s :: r => (u, s) :: opens_of r | _ :: r => opens_of r end.
Lemma nth_open_opens h : forall i, nth_open h i = nth_error (opens_of h) i.
Proof.
  induction h as [|op h IH]; intros i; simpl; [now destruct i|].
  destruct op; simpl; try apply IH. destruct i; simpl; [reflexivity|apply IH].
Qed.
Lemma opens_of_app a b : opens_of (a ++ b) = opens_of a ++ opens_of b.
Proof. induction a as [|op a IH]; simpl; [reflexivity|]. destruct op; simpl; now rewrite IH. Qed.

Lemma upd_nth_last {A} (l : list A) x f : upd_nth (List.length l) f (l ++ [x]) = l ++ [f x].
Proof. induction l; simpl; [reflexivity|]. now rewrite IHl. Qed.
Lemma map_cell_upd_nth i l :
  map cell (upd_nth i (fun k => {| cell := cell k; live := false |}) l) = map cell l.
Proof. revert i. induction l as [|k l IH]; intros [|i]; simpl; try reflexivity. now rewrite IH. Qed.

Section Isolation.
  Variable F : facts.
  Variable d : cfg.
  Hypothesis Hcopy : f_init_copies F = true.
  Hypothesis Hown : f_on_connect_own F = true.
  Hypothesis Hreq : f_requests_leave_config F = true.
  Definition own (x : upd * svc) : cfg := own_cfg d (fst x) (snd x).
  Definition Inv (w : world) (opens : list (upd * svc)) : Prop :=
    heap w = d :: map own opens /\ map cell (conns w) = seq 1 (List.length opens).

  Lemma step_inv w opens op : Inv w opens -> Inv (step F w op) (opens ++ opens_of [op]).
  Proof.
    intros [Hh Hc]. destruct op as [u s|i|i]; simpl; try (rewrite app_nil_r).
    - rewrite Hcopy, Hown. rewrite Hh. simpl nth.
      assert (L : List.length (d :: map own opens) = S (List.length opens)) by (simpl; now rewrite map_length).
      split.
      + cbn [heap]. destruct s; rewrite !upd_nth_last, map_app; reflexivity.
      + cbn [conns]. rewrite map_app, Hc, app_length. cbn [map cell]. rewrite L, Nat.add_1_r, seq_S. reflexivity.
    - split; [exact Hh|]. simpl. now rewrite map_cell_upd_nth.
    - rewrite Hreq. split; assumption.
  Qed.
  Lemma run_inv h : forall w opens, Inv w opens -> Inv (fold_left (step F) h w) (opens ++ opens_of h).
  Proof.
    induction h as [|op h IH]; intros w opens H; simpl; [now rewrite app_nil_r|].
    specialize (IH _ _ (step_inv _ _ op H)). rewrite <- app_assoc in IH.
    replace (opens_of [op] ++ opens_of h) with (opens_of (op :: h)) in IH by (destruct op; reflexivity). exact IH.
  Qed.
  Lemma inv_cfg_of w opens i : Inv w opens -> cfg_of w i = option_map own (nth_error opens i).
  Proof.
    intros [Hh Hc]. unfold cfg_of.
    assert (E : option_map cell (nth_error (conns w) i) = nth_error (seq 1 (List.length opens)) i).
    { rewrite <- Hc. clear. revert i. induction (conns w); intros [|i]; simpl; auto. }
    destruct (nth_error (conns w) i) as [k|] eqn:K; simpl in E.
    - assert (Hi : (i < List.length opens)%nat).
      { rewrite <- (seq_length (List.length opens) 1). apply nth_error_Some. now rewrite <- E. }
      rewrite (nth_error_nth' _ 0%nat) in E by (now rewrite seq_length). rewrite seq_nth in E by exact Hi.
      injection E as ->. rewrite Hh. simpl. apply nth_error_map.
    - symmetry in E. apply nth_error_None in E. rewrite seq_length in E.
      destruct (nth_error opens i) eqn:N; [|reflexivity]. apply nth_error_None in E. congruence.
  Qed.
  Lemma cfg_of_run h i : cfg_of (run F d h) i = option_map own (nth_error (opens_of h) i).
  Proof.
    unfold run. apply (inv_cfg_of _ _ i (run_inv h (init_world d) [] (conj eq_refl eq_refl))).
  Qed.
  Lemma default_of_run h : default_of (run F d h) = d.
  Proof.
    unfold run, default_of. destruct (run_inv h (init_world d) [] (conj eq_refl eq_refl)) as [-> _]. reflexivity.
  Qed.

  (* a connection's configuration is what it was given at open (plus its own on_connect), whatever else happened *)
  Theorem isolation h i u s : nth_open h i = Some (u, s) -> cfg_of (run F d h) i = Some (own_cfg d u s).
  Proof. intros H. rewrite cfg_of_run, <- nth_open_opens, H. reflexivity. Qed.
  (* and no later operation on any connection -- open, classic on_connect, close, request -- changes it *)
  Theorem isolation_frame h op j c : cfg_of (run F d h) j = Some c -> cfg_of (step F (run F d h) op) j = Some c.
  Proof.
    intros H. change (step F (run F d h) op) with (fold_left (step F) [op] (run F d h)).
    unfold run in *. rewrite <- fold_left_app. fold (run F d (h ++ [op])). fold (run F d h) in H.
    rewrite cfg_of_run in *. rewrite opens_of_app.
    destruct (nth_error (opens_of h) j) eqn:N; simpl in H; [|discriminate].
    rewrite nth_error_app1 by (apply nth_error_Some; congruence). now rewrite N.
  Qed.
End Isolation.

(* had __init__ shared the default dict, or on_connect written to a shared dict, or request-time code written to a
   configuration dict, isolation would fail *)
Definition d0 : cfg := dummy_cfg.
Definition d1 : cfg := apply_upd [SetSw KGetattr true] dummy_cfg.
Lemma isolation_refuted_shared_default F : f_init_copies F = false ->
  exists h i u s, nth_open h i = Some (u, s) /\ cfg_of (run F d0 h) i <> Some (own_cfg d0 u s).
Proof.
  intros H. exists [HOpen [] SvcPlain; HOpen [SetSw KAll true] SvcPlain], 0%nat, [], SvcPlain.
  split; [reflexivity|]. destruct F as [a b r]. simpl in H. subst a. destruct b, r; vm_compute; discriminate.
Qed.
Lemma isolation_refuted_foreign_on_connect F : f_on_connect_own F = false ->
  exists h i u s, nth_open h i = Some (u, s) /\ cfg_of (run F d0 h) i <> Some (own_cfg d0 u s).
Proof.
  intros H. destruct F as [a b r]. simpl in H. subst b. destruct a.
  - exists [HOpen [] SvcClassic; HOpen [] SvcPlain], 1%nat, [], SvcPlain. split; [reflexivity|]. destruct r; vm_compute; discriminate.
  - exists [HOpen [] SvcPlain; HOpen [] SvcClassic], 0%nat, [], SvcPlain. split; [reflexivity|]. destruct r; vm_compute; discriminate.
Qed.
Lemma isolation_refuted_request_writes F : f_requests_leave_config F = false ->
  exists h i u s, nth_open h i = Some (u, s) /\ cfg_of (run F d1 h) i <> Some (own_cfg d1 u s).
Proof.
  intros H. exists [HOpen [] SvcPlain; HOpen [] SvcPlain; HAccess 1], 0%nat, [], SvcPlain.
  split; [reflexivity|]. destruct F as [a b r]. simpl in H. subst r. destruct a, b; vm_compute; discriminate.
Qed.

(* ------------------------------------------------------------------ the generated decision on concrete inputs *)
Definition decide_gen (c : cfg) (perm : permkey) (p : pyname) (o : obj) : result via :=
  via_of c (text_of p)
    (Gen_attrpolicy.access_attr (nkind_of p) (hook_for o perm) (sw c) perm (nonempty (exposed_prefix c))
                                (nview_of c (text_of p)) (oview_of c (text_of p) o)).
Lemma decide_gen_eq c perm p o : decide_gen c perm p o = decide Gen_attrpolicy.decode_guarded c perm p o.
Proof. unfold decide_gen, decide. now rewrite tie_access_attr. Qed.
Lemma is_text_not_bad p : is_text p -> nkind_of p <> KBytesBad.
Proof. intros [E|E]; rewrite E; discriminate. Qed.
